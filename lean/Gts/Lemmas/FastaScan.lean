/-
  C07, FASTA streams: the scan loop over `FastaParser` and the first `Scan` of `NewAutoScanner`
  (modelled fragment: input that does not begin with `LOCUS`) never report a panic, for every byte
  string.  On top of `fastaParse_run` (C17).  Core Lean only.
-/
import Gts.Lemmas.Fasta
import Gts.Lemmas.ParsSafe
namespace Gts.Fasta
open Gts.Pars

theorem fastaParse_ne_panic (s : PS) : (fastaParse.run' s).1 ≠ .error .panic := by
  obtain ⟨t, stk⟩ := s
  rw [run'_eq, fastaParse_run]
  cases t with
  | nil => simp
  | cons c t' => by_cases h : c = 62 <;> simp [h]

/-- the loop of `Scanner.Scan` never reports a panic -/
theorem scanLoop_ne_panic : ∀ fuel s, scanLoop fuel s ≠ .panic
  | 0, _ => by simp [scanLoop]
  | fuel + 1, s => by
    have hp := fastaParse_ne_panic s
    have ih := scanLoop_ne_panic fuel
    unfold scanLoop
    repeat' split
    all_goals first
      | (intro h; cases h; done)
      | exact ih _
      | (rename_i heq; rw [heq] at hp; exact absurd rfl hp)

/-- the first, pushed parse of the auto scanner ends with a value or a plain failure -/
theorem first_run (s : PS) :
    ∃ o s', (do push; let r ← attempt fastaParse; pure r : P (Option (Bytes × Bytes))).run' s = (.ok o, s') := by
  have hp := fastaParse_ne_panic ⟨s.rest, s.rest :: s.stk⟩
  rw [run_bind, run_push]
  dsimp only
  rw [run_attempt]
  rcases hrun : fastaParse.run' ⟨s.rest, s.rest :: s.stk⟩ with ⟨r, s'⟩
  rw [hrun] at hp
  rcases r with e | a
  · cases e
    · exact ⟨none, s', rfl⟩
    · exact absurd rfl hp
  · exact ⟨some a, s', rfl⟩

/-- `seqio.NewScanner(seqio.FastaParser, r)` and, on input that does not begin with `LOCUS`,
`seqio.NewAutoScanner(r)`: no panic, for every byte string -/
theorem scanAll_ne_panic (auto : Bool) (text : Bytes) : scanAll auto text ≠ .panic := by
  unfold scanAll
  cases auto with
  | false => exact scanLoop_ne_panic _ _
  | true =>
    show scanFirstAuto ⟨text, []⟩ ≠ .panic
    obtain ⟨o, s1, e⟩ := first_run ⟨text, []⟩
    have hl := scanLoop_ne_panic ((drop.run' s1).2.rest.length + 1) (drop.run' s1).2
    unfold scanFirstAuto
    -- two shapes of `scanFirstAuto` are handled: with and without the leading "nothing to
    -- read" test of repo b5ab011
    first
    | (split
       · simp
       · dsimp only
         rw [e]
         cases o with
         | none => simp
         | some r =>
           dsimp only
           cases hl' : scanLoop ((drop.run' s1).2.rest.length + 1) (drop.run' s1).2 with
           | done rs c => simp
           | panic => exact absurd hl' hl
           | unmodelled => simp)
    | (rw [e]
       repeat' split
       all_goals first
         | (intro h; cases h; done)
         | (rename_i heq; cases heq; dsimp only; split <;> first | (intro h; cases h; done) | exact hl)
         | (rename_i heq; cases heq; exact hl)
         | (rename_i heq; cases heq))

end Gts.Fasta
