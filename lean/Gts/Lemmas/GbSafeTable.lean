/-
  C07, record scanners: the reader of the INSDC feature table (`Gts.Model.InsdcParse`:
  `pars.Quoted`, the three qualifier value parsers, `QualifierParser` with the learning of unknown
  names, `pars.Many`, key lines, `INSDCTableParser`) never panics and keeps the S-invariant of
  `Gts.Lemmas.ParsSorted`.  The loops are inductions on their fuel.  Core Lean only.
-/
import Gts.Lemmas.ParsSorted
import Gts.Model.InsdcParse
namespace Gts.GenBank
open Gts.Pars

variable {L : Nat}

macro_rules | `(tactic| safe_side) => `(tactic| with_reducible exact eol_safe)
macro_rules | `(tactic| safe_side) => `(tactic| with_reducible exact line_safe)
macro_rules | `(tactic| safe_side) => `(tactic| with_reducible exact spaces_safe)
macro_rules | `(tactic| safe_side) => `(tactic| with_reducible exact word_safe _)

/-- `pars.Quoted('"')` only moves forward -/
theorem quoted_safe : Safe quoted := by
  intro L base n s h
  unfold quoted
  rw [wp_bind]; apply wp_getS; dsimp only
  split
  · split
    · rw [wp_bind]
      apply wps_setS
      dsimp only
      rw [wp_pure]
      refine std_ok (h.advance _ ?_)
      rename_i _ r hr _ k hk
      rw [hr]
      simp only [List.length_drop, List.length_cons]; omega
    · exact std_fail h
  · exact std_fail h

macro_rules | `(tactic| safe_side) => `(tactic| with_reducible exact quoted_safe)

theorem quotedValue_safeS (pre : Bytes) : SafeS L (quotedValue pre) := by
  unfold quotedValue; wps_run

macro_rules | `(tactic| safeS_side) => `(tactic| with_reducible exact quotedValue_safeS _)

theorem literalMore_safeS (pre : Bytes) : ∀ f p, SafeS L (literalMore pre f p)
  | 0, p => by unfold literalMore; wps_run
  | f + 1, p => by
    have ih := literalMore_safeS pre f
    unfold literalMore; wps_run

macro_rules | `(tactic| safeS_side) => `(tactic| with_reducible exact literalMore_safeS _ _ _)

theorem literalValue_safeS (pre : Bytes) : SafeS L (literalValue pre) := by
  unfold literalValue; wps_run

macro_rules | `(tactic| safeS_side) => `(tactic| with_reducible exact literalValue_safeS _)

theorem qualifierName_safe (pre : Bytes) : Safe (qualifierName pre) := by
  unfold qualifierName; wp_run

macro_rules | `(tactic| safe_side) => `(tactic| with_reducible exact qualifierName_safe _)

theorem qualifier_safeS (pre : Bytes) (reg : Registry) : SafeS L (qualifier pre reg) := by
  unfold qualifier; wps_run

macro_rules | `(tactic| safeS_side) => `(tactic| with_reducible exact qualifier_safeS _ _)

theorem qualifiers_safeS (pre : Bytes) : ∀ f reg acc, SafeS L (qualifiers pre f reg acc)
  | 0, reg, acc => by unfold qualifiers; wps_run
  | f + 1, reg, acc => by
    have ih := qualifiers_safeS pre f
    unfold qualifiers; wps_run

macro_rules | `(tactic| safeS_side) => `(tactic| with_reducible exact qualifiers_safeS _ _ _ _)

/-- `gts.ParseLocation` with the fuel of `parseLocation` -/
theorem location_safe : Safe location := by
  intro L base n s h
  unfold location
  rw [wp_bind]; apply wp_getS; dsimp only
  exact loc_safe _ L base n s h

macro_rules | `(tactic| safe_side) => `(tactic| with_reducible exact location_safe)

theorem blanks_safe : ∀ n, Safe (blanks n)
  | 0 => by unfold blanks; wp_run
  | n + 1 => by
    have ih := blanks_safe n
    unfold blanks; wp_run

macro_rules | `(tactic| safe_side) => `(tactic| with_reducible exact blanks_safe _)

theorem keyline_safe (pre depth : Nat) : Safe (keyline pre depth) := by
  unfold keyline; wp_run

macro_rules | `(tactic| safe_side) => `(tactic| with_reducible exact keyline_safe _ _)

theorem firstKeyline_safeS : SafeS L firstKeyline := by
  unfold firstKeyline; wps_run

macro_rules | `(tactic| safeS_side) => `(tactic| with_reducible exact firstKeyline_safeS)

theorem tableMore_safeS (pre depth : Nat) : ∀ f reg acc, SafeS L (tableMore pre depth f reg acc)
  | 0, reg, acc => by unfold tableMore; wps_run
  | f + 1, reg, acc => by
    have ih := tableMore_safeS pre depth f
    unfold tableMore; wps_run

macro_rules | `(tactic| safeS_side) => `(tactic| with_reducible exact tableMore_safeS _ _ _ _ _)

/-- `INSDCTableParser("")`: no panic from any sorted, bounded state -/
theorem table_safeS (reg : Registry) : SafeS L (table reg) := by
  unfold table; wps_run

macro_rules | `(tactic| safeS_side) => `(tactic| with_reducible exact table_safeS _)

end Gts.GenBank
