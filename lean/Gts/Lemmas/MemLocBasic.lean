/-
  C11 — helper lemmas for the heap programs of the location methods (Gts/Model/MemLoc.lean):
  `RefsAbove` / `Closed` under the primitive heap operations, `Owned` slices built by composite
  literals and by `LocationList.Slice()`, and the basic facts about `Reads`.
-/
import Gts.Lemmas.Mem
import Gts.Model.MemLoc
namespace Gts.Mem
open Heap

/-! ### `RefsAbove`, `Closed` -/

theorem RefsAbove.mono {n n' : Nat} (hn : n ≤ n') : ∀ {m : MLoc}, RefsAbove n' m → RefsAbove n m
  | .leaf _, _ => trivial
  | .joined _, h => Nat.le_trans hn h
  | .ordered _, h => Nat.le_trans hn h
  | .compl m, h => RefsAbove.mono hn (m := m) h

theorem refsAbove_default (n : Nat) : RefsAbove n (default : MLoc) := trivial

theorem closed_write {n : Nat} {h : LHeap} (hc : Closed n h) (a pos : Nat) {xs : List MLoc}
    (hx : ∀ c ∈ xs, RefsAbove n c) : Closed n (write h a pos xs) := by
  intro b hb x hxm
  by_cases hab : a = b
  · subst hab
    by_cases hl : a < h.length
    · rw [get_write_eq _ _ _ hl] at hxm
      rcases mem_overwrite hxm with h1 | h1
      · exact hc _ hb x h1
      · exact hx x h1
    · rw [get_of_le (by rw [length_write]; omega)] at hxm
      cases hxm
  · rw [get_write_ne _ _ _ hab] at hxm
    exact hc b hb x hxm

theorem closed_mk {n : Nat} {h : LHeap} (hc : Closed n h) (len cap : Nat) :
    Closed n (mk h len cap).2 :=
  closed_snoc hc fun c hcm => by
    rw [List.eq_of_mem_replicate hcm]; exact refsAbove_default n

/-- arrays `≥ n` of the old heap are unchanged, the new arrays refer only to new arrays -/
theorem closed_extend {n : Nat} {h h' : LHeap} (hc : Closed n h) (hp : h <+: h')
    (hc' : Closed h.length h') (hn : n ≤ h.length) : Closed n h' := by
  intro a ha x hx
  by_cases hl : a < h.length
  · rw [get_prefix hp hl] at hx; exact hc a ha x hx
  · exact RefsAbove.mono hn (hc' a (by omega) x hx)

theorem mem_read {h : LHeap} {s : Slice} {c : MLoc} (hc : c ∈ read h s) : c ∈ h.get s.arr :=
  List.mem_of_mem_drop (List.mem_of_mem_take hc)

theorem closed_append (g : Grow) {n : Nat} {h : LHeap} (hc : Closed n h) (s : Slice)
    (hs : ∀ c ∈ read h s, RefsAbove n c) {xs : List MLoc} (hx : ∀ c ∈ xs, RefsAbove n c) :
    Closed n (append g h s xs).2 := by
  unfold Heap.append
  split
  · exact closed_write hc _ _ hx
  · refine closed_snoc hc fun c hcm => ?_
    rcases List.mem_append.1 hcm with h1 | h1
    · rcases List.mem_append.1 h1 with h2 | h2
      · exact hs c h2
      · exact hx c h2
    · rw [List.eq_of_mem_replicate h1]; exact refsAbove_default n

/-- the elements a slice `≥ n` shows are cells of an array `≥ n` -/
theorem refs_of_read {n : Nat} {h : LHeap} (hc : Closed n h) {s : Slice} (hs : n ≤ s.arr) :
    ∀ c ∈ read h s, RefsAbove n c := fun c hcm => hc _ hs c (mem_read hcm)

theorem len_le_cap_append (g : Grow) (h : LHeap) (s : Slice) (xs : List MLoc) :
    (append g h s xs).1.len ≤ (append g h s xs).1.cap := by
  unfold Heap.append
  split
  · assumption
  · simp only []; omega

/-! ### owned slices -/

theorem Owned.mono {α : Type} {h0 h h' : Heap α} {s : Slice} {xs : List α} (ho : Owned h0 h s xs)
    (hp : h <+: h') : Owned h0 h' s xs :=
  ⟨ho.pre.trans hp, ho.fresh, wf_mono hp ho.wf, by rw [read_mono hp ho.wf]; exact ho.rd⟩

theorem Owned.arr_ge {α : Type} {h0 h : Heap α} {s : Slice} {xs : List α} (ho : Owned h0 h s xs)
    (hx : xs ≠ []) : h0.length ≤ s.arr := by
  rcases ho.fresh with h1 | h1
  · exact h1
  · have hl := length_read ho.wf
    rw [ho.rd] at hl
    have := ho.wf.1
    have : xs.length = 0 := by omega
    exact absurd (List.eq_nil_of_length_eq_zero this) hx

/-- a composite literal is a new array holding exactly its elements -/
theorem litSlice_owned {h0 h : LHeap} (hp : h0 <+: h) (xs : List MLoc) :
    Owned h0 (litSlice h xs).2 (litSlice h xs).1 xs := by
  have o0 := mk_owned (α := MLoc) hp (Nat.le_refl xs.length)
  have o1 := write_owned o0 0 xs (by simp [mk])
  rw [Nat.add_zero, overwrite_full _ _ (by simp)] at o1
  exact o1

theorem litSlice_closed {n : Nat} {h : LHeap} (hc : Closed n h) {xs : List MLoc}
    (hx : ∀ c ∈ xs, RefsAbove n c) : Closed n (litSlice h xs).2 :=
  closed_write (closed_mk hc _ _) _ _ hx

theorem listFold_owned (g : Grow) {n : Nat} {h0 : LHeap} (rest : List MLoc)
    (hr : ∀ c ∈ rest, RefsAbove n c) :
    ∀ (st : Slice × LHeap) (xs : List MLoc), Owned h0 st.2 st.1 xs → Closed n st.2 →
      (∀ c ∈ xs, RefsAbove n c) →
      Owned h0 (rest.foldl (fun (st : Slice × LHeap) x => append g st.2 st.1 [x]) st).2
        (rest.foldl (fun (st : Slice × LHeap) x => append g st.2 st.1 [x]) st).1 (xs ++ rest) ∧
      Closed n (rest.foldl (fun (st : Slice × LHeap) x => append g st.2 st.1 [x]) st).2 := by
  induction rest with
  | nil => intro st xs ho hc _; simpa using ⟨ho, hc⟩
  | cons x rest ih =>
    intro st xs ho hc hxs
    have hx : ∀ c ∈ [x], RefsAbove n c := fun c hcm => by
      rw [List.mem_singleton.1 hcm]; exact hr x (List.mem_cons_self ..)
    have o := append_owned g ho [x]
    have c := closed_append g hc st.1 (by rw [ho.rd]; exact hxs) hx
    have := ih (fun c hcm => hr c (List.mem_cons_of_mem _ hcm)) _ _ o c (by
      intro c hcm
      rcases List.mem_append.1 hcm with h1 | h1
      · exact hxs c h1
      · exact hx c h1)
    simpa using this

/-- `LocationList.Slice()` of a non-empty list: a slice nobody else holds, showing the list -/
theorem listSlice_owned (g : Grow) {n : Nat} {h : LHeap} (hc : Closed n h) {ms : List MLoc}
    (hne : ms ≠ []) (hm : ∀ c ∈ ms, RefsAbove n c) :
    Owned h (listSlice g h ms).2 (listSlice g h ms).1 ms ∧ Closed n (listSlice g h ms).2 := by
  cases ms with
  | nil => exact absurd rfl hne
  | cons a rest =>
    have ha : ∀ c ∈ [a], RefsAbove n c := fun c hcm => by
      rw [List.mem_singleton.1 hcm]; exact hm a (List.mem_cons_self ..)
    have := listFold_owned g rest (fun c hcm => hm c (List.mem_cons_of_mem _ hcm)) _ _
      (litSlice_owned (List.prefix_refl h) [a]) (litSlice_closed hc ha) ha
    simpa [listSlice] using this

/-- `LocationList.Slice()` writes nothing that existed, whatever the list -/
theorem listSlice_frame (g : Grow) {n : Nat} {h : LHeap} (hc : Closed n h) (hn : n ≤ h.length)
    {ms : List MLoc} (hm : ∀ c ∈ ms, RefsAbove n c) :
    h <+: (listSlice g h ms).2 ∧ Closed n (listSlice g h ms).2 ∧ n ≤ (listSlice g h ms).1.arr := by
  cases ms with
  | nil => exact ⟨prefix_snoc (List.prefix_refl _) _, closed_mk hc 1 1, hn⟩
  | cons a rest =>
    have o := listSlice_owned g hc (List.cons_ne_nil a rest) hm
    exact ⟨o.1.pre, o.2, Nat.le_trans hn (o.1.arr_ge (List.cons_ne_nil a rest))⟩

/-! ### `Reads` -/

theorem reads_joined {h : LHeap} {ls : List Loc} {m : MLoc} :
    Reads h (.joined ls) m ↔ ∃ s, m = .joined s ∧ WF h s ∧ ReadsList h ls (read h s) := by
  cases m <;> simp [Reads]

theorem reads_ordered {h : LHeap} {ls : List Loc} {m : MLoc} :
    Reads h (.ordered ls) m ↔ ∃ s, m = .ordered s ∧ WF h s ∧ ReadsList h ls (read h s) := by
  cases m <;> simp [Reads]

theorem reads_compl {h : LHeap} {l : Loc} {m : MLoc} :
    Reads h (.compl l) m ↔ ∃ m', m = .compl m' ∧ Reads h l m' := by
  cases m <;> simp [Reads]

theorem reads_contig {h : LHeap} {l : Loc} (hl : isContig l = true) {m : MLoc} :
    Reads h l m ↔ m = .leaf l := by
  cases l <;> simp [isContig] at hl <;> cases m <;> simp [Reads, eq_comm]

theorem reads_leaf {h : LHeap} {l l' : Loc} : Reads h l (.leaf l') ↔ l' = l ∧ isContig l = true := by
  cases l <;> simp [Reads, isContig]

theorem readsList_nil_left {h : LHeap} {ms : List MLoc} : ReadsList h [] ms ↔ ms = [] := by
  cases ms <;> simp [ReadsList]

theorem readsList_cons_left {h : LHeap} {l : Loc} {ls : List Loc} {ms : List MLoc} :
    ReadsList h (l :: ls) ms ↔ ∃ m ms', ms = m :: ms' ∧ Reads h l m ∧ ReadsList h ls ms' := by
  cases ms with
  | nil => simp [ReadsList]
  | cons m ms =>
    simp only [ReadsList]
    constructor
    · intro ⟨a, b⟩; exact ⟨_, _, rfl, a, b⟩
    · rintro ⟨m', ms', e, a, b⟩
      cases e
      exact ⟨a, b⟩

theorem readsList_cons {h : LHeap} {l : Loc} {ls : List Loc} {m : MLoc} {ms : List MLoc} :
    ReadsList h (l :: ls) (m :: ms) ↔ Reads h l m ∧ ReadsList h ls ms := by
  simp [ReadsList]

theorem ReadsList.length_eq {h : LHeap} : ∀ {ls : List Loc} {ms : List MLoc}, ReadsList h ls ms →
    ls.length = ms.length
  | [], [], _ => rfl
  | _ :: ls, _ :: ms, hr => by
    simp only [List.length_cons]
    rw [ReadsList.length_eq (ls := ls) (ms := ms) (readsList_cons.1 hr).2]
  | [], _ :: _, hr => by simp [ReadsList] at hr
  | _ :: _, [], hr => by simp [ReadsList] at hr

theorem ReadsList.append {h : LHeap} : ∀ {ls : List Loc} {ms : List MLoc} {ls' : List Loc}
    {ms' : List MLoc}, ReadsList h ls ms → ReadsList h ls' ms' → ReadsList h (ls ++ ls') (ms ++ ms')
  | [], [], _, _, _, h2 => h2
  | _ :: ls, _ :: ms, _, _, h1, h2 => by
    have := readsList_cons.1 h1
    exact readsList_cons.2 ⟨this.1, ReadsList.append (ls := ls) (ms := ms) this.2 h2⟩
  | [], _ :: _, _, _, hr, _ => by simp [ReadsList] at hr
  | _ :: _, [], _, _, hr, _ => by simp [ReadsList] at hr

theorem ReadsList.reverse {h : LHeap} : ∀ {ls : List Loc} {ms : List MLoc}, ReadsList h ls ms →
    ReadsList h ls.reverse ms.reverse
  | [], [], _ => by simp [ReadsList]
  | l :: ls, m :: ms, hr => by
    have := readsList_cons.1 hr
    rw [List.reverse_cons, List.reverse_cons]
    exact ReadsList.append (ReadsList.reverse (ls := ls) (ms := ms) this.2)
      (readsList_cons.2 ⟨this.1, by simp [ReadsList]⟩)
  | [], _ :: _, hr => by simp [ReadsList] at hr
  | _ :: _, [], hr => by simp [ReadsList] at hr

theorem readsList_singleton {h : LHeap} {l : Loc} {m : MLoc} : ReadsList h [l] [m] ↔ Reads h l m := by
  simp [ReadsList]

/-- the part of `ReadsList` from position `i` on -/
theorem ReadsList.drop {h : LHeap} : ∀ (i : Nat) {ls : List Loc} {ms : List MLoc}, ReadsList h ls ms →
    ReadsList h (ls.drop i) (ms.drop i)
  | 0, _, _, hr => hr
  | _ + 1, [], [], _ => by simp [ReadsList]
  | i + 1, _ :: ls, _ :: ms, hr => by
    simpa using ReadsList.drop i (ls := ls) (ms := ms) (readsList_cons.1 hr).2
  | _ + 1, [], _ :: _, hr => by simp [ReadsList] at hr
  | _ + 1, _ :: _, [], hr => by simp [ReadsList] at hr

mutual
/-- a readable value reads the same in every extension of the heap -/
theorem Reads.mono {h h' : LHeap} (hp : h <+: h') : ∀ (l : Loc) (m : MLoc), Reads h l m → Reads h' l m
  | .joined ls, m, hr => by
    obtain ⟨s, rfl, hw, hl⟩ := reads_joined.1 hr
    exact reads_joined.2 ⟨s, rfl, wf_mono hp hw, by
      rw [read_mono hp hw]; exact ReadsList.mono hp ls _ hl⟩
  | .ordered ls, m, hr => by
    obtain ⟨s, rfl, hw, hl⟩ := reads_ordered.1 hr
    exact reads_ordered.2 ⟨s, rfl, wf_mono hp hw, by
      rw [read_mono hp hw]; exact ReadsList.mono hp ls _ hl⟩
  | .compl l, m, hr => by
    obtain ⟨m', rfl, hl⟩ := reads_compl.1 hr
    exact reads_compl.2 ⟨m', rfl, Reads.mono hp l m' hl⟩
  | .between _, m, hr => by rw [reads_contig rfl] at hr ⊢; exact hr
  | .point _, m, hr => by rw [reads_contig rfl] at hr ⊢; exact hr
  | .ranged .., m, hr => by rw [reads_contig rfl] at hr ⊢; exact hr
  | .ambiguous .., m, hr => by rw [reads_contig rfl] at hr ⊢; exact hr
theorem ReadsList.mono {h h' : LHeap} (hp : h <+: h') : ∀ (ls : List Loc) (ms : List MLoc),
    ReadsList h ls ms → ReadsList h' ls ms
  | [], ms, hr => by rw [readsList_nil_left] at hr ⊢; exact hr
  | l :: ls, ms, hr => by
    obtain ⟨m, ms', rfl, h1, h2⟩ := readsList_cons_left.1 hr
    exact readsList_cons.2 ⟨Reads.mono hp l m h1, ReadsList.mono hp ls ms' h2⟩
end

mutual
/-- FRAME for reading: a value that refers only to arrays `≥ N`, in a heap whose arrays `≥ N`
refer only to arrays `≥ N`, reads the same in every heap that agrees on the arrays `≥ N` -/
theorem Reads.frame {N : Nat} {h h' : LHeap} (hag : ∀ a, N ≤ a → h'.get a = h.get a)
    (hc : Closed N h) : ∀ (l : Loc) (m : MLoc), RefsAbove N m → Reads h l m → Reads h' l m
  | .joined ls, m, hm, hr => by
    obtain ⟨s, rfl, hw, hl⟩ := reads_joined.1 hr
    have hs : N ≤ s.arr := hm
    have e : read h' s = read h s := by unfold Heap.read; rw [hag _ hs]
    refine reads_joined.2 ⟨s, rfl, by unfold WF at hw ⊢; rw [hag _ hs]; exact hw, ?_⟩
    rw [e]
    exact ReadsList.frame hag hc ls _ (refs_of_read hc hs) hl
  | .ordered ls, m, hm, hr => by
    obtain ⟨s, rfl, hw, hl⟩ := reads_ordered.1 hr
    have hs : N ≤ s.arr := hm
    have e : read h' s = read h s := by unfold Heap.read; rw [hag _ hs]
    refine reads_ordered.2 ⟨s, rfl, by unfold WF at hw ⊢; rw [hag _ hs]; exact hw, ?_⟩
    rw [e]
    exact ReadsList.frame hag hc ls _ (refs_of_read hc hs) hl
  | .compl l, m, hm, hr => by
    obtain ⟨m', rfl, hl⟩ := reads_compl.1 hr
    exact reads_compl.2 ⟨m', rfl, Reads.frame hag hc l m' hm hl⟩
  | .between _, m, _, hr => by rw [reads_contig rfl] at hr ⊢; exact hr
  | .point _, m, _, hr => by rw [reads_contig rfl] at hr ⊢; exact hr
  | .ranged .., m, _, hr => by rw [reads_contig rfl] at hr ⊢; exact hr
  | .ambiguous .., m, _, hr => by rw [reads_contig rfl] at hr ⊢; exact hr
theorem ReadsList.frame {N : Nat} {h h' : LHeap} (hag : ∀ a, N ≤ a → h'.get a = h.get a)
    (hc : Closed N h) : ∀ (ls : List Loc) (ms : List MLoc), (∀ c ∈ ms, RefsAbove N c) →
    ReadsList h ls ms → ReadsList h' ls ms
  | [], ms, _, hr => by rw [readsList_nil_left] at hr ⊢; exact hr
  | l :: ls, ms, hm, hr => by
    obtain ⟨m, ms', rfl, h1, h2⟩ := readsList_cons_left.1 hr
    exact readsList_cons.2 ⟨Reads.frame hag hc l m (hm m (List.mem_cons_self ..)) h1,
      ReadsList.frame hag hc ls ms' (fun c hcm => hm c (List.mem_cons_of_mem _ hcm)) h2⟩
end

/-! ### every location value can be laid out in memory -/

mutual
/-- `allocLoc l` (one new array per `Joined` / `Ordered`) reads as `l` -/
theorem allocLoc_reads : ∀ (l : Loc) (h : LHeap),
    h <+: (allocLoc l h).2 ∧ Reads (allocLoc l h).2 l (allocLoc l h).1
  | .between _, h => ⟨List.prefix_refl _, (reads_contig rfl).2 rfl⟩
  | .point _, h => ⟨List.prefix_refl _, (reads_contig rfl).2 rfl⟩
  | .ranged .., h => ⟨List.prefix_refl _, (reads_contig rfl).2 rfl⟩
  | .ambiguous .., h => ⟨List.prefix_refl _, (reads_contig rfl).2 rfl⟩
  | .joined ls, h => by
    have ih := allocList_reads ls h
    unfold allocLoc
    refine ⟨prefix_snoc ih.1 _, reads_joined.2 ⟨_, rfl, ?_, ?_⟩⟩
    · simp [WF, get_append_length]
    · simp only [Heap.read, get_append_length, List.drop_zero, List.take_length]
      exact ReadsList.mono (prefix_snoc (List.prefix_refl _) _) _ _ ih.2
  | .ordered ls, h => by
    have ih := allocList_reads ls h
    unfold allocLoc
    refine ⟨prefix_snoc ih.1 _, reads_ordered.2 ⟨_, rfl, ?_, ?_⟩⟩
    · simp [WF, get_append_length]
    · simp only [Heap.read, get_append_length, List.drop_zero, List.take_length]
      exact ReadsList.mono (prefix_snoc (List.prefix_refl _) _) _ _ ih.2
  | .compl l, h => by
    have ih := allocLoc_reads l h
    unfold allocLoc
    exact ⟨ih.1, reads_compl.2 ⟨_, rfl, ih.2⟩⟩
theorem allocList_reads : ∀ (ls : List Loc) (h : LHeap),
    h <+: (allocList ls h).2 ∧ ReadsList (allocList ls h).2 ls (allocList ls h).1
  | [], h => ⟨List.prefix_refl _, by simp [allocList, ReadsList]⟩
  | l :: ls, h => by
    have i1 := allocLoc_reads l h
    have i2 := allocList_reads ls (allocLoc l h).2
    unfold allocList
    exact ⟨i1.1.trans i2.1, readsList_cons.2 ⟨Reads.mono i2.1 _ _ i1.2, i2.2⟩⟩
end

end Gts.Mem
