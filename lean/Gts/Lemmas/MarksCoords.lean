/-
  The oracle's in-bounds predicate `coordsWithin` (`Gts/Spec/Marks.lean`) under Rotate:
  `Expand(0, n)` keeps coordinates non-negative, `Normalize(L)` brings every leaf into `[0, L]`
  (not inverted), for every kind and arity — no K2 / marker guard is needed, `Join` only copies
  or merges leaves (`Gts/Lemmas/Leafwise.lean`).  Core Lean only.
-/
import Gts.Lemmas.Leafwise
import Gts.Lemmas.Normalize
import Gts.Lemmas.Delete
namespace Gts
namespace Loc

/-- the leaf form of `nonneg` -/
def leafNonneg : Loc → Bool
  | between p => decide (0 ≤ p)
  | point p => decide (0 ≤ p)
  | ranged s _ _ _ => decide (0 ≤ s)
  | ambiguous s _ => decide (0 ≤ s)
  | _ => true

theorem leafWithin_iff (L : Int) (u : Loc) :
    leafWithin L u = true ↔
      0 ≤ (leafSpan u).1 ∧ (leafSpan u).2 ≤ L ∧ (leafSpan u).1 ≤ (leafSpan u).2 := by
  simp only [leafWithin, Bool.not_eq_true', Bool.or_eq_false_iff, decide_eq_false_iff_not]
  omega

mutual
theorem nonneg_eq : ∀ (l : Loc), nonneg l = allLeaves leafNonneg l
  | between p => by simp [nonneg, leafNonneg]
  | point p => by simp [nonneg, leafNonneg]
  | ranged s e a b => by simp [nonneg, leafNonneg]
  | ambiguous s e => by simp [nonneg, leafNonneg]
  | joined ls => by simpa [nonneg] using nonnegList_eq ls
  | ordered ls => by simpa [nonneg] using nonnegList_eq ls
  | compl l => by simpa [nonneg] using nonneg_eq l
theorem nonnegList_eq : ∀ (ls : List Loc), nonnegList ls = allLeavesList leafNonneg ls
  | [] => by simp [nonnegList]
  | l :: ls => by simp [nonnegList, nonneg_eq l, nonnegList_eq ls]
end

theorem mergeOK_leafNonneg : MergeOK leafNonneg := by
  intro vs ve ue v5 v3 u5 u3 h1 _
  simpa [leafNonneg] using h1

theorem mergeOK_leafWithin (L : Int) : MergeOK (leafWithin L) := by
  intro vs ve ue v5 v3 u5 u3 h1 h2
  simp only [leafWithin_iff, leafSpan] at *
  omega

/-- a location inside `[0, L]` has non-negative coordinates -/
theorem nonneg_of_coordsWithin (l : Loc) (L : Int) (h : coordsWithin l L = true) : nonneg l = true := by
  rw [coordsWithin_eq] at h
  rw [nonneg_eq]
  have key : ∀ u, leafWithin L u = true → leafNonneg u = true := by
    intro u hu
    cases u <;> simp only [leafWithin_iff, leafSpan, leafNonneg, decide_eq_true_eq] at * <;> omega
  rw [allLeaves_eq_all] at *
  rw [List.all_eq_true] at *
  exact fun u hu => key u (h u hu)

/-! ### `Expand(0, n)`, `n ≥ 0`, keeps coordinates non-negative -/

mutual
theorem expand0_nonneg : ∀ (l : Loc) (n : Int), 0 ≤ n → wf l = true →
    allLeaves leafNonneg l = true → allLeaves leafNonneg (expand l 0 n) = true
  | between p, n, hn, _, h => by
      simp only [allLeaves_between, leafNonneg, decide_eq_true_eq] at h
      simp only [expand, betweenExpand, gmax_eq_max, allLeaves_between, leafNonneg, decide_eq_true_eq]
      split <;> omega
  | point p, n, hn, _, h => by
      simp only [allLeaves_point, leafNonneg, decide_eq_true_eq] at h
      simp only [expand, pointExpand]
      rw [if_neg (by omega)]
      simp only [gmax_eq_max, allLeaves_point, leafNonneg, decide_eq_true_eq]
      split <;> omega
  | ranged s e a b, n, hn, hw, h => by
      have hse : s < e := by simpa [wf] using hw
      simp only [allLeaves_ranged, leafNonneg, decide_eq_true_eq] at h
      by_cases h0 : n = 0
      · simp [expand, rangedExpand, h0, leafNonneg, h]
      · simp only [expand, rangedExpand_ins_eq s e a b 0 n hse (by omega), allLeaves_ranged, leafNonneg,
          decide_eq_true_eq]
        split <;> omega
  | ambiguous s e, n, hn, hw, h => by
      have hse : s < e := by simpa [wf] using hw
      simp only [allLeaves_ambiguous, leafNonneg, decide_eq_true_eq] at h
      by_cases h0 : n = 0
      · simp [expand, ambiguousExpand, h0, leafNonneg, h]
      · simp only [expand, ambiguousExpand_ins_eq s e 0 n hse (by omega), allLeaves_ambiguous, leafNonneg,
          decide_eq_true_eq]
        split <;> omega
  | joined ls, n, hn, hw, h => by
      simp only [expand]
      exact join_leaves mergeOK_leafNonneg _
        (expandList0_nonneg ls n hn (by simpa [wf] using hw) (by simpa using h))
  | ordered ls, n, hn, hw, h => by
      simp only [expand]
      exact order_leaves _ _ (expandList0_nonneg ls n hn (by simpa [wf] using hw) (by simpa using h))
  | compl l, n, hn, hw, h => by
      simpa [expand] using expand0_nonneg l n hn (by simpa [wf] using hw) (by simpa using h)
theorem expandList0_nonneg : ∀ (ls : List Loc) (n : Int), 0 ≤ n → wfList ls = true →
    allLeavesList leafNonneg ls = true → allLeavesList leafNonneg (expandList ls 0 n) = true
  | [], _, _, _, _ => by simp [expandList]
  | l :: ls, n, hn, hw, h => by
      simp only [wfList_cons, Bool.and_eq_true] at hw
      simp only [allLeavesList_cons, Bool.and_eq_true] at h
      simp [expandList, expand0_nonneg l n hn hw.1 h.1, expandList0_nonneg ls n hn hw.2 h.2]
end

theorem expand0_nonneg' (l : Loc) (n : Int) (hn : 0 ≤ n) (hw : wf l = true) (h : nonneg l = true) :
    nonneg (expand l 0 n) = true := by
  rw [nonneg_eq] at *
  exact expand0_nonneg l n hn hw h

/-! ### `Normalize(L)` brings every leaf into `[0, L]` -/

/-- an ambiguous span that does not cross the origin after reduction modulo `L` (the proviso of
the property: "ambiguous spans not crossing the new origin") -/
def leafAmbOk (L : Int) : Loc → Bool
  | ambiguous s e => decide (s % L + (e - s) ≤ L)
  | _ => true

/-- no ambiguous leaf crosses the origin -/
def ambOk (L : Int) (l : Loc) : Bool := allLeaves (leafAmbOk L) l

theorem within_rangedNormalize (s e : Int) (a b : Bool) (L : Int) (hL : 0 < L) (hs : 0 ≤ s) (h : s < e) :
    allLeaves (leafWithin L) (rangedNormalize s e a b L) = true := by
  unfold rangedNormalize
  by_cases hfull : e - s = L
  · rw [if_pos hfull]
    by_cases h0 : s = 0
    · subst h0
      simp only [rangedExpand, Int.neg_zero, if_true, allLeaves_ranged, leafWithin_iff, leafSpan]
      omega
    · rw [rangedExpand_del_eq _ _ _ _ _ _ (show 0 < s by omega)]
      have a1 : delStart s 0 s = 0 := by unfold delStart; split <;> omega
      have a2 : delEnd e 0 s = L := by unfold delEnd; split <;> omega
      rw [a1, a2, if_neg (by omega)]
      simp only [allLeaves_ranged, leafWithin_iff, leafSpan]
      omega
  · rw [if_neg hfull]
    simp only [tmod_nonneg_eq s L hs, tmod_nonneg_eq (e - 1) L (by omega)]
    have hr0 := Int.emod_nonneg s (show L ≠ 0 by omega)
    have hr1 := Int.emod_lt_of_pos s hL
    have he0 := Int.emod_nonneg (e - 1) (show L ≠ 0 by omega)
    have he1 := Int.emod_lt_of_pos (e - 1) hL
    generalize s % L = r at *
    generalize (e - 1) % L = q at *
    by_cases hc : r < q + 1
    · rw [if_pos hc]
      simp only [allLeaves_ranged, leafWithin_iff, leafSpan]
      omega
    · rw [if_neg hc, join_two_ranged_ne _ _ _ _ _ _ _ _ (by omega)]
      simp only [allLeaves_joined, allLeavesList_cons, allLeavesList_nil, allLeaves_ranged, leafWithin_iff,
        leafSpan, Bool.and_true, Bool.and_eq_true]
      omega

theorem within_ambiguousNormalize (s e L : Int) (hL : 0 < L) (hs : 0 ≤ s) (h : s < e)
    (hnw : s % L + (e - s) ≤ L) :
    leafWithin L (ambiguous (Int.tmod s L) (Int.tmod (e - 1) L + 1)) = true := by
  simp only [tmod_nonneg_eq s L hs, tmod_nonneg_eq (e - 1) L (by omega)]
  have hdecomp := Int.emod_add_ediv_mul s L
  have hr0 := Int.emod_nonneg s (show L ≠ 0 by omega)
  generalize hq : s / L = q at hdecomp
  generalize hqL : q * L = qL at hdecomp
  generalize hr : s % L = r at hdecomp hr0 hnw
  have he : (e - 1) % L = e - 1 - qL := mod_window L qL (e - 1) q hqL (by omega) (by omega)
  rw [he]
  simp only [leafWithin_iff, leafSpan]
  omega

mutual
theorem normalize_within : ∀ (l : Loc) (L : Int), 0 < L → wf l = true →
    allLeaves leafNonneg l = true → allLeaves (leafAmbOk L) l = true →
    allLeaves (leafWithin L) (normalize l L) = true
  | between p, L, hL, _, h, _ => by
      have h0 : 0 ≤ p := by simpa [leafNonneg] using h
      have h1 := Int.emod_nonneg p (show L ≠ 0 by omega)
      have h2 := Int.emod_lt_of_pos p hL
      simp only [normalize, tmod_nonneg_eq p L h0, allLeaves_between, leafWithin_iff, leafSpan]
      omega
  | point p, L, hL, _, h, _ => by
      have h0 : 0 ≤ p := by simpa [leafNonneg] using h
      have h1 := Int.emod_nonneg p (show L ≠ 0 by omega)
      have h2 := Int.emod_lt_of_pos p hL
      simp only [normalize, tmod_nonneg_eq p L h0, allLeaves_point, leafWithin_iff, leafSpan]
      omega
  | ranged s e a b, L, hL, hw, h, _ => by
      have hse : s < e := by simpa [wf] using hw
      have h0 : 0 ≤ s := by simpa [leafNonneg] using h
      simpa [normalize] using within_rangedNormalize s e a b L hL h0 hse
  | ambiguous s e, L, hL, hw, h, ha => by
      have hse : s < e := by simpa [wf] using hw
      have h0 : 0 ≤ s := by simpa [leafNonneg] using h
      have h1 : s % L + (e - s) ≤ L := by simpa [leafAmbOk] using ha
      simpa [normalize] using within_ambiguousNormalize s e L hL h0 hse h1
  | joined ls, L, hL, hw, h, ha => by
      simp only [normalize]
      exact join_leaves (mergeOK_leafWithin L) _
        (normalizeList_within ls L hL (by simpa [wf] using hw) (by simpa using h) (by simpa using ha))
  | ordered ls, L, hL, hw, h, ha => by
      simp only [normalize]
      exact order_leaves _ _
        (normalizeList_within ls L hL (by simpa [wf] using hw) (by simpa using h) (by simpa using ha))
  | compl l, L, hL, hw, h, ha => by
      simpa [normalize] using
        normalize_within l L hL (by simpa [wf] using hw) (by simpa using h) (by simpa using ha)
theorem normalizeList_within : ∀ (ls : List Loc) (L : Int), 0 < L → wfList ls = true →
    allLeavesList leafNonneg ls = true → allLeavesList (leafAmbOk L) ls = true →
    allLeavesList (leafWithin L) (normalizeList ls L) = true
  | [], _, _, _, _, _ => by simp [normalizeList]
  | l :: ls, L, hL, hw, h, ha => by
      simp only [wfList_cons, Bool.and_eq_true] at hw
      simp only [allLeavesList_cons, Bool.and_eq_true] at h ha
      simp [normalizeList, normalize_within l L hL hw.1 h.1 ha.1,
        normalizeList_within ls L hL hw.2 h.2 ha.2]
end

/-- **Normalize lands inside the sequence** -/
theorem normalize_coordsWithin (l : Loc) (L : Int) (hL : 0 < L) (hw : wf l = true)
    (hnn : nonneg l = true) (ha : ambOk L l = true) : coordsWithin (normalize l L) L = true := by
  rw [coordsWithin_eq]
  rw [nonneg_eq] at hnn
  exact normalize_within l L hL hw hnn ha

end Loc
end Gts
