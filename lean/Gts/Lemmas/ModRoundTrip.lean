/-
  `AsModifier (m.String()) = m` on the model: every printed modifier re-parses to itself
  (all five forms, zero and non-zero offsets, every offset a Go `int` can hold).  Core Lean only.
-/
import Gts.Lemmas.ModText
namespace Gts
open Pars ModParse LocParse

/-- every offset of the modifier is a 64-bit Go `int` -/
def Mod.fits64 : Mod → Prop
  | .head p => Gts.fits64 p
  | .tail q => Gts.fits64 q
  | .headTail p q => Gts.fits64 p ∧ Gts.fits64 q
  | .headHead p q => Gts.fits64 p ∧ Gts.fits64 q
  | .tailTail p q => Gts.fits64 p ∧ Gts.fits64 q

open Lean.Parser.Tactic in
/-- `psimp` plus the modifier parsers and the `parseHead` / `parseTail` run equations -/
macro "modsimp" "[" ts:simpLemma,* "]" : tactic =>
  `(tactic| psimp [asModifier, ModParse.exact, parseModifier, parseHeadTail, parseHeadHead, parseTailTail,
      parseHead, parseTail, Mod.printB, Mod.headB, Mod.tailB, P.run', ExceptT.run, StateT.run,
      parseMark_end, parseMark_dot, parseMark_nil,
      parseMark_other 94 36 _ _ (by decide), parseMark_other 36 94 _ _ (by decide), $ts,*])

/-- the five alternatives of `parseModifier`, in their order, on each of the 16 printed shapes -/
theorem asModifier_printB (m : Mod) (hf : m.fits64) : asModifier (m.printB) = .ok m := by
  cases m with
  | head p =>
    simp only [Mod.fits64] at hf
    by_cases hp : p = 0
    · subst hp; modsimp []
    · modsimp [hp, parseMark_int_end _ _ _ hp hf]
  | tail p =>
    simp only [Mod.fits64] at hf
    by_cases hp : p = 0
    · subst hp; modsimp []
    · modsimp [hp, parseMark_int_end _ _ _ hp hf]
  | headTail p q =>
    simp only [Mod.fits64] at hf
    by_cases hp : p = 0 <;> by_cases hq : q = 0
    · subst hp; subst hq; modsimp []
    · subst hp; modsimp [hq, parseMark_int_end _ _ _ hq hf.2]
    · subst hq; modsimp [hp, parseMark_int_dot _ _ _ _ hp hf.1]
    · modsimp [hp, hq, parseMark_int_dot _ _ _ _ hp hf.1, parseMark_int_end _ _ _ hq hf.2]
  | headHead p q =>
    simp only [Mod.fits64] at hf
    by_cases hp : p = 0 <;> by_cases hq : q = 0
    · subst hp; subst hq; modsimp []
    · subst hp; modsimp [hq, parseMark_int_end _ _ _ hq hf.2]
    · subst hq; modsimp [hp, parseMark_int_dot _ _ _ _ hp hf.1]
    · modsimp [hp, hq, parseMark_int_dot _ _ _ _ hp hf.1, parseMark_int_end _ _ _ hq hf.2]
  | tailTail p q =>
    simp only [Mod.fits64] at hf
    by_cases hp : p = 0 <;> by_cases hq : q = 0
    · subst hp; subst hq; modsimp []
    · subst hp; modsimp [hq, parseMark_int_end _ _ _ hq hf.2]
    · subst hq; modsimp [hp, parseMark_int_dot _ _ _ _ hp hf.1]
    · modsimp [hp, hq, parseMark_int_dot _ _ _ _ hp hf.1, parseMark_int_end _ _ _ hq hf.2]

end Gts
