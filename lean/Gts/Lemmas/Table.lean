/-
  Sorted insertion keeps the features (as a multiset).  Core Lean only.
-/
import Gts.Model.Seq
namespace Gts
namespace Table

theorem insert_perm (ff : Table) (f : Feature) : (insert ff f).Perm (f :: ff) := by
  unfold insert
  simp only []
  generalize (if f.key ≠ "source" then _ else _ : Nat) = i
  have h : (List.take i ff ++ f :: List.drop i ff).Perm (f :: (List.take i ff ++ List.drop i ff)) :=
    List.perm_middle
  rw [List.take_append_drop] at h
  exact h

theorem insertAll_perm (acc : Table) (fs : List Feature) : (insertAll acc fs).Perm (acc ++ fs) := by
  induction fs generalizing acc with
  | nil => simp [insertAll]
  | cons f fs ih =>
    simp only [insertAll, List.foldl_cons] at ih ⊢
    refine (ih (insert acc f)).trans ?_
    have h1 : (insert acc f ++ fs).Perm ((f :: acc) ++ fs) := (insert_perm acc f).append_right fs
    refine h1.trans ?_
    simpa using (List.perm_middle (a := f) (l₁ := acc) (l₂ := fs)).symm

end Table
end Gts
