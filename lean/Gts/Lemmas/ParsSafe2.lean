/-
  C07: the recursive location parsers and the modifier parsers keep the frame invariant of
  `Gts.Lemmas.ParsSafe` (hence never reach the slice panic of `pars.Trail`).  Core Lean only.
-/
import Gts.Lemmas.ParsSafe
namespace Gts.Pars
open LocParse ModParse

/-- the loop of `pars.Any`, entered with its own frame on the stack -/
theorem anyOf_go_wp {α} (ps : List (P α)) (hps : ∀ p ∈ ps, Safe p) {L base n} :
    ∀ s, Fr L base (n+1) s → WP (anyOf.go ps) (Std L base n) s := by
  induction ps with
  | nil => intro s h; unfold anyOf.go; repeat wp_step
  | cons p ps ih =>
    intro s h
    have hp : Safe p := hps p (List.mem_cons_self ..)
    unfold anyOf.go
    rw [wp_bind]
    apply wp_attempt hp h
    intro o s' h'
    dsimp only
    split
    · repeat wp_step
    · rw [wp_bind]
      apply wp_pushed; intro b
      dsimp only
      split
      · repeat wp_step
      · exact ih (fun q hq => hps q (List.mem_cons_of_mem _ hq)) s' h'

/-- `pars.Any(ps...)` -/
theorem anyOf_safe {α} (ps : List (P α)) (hps : ∀ p ∈ ps, Safe p) : Safe (anyOf ps) := by
  intro L base n s h
  unfold anyOf
  rw [wp_bind]
  apply wp_push h; intro s' h'
  exact anyOf_go_wp ps hps s' h'

/-- `parseComplement(q)` -/
theorem complementWith_safe (q : P Loc) (hq : Safe q) : Safe (complementWith q) := by
  unfold complementWith; wp_run

/-- the parser of `tryLocation` -/
theorem tryLoc_safe : ∀ fuel, Safe (tryLoc fuel)
  | 0 => by unfold tryLoc; wp_run
  | fuel + 1 => by
    unfold tryLoc
    apply anyOf_safe
    intro p hp
    simp only [List.mem_cons, List.not_mem_nil, or_false] at hp
    rcases hp with rfl | rfl | rfl
    · exact complementWith_safe _ (tryLoc_safe fuel)
    · exact range_safe
    · exact point_safe

/-- the post-condition of the loop of `multipleLocationParser`, which runs inside the frame of
its caller: on failure that frame has been popped -/
def MoreStd {α} (L : Nat) (base : List Bytes) (n : Nat) : Except Err α → PS → Prop :=
  fun r s' => match r with
    | .ok _ => Fr L base (n+1) s'
    | .error .fail => Fr L base n s'
    | .error .panic => False

theorem more_wp (fuel : Nat) (hl : Safe (loc fuel)) {L base n} :
    ∀ k acc s, Fr L base (n+1) s → WP (multiple.more fuel k acc) (MoreStd L base n) s
  | 0, acc => by
    intro s h; rw [multiple.more, wp_pure]; exact h
  | k + 1, acc => by
    have ih := more_wp fuel hl (L := L) (base := base) (n := n) k
    intro s h
    rw [multiple.more, wp_bind]
    apply wp_safe delimiter_safe h
    · intro b s' h'
      dsimp only
      split
      · rw [wp_bind]
        apply wp_attempt hl h'
        intro o s'' h''
        dsimp only
        split
        · exact ih _ s'' h''
        · rw [wp_bind]
          apply wp_pop h''; intro s3 h3
          exact h3
      · rw [wp_pure]; exact h'
    · intro s' h'; exact h'.weaken

/-- `ParseLocation` and its mutually recursive parts, for every fuel -/
theorem loc_family_safe : ∀ fuel, Safe (loc fuel) ∧ Safe (multiple fuel) ∧ Safe (joinOf fuel) ∧
    Safe (orderOf fuel) ∧ Safe (complementOf fuel)
  | 0 => by
    refine ⟨?_, ?_, ?_, ?_, ?_⟩
    · rw [loc]; wp_run
    · rw [multiple]; wp_run
    · rw [joinOf]; wp_run
    · rw [orderOf]; wp_run
    · rw [complementOf]; wp_run
  | fuel + 1 => by
    obtain ⟨hl, hm, hj, ho, hc⟩ := loc_family_safe fuel
    refine ⟨?_, ?_, ?_, ?_, ?_⟩
    · rw [loc]
      apply anyOf_safe
      intro p hp
      simp only [List.mem_cons, List.not_mem_nil, or_false] at hp
      rcases hp with rfl | rfl | rfl | rfl | rfl | rfl | rfl
      · exact range_safe
      · exact between_safe
      · exact ambiguous_safe
      · exact hc
      · exact hj
      · exact ho
      · exact point_safe
    · rw [multiple]
      intro L base n s h
      rw [wp_bind]
      apply wp_push h; intro s1 h1
      rw [wp_bind, wp_bind]
      apply wp_attempt hl h1; intro o s2 h2
      dsimp only
      split
      · rename_i v
        rw [wp_pure]; dsimp only
        rw [wp_bind]
        have := more_wp fuel hl fuel [v] s2 h2
        revert this
        unfold WP MoreStd
        cases ((multiple.more fuel fuel [v]).run' s2) with
        | mk r s3 =>
          cases r with
          | ok ls =>
            intro h3
            dsimp only at h3 ⊢
            show WP (drop >>= fun _ => pure ls) (Std L base n) s3
            repeat wp_step
          | error e =>
            cases e with
            | fail => intro h3; exact std_fail h3
            | panic => intro h3; exact h3.elim
      · repeat wp_step
    · rw [joinOf]; wp_run
    · rw [orderOf]; wp_run
    · rw [complementOf]; wp_run

theorem loc_safe (fuel : Nat) : Safe (loc fuel) := (loc_family_safe fuel).1

/-! ### modifier parsers (modifier.go) -/

theorem byte_safe (c) : Safe (byte c) := by unfold byte; wp_run
theorem atEnd_safe : Safe atEnd := by
  unfold atEnd
  intro _ _ _ _ _
  rw [wp_bind]; apply wp_getS; dsimp only
  split <;> repeat wp_step
theorem mapP_safe {α β} (p : P α) (f : α → β) (hp : Safe p) : Safe (mapP p f) := by
  unfold mapP; wp_run
theorem seq2_safe {α β} (p : P α) (q : P β) (hp : Safe p) (hq : Safe q) : Safe (seq2 p q) := by
  unfold seq2; wp_run
theorem seq3_safe {α β γ} (p : P α) (q : P β) (r : P γ) (hp : Safe p) (hq : Safe q)
    (hr : Safe r) : Safe (seq3 p q r) := by
  unfold seq3; wp_run
/-- `pars.Exact(p)` -/
theorem exact_safe {α} (p : P α) (hp : Safe p) : Safe (exact p) :=
  mapP_safe _ _ (seq2_safe _ _ hp atEnd_safe)

theorem parseMark_safe (c) : Safe (parseMark c) := by
  unfold parseMark
  apply mapP_safe
  apply anyOf_safe
  intro p hp
  simp only [List.mem_cons, List.not_mem_nil, or_false] at hp
  rcases hp with rfl | rfl
  · exact mapP_safe _ _ (seq2_safe _ _ (byte_safe c) int_safe)
  · have := byte_safe c
    wp_run

theorem parseModifier_safe : Safe parseModifier := by
  have hh : Safe parseHead := parseMark_safe _
  have ht : Safe parseTail := parseMark_safe _
  unfold parseModifier
  apply anyOf_safe
  intro p hp
  simp only [List.mem_cons, List.not_mem_nil, or_false] at hp
  rcases hp with rfl | rfl | rfl | rfl | rfl
  · exact mapP_safe _ _ (seq3_safe _ _ _ hh (lit_safe _) ht)
  · exact mapP_safe _ _ (seq3_safe _ _ _ hh (lit_safe _) hh)
  · exact mapP_safe _ _ (seq3_safe _ _ _ ht (lit_safe _) ht)
  · wp_run
  · wp_run

/-! ### from `Safe` to "no panic from the empty stack" -/

theorem sorted_fresh (input : Bytes) : Sorted (PS.mk input []).rest.length (PS.mk input []).stk :=
  trivial

/-- a safe parser started on a fresh state (`pars.FromString(s)`) does not panic -/
theorem Safe.fresh {α} {p : P α} (hp : Safe p) (input : Bytes) :
    (p.run' ⟨input, []⟩).1 ≠ .error .panic :=
  (hp _ _ _ _ (Fr.init (sorted_fresh input))).1

end Gts.Pars
