/-
  Insertions never meet the K3 shape.  `irr w x` looks at `w` through the coordinate at its right
  end (`rkey`) and at `x` through the coordinate at its left end (`lkey`).  An insertion
  (`Shift(i, n)` / `Expand(i, n)` with `0 ≤ n`) moves the two kinds of key by two monotone maps that
  are jointly injective, keeps the kind of every part, and so maps a list of parts that `Push`
  leaves alone to a list that `Push` leaves alone: no rule fires at all, `…K3 = false`.
  Core Lean only.
-/
import Gts.Lemmas.CanonOps
import Gts.Lemmas.Push
namespace Gts
namespace Loc

/-- what `irr · x` sees of the element on the left -/
inductive RKey where
  | B (v : Int) | P (v : Int) | R (v : Int) | C | N

/-- what `irr w ·` sees of the element on the right -/
inductive LKey where
  | B (u : Int) | S (u : Int) | C | N

def rkey : Loc → RKey
  | between v => .B v
  | point v => .P v
  | ranged _ ve _ _ => .R ve
  | compl _ => .C
  | _ => .N

def lkey : Loc → LKey
  | between u => .B u
  | point u => .S u
  | ranged us _ _ _ => .S us
  | compl _ => .C
  | _ => .N

def irrK : RKey → LKey → Bool
  | .B v, .B u => v != u
  | .B v, .S u => v != u
  | .P v, .B u => v + 1 != u
  | .P v, .S u => v != u
  | .R v, .B u => v != u
  | .R v, .S u => v != u
  | .C, .C => false
  | _, _ => true

theorem irr_eq (w x : Loc) : irr w x = irrK (rkey w) (lkey x) := by cases w <;> cases x <;> rfl

/-! ### lists in list order -/

/-- parts in list order, no neighbouring pair that `Push` reduces -/
def chain : List Loc → Bool
  | [] => true
  | [a] => partOk a
  | a :: b :: r => partOk a && irr a b && chain (b :: r)

/-- the junction of two lists -/
def junc : Option Loc → Option Loc → Bool
  | some a, some b => irr a b
  | _, _ => true

theorem chain_cons (a : Loc) (r : List Loc) : chain (a :: r) = (partOk a && junc (some a) r.head? && chain r) := by
  cases r <;> simp [chain, junc]

theorem chain_append : ∀ (xs ys : List Loc), chain (xs ++ ys) = (chain xs && chain ys && junc xs.getLast? ys.head?)
  | [], ys => by simp [chain, junc]
  | [a], ys => by
      rw [List.singleton_append, chain_cons]
      simp only [chain, List.getLast?_singleton]
      cases partOk a <;> cases chain ys <;> simp
  | a :: b :: r, ys => by
      have ih := chain_append (b :: r) ys
      simp only [List.cons_append] at ih ⊢
      rw [chain_cons, ih, chain_cons a (b :: r)]
      simp only [List.head?_cons, List.getLast?_cons_cons]
      cases partOk a <;> cases junc (some a) (some b) <;> cases chain (b :: r) <;> cases chain ys <;> simp

theorem stableR_rev_append : ∀ (ys racc : List Loc),
    stableR (ys.reverse ++ racc) = (chain ys && stableR racc && junc racc.head? ys.head?)
  | [], racc => by cases racc <;> simp [chain, junc]
  | y :: ys, racc => by
      have ih := stableR_rev_append ys (y :: racc)
      rw [List.reverse_cons, List.append_assoc, List.singleton_append, ih, stableR_cons, chain_cons]
      have hj : irrHead racc y = junc racc.head? (some y) := by cases racc <;> rfl
      simp only [List.head?_cons, hj]
      cases partOk y <;> cases chain ys <;> cases stableR racc <;> cases junc (some y) ys.head? <;>
        cases junc racc.head? (some y) <;> simp

theorem stableR_reverse (ys : List Loc) : stableR ys.reverse = chain ys := by
  have := stableR_rev_append ys []
  simpa [stableR, junc] using this

/-- the K3 shape needs `between v` in front of a point / range start `v`: a pair `Push` reduces -/
theorem k3One_of_irrHead (racc : List Loc) (y : Loc) (h : irrHead racc y = true) : k3One racc y = false := by
  cases racc with
  | nil => cases y <;> rfl
  | cons v rest =>
    cases rest with
    | nil => cases v <;> cases y <;> rfl
    | cons w r =>
      cases v <;> cases y <;> (try rfl) <;> cases w <;> (try rfl) <;>
        simp_all [k3One, irrHead, irr]

/-- pushing a list that `Push` leaves alone never meets the K3 shape -/
theorem k3Fold_of_stable : ∀ (ys racc : List Loc), stableR (ys.reverse ++ racc) = true → k3Fold racc ys = false
  | [], _, _ => rfl
  | y :: ys, racc, h => by
      have h' : stableR (ys.reverse ++ (y :: racc)) = true := by simpa [List.append_assoc] using h
      have hy := stableR_suffix _ _ h'
      rw [stableR_cons] at hy
      simp only [Bool.and_eq_true] at hy
      rw [k3Fold_cons racc y ys (partOk_not_joined y hy.1.1), push1_irr racc y hy.1.2,
        k3Fold_of_stable ys (y :: racc) h', Bool.or_false]
      exact k3One_of_irrHead racc y hy.1.2

/-! ### a part and its image, through the keys -/

/-- the image of one part: non-empty when flattened, right key of its last element and left key of
its first element as `rs` / `ls` say -/
def KeyOk (f : Loc → Loc) (rs : RKey → RKey) (ls : LKey → LKey) (a : Loc) : Prop :=
  flatJ (f a) ≠ [] ∧ (∀ z, (flatJ (f a)).getLast? = some z → rkey z = rs (rkey a)) ∧
  (∀ z, (flatJ (f a)).head? = some z → lkey z = ls (lkey a))

theorem chain_flatJ (y : Loc) (h : structP y = true) : chain (flatJ y) = true := by
  by_cases hj : isJoinedC y = true
  · cases y <;> simp [isJoinedC] at hj
    rename_i ls
    have := stable_of_structP_joined ls h
    simp only [flatJ]
    rw [flatJList_of_none ls this.2.2, ← stableR_reverse]
    exact this.1
  · have hj' : isJoinedC y = false := by simpa using hj
    rw [flatJ_of_not_joined y hj']
    simp [chain, partOk, h, hj']

/-- a list of parts that `Push` leaves alone, mapped part by part and flattened, is such a list
again when the keys move by maps that keep `irrK` -/
theorem chain_flat_map (f : Loc → Loc) (rs : RKey → RKey) (ls : LKey → LKey)
    (hirr : ∀ r l, irrK r l = true → irrK (rs r) (ls l) = true) :
    ∀ (xs : List Loc), chain xs = true → (∀ a ∈ xs, structP (f a) = true ∧ KeyOk f rs ls a) →
      chain (flatJList (xs.map f)) = true ∧
      (∀ a r, xs = a :: r → ∃ z, (flatJList (xs.map f)).head? = some z ∧ lkey z = ls (lkey a))
  | [], _, _ => by simp [flatJList, chain]
  | a :: r, hc, hx => by
      rw [chain_cons] at hc
      simp only [Bool.and_eq_true] at hc
      obtain ⟨hsa, hne, hlast, hhead⟩ := hx a (by simp)
      have ih := chain_flat_map f rs ls hirr r hc.2 (fun b hb => hx b (by simp [hb]))
      obtain ⟨z0, hz0⟩ : ∃ z, (flatJ (f a)).head? = some z := by
        cases hq : flatJ (f a) with
        | nil => exact absurd hq hne
        | cons c t => exact ⟨c, rfl⟩
      obtain ⟨z1, hz1⟩ : ∃ z, (flatJ (f a)).getLast? = some z := by
        cases hq : (flatJ (f a)).getLast? with
        | none => rw [List.getLast?_eq_none_iff] at hq; exact absurd hq hne
        | some z => exact ⟨z, rfl⟩
      simp only [List.map_cons, flatJList]
      refine ⟨?_, ?_⟩
      · rw [chain_append, chain_flatJ _ hsa, ih.1, hz1]
        cases r with
        | nil => simp [flatJList, junc]
        | cons b r' =>
          obtain ⟨z', hz', hk'⟩ := ih.2 b r' rfl
          rw [hz']
          simp only [Bool.and_self, Bool.true_and, junc]
          rw [irr_eq, hlast z1 hz1, hk']
          have hab : irr a b = true := by simpa [junc] using hc.1.2
          rw [irr_eq] at hab
          exact hirr _ _ hab
      · intro a' r' he
        injection he with h1 h2
        subst h1
        refine ⟨z0, ?_, hhead z0 hz0⟩
        cases hq : flatJ (f a) with
        | nil => exact absurd hq hne
        | cons c t => rw [hq] at hz0; simpa using hz0

/-- … and `Join` of the mapped parts never meets the K3 shape -/
theorem joinK3_of_keys (f : Loc → Loc) (rs : RKey → RKey) (ls : LKey → LKey)
    (hirr : ∀ r l, irrK r l = true → irrK (rs r) (ls l) = true)
    (xs : List Loc) (hc : chain xs = true) (hx : ∀ a ∈ xs, structP (f a) = true ∧ KeyOk f rs ls a) :
    joinK3 (xs.map f) = false := by
  unfold joinK3
  refine k3Fold_of_stable _ [] ?_
  rw [List.append_nil, stableR_reverse]
  exact (chain_flat_map f rs ls hirr xs hc hx).1

/-! ### the guard of a `LocHom` that moves keys like that is never raised -/

section
variable {f : Loc → Loc} {g : Loc → Bool}

mutual
theorem hom_guard_false (h : LocHom f g id) (S : Loc → Bool)
    (hSj : ∀ ls, S (joined ls) = true → ∀ l ∈ ls, S l = true)
    (hSo : ∀ ls, S (ordered ls) = true → ∀ l ∈ ls, S l = true)
    (hSc : ∀ l, S (compl l) = true → S l = true)
    (rs : RKey → RKey) (ls' : LKey → LKey)
    (hirr : ∀ r l, irrK r l = true → irrK (rs r) (ls' l) = true)
    (hkey : ∀ a, partOk a = true → S a = true → HomOk f a → KeyOk f rs ls' a) :
    ∀ (l : Loc), structP l = true → S l = true → g l = false
  | between p, _, _ => h.gLeaf _ rfl
  | point p, _, _ => h.gLeaf _ rfl
  | ranged s e a b, _, _ => h.gLeaf _ rfl
  | ambiguous s e, _, _ => h.gLeaf _ rfl
  | joined xs, hs, hS => by
      obtain ⟨hst, h2, hnj⟩ := stable_of_structP_joined xs hs
      have hs' := hs
      simp only [structP, Bool.and_eq_true] at hs'
      have hparts := hom_guard_falseList h S hSj hSo hSc rs ls' hirr hkey xs hs'.1.1.1 (hSj xs hS)
      rw [h.gJoined, Bool.or_eq_false_iff]
      refine ⟨?_, ?_⟩
      · rw [List.any_eq_false]; intro l hl; simpa using hparts l hl
      · refine joinK3_of_keys f rs ls' hirr xs (by rw [← stableR_reverse]; exact hst) ?_
        intro a ha
        have hok := hom_struct h a ((structPList_iff xs).mp hs'.1.1.1 a ha) (hparts a ha)
        exact ⟨hok.1, hkey a (stableR_parts _ hst a (by simpa using ha)) (hSj xs hS a ha) hok⟩
  | ordered xs, hs, hS => by
      have hs' := hs
      simp only [structP, Bool.and_eq_true] at hs'
      have hparts := hom_guard_falseList h S hSj hSo hSc rs ls' hirr hkey xs hs'.1.1 (hSo xs hS)
      rw [h.gOrdered, List.any_eq_false]
      intro l hl; simpa using hparts l hl
  | compl l, hs, hS => by
      simp only [structP, Bool.and_eq_true] at hs
      rw [h.gCompl]
      exact hom_guard_false h S hSj hSo hSc rs ls' hirr hkey l hs.1 (hSc l hS)
theorem hom_guard_falseList (h : LocHom f g id) (S : Loc → Bool)
    (hSj : ∀ ls, S (joined ls) = true → ∀ l ∈ ls, S l = true)
    (hSo : ∀ ls, S (ordered ls) = true → ∀ l ∈ ls, S l = true)
    (hSc : ∀ l, S (compl l) = true → S l = true)
    (rs : RKey → RKey) (ls' : LKey → LKey)
    (hirr : ∀ r l, irrK r l = true → irrK (rs r) (ls' l) = true)
    (hkey : ∀ a, partOk a = true → S a = true → HomOk f a → KeyOk f rs ls' a) :
    ∀ (xs : List Loc), structPList xs = true → (∀ l ∈ xs, S l = true) → ∀ l ∈ xs, g l = false
  | [], _, _ => by simp
  | x :: xs, hs, hS => by
      simp only [structPList_cons, Bool.and_eq_true] at hs
      intro l hl
      rcases List.mem_cons.mp hl with h' | h'
      · rw [h']; exact hom_guard_false h S hSj hSo hSc rs ls' hirr hkey x hs.1 (hS x (by simp))
      · exact hom_guard_falseList h S hSj hSo hSc rs ls' hirr hkey xs hs.2
          (fun l hl => hS l (by simp [hl])) l h'
end

end

/-! ### insertions: `Shift(i, n)` and `Expand(i, n)` with `0 ≤ n` -/

/-- an end coordinate (and a between-site) moves when it lies behind the insertion point -/
def fE (i n c : Int) : Int := if i < c then c + n else c
/-- a start coordinate (and a point) moves when it lies at or behind the insertion point -/
def fS (i n c : Int) : Int := if i ≤ c then c + n else c

def insR (i n : Int) : RKey → RKey
  | .B v => .B (fE i n v)
  | .P v => .P (fS i n v)
  | .R v => .R (fE i n v)
  | .C => .C
  | .N => .N

def insL (i n : Int) : LKey → LKey
  | .B u => .B (fE i n u)
  | .S u => .S (fS i n u)
  | .C => .C
  | .N => .N

theorem ins_irr (i n : Int) (hn : 0 ≤ n) : ∀ r l, irrK r l = true → irrK (insR i n r) (insL i n l) = true := by
  intro r l
  cases r <;> cases l <;> simp only [irrK, insR, insL, fE, fS, bne_iff_ne, ne_eq, imp_self] <;>
    (intro h; split <;> split <;> omega)

theorem keyOk_single (f : Loc → Loc) (rs : RKey → RKey) (ls : LKey → LKey) (a y : Loc) (he : f a = y)
    (hj : isJoinedC y = false) (hr : rkey y = rs (rkey a)) (hl : lkey y = ls (lkey a)) : KeyOk f rs ls a := by
  unfold KeyOk
  rw [he, flatJ_of_not_joined y hj]
  refine ⟨by simp, ?_, ?_⟩ <;> intro z hz <;> simp at hz <;> subst hz <;> assumption

theorem keyOk_ordered (f : Loc → Loc) (rs : RKey → RKey) (ls : LKey → LKey) (a : Loc)
    (ha : rs (rkey a) = .N) (hl : ls (lkey a) = .N) (ho : isOrderedC (f a) = true ∨ ∃ s e, f a = ambiguous s e) :
    KeyOk f rs ls a := by
  rcases ho with ho | ⟨s, e, he⟩
  · cases hq : f a <;> rw [hq] at ho <;> simp [isOrderedC] at ho
    exact keyOk_single f rs ls a _ hq rfl (by rw [ha]; rfl) (by rw [hl]; rfl)
  · exact keyOk_single f rs ls a _ he rfl (by rw [ha]; rfl) (by rw [hl]; rfl)

theorem betweenExpand_ins (p i n : Int) (hn : 0 ≤ n) : betweenExpand p i n = between (fE i n p) := by
  unfold betweenExpand fE
  rw [gmax_max]
  congr 1
  split <;> omega

theorem pointExpand_ins (p i n : Int) (hn : 0 ≤ n) : pointExpand p i n = point (fS i n p) := by
  unfold pointExpand fS
  rw [if_neg (by omega), gmax_max]
  congr 1
  split <;> split <;> omega

theorem shift_keyOk (i n : Int) (hn : 0 ≤ n) (a : Loc) (hp : partOk a = true)
    (hok : HomOk (fun l => shift l i n) a) : KeyOk (fun l => shift l i n) (insR i n) (insL i n) a := by
  cases a with
  | between p => exact keyOk_single _ _ _ _ _ (betweenExpand_ins p i n hn) rfl rfl rfl
  | point p => exact keyOk_single _ _ _ _ _ (pointExpand_ins p i n hn) rfl rfl rfl
  | ranged s e a b =>
    by_cases h0 : n = 0
    · subst h0
      refine keyOk_single _ _ _ _ (ranged s e a b) (by simp [shift, rangedShift]) rfl ?_ ?_
      · simp [rkey, insR, fE]
      · simp [lkey, insL, fS]
    · by_cases hsp : s < i ∧ i < e
      · have he : shift (ranged s e a b) i n = joined [ranged s i a false, ranged (i + n) (e + n) false b] := by
          simp only [shift, rangedShift, if_neg h0, if_neg (show ¬ n < 0 by omega), if_pos hsp]
          rw [join_two_ranged, if_neg (by omega)]
        unfold KeyOk
        simp only [he, flatJ, flatJList, List.append_nil, List.singleton_append]
        refine ⟨by simp, ?_, ?_⟩ <;> intro z hz <;> simp at hz <;> subst hz
        · simp only [rkey, insR, fE]; rw [if_pos hsp.2]
        · simp only [lkey, insL, fS]; rw [if_neg (by omega)]
      · refine keyOk_single _ _ _ _ (ranged (fS i n s) (fE i n e) a b) ?_ rfl rfl rfl
        simp only [shift, rangedShift, if_neg h0, if_neg (show ¬ n < 0 by omega), if_neg hsp, fS, fE]
  | ambiguous s e =>
    refine keyOk_ordered _ _ _ _ rfl rfl ?_
    simp only [shift, ambiguousShift]
    split
    · exact Or.inr ⟨_, _, rfl⟩
    · split
      · omega
      · split
        · exact Or.inl rfl
        · exact Or.inr ⟨_, _, rfl⟩
  | joined ls => simp [partOk, isJoinedC] at hp
  | ordered ls => exact keyOk_ordered _ _ _ _ rfl rfl (Or.inl (hok.2.2.2 rfl))
  | compl c => exact keyOk_single _ _ _ _ (compl (shift c i n)) (by simp [shift]) rfl rfl rfl

/-- **`Shift(i, n)` with `0 ≤ n` never meets the K3 shape** -/
theorem shiftK3_false (i n : Int) (hn : 0 ≤ n) (l : Loc) (hs : structP l = true) : shiftK3 l i n = false :=
  hom_guard_false (shift_hom i n) (fun _ => true) (fun _ _ _ _ => rfl) (fun _ _ _ _ => rfl) (fun _ _ => rfl)
    (insR i n) (insL i n) (ins_irr i n hn) (fun a hp _ hok => shift_keyOk i n hn a hp hok) l hs rfl

theorem rangedExpand_ins (s e : Int) (a b : Bool) (i n : Int) (hn : 0 ≤ n) (hse : s < e) :
    rangedExpand s e a b i n = ranged (fS i n s) (fE i n e) a b := by
  unfold rangedExpand
  by_cases h0 : n = 0
  · subst h0; simp [fS, fE]
  · rw [if_neg h0]
    simp only [gmax_max]
    have h1 : (if (0 ≤ n ∧ i ≤ s) ∨ (n < 0 ∧ i < s) then max i (s + n) else s) = fS i n s := by
      unfold fS; split <;> split <;> omega
    have h2 : (if (0 ≤ n ∧ i < e) ∨ (n < 0 ∧ i ≤ e) then max i (e + n) else e) = fE i n e := by
      unfold fE; split <;> split <;> omega
    rw [h1, h2, if_neg (by unfold fS fE; split <;> split <;> omega),
      if_neg (show ¬ (n < 0 ∧ i ≤ s ∧ s < i - n) by omega), if_neg (show ¬ (n < 0 ∧ i < e ∧ e ≤ i - n) by omega)]

theorem ambiguousExpand_ins (s e i n : Int) (hn : 0 ≤ n) (hse : s < e) :
    ambiguousExpand s e i n = ambiguous (fS i n s) (fE i n e) := by
  unfold ambiguousExpand
  by_cases h0 : n = 0
  · subst h0; simp [fS, fE]
  · rw [if_neg h0]
    simp only [gmax_max]
    have h1 : (if (0 ≤ n ∧ i ≤ s) ∨ (n < 0 ∧ i < s) then max i (s + n) else s) = fS i n s := by
      unfold fS; split <;> split <;> omega
    have h2 : (if (0 ≤ n ∧ i < e) ∨ (n < 0 ∧ i ≤ e) then max i (e + n) else e) = fE i n e := by
      unfold fE; split <;> split <;> omega
    rw [h1, h2, if_neg (by unfold fS fE; split <;> split <;> omega)]

theorem expand_keyOk (i n : Int) (hn : 0 ≤ n) (a : Loc) (hp : partOk a = true) (hw : wf a = true)
    (hok : HomOk (fun l => expand l i n) a) : KeyOk (fun l => expand l i n) (insR i n) (insL i n) a := by
  cases a with
  | between p => exact keyOk_single _ _ _ _ _ (betweenExpand_ins p i n hn) rfl rfl rfl
  | point p => exact keyOk_single _ _ _ _ _ (pointExpand_ins p i n hn) rfl rfl rfl
  | ranged s e a b =>
    exact keyOk_single _ _ _ _ _ (rangedExpand_ins s e a b i n hn (by simpa [wf] using hw)) rfl rfl rfl
  | ambiguous s e =>
    exact keyOk_ordered _ _ _ _ rfl rfl (Or.inr ⟨_, _, ambiguousExpand_ins s e i n hn (by simpa [wf] using hw)⟩)
  | joined ls => simp [partOk, isJoinedC] at hp
  | ordered ls => exact keyOk_ordered _ _ _ _ rfl rfl (Or.inl (hok.2.2.2 rfl))
  | compl c => exact keyOk_single _ _ _ _ (compl (expand c i n)) (by simp [expand]) rfl rfl rfl

theorem wfList_iff' (l : List Loc) : wfList l = true ↔ ∀ x ∈ l, wf x = true := by
  induction l with
  | nil => simp
  | cons a r ih => simp [ih]

/-- **`Expand(i, n)` with `0 ≤ n` never meets the K3 shape on a well-formed location** (every span
non-empty: an empty `Ranged` would turn into a between-site) -/
theorem expandK3_false (i n : Int) (hn : 0 ≤ n) (l : Loc) (hs : structP l = true) (hw : wf l = true) :
    expandK3 l i n = false :=
  hom_guard_false (expand_hom i n) wf
    (fun ls h l hl => (wfList_iff' ls).mp (by simpa [wf] using h) l hl)
    (fun ls h l hl => (wfList_iff' ls).mp (by simpa [wf] using h) l hl)
    (fun l h => by simpa [wf] using h)
    (insR i n) (insL i n) (ins_irr i n hn) (fun a hp hw hok => expand_keyOk i n hn a hp hw hok) l hs hw

end Loc
end Gts
