/-
  A RELATIONAL reading of the `pars` state model: what a parser does when OLDER saved positions `st`
  lie underneath the ones it works with.

  `RP st p Q s`: `p` run on `⟨s.rest, s.stk ++ st⟩` returns the SAME outcome and the same position as on
  `s`, and its saved positions are those of the run on `s` with `st` still underneath, untouched; `Q`
  holds for the run on `s`.  `Push`, and `Pop` / `Drop` / `Trail` on a non-empty stack `s.stk`, have it;
  `Pop` / `Drop` / `Trail` on an EMPTY `s.stk` do not (they would reach into `st`), nor do `Pushed` and
  `Clear`.  So a parser has it as long as it only ever takes back frames it pushed itself — `Q` carries
  the count (`Keep n`: at least `n` own frames are left).

  `RS p`: with at least `n` own frames on entry, `p` has `RP` and leaves at least `n` of them (frames may
  leak, they are never over-popped): the relational counterpart of `Safe` (ParsSafe.lean).

  Used for `genbankLocusParser` (`Gts/Lemmas/GbStackIndep.lean`): everything `GenBankParser` does in
  front of its `state.Clear()`.  Core Lean only.
-/
import Gts.Lemmas.ParsSafe
namespace Gts.Pars

variable {α β : Type}

/-- see the file header -/
def RP (st : List Bytes) (p : P α) (Q : Except Err α → PS → Prop) (s : PS) : Prop :=
  p.run' ⟨s.rest, s.stk ++ st⟩ = ((p.run' s).1, ⟨(p.run' s).2.rest, (p.run' s).2.stk ++ st⟩) ∧
    Q (p.run' s).1 (p.run' s).2

variable {st : List Bytes} {s : PS}

theorem rp_mono {p : P α} {Q Q' : Except Err α → PS → Prop} (h : RP st p Q s)
    (hq : ∀ r s', Q r s' → Q' r s') : RP st p Q' s := ⟨h.1, hq _ _ h.2⟩

theorem rp_bind {p : P α} {f : α → P β} {Q : Except Err β → PS → Prop}
    (h : RP st p (fun r s' => match r with
      | .ok a => RP st (f a) Q s'
      | .error e => Q (.error e) s') s) : RP st (p >>= f) Q s := by
  obtain ⟨h1, h2⟩ := h
  unfold RP
  rw [run_bind, run_bind, h1]
  rcases hp : p.run' s with ⟨r, s'⟩
  rw [hp] at h2
  cases r with
  | error e => exact ⟨rfl, h2⟩
  | ok a => exact h2

theorem rp_pure {a : α} {Q : Except Err α → PS → Prop} (k : Q (.ok a) s) : RP st (pure a : P α) Q s :=
  ⟨rfl, k⟩

theorem rp_fail {Q : Except Err α → PS → Prop} (k : Q (.error .fail) s) : RP st (fail : P α) Q s :=
  ⟨rfl, k⟩

theorem rp_push {Q : Except Err Unit → PS → Prop} (k : Q (.ok ()) ⟨s.rest, s.rest :: s.stk⟩) :
    RP st push Q s := ⟨rfl, k⟩

theorem rp_pop {Q : Except Err Unit → PS → Prop} (h : 1 ≤ s.stk.length)
    (k : ∀ s', s'.stk = s.stk.drop 1 → Q (.ok ()) s') : RP st pop Q s := by
  obtain ⟨rest, stk⟩ := s
  cases stk with
  | nil => simp at h
  | cons f own =>
    unfold RP
    rw [run_pop, run_pop]
    exact ⟨rfl, k _ rfl⟩

theorem rp_drop {Q : Except Err Unit → PS → Prop} (h : 1 ≤ s.stk.length)
    (k : ∀ s', s'.stk = s.stk.drop 1 → Q (.ok ()) s') : RP st drop Q s := by
  obtain ⟨rest, stk⟩ := s
  cases stk with
  | nil => simp at h
  | cons f own =>
    unfold RP
    rw [run_drop, run_drop]
    exact ⟨rfl, k _ rfl⟩

/-- `Trail` pops the youngest own frame, or panics and leaves the state as it is -/
theorem rp_trail {Q : Except Err Bytes → PS → Prop} (h : 1 ≤ s.stk.length)
    (k : ∀ r s', s.stk.length ≤ s'.stk.length + 1 → Q r s') : RP st trail Q s := by
  obtain ⟨rest, stk⟩ := s
  cases stk with
  | nil => simp at h
  | cons f own =>
    unfold RP
    rw [run_trail, run_trail]
    dsimp only [List.cons_append]
    by_cases hc : f.length < rest.length
    · rw [if_pos hc, if_pos hc]
      exact ⟨rfl, k _ _ (by simp)⟩
    · rw [if_neg hc, if_neg hc]
      exact ⟨rfl, k _ _ (by simp)⟩

theorem rp_attempt {p : P α} {Q : Except Err (Option α) → PS → Prop}
    (h : RP st p (fun r s' => match r with
      | .ok a => Q (.ok (some a)) s'
      | .error .fail => Q (.ok none) s'
      | .error .panic => Q (.error .panic) s') s) : RP st (attempt p) Q s := by
  obtain ⟨h1, h2⟩ := h
  unfold RP
  rw [run_attempt, run_attempt, h1]
  rcases hp : p.run' s with ⟨r, s'⟩
  rw [hp] at h2
  cases r with
  | ok a => exact ⟨rfl, h2⟩
  | error e => cases e <;> exact ⟨rfl, h2⟩

/-- a parser that neither reads nor writes the saved positions: its outcome and new position are a
function `g` of the input left -/
theorem rp_blind {p : P α} (g : Bytes → Except Err α × Bytes)
    (hg : ∀ rest stk, p.run' ⟨rest, stk⟩ = ((g rest).1, ⟨(g rest).2, stk⟩))
    {Q : Except Err α → PS → Prop} (k : ∀ r rest', Q r ⟨rest', s.stk⟩) : RP st p Q s := by
  obtain ⟨rest, stk⟩ := s
  unfold RP
  rw [hg, hg]
  exact ⟨rfl, k _ _⟩

/-! ### `RS`: stack independence with the count of own frames kept -/

/-- at least `n` own frames are left -/
def Keep (n : Nat) : Except Err α → PS → Prop := fun _ s' => n ≤ s'.stk.length

/-- see the file header -/
def RS (p : P α) : Prop := ∀ st n s, n ≤ s.stk.length → RP st p (Keep n) s

theorem rs_blind {p : P α} (g : Bytes → Except Err α × Bytes)
    (hg : ∀ rest stk, p.run' ⟨rest, stk⟩ = ((g rest).1, ⟨(g rest).2, stk⟩)) : RS p :=
  fun _ _ _ h => rp_blind g hg (fun _ _ => h)

theorem rs_pure (a : α) : RS (pure a : P α) := fun _ _ _ h => rp_pure h
theorem rs_fail : RS (fail : P α) := fun _ _ _ h => rp_fail h

theorem rs_bind {p : P α} {f : α → P β} (hp : RS p) (hf : ∀ a, RS (f a)) : RS (p >>= f) := by
  intro st n s h
  apply rp_bind
  apply rp_mono (hp st n s h)
  intro r s' hk
  cases r with
  | ok a => exact hf a st n s' hk
  | error e => exact hk

theorem rs_attempt {p : P α} (hp : RS p) : RS (attempt p) := by
  intro st n s h
  apply rp_attempt
  apply rp_mono (hp st n s h)
  intro r s' hk
  cases r with
  | ok a => exact hk
  | error e => cases e <;> exact hk

theorem rs_ite {c : Prop} [Decidable c] {p q : P α} (hp : RS p) (hq : RS q) : RS (if c then p else q) := by
  split <;> assumption

/-! ### the primitives that do not look at the saved positions -/

theorem rs_next : RS next :=
  rs_blind (fun rest => match rest with | [] => (.error .fail, []) | c :: r => (.ok c, c :: r)) (by
    intro rest stk
    rw [run_next]
    cases rest <;> rfl)

theorem rs_advance1 : RS advance1 := rs_blind (fun rest => (.ok (), rest.drop 1)) (fun _ _ => rfl)
theorem rs_advanceN (k : Nat) : RS (advanceN k) := rs_blind (fun rest => (.ok (), rest.drop k)) (fun _ _ => rfl)
theorem rs_skipWhile (f : UInt8 → Bool) : RS (skipWhile f) :=
  rs_blind (fun rest => (.ok (), rest.dropWhile f)) (fun _ _ => rfl)

theorem rs_lit (p : Bytes) : RS (lit p) :=
  rs_blind (fun rest => if rest.take p.length == p && p.length ≤ rest.length then (.ok (), rest.drop p.length)
      else (.error .fail, rest)) (by
    intro rest stk
    unfold lit
    rw [run_bind, run_getS]
    dsimp only
    split
    · rw [run_advanceN]
    · rw [run_fail])

theorem rs_line : RS line :=
  rs_blind (fun rest =>
      (.ok (rest.take (calcLine rest 0 0 false).1),
        if (rest.drop (calcLine rest 0 0 false).1).length < (calcLine rest 0 0 false).2
        then rest.drop (calcLine rest 0 0 false).1
        else (rest.drop (calcLine rest 0 0 false).1).drop (calcLine rest 0 0 false).2)) (by
    intro rest stk
    unfold line
    rw [run_bind, run_getS]
    dsimp only
    rcases hc : calcLine rest 0 0 false with ⟨i, n⟩
    dsimp only
    rw [run_bind, run_setS]
    rfl)

/-! ### the primitives that push and take back their own frame -/

/-- `pars.Spaces`: `Push`, skip, `Trail` -/
theorem rs_spaces : RS spaces := by
  intro st n s h
  unfold spaces
  apply rp_bind; apply rp_push; dsimp only
  apply rp_bind
  apply rp_mono (rs_skipWhile isSpace st (n + 1) _ (by simp; omega))
  intro r s1 hk
  cases r with
  | error e => exact Nat.le_of_succ_le hk
  | ok _ =>
    dsimp only
    apply rp_trail (Nat.le_trans (by omega) hk)
    intro r s2 h2
    show n ≤ s2.stk.length
    have : n + 1 ≤ s1.stk.length := hk
    omega

/-- `pars.Word(f)` -/
theorem rs_word (f : UInt8 → Bool) : RS (word f) := by
  intro st n s h
  unfold word
  apply rp_bind; apply rp_push; dsimp only
  apply rp_bind
  apply rp_mono (rs_skipWhile f st (n + 1) _ (by simp; omega))
  intro r s1 hk
  cases r with
  | error e => exact Nat.le_of_succ_le hk
  | ok _ =>
    dsimp only
    apply rp_bind
    apply rp_trail (Nat.le_trans (by omega) hk)
    intro r s2 h2
    have h1 : n + 1 ≤ s1.stk.length := hk
    have h3 : n ≤ s2.stk.length := by omega
    cases r with
    | error e => exact h3
    | ok p =>
      dsimp only
      split
      · exact rp_fail h3
      · exact rp_pure h3

/-- what `pars.Int` does behind the sign, with its frame still pushed -/
def intTail (c : UInt8) : P Int :=
  if !isDigit c then do pop; fail
  else if c == 48 then do advance1; drop; pure 0
  else do
    skipWhile isDigit
    let p ← trail
    match atoi p with
    | some n => pure n
    | none => fail

theorem int_eq : int = (do
    push
    let c ← next
    if c == 45 || c == 43 then do advance1; let c ← next; intTail c else intTail c) := rfl

theorem rp_intTail (c : UInt8) (n : Nat) (s3 : PS) (h3 : n + 1 ≤ s3.stk.length) :
    RP st (intTail c) (Keep n) s3 := by
  unfold intTail
  split
  · -- not a digit: `Pop`, fail
    apply rp_bind
    apply rp_pop (by omega)
    intro s4 h4
    dsimp only
    apply rp_fail
    show n ≤ s4.stk.length
    rw [h4, List.length_drop]; omega
  · split
    · -- zero: `Advance`, `Drop`
      apply rp_bind
      apply rp_mono (rs_advance1 st (n + 1) s3 h3)
      intro r s4 hk4
      cases r with
      | error e => exact Nat.le_of_succ_le hk4
      | ok _ =>
        dsimp only
        have h4 : n + 1 ≤ s4.stk.length := hk4
        apply rp_bind
        apply rp_drop (by omega)
        intro s5 h5
        dsimp only
        apply rp_pure
        show n ≤ s5.stk.length
        rw [h5, List.length_drop]; omega
    · apply rp_bind
      apply rp_mono (rs_skipWhile isDigit st (n + 1) s3 h3)
      intro r s4 hk4
      cases r with
      | error e => exact Nat.le_of_succ_le hk4
      | ok _ =>
        dsimp only
        have h4 : n + 1 ≤ s4.stk.length := hk4
        apply rp_bind
        apply rp_trail (by omega)
        intro r s5 h5
        have h6 : n ≤ s5.stk.length := by omega
        cases r with
        | error e => exact h6
        | ok p =>
          dsimp only
          split
          · exact rp_pure h6
          · exact rp_fail h6

/-- `pars.Int`: the frame leaks when the input ends behind it, is popped on a non-digit, dropped on a
zero, and taken back by `Trail` otherwise — never more than its own -/
theorem rs_int : RS int := by
  intro st n s h
  rw [int_eq]
  apply rp_bind; apply rp_push; dsimp only
  have hs1 : n + 1 ≤ (PS.mk s.rest (s.rest :: s.stk)).stk.length := by simp; omega
  generalize PS.mk s.rest (s.rest :: s.stk) = s1 at hs1
  apply rp_bind
  apply rp_mono (rs_next st (n + 1) s1 hs1)
  intro r s2 hk
  cases r with
  | error e => exact Nat.le_of_succ_le hk
  | ok c =>
    dsimp only
    split
    · apply rp_bind
      apply rp_mono (rs_advance1 st (n + 1) s2 hk)
      intro r s3 hk3
      cases r with
      | error e => exact Nat.le_of_succ_le hk3
      | ok _ =>
        dsimp only
        apply rp_bind
        apply rp_mono (rs_next st (n + 1) s3 hk3)
        intro r s4 hk4
        cases r with
        | error e => exact Nat.le_of_succ_le hk4
        | ok c' => exact rp_intTail c' n s4 hk4
    · exact rp_intTail c n s2 hk

end Gts.Pars
