/-
  `Repair` (property C12), part 5: the residues covered by a class.  Core Lean only.
-/
import Gts.Lemmas.RepairRanged
namespace Gts
open Loc

theorem wfList_iff (l : List Loc) : wfList l = true ↔ ∀ x ∈ l, wf x = true := by
  induction l with
  | nil => simp
  | cons a as ih => simp [ih]

theorem mem_denList (ls : List Loc) (x : Pos) : x ∈ denList ls ↔ ∃ l ∈ ls, x ∈ den l := by
  induction ls with
  | nil => simp
  | cons a as ih => simp [ih]

theorem Refines.mem_iff {a b : List Pos} (h : a ≼ b) (x : Pos) : x ∈ a ↔ x ∈ b :=
  ⟨fun hx => h.1.subset hx, fun hx => h.2 x hx⟩

/-- **(f), one class**: unless rule K2 fires, the pushed list denotes the same residues as the
members of the class -/
theorem mem_denList_pushedOf (f : Bool) (locs : List Loc) (hw : wfList locs = true)
    (hk2 : pushAllAbs (sortLocs locs) f = false) (x : Pos) :
    x ∈ denList (pushedOf f locs) ↔ x ∈ denList locs := by
  have hws : wfList (sortLocs locs) = true := by
    rw [wfList_iff] at hw ⊢
    exact fun y hy => hw y ((sortLocs_perm _).mem_iff.mp hy)
  have h := (fold_ok (pushD_ok pushFuel) f (sortLocs locs) [] (by simp) hws).1 hk2
  simp only [denR_nil, List.nil_append] at h
  have e : denList (pushedOf f locs) = denR (List.foldl (fun acc y => pushD pushFuel acc y f) [] (sortLocs locs)) := rfl
  rw [e, h.mem_iff, mem_denList, mem_denList]
  constructor
  · rintro ⟨l, hl, hx⟩; exact ⟨l, (sortLocs_perm _).mem_iff.mp hl, hx⟩
  · rintro ⟨l, hl, hx⟩; exact ⟨l, (sortLocs_perm _).mem_iff.mpr hl, hx⟩

/-- the residues (with strand) covered by the features whose grouping text is `k` -/
def Table.classDen (t : Table) (k : String) : List Pos := denList (Table.locsOf t k)

/-- every feature is well-formed (`Start < End` in every range) -/
def Table.wfT (t : Table) : Bool := t.all fun f => wf f.loc

theorem mem_specRepair (t : Table) (f : Feature) (h : f ∈ specRepair t) :
    ∃ j, j ∈ specKeep t ∧ (specGG t)[j]? = some f := by
  simpa [specRepair, List.mem_filterMap] using h

theorem locsOf_specRepair_of_not_mem (t : Table) (k : String)
    (hk : k ∉ Table.classKeys t) : Table.locsOf (specRepair t) k = [] := by
  simp only [Table.locsOf, List.map_eq_nil_iff, List.filter_eq_nil_iff, beq_iff_eq]
  intro f hf hfk
  obtain ⟨j, hj, hg⟩ := mem_specRepair t f hf
  obtain ⟨idx, hi, hj'⟩ := (mem_specKeep t j).mp hj
  have hjlt : j < t.length := groups_lt t idx hi j (List.mem_of_mem_take hj')
  have hkey := specGG_classKey t j
  rw [hg, List.getElem?_eq_getElem hjlt] at hkey
  simp only [Option.map_some, Option.some.injEq] at hkey
  exact hk ((Table.mem_classKeys t k).mpr ⟨t[j], List.getElem_mem hjlt, by rw [← hkey, hfk]⟩)

theorem locsOf_of_not_mem (t : Table) (k : String) (hk : k ∉ Table.classKeys t) : Table.locsOf t k = [] := by
  simp only [Table.locsOf, List.map_eq_nil_iff, List.filter_eq_nil_iff, beq_iff_eq]
  intro f hf hfk
  exact hk ((Table.mem_classKeys t k).mpr ⟨f, hf, hfk⟩)

/-- **(f)**: per grouping text, the set of covered residues is unchanged -/
theorem classDen_specRepair (t : Table) (hw : Table.wfT t = true) (hnil : (Table.groups t).any (classNil t) = false)
    (hk2 : Table.k2 t = false) (k : String) (x : Pos) :
    x ∈ Table.classDen (specRepair t) k ↔ x ∈ Table.classDen t k := by
  by_cases hk : k ∈ Table.classKeys t
  · have hidx : Table.memberIdx t k ∈ Table.groups t := List.mem_map.mpr ⟨k, hk, rfl⟩
    simp only [Table.classDen, locsOf_specRepair t hnil k hk, classNew]
    split
    · rw [← classLocs_memberIdx]
      apply mem_denList_pushedOf
      · rw [wfList_iff]
        intro l hl
        obtain ⟨i, _, f, hf, rfl⟩ := mem_classLocs t _ l hl
        simp only [Table.wfT, List.all_eq_true] at hw
        exact hw f (List.mem_of_getElem? hf)
      · simp only [Table.k2, List.any_eq_false] at hk2
        simpa using hk2 _ hidx
    · rw [classLocs_memberIdx]
  · simp [Table.classDen, locsOf_specRepair_of_not_mem t k hk, locsOf_of_not_mem t k hk]

end Gts
