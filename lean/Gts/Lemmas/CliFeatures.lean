/-
  Helper lemmas for the FEATURE clause of C15 (`gts delete`, `gts insert`, `gts infix`): what the
  scan loops of `Gts/Model/Cli.lean` do to the location of every feature.

  * the location a feature has after the loop (`delLoc`, `insLoc`), the K2 guard folded along the
    same loop (`delAbs`, `insAbs`), the feature tables (`deleteSegs_feats`, `deleteSegs_erase_feats`,
    `insertAt_feats_perm`);
  * the position re-mappings composed along the loop (`composeDel`, `composeIns`) and their closed
    forms in the INPUT's coordinates (`unionDelMap`, `multiInsMap`) — pure arithmetic on sorted
    segments / descending indices;
  * the denotation theorems (`delLoc_den`, `insLoc_den`, `embLoc_den`).
  Core Lean only.
-/
import Gts.Lemmas.Cli
import Gts.Lemmas.Guest
import Gts.Lemmas.Table
import Gts.Lemmas.Record
namespace Gts.Cli
open Gts Loc Reg

/-! ## generalities on re-mappings -/

theorem filterMap_congr' {α β} (f g : α → Option β) (l : List α) (h : ∀ x ∈ l, f x = g x) :
    l.filterMap f = l.filterMap g := by
  induction l with
  | nil => rfl
  | cons a l ih =>
    rw [List.filterMap_cons, List.filterMap_cons, h a (List.mem_cons_self ..),
      ih (fun x hx => h x (List.mem_cons_of_mem _ hx))]

theorem filterMapPos_filterMapPos (f g : Int → Option Int) (d : List Pos) :
    filterMapPos g (filterMapPos f d) = filterMapPos (fun x => (f x).bind g) d := by
  unfold filterMapPos
  rw [List.filterMap_filterMap]
  apply filterMap_congr'
  intro p _
  cases h : f p.1 <;> simp [h]

theorem filterMapPos_congr (f g : Int → Option Int) (d : List Pos) (h : ∀ p ∈ d, f p.1 = g p.1) :
    filterMapPos f d = filterMapPos g d := by
  unfold filterMapPos
  apply filterMap_congr'
  intro p hp
  rw [h p hp]

theorem mapPos_mapPos (f g : Int → Int) (d : List Pos) :
    mapPos g (mapPos f d) = mapPos (fun x => g (f x)) d := by
  unfold mapPos
  rw [List.map_map]
  rfl

theorem mapPos_congr (f g : Int → Int) (d : List Pos) (h : ∀ p ∈ d, f p.1 = g p.1) :
    mapPos f d = mapPos g d := by
  unfold mapPos
  apply List.map_congr_left
  intro p hp
  rw [h p hp]

theorem mapPos_id (d : List Pos) : mapPos (fun x => x) d = d := by
  unfold mapPos
  simp

/-- a partial re-mapping that is injective where it is defined keeps a duplicate-free
denotation duplicate-free -/
theorem nodup_filterMapPos (f : Int → Option Int) (d : List Pos)
    (hinj : ∀ x x' y, f x = some y → f x' = some y → x = x') (hd : d.Nodup) :
    (filterMapPos f d).Nodup := by
  unfold filterMapPos
  refine List.Pairwise.filterMap _ ?_ hd
  intro a a' hne b hb b' hb' hbb
  apply hne
  cases ha : f a.1 with
  | none => simp [ha] at hb
  | some y =>
    cases ha' : f a'.1 with
    | none => simp [ha'] at hb'
    | some y' =>
      simp only [ha, Option.map_some, Option.some.injEq] at hb
      simp only [ha', Option.map_some, Option.some.injEq] at hb'
      subst hb; subst hb'
      have h1 : y = y' := (Prod.mk.inj hbb).1
      have h2 : a.2 = a'.2 := (Prod.mk.inj hbb).2
      subst h1
      exact Prod.ext (hinj _ _ _ ha ha') h2

theorem nodup_mapPos (f : Int → Int) (d : List Pos)
    (hinj : ∀ x x', f x = f x' → x = x') (hd : d.Nodup) : (mapPos f d).Nodup := by
  unfold mapPos
  apply hd.map
  intro a b hne hab
  apply hne
  exact Prod.ext (hinj _ _ (Prod.mk.inj hab).1) (Prod.mk.inj hab).2

/-! ## delete -/

/-- the loop, one segment at a time (the first segment of the ascending list is cut LAST) -/
theorem deleteSegs_cons (erase : Bool) (a : Seg) (ss : List Seg) (s : Seq) :
    deleteSegs erase (a :: ss) s =
      if erase then (deleteSegs erase ss s).erase a.1 (Reg.gabs (a.2 - a.1))
      else (deleteSegs erase ss s).delete a.1 (Reg.gabs (a.2 - a.1)) := by
  unfold deleteSegs
  simp only [List.reverse_cons, List.foldl_append, List.foldl_cons, List.foldl_nil]

theorem deleteSegs_nil (erase : Bool) (s : Seq) : deleteSegs erase [] s = s := rfl

/-- the location of a feature after the loop of `gts delete` over the (ascending) segments `ss`:
`Expand(head, -len)` for every segment, from the LAST segment to the first -/
def delLoc : List Seg → Loc → Loc
  | [], l => l
  | sg :: ss, l => (delLoc ss l).expand sg.1 (-(Reg.gabs (sg.2 - sg.1)))

/-- the K2 guard of `delLoc`: `expandAbs` of every step, folded along the same loop -/
def delAbs : List Seg → Loc → Bool
  | [], _ => false
  | sg :: ss, l => delAbs ss l || expandAbs (delLoc ss l) sg.1 (-(Reg.gabs (sg.2 - sg.1)))

/-- `gts delete` without `-e`: every feature is kept, in table order, re-located by `delLoc` -/
theorem deleteSegs_feats (ss : List Seg) (s : Seq) :
    (deleteSegs false ss s).feats = s.feats.map fun f => { f with loc := delLoc ss f.loc } := by
  induction ss with
  | nil => simp [deleteSegs_nil, delLoc]
  | cons a ss ih =>
    rw [deleteSegs_cons]
    simp only [Bool.false_eq_true, if_false]
    show (deleteSegs false ss s).feats.map _ = _
    rw [ih, List.map_map]
    rfl

/-- which features `gts delete -e` keeps: at every cut, the `source` features and those whose
CURRENT location (after the cuts to the right) is not wholly within the segment being cut -/
def eraseKeep : List Seg → Feature → Bool
  | [], _ => true
  | sg :: ss, f => eraseKeep ss f &&
      (decide (f.key = "source") || !((delLoc ss f.loc).within sg.1 (sg.1 + Reg.gabs (sg.2 - sg.1))))

/-- `gts delete -e`: exactly the features with `eraseKeep` survive, in table order, re-located by
`delLoc` like under plain `delete` -/
theorem deleteSegs_erase_feats (ss : List Seg) (s : Seq) :
    (deleteSegs true ss s).feats =
      (s.feats.filter (eraseKeep ss)).map fun f => { f with loc := delLoc ss f.loc } := by
  induction ss with
  | nil =>
    have h1 : s.feats.filter (eraseKeep []) = s.feats := List.filter_eq_self.mpr (fun _ _ => rfl)
    rw [deleteSegs_nil, h1]
    simp [delLoc]
  | cons a ss ih =>
    rw [deleteSegs_cons]
    simp only [if_true]
    show ((deleteSegs true ss s).feats.filter _).map _ = _
    rw [ih, List.filter_map, List.map_map, List.filter_filter]
    congr 1
    apply List.filter_congr
    intro f _
    simp only [eraseKeep, Function.comp]
    rw [Bool.and_comm]

/-! ### the composed re-mapping and its closed form -/

/-- the re-mappings of the single cuts, composed in the order of the loop -/
def composeDel : List Seg → Int → Option Int
  | [], x => some x
  | sg :: ss, x => (composeDel ss x).bind (delMap sg.1 (Reg.gabs (sg.2 - sg.1)))

/-- total length of the segments that end at or before `x` -/
def delOffset : List Seg → Int → Int
  | [], _ => 0
  | sg :: ss, x => (if sg.2 ≤ x then sg.2 - sg.1 else 0) + delOffset ss x

/-- SPEC of a multi-segment deletion, in the INPUT's coordinates: a position inside some segment
is removed; any other position moves left by the total length of the segments that end at or
before it -/
def unionDelMap (segs : List Seg) (x : Int) : Option Int :=
  if segsCover segs x then none else some (x - delOffset segs x)

theorem delOffset_nonneg (ss : List Seg) (hf : Fwd ss) (x : Int) : 0 ≤ delOffset ss x := by
  induction ss with
  | nil => simp [delOffset]
  | cons a ss ih =>
    have ha := hf a (List.mem_cons_self ..)
    have := ih (fun o ho => hf o (List.mem_cons_of_mem _ ho))
    simp only [delOffset]
    split <;> omega

/-- no segment starting after `x` ends at or before it -/
theorem delOffset_zero_of_lt (ss : List Seg) (hf : Fwd ss) (x : Int) (h : ∀ b ∈ ss, x < b.1) :
    delOffset ss x = 0 := by
  induction ss with
  | nil => rfl
  | cons b ss ih =>
    have hb := h b (List.mem_cons_self ..)
    have hfb := hf b (List.mem_cons_self ..)
    simp only [delOffset]
    rw [if_neg (by omega), ih (fun o ho => hf o (List.mem_cons_of_mem _ ho))
      (fun o ho => h o (List.mem_cons_of_mem _ ho))]
    omega

/-- disjoint forward segments inside `[lo, x]` have total length at most `x - lo` -/
theorem delOffset_le (ss : List Seg) (hf : Fwd ss) (hp : ss.Pairwise (fun a b => a.2 ≤ b.1))
    (lo x : Int) (hlo : ∀ b ∈ ss, lo ≤ b.1) (hx : lo ≤ x) : delOffset ss x ≤ x - lo := by
  induction ss generalizing lo with
  | nil => simp only [delOffset]; omega
  | cons a ss ih =>
    have ha := hf a (List.mem_cons_self ..)
    have hla := hlo a (List.mem_cons_self ..)
    have hpp := List.pairwise_cons.mp hp
    have hf' : Fwd ss := fun o ho => hf o (List.mem_cons_of_mem _ ho)
    simp only [delOffset]
    by_cases h : a.2 ≤ x
    · rw [if_pos h]
      have := ih hf' hpp.2 a.2 hpp.1 h
      omega
    · rw [if_neg h, delOffset_zero_of_lt ss hf' x (fun b hb => by have := hpp.1 b hb; omega)]
      omega

theorem delMap_zero (i x : Int) : delMap i 0 x = some x := by
  unfold delMap
  split
  · rfl
  · rw [if_neg (by omega)]; simp

/-- **composition lemma (delete)**: for forward, increasing, pairwise disjoint segments, cutting
them from the rightmost to the leftmost re-maps the positions of the INPUT by `unionDelMap` -/
theorem composeDel_eq_unionDelMap (ss : List Seg) (hf : Fwd ss)
    (hp : ss.Pairwise (fun a b => a.2 ≤ b.1)) (x : Int) : composeDel ss x = unionDelMap ss x := by
  induction ss with
  | nil => simp [composeDel, unionDelMap, delOffset]
  | cons a ss ih =>
    have ha := hf a (List.mem_cons_self ..)
    have hpp := List.pairwise_cons.mp hp
    have hf' : Fwd ss := fun o ho => hf o (List.mem_cons_of_mem _ ho)
    have eg : Reg.gabs (a.2 - a.1) = a.2 - a.1 := by unfold Reg.gabs; split <;> omega
    simp only [composeDel]
    rw [ih hf' hpp.2, eg]
    unfold unionDelMap
    simp only [delOffset, segsCover_cons]
    by_cases hc : segsCover ss x
    · simp [hc]
    · rw [if_neg hc]
      simp only [Option.bind_some, hc, or_false]
      by_cases hx : x < a.2
      · have hz : delOffset ss x = 0 :=
          delOffset_zero_of_lt ss hf' x (fun b hb => by have := hpp.1 b hb; omega)
        rw [hz]
        unfold delMap
        by_cases h1 : x < a.1
        · have e1 : ¬ (a.1 ≤ x ∧ x < a.2) := by omega
          have e2 : ¬ a.2 ≤ x := by omega
          have e3 : x - 0 < a.1 := by omega
          simp only [e1, e2, e3, if_true, if_false]
          congr 1
        · have e1 : a.1 ≤ x ∧ x < a.2 := by omega
          have e3 : ¬ x - 0 < a.1 := by omega
          have e4 : x - 0 < a.1 + (a.2 - a.1) := by omega
          simp only [e1, e3, e4, and_self, if_true, if_false]
      · have h1 := delOffset_le ss hf' hpp.2 a.2 x hpp.1 (by omega)
        have h0 := delOffset_nonneg ss hf' x
        unfold delMap
        have e1 : ¬ (a.1 ≤ x ∧ x < a.2) := by omega
        have e2 : a.2 ≤ x := by omega
        have e3 : ¬ x - delOffset ss x < a.1 := by omega
        have e4 : ¬ x - delOffset ss x < a.1 + (a.2 - a.1) := by omega
        simp only [e1, e2, e3, e4, if_true, if_false]
        congr 1
        omega

/-- a single cut is injective where it is defined -/
theorem delMap_inj (i k : Int) (hk : 0 ≤ k) (x x' y : Int) (h : delMap i k x = some y)
    (h' : delMap i k x' = some y) : x = x' := by
  have _ := hk
  unfold delMap at h h'
  split at h <;> split at h' <;> (try split at h) <;> (try split at h') <;>
    simp only [Option.some.injEq, reduceCtorEq] at h h' <;> omega

theorem gabs_nonneg (x : Int) : 0 ≤ Reg.gabs x := by unfold Reg.gabs; split <;> omega

theorem composeDel_inj (ss : List Seg) (x x' y : Int) (h : composeDel ss x = some y)
    (h' : composeDel ss x' = some y) : x = x' := by
  induction ss generalizing y with
  | nil =>
    simp only [composeDel, Option.some.injEq] at h h'
    omega
  | cons a ss ih =>
    simp only [composeDel] at h h'
    cases hz : composeDel ss x with
    | none => simp [hz] at h
    | some z =>
      cases hz' : composeDel ss x' with
      | none => simp [hz'] at h'
      | some z' =>
        rw [hz, Option.bind_some] at h
        rw [hz', Option.bind_some] at h'
        have := delMap_inj _ _ (gabs_nonneg _) z z' y h h'
        subst this
        exact ih z hz hz'

/-! ### the denotation after the loop -/

theorem stripGuest_zero (i : Int) (d : List Pos) : stripGuest i 0 d = d := by
  unfold stripGuest
  apply List.filter_eq_self.mpr
  intro p _
  simp only [decide_eq_true_eq]
  omega

theorem insMap_zero (i x : Int) : insMap i 0 x = x := by
  unfold insMap; split <;> omega

theorem filterMapPos_some (d : List Pos) : filterMapPos (fun x => some x) d = d := by
  unfold filterMapPos
  simp

/-- one cut of length `k ≥ 0` (a zero-length segment `Segment{p,p}` survives `Minimize`; its
"cut" is `Expand(p, 0)`, which only re-`Join`s) -/
theorem expand_del0 (l : Loc) (i k : Int) (hw : wf l = true) (hk : 0 ≤ k) :
    (expandAbs l i (-k) = false → den (expand l i (-k)) ≼ filterMapPos (delMap i k) (den l)) ∧
    wf (expand l i (-k)) = true := by
  by_cases h0 : k = 0
  · subst h0
    have h := expand_ins l i 0 hw (Int.le_refl 0)
    rw [Int.neg_zero]
    refine ⟨?_, h.2⟩
    intro ha
    have h1 := h.1 ha
    rw [stripGuest_zero] at h1
    have e1 : mapPos (insMap i 0) (den l) = den l := by
      rw [mapPos_congr (insMap i 0) (fun x => x) _ (fun p _ => insMap_zero i p.1), mapPos_id]
    have e2 : filterMapPos (delMap i 0) (den l) = den l := by
      rw [filterMapPos_congr (delMap i 0) (fun x => some x) _ (fun p _ => delMap_zero i p.1),
        filterMapPos_some]
    rw [e1] at h1
    rw [e2]
    exact h1
  · exact expand_del l i k hw (by omega)

/-- **the location after the loop of `gts delete`** denotes the former residues re-mapped by the
composed cuts, provided K2 fires in no step; well-formedness is preserved -/
theorem delLoc_den (ss : List Seg) (l : Loc) (hw : wf l = true) :
    (delAbs ss l = false → den (delLoc ss l) ≼ filterMapPos (composeDel ss) (den l)) ∧
    wf (delLoc ss l) = true := by
  induction ss with
  | nil =>
    refine ⟨fun _ => ?_, hw⟩
    simp only [delLoc]
    rw [show composeDel [] = fun x => some x from rfl, filterMapPos_some]
    exact Refines.refl _
  | cons a ss ih =>
    have hstep := expand_del0 (delLoc ss l) a.1 (Reg.gabs (a.2 - a.1)) ih.2 (gabs_nonneg _)
    refine ⟨?_, hstep.2⟩
    intro ha
    simp only [delAbs, Bool.or_eq_false_iff] at ha
    have h1 := hstep.1 ha.2
    have h2 := filterMapPos_refines (delMap a.1 (Reg.gabs (a.2 - a.1))) (ih.1 ha.1)
    rw [filterMapPos_filterMapPos] at h2
    exact h1.trans h2

/-! ## insert / infix -/

theorem insertAt_cons (embed : Bool) (i : Int) (idx : List Int) (host guest : Seq) :
    insertAt embed (i :: idx) host guest =
      insertAt embed idx (if embed then host.embed i guest else host.insert i guest) guest := rfl

/-- the location of a HOST feature after the loop of `gts insert` (`embed = false`: `Shift(i, n)`)
or `gts infix` (`embed = true`: `Expand(i, n)`) over the indices `idx`, first index first -/
def insLoc (embed : Bool) (n : Int) : List Int → Loc → Loc
  | [], l => l
  | i :: idx, l => insLoc embed n idx (if embed then l.expand i n else l.shift i n)

/-- the K2 guard of `insLoc`: `shiftAbs` / `expandAbs` of every step, folded along the same loop -/
def insAbs (embed : Bool) (n : Int) : List Int → Loc → Bool
  | [], _ => false
  | i :: idx, l => (if embed then expandAbs l i n else shiftAbs l i n) ||
      insAbs embed n idx (if embed then l.expand i n else l.shift i n)

/-- a feature re-located by the rest of the loop -/
def relocate (embed : Bool) (n : Int) (idx : List Int) (f : Feature) : Feature :=
  { f with loc := insLoc embed n idx f.loc }

/-- the features of the guest copies: the copy inserted at index `i` enters the table re-located
by `Expand(0, i)` and is then a host feature for the remaining indices -/
def guestCopies (embed : Bool) (n : Int) (gf : Table) : List Int → Table
  | [] => []
  | i :: idx => (gf.map fun f => relocate embed n idx { f with loc := f.loc.expand 0 i }) ++
      guestCopies embed n gf idx

theorem relocate_nil (embed : Bool) (n : Int) (f : Feature) : relocate embed n [] f = f := rfl

/-- **feature table after the loop of insert / infix**: every host feature once, re-located by
`insLoc`, and one copy of every guest feature per index — nothing else, keys and qualifiers
unchanged (the table is re-sorted, hence a permutation) -/
theorem insertAt_feats_perm (embed : Bool) (idx : List Int) (host guest : Seq) :
    (insertAt embed idx host guest).feats.Perm
      (host.feats.map (relocate embed guest.len idx) ++ guestCopies embed guest.len guest.feats idx) := by
  induction idx generalizing host with
  | nil =>
    have : host.feats.map (relocate embed guest.len []) = host.feats := by
      rw [show relocate embed guest.len [] = id from funext (relocate_nil embed guest.len), List.map_id]
    simp only [guestCopies, List.append_nil, this]
    exact List.Perm.refl _
  | cons i idx ih =>
    rw [insertAt_cons]
    refine (ih _).trans ?_
    simp only [guestCopies]
    rw [← List.append_assoc]
    refine List.Perm.append_right _ ?_
    cases embed with
    | false =>
      simp only [Bool.false_eq_true, if_false]
      have hp : (host.insert i guest).feats.Perm
          (host.feats.map (fun f => { f with loc := f.loc.shift i guest.len }) ++
           guest.feats.map (fun f => { f with loc := f.loc.expand 0 i })) := by
        unfold Seq.insert
        exact (Table.insertAll_perm _ _).trans ((Table.insertAll_perm [] _).append_right _)
      refine (hp.map _).trans ?_
      rw [List.map_append, List.map_map, List.map_map]
      exact List.Perm.refl _
    | true =>
      simp only [if_true]
      have hp : (host.embed i guest).feats.Perm
          (host.feats.map (fun f => { f with loc := f.loc.expand i guest.len }) ++
           guest.feats.map (fun f => { f with loc := f.loc.expand 0 i })) := by
        unfold Seq.embed
        exact (Table.insertAll_perm _ _).trans ((Table.insertAll_perm [] _).append_right _)
      refine (hp.map _).trans ?_
      rw [List.map_append, List.map_map, List.map_map]
      exact List.Perm.refl _

theorem guestCopies_length (embed : Bool) (n : Int) (gf : Table) (idx : List Int) :
    (guestCopies embed n gf idx).length = idx.length * gf.length := by
  induction idx with
  | nil => simp [guestCopies]
  | cons i idx ih =>
    simp only [guestCopies, List.length_append, List.length_map, ih, List.length_cons]
    rw [Nat.add_mul, Nat.one_mul]; omega

/-- the copy inserted at `i`, when `post` are the indices that follow -/
theorem mem_guestCopies (embed : Bool) (n : Int) (gf : Table) (pre : List Int) (i : Int)
    (post : List Int) (f : Feature) (hf : f ∈ gf) :
    relocate embed n post { f with loc := f.loc.expand 0 i } ∈
      guestCopies embed n gf (pre ++ i :: post) := by
  induction pre with
  | nil =>
    simp only [List.nil_append, guestCopies]
    exact List.mem_append_left _ (List.mem_map_of_mem hf)
  | cons a pre ih =>
    simp only [List.cons_append, guestCopies]
    exact List.mem_append_right _ ih

/-! ### the composed re-mapping and its closed form -/

/-- the re-mappings of the single insertions, composed in the order of the loop -/
def composeIns (n : Int) : List Int → Int → Int
  | [], x => x
  | i :: idx, x => composeIns n idx (insMap i n x)

/-- SPEC of a multi-site insertion of guests of length `g`, in the INPUT's coordinates: position
`x` moves right by one guest length per head at or before it (`h ≤ x` moves, as in `insMap`) -/
def multiInsMap (heads : List Int) (g : Int) (x : Int) : Int :=
  x + g * (heads.countP fun h => decide (h ≤ x) : Nat)

theorem multiInsMap_perm {a b : List Int} (h : a.Perm b) (g x : Int) :
    multiInsMap a g x = multiInsMap b g x := by
  unfold multiInsMap
  rw [h.countP_eq]

/-- **composition lemma (insert)**: inserting at DESCENDING indices (duplicates allowed) re-maps
the positions of the input by `multiInsMap` -/
theorem composeIns_eq_multiInsMap (n : Int) (hn : 0 ≤ n) (idx : List Int)
    (hs : idx.Pairwise (fun a b => b ≤ a)) (x : Int) : composeIns n idx x = multiInsMap idx n x := by
  induction idx generalizing x with
  | nil => simp [composeIns, multiInsMap]
  | cons i idx ih =>
    have hp := List.pairwise_cons.mp hs
    simp only [composeIns]
    rw [ih hp.2]
    unfold multiInsMap insMap
    by_cases h : x < i
    · rw [if_pos h, List.countP_cons_of_neg (by simp only [decide_eq_true_eq]; omega)]
    · rw [if_neg h, List.countP_cons_of_pos (by simp only [decide_eq_true_eq]; omega)]
      have e1 : (idx.countP fun h => decide (h ≤ x + n)) = idx.length := by
        rw [List.countP_eq_length]
        intro a ha
        have := hp.1 a ha
        simp only [decide_eq_true_eq]; omega
      have e2 : (idx.countP fun h => decide (h ≤ x)) = idx.length := by
        rw [List.countP_eq_length]
        intro a ha
        have := hp.1 a ha
        simp only [decide_eq_true_eq]; omega
      rw [e1, e2]
      simp only [Int.natCast_add, Int.natCast_one, Int.mul_add, Int.mul_one]
      omega

/-- at or after the largest index every position moves by the full amount -/
theorem multiInsMap_of_ge (idx : List Int) (n x : Int) (h : ∀ a ∈ idx, a ≤ x) :
    multiInsMap idx n x = x + n * idx.length := by
  unfold multiInsMap
  have : (idx.countP fun h => decide (h ≤ x)) = idx.length := by
    rw [List.countP_eq_length]
    intro a ha
    simp only [decide_eq_true_eq]; exact h a ha
  rw [this]

theorem multiInsMap_le (idx : List Int) (n x : Int) (hn : 0 ≤ n) :
    x ≤ multiInsMap idx n x ∧ multiInsMap idx n x ≤ x + n * idx.length := by
  unfold multiInsMap
  have h1 : (idx.countP fun h => decide (h ≤ x)) ≤ idx.length := List.countP_le_length
  have h2 : n * ((idx.countP fun h => decide (h ≤ x) : Nat) : Int) ≤ n * (idx.length : Int) :=
    Int.mul_le_mul_of_nonneg_left (by omega) hn
  have h3 : 0 ≤ n * ((idx.countP fun h => decide (h ≤ x) : Nat) : Int) :=
    Int.mul_nonneg hn (by omega)
  omega

theorem insMap_inj (i n : Int) (hn : 0 ≤ n) (x x' : Int) (h : insMap i n x = insMap i n x') : x = x' := by
  unfold insMap at h
  split at h <;> split at h <;> omega

theorem composeIns_inj (n : Int) (hn : 0 ≤ n) (idx : List Int) (x x' : Int)
    (h : composeIns n idx x = composeIns n idx x') : x = x' := by
  induction idx generalizing x x' with
  | nil => exact h
  | cons i idx ih => exact insMap_inj i n hn x x' (ih _ _ h)

/-! ### the denotation of a host feature after the loop -/

/-- **`gts insert`, host features**: after the loop the location denotes the former residues
re-mapped by the composed insertions, provided K2 fires in no step -/
theorem insLoc_den (n : Int) (hn : 0 ≤ n) (idx : List Int) (l : Loc) (hw : wf l = true) :
    (insAbs false n idx l = false →
      den (insLoc false n idx l) ≼ mapPos (composeIns n idx) (den l)) ∧
    wf (insLoc false n idx l) = true := by
  induction idx generalizing l with
  | nil =>
    refine ⟨fun _ => ?_, hw⟩
    simp only [insLoc]
    rw [show composeIns n [] = fun x => x from rfl, mapPos_id]
    exact Refines.refl _
  | cons i idx ih =>
    have hstep := shift_ins l i n hw hn
    have h := ih (l.shift i n) hstep.2
    simp only [insLoc, Bool.false_eq_true, if_false]
    refine ⟨?_, h.2⟩
    intro ha
    simp only [insAbs, Bool.false_eq_true, if_false, Bool.or_eq_false_iff] at ha
    have h1 := h.1 ha.2
    have h2 := mapPos_refines (composeIns n idx) (hstep.1 ha.1)
    rw [mapPos_mapPos] at h2
    exact h1.trans h2

/-- output positions of the guest copies: the copy inserted at `i` is moved right by every later
insertion (all at indices `≤ i`) -/
def copyStarts (n : Int) : List Int → List Int
  | [] => []
  | i :: idx => (i + n * idx.length) :: copyStarts n idx

/-- drop the residues of all guest copies `[c, c+n)`, `c ∈ cs` -/
def stripGuests (cs : List Int) (n : Int) (d : List Pos) : List Pos :=
  d.filter fun p => cs.all fun c => decide (p.1 < c ∨ c + n ≤ p.1)

theorem stripGuests_nil (n : Int) (d : List Pos) : stripGuests [] n d = d := by
  unfold stripGuests
  simp

theorem stripGuests_cons (c : Int) (cs : List Int) (n : Int) (d : List Pos) :
    stripGuests (c :: cs) n d = stripGuest c n (stripGuests cs n d) := by
  unfold stripGuests stripGuest
  rw [List.filter_filter]
  apply List.filter_congr
  intro p _
  simp only [List.all_cons]

theorem stripGuest_mapPos (c n : Int) (f : Int → Int) (d : List Pos) :
    stripGuest c n (mapPos f d) = mapPos f (d.filter fun p => decide (f p.1 < c ∨ c + n ≤ f p.1)) := by
  unfold stripGuest mapPos
  rw [List.filter_map]
  rfl

/-- **`gts infix`, host features**: `Expand` stretches a part spanning an index over the guest;
outside the guest copies the location denotes the former residues re-mapped by the composed
insertions, provided K2 fires in no step (descending indices) -/
theorem embLoc_den (n : Int) (hn : 0 ≤ n) (idx : List Int) (hs : idx.Pairwise (fun a b => b ≤ a))
    (l : Loc) (hw : wf l = true) :
    (insAbs true n idx l = false →
      stripGuests (copyStarts n idx) n (den (insLoc true n idx l)) ≼
        mapPos (composeIns n idx) (den l)) ∧
    wf (insLoc true n idx l) = true := by
  induction idx generalizing l with
  | nil =>
    refine ⟨fun _ => ?_, hw⟩
    simp only [insLoc, copyStarts, stripGuests_nil]
    rw [show composeIns n [] = fun x => x from rfl, mapPos_id]
    exact Refines.refl _
  | cons i idx ih =>
    have hp := List.pairwise_cons.mp hs
    have hstep := expand_ins l i n hw hn
    have h := ih hp.2 (l.expand i n) hstep.2
    simp only [insLoc, if_true]
    refine ⟨?_, h.2⟩
    intro ha
    simp only [insAbs, if_true, Bool.or_eq_false_iff] at ha
    have h1 := (h.1 ha.2).filter (fun p => decide (p.1 < i + n * idx.length ∨ i + n * idx.length + n ≤ p.1))
    have h2 := mapPos_refines (composeIns n idx) (hstep.1 ha.1)
    rw [mapPos_mapPos] at h2
    simp only [copyStarts, stripGuests_cons]
    refine (h1.trans ?_).trans h2
    apply Refines.of_eq
    show stripGuest (i + n * idx.length) n (mapPos (composeIns n idx) (den (l.expand i n))) = _
    rw [stripGuest_mapPos]
    congr 1
    unfold stripGuest
    apply List.filter_congr
    intro p _
    rw [composeIns_eq_multiInsMap n hn idx hp.2]
    by_cases hx : i ≤ p.1
    · rw [multiInsMap_of_ge idx n p.1 (fun a ha => by have := hp.1 a ha; omega)]
      apply decide_eq_decide.mpr
      constructor <;> intro h <;> omega
    · have := multiInsMap_le idx n p.1 hn
      apply decide_eq_decide.mpr
      constructor <;> intro h <;> omega

/-! ### guest features -/

/-- the residues of a guest feature, translated to the insertion index `i` and then moved by the
later insertions (all at indices `≤ i`): a translation by the copy's OUTPUT position -/
theorem guest_remap (n : Int) (hn : 0 ≤ n) (i : Int) (post : List Int)
    (hs : post.Pairwise (fun a b => b ≤ a)) (hpost : ∀ a ∈ post, a ≤ i) (l : Loc)
    (hw : wf l = true) (hnn : nonneg l = true) :
    mapPos (composeIns n post) (mapPos (· + i) (den l)) = mapPos (· + (i + n * post.length)) (den l) := by
  rw [mapPos_mapPos]
  apply mapPos_congr
  intro p hp
  have h0 := den_nonneg l hw hnn p hp
  rw [composeIns_eq_multiInsMap n hn post hs,
    multiInsMap_of_ge post n (p.1 + i) (fun a ha => by have := hpost a ha; omega)]
  omega

/-- **`gts insert`, guest features**: the features of the copy inserted at `i` denote the guest's
residues offset by that copy's position in the OUTPUT, `i + n · #later insertions` -/
theorem guestLoc_den (n : Int) (hn : 0 ≤ n) (i : Int) (hi : 0 ≤ i) (post : List Int)
    (hs : post.Pairwise (fun a b => b ≤ a)) (hpost : ∀ a ∈ post, a ≤ i) (l : Loc)
    (hw : wf l = true) (hnn : nonneg l = true) (g1 : expandAbs l 0 i = false)
    (g2 : insAbs false n post (l.expand 0 i) = false) :
    den (insLoc false n post (l.expand 0 i)) ≼ mapPos (· + (i + n * post.length)) (den l) := by
  have h1 := (insLoc_den n hn post (l.expand 0 i) (expand_ins l 0 i hw hi).2).1 g2
  have h2 := mapPos_refines (composeIns n post) (guest_translate l i hw hnn hi g1)
  rw [guest_remap n hn i post hs hpost l hw hnn] at h2
  exact h1.trans h2

/-- **`gts infix`, guest features**: the same, outside the later guest copies -/
theorem guestLoc_emb_den (n : Int) (hn : 0 ≤ n) (i : Int) (hi : 0 ≤ i) (post : List Int)
    (hs : post.Pairwise (fun a b => b ≤ a)) (hpost : ∀ a ∈ post, a ≤ i) (l : Loc)
    (hw : wf l = true) (hnn : nonneg l = true) (g1 : expandAbs l 0 i = false)
    (g2 : insAbs true n post (l.expand 0 i) = false) :
    stripGuests (copyStarts n post) n (den (insLoc true n post (l.expand 0 i))) ≼
      mapPos (· + (i + n * post.length)) (den l) := by
  have h1 := (embLoc_den n hn post hs (l.expand 0 i) (expand_ins l 0 i hw hi).2).1 g2
  have h2 := mapPos_refines (composeIns n post) (guest_translate l i hw hnn hi g1)
  rw [guest_remap n hn i post hs hpost l hw hnn] at h2
  exact h1.trans h2

/-! ### where the guest copies are in the output residues -/

/-- an insertion at `h ≤ p` moves everything from `p` on right by the guest length -/
theorem drop_splice (X g : List UInt8) (h p : Nat) (hhp : h ≤ p) (hX : h ≤ X.length) :
    (Seq.spliceBytes X h g).drop (p + g.length) = X.drop p := by
  unfold Seq.spliceBytes
  have hl : (X.take h ++ g).length = h + g.length := by
    simp only [List.length_append, List.length_take]; omega
  have e : p + g.length = (X.take h ++ g).length + (p - h) := by rw [hl]; omega
  rw [e, List.drop_length_add_append, List.drop_drop]
  congr 1
  omega

theorem splice_length (X g : List UInt8) (h : Nat) :
    (Seq.spliceBytes X h g).length = X.length + g.length := by
  simp only [Seq.spliceBytes, List.length_append, List.length_take, List.length_drop]
  omega

theorem foldl_splice_drop (post : List Int) (g X : List UInt8) (p : Nat)
    (h : ∀ a ∈ post, 0 ≤ a ∧ a ≤ (p : Int) ∧ a ≤ (X.length : Int)) :
    (post.foldl (fun out i => Seq.spliceBytes out i.toNat g) X).drop (p + post.length * g.length) =
      X.drop p := by
  induction post generalizing X p with
  | nil => simp
  | cons a post ih =>
    have ha := h a (List.mem_cons_self ..)
    rw [List.foldl_cons]
    have e : p + (a :: post).length * g.length = (p + g.length) + post.length * g.length := by
      rw [List.length_cons, Nat.add_mul, Nat.one_mul]; omega
    rw [e, ih (Seq.spliceBytes X a.toNat g) (p + g.length) (fun b hb => by
      have := h b (List.mem_cons_of_mem _ hb)
      rw [splice_length]
      omega)]
    exact drop_splice X g a.toNat p (by omega) (by omega)

/-- **the copy inserted at `i` sits at `i + |g| · #later insertions` in the output**: the
residues there are the guest's -/
theorem foldl_splice_copy (pre : List Int) (i : Int) (post : List Int) (g X : List UInt8)
    (hi : 0 ≤ i ∧ i ≤ (X.length : Int)) (hpost : ∀ a ∈ post, 0 ≤ a ∧ a ≤ i) :
    (((pre ++ i :: post).foldl (fun out i => Seq.spliceBytes out i.toNat g) X).drop
      (i.toNat + post.length * g.length)).take g.length = g := by
  rw [List.foldl_append, List.foldl_cons]
  have hB : X.length ≤ (pre.foldl (fun out i => Seq.spliceBytes out i.toNat g) X).length := by
    rw [foldl_splice_length]; omega
  generalize pre.foldl (fun out i => Seq.spliceBytes out i.toNat g) X = B at hB
  rw [foldl_splice_drop post g _ i.toNat (fun a ha => by
    have := hpost a ha
    rw [splice_length]
    omega)]
  unfold Seq.spliceBytes
  have hl : (B.take i.toNat).length = i.toNat := by
    simp only [List.length_take]; omega
  rw [List.append_assoc, List.drop_append_of_le_length (by omega)]
  have : List.drop i.toNat (List.take i.toNat B) = [] := by
    apply List.drop_eq_nil_of_le; omega
  rw [this, List.nil_append, List.take_append_of_le_length (by omega), List.take_length]

/-! ### where the residues go: the re-mappings agree with what the loops do to the residues -/

theorem delMap_nonneg (i k x y : Int) (hi : 0 ≤ i) (hx : 0 ≤ x) (h : delMap i k x = some y) : 0 ≤ y := by
  unfold delMap at h
  split at h
  · simp only [Option.some.injEq] at h; omega
  · split at h
    · cases h
    · simp only [Option.some.injEq] at h; omega

theorem cutB_get (sg : Seg) (bs : List UInt8) (h0 : 0 ≤ sg.1) (hf : sg.1 ≤ sg.2) (x y : Int)
    (hx : 0 ≤ x) (h : delMap sg.1 (Reg.gabs (sg.2 - sg.1)) x = some y) :
    (cutB sg bs)[y.toNat]? = bs[x.toNat]? := by
  have eg : Reg.gabs (sg.2 - sg.1) = sg.2 - sg.1 := by unfold Reg.gabs; split <;> omega
  rw [eg] at h
  unfold cutB
  rw [eg, List.getElem?_append, List.getElem?_take, List.getElem?_drop, List.length_take]
  unfold delMap at h
  by_cases hm : x.toNat < bs.length
  · split at h
    · simp only [Option.some.injEq] at h; subst h
      rw [if_pos (by omega), if_pos (by omega)]
    · split at h
      · cases h
      · simp only [Option.some.injEq] at h; subst h
        rw [if_neg (by omega)]
        congr 1; omega
  · have hn : bs[x.toNat]? = none := List.getElem?_eq_none (by omega)
    rw [hn]
    split at h
    · simp only [Option.some.injEq] at h; subst h
      split
      · split
        · exact hn
        · rfl
      · apply List.getElem?_eq_none; omega
    · split at h
      · cases h
      · simp only [Option.some.injEq] at h; subst h
        split
        · split
          · apply List.getElem?_eq_none; omega
          · rfl
        · apply List.getElem?_eq_none; omega

theorem foldr_cutB_get (ss : List Seg) (bs : List UInt8) (hw : ∀ o ∈ ss, 0 ≤ o.1 ∧ o.1 ≤ o.2)
    (x y : Int) (hx : 0 ≤ x) (h : composeDel ss x = some y) :
    0 ≤ y ∧ (ss.foldr cutB bs)[y.toNat]? = bs[x.toNat]? := by
  induction ss generalizing y with
  | nil =>
    simp only [composeDel, Option.some.injEq] at h
    subst h
    exact ⟨hx, rfl⟩
  | cons a ss ih =>
    have ha := hw a (List.mem_cons_self ..)
    simp only [composeDel] at h
    cases hz : composeDel ss x with
    | none => simp [hz] at h
    | some z =>
      rw [hz, Option.bind_some] at h
      obtain ⟨hz0, hzg⟩ := ih (fun o ho => hw o (List.mem_cons_of_mem _ ho)) z hz
      refine ⟨delMap_nonneg _ _ z y ha.1 hz0 h, ?_⟩
      rw [List.foldr_cons, cutB_get a _ ha.1 ha.2 z y hz0 h, hzg]

theorem insMap_nonneg (i n x : Int) (hn : 0 ≤ n) (hx : 0 ≤ x) : 0 ≤ insMap i n x := by
  unfold insMap; split <;> omega

theorem splice_get (X g : List UInt8) (i x : Int) (hi : 0 ≤ i) (hx : 0 ≤ x) (hxl : x < X.length) :
    (Seq.spliceBytes X i.toNat g)[(insMap i g.length x).toNat]? = X[x.toNat]? := by
  unfold Seq.spliceBytes insMap
  rw [List.append_assoc, List.getElem?_append, List.getElem?_take, List.length_take,
    List.getElem?_append, List.getElem?_drop]
  split
  · rw [if_pos (by omega), if_pos (by omega)]
  · rw [if_neg (by omega), if_neg (by omega)]
    congr 1; omega

theorem foldl_splice_get (idx : List Int) (g X : List UInt8) (hw : ∀ i ∈ idx, 0 ≤ i) (x : Int)
    (hx : 0 ≤ x) (hxl : x < X.length) :
    (idx.foldl (fun out i => Seq.spliceBytes out i.toNat g) X)[(composeIns g.length idx x).toNat]? =
      X[x.toNat]? := by
  induction idx generalizing X x with
  | nil => rfl
  | cons i idx ih =>
    have hi := hw i (List.mem_cons_self ..)
    rw [List.foldl_cons]
    simp only [composeIns]
    rw [ih (Seq.spliceBytes X i.toNat g) (fun a ha => hw a (List.mem_cons_of_mem _ ha)) (insMap i g.length x)
      (insMap_nonneg _ _ _ (by omega) hx) (by
        rw [splice_length]
        unfold insMap; split <;> omega)]
    exact splice_get X g i x hi hx hxl
/-- reading residues through a partial re-mapping: a general list lemma -/
theorem map_filterMapPos_eq {β : Type} (φ : Int → Option Int) (c : Pos → Bool) (F G : Pos → β)
    (d : List Pos)
    (h : ∀ p ∈ d, (φ p.1 = none ∧ c p = false) ∨ (∃ y, φ p.1 = some y ∧ c p = true ∧ F (y, p.2) = G p)) :
    (filterMapPos φ d).map F = (d.filter c).map G := by
  induction d with
  | nil => rfl
  | cons p d ih =>
    have ih' := ih (fun q hq => h q (List.mem_cons_of_mem _ hq))
    unfold filterMapPos at ih' ⊢
    rcases h p (List.mem_cons_self ..) with ⟨h1, h2⟩ | ⟨y, h1, h2, h3⟩
    · rw [List.filterMap_cons, h1, List.filter_cons, h2]
      simpa using ih'
    · rw [List.filterMap_cons, h1, List.filter_cons, h2]
      simp only [Option.map_some, if_true, List.map_cons, h3]
      rw [ih']

/-! ## split: the windows of the pieces -/

/-- consecutive pairs of a cut list: the windows `[a, b)` of the pieces of `gts split` -/
def windows (l : List Int) : List (Int × Int) := l.zip l.tail

theorem windows_cons_cons (a b : Int) (l : List Int) :
    windows (a :: b :: l) = (a, b) :: windows (b :: l) := rfl

theorem pieces_eq_map (s : Seq) (l : List Int) :
    pieces s l = (windows l).map fun w => s.slice w.1 w.2 := by
  induction l with
  | nil => rfl
  | cons a l ih =>
    cases l with
    | nil => rfl
    | cons b l =>
      rw [pieces, windows_cons_cons, List.map_cons, ih]

theorem mem_windows (l : List Int) (w : Int × Int) (h : w ∈ windows l) : w.1 ∈ l ∧ w.2 ∈ l.tail :=
  List.of_mem_zip h

/-- every position between the first and the last cut lies in some window -/
theorem window_exists (a : Int) (cuts : List Int) (L x : Int) (hl : (a :: cuts).getLast? = some L)
    (h0 : a ≤ x) (h1 : x < L) : ∃ w ∈ windows (a :: cuts), w.1 ≤ x ∧ x < w.2 := by
  induction cuts generalizing a with
  | nil => simp at hl; omega
  | cons b cuts ih =>
    by_cases hx : x < b
    · exact ⟨(a, b), by simp [windows_cons_cons], h0, hx⟩
    · obtain ⟨w, hw, hw2⟩ := ih b (by simpa using hl) (by omega)
      exact ⟨w, by rw [windows_cons_cons]; exact List.mem_cons_of_mem _ hw, hw2⟩

/-- … and, the cuts being non-decreasing, in only one -/
theorem window_unique (l : List Int) (hs : l.Pairwise (fun a b => a ≤ b)) (w w' : Int × Int)
    (hw : w ∈ windows l) (hw' : w' ∈ windows l) (x : Int) (h : w.1 ≤ x ∧ x < w.2)
    (h' : w'.1 ≤ x ∧ x < w'.2) : w = w' := by
  induction l with
  | nil => cases hw
  | cons a l ih =>
    cases l with
    | nil => cases hw
    | cons b l =>
      have hp := List.pairwise_cons.mp hs
      have hpb := List.pairwise_cons.mp hp.2
      rw [windows_cons_cons] at hw hw'
      have tailge : ∀ v ∈ windows (b :: l), b ≤ v.1 := by
        intro v hv
        rcases List.mem_cons.mp (mem_windows _ v hv).1 with h | h
        · omega
        · exact hpb.1 _ h
      rcases List.mem_cons.mp hw with rfl | hw <;> rcases List.mem_cons.mp hw' with rfl | hw'
      · rfl
      · have := tailge _ hw'; simp only at h; omega
      · have := tailge _ hw; simp only at h'; omega
      · exact ih hp.2 hw hw'

/-- a window of a non-decreasing cut list is forward and lies between the first and last cut -/
theorem window_bounds (l : List Int) (hs : l.Pairwise (fun a b => a ≤ b)) (w : Int × Int)
    (hw : w ∈ windows l) : w.1 ≤ w.2 := by
  induction l with
  | nil => cases hw
  | cons a l ih =>
    cases l with
    | nil => cases hw
    | cons b l =>
      have hp := List.pairwise_cons.mp hs
      rw [windows_cons_cons] at hw
      rcases List.mem_cons.mp hw with rfl | hw
      · exact hp.1 b (List.mem_cons_self ..)
      · exact ih hp.2 hw
theorem rangeOverlap_of_mem (s e lo hi q : Int) (h1 : s ≤ q) (h2 : q < e) (h3 : lo ≤ q) (h4 : q < hi) :
    rangeOverlap s e lo hi = true := by
  unfold rangeOverlap
  rw [if_neg (by omega), if_neg (by omega)]
  simp only [Bool.and_eq_true, decide_eq_true_eq]
  omega

mutual
/-- a location denoting a residue inside `[lo, hi)` overlaps that window (`LocationOverlap`) -/
theorem overlap_of_den : ∀ (l : Loc) (lo hi : Int), wf l = true → ∀ p ∈ den l, lo ≤ p.1 → p.1 < hi →
    overlap l lo hi = true
  | between _, _, _, _, p, hp, _, _ => by simp [Loc.den] at hp
  | point q, lo, hi, _, p, hp, h3, h4 => by
      simp only [Loc.den, List.mem_singleton] at hp
      subst hp
      exact rangeOverlap_of_mem q (q + 1) lo hi q (by omega) (by omega) h3 h4
  | ranged s e _ _, lo, hi, _, p, hp, h3, h4 => by
      simp only [Loc.den, fwd, List.mem_map] at hp
      obtain ⟨x, hx, rfl⟩ := hp
      have := mem_irange.mp hx
      exact rangeOverlap_of_mem s e lo hi x (by omega) (by omega) h3 h4
  | ambiguous s e, lo, hi, _, p, hp, h3, h4 => by
      simp only [Loc.den, fwd, List.mem_map] at hp
      obtain ⟨x, hx, rfl⟩ := hp
      have := mem_irange.mp hx
      exact rangeOverlap_of_mem s e lo hi x (by omega) (by omega) h3 h4
  | joined ls, lo, hi, hw, p, hp, h3, h4 => by
      simp only [overlap]
      exact overlapAny_of_den ls lo hi (by simpa [wf] using hw) p (by simpa [Loc.den] using hp) h3 h4
  | ordered ls, lo, hi, hw, p, hp, h3, h4 => by
      simp only [overlap]
      exact overlapAny_of_den ls lo hi (by simpa [wf] using hw) p (by simpa [Loc.den] using hp) h3 h4
  | compl l, lo, hi, hw, p, hp, h3, h4 => by
      simp only [overlap]
      simp only [Loc.den, flipDen, List.mem_map, List.mem_reverse] at hp
      obtain ⟨q, hq, rfl⟩ := hp
      exact overlap_of_den l lo hi (by simpa [wf] using hw) q hq h3 h4
theorem overlapAny_of_den : ∀ (ls : List Loc) (lo hi : Int), wfList ls = true → ∀ p ∈ denList ls,
    lo ≤ p.1 → p.1 < hi → overlapAny ls lo hi = true
  | [], _, _, _, p, hp, _, _ => by simp [Loc.denList] at hp
  | l :: ls, lo, hi, hw, p, hp, h3, h4 => by
      simp only [wfList_cons, Bool.and_eq_true] at hw
      simp only [denList_cons, List.mem_append] at hp
      simp only [overlapAny, Bool.or_eq_true]
      rcases hp with hp | hp
      · exact Or.inl (overlap_of_den l lo hi hw.1 p hp h3 h4)
      · exact Or.inr (overlapAny_of_den ls lo hi hw.2 p hp h3 h4)
end
/-! ## `gts delete -e`: which features are dropped, in terms of the INPUT -/

theorem rangeWithin_mem (s e lo hi q : Int) (hse : s ≤ e) (hb : lo ≤ hi)
    (h : rangeWithin s e lo hi = true) (h1 : s ≤ q) (h2 : q < e) : lo ≤ q ∧ q < hi := by
  unfold rangeWithin at h
  rw [if_neg (by omega), if_neg (by omega)] at h
  simp only [Bool.and_eq_true, decide_eq_true_eq] at h
  omega

mutual
/-- a location within `[lo, hi)` (`LocationWithin`) denotes only residues of `[lo, hi)` -/
theorem den_of_within : ∀ (l : Loc) (lo hi : Int), wf l = true → lo ≤ hi → within l lo hi = true →
    ∀ p ∈ Loc.den l, lo ≤ p.1 ∧ p.1 < hi
  | between _, _, _, _, _, _, p, hp => by simp [Loc.den] at hp
  | point q, lo, hi, _, hb, h, p, hp => by
      simp only [Loc.den, List.mem_singleton] at hp
      subst hp
      exact rangeWithin_mem q (q + 1) lo hi q (by omega) hb h (by omega) (by omega)
  | ranged s e _ _, lo, hi, hw, hb, h, p, hp => by
      have hse : s < e := by simpa [wf] using hw
      simp only [Loc.den, fwd, List.mem_map] at hp
      obtain ⟨x, hx, rfl⟩ := hp
      have := mem_irange.mp hx
      exact rangeWithin_mem s e lo hi x (by omega) hb h (by omega) (by omega)
  | ambiguous s e, lo, hi, hw, hb, h, p, hp => by
      have hse : s < e := by simpa [wf] using hw
      simp only [Loc.den, fwd, List.mem_map] at hp
      obtain ⟨x, hx, rfl⟩ := hp
      have := mem_irange.mp hx
      exact rangeWithin_mem s e lo hi x (by omega) hb h (by omega) (by omega)
  | joined ls, lo, hi, hw, hb, h, p, hp =>
      denList_of_withinAll ls lo hi (by simpa [wf] using hw) hb (by simpa [Loc.within] using h) p
        (by simpa [Loc.den] using hp)
  | ordered ls, lo, hi, hw, hb, h, p, hp =>
      denList_of_withinAll ls lo hi (by simpa [wf] using hw) hb (by simpa [Loc.within] using h) p
        (by simpa [Loc.den] using hp)
  | compl l, lo, hi, hw, hb, h, p, hp => by
      simp only [Loc.den, flipDen, List.mem_map, List.mem_reverse] at hp
      obtain ⟨q, hq, rfl⟩ := hp
      exact den_of_within l lo hi (by simpa [wf] using hw) hb (by simpa [Loc.within] using h) q hq
theorem denList_of_withinAll : ∀ (ls : List Loc) (lo hi : Int), wfList ls = true → lo ≤ hi →
    withinAll ls lo hi = true → ∀ p ∈ Loc.denList ls, lo ≤ p.1 ∧ p.1 < hi
  | [], _, _, _, _, _, p, hp => by simp [Loc.denList] at hp
  | l :: ls, lo, hi, hw, hb, h, p, hp => by
      simp only [wfList_cons, Bool.and_eq_true] at hw
      simp only [withinAll, Bool.and_eq_true] at h
      simp only [denList_cons, List.mem_append] at hp
      rcases hp with hp | hp
      · exact den_of_within l lo hi hw.1 hb h.1 p hp
      · exact denList_of_withinAll ls lo hi hw.2 hb h.2 p hp
end

/-- **`gts delete -e` never drops a feature that keeps a residue**: if a feature fails
`eraseKeep`, every residue it denotes is removed by the composed cuts -/
theorem composeDel_none_of_dropped (ss : List Seg) (f : Feature) (hw : wf f.loc = true)
    (hk2 : delAbs ss f.loc = false) (hd : eraseKeep ss f = false) :
    ∀ p ∈ Loc.den f.loc, composeDel ss p.1 = none := by
  induction ss with
  | nil => simp [eraseKeep] at hd
  | cons a ss ih =>
    simp only [delAbs, Bool.or_eq_false_iff] at hk2
    intro p hp
    simp only [composeDel]
    cases hz : composeDel ss p.1 with
    | none => rfl
    | some z =>
      rw [Option.bind_some]
      have hkeep : eraseKeep ss f = true := by
        cases h : eraseKeep ss f with
        | true => rfl
        | false => rw [ih hk2.1 h p hp] at hz; cases hz
      simp only [eraseKeep, hkeep, Bool.true_and, Bool.or_eq_false_iff, Bool.not_eq_false'] at hd
      have hden := (delLoc_den ss f.loc hw).1 hk2.1
      have hmem : (z, p.2) ∈ Loc.den (delLoc ss f.loc) := by
        apply hden.2
        unfold filterMapPos
        rw [List.mem_filterMap]
        exact ⟨p, hp, by simp [hz]⟩
      have hr := den_of_within _ _ _ (delLoc_den ss f.loc hw).2
        (by have := gabs_nonneg (a.2 - a.1); omega) hd.2 _ hmem
      unfold delMap
      rw [if_neg (by simp only at hr; omega), if_pos (by simp only at hr; omega)]

theorem eraseKeep_append (pre l : List Seg) (f : Feature) (h : eraseKeep (pre ++ l) f = true) :
    eraseKeep l f = true := by
  induction pre with
  | nil => exact h
  | cons a pre ih =>
    simp only [List.cons_append, eraseKeep, Bool.and_eq_true] at h
    exact ih h.1

/-- cuts strictly to the right of a range leave it untouched -/
theorem delLoc_ranged_left (ss : List Seg) (s e : Int) (p5 p3 : Bool) (hse : s < e)
    (h : ∀ b ∈ ss, e < b.1) : delLoc ss (ranged s e p5 p3) = ranged s e p5 p3 := by
  induction ss with
  | nil => rfl
  | cons b ss ih =>
    have hb := h b (List.mem_cons_self ..)
    have hg := gabs_nonneg (b.2 - b.1)
    simp only [delLoc]
    rw [ih (fun c hc => h c (List.mem_cons_of_mem _ hc))]
    simp only [expand, rangedExpand]
    by_cases h0 : -Reg.gabs (b.2 - b.1) = 0
    · rw [if_pos h0]
    · have c1 : ¬ (-Reg.gabs (b.2 - b.1) < 0 ∧ b.1 ≤ s ∧ s < b.1 - -Reg.gabs (b.2 - b.1)) := by omega
      have c2 : ¬ (-Reg.gabs (b.2 - b.1) < 0 ∧ b.1 < e ∧ e ≤ b.1 - -Reg.gabs (b.2 - b.1)) := by omega
      have c3 : ¬ ((0 ≤ -Reg.gabs (b.2 - b.1) ∧ b.1 ≤ s) ∨ (-Reg.gabs (b.2 - b.1) < 0 ∧ b.1 < s)) := by omega
      have c4 : ¬ ((0 ≤ -Reg.gabs (b.2 - b.1) ∧ b.1 < e) ∨ (-Reg.gabs (b.2 - b.1) < 0 ∧ b.1 ≤ e)) := by omega
      have c5 : s ≠ e := by omega
      simp only [h0, c1, c2, c3, c4, c5, if_false]

/-- **`gts delete -e` drops a plain range lying within one cut**: the cuts to the right leave it
untouched, so at that cut `LocationWithin` holds -/
theorem eraseKeep_false_of_ranged_within (pre : List Seg) (a : Seg) (post : List Seg) (f : Feature)
    (s e : Int) (p5 p3 : Bool) (hloc : f.loc = ranged s e p5 p3) (hse : s < e)
    (hns : f.key ≠ "source") (ha : a.1 ≤ s ∧ e ≤ a.2) (hpost : ∀ b ∈ post, e < b.1) :
    eraseKeep (pre ++ a :: post) f = false := by
  cases h : eraseKeep (pre ++ a :: post) f with
  | false => rfl
  | true =>
    have h2 := eraseKeep_append pre (a :: post) f h
    simp only [eraseKeep, Bool.and_eq_true, Bool.or_eq_true, decide_eq_true_eq,
      Bool.not_eq_true'] at h2
    rcases h2.2 with h3 | h3
    · exact absurd h3 hns
    · rw [hloc, delLoc_ranged_left post s e p5 p3 hse hpost] at h3
      have eg : Reg.gabs (a.2 - a.1) = a.2 - a.1 := by unfold Reg.gabs; split <;> omega
      simp only [Loc.within, rangeWithin, eg] at h3
      rw [if_neg (by omega), if_neg (by omega)] at h3
      simp only [Bool.and_eq_false_iff, decide_eq_false_iff_not] at h3
      omega

/-! ## the offset of `unionDelMap` counts the covered positions below -/

theorem countP_or_disjoint {α} (p q : α → Bool) (l : List α) (h : ∀ k ∈ l, ¬ (p k = true ∧ q k = true)) :
    l.countP (fun k => p k || q k) = l.countP p + l.countP q := by
  induction l with
  | nil => rfl
  | cons a l ih =>
    have ha := h a (List.mem_cons_self ..)
    have := ih (fun k hk => h k (List.mem_cons_of_mem _ hk))
    simp only [List.countP_cons, this]
    cases hp : p a <;> cases hq : q a <;> simp_all <;> omega

theorem countP_range_interval (a b n : Nat) (hab : a ≤ b) :
    (List.range n).countP (fun k => decide (a ≤ k ∧ k < b)) = min b n - min a n := by
  induction n with
  | zero => simp
  | succ n ih =>
    rw [List.range_succ, List.countP_append, ih, List.countP_singleton]
    by_cases h : a ≤ n ∧ n < b
    · rw [if_pos (by simpa using h)]; omega
    · rw [if_neg (by simpa using h)]; omega

/-- **the offset of `unionDelMap` is the number of covered positions below `x`**: for forward,
increasing, disjoint segments at non-negative positions and an uncovered `x ≥ 0` -/
theorem delOffset_eq_count (ss : List Seg) (hf : Fwd ss) (hp : ss.Pairwise (fun a b => a.2 ≤ b.1))
    (h0 : ∀ o ∈ ss, 0 ≤ o.1) (x : Int) (hx : 0 ≤ x) (hc : ¬ segsCover ss x) :
    delOffset ss x = ((List.range x.toNat).countP (covB ss) : Nat) := by
  induction ss with
  | nil =>
    have : (List.range x.toNat).countP (covB []) = 0 := by
      rw [List.countP_eq_zero]
      intro k _
      simp [covB]
    rw [this]; rfl
  | cons a ss ih =>
    have ha := hf a (List.mem_cons_self ..)
    have ha0 := h0 a (List.mem_cons_self ..)
    have hpp := List.pairwise_cons.mp hp
    rw [segsCover_cons] at hc
    have hc1 : ¬ (a.1 ≤ x ∧ x < a.2) := fun h => hc (Or.inl h)
    have hc2 : ¬ segsCover ss x := fun h => hc (Or.inr h)
    have ih' := ih (fun o ho => hf o (List.mem_cons_of_mem _ ho)) hpp.2
      (fun o ho => h0 o (List.mem_cons_of_mem _ ho)) hc2
    have e : covB (a :: ss) = fun k => decide (a.1.toNat ≤ k ∧ k < a.2.toNat) || covB ss k := by
      funext k
      simp only [covB, segsCover_cons]
      rw [Bool.decide_or]
      congr 1
      apply decide_eq_decide.mpr
      constructor <;> intro h <;> omega
    rw [e, countP_or_disjoint, countP_range_interval _ _ _ (by omega)]
    · simp only [delOffset]
      rw [ih']
      split <;> omega
    · intro k _ ⟨h1, h2⟩
      simp only [decide_eq_true_eq] at h1
      simp only [covB, decide_eq_true_eq] at h2
      obtain ⟨b, hb, hb1, _⟩ := h2
      have := hpp.1 b hb
      omega
end Gts.Cli
