/-
  C01 helper lemmas for quoted qualifier values: the scan of `pars.Quoted('"')` and the removal of
  the continuation indent (`stripCont`) undo `AddPrefix` — on the exact domain: the scan passes
  (`quoteClean`) and no line feed of the value is followed by the whole indent (`noCont`).
  Core Lean only.
-/
import Gts.Lemmas.GbFieldBody
import Gts.Lemmas.GbStripOnePass
namespace Gts.GenBank
open Gts.Pars

/-! ### the scan -/

/-- the automaton of `pars.Between('"','"')` on the text between the quotes: `esc` = the previous
byte was an unescaped backslash.  `true` iff no unescaped quote is met and the text does not end
inside an escape. -/
def qscan : Bool → Bytes → Bool
  | esc, [] => !esc
  | true, _ :: r => qscan false r
  | false, c :: r => if c = 34 then false else if c = 92 then qscan true r else qscan false r

/-- a value that survives the quote scan -/
def quoteClean (v : Bytes) : Bool := qscan false v

theorem scanQ_clean (v t : Bytes) (e : Bool) (k : Nat) (h : qscan e v = true) :
    scanQ e (v ++ 34 :: t) k = some (k + v.length) := by
  induction v generalizing e k with
  | nil =>
    cases e
    · simp [scanQ]
    · simp [qscan] at h
  | cons c v ih =>
    cases e
    · simp only [qscan] at h
      by_cases h34 : c = 34
      · simp [h34] at h
      · by_cases h92 : c = 92
        · subst h92
          have n34 : ¬ ((92 : UInt8) = 34) := by decide
          simp only [n34, if_false, if_true] at h
          simp only [List.cons_append, scanQ, n34, if_false, if_true]
          rw [ih true (k + 1) h, List.length_cons, show k + 1 + v.length = k + (v.length + 1) by omega]
        · simp only [h34, h92, if_false] at h
          simp only [List.cons_append, scanQ, h34, h92, if_false]
          rw [ih false (k + 1) h, List.length_cons, show k + 1 + v.length = k + (v.length + 1) by omega]
    · simp only [qscan] at h
      simp only [List.cons_append, scanQ]
      rw [ih false (k + 1) h, List.length_cons, show k + 1 + v.length = k + (v.length + 1) by omega]

/-- the continuation indent (blanks) does not disturb the scan -/
theorem qscan_sp (n : Nat) (v : Bytes) : qscan false (sp n ++ v) = qscan false v := by
  induction n with
  | zero => simp [sp]
  | succ n ih => rw [sp_succ]; simp [qscan, ih]

theorem qscan_addPrefix (n : Nat) (v : Bytes) :
    (qscan false v = true → qscan false (addPrefix (sp n) v) = true) ∧
    (qscan true v = true → qscan true (addPrefix (sp n) v) = true) := by
  induction v with
  | nil => simp [addPrefix]
  | cons c v ih =>
    obtain ⟨ih1, ih2⟩ := ih
    constructor
    · intro h
      by_cases h10 : c = 10
      · subst h10
        simp only [qscan, show ¬ ((10 : UInt8) = 34) by decide, show ¬ ((10 : UInt8) = 92) by decide, if_false] at h
        simp only [addPrefix, if_true, qscan, show ¬ ((10 : UInt8) = 34) by decide,
          show ¬ ((10 : UInt8) = 92) by decide, if_false, qscan_sp]
        exact ih1 h
      · simp only [addPrefix, h10, if_false]
        simp only [qscan] at h ⊢
        by_cases h34 : c = 34
        · simp [h34] at h
        · by_cases h92 : c = 92
          · simp only [h34, h92, if_false, if_true] at h ⊢; exact ih2 h
          · simp only [h34, h92, if_false] at h ⊢; exact ih1 h
    · intro h
      simp only [qscan] at h
      by_cases h10 : c = 10
      · subst h10
        simp only [addPrefix, if_true, qscan, qscan_sp]
        exact ih1 h
      · simp only [addPrefix, h10, if_false, qscan]
        exact ih1 h

/-- `pars.Quoted('"')` on a clean text between quotes -/
theorem quoted_ok (w t : Bytes) (stk : List Bytes) (hw : qscan false w = true) :
    quoted ⟨34 :: (w ++ 34 :: t), stk⟩ = (.ok w, ⟨t, stk⟩) := by
  have h := scanQ_clean w t false 0 hw
  simp only [Nat.zero_add] at h
  gsimp [quoted, scanQuoted, h]

/-! ### `bytes.Index`: `findSub_skip`, `findSub_here`, `findSub_none` are in Gts/Lemmas/GbStripOnePass.lean -/

/-! ### no match inside the part that is already done -/

/-- what may follow the done part: nothing, or something that starts with a line feed -/
def okY (Y : Bytes) : Prop := Y = [] ∨ ∃ y, Y = 10 :: y

/-- no occurrence of `LF ++ indent` starts inside `a`, whatever (admissible) text follows -/
def NM (d : Nat) (a : Bytes) : Prop :=
  ∀ Y, okY Y → ∀ i, i < a.length → (10 :: sp d).isPrefixOf (a.drop i ++ Y) = false

/-- no line feed -/
def noLF (l : Bytes) : Prop := ∀ c ∈ l, c ≠ 10

theorem lf_prefix_false (d : Nat) (l Y : Bytes) (hl : noLF l) (i : Nat) (hi : i < l.length) :
    (10 :: sp d).isPrefixOf (l.drop i ++ Y) = false := by
  induction l generalizing i with
  | nil => simp at hi
  | cons c l ih =>
    have hc : c ≠ 10 := hl c (by simp)
    have hl' : noLF l := fun x hx => hl x (by simp [hx])
    cases i with
    | zero =>
      have : ((10 : UInt8) == c) = false := by simpa using fun h => hc h.symm
      simp [List.isPrefixOf, this]
    | succ i =>
      simp only [List.drop_succ_cons]
      exact ih hl' i (by simp only [List.length_cons] at hi; omega)

theorem NM_line (d : Nat) (l : Bytes) (hl : noLF l) : NM d l :=
  fun Y _ i hi => lf_prefix_false d l Y hl i hi

/-- blanks as a prefix of a line that is followed by nothing or by a line feed -/
theorem sp_prefix_line (d : Nat) (l Y : Bytes) (hY : okY Y) (h : (sp d).isPrefixOf l = false) :
    (sp d).isPrefixOf (l ++ Y) = false := by
  induction d generalizing l with
  | zero => simp [sp] at h
  | succ d ih =>
    rw [sp_succ] at h ⊢
    cases l with
    | nil =>
      rcases hY with rfl | ⟨y, rfl⟩
      · rfl
      · simp [List.isPrefixOf]
    | cons c l =>
      simp only [List.cons_append, List.isPrefixOf] at h ⊢
      by_cases hc : (32 : UInt8) = c
      · subst hc
        simp only [beq_self_eq_true, Bool.true_and] at h ⊢
        exact ih l h
      · have : ((32 : UInt8) == c) = false := by simpa using hc
        simp [this]

theorem NM_extend (d : Nat) (a l : Bytes) (ha : NM d a) (hl : noLF l)
    (hp : (sp d).isPrefixOf l = false) : NM d (a ++ 10 :: l) := by
  intro Y hY i hi
  by_cases h1 : i < a.length
  · have := ha (10 :: l ++ Y) (Or.inr ⟨l ++ Y, rfl⟩) i h1
    rw [List.drop_append_of_le_length (by omega)]
    simpa [List.append_assoc] using this
  · have hge : a.length ≤ i := by omega
    rw [List.drop_append, List.drop_eq_nil_of_le hge, List.nil_append]
    by_cases h2 : i - a.length = 0
    · rw [h2]
      simp only [List.drop_zero, List.cons_append, List.isPrefixOf, beq_self_eq_true, Bool.true_and]
      exact sp_prefix_line d l Y hY hp
    · obtain ⟨j, hj⟩ : ∃ j, i - a.length = j + 1 := ⟨i - a.length - 1, by omega⟩
      rw [hj]
      simp only [List.drop_succ_cons]
      apply lf_prefix_false d l Y hl j
      simp only [List.length_append, List.length_cons] at hi
      omega

/-! ### `stripCont` -/

/-- continuation lines as `QualifierFormatter` writes them inside a value: LF, indent, line -/
def contLines (d : Nat) (ls : List Bytes) : Bytes := ls.flatMap fun l => 10 :: (sp d ++ l)

theorem contLines_cons (d : Nat) (l : Bytes) (ls : List Bytes) :
    contLines d (l :: ls) = 10 :: (sp d ++ (l ++ contLines d ls)) := by
  simp [contLines, List.flatMap_cons]

/-- the loop before 2612fae on continuation lines (fuel: one round per line) -/
theorem stripContOld_lines (d : Nat) (ls : List Bytes) (a : Bytes) (f : Nat)
    (ha : NM d a) (hls : ∀ x ∈ ls, noLF x ∧ (sp d).isPrefixOf x = false) (hf : ls.length ≤ f) :
    stripContOld (sp d) f (a ++ contLines d ls) = a ++ sepText 10 ls := by
  induction ls generalizing a f with
  | nil =>
    simp only [contLines, List.flatMap_nil, List.append_nil, sepText]
    cases f with
    | zero => rfl
    | succ f =>
      have := findSub_none (10 :: sp d) a 0 (by simp) (by
        intro i hi
        have := ha [] (Or.inl rfl) i hi
        simpa using this)
      simp [stripContOld, this]
  | cons l ls ih =>
    cases f with
    | zero => simp at hf
    | succ f =>
      obtain ⟨hl, hp⟩ := hls l (by simp)
      have hls' : ∀ x ∈ ls, noLF x ∧ (sp d).isPrefixOf x = false :=
        fun x hx => hls x (by simp [hx])
      rw [contLines_cons, sepText_cons]
      have hfind : findSub (10 :: sp d) (a ++ 10 :: (sp d ++ (l ++ contLines d ls))) 0 = some a.length := by
        have e : a ++ (10 : UInt8) :: (sp d ++ (l ++ contLines d ls)) = a ++ ((10 :: sp d) ++ (l ++ contLines d ls)) := by simp
        rw [e, findSub_skip (10 :: sp d) a ((10 :: sp d) ++ (l ++ contLines d ls)) 0
          (fun i hi => ha _ (Or.inr ⟨sp d ++ (l ++ contLines d ls), by simp⟩) i hi),
          findSub_here _ _ _ (by simp)]
        simp
      simp only [stripContOld, hfind]
      have e2 : (a ++ 10 :: (sp d ++ (l ++ contLines d ls))).take (a.length + 1) ++
          (a ++ 10 :: (sp d ++ (l ++ contLines d ls))).drop (a.length + 1 + (sp d).length) =
          (a ++ 10 :: l) ++ contLines d ls := by
        have t1 : (a ++ 10 :: (sp d ++ (l ++ contLines d ls))).take (a.length + 1) = a ++ [10] := by
          rw [List.take_append, List.take_of_length_le (by omega), show a.length + 1 - a.length = 1 by omega]
          rfl
        have t2 : (a ++ 10 :: (sp d ++ (l ++ contLines d ls))).drop (a.length + 1 + (sp d).length) =
            l ++ contLines d ls := by
          rw [List.drop_append]
          have : a.length + 1 + (sp d).length - a.length = (sp d).length + 1 := by omega
          rw [this, List.drop_eq_nil_of_le (by omega)]
          simp
        rw [t1, t2]; simp
      rw [e2, ih (a ++ 10 :: l) f (NM_extend d a l ha hl hp) hls' (by simp only [List.length_cons] at hf; omega)]
      simp

/-- no line feed of the value is followed by the whole indent (decidable) -/
def noCont (d : Nat) (v : Bytes) : Bool := (tailLines v).all fun l => !(sp d).isPrefixOf l

theorem addPrefix_value (d : Nat) (v : Bytes) :
    addPrefix (sp d) v = headLine v ++ contLines d (tailLines v) := by
  induction v with
  | nil => simp [addPrefix, headLine, tailLines, splitLF, contLines]
  | cons c v ih =>
    by_cases hc : c = 10
    · subst hc
      have e := splitLF_cons_lf v
      have h1 : headLine (10 :: v) = [] := by simp [headLine, e]
      have h2 : tailLines (10 :: v) = splitLF v := by simp [tailLines, e]
      rw [h1, h2, splitLF_eq v, contLines_cons]
      simp only [addPrefix, if_true, List.nil_append]
      rw [ih]
    · have e := splitLF_cons_other c v hc
      have h1 : headLine (c :: v) = c :: headLine v := by simp [headLine, e]
      have h2 : tailLines (c :: v) = tailLines v := by simp [tailLines, e]
      rw [h1, h2]
      simp only [addPrefix, hc, if_false, List.cons_append]
      rw [ih]

theorem lines_noLF (v : Bytes) : noLF (headLine v) ∧ ∀ x ∈ tailLines v, noLF x := by
  induction v with
  | nil => simp [headLine, tailLines, splitLF, noLF]
  | cons c v ih =>
    obtain ⟨ih1, ih2⟩ := ih
    by_cases hc : c = 10
    · subst hc
      have e := splitLF_cons_lf v
      have h1 : headLine (10 :: v) = [] := by simp [headLine, e]
      have h2 : tailLines (10 :: v) = splitLF v := by simp [tailLines, e]
      rw [h1, h2, splitLF_eq v]
      refine ⟨by simp [noLF], ?_⟩
      intro x hx
      rcases List.mem_cons.mp hx with rfl | hx
      · exact ih1
      · exact ih2 x hx
    · have e := splitLF_cons_other c v hc
      have h1 : headLine (c :: v) = c :: headLine v := by simp [headLine, e]
      have h2 : tailLines (c :: v) = tailLines v := by simp [tailLines, e]
      rw [h1, h2]
      refine ⟨?_, ih2⟩
      intro x hx
      rcases List.mem_cons.mp hx with rfl | hx
      · exact hc
      · exact ih1 x hx

theorem contLines_length_ge (d : Nat) (ls : List Bytes) : ls.length ≤ (contLines d ls).length := by
  induction ls with
  | nil => simp [contLines]
  | cons l ls ih => rw [contLines_cons]; simp only [List.length_append, List.length_cons]; omega

/-- the one-pass loop of today on continuation lines: through `stripCont_onepass_eq` (an indent of
at least one column) resp. `stripCont_nil` (no indent: then there is no continuation line) -/
theorem stripCont_lines (d : Nat) (ls : List Bytes) (a : Bytes)
    (ha : NM d a) (hls : ∀ x ∈ ls, noLF x ∧ (sp d).isPrefixOf x = false) :
    stripCont (sp d) (a ++ contLines d ls) = a ++ sepText 10 ls := by
  cases d with
  | zero =>
    have : ls = [] := by
      cases ls with
      | nil => rfl
      | cons x _ => have := (hls x (by simp)).2; simp [sp] at this
    subst this
    have e : sp 0 = [] := rfl
    rw [e, stripCont_nil]
    simp [contLines, sepText]
  | succ d =>
    have hne : sp (d + 1) ≠ [] := by simp [sp, List.replicate_succ]
    have hlen : ls.length ≤ (a ++ contLines (d + 1) ls).length := by
      have := contLines_length_ge (d + 1) ls
      simp only [List.length_append]; omega
    rw [stripCont_onepass_eq _ hne _ _ (Nat.le_refl _)]
    exact stripContOld_lines (d + 1) ls a _ ha hls hlen

/-- **Continuation removal.**  On a value no line feed of which is followed by the whole indent,
the loop of `quotedQualifierParser` undoes `QualifierFormatter`'s `AddPrefix`. -/
theorem stripCont_addPrefix (d : Nat) (v : Bytes) (h : noCont d v = true) :
    stripCont (sp d) (addPrefix (sp d) v) = v := by
  obtain ⟨h0, hls⟩ := lines_noLF v
  have hls' : ∀ x ∈ tailLines v, noLF x ∧ (sp d).isPrefixOf x = false := by
    intro x hx
    refine ⟨hls x hx, ?_⟩
    simp only [noCont, List.all_eq_true, Bool.not_eq_true'] at h
    exact h x hx
  have := stripCont_lines d (tailLines v) (headLine v) (NM_line d _ h0) hls'
  rw [← addPrefix_value] at this
  rw [this, ← lines_join v]

end Gts.GenBank
