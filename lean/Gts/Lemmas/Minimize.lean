/-
  Helper lemmas for C09: cover of segment lists, `flattenRegion`, `sort.Sort(BySegment)`
  (insertion-sort model; sorted permutations are unique), the merge loop of `Minimize`,
  `invertSegments`, `InvertCircular`.  Core Lean only.
-/
import Gts.Spec.Cover
import Gts.Lemmas.Basic
namespace Gts
open Reg

/-! ### cover of segment lists -/

@[simp] theorem segsCover_nil (x : Int) : segsCover [] x ↔ False := by simp [segsCover]

@[simp] theorem segsCover_cons (a : Seg) (l : List Seg) (x : Int) :
    segsCover (a :: l) x ↔ (a.1 ≤ x ∧ x < a.2) ∨ segsCover l x := by simp [segsCover]

theorem segsCover_append (a b : List Seg) (x : Int) :
    segsCover (a ++ b) x ↔ segsCover a x ∨ segsCover b x := by
  simp only [segsCover, List.mem_append]
  constructor
  · rintro ⟨s, h | h, hx⟩
    · exact Or.inl ⟨s, h, hx⟩
    · exact Or.inr ⟨s, h, hx⟩
  · rintro (⟨s, h, hx⟩ | ⟨s, h, hx⟩)
    · exact ⟨s, Or.inl h, hx⟩
    · exact ⟨s, Or.inr h, hx⟩

theorem segsCover_perm {a b : List Seg} (h : a.Perm b) (x : Int) : segsCover a x ↔ segsCover b x := by
  simp only [segsCover]
  constructor
  · rintro ⟨s, hs, hx⟩; exact ⟨s, h.subset hs, hx⟩
  · rintro ⟨s, hs, hx⟩; exact ⟨s, h.symm.subset hs, hx⟩

@[simp] theorem segHas_iff (s : Seg) (x : Int) : segHas s x = true ↔ s.1 ≤ x ∧ x < s.2 := by
  simp [segHas]

@[simp] theorem coverCount_nil (x : Int) : coverCount [] x = 0 := rfl

theorem coverCount_cons (a : Seg) (l : List Seg) (x : Int) :
    coverCount (a :: l) x = coverCount l x + if a.1 ≤ x ∧ x < a.2 then 1 else 0 := by
  simp only [coverCount, List.countP_cons, segHas_iff]

theorem coverCount_append (a b : List Seg) (x : Int) :
    coverCount (a ++ b) x = coverCount a x + coverCount b x := by
  simp [coverCount]

theorem coverCount_perm {a b : List Seg} (h : a.Perm b) (x : Int) : coverCount a x = coverCount b x :=
  h.countP_eq _

theorem coverCount_pos_iff (l : List Seg) (x : Int) : 0 < coverCount l x ↔ segsCover l x := by
  induction l with
  | nil => simp
  | cons a l ih =>
    rw [coverCount_cons, segsCover_cons, ← ih]
    split <;> simp_all <;> omega

theorem coverCount_eq_zero_iff (l : List Seg) (x : Int) : coverCount l x = 0 ↔ ¬ segsCover l x := by
  rw [← coverCount_pos_iff]; omega

/-! ### leaves, flatten, cover of regions -/

@[simp] theorem leaves_seg (h t : Int) : leaves (seg h t) = [(h, t)] := by simp [leaves]
@[simp] theorem leaves_many (rs : List Reg) : leaves (many rs) = leavesList rs := by simp [leaves]
@[simp] theorem leavesList_nil : leavesList [] = [] := by simp [leavesList]
@[simp] theorem leavesList_cons (r : Reg) (rs : List Reg) :
    leavesList (r :: rs) = leaves r ++ leavesList rs := by simp [leavesList]

theorem leavesList_append (a b : List Reg) : leavesList (a ++ b) = leavesList a ++ leavesList b := by
  induction a with
  | nil => simp
  | cons r rs ih => simp [ih]

@[simp] theorem flatten_many (rs : List Reg) : flatten (many rs) = flattenList rs := by simp [flatten]
@[simp] theorem flattenList_nil : flattenList [] = [] := by simp [flattenList]
@[simp] theorem flattenList_cons (r : Reg) (rs : List Reg) :
    flattenList (r :: rs) = flatten r ++ flattenList rs := by simp [flattenList]

theorem flatten_seg (h t : Int) : flatten (seg h t) = [orient (h, t)] := by
  simp only [flatten, orient]; split <;> rfl

mutual
/-- `flattenRegion` = the leaves, each read in forward orientation -/
theorem flatten_eq_map : ∀ r : Reg, flatten r = (leaves r).map orient
  | .seg h t => by simp [flatten_seg]
  | .many rs => by simp [flattenList_eq_map rs]
theorem flattenList_eq_map : ∀ rs : List Reg, flattenList rs = (leavesList rs).map orient
  | [] => by simp
  | r :: rs => by simp [flatten_eq_map r, flattenList_eq_map rs]
end

theorem orient_fwd (s : Seg) : (orient s).1 ≤ (orient s).2 := by
  unfold orient; split <;> (try simp) <;> omega

theorem orient_of_fwd {s : Seg} (h : s.1 ≤ s.2) : orient s = s := by
  unfold orient; split
  · omega
  · rfl

theorem orient_fst (s : Seg) : (orient s).1 = min s.1 s.2 := by
  unfold orient; split <;> (try simp) <;> omega

theorem orient_snd (s : Seg) : (orient s).2 = max s.1 s.2 := by
  unfold orient; split <;> (try simp) <;> omega

/-- every flattened segment is forward -/
theorem flatten_fwd (r : Reg) : ∀ s ∈ flatten r, s.1 ≤ s.2 := by
  intro s hs
  rw [flatten_eq_map, List.mem_map] at hs
  obtain ⟨u, _, rfl⟩ := hs
  exact orient_fwd u

/-- the spec-side cover is the cover of the flattened segment list -/
theorem cover_iff_flatten (r : Reg) (x : Int) : cover r x ↔ segsCover (flatten r) x := by
  simp only [cover, segsCover, flatten_eq_map, List.mem_map]
  constructor
  · rintro ⟨s, hs, hx⟩
    exact ⟨orient s, ⟨s, hs, rfl⟩, by rw [orient_fst, orient_snd]; exact hx⟩
  · rintro ⟨_, ⟨s, hs, rfl⟩, hx⟩
    exact ⟨s, hs, by rw [orient_fst, orient_snd] at hx; exact hx⟩

/-! ### `BySegment.Less` and `sort.Sort` -/

/-- `a` may stand before `b` in a list sorted by `BySegment`: `!Less(b, a)` -/
def segLe (a b : Seg) : Prop := segLess b a = false

instance (a b : Seg) : Decidable (segLe a b) := by unfold segLe; infer_instance

/-- `BySegment.Less` is the strict lexicographic order on the forward readings -/
theorem segLess_iff (a b : Seg) : segLess a b = true ↔
    ((orient a).1 < (orient b).1 ∨ ((orient a).1 = (orient b).1 ∧ (orient a).2 < (orient b).2)) := by
  have : segLess a b =
      (if (orient a).1 < (orient b).1 then true else if (orient b).1 < (orient a).1 then false
       else decide ((orient a).2 < (orient b).2)) := rfl
  rw [this]
  split
  · simp; omega
  · split
    · simp; omega
    · simp; omega

theorem segLe_iff (a b : Seg) : segLe a b ↔
    ((orient a).1 < (orient b).1 ∨ ((orient a).1 = (orient b).1 ∧ (orient a).2 ≤ (orient b).2)) := by
  unfold segLe
  rw [← Bool.not_eq_true, segLess_iff]
  omega

theorem segLe_total (a b : Seg) : segLe a b ∨ segLe b a := by
  rw [segLe_iff, segLe_iff]; omega

theorem segLe_trans {a b c : Seg} (h₁ : segLe a b) (h₂ : segLe b c) : segLe a c := by
  rw [segLe_iff] at *; omega

theorem segLe_of_less {a b : Seg} (h : segLess a b = true) : segLe a b := by
  rw [segLess_iff] at h; rw [segLe_iff]; omega

/-- on forward segments ties of `BySegment` are equal values -/
theorem segLe_antisymm {a b : Seg} (ha : a.1 ≤ a.2) (hb : b.1 ≤ b.2) (h₁ : segLe a b) (h₂ : segLe b a) :
    a = b := by
  rw [segLe_iff, orient_of_fwd ha, orient_of_fwd hb] at *
  apply Prod.ext <;> omega

theorem segLe_lo {a b : Seg} (ha : a.1 ≤ a.2) (hb : b.1 ≤ b.2) (h : segLe a b) : a.1 ≤ b.1 := by
  rw [segLe_iff, orient_of_fwd ha, orient_of_fwd hb] at h; omega

theorem insertSeg_perm (x : Seg) (l : List Seg) : (insertSeg x l).Perm (x :: l) := by
  induction l with
  | nil => simp [insertSeg]
  | cons y ys ih =>
    simp only [insertSeg]
    split
    · exact (List.Perm.cons y ih).trans (List.Perm.swap x y ys)
    · exact List.Perm.refl _

/-- the model's sort returns a permutation … -/
theorem sortSegs_perm (l : List Seg) : (sortSegs l).Perm l := by
  induction l with
  | nil => simp [sortSegs]
  | cons x xs ih =>
    simp only [sortSegs]
    exact (insertSeg_perm x _).trans (List.Perm.cons x ih)

theorem insertSeg_sorted (x : Seg) (l : List Seg) (h : l.Pairwise segLe) :
    (insertSeg x l).Pairwise segLe := by
  induction l with
  | nil => simp [insertSeg]
  | cons y ys ih =>
    simp only [insertSeg]
    rw [List.pairwise_cons] at h
    split
    · rename_i hlt
      rw [List.pairwise_cons]
      refine ⟨?_, ih h.2⟩
      intro z hz
      have := (insertSeg_perm x ys).subset hz
      rcases List.mem_cons.mp this with rfl | hz'
      · exact segLe_of_less hlt
      · exact h.1 z hz'
    · rename_i hnl
      have hxy : segLe x y := by simpa [segLe] using hnl
      rw [List.pairwise_cons]
      refine ⟨?_, List.pairwise_cons.mpr h⟩
      intro z hz
      rcases List.mem_cons.mp hz with rfl | hz'
      · exact hxy
      · exact segLe_trans hxy (h.1 z hz')

/-- … that is sorted in the sense of `sort.Sort`: no later element is `Less` than an earlier one -/
theorem sortSegs_sorted (l : List Seg) : (sortSegs l).Pairwise segLe := by
  induction l with
  | nil => simp [sortSegs]
  | cons x xs ih => exact insertSeg_sorted x _ ih

/-- REMARK (why the sorting algorithm does not matter): two `BySegment`-sorted arrangements of
the same forward segments are the same list, because ties of `Less` are equal values. -/
theorem sorted_perm_unique {l₁ l₂ : List Seg} (hf : ∀ s ∈ l₁, s.1 ≤ s.2) (hp : l₁.Perm l₂)
    (h₁ : l₁.Pairwise segLe) (h₂ : l₂.Pairwise segLe) : l₁ = l₂ :=
  List.Perm.eq_of_pairwise
    (fun a b ha hb hab hba => segLe_antisymm (hf a ha) (hf b (hp.symm.subset hb)) hab hba) h₁ h₂ hp

/-- hence any correct sort agrees with the model's insertion sort on flattened segments -/
theorem sortSegs_unique {l l' : List Seg} (hf : ∀ s ∈ l, s.1 ≤ s.2) (hp : l'.Perm l)
    (hs : l'.Pairwise segLe) : l' = sortSegs l :=
  sorted_perm_unique (fun s hs' => hf s (hp.subset hs')) (hp.trans (sortSegs_perm l).symm) hs
    (sortSegs_sorted l)

theorem sortSegs_congr {l l' : List Seg} (hf : ∀ s ∈ l, s.1 ≤ s.2) (hp : l.Perm l') :
    sortSegs l = sortSegs l' :=
  sorted_perm_unique (fun s hs => hf s ((sortSegs_perm l).subset hs))
    ((sortSegs_perm l).trans (hp.trans (sortSegs_perm l').symm)) (sortSegs_sorted l) (sortSegs_sorted l')

/-! ### the merge loop -/

/-- all segments forward -/
def Fwd (l : List Seg) : Prop := ∀ s ∈ l, s.1 ≤ s.2
/-- sorted by lower end (all the merge loop needs from the sort) -/
def LoSorted (l : List Seg) : Prop := l.Pairwise (fun a b => a.1 ≤ b.1)

/-- the merge loop with the current segment `ss[i]` held apart (structural recursion) -/
def mergeAcc (a : Seg) : List Seg → List Seg
  | [] => [a]
  | b :: rest =>
    if a.2 < b.1 then a :: mergeAcc b rest
    else mergeAcc (Loc.gmin a.1 b.1, Loc.gmax a.2 b.2) rest

/-- the merge loop on a whole list, structurally -/
def mergeList : List Seg → List Seg
  | [] => []
  | a :: rest => mergeAcc a rest

theorem mergeSegs_cons (a : Seg) (rest : List Seg) : mergeSegs (a :: rest) = mergeAcc a rest := by
  induction rest generalizing a with
  | nil => simp [mergeSegs, mergeAcc]
  | cons b rest ih =>
    rw [mergeSegs]
    simp only [mergeAcc]
    split
    · rw [ih]
    · rw [ih]

theorem mergeSegs_eq (l : List Seg) : mergeSegs l = mergeList l := by
  cases l with
  | nil => simp [mergeSegs, mergeList]
  | cons a rest => simp [mergeSegs_cons, mergeList]

/-- `minimize` in structurally recursive form (lets `decide` evaluate it) -/
theorem minimize_eq (r : Reg) : minimize r = mergeList (sortSegs (flatten r)) := by
  simp [minimize, mergeSegs_eq]

theorem gmin_eq (a b : Int) : Loc.gmin a b = min a b := by unfold Loc.gmin; omega
theorem gmax_eq (a b : Int) : Loc.gmax a b = max a b := by unfold Loc.gmax; omega

theorem Fwd.cons {a : Seg} {l : List Seg} (h : Fwd (a :: l)) : a.1 ≤ a.2 ∧ Fwd l :=
  ⟨h a (List.mem_cons_self ..), fun s hs => h s (List.mem_cons_of_mem _ hs)⟩

theorem mergeAcc_fwd (a : Seg) (rest : List Seg) (hf : Fwd (a :: rest)) : Fwd (mergeAcc a rest) := by
  induction rest generalizing a with
  | nil => simpa [mergeAcc] using hf
  | cons b rest ih =>
    have ha := hf.cons.1
    have hb := hf.cons.2.cons.1
    have hr := hf.cons.2.cons.2
    simp only [mergeAcc]
    split
    · intro s hs
      rcases List.mem_cons.mp hs with rfl | hs
      · exact ha
      · exact ih b hf.cons.2 s hs
    · apply ih
      intro s hs
      rcases List.mem_cons.mp hs with rfl | hs
      · simp only [gmin_eq, gmax_eq]; omega
      · exact hr s hs

/-- every output end is an input end -/
theorem mergeAcc_ends (a : Seg) (rest : List Seg) :
    ∀ o ∈ mergeAcc a rest, (∃ s ∈ a :: rest, s.1 = o.1) ∧ (∃ s ∈ a :: rest, s.2 = o.2) := by
  induction rest generalizing a with
  | nil => intro o ho; simp [mergeAcc] at ho; subst ho; simp
  | cons b rest ih =>
    intro o ho
    simp only [mergeAcc] at ho
    split at ho
    · rcases List.mem_cons.mp ho with rfl | ho
      · simp
      · obtain ⟨⟨s, hs, h1⟩, ⟨t, ht, h2⟩⟩ := ih b o ho
        exact ⟨⟨s, List.mem_cons_of_mem _ hs, h1⟩, ⟨t, List.mem_cons_of_mem _ ht, h2⟩⟩
    · obtain ⟨⟨s, hs, h1⟩, ⟨t, ht, h2⟩⟩ := ih _ o ho
      constructor
      · rcases List.mem_cons.mp hs with rfl | hs
        · simp only [gmin_eq] at h1
          by_cases h : a.1 ≤ b.1
          · exact ⟨a, by simp, by omega⟩
          · exact ⟨b, by simp, by omega⟩
        · exact ⟨s, by simp [hs], h1⟩
      · rcases List.mem_cons.mp ht with rfl | ht
        · simp only [gmax_eq] at h2
          by_cases h : b.2 ≤ a.2
          · exact ⟨a, by simp, by omega⟩
          · exact ⟨b, by simp, by omega⟩
        · exact ⟨t, by simp [ht], h2⟩

theorem LoSorted.cons {a : Seg} {l : List Seg} (h : LoSorted (a :: l)) :
    (∀ s ∈ l, a.1 ≤ s.1) ∧ LoSorted l := List.pairwise_cons.mp h

/-- outputs are strictly increasing and never abut (all pairs, not only neighbours) -/
theorem mergeAcc_pairwise (a : Seg) (rest : List Seg) (hs : LoSorted (a :: rest)) :
    (mergeAcc a rest).Pairwise (fun x y => x.2 < y.1) := by
  induction rest generalizing a with
  | nil => simp [mergeAcc]
  | cons b rest ih =>
    simp only [mergeAcc]
    have hb := hs.cons.2
    split
    · rename_i hlt
      rw [List.pairwise_cons]
      refine ⟨?_, ih b hb⟩
      intro o ho
      obtain ⟨⟨s, hs', h1⟩, _⟩ := mergeAcc_ends b rest o ho
      rcases List.mem_cons.mp hs' with rfl | hs'
      · omega
      · have := hb.cons.1 s hs'; omega
    · apply ih
      refine List.pairwise_cons.mpr ⟨?_, hb.cons.2⟩
      intro s hs'
      have := hs.cons.1 s (List.mem_cons_of_mem _ hs')
      simp only [gmin_eq]; omega

/-- the merge loop keeps the covered positions -/
theorem mergeAcc_cover (a : Seg) (rest : List Seg) (hf : Fwd (a :: rest)) (hs : LoSorted (a :: rest))
    (x : Int) : segsCover (mergeAcc a rest) x ↔ segsCover (a :: rest) x := by
  induction rest generalizing a with
  | nil => simp [mergeAcc]
  | cons b rest ih =>
    have ha := hf.cons.1
    have hfb := hf.cons.2
    have hb := hfb.cons.1
    have hab := hs.cons.1 b (by simp)
    have hsb := hs.cons.2
    simp only [mergeAcc]
    split
    · rw [segsCover_cons, ih b hfb hsb, segsCover_cons a]
    · rename_i hnl
      rw [ih]
      · have key : (min a.1 b.1 ≤ x ∧ x < max a.2 b.2) ↔
            ((a.1 ≤ x ∧ x < a.2) ∨ (b.1 ≤ x ∧ x < b.2)) := by omega
        simp only [segsCover_cons, gmin_eq, gmax_eq]
        rw [key, or_assoc]
      · intro s hs'
        rcases List.mem_cons.mp hs' with rfl | hs'
        · simp only [gmin_eq, gmax_eq]; omega
        · exact hfb.cons.2 s hs'
      · refine List.pairwise_cons.mpr ⟨?_, hsb.cons.2⟩
        intro s hs'
        have := hs.cons.1 s (List.mem_cons_of_mem _ hs')
        simp only [gmin_eq]; omega

/-- a zero-length output is a zero-length input (nothing else can shrink to a point) -/
theorem mergeAcc_point (a : Seg) (rest : List Seg) (hf : Fwd (a :: rest)) (hs : LoSorted (a :: rest)) :
    ∀ o ∈ mergeAcc a rest, o.1 = o.2 → o ∈ a :: rest := by
  induction rest generalizing a with
  | nil => intro o ho _; simpa [mergeAcc] using ho
  | cons b rest ih =>
    have ha := hf.cons.1
    have hfb := hf.cons.2
    have hb := hfb.cons.1
    have hab := hs.cons.1 b (by simp)
    have hsb := hs.cons.2
    intro o ho hz
    simp only [mergeAcc] at ho
    split at ho
    · rcases List.mem_cons.mp ho with rfl | ho
      · simp
      · exact List.mem_cons_of_mem _ (ih b hfb hsb o ho hz)
    · rename_i hnl
      have hm := ih (Loc.gmin a.1 b.1, Loc.gmax a.2 b.2)
        (by
          intro s hs'
          rcases List.mem_cons.mp hs' with rfl | hs'
          · simp only [gmin_eq, gmax_eq]; omega
          · exact hfb.cons.2 s hs')
        (by
          refine List.pairwise_cons.mpr ⟨?_, hsb.cons.2⟩
          intro s hs'
          have := hs.cons.1 s (List.mem_cons_of_mem _ hs')
          simp only [gmin_eq]; omega) o ho hz
      rcases List.mem_cons.mp hm with rfl | hm
      · simp only [gmin_eq, gmax_eq] at hz
        have : a = (min a.1 b.1, max a.2 b.2) := by apply Prod.ext <;> simp <;> omega
        simp only [gmin_eq, gmax_eq]
        rw [← this]; simp
      · simp [hm]

/-! ### properties of `mergeList` on a sorted forward list -/

theorem mergeList_fwd (l : List Seg) (hf : Fwd l) : Fwd (mergeList l) := by
  cases l with
  | nil => intro s hs; simp [mergeList] at hs
  | cons a rest => exact mergeAcc_fwd a rest hf

theorem mergeList_pairwise (l : List Seg) (hs : LoSorted l) :
    (mergeList l).Pairwise (fun x y => x.2 < y.1) := by
  cases l with
  | nil => simp [mergeList]
  | cons a rest => exact mergeAcc_pairwise a rest hs

theorem mergeList_cover (l : List Seg) (hf : Fwd l) (hs : LoSorted l) (x : Int) :
    segsCover (mergeList l) x ↔ segsCover l x := by
  cases l with
  | nil => simp [mergeList]
  | cons a rest => exact mergeAcc_cover a rest hf hs x

theorem mergeList_ends (l : List Seg) :
    ∀ o ∈ mergeList l, (∃ s ∈ l, s.1 = o.1) ∧ (∃ s ∈ l, s.2 = o.2) := by
  cases l with
  | nil => intro o ho; simp [mergeList] at ho
  | cons a rest => exact mergeAcc_ends a rest

theorem mergeList_point (l : List Seg) (hf : Fwd l) (hs : LoSorted l) :
    ∀ o ∈ mergeList l, o.1 = o.2 → o ∈ l := by
  cases l with
  | nil => intro o ho; simp [mergeList] at ho
  | cons a rest => exact mergeAcc_point a rest hf hs

theorem mergeList_ne_nil (l : List Seg) (h : l ≠ []) : mergeList l ≠ [] := by
  cases l with
  | nil => exact absurd rfl h
  | cons a rest =>
    clear h
    simp only [mergeList]
    induction rest generalizing a with
    | nil => simp [mergeAcc]
    | cons b rest ih =>
      simp only [mergeAcc]
      split
      · simp
      · exact ih _

/-- the sorted flattened list (what the merge loop of `Minimize` starts from) -/
theorem sorted_flatten_fwd (r : Reg) : Fwd (sortSegs (flatten r)) :=
  fun s hs => flatten_fwd r s ((sortSegs_perm _).subset hs)

theorem sorted_flatten_lo (r : Reg) : LoSorted (sortSegs (flatten r)) := by
  have hf := sorted_flatten_fwd r
  have hs := sortSegs_sorted (flatten r)
  unfold LoSorted
  generalize sortSegs (flatten r) = l at hf hs
  induction l with
  | nil => simp
  | cons a l ih =>
    rw [List.pairwise_cons] at hs ⊢
    refine ⟨fun b hb => segLe_lo hf.cons.1 (hf.cons.2 b hb) (hs.1 b hb), ih hf.cons.2 hs.2⟩

/-! ### canonical form: the cover determines the minimised list -/

/-- non-empty, strictly increasing, non-abutting segment lists with the same cover are equal -/
theorem canonical_unique (l l' : List Seg)
    (hn : ∀ s ∈ l, s.1 < s.2) (hn' : ∀ s ∈ l', s.1 < s.2)
    (hp : l.Pairwise (fun a b => a.2 < b.1)) (hp' : l'.Pairwise (fun a b => a.2 < b.1))
    (hc : ∀ x, segsCover l x ↔ segsCover l' x) : l = l' := by
  induction l generalizing l' with
  | nil =>
    cases l' with
    | nil => rfl
    | cons a' t' =>
      have := (hc a'.1).mpr (by simp; left; exact hn' a' (by simp))
      simp at this
  | cons a t ih =>
    cases l' with
    | nil =>
      have := (hc a.1).mp (by simp; left; exact hn a (by simp))
      simp at this
    | cons a' t' =>
      have ha := hn a (by simp)
      have ha' := hn' a' (by simp)
      rw [List.pairwise_cons] at hp hp'
      -- lower ends agree
      have h1 : a'.1 ≤ a.1 := by
        have := (hc a.1).mp (by simp; left; exact ha)
        rcases (segsCover_cons ..).mp this with h | ⟨s, hs, hx⟩
        · exact h.1
        · have := hp'.1 s hs; omega
      have h2 : a.1 ≤ a'.1 := by
        have := (hc a'.1).mpr (by simp; left; exact ha')
        rcases (segsCover_cons ..).mp this with h | ⟨s, hs, hx⟩
        · exact h.1
        · have := hp.1 s hs; omega
      -- upper ends agree
      have h3 : ¬ a.2 < a'.2 := by
        intro hlt
        have := (hc a.2).mpr (by simp; left; omega)
        rcases (segsCover_cons ..).mp this with h | ⟨s, hs, hx⟩
        · omega
        · have := hp.1 s hs; omega
      have h4 : ¬ a'.2 < a.2 := by
        intro hlt
        have := (hc a'.2).mp (by simp; left; omega)
        rcases (segsCover_cons ..).mp this with h | ⟨s, hs, hx⟩
        · omega
        · have := hp'.1 s hs; omega
      have hEq : a = a' := by apply Prod.ext <;> omega
      subst hEq
      congr 1
      apply ih t' (fun s hs => hn s (by simp [hs])) (fun s hs => hn' s (by simp [hs])) hp.2 hp'.2
      intro x
      constructor
      · intro hx
        have := (hc x).mp (by simp [hx])
        rcases (segsCover_cons ..).mp this with h | h
        · obtain ⟨s, hs, hx'⟩ := hx
          have := hp.1 s hs; omega
        · exact h
      · intro hx
        have := (hc x).mpr (by simp [hx])
        rcases (segsCover_cons ..).mp this with h | h
        · obtain ⟨s, hs, hx'⟩ := hx
          have := hp'.1 s hs; omega
        · exact h

/-! ### `invertSegments` -/

/-- precondition of the gap enumeration: the walk position `start` never overtakes the next
segment, segments are forward, and the last one ends at or before `n` -/
def GapChain (n : Int) : Int → List Seg → Prop
  | start, [] => start ≤ n
  | start, s :: t => start ≤ s.1 ∧ s.1 ≤ s.2 ∧ GapChain n s.2 t

theorem gapChain_of (n : Int) (ss : List Seg) (start : Int) (hf : Fwd ss)
    (hp : ss.Pairwise (fun a b => a.2 < b.1)) (hb : ∀ s ∈ ss, start ≤ s.1 ∧ s.2 ≤ n) (hn : start ≤ n) :
    GapChain n start ss := by
  induction ss generalizing start with
  | nil => exact hn
  | cons s t ih =>
    rw [List.pairwise_cons] at hp
    refine ⟨(hb s (by simp)).1, hf.cons.1, ih s.2 hf.cons.2 hp.2 ?_ (hb s (by simp)).2⟩
    intro u hu
    have := hp.1 u hu
    exact ⟨by omega, (hb u (by simp [hu])).2⟩

theorem gapChain_le {n start : Int} {ss : List Seg} (h : GapChain n start ss) : start ≤ n := by
  induction ss generalizing start with
  | nil => exact h
  | cons s t ih => have := ih h.2.2; have := h.1; have := h.2.1; omega

theorem invertFrom_nil (start n : Int) :
    invertFrom start n [] = if start ≠ n then [(start, n)] else [] := by simp [invertFrom]

theorem invertFrom_cons (start n : Int) (s : Seg) (t : List Seg) :
    invertFrom start n (s :: t) = (if start ≠ s.1 then [(start, s.1)] else []) ++ invertFrom s.2 n t := by
  simp [invertFrom]

/-- every gap is a non-empty forward segment inside `[start, n]` -/
theorem invertFrom_bounds (n : Int) (ss : List Seg) (start : Int) (h : GapChain n start ss) :
    ∀ g ∈ invertFrom start n ss, start ≤ g.1 ∧ g.1 < g.2 ∧ g.2 ≤ n := by
  induction ss generalizing start with
  | nil =>
    intro g hg
    have hle : start ≤ n := h
    rw [invertFrom_nil] at hg
    split at hg
    · simp at hg; subst hg; simp; omega
    · simp at hg
  | cons s t ih =>
    intro g hg
    obtain ⟨h1, h2, h3⟩ := h
    have hle := gapChain_le h3
    rw [invertFrom_cons, List.mem_append] at hg
    rcases hg with hg | hg
    · split at hg
      · simp at hg; subst hg; simp; omega
      · simp at hg
    · have := ih s.2 h3 g hg; omega

/-- gaps are pairwise disjoint, in increasing order (they may abut across a zero-length segment) -/
theorem invertFrom_pairwise (n : Int) (ss : List Seg) (start : Int) (h : GapChain n start ss) :
    (invertFrom start n ss).Pairwise (fun a b => a.2 ≤ b.1) := by
  induction ss generalizing start with
  | nil => rw [invertFrom_nil]; split <;> simp
  | cons s t ih =>
    obtain ⟨h1, h2, h3⟩ := h
    rw [invertFrom_cons, List.pairwise_append]
    refine ⟨by split <;> simp, ih s.2 h3, ?_⟩
    intro a ha b hb
    have := invertFrom_bounds n t s.2 h3 b hb
    split at ha
    · simp at ha; subst ha; simp; omega
    · simp at ha

/-- … and never abut when no segment is zero-length -/
theorem invertFrom_pairwise_strict (n : Int) (ss : List Seg) (start : Int) (h : GapChain n start ss)
    (hne : ∀ s ∈ ss, s.1 < s.2) : (invertFrom start n ss).Pairwise (fun a b => a.2 < b.1) := by
  induction ss generalizing start with
  | nil => rw [invertFrom_nil]; split <;> simp
  | cons s t ih =>
    obtain ⟨h1, h2, h3⟩ := h
    rw [invertFrom_cons, List.pairwise_append]
    refine ⟨by split <;> simp, ih s.2 h3 (fun u hu => hne u (by simp [hu])), ?_⟩
    intro a ha b hb
    have := invertFrom_bounds n t s.2 h3 b hb
    have := hne s (by simp)
    split at ha
    · simp at ha; subst ha; simp; omega
    · simp at ha

/-- nothing lies below the walk position -/
theorem invertFrom_count_below (n : Int) (ss : List Seg) (start : Int) (h : GapChain n start ss)
    (x : Int) (hx : x < start) : coverCount ss x = 0 ∧ coverCount (invertFrom start n ss) x = 0 := by
  induction ss generalizing start with
  | nil =>
    refine ⟨rfl, ?_⟩
    rw [invertFrom_nil]; split
    · rw [coverCount_cons]; simp; omega
    · rfl
  | cons s t ih =>
    obtain ⟨h1, h2, h3⟩ := h
    have := ih s.2 h3 (by omega)
    rw [invertFrom_cons, coverCount_append, coverCount_cons, this.1, this.2]
    constructor
    · simp; omega
    · split
      · rw [coverCount_cons]; simp; omega
      · rfl

/-- nothing lies at or above `n` -/
theorem invertFrom_count_above (n : Int) (ss : List Seg) (start : Int) (h : GapChain n start ss)
    (x : Int) (hx : n ≤ x) : coverCount ss x = 0 ∧ coverCount (invertFrom start n ss) x = 0 := by
  induction ss generalizing start with
  | nil =>
    refine ⟨rfl, ?_⟩
    rw [invertFrom_nil]; split
    · rw [coverCount_cons]; simp; omega
    · rfl
  | cons s t ih =>
    obtain ⟨h1, h2, h3⟩ := h
    have := ih s.2 h3
    have hle := gapChain_le h3
    rw [invertFrom_cons, coverCount_append, coverCount_cons, this.1, this.2]
    constructor
    · simp; omega
    · split
      · rw [coverCount_cons]; simp; omega
      · rfl

theorem coverCount_gap (start e x : Int) :
    coverCount (if start ≠ e then [(start, e)] else []) x = if start ≤ x ∧ x < e then 1 else 0 := by
  split
  · rw [coverCount_cons]; simp
  · rw [if_neg (by omega)]; rfl

/-- THE PARTITION: every position of `[start, n)` lies in exactly one segment or gap -/
theorem invertFrom_count (n : Int) (ss : List Seg) (start : Int) (h : GapChain n start ss)
    (x : Int) (h0 : start ≤ x) (h1 : x < n) :
    coverCount ss x + coverCount (invertFrom start n ss) x = 1 := by
  induction ss generalizing start with
  | nil =>
    rw [invertFrom_nil, coverCount_gap, if_pos (by omega)]; rfl
  | cons s t ih =>
    obtain ⟨g1, g2, g3⟩ := h
    rw [invertFrom_cons, coverCount_append, coverCount_cons, coverCount_gap]
    by_cases hx : x < s.2
    · have hb := invertFrom_count_below n t s.2 g3 x hx
      rw [hb.1, hb.2]
      split <;> split <;> omega
    · have := ih s.2 g3 (by omega)
      split <;> split <;> omega

/-! ### the last gap (`InvertCircular`) -/

/-- where the gap walk stands after the last segment -/
def lastHi : Int → List Seg → Int
  | start, [] => start
  | _, s :: t => lastHi s.2 t

theorem invertFrom_last (n : Int) (ss : List Seg) (start : Int) (h : lastHi start ss ≠ n) :
    ∃ init, invertFrom start n ss = init ++ [(lastHi start ss, n)] := by
  induction ss generalizing start with
  | nil =>
    refine ⟨[], ?_⟩
    simp only [lastHi] at h ⊢
    rw [invertFrom_nil, if_pos h]; rfl
  | cons s t ih =>
    obtain ⟨init, hi⟩ := ih s.2 h
    refine ⟨(if start ≠ s.1 then [(start, s.1)] else []) ++ init, ?_⟩
    rw [invertFrom_cons, hi]
    simp [lastHi]

theorem getLast?_lastHi (s : Seg) (t : List Seg) (l : Seg) (h : (s :: t).getLast? = some l) :
    l.2 = lastHi s.2 t := by
  induction t generalizing s with
  | nil => simp at h; subst h; rfl
  | cons u t ih =>
    rw [List.getLast?_cons_cons] at h
    simpa [lastHi] using ih u h

/-! ### regions made of plain segments -/

/-- a segment list as a list of `Segment` regions (what `InvertLinear` returns) -/
def asRegs (l : List Seg) : List Reg := l.map fun s => seg s.1 s.2

@[simp] theorem leavesList_asRegs (l : List Seg) : leavesList (asRegs l) = l := by
  induction l with
  | nil => rfl
  | cons a l ih =>
    have : asRegs (a :: l) = seg a.1 a.2 :: asRegs l := rfl
    rw [this, leavesList_cons, ih]; simp

theorem invertLinear_eq (r : Reg) (n : Int) : invertLinear r n = asRegs (invertFrom 0 n (minimize r)) := rfl

theorem leaves_invertLinear (r : Reg) (n : Int) :
    leaves (many (invertLinear r n)) = invertFrom 0 n (minimize r) := by
  rw [invertLinear_eq, leaves_many, leavesList_asRegs]

/-- cover of a region whose leaves are forward -/
theorem cover_of_fwd_leaves (r : Reg) (hf : Fwd (leaves r)) (x : Int) : cover r x ↔ segsCover (leaves r) x := by
  simp only [cover, segsCover]
  constructor
  · rintro ⟨s, hs, hx⟩; have := hf s hs; exact ⟨s, hs, by omega⟩
  · rintro ⟨s, hs, hx⟩; have := hf s hs; exact ⟨s, hs, by omega⟩

/-- cover only depends on the leaves as a multiset -/
theorem cover_perm {r r' : Reg} (h : (leaves r).Perm (leaves r')) (x : Int) : cover r x ↔ cover r' x := by
  simp only [cover]
  constructor
  · rintro ⟨s, hs, hx⟩; exact ⟨s, h.subset hs, hx⟩
  · rintro ⟨s, hs, hx⟩; exact ⟨s, h.symm.subset hs, hx⟩

/-! ### `Complement` reverses the flattened list -/

theorem flattenList_append (a b : List Reg) : flattenList (a ++ b) = flattenList a ++ flattenList b := by
  induction a with
  | nil => simp
  | cons r rs ih => simp [ih]

mutual
theorem flatten_complement : ∀ r : Reg, flatten (complement r) = (flatten r).reverse
  | .seg h t => by
    simp only [complement, flatten]
    split <;> split <;> simp <;> omega
  | .many rs => by
    simp only [complement, flatten_many]
    rw [flattenList_complementRev rs []]; simp
theorem flattenList_complementRev : ∀ (rs acc : List Reg),
    flattenList (complementRev rs acc) = (flattenList rs).reverse ++ flattenList acc
  | [], acc => by simp [complementRev]
  | r :: rs, acc => by
    simp only [complementRev]
    rw [flattenList_complementRev rs (complement r :: acc)]
    simp [flatten_complement r]
end

/-! ### facts about `minimize` used by the property theorems -/

theorem mem_flatten {r : Reg} {s : Seg} : s ∈ flatten r ↔ ∃ u ∈ leaves r, orient u = s := by
  rw [flatten_eq_map, List.mem_map]

theorem flattenList_asRegs (l : List Seg) : flattenList (asRegs l) = l.map orient := by
  induction l with
  | nil => rfl
  | cons a l ih =>
    have : asRegs (a :: l) = seg a.1 a.2 :: asRegs l := rfl
    rw [this, flattenList_cons, ih, flatten_seg]; rfl

theorem minimize_mem_flatten_lo (r : Reg) : ∀ o ∈ minimize r, ∃ s ∈ flatten r, s.1 = o.1 := by
  intro o ho
  rw [minimize_eq] at ho
  obtain ⟨⟨s, hs, h⟩, _⟩ := mergeList_ends _ o ho
  exact ⟨s, (sortSegs_perm _).subset hs, h⟩

theorem minimize_mem_flatten_hi (r : Reg) : ∀ o ∈ minimize r, ∃ s ∈ flatten r, s.2 = o.2 := by
  intro o ho
  rw [minimize_eq] at ho
  obtain ⟨_, ⟨s, hs, h⟩⟩ := mergeList_ends _ o ho
  exact ⟨s, (sortSegs_perm _).subset hs, h⟩

theorem minimize_fwd (r : Reg) : Fwd (minimize r) := by
  rw [minimize_eq]; exact mergeList_fwd _ (sorted_flatten_fwd r)

theorem minimize_pairwise (r : Reg) : (minimize r).Pairwise (fun a b => a.2 < b.1) := by
  rw [minimize_eq]; exact mergeList_pairwise _ (sorted_flatten_lo r)

theorem minimize_segsCover (r : Reg) (x : Int) : segsCover (minimize r) x ↔ cover r x := by
  rw [minimize_eq, mergeList_cover _ (sorted_flatten_fwd r) (sorted_flatten_lo r),
    segsCover_perm (sortSegs_perm _), cover_iff_flatten]

theorem minimize_within (r : Reg) (n : Int) (hw : within n r) : ∀ o ∈ minimize r, 0 ≤ o.1 ∧ o.2 ≤ n := by
  intro o ho
  obtain ⟨s, hs, h1⟩ := minimize_mem_flatten_lo r o ho
  obtain ⟨t, ht, h2⟩ := minimize_mem_flatten_hi r o ho
  obtain ⟨u, hu, rfl⟩ := mem_flatten.mp hs
  obtain ⟨v, hv, rfl⟩ := mem_flatten.mp ht
  have := hw u hu
  have := hw v hv
  rw [orient_fst] at h1
  rw [orient_snd] at h2
  omega

theorem minimize_ne_nil (r : Reg) (h : leaves r ≠ []) : minimize r ≠ [] := by
  rw [minimize_eq]
  apply mergeList_ne_nil
  intro h0
  have hp := sortSegs_perm (flatten r)
  rw [h0] at hp
  have := hp.symm.eq_nil
  rw [flatten_eq_map] at this
  exact h (List.map_eq_nil_iff.mp this)

theorem minimize_nil_of (r : Reg) (h : leaves r = []) : minimize r = [] := by
  rw [minimize_eq, flatten_eq_map, h]; rfl

/-- a strictly increasing list of forward segments contains every position at most once -/
theorem coverCount_le_one (l : List Seg) (hf : Fwd l) (hp : l.Pairwise (fun a b => a.2 < b.1))
    (x : Int) : coverCount l x ≤ 1 := by
  induction l with
  | nil => simp
  | cons a t ih =>
    rw [List.pairwise_cons] at hp
    rw [coverCount_cons]
    split
    · rename_i hx
      have : coverCount t x = 0 := by
        rw [coverCount_eq_zero_iff]
        rintro ⟨s, hs, hx'⟩
        have := hp.1 s hs; omega
      omega
    · have := ih hf.cons.2 hp.2; omega

/-! ### cover = the positions `Region.Locate` reads -/

theorem mem_fwd {xs : List Int} {x : Int} {b : Bool} : (x, b) ∈ fwd xs ↔ x ∈ xs ∧ b = false := by
  simp only [fwd, List.mem_map, Prod.mk.injEq]
  constructor
  · rintro ⟨y, hy, rfl, rfl⟩; exact ⟨hy, rfl⟩
  · rintro ⟨hx, rfl⟩; exact ⟨x, hx, rfl, rfl⟩

theorem mem_flipDen {d : List Pos} {x : Int} {b : Bool} : (x, b) ∈ flipDen d ↔ (x, !b) ∈ d := by
  simp only [flipDen, List.mem_map, List.mem_reverse, Prod.mk.injEq]
  constructor
  · rintro ⟨⟨y, c⟩, hy, rfl, rfl⟩; simpa using hy
  · intro h; exact ⟨(x, !b), h, rfl, by simp⟩

theorem den_seg_iff (h t x : Int) :
    (∃ b, (x, b) ∈ den (seg h t)) ↔ (min h t ≤ x ∧ x < max h t) := by
  simp only [den]
  split
  · constructor
    · rintro ⟨b, hb⟩
      rw [mem_flipDen, mem_fwd, mem_irange] at hb; omega
    · intro hx
      refine ⟨true, ?_⟩
      rw [mem_flipDen, mem_fwd, mem_irange]; simp; omega
  · constructor
    · rintro ⟨b, hb⟩
      rw [mem_fwd, mem_irange] at hb; omega
    · intro hx
      refine ⟨false, ?_⟩
      rw [mem_fwd, mem_irange]; simp; omega

mutual
theorem den_iff_leaves : ∀ (r : Reg) (x : Int),
    (∃ b, (x, b) ∈ den r) ↔ ∃ s ∈ leaves r, min s.1 s.2 ≤ x ∧ x < max s.1 s.2
  | .seg h t, x => by rw [den_seg_iff]; simp
  | .many rs, x => by
    have := denList_iff_leaves rs x
    simpa [den] using this
theorem denList_iff_leaves : ∀ (rs : List Reg) (x : Int),
    (∃ b, (x, b) ∈ denList rs) ↔ ∃ s ∈ leavesList rs, min s.1 s.2 ≤ x ∧ x < max s.1 s.2
  | [], x => by simp [denList]
  | r :: rs, x => by
    have h1 := den_iff_leaves r x
    have h2 := denList_iff_leaves rs x
    simp only [denList, List.mem_append, leavesList_cons]
    constructor
    · rintro ⟨b, hb | hb⟩
      · obtain ⟨s, hs, hx⟩ := h1.mp ⟨b, hb⟩; exact ⟨s, Or.inl hs, hx⟩
      · obtain ⟨s, hs, hx⟩ := h2.mp ⟨b, hb⟩; exact ⟨s, Or.inr hs, hx⟩
    · rintro ⟨s, hs | hs, hx⟩
      · obtain ⟨b, hb⟩ := h1.mpr ⟨s, hs, hx⟩; exact ⟨b, Or.inl hb⟩
      · obtain ⟨b, hb⟩ := h2.mpr ⟨s, hs, hx⟩; exact ⟨b, Or.inr hb⟩
end

/-- a position is covered iff `Region.Locate` reads it (on either strand) -/
theorem cover_iff_den (r : Reg) (x : Int) : cover r x ↔ ∃ b, (x, b) ∈ den r :=
  (den_iff_leaves r x).symm

end Gts
