/-
  The wrap-around window of `gts.Slice` (`end < start`): the position map of the window
  `[a, L) ++ [0, b)` and its factorisation into the rotation by `-a` (C04) followed by the forward
  window `[0, L-a+b)` (C03).  Core Lean only.
-/
import Gts.Lemmas.Window
namespace Gts

/-- the position map of the wrap-around window `[a, L) ++ [0, b)` of a record of length `L`:
a residue inside the window moves to `(x - a) mod L`, a residue outside is cut -/
def wrapMap (a b L : Int) (x : Int) : Option Int :=
  if (a ≤ x ∧ x < L) ∨ (0 ≤ x ∧ x < b) then some ((x - a) % L) else none

/-- piecewise form: the tail `[a, L)` comes first (`x - a`), the head `[0, b)` behind it
(`x + (L - a)`) -/
theorem wrapMap_cases (a b L x : Int) (hb : 0 ≤ b) (hba : b < a) (haL : a ≤ L) :
    wrapMap a b L x =
      if a ≤ x ∧ x < L then some (x - a) else if 0 ≤ x ∧ x < b then some (x + (L - a)) else none := by
  unfold wrapMap
  by_cases h1 : a ≤ x ∧ x < L
  · rw [if_pos (Or.inl h1), if_pos h1, Int.emod_eq_of_lt (by omega) (by omega)]
  · rw [if_neg h1]
    by_cases h2 : 0 ≤ x ∧ x < b
    · rw [if_pos (Or.inr h2), if_pos h2]
      have : x - a = (x + (L - a)) + (-1) * L := by omega
      rw [this, Int.add_mul_emod_self_right, Int.emod_eq_of_lt (by omega) (by omega)]
    · rw [if_neg h2, if_neg (by omega)]

/-- rotation by `-a`, then the forward window `[0, L-a+b)`, is the wrap-around window map -/
theorem winMap_rotMap (a b L x : Int) (hb : 0 ≤ b) (hba : b < a) (haL : a ≤ L)
    (h0 : 0 ≤ x) (hx : x < L) :
    winMap 0 (L - a + b) (rotMap (-a) L x) = wrapMap a b L x := by
  rw [wrapMap_cases a b L x hb hba haL]
  unfold winMap rotMap
  by_cases h1 : a ≤ x
  · have e : (x + -a) % L = x - a := by
      rw [Int.emod_eq_of_lt (by omega) (by omega)]; omega
    rw [e, if_pos (show 0 ≤ x - a ∧ x - a < L - a + b by omega), if_pos ⟨h1, hx⟩]; congr 1; omega
  · have e : (x + -a) % L = x + (L - a) := by
      have : x + -a = (x + (L - a)) + (-1) * L := by omega
      rw [this, Int.add_mul_emod_self_right, Int.emod_eq_of_lt (by omega) (by omega)]
    rw [e, if_neg (show ¬ (a ≤ x ∧ x < L) by omega)]
    by_cases h2 : x < b
    · rw [if_pos (show 0 ≤ x + (L - a) ∧ x + (L - a) < L - a + b by omega), if_pos ⟨h0, h2⟩]
      congr 1; omega
    · rw [if_neg (show ¬ (0 ≤ x + (L - a) ∧ x + (L - a) < L - a + b) by omega),
        if_neg (show ¬ (0 ≤ x ∧ x < b) by omega)]

theorem filterMapPos_mapPos (f : Int → Option Int) (g : Int → Int) (d : List Pos) :
    filterMapPos f (mapPos g d) = filterMapPos (fun x => f (g x)) d := by
  simp only [filterMapPos, mapPos, List.filterMap_map, Function.comp_def]

/-- … on a residue list inside the record -/
theorem filterMapPos_wrap (a b L : Int) (hb : 0 ≤ b) (hba : b < a) (haL : a ≤ L) (d : List Pos)
    (hd : ∀ p ∈ d, 0 ≤ p.1 ∧ p.1 < L) :
    filterMapPos (winMap 0 (L - a + b)) (mapPos (rotMap (-a) L) d) = filterMapPos (wrapMap a b L) d := by
  rw [filterMapPos_mapPos]
  exact Loc.filterMapPos_congr fun p hp => winMap_rotMap a b L p.1 hb hba haL (hd p hp).1 (hd p hp).2

namespace Loc

theorem rangeOverlap_of_point (s e lo hi q : Int) (h1 : s ≤ q) (h2 : q < e) (h3 : lo ≤ q) (h4 : q < hi) :
    rangeOverlap s e lo hi = true := by
  unfold rangeOverlap
  rw [if_neg (by omega), if_neg (by omega)]
  simp only [Bool.and_eq_true, decide_eq_true_eq]
  omega

mutual
/-- a location denoting a residue inside `[lo, hi)` passes the overlap test of `Slice`
(`LocationOverlap`); the same fact as `Gts.Cli.overlap_of_den`, which lives above `Props/C03` -/
theorem overlap_of_mem_den : ∀ (l : Loc) (lo hi : Int), wf l = true → ∀ p ∈ den l, lo ≤ p.1 → p.1 < hi →
    overlap l lo hi = true
  | between _, _, _, _, p, hp, _, _ => by simp [Loc.den] at hp
  | point q, lo, hi, _, p, hp, h3, h4 => by
      simp only [Loc.den, List.mem_singleton] at hp
      subst hp
      exact rangeOverlap_of_point q (q + 1) lo hi q (by omega) (by omega) h3 h4
  | ranged s e _ _, lo, hi, _, p, hp, h3, h4 => by
      simp only [Loc.den, fwd, List.mem_map] at hp
      obtain ⟨x, hx, rfl⟩ := hp
      have := mem_irange.mp hx
      exact rangeOverlap_of_point s e lo hi x (by omega) (by omega) h3 h4
  | ambiguous s e, lo, hi, _, p, hp, h3, h4 => by
      simp only [Loc.den, fwd, List.mem_map] at hp
      obtain ⟨x, hx, rfl⟩ := hp
      have := mem_irange.mp hx
      exact rangeOverlap_of_point s e lo hi x (by omega) (by omega) h3 h4
  | joined ls, lo, hi, hw, p, hp, h3, h4 => by
      simp only [overlap]
      exact overlapAny_of_mem_denList ls lo hi (by simpa [wf] using hw) p (by simpa [Loc.den] using hp) h3 h4
  | ordered ls, lo, hi, hw, p, hp, h3, h4 => by
      simp only [overlap]
      exact overlapAny_of_mem_denList ls lo hi (by simpa [wf] using hw) p (by simpa [Loc.den] using hp) h3 h4
  | compl l, lo, hi, hw, p, hp, h3, h4 => by
      simp only [overlap]
      simp only [Loc.den, flipDen, List.mem_map, List.mem_reverse] at hp
      obtain ⟨q, hq, rfl⟩ := hp
      exact overlap_of_mem_den l lo hi (by simpa [wf] using hw) q hq h3 h4
theorem overlapAny_of_mem_denList : ∀ (ls : List Loc) (lo hi : Int), wfList ls = true → ∀ p ∈ denList ls,
    lo ≤ p.1 → p.1 < hi → overlapAny ls lo hi = true
  | [], _, _, _, p, hp, _, _ => by simp [Loc.denList] at hp
  | l :: ls, lo, hi, hw, p, hp, h3, h4 => by
      simp only [wfList_cons, Bool.and_eq_true] at hw
      simp only [denList_cons, List.mem_append] at hp
      simp only [overlapAny, Bool.or_eq_true]
      rcases hp with hp | hp
      · exact Or.inl (overlap_of_mem_den l lo hi hw.1 p hp h3 h4)
      · exact Or.inr (overlapAny_of_mem_denList ls lo hi hw.2 p hp h3 h4)
end

end Loc

end Gts
