/-
  C11 — REFINEMENT of `asCompleteMem` (Gts/Model/Mem.lean), the one function that writes through a
  location slice: on every readable value — whatever it shares with other values or with itself —
  the result reads as `Loc.asComplete`, and the only thing that changes anywhere in the heap is
  that cells get COMPLETED (partial markers erased): `Erased h h'`.

  No separation hypothesis is needed: `asComplete` is idempotent, so a cell that is reached twice
  (two windows over one array, a part that occurs twice) is completed twice with the same outcome.
-/
import Gts.Lemmas.MemLocRefine
namespace Gts.Mem
open Heap

/-! ### pointwise relations between lists, by index -/

/-- `ys` has the length of `xs` and is related to it position by position -/
def PW {α β : Type} (R : α → β → Prop) (xs : List α) (ys : List β) : Prop :=
  ys.length = xs.length ∧ ∀ (p : Nat) x y, xs[p]? = some x → ys[p]? = some y → R x y

theorem PW.nil {α β : Type} {R : α → β → Prop} : PW R [] [] := ⟨rfl, fun p x y h => by simp at h⟩

theorem PW.cons {α β : Type} {R : α → β → Prop} {x : α} {y : β} {xs : List α} {ys : List β}
    (h1 : R x y) (h2 : PW R xs ys) : PW R (x :: xs) (y :: ys) := by
  refine ⟨by simp [h2.1], fun p a b ha hb => ?_⟩
  cases p with
  | zero => simp at ha hb; subst ha hb; exact h1
  | succ p => exact h2.2 p a b (by simpa using ha) (by simpa using hb)

theorem PW.uncons {α β : Type} {R : α → β → Prop} {x : α} {xs : List α} {ys' : List β}
    (h : PW R (x :: xs) ys') : ∃ y ys, ys' = y :: ys ∧ R x y ∧ PW R xs ys := by
  cases ys' with
  | nil => have := h.1; simp at this
  | cons y ys =>
    refine ⟨y, ys, rfl, h.2 0 x y rfl rfl, by have := h.1; simp at this; exact this, ?_⟩
    intro p a b ha hb
    exact h.2 (p + 1) a b (by simpa using ha) (by simpa using hb)

theorem PW.nil_left {α β : Type} {R : α → β → Prop} {ys : List β} (h : PW R [] ys) : ys = [] :=
  List.eq_nil_of_length_eq_zero (by simpa using h.1)

theorem PW.drop {α β : Type} {R : α → β → Prop} {xs : List α} {ys : List β} (h : PW R xs ys) (k : Nat) :
    PW R (xs.drop k) (ys.drop k) := by
  refine ⟨by simp [h.1], fun p a b ha hb => ?_⟩
  rw [List.getElem?_drop] at ha hb
  exact h.2 _ a b ha hb

theorem PW.take {α β : Type} {R : α → β → Prop} {xs : List α} {ys : List β} (h : PW R xs ys) (n : Nat) :
    PW R (xs.take n) (ys.take n) := by
  refine ⟨by simp [h.1], fun p a b ha hb => ?_⟩
  rw [List.getElem?_take] at ha hb
  split at ha
  · rw [if_pos ‹_›] at hb; exact h.2 _ a b ha hb
  · cases ha

theorem PW.refl {α : Type} {R : α → α → Prop} (hr : ∀ x, R x x) (xs : List α) : PW R xs xs :=
  ⟨rfl, fun p x y hx hy => by rw [hx] at hy; cases hy; exact hr x⟩

/-! ### completion of cells, erasure of heaps -/

/-- what `asComplete` makes of a cell: values are completed, `Joined` / `Ordered` headers stay (their
ARRAYS are rewritten) -/
def cellComplete : MLoc → MLoc
  | .leaf l => .leaf l.asComplete
  | .compl m => .compl (cellComplete m)
  | .joined s => .joined s
  | .ordered s => .ordered s

mutual
theorem asComplete_idem : ∀ l : Loc, l.asComplete.asComplete = l.asComplete
  | .between _ => rfl
  | .point _ => rfl
  | .ranged .. => rfl
  | .ambiguous .. => rfl
  | .joined ls => by simp only [Loc.asComplete, asCompleteList_idem ls]
  | .ordered ls => by simp only [Loc.asComplete, asCompleteList_idem ls]
  | .compl l => by simp only [Loc.asComplete, asComplete_idem l]
theorem asCompleteList_idem : ∀ ls : List Loc,
    Loc.asCompleteList (Loc.asCompleteList ls) = Loc.asCompleteList ls
  | [] => rfl
  | l :: ls => by simp only [Loc.asCompleteList, asComplete_idem l, asCompleteList_idem ls]
end

theorem cellComplete_idem : ∀ m : MLoc, cellComplete (cellComplete m) = cellComplete m
  | .leaf l => by simp only [cellComplete, asComplete_idem]
  | .compl m => by simp only [cellComplete, cellComplete_idem m]
  | .joined _ => rfl
  | .ordered _ => rfl

/-- a cell is as it was, or completed -/
def CellE (c c' : MLoc) : Prop := c' = c ∨ c' = cellComplete c

theorem CellE.refl (c : MLoc) : CellE c c := Or.inl rfl

theorem CellE.trans {a b c : MLoc} (h1 : CellE a b) (h2 : CellE b c) : CellE a c := by
  rcases h1 with rfl | rfl
  · exact h2
  · rcases h2 with rfl | rfl
    · exact Or.inr rfl
    · exact Or.inr (cellComplete_idem a)

/-- completing a cell that is as it was or completed gives the completed cell -/
theorem CellE.complete {a b : MLoc} (h : CellE a b) : CellE a (cellComplete b) := by
  rcases h with rfl | rfl
  · exact Or.inr rfl
  · exact Or.inr (cellComplete_idem a)

/-- `h'` is `h` with some cells completed: same arrays, same lengths, every cell as it was or
completed -/
def Erased (h h' : LHeap) : Prop := ∀ a, PW CellE (h.get a) (h'.get a)

theorem Erased.refl (h : LHeap) : Erased h h := fun _ => PW.refl CellE.refl _

theorem Erased.trans {h1 h2 h3 : LHeap} (e1 : Erased h1 h2) (e2 : Erased h2 h3) : Erased h1 h3 := by
  intro a
  refine ⟨(e2 a).1.trans (e1 a).1, fun p x z hx hz => ?_⟩
  have hp : p < (h1.get a).length := by
    apply Decidable.byContradiction; intro hn
    rw [List.getElem?_eq_none (by omega)] at hx; cases hx
  obtain ⟨y, hy⟩ : ∃ y, (h2.get a)[p]? = some y := by
    have : p < (h2.get a).length := by rw [(e1 a).1]; exact hp
    exact ⟨_, List.getElem?_eq_getElem this⟩
  exact ((e1 a).2 p x y hx hy).trans ((e2 a).2 p y z hy hz)

theorem Erased.read {h h' : LHeap} (e : Erased h h') (s : Slice) : PW CellE (read h s) (read h' s) :=
  ((e s.arr).drop s.off).take s.len

theorem Erased.wf {h h' : LHeap} (e : Erased h h') {s : Slice} (hw : WF h s) : WF h' s := by
  unfold WF at hw ⊢
  rw [(e s.arr).1]
  exact hw

/-- storing into an existing cell something that is the ORIGINAL cell as it was or completed -/
theorem Erased.store {h h1 : LHeap} (e : Erased h h1) (a pos : Nat) (x : MLoc)
    (hpos : pos < (h1.get a).length) (hx : ∀ c0, (h.get a)[pos]? = some c0 → CellE c0 x) :
    Erased h (write h1 a pos [x]) := by
  intro b
  by_cases hab : a = b
  · subst hab
    have ha : a < h1.length := by
      apply Decidable.byContradiction; intro hn
      rw [get_of_le (by omega)] at hpos; simp at hpos
    rw [get_write_eq _ _ _ ha]
    refine ⟨by rw [length_overwrite _ _ _ (by simp; omega)]; exact (e a).1, fun p c c' hc hc' => ?_⟩
    rw [getElem?_overwrite _ _ _ (Nat.le_of_lt hpos)] at hc'
    split at hc'
    · exact (e a).2 p c c' hc hc'
    · split at hc'
      · have : p = pos := by simp at *; omega
        subst this
        simp at hc'
        subst hc'
        exact hx c hc
      · exact (e a).2 p c c' hc hc'
  · rw [get_write_ne _ _ _ hab]
    exact e b

/-! ### erasure of location values -/

mutual
/-- `l'` is `l` with some of its contiguous parts completed -/
def Er : Loc → Loc → Prop
  | .joined ls, .joined ls' => ErList ls ls'
  | .ordered ls, .ordered ls' => ErList ls ls'
  | .compl l, .compl l' => Er l l'
  | .joined _, _ => False
  | .ordered _, _ => False
  | .compl _, _ => False
  | l, l' => l' = l ∨ l' = l.asComplete
def ErList : List Loc → List Loc → Prop
  | [], [] => True
  | l :: ls, l' :: ls' => Er l l' ∧ ErList ls ls'
  | _, _ => False
end

theorem er_contig {l l' : Loc} (hl : isContig l = true) : Er l l' ↔ l' = l ∨ l' = l.asComplete := by
  cases l <;> simp [isContig] at hl <;> simp [Er]

theorem er_joined {ls : List Loc} {l' : Loc} : Er (.joined ls) l' ↔ ∃ ls', l' = .joined ls' ∧ ErList ls ls' := by
  cases l' <;> simp [Er]

theorem er_ordered {ls : List Loc} {l' : Loc} : Er (.ordered ls) l' ↔ ∃ ls', l' = .ordered ls' ∧ ErList ls ls' := by
  cases l' <;> simp [Er]

theorem er_compl {l l' : Loc} : Er (.compl l) l' ↔ ∃ l1, l' = .compl l1 ∧ Er l l1 := by
  cases l' <;> simp [Er]

theorem erList_cons_left {l : Loc} {ls ls' : List Loc} :
    ErList (l :: ls) ls' ↔ ∃ l1 ls1, ls' = l1 :: ls1 ∧ Er l l1 ∧ ErList ls ls1 := by
  cases ls' with
  | nil => simp [ErList]
  | cons a b =>
    simp only [ErList]
    constructor
    · intro ⟨x, y⟩; exact ⟨_, _, rfl, x, y⟩
    · rintro ⟨l1, ls1, e, x, y⟩; cases e; exact ⟨x, y⟩

theorem erList_nil_left {ls' : List Loc} : ErList [] ls' ↔ ls' = [] := by
  cases ls' <;> simp [ErList]

theorem asComplete_contig {l : Loc} (hl : isContig l = true) :
    isContig l.asComplete = true := by
  cases l <;> simp [isContig] at hl <;> rfl

mutual
/-- an erasure has the same completion … -/
theorem Er.asComplete_eq : ∀ (l l' : Loc), Er l l' → l'.asComplete = l.asComplete
  | .joined ls, l', h => by
    obtain ⟨ls', rfl, h'⟩ := er_joined.1 h
    simp only [Loc.asComplete, ErList.asComplete_eq ls ls' h']
  | .ordered ls, l', h => by
    obtain ⟨ls', rfl, h'⟩ := er_ordered.1 h
    simp only [Loc.asComplete, ErList.asComplete_eq ls ls' h']
  | .compl l, l', h => by
    obtain ⟨l1, rfl, h'⟩ := er_compl.1 h
    simp only [Loc.asComplete, Er.asComplete_eq l l1 h']
  | .between _, l', h => by rcases (er_contig rfl).1 h with rfl | rfl <;> rfl
  | .point _, l', h => by rcases (er_contig rfl).1 h with rfl | rfl <;> rfl
  | .ranged .., l', h => by rcases (er_contig rfl).1 h with rfl | rfl <;> rfl
  | .ambiguous .., l', h => by rcases (er_contig rfl).1 h with rfl | rfl <;> rfl
theorem ErList.asComplete_eq : ∀ (ls ls' : List Loc), ErList ls ls' →
    Loc.asCompleteList ls' = Loc.asCompleteList ls
  | [], ls', h => by rw [erList_nil_left.1 h]
  | l :: ls, ls', h => by
    obtain ⟨l1, ls1, rfl, h1, h2⟩ := erList_cons_left.1 h
    simp only [Loc.asCompleteList, Er.asComplete_eq l l1 h1, ErList.asComplete_eq ls ls1 h2]
end

mutual
/-- … the same depth … -/
theorem Er.mdepth_eq : ∀ (l l' : Loc), Er l l' → mdepth l' = mdepth l
  | .joined ls, l', h => by
    obtain ⟨ls', rfl, h'⟩ := er_joined.1 h
    simp only [mdepth, ErList.mdepth_eq ls ls' h']
  | .ordered ls, l', h => by
    obtain ⟨ls', rfl, h'⟩ := er_ordered.1 h
    simp only [mdepth, ErList.mdepth_eq ls ls' h']
  | .compl l, l', h => by
    obtain ⟨l1, rfl, h'⟩ := er_compl.1 h
    simp only [mdepth, Er.mdepth_eq l l1 h']
  | .between _, l', h => by rcases (er_contig rfl).1 h with rfl | rfl <;> rfl
  | .point _, l', h => by rcases (er_contig rfl).1 h with rfl | rfl <;> rfl
  | .ranged .., l', h => by rcases (er_contig rfl).1 h with rfl | rfl <;> rfl
  | .ambiguous .., l', h => by rcases (er_contig rfl).1 h with rfl | rfl <;> rfl
theorem ErList.mdepth_eq : ∀ (ls ls' : List Loc), ErList ls ls' → mdepthList ls' = mdepthList ls
  | [], ls', h => by rw [erList_nil_left.1 h]
  | l :: ls, ls', h => by
    obtain ⟨l1, ls1, rfl, h1, h2⟩ := erList_cons_left.1 h
    simp only [mdepthList, Er.mdepth_eq l l1 h1, ErList.mdepth_eq ls ls1 h2]
end

mutual
/-- … and a complete value has no erasure but itself -/
theorem Er.of_complete : ∀ (l l' : Loc), Er l l' → l.asComplete = l → l' = l
  | .joined ls, l', h, hc => by
    obtain ⟨ls', rfl, h'⟩ := er_joined.1 h
    simp only [Loc.asComplete, Loc.joined.injEq] at hc
    rw [ErList.of_complete ls ls' h' hc]
  | .ordered ls, l', h, hc => by
    obtain ⟨ls', rfl, h'⟩ := er_ordered.1 h
    simp only [Loc.asComplete, Loc.ordered.injEq] at hc
    rw [ErList.of_complete ls ls' h' hc]
  | .compl l, l', h, hc => by
    obtain ⟨l1, rfl, h'⟩ := er_compl.1 h
    simp only [Loc.asComplete, Loc.compl.injEq] at hc
    rw [Er.of_complete l l1 h' hc]
  | .between _, l', h, _ => by rcases (er_contig rfl).1 h with rfl | rfl <;> rfl
  | .point _, l', h, _ => by rcases (er_contig rfl).1 h with rfl | rfl <;> rfl
  | .ranged .., l', h, hc => by
    rcases (er_contig rfl).1 h with rfl | rfl
    · rfl
    · exact hc
  | .ambiguous .., l', h, _ => by rcases (er_contig rfl).1 h with rfl | rfl <;> rfl
theorem ErList.of_complete : ∀ (ls ls' : List Loc), ErList ls ls' → Loc.asCompleteList ls = ls → ls' = ls
  | [], ls', h, _ => erList_nil_left.1 h
  | l :: ls, ls', h, hc => by
    obtain ⟨l1, ls1, rfl, h1, h2⟩ := erList_cons_left.1 h
    simp only [Loc.asCompleteList, List.cons.injEq] at hc
    rw [Er.of_complete l l1 h1 hc.1, ErList.of_complete ls ls1 h2 hc.2]
end

/-! ### reading through an erasure -/

theorem cellE_leaf {l : Loc} {c' : MLoc} (h : CellE (.leaf l) c') : c' = .leaf l ∨ c' = .leaf l.asComplete := h

mutual
/-- a readable cell, in a heap where cells got completed, still reads — as an erasure of what it
read — whether the cell itself was completed or not -/
theorem Reads.erased {h h' : LHeap} (e : Erased h h') : ∀ (l : Loc) (c c' : MLoc), Reads h l c →
    CellE c c' → ∃ l', Reads h' l' c' ∧ Er l l'
  | .joined ls, c, c', hr, hc => by
    obtain ⟨s, rfl, hw, hl⟩ := reads_joined.1 hr
    have hc' : c' = .joined s := by rcases hc with h1 | h1 <;> exact h1
    subst hc'
    obtain ⟨ls', h1, h2⟩ := ReadsList.erased e ls (read h s) (read h' s) hl (e.read s)
    exact ⟨.joined ls', reads_joined.2 ⟨s, rfl, e.wf hw, h1⟩, er_joined.2 ⟨ls', rfl, h2⟩⟩
  | .ordered ls, c, c', hr, hc => by
    obtain ⟨s, rfl, hw, hl⟩ := reads_ordered.1 hr
    have hc' : c' = .ordered s := by rcases hc with h1 | h1 <;> exact h1
    subst hc'
    obtain ⟨ls', h1, h2⟩ := ReadsList.erased e ls (read h s) (read h' s) hl (e.read s)
    exact ⟨.ordered ls', reads_ordered.2 ⟨s, rfl, e.wf hw, h1⟩, er_ordered.2 ⟨ls', rfl, h2⟩⟩
  | .compl l, c, c', hr, hc => by
    obtain ⟨m, rfl, hl⟩ := reads_compl.1 hr
    obtain ⟨m', rfl, hm⟩ : ∃ m', c' = .compl m' ∧ CellE m m' := by
      rcases hc with h1 | h1
      · exact ⟨m, h1, CellE.refl m⟩
      · exact ⟨cellComplete m, h1, Or.inr rfl⟩
    obtain ⟨l1, h1, h2⟩ := Reads.erased e l m m' hl hm
    exact ⟨.compl l1, reads_compl.2 ⟨m', rfl, h1⟩, er_compl.2 ⟨l1, rfl, h2⟩⟩
  | .between p, c, c', hr, hc => by
    rw [reads_contig rfl] at hr; subst hr
    rcases cellE_leaf hc with rfl | rfl
    · exact ⟨_, (reads_contig rfl).2 rfl, (er_contig rfl).2 (Or.inl rfl)⟩
    · exact ⟨_, (reads_contig (asComplete_contig rfl)).2 rfl, (er_contig rfl).2 (Or.inr rfl)⟩
  | .point p, c, c', hr, hc => by
    rw [reads_contig rfl] at hr; subst hr
    rcases cellE_leaf hc with rfl | rfl
    · exact ⟨_, (reads_contig rfl).2 rfl, (er_contig rfl).2 (Or.inl rfl)⟩
    · exact ⟨_, (reads_contig (asComplete_contig rfl)).2 rfl, (er_contig rfl).2 (Or.inr rfl)⟩
  | .ranged s e' p5 p3, c, c', hr, hc => by
    rw [reads_contig rfl] at hr; subst hr
    rcases cellE_leaf hc with rfl | rfl
    · exact ⟨_, (reads_contig rfl).2 rfl, (er_contig rfl).2 (Or.inl rfl)⟩
    · exact ⟨_, (reads_contig (asComplete_contig rfl)).2 rfl, (er_contig rfl).2 (Or.inr rfl)⟩
  | .ambiguous s e', c, c', hr, hc => by
    rw [reads_contig rfl] at hr; subst hr
    rcases cellE_leaf hc with rfl | rfl
    · exact ⟨_, (reads_contig rfl).2 rfl, (er_contig rfl).2 (Or.inl rfl)⟩
    · exact ⟨_, (reads_contig (asComplete_contig rfl)).2 rfl, (er_contig rfl).2 (Or.inr rfl)⟩
theorem ReadsList.erased {h h' : LHeap} (e : Erased h h') : ∀ (ls : List Loc) (cs cs' : List MLoc),
    ReadsList h ls cs → PW CellE cs cs' → ∃ ls', ReadsList h' ls' cs' ∧ ErList ls ls'
  | [], cs, cs', hr, hp => by
    rw [readsList_nil_left] at hr; subst hr
    rw [hp.nil_left]
    exact ⟨[], by simp [ReadsList], by simp [ErList]⟩
  | l :: ls, cs, cs', hr, hp => by
    obtain ⟨c, cs1, rfl, h1, h2⟩ := readsList_cons_left.1 hr
    obtain ⟨c', cs1', rfl, hc, hp'⟩ := hp.uncons
    obtain ⟨l1, r1, e1⟩ := Reads.erased e l c c' h1 hc
    obtain ⟨ls1, r2, e2⟩ := ReadsList.erased e ls cs1 cs1' h2 hp'
    exact ⟨l1 :: ls1, readsList_cons.2 ⟨r1, r2⟩, erList_cons_left.2 ⟨_, _, rfl, e1, e2⟩⟩
end

/-- a value that reads as a COMPLETE location reads the same after any erasure -/
theorem Reads.erased_complete {h h' : LHeap} (e : Erased h h') {l : Loc} {c c' : MLoc}
    (hr : Reads h l.asComplete c) (hc : CellE c c') : Reads h' l.asComplete c' := by
  obtain ⟨l', h1, h2⟩ := Reads.erased e _ c c' hr hc
  rw [Er.of_complete _ _ h2 (asComplete_idem l)] at h1
  exact h1

theorem ReadsList.erased_complete {h h' : LHeap} (e : Erased h h') {ls : List Loc} {cs cs' : List MLoc}
    (hr : ReadsList h (Loc.asCompleteList ls) cs) (hp : PW CellE cs cs') :
    ReadsList h' (Loc.asCompleteList ls) cs' := by
  obtain ⟨ls', h1, h2⟩ := ReadsList.erased e _ cs cs' hr hp
  rw [ErList.of_complete _ _ h2 (asCompleteList_idem ls)] at h1
  exact h1

/-! ### `asCompleteMem` -/

theorem asCompleteList_append : ∀ (a b : List Loc),
    Loc.asCompleteList (a ++ b) = Loc.asCompleteList a ++ Loc.asCompleteList b
  | [], b => rfl
  | x :: a, b => by simp only [List.cons_append, Loc.asCompleteList, asCompleteList_append a b]

theorem mdepth_pos (l : Loc) : 1 ≤ mdepth l := by cases l <;> simp [mdepth]

theorem mdepthList_le {l : Loc} {ls : List Loc} (h : l ∈ ls) : mdepth l ≤ mdepthList ls := by
  induction ls with
  | nil => cases h
  | cons a as ih =>
    simp only [mdepthList]
    rcases List.mem_cons.1 h with e | e
    · subst e; exact Nat.le_max_left ..
    · exact Nat.le_trans (ih e) (Nat.le_max_right ..)

/-- what `asCompleteMem` guarantees with enough fuel -/
def ACSpec (k : Nat) : Prop :=
  ∀ l h m, mdepth l ≤ k → Reads h l m →
    Erased h (asCompleteMem k h m).2 ∧ Reads (asCompleteMem k h m).2 l.asComplete (asCompleteMem k h m).1 ∧
    (asCompleteMem k h m).1 = cellComplete m

/-- the loop `for i, u := range v { v[i] = asComplete(u) }` over a readable window -/
theorem acLoop_spec {k : Nat} (hrec : ACSpec k) {h : LHeap} {s : Slice} (hw : WF h s) {ls : List Loc}
    (hl : ReadsList h ls (read h s)) (hk : ∀ l ∈ ls, mdepth l ≤ k) (ltodo : List Loc) :
    ∀ (ldone : List Loc) (hc : LHeap), ls = ldone ++ ltodo → Erased h hc →
      ReadsList hc (Loc.asCompleteList ldone) ((read hc s).take ldone.length) →
      Erased h (acLoop (asCompleteMem k) s ltodo.length ldone.length hc) ∧
      ReadsList (acLoop (asCompleteMem k) s ltodo.length ldone.length hc) (Loc.asCompleteList ls)
        (read (acLoop (asCompleteMem k) s ltodo.length ldone.length hc) s) := by
  have hlen : ls.length = s.len := by rw [hl.length_eq, length_read hw]
  induction ltodo with
  | nil =>
    intro ldone hc e he hd
    simp only [List.append_nil] at e
    subst e
    simp only [List.length_nil, acLoop]
    refine ⟨he, ?_⟩
    have : (read hc s).length ≤ ls.length := by rw [length_read (he.wf hw), hlen]; exact Nat.le_refl _
    rw [List.take_of_length_le this] at hd
    exact hd
  | cons li rest ih =>
    intro ldone hc e he hd
    have hi : ldone.length < s.len := by rw [← hlen, e]; simp
    have hwc := he.wf hw
    -- the original cell and the current one
    obtain ⟨u0, hu0⟩ : ∃ u0, (read h s)[ldone.length]? = some u0 :=
      ⟨_, List.getElem?_eq_getElem (by rw [length_read hw]; exact hi)⟩
    obtain ⟨u, hu⟩ : ∃ u, (read hc s)[ldone.length]? = some u :=
      ⟨_, List.getElem?_eq_getElem (by rw [length_read hwc]; exact hi)⟩
    have hld : load hc s ldone.length = some u := by rw [load_eq_read hi]; exact hu
    have hcell : CellE u0 u := (he.read s).2 _ u0 u hu0 hu
    -- the original cell reads as `li`
    have hru0 : Reads h li u0 := by
      have hd' := ReadsList.drop ldone.length hl
      rw [e, List.drop_left] at hd'
      have hx : (read h s).drop ldone.length = u0 :: (read h s).drop (ldone.length + 1) := by
        have hlt : ldone.length < (read h s).length := by rw [length_read hw]; exact hi
        rw [List.getElem?_eq_getElem hlt] at hu0
        cases hu0
        exact List.drop_eq_getElem_cons hlt
      rw [hx] at hd'
      exact (readsList_cons.1 hd').1
    obtain ⟨li', hru, her⟩ := Reads.erased he li u0 u hru0 hcell
    have hdep : mdepth li' ≤ k := by
      rw [Er.mdepth_eq li li' her]; exact hk li (by rw [e]; simp)
    have sp := hrec li' hc u hdep hru
    rw [Er.asComplete_eq li li' her] at sp
    -- the store
    simp only [List.length_cons, acLoop, hld]
    generalize hr : asCompleteMem k hc u = r at sp
    have hpos : s.off + ldone.length < (r.2.get s.arr).length := by
      have := (sp.1.wf hwc).2
      have := (sp.1.wf hwc).1
      omega
    have hcellc : (hc.get s.arr)[s.off + ldone.length]? = some u := by
      rw [getElem?_read, if_pos hi] at hu; exact hu
    have hcell0 : (h.get s.arr)[s.off + ldone.length]? = some u0 := by
      rw [getElem?_read, if_pos hi] at hu0; exact hu0
    have e1 : Erased h (store r.2 s ldone.length r.1) := by
      refine (he.trans sp.1).store _ _ _ hpos fun c0 hc0 => ?_
      rw [hcell0] at hc0; cases hc0
      rw [sp.2.2]; exact hcell.complete
    have e2 : Erased hc (store r.2 s ldone.length r.1) := by
      refine sp.1.store _ _ _ hpos fun c0 hc0 => ?_
      rw [hcellc] at hc0; cases hc0
      rw [sp.2.2]; exact Or.inr rfl
    have e3 : Erased r.2 (store r.2 s ldone.length r.1) := by
      refine (Erased.refl r.2).store _ _ _ hpos fun v hv => ?_
      have hcv : CellE u v := (sp.1 s.arr).2 _ u v hcellc hv
      rw [sp.2.2]
      rcases hcv with rfl | rfl
      · exact Or.inr rfl
      · exact Or.inl rfl
    -- what the window shows after the store
    have hrd : (read (store r.2 s ldone.length r.1) s)[ldone.length]? = some r.1 := by
      rw [getElem?_read, if_pos hi]
      unfold store
      have ha : s.arr < r.2.length := by
        apply Decidable.byContradiction; intro hn
        rw [get_of_le (by omega)] at hpos; simp at hpos
      rw [get_write_eq _ _ _ ha, getElem?_overwrite _ _ _ (Nat.le_of_lt hpos)]
      simp
    have hwn := e1.wf hw
    have htake : (read (store r.2 s ldone.length r.1) s).take (ldone.length + 1)
        = (read (store r.2 s ldone.length r.1) s).take ldone.length ++ [r.1] := by
      rw [List.take_add_one, hrd]; rfl
    have hdone : ReadsList (store r.2 s ldone.length r.1) (Loc.asCompleteList (ldone ++ [li]))
        ((read (store r.2 s ldone.length r.1) s).take (ldone.length + 1)) := by
      rw [htake, asCompleteList_append]
      refine ReadsList.append (ReadsList.erased_complete e2 hd ((e2.read s).take _)) ?_
      simp only [Loc.asCompleteList]
      exact readsList_singleton.2 (Reads.erased_complete e3 sp.2.1 (CellE.refl _))
    have := ih (ldone ++ [li]) _ (by simp [e]) e1 (by simpa using hdone)
    simpa using this

/-- **`asCompleteMem` with enough fuel**: only completions happen in the heap, the result reads as
`Loc.asComplete`, and the value returned is the completed cell (same slice headers) -/
theorem asCompleteMem_spec : ∀ k, ACSpec k := by
  intro k
  induction k with
  | zero => intro l h m hd _; have := mdepth_pos l; omega
  | succ k ih =>
    intro l h m hd hr
    cases m with
    | leaf l' =>
      obtain ⟨e, hc⟩ := reads_leaf.1 hr
      subst e
      simp only [asCompleteMem, cellComplete]
      exact ⟨Erased.refl h, (reads_contig (asComplete_contig hc)).2 rfl, trivial⟩
    | joined s =>
      obtain ⟨ls, e, hw, hl⟩ := reads_mjoined hr
      subst e
      simp only [mdepth] at hd
      have hlen := length_read hw
      have := acLoop_spec ih hw hl (fun l hlm => Nat.le_trans (mdepthList_le hlm) (by omega)) ls [] h
        rfl (Erased.refl h) (by simp [Loc.asCompleteList, ReadsList])
      have hls : ls.length = s.len := by rw [hl.length_eq, hlen]
      simp only [List.length_nil, hls] at this
      simp only [asCompleteMem, cellComplete, Loc.asComplete]
      exact ⟨this.1, reads_joined.2 ⟨s, rfl, this.1.wf hw, this.2⟩, trivial⟩
    | ordered s =>
      obtain ⟨ls, e, hw, hl⟩ := reads_mordered hr
      subst e
      simp only [mdepth] at hd
      have hlen := length_read hw
      have := acLoop_spec ih hw hl (fun l hlm => Nat.le_trans (mdepthList_le hlm) (by omega)) ls [] h
        rfl (Erased.refl h) (by simp [Loc.asCompleteList, ReadsList])
      have hls : ls.length = s.len := by rw [hl.length_eq, hlen]
      simp only [List.length_nil, hls] at this
      simp only [asCompleteMem, cellComplete, Loc.asComplete]
      exact ⟨this.1, reads_ordered.2 ⟨s, rfl, this.1.wf hw, this.2⟩, trivial⟩
    | compl m' =>
      obtain ⟨l1, e, hl⟩ := reads_mcompl hr
      subst e
      simp only [mdepth] at hd
      have sp := ih l1 h m' (by omega) hl
      simp only [asCompleteMem, cellComplete, Loc.asComplete]
      exact ⟨sp.1, reads_compl.2 ⟨_, rfl, sp.2.1⟩, by rw [sp.2.2]⟩

end Gts.Mem
