/-
  `LocationList.Push` / `Join` preserve the denoted residues (set and order) unless the
  known-finding rule K2 fires.  Core Lean only.
-/
import Gts.Lemmas.Basic
import Gts.Spec.Guard
namespace Gts
namespace Loc

mutual
/-- every `Ranged` (what `PartialRange` enforces) and every `Ambiguous` has `Start < End` -/
def wf : Loc → Bool
  | ranged s e _ _ => decide (s < e)
  | ambiguous s e => decide (s < e)
  | joined ls => wfList ls
  | ordered ls => wfList ls
  | compl l => wf l
  | _ => true
def wfList : List Loc → Bool
  | [] => true
  | l :: ls => wf l && wfList ls
end

@[simp] theorem wfList_nil : wfList [] = true := by simp [wfList]
@[simp] theorem wfList_cons (l : Loc) (ls : List Loc) : wfList (l :: ls) = (wf l && wfList ls) := by
  simp [wfList]

theorem wfList_append (a b : List Loc) : wfList (a ++ b) = (wfList a && wfList b) := by
  induction a with
  | nil => simp
  | cons x xs ih => simp [ih, Bool.and_assoc]

theorem wfList_reverse (a : List Loc) : wfList a.reverse = wfList a := by
  induction a with
  | nil => simp
  | cons x xs ih => simp [wfList_append, ih, Bool.and_comm]

@[simp] theorem denList_nil : denList [] = [] := by simp [denList]
@[simp] theorem denList_cons (l : Loc) (ls : List Loc) : denList (l :: ls) = den l ++ denList ls := by
  simp [denList]

theorem denList_append (a b : List Loc) : denList (a ++ b) = denList a ++ denList b := by
  induction a with
  | nil => simp
  | cons x xs ih => simp [ih]

/-- denotation of a reversed accumulator -/
def denR (racc : List Loc) : List Pos := denList racc.reverse

@[simp] theorem denR_nil : denR [] = [] := by simp [denR]
@[simp] theorem denR_cons (x : Loc) (racc : List Loc) : denR (x :: racc) = denR racc ++ den x := by
  simp [denR, denList_append]

@[simp] theorem den_between (p : Int) : den (between p) = [] := by simp [den]
@[simp] theorem den_point (p : Int) : den (point p) = [(p, false)] := by simp [den]
@[simp] theorem den_ranged (s e : Int) (a b : Bool) : den (ranged s e a b) = fwd (irange s (e - s).toNat) := by
  simp [den]
@[simp] theorem den_ambiguous (s e : Int) : den (ambiguous s e) = fwd (irange s (e - s).toNat) := by
  simp [den]
@[simp] theorem den_joined (ls : List Loc) : den (joined ls) = denList ls := by simp [den]
@[simp] theorem den_ordered (ls : List Loc) : den (ordered ls) = denList ls := by simp [den]
@[simp] theorem den_compl (l : Loc) : den (compl l) = flipDen (den l) := by simp [den]

/-- what a push function must satisfy (the induction hypothesis for the lower nesting level) -/
structure PushOK (low : List Loc → Loc → Bool → List Loc) (lowAbs : List Loc → Loc → Bool → Bool) :
    Prop where
  den : ∀ racc x f, wfList racc = true → wf x = true → lowAbs racc x f = false →
      denR (low racc x f) ≼ (denR racc ++ Loc.den x)
  wf : ∀ racc x f, wfList racc = true → wf x = true → wfList (low racc x f) = true

theorem fold_ok {low lowAbs} (h : PushOK low lowAbs) (f : Bool) :
    ∀ (ys racc : List Loc), wfList racc = true → wfList ys = true →
      (foldAbs low lowAbs f racc ys = false →
        denR (ys.foldl (fun acc y => low acc y f) racc) ≼ (denR racc ++ denList ys)) ∧
      wfList (ys.foldl (fun acc y => low acc y f) racc) = true := by
  intro ys
  induction ys with
  | nil => intro racc hr _; simp [hr, Refines.refl]
  | cons y ys ih =>
    intro racc hr hys
    simp only [wfList_cons, Bool.and_eq_true] at hys
    have hw := h.wf racc y f hr hys.1
    have := ih (low racc y f) hw hys.2
    refine ⟨?_, this.2⟩
    intro ha
    simp only [foldAbs, Bool.or_eq_false_iff] at ha
    simp only [List.foldl_cons, denList_cons]
    have h1 := this.1 ha.2
    have h2 := h.den racc y f hr hys.1 ha.1
    rw [← List.append_assoc]
    exact h1.trans (h2.append_right _)

theorem fwd_irange_merge (vs ve ue : Int) (h1 : vs < ve) (h2 : ve < ue) :
    fwd (irange vs (ve - vs).toNat) ++ fwd (irange ve (ue - ve).toNat) = fwd (irange vs (ue - vs).toNat) := by
  rw [← fwd_append]
  congr 1
  have : ve = vs + ((ve - vs).toNat : Int) := by omega
  have e2 : irange ve (ue - ve).toNat = irange (vs + ((ve - vs).toNat : Int)) (ue - ve).toNat := by
    rw [← this]
  rw [e2, irange_append]
  congr 1
  omega

theorem point_in_ranged (us ue : Int) (h : us < ue) :
    fwd (irange us (ue - us).toNat) ≼ ((us, false) :: fwd (irange us (ue - us).toNat)) := by
  apply Refines.drop_dup_left
  simp only [fwd, List.mem_map]
  exact ⟨us, mem_irange.mpr ⟨by omega, by omega⟩, rfl⟩


/-- the inner join of the complemented-pair rule -/
theorem inner_den (j : List Loc) : den (ofParts j) = denList j := by
  match j with
  | [] => simp [ofParts]
  | [a] => simp [ofParts]
  | _ :: _ :: _ => simp [ofParts]

theorem inner_wf (j : List Loc) (h : wfList j = true) : wf (ofParts j) = true := by
  match j, h with
  | [], _ => simp [ofParts, wf]
  | [a], h => simpa [ofParts] using h
  | a :: b :: r, h => simpa [ofParts, wf] using h

theorem compl_case {low lowAbs} (h : PushOK low lowAbs) (rest : List Loc) (vl ul : Loc) (f : Bool)
    (hrest : wfList rest = true) (hv : wf vl = true) (hx : wf ul = true) :
    (absOne low lowAbs (compl vl :: rest) (compl ul) f = false →
      denR (pushOne low (compl vl :: rest) (compl ul) f) ≼ (denR (compl vl :: rest) ++ den (compl ul))) ∧
    wfList (pushOne low (compl vl :: rest) (compl ul) f) = true := by
  have hw1 : wfList (low [ul] vl f) = true := h.wf [ul] vl f (by simp [hx]) hv
  have hw1r : wfList (low [ul] vl f).reverse = true := by rw [wfList_reverse]; exact hw1
  have hf := fold_ok h true (low [ul] vl f).reverse [] (by simp) hw1r
  simp only [pushOne, absOne, denR_cons, wfList_cons, den_compl, Bool.or_eq_false_iff]
  refine ⟨?_, ?_⟩
  · rintro ⟨ha1, ha2⟩
    rw [inner_den]
    have h1 := h.den [ul] vl f (by simp [hx]) hv ha1
    have h2 := hf.1 ha2
    simp only [denR_nil, List.nil_append] at h2
    have h3 : denList ((low [ul] vl f).reverse) = denR (low [ul] vl f) := rfl
    rw [h3] at h2
    have h4 : denR (List.foldl (fun acc y => low acc y true) [] (low [ul] vl f).reverse) ≼
        (den ul ++ den vl) := by
      have := h2.trans h1
      simpa using this
    have h5 := h4.flip
    rw [flipDen_append] at h5
    rw [List.append_assoc]
    exact Refines.append_left _ h5
  · rw [hrest, Bool.and_true]
    show wf (ofParts _) = true
    apply inner_wf
    rw [wfList_reverse]
    exact hf.2

theorem pushOne_ok {low lowAbs} (h : PushOK low lowAbs) (racc : List Loc) (x : Loc) (f : Bool)
    (hr : wfList racc = true) (hx : wf x = true) :
    (absOne low lowAbs racc x f = false →
      denR (pushOne low racc x f) ≼ (denR racc ++ den x)) ∧
    wfList (pushOne low racc x f) = true := by
  cases racc with
  | nil => simp [pushOne, hx, Refines.refl]
  | cons v rest =>
    simp only [wfList_cons, Bool.and_eq_true] at hr
    obtain ⟨hv, hrest⟩ := hr
    by_cases hcc : (∃ vl ul, v = compl vl ∧ x = compl ul)
    · obtain ⟨vl, ul, rfl, rfl⟩ := hcc
      exact compl_case h rest vl ul f hrest (by simpa [wf] using hv) (by simpa [wf] using hx)
    · cases v <;> cases x <;>
        (first | (exfalso; exact hcc ⟨_, _, rfl, rfl⟩) | skip) <;>
        simp only [pushOne, absOne, denR_cons, wfList_cons, den_between, den_point, den_ranged,
          den_ambiguous, den_joined, den_ordered, den_compl, List.append_nil, hx, hv, hrest,
          Bool.and_self, and_true, Refines.refl, implies_true] <;>
        try (split <;> simp_all [Refines.refl, wf])
      · -- point, point (equal)
        exact Refines.append_left _ (Refines.drop_dup_left _ _ (by simp))
      · -- point, ranged (point = start)
        exact Refines.append_left _ (point_in_ranged _ _ hx)
      · -- ranged, ranged (merge)
        rename_i vs ve v5 v3 us ue u5 u3 hm
        refine ⟨?_, by omega⟩
        rw [fwd_irange_merge vs us ue hv hx]
        exact Refines.refl _

mutual
theorem pushW_ok {low lowAbs} (h : PushOK low lowAbs) :
    ∀ (x : Loc) (racc : List Loc) (f : Bool), wfList racc = true → wf x = true →
      (absW low lowAbs racc x f = false → denR (pushW low racc x f) ≼ (denR racc ++ den x)) ∧
      wfList (pushW low racc x f) = true
  | joined parts, racc, f, hr, hx => by
      have := pushListW_ok h parts racc f hr (by simpa [wf] using hx)
      simpa [pushW, absW] using this
  | between p, racc, f, hr, hx => by simpa [pushW, absW] using pushOne_ok h racc (between p) f hr hx
  | point p, racc, f, hr, hx => by simpa [pushW, absW] using pushOne_ok h racc (point p) f hr hx
  | ranged s e a b, racc, f, hr, hx => by
      simpa [pushW, absW] using pushOne_ok h racc (ranged s e a b) f hr hx
  | ambiguous s e, racc, f, hr, hx => by
      simpa [pushW, absW] using pushOne_ok h racc (ambiguous s e) f hr hx
  | ordered ls, racc, f, hr, hx => by
      simpa [pushW, absW] using pushOne_ok h racc (ordered ls) f hr hx
  | compl l, racc, f, hr, hx => by simpa [pushW, absW] using pushOne_ok h racc (compl l) f hr hx
theorem pushListW_ok {low lowAbs} (h : PushOK low lowAbs) :
    ∀ (ps : List Loc) (racc : List Loc) (f : Bool), wfList racc = true → wfList ps = true →
      (absListW low lowAbs racc ps f = false →
        denR (pushListW low racc ps f) ≼ (denR racc ++ denList ps)) ∧
      wfList (pushListW low racc ps f) = true
  | [], racc, f, hr, _ => by simp [pushListW, hr, Refines.refl]
  | p :: ps, racc, f, hr, hps => by
      simp only [wfList_cons, Bool.and_eq_true] at hps
      have h1 := pushW_ok h p racc f hr hps.1
      have h2 := pushListW_ok h ps (pushW low racc p f) f h1.2 hps.2
      refine ⟨?_, by simpa [pushListW] using h2.2⟩
      intro ha
      simp only [absListW, Bool.or_eq_false_iff] at ha
      simp only [pushListW, denList_cons]
      rw [← List.append_assoc]
      exact (h2.1 ha.2).trans ((h1.1 ha.1).append_right _)
end

theorem pushD_ok : ∀ d, PushOK (pushD d) (absD d)
  | 0 => ⟨fun racc x f _ _ _ => by simp [pushD, Refines.refl],
          fun racc x f hr hx => by simp [pushD, hr, hx]⟩
  | d + 1 => ⟨fun racc x f hr hx ha => (pushW_ok (pushD_ok d) x racc f hr hx).1 ha,
              fun racc x f hr hx => (pushW_ok (pushD_ok d) x racc f hr hx).2⟩

/-- **Join preserves meaning**: unless rule K2 fires, `Join(xs...)` denotes the residues of its
arguments, in order, with duplicate occurrences possibly dropped. -/
theorem joinD_den (d : Nat) (xs : List Loc) (hw : wfList xs = true) (ha : joinAbsD d xs = false) :
    den (joinD d xs) ≼ denList xs := by
  have := (fold_ok (pushD_ok d) true xs [] (by simp) hw).1 ha
  simpa [joinD, inner_den, pushAllD, denR] using this

theorem joinD_wf (d : Nat) (xs : List Loc) (hw : wfList xs = true) : wf (joinD d xs) = true := by
  have := (fold_ok (pushD_ok d) true xs [] (by simp) hw).2
  apply inner_wf
  rw [wfList_reverse]
  exact this

theorem join_den (xs : List Loc) (hw : wfList xs = true) (ha : joinAbs xs = false) :
    den (join xs) ≼ denList xs := joinD_den _ xs hw ha

theorem join_wf (xs : List Loc) (hw : wfList xs = true) : wf (join xs) = true := joinD_wf _ xs hw

end Loc
end Gts
