/-
  C01, CRLF input: the ORIGIN block.  The CRLF translation of the block `NewOrigin` formats is
  longer than the `toOriginLength(length)` bytes the reader requests; the fast path
  (`validateOrigin`) meets a carriage return where the first line's line feed should stand and
  reports an error (no panic: the first line lies inside the requested bytes); the slow path
  (`slowGenBankOriginParser`, `pars.Line` per line) then rebuilds exactly the written block and stops
  behind its last CR LF, whatever follows.  On top of the C16 lemmas (`Lemmas/Origin.lean`).
  Core Lean only.
-/
import Gts.Lemmas.GbCrlfTable
import Gts.Lemmas.GbSafeOrigin

namespace Gts.Origin
open Gts.Pars (Bytes Err P)

theorem fmtGroupsS_noEOL (f j : Nat) (q : Bytes) (hq : printable q) : noEOL (fmtGroupsS f j q) := by
  induction f generalizing j q with
  | zero => intro c hc; simp [fmtGroupsS] at hc
  | succ f ih =>
    unfold fmtGroupsS
    split
    · exact noEOL_cons (by decide) (noEOL_append (fun c hc => isBase_noEOL (hq c (List.mem_of_mem_take hc)))
        (ih _ _ (fun c hc => hq c (List.mem_of_mem_drop hc))))
    · intro c hc; simp at hc

/-- the slow path on the CRLF translation of a formatted block, followed by ANY text: the block as
written (LF line ends), the following text untouched -/
theorem slowLines_crlf_fmt (L cap : Nat) (hL : L < 10 ^ 9) (f f' i : Nat) (r tail acc : Bytes)
    (hr : r.length = L - i) (hf : r.length ≤ 60 * f) (hf' : r.length ≤ 60 * f') (hb : printable r)
    (hcap : acc.length + tl r.length ≤ cap) :
    slowLines (L : Int) cap f i (crlf (fmtLinesS f' i r) ++ tail) acc = .ok (acc ++ fmtLinesS f' i r, tail) := by
  induction f generalizing f' i r acc with
  | zero =>
    have : r = [] := List.eq_nil_of_length_eq_zero (by omega)
    subst this
    simp [slowLines, crlf]
  | succ f ih =>
    unfold slowLines
    by_cases hq : r = []
    · subst hq
      simp only [List.length_nil] at hr
      rw [if_neg (by omega)]
      simp [crlf]
    · have hpos : 0 < r.length := List.length_pos_iff.mpr hq
      rw [if_pos (by omega)]
      cases f' with
      | zero => omega
      | succ f' =>
        have hfmt : fmtLinesS (f' + 1) i r =
            (index9 (i + 1) ++ fmtGroupsS 6 0 r) ++ 10 :: fmtLinesS f' (i + 60) (r.drop 60) := by
          rw [fmtLinesS, if_pos hq]; simp
        have hn : noEOL (index9 (i + 1) ++ fmtGroupsS 6 0 r) :=
          noEOL_append (index9_noEOL _) (fmtGroupsS_noEOL 6 0 r hb)
        have hlnlen : (index9 (i + 1) ++ fmtGroupsS 6 0 r).length = 9 + gl (min r.length 60) := by
          simp only [List.length_append, index9_length (i + 1) (by omega), fmtGroupsS_length 6 0 r (by omega),
            Nat.reduceMul]
        have hw := walkLine_fmt .fail L i r [] hr hb
        simp only [List.append_nil] at hw
        generalize index9 (i + 1) ++ fmtGroupsS 6 0 r = ln at hfmt hn hlnlen hw
        rw [hfmt, crlf_append_no10 _ _ (fun c hc => (hn c hc).1)]
        simp only [crlf, if_true, List.append_assoc, List.cons_append]
        rw [splitLine_crlf_line _ _ hn]
        simp only
        rw [hw]
        simp only [allBlank, List.all_nil, Bool.not_true, Bool.false_eq_true, if_false,
          List.length_nil, Nat.sub_zero, List.take_length]
        have hstep := tl_step r.length hpos
        have hfit : (acc ++ ln).length < cap := by
          simp only [List.length_append]
          omega
        rw [List.take_of_length_le (by omega), if_pos hfit]
        rw [ih f' (i + 60) (r.drop 60) _ (by simp only [List.length_drop]; omega)
          (by simp only [List.length_drop]; omega) (by simp only [List.length_drop]; omega)
          (fun x hx => hb x (List.mem_of_mem_drop hx))
          (by
            simp only [List.length_append, List.length_cons, List.length_nil, List.length_drop]
            omega)]
        simp [List.append_assoc]

/-- the fast path on the first `toOriginLength(length)` bytes of the CRLF translation of a written,
non-empty block: an ERROR (a carriage return where the line feed of the first line should stand), not a
panic — the first line and the byte behind it lie inside the requested bytes -/
theorem validateOrigin_crlf_fail (p tail : Bytes) (hne : p ≠ []) (hb : printable p) (hL : p.length < 10 ^ 9) :
    validateOrigin ((crlf (originStream p) ++ tail).take (tl p.length)) p.length = .error .fail := by
  have hpos : 0 < p.length := List.length_pos_iff.mpr hne
  obtain ⟨k, hk⟩ : ∃ k, p.length = k + 1 := ⟨p.length - 1, by omega⟩
  have hn : noEOL (index9 (0 + 1) ++ fmtGroupsS 6 0 p) :=
    noEOL_append (index9_noEOL _) (fmtGroupsS_noEOL 6 0 p hb)
  have hlnlen : (index9 (0 + 1) ++ fmtGroupsS 6 0 p).length = 9 + gl (min p.length 60) := by
    simp only [List.length_append, index9_length (0 + 1) (by omega), fmtGroupsS_length 6 0 p (by omega),
      Nat.reduceMul]
  have hstep := tl_step p.length hpos
  have hfmt : originStream p =
      (index9 (0 + 1) ++ fmtGroupsS 6 0 p) ++ 10 :: fmtLinesS k (0 + 60) (p.drop 60) := by
    rw [originStream_eq_S, originStreamS, hk, fmtLinesS, if_pos hne]; simp
  obtain ⟨m, hm⟩ : ∃ m, tl p.length = (index9 (0 + 1) ++ fmtGroupsS 6 0 p).length + (m + 1) :=
    ⟨tl p.length - (index9 (0 + 1) ++ fmtGroupsS 6 0 p).length - 1, by omega⟩
  rw [hfmt, crlf_append_no10 _ _ (fun c hc => (hn c hc).1)]
  simp only [crlf, if_true]
  rw [List.append_assoc, hm, List.take_append, List.take_of_length_le (by omega)]
  simp only [Nat.add_sub_cancel_left, List.cons_append, List.take_succ_cons]
  unfold validateOrigin
  simp only [Int.toNat_natCast]
  rw [hk]
  unfold validateLines
  rw [if_pos (by omega), ← hk, List.append_assoc]
  rw [walkLine_fmt .panic p.length 0 p _ (by omega) hb]
  simp

end Gts.Origin

namespace Gts.GenBank
open Gts.Pars

/-- **ORIGIN, CRLF file**: the header line and the CRLF translation of the block written for
printable residues (at least one, fewer than 10^9), followed by ANY text that does not start with a
blank: the fast path reports an error, the slow path reads the block; the result is the written
block itself (LF line ends) — the same `Origin` as from the LF file. -/
theorem origin_roundtripC (p rest : Bytes) (stk : List Bytes) (hp : ∀ c ∈ p, Origin.isBase c = true)
    (hlen : p.length < 10 ^ 9) (hne : p ≠ []) (hrest : rest.head? ≠ some 32) :
    originField (p.length : Int) 12
        ⟨bs "ORIGIN      " ++ 13 :: 10 :: (Origin.crlf (Origin.originStream p) ++ rest), stk⟩ =
      (.ok (Origin.originStream p), ⟨rest, []⟩) := by
  have e : bs "ORIGIN      " ++ 13 :: 10 :: (Origin.crlf (Origin.originStream p) ++ rest) =
      bs "ORIGIN" ++ (sp (12 - (bs "ORIGIN").length) ++ ([] ++ 13 :: 10 :: (Origin.crlf (Origin.originStream p) ++ rest))) := by
    show _ = bs "ORIGIN" ++ (sp 6 ++ _)
    simp [bs, sp]
  rw [e]
  have hn := fun r s => fieldName_ok (bs "ORIGIN") 12 r s (by decide)
  have hline := fun s => line_okC [] (Origin.crlf (Origin.originStream p) ++ rest) s rfl
  have hl := Origin.originStream_length p hlen
  have hn0 : ¬ Origin.toOriginLength (p.length : Int) < 0 := by
    rw [Origin.toOriginLength_nat]; omega
  have htn : (Origin.toOriginLength (p.length : Int)).toNat = Origin.tl p.length := Origin.toNat_tl p.length
  have hge : ¬ ((Origin.crlf (Origin.originStream p)).length + rest.length < Origin.tl p.length) := by
    have := crlf_length_ge (Origin.originStream p)
    omega
  have hv := Origin.validateOrigin_crlf_fail p rest hne hp hlen
  have hslow : slowLines (p.length : Int) (Origin.tl p.length) p.length 0
      (Origin.crlf (Origin.originStream p) ++ rest) [] = .ok (Origin.originStream p, rest) := by
    rw [slowLines_eq, Origin.originStream_eq_S, Origin.originStreamS]
    have := Origin.slowLines_crlf_fmt p.length (Origin.tl p.length) hlen p.length p.length 0 p rest []
      (by omega) (by omega) (by omega) hp (by simp)
    simpa using this
  have hnext : attempt next ⟨rest, ([] : List Bytes)⟩ = (.ok rest.head?, ⟨rest, []⟩) := by
    cases rest with
    | nil => gsimp [next_nil]
    | cons c r => gsimp [next_cons]
  have hg : ¬ ((p.length : Int) > 1000000020) := by omega
  simp only [originField, P.bind_run, hn, hline, Pars.clear, getS, setS, P.pure_run, hg, hn0, if_false, htn,
    List.length_append, hge, hv, Int.toNat_natCast, hslow, hl, Nat.sub_self, List.replicate_zero,
    List.append_nil, hnext]

end Gts.GenBank
