/-
  Guest features of Insert/Embed/Concat: `Expand(0, k)` on non-negative coordinates is a
  translation by `k`.  Core Lean only.
-/
import Gts.Lemmas.Embed
namespace Gts
namespace Loc

mutual
/-- every coordinate is ≥ 0 -/
def nonneg : Loc → Bool
  | between p => decide (0 ≤ p)
  | point p => decide (0 ≤ p)
  | ranged s _ _ _ => decide (0 ≤ s)
  | ambiguous s _ => decide (0 ≤ s)
  | joined ls => nonnegList ls
  | ordered ls => nonnegList ls
  | compl l => nonneg l
def nonnegList : List Loc → Bool
  | [] => true
  | l :: ls => nonneg l && nonnegList ls
end

mutual
theorem expand0_eq_shift0 : ∀ (l : Loc) (k : Int), wf l = true → nonneg l = true → 0 ≤ k →
    expand l 0 k = shift l 0 k
  | between p, k, _, _, _ => by simp [expand, shift]
  | point p, k, _, _, _ => by simp [expand, shift]
  | ranged s e a b, k, hw, hn, hk => by
      have h : s < e := by simpa [wf] using hw
      have h0 : 0 ≤ s := by simpa [nonneg] using hn
      simp only [expand, shift]
      by_cases hk0 : k = 0
      · subst hk0; simp [rangedExpand, rangedShift]
      · have hkp : 0 < k := by omega
        have h1 : ¬ k < 0 := by omega
        have h2 : ¬ (s < 0 ∧ 0 < e) := by omega
        have h3 : (0:Int) ≤ s := h0
        have h4 : (0:Int) < e := by omega
        rw [rangedExpand_ins_eq s e a b 0 k h hkp]
        unfold rangedShift
        rw [if_neg hk0, if_neg h1, if_neg h2]
  | ambiguous s e, k, hw, hn, hk => by
      have h : s < e := by simpa [wf] using hw
      have h0 : 0 ≤ s := by simpa [nonneg] using hn
      simp only [expand, shift]
      by_cases hk0 : k = 0
      · subst hk0; simp [ambiguousExpand, ambiguousShift]
      · have hkp : 0 < k := by omega
        have h1 : ¬ k < 0 := by omega
        have h2 : ¬ (s < 0 ∧ 0 < e) := by omega
        rw [ambiguousExpand_ins_eq s e 0 k h hkp]
        unfold ambiguousShift
        rw [if_neg hk0, if_neg h1, if_neg h2]
  | joined ls, k, hw, hn, hk => by
      simp only [expand, shift]
      rw [expandList0_eq_shiftList0 ls k (by simpa [wf] using hw) (by simpa [nonneg] using hn) hk]
  | ordered ls, k, hw, hn, hk => by
      simp only [expand, shift]
      rw [expandList0_eq_shiftList0 ls k (by simpa [wf] using hw) (by simpa [nonneg] using hn) hk]
  | compl l, k, hw, hn, hk => by
      simp only [expand, shift]
      rw [expand0_eq_shift0 l k (by simpa [wf] using hw) (by simpa [nonneg] using hn) hk]
theorem expandList0_eq_shiftList0 : ∀ (ls : List Loc) (k : Int), wfList ls = true →
    nonnegList ls = true → 0 ≤ k → expandList ls 0 k = shiftList ls 0 k
  | [], _, _, _, _ => by simp [expandList, shiftList]
  | l :: ls, k, hw, hn, hk => by
      simp only [wfList_cons, Bool.and_eq_true] at hw
      simp only [nonnegList, Bool.and_eq_true] at hn
      simp only [expandList, shiftList]
      rw [expand0_eq_shift0 l k hw.1 hn.1 hk, expandList0_eq_shiftList0 ls k hw.2 hn.2 hk]
end

mutual
theorem den_nonneg : ∀ (l : Loc), wf l = true → nonneg l = true → ∀ p ∈ den l, 0 ≤ p.1
  | between _, _, _ => by simp
  | point q, _, hn => by
      have : 0 ≤ q := by simpa [nonneg] using hn
      simp; omega
  | ranged s e _ _, _, hn => by
      have h0 : 0 ≤ s := by simpa [nonneg] using hn
      intro p hp
      simp only [den_ranged, fwd, List.mem_map] at hp
      obtain ⟨x, hx, rfl⟩ := hp
      rw [mem_irange] at hx; simp; omega
  | ambiguous s e, _, hn => by
      have h0 : 0 ≤ s := by simpa [nonneg] using hn
      intro p hp
      simp only [den_ambiguous, fwd, List.mem_map] at hp
      obtain ⟨x, hx, rfl⟩ := hp
      rw [mem_irange] at hx; simp; omega
  | joined ls, hw, hn => by
      simpa using denList_nonneg ls (by simpa [wf] using hw) (by simpa [nonneg] using hn)
  | ordered ls, hw, hn => by
      simpa using denList_nonneg ls (by simpa [wf] using hw) (by simpa [nonneg] using hn)
  | compl l, hw, hn => by
      intro p hp
      simp only [den_compl, flipDen, List.mem_map, List.mem_reverse] at hp
      obtain ⟨q, hq, rfl⟩ := hp
      exact den_nonneg l (by simpa [wf] using hw) (by simpa [nonneg] using hn) q hq
theorem denList_nonneg : ∀ (ls : List Loc), wfList ls = true → nonnegList ls = true →
    ∀ p ∈ denList ls, 0 ≤ p.1
  | [], _, _ => by simp
  | l :: ls, hw, hn => by
      simp only [wfList_cons, Bool.and_eq_true] at hw
      simp only [nonnegList, Bool.and_eq_true] at hn
      intro p hp
      simp only [denList_cons, List.mem_append] at hp
      rcases hp with hp | hp
      · exact den_nonneg l hw.1 hn.1 p hp
      · exact denList_nonneg ls hw.2 hn.2 p hp
end

mutual
theorem shiftAbs0_eq : ∀ (l : Loc) (k : Int), wf l = true → nonneg l = true → 0 ≤ k →
    shiftAbs l 0 k = expandAbs l 0 k
  | between _, _, _, _, _ => by simp [shiftAbs, expandAbs]
  | point _, _, _, _, _ => by simp [shiftAbs, expandAbs]
  | ranged _ _ _ _, _, _, _, _ => by simp [shiftAbs, expandAbs]
  | ambiguous _ _, _, _, _, _ => by simp [shiftAbs, expandAbs]
  | joined ls, k, hw, hn, hk => by
      have hw' : wfList ls = true := by simpa [wf] using hw
      have hn' : nonnegList ls = true := by simpa [nonneg] using hn
      simp only [shiftAbs, expandAbs]
      rw [shiftAbsList0_eq ls k hw' hn' hk, expandList0_eq_shiftList0 ls k hw' hn' hk]
  | ordered ls, k, hw, hn, hk => by
      simp only [shiftAbs, expandAbs]
      exact shiftAbsList0_eq ls k (by simpa [wf] using hw) (by simpa [nonneg] using hn) hk
  | compl l, k, hw, hn, hk => by
      simp only [shiftAbs, expandAbs]
      exact shiftAbs0_eq l k (by simpa [wf] using hw) (by simpa [nonneg] using hn) hk
theorem shiftAbsList0_eq : ∀ (ls : List Loc) (k : Int), wfList ls = true → nonnegList ls = true →
    0 ≤ k → shiftAbsList ls 0 k = expandAbsList ls 0 k
  | [], _, _, _, _ => by simp [shiftAbsList, expandAbsList]
  | l :: ls, k, hw, hn, hk => by
      simp only [wfList_cons, Bool.and_eq_true] at hw
      simp only [nonnegList, Bool.and_eq_true] at hn
      simp only [shiftAbsList, expandAbsList]
      rw [shiftAbs0_eq l k hw.1 hn.1 hk, shiftAbsList0_eq ls k hw.2 hn.2 hk]
end

/-- Guest features are translated by the insertion index. -/
theorem guest_translate (l : Loc) (k : Int) (hw : wf l = true) (hn : nonneg l = true) (hk : 0 ≤ k)
    (ha : expandAbs l 0 k = false) :
    den (expand l 0 k) ≼ mapPos (· + k) (den l) := by
  rw [expand0_eq_shift0 l k hw hn hk]
  have hs : shiftAbs l 0 k = false := by rw [shiftAbs0_eq l k hw hn hk]; exact ha
  have h1 := (shift_ins l 0 k hw hk).1 hs
  have h2 : mapPos (insMap 0 k) (den l) = mapPos (· + k) (den l) := by
    unfold mapPos
    apply List.map_congr_left
    intro p hp
    have := den_nonneg l hw hn p hp
    simp only [insMap]
    rw [if_neg (by omega)]
  rw [h2] at h1
  exact h1

end Loc
end Gts
