/-
  Embed (`Expand(i, n)`, `n ≥ 0`) keeps a duplicate-free denotation duplicate-free (a guest
  residue appears in a part only if that part spans `i`, i.e. contains residue `i - 1`; counting),
  hence its marker guard follows from the K2 guard and `Nodup` as for the other operations.
  Core Lean only.
-/
import Gts.Lemmas.MarkGuardOps
import Gts.Lemmas.Embed
namespace Gts
namespace Loc

theorem count_le_of_mem_imp {a b : Pos} {E D : List Pos} (hE : E.Nodup) (h : a ∈ E → b ∈ D) :
    List.count a E ≤ List.count b D := by
  by_cases ha : a ∈ E
  · have h1 := List.nodup_iff_count.mp hE a
    have h2 := List.one_le_count_iff.mpr (h ha)
    omega
  · rw [List.count_eq_zero_of_not_mem ha]; omega

theorem nodup_fwd_irange (s : Int) (m : Nat) : (fwd (irange s m)).Nodup := by
  unfold fwd
  rw [List.Nodup, List.pairwise_map]
  refine List.Pairwise.imp ?_ (irange_pairwise s m)
  intro a b hab he
  have := (Prod.mk.inj he).1
  omega

theorem mem_fwd_irange {x : Int} {st : Bool} {s : Int} {m : Nat} :
    ((x, st) : Pos) ∈ fwd (irange s m) ↔ st = false ∧ s ≤ x ∧ x < s + m := by
  simp only [fwd, List.mem_map, mem_irange, Prod.mk.injEq]
  constructor
  · rintro ⟨a, ⟨h1, h2⟩, rfl, rfl⟩; exact ⟨rfl, h1, h2⟩
  · rintro ⟨rfl, h1, h2⟩; exact ⟨x, ⟨h1, h2⟩, rfl, rfl⟩

theorem count_flipDen (x : Int) (st : Bool) (d : List Pos) :
    List.count ((x, st) : Pos) (flipDen d) = List.count ((x, !st) : Pos) d := by
  have key : ∀ l : List Pos,
      List.count ((x, st) : Pos) (l.map fun p => (p.1, !p.2)) = List.count ((x, !st) : Pos) l := by
    intro l
    induction l with
    | nil => rfl
    | cons p ps ih =>
      simp only [List.map_cons, List.count_cons, ih]
      congr 1
      obtain ⟨a, b⟩ := p
      cases b <;> cases st <;> simp
  unfold flipDen
  rw [key, List.count_reverse]

mutual
/-- a guest residue occurs in the embedded location at most as often as residue `i - 1` (same
strand) occurred in the original -/
theorem count_guest_le : ∀ (l : Loc) (i n : Int), wf l = true → 0 ≤ n → expandAbs l i n = false →
    ∀ (g : Int) (st : Bool), i ≤ g → g < i + n →
      List.count ((g, st) : Pos) (den (expand l i n)) ≤ List.count ((i - 1, st) : Pos) (den l)
  | between p, i, n, _, _, _, g, st, _, _ => by simp [expand, den_betweenExpand]
  | point p, i, n, _, hn, _, g, st, h1, h2 => by
      simp only [expand]
      unfold pointExpand
      rw [if_neg (by omega)]
      apply count_le_of_mem_imp (by simp)
      intro hm
      exfalso
      simp only [den_point, List.mem_singleton, Prod.mk.injEq, gmax_eq_max] at hm
      have := hm.1
      split at this <;> omega
  | ranged s e a b, i, n, hw, hn, _, g, st, h1, h2 => by
      have hse : s < e := by simpa [wf] using hw
      simp only [expand, rangedExpand_ins_eq s e a b i n hse (by omega), den_ranged]
      apply count_le_of_mem_imp (nodup_fwd_irange _ _)
      intro hm
      rw [mem_fwd_irange] at hm ⊢
      refine ⟨hm.1, ?_⟩
      have h3 := hm.2.1
      have h4 := hm.2.2
      split at h3 <;> split at h4 <;> omega
  | ambiguous s e, i, n, hw, hn, _, g, st, h1, h2 => by
      have hse : s < e := by simpa [wf] using hw
      simp only [expand, ambiguousExpand_ins_eq s e i n hse (by omega), den_ambiguous]
      apply count_le_of_mem_imp (nodup_fwd_irange _ _)
      intro hm
      rw [mem_fwd_irange] at hm ⊢
      refine ⟨hm.1, ?_⟩
      have h3 := hm.2.1
      have h4 := hm.2.2
      split at h3 <;> split at h4 <;> omega
  | joined ls, i, n, hw, hn, hk, g, st, h1, h2 => by
      have hw' : wfList ls = true := by simpa [wf] using hw
      simp only [expandAbs, Bool.or_eq_false_iff] at hk
      simp only [expand, den_joined]
      have hj := join_den _ (expandList_ins ls i n hw' hn).2 hk.2
      exact Nat.le_trans (hj.1.count_le _) (countList_guest_le ls i n hw' hn hk.1 g st h1 h2)
  | ordered ls, i, n, hw, hn, hk, g, st, h1, h2 => by
      simp only [expandAbs] at hk
      simp only [expand, den_ordered, order_den]
      exact countList_guest_le ls i n (by simpa [wf] using hw) hn hk g st h1 h2
  | compl l, i, n, hw, hn, hk, g, st, h1, h2 => by
      simp only [expandAbs] at hk
      simp only [expand, den_compl, count_flipDen]
      exact count_guest_le l i n (by simpa [wf] using hw) hn hk g (!st) h1 h2
theorem countList_guest_le : ∀ (ls : List Loc) (i n : Int), wfList ls = true → 0 ≤ n →
    expandAbsList ls i n = false → ∀ (g : Int) (st : Bool), i ≤ g → g < i + n →
      List.count ((g, st) : Pos) (denList (expandList ls i n)) ≤
        List.count ((i - 1, st) : Pos) (denList ls)
  | [], _, _, _, _, _, _, _, _, _ => by simp [expandList]
  | l :: ls, i, n, hw, hn, hk, g, st, h1, h2 => by
      simp only [wfList_cons, Bool.and_eq_true] at hw
      simp only [expandAbsList, Bool.or_eq_false_iff] at hk
      simp only [expandList, denList_cons, List.count_append]
      have a := count_guest_le l i n hw.1 hn hk.1 g st h1 h2
      have b := countList_guest_le ls i n hw.2 hn hk.2 g st h1 h2
      omega
end

/-- a list is duplicate-free when its host part is and every guest residue is counted by a
residue of a duplicate-free list -/
theorem nodup_of_strip (i n : Int) (E D : List Pos) (hs : (stripGuest i n E).Nodup) (hD : D.Nodup)
    (hg : ∀ (g : Int) (st : Bool), i ≤ g → g < i + n →
      List.count ((g, st) : Pos) E ≤ List.count ((i - 1, st) : Pos) D) : E.Nodup := by
  rw [List.nodup_iff_count]
  intro a
  obtain ⟨x, st⟩ := a
  by_cases hx : i ≤ x ∧ x < i + n
  · exact Nat.le_trans (hg x st hx.1 hx.2) (List.nodup_iff_count.mp hD _)
  · have hp : decide (((x, st) : Pos).1 < i ∨ i + n ≤ ((x, st) : Pos).1) = true := by
      simp only [decide_eq_true_eq]; omega
    have := List.count_filter (p := fun p : Pos => decide (p.1 < i ∨ i + n ≤ p.1)) (l := E) hp
    unfold stripGuest at hs
    rw [← this]
    exact List.nodup_iff_count.mp hs _

theorem expandList_ins_nodup (ls : List Loc) (i n : Int) (hw : wfList ls = true) (hn : 0 ≤ n)
    (hk : expandAbsList ls i n = false) (hnd : (denList ls).Nodup) :
    (denList (expandList ls i n)).Nodup :=
  nodup_of_strip i n _ _
    (Refines.nodup ((expandList_ins ls i n hw hn).1 hk) (nodup_mapPos_insMap i n hn _ hnd)) hnd
    (countList_guest_le ls i n hw hn hk)

/-! ### the marker guard of Embed -/

mutual
theorem expandInsMarkAbs_of_nodup : ∀ (l : Loc) (i n : Int), wf l = true → 0 ≤ n →
    expandAbs l i n = false → (den l).Nodup → expandMarkAbs l i n = false
  | between _, _, _, _, _, _, _ => by simp [expandMarkAbs]
  | point _, _, _, _, _, _, _ => by simp [expandMarkAbs]
  | ranged _ _ _ _, _, _, _, _, _, _ => by simp [expandMarkAbs]
  | ambiguous _ _, _, _, _, _, _, _ => by simp [expandMarkAbs]
  | joined ls, i, n, hw, hn, hk, hnd => by
      have hw' : wfList ls = true := by simpa [wf] using hw
      simp only [expandAbs, Bool.or_eq_false_iff] at hk
      simp only [den_joined] at hnd
      simp only [expandMarkAbs, Bool.or_eq_false_iff]
      refine ⟨expandInsMarkAbsList_of_nodup ls i n hw' hn hk.1 hnd, ?_⟩
      exact joinMarkAbs_of_nodup _ (expandList_ins ls i n hw' hn).2 hk.2
        (expandList_ins_nodup ls i n hw' hn hk.1 hnd)
  | ordered ls, i, n, hw, hn, hk, hnd => by
      simp only [expandAbs] at hk
      simp only [den_ordered] at hnd
      simp only [expandMarkAbs]
      exact expandInsMarkAbsList_of_nodup ls i n (by simpa [wf] using hw) hn hk hnd
  | compl l, i, n, hw, hn, hk, hnd => by
      simp only [expandAbs] at hk
      simp only [den_compl] at hnd
      simp only [expandMarkAbs]
      exact expandInsMarkAbs_of_nodup l i n (by simpa [wf] using hw) hn hk (nodup_flipDen.mp hnd)
theorem expandInsMarkAbsList_of_nodup : ∀ (ls : List Loc) (i n : Int), wfList ls = true → 0 ≤ n →
    expandAbsList ls i n = false → (denList ls).Nodup → expandMarkAbsList ls i n = false
  | [], _, _, _, _, _, _ => by simp [expandMarkAbsList]
  | l :: ls, i, n, hw, hn, hk, hnd => by
      simp only [wfList_cons, Bool.and_eq_true] at hw
      simp only [expandAbsList, Bool.or_eq_false_iff] at hk
      simp only [denList_cons] at hnd
      simp only [expandMarkAbsList, Bool.or_eq_false_iff]
      exact ⟨expandInsMarkAbs_of_nodup l i n hw.1 hn hk.1 (nodup_append_left hnd),
        expandInsMarkAbsList_of_nodup ls i n hw.2 hn hk.2 (nodup_append_right hnd)⟩
end

/-- the embedded location is duplicate-free again -/
theorem expand_ins_nodup (l : Loc) (i n : Int) (hw : wf l = true) (hn : 0 ≤ n)
    (hk : expandAbs l i n = false) (hnd : (den l).Nodup) : (den (expand l i n)).Nodup :=
  nodup_of_strip i n _ _
    (Refines.nodup ((expand_ins l i n hw hn).1 hk) (nodup_mapPos_insMap i n hn _ hnd)) hnd
    (count_guest_le l i n hw hn hk)

end Loc
end Gts
