/-
  Helper lemmas for C19: the location order `Loc.less` (a strict weak order on *all*
  locations), `sort.Search`, and the sorted insertion `Table.insert`.  Core Lean only.
-/
import Gts.Model.Feature
import Gts.Lemmas.Basic
namespace Gts
namespace Loc

/-! ### the contiguous leaves and their sort key -/

mutual
/-- the contiguous leaves of a location, in order (complements stripped) -/
def leaves : Loc → List Loc
  | compl l => leaves l
  | joined ls => leavesList ls
  | ordered ls => leavesList ls
  | l => [l]
def leavesList : List Loc → List Loc
  | [] => []
  | l :: ls => leaves l ++ leavesList ls
end

/-- contiguous kinds: `Between`, `Point`, `Ranged`, `Ambiguous` -/
def isLeaf (l : Loc) : Bool := (span? l).isSome

/-- what `LocationLess` compares on a contiguous location: the normalised span, then the
number of partial markers -/
def nkey (l : Loc) : Int × Int × Nat :=
  match span? l with
  | some (s, e) => (gmin s e, gmax s e, partialCount l)
  | none => (0, 0, 0)

/-- lexicographic `<` on keys -/
def lexLt (a b : Int × Int × Nat) : Prop :=
  a.1 < b.1 ∨ (a.1 = b.1 ∧ (a.2.1 < b.2.1 ∨ (a.2.1 = b.2.1 ∧ a.2.2 < b.2.2)))

theorem lexLt_irrefl (a : Int × Int × Nat) : ¬ lexLt a a := by
  unfold lexLt; omega

theorem lexLt_trans {a b c : Int × Int × Nat} (h₁ : lexLt a b) (h₂ : lexLt b c) : lexLt a c := by
  unfold lexLt at *; omega

/-- negative transitivity (the key is a total pre-order) -/
theorem lexLt_negtrans {a b c : Int × Int × Nat} (h : lexLt a c) : lexLt a b ∨ lexLt b c := by
  unfold lexLt at *; omega

theorem contigLess_iff {a b : Loc} (ha : isLeaf a = true) (hb : isLeaf b = true) :
    contigLess a b = true ↔ lexLt (nkey a) (nkey b) := by
  unfold isLeaf at ha hb
  cases hsa : span? a with
  | none => simp [hsa] at ha
  | some sa =>
    cases hsb : span? b with
    | none => simp [hsb] at hb
    | some sb =>
      obtain ⟨s1, e1⟩ := sa
      obtain ⟨s2, e2⟩ := sb
      simp only [contigLess, nkey, hsa, hsb, lexLt, rangeCompare, gmin, gmax]
      by_cases h1 : e1 < s1 <;> by_cases h2 : e2 < s2 <;> simp only [h1, h2, if_true, if_false] <;>
        (repeat' split) <;> simp <;> omega

theorem contigLess_of_not_leaf_left {a b : Loc} (ha : isLeaf a = false) : contigLess a b = false := by
  unfold isLeaf at ha
  cases hsa : span? a with
  | none => simp [contigLess, hsa]
  | some sa => simp [hsa] at ha

mutual
theorem leaves_isLeaf : ∀ (l : Loc) (x : Loc), x ∈ leaves l → isLeaf x = true
  | between p, x, h => by simp [leaves] at h; subst h; rfl
  | point p, x, h => by simp [leaves] at h; subst h; rfl
  | ranged s e a b, x, h => by simp [leaves] at h; subst h; rfl
  | ambiguous s e, x, h => by simp [leaves] at h; subst h; rfl
  | joined ls, x, h => by simp only [leaves] at h; exact leavesList_isLeaf ls x h
  | ordered ls, x, h => by simp only [leaves] at h; exact leavesList_isLeaf ls x h
  | compl l, x, h => by simp only [leaves] at h; exact leaves_isLeaf l x h
theorem leavesList_isLeaf : ∀ (ls : List Loc) (x : Loc), x ∈ leavesList ls → isLeaf x = true
  | [], x, h => by simp [leavesList] at h
  | l :: ls, x, h => by
      simp only [leavesList, List.mem_append] at h
      rcases h with h | h
      · exact leaves_isLeaf l x h
      · exact leavesList_isLeaf ls x h
end

/-! ### `LocationLess` in closed form -/

mutual
theorem lessB_iff (a : Loc) : ∀ b : Loc, lessB a b = true ↔ ∀ lb ∈ leaves b, contigLess a lb = true
  | between p => by simp [lessB, leaves]
  | point p => by simp [lessB, leaves]
  | ranged s e x y => by simp [lessB, leaves]
  | ambiguous s e => by simp [lessB, leaves]
  | joined ls => by simp only [lessB, leaves]; exact allLessB_iff a ls
  | ordered ls => by simp only [lessB, leaves]; exact allLessB_iff a ls
  | compl l => by simp only [lessB, leaves]; exact lessB_iff a l
theorem allLessB_iff (a : Loc) :
    ∀ ls : List Loc, allLessB a ls = true ↔ ∀ lb ∈ leavesList ls, contigLess a lb = true
  | [] => by simp [allLessB, leavesList]
  | l :: ls => by
      simp only [allLessB, leavesList, Bool.and_eq_true, List.mem_append, lessB_iff a l,
        allLessB_iff a ls]
      constructor
      · rintro ⟨h1, h2⟩ lb (h | h)
        · exact h1 lb h
        · exact h2 lb h
      · intro h
        exact ⟨fun lb hl => h lb (Or.inl hl), fun lb hl => h lb (Or.inr hl)⟩
end

mutual
/-- `LocationLess(a, b)` holds iff **some leaf of `a` is below every leaf of `b`**. -/
theorem less_iff : ∀ (a b : Loc),
    less a b = true ↔ ∃ la ∈ leaves a, ∀ lb ∈ leaves b, contigLess la lb = true
  | between p, b => by simp [less, leaves, lessB_iff]
  | point p, b => by simp [less, leaves, lessB_iff]
  | ranged s e x y, b => by simp [less, leaves, lessB_iff]
  | ambiguous s e, b => by simp [less, leaves, lessB_iff]
  | joined ls, b => by simp only [less, leaves]; exact anyLess_iff ls b
  | ordered ls, b => by simp only [less, leaves]; exact anyLess_iff ls b
  | compl l, b => by simp only [less, leaves]; exact less_iff l b
theorem anyLess_iff : ∀ (ls : List Loc) (b : Loc),
    anyLess ls b = true ↔ ∃ la ∈ leavesList ls, ∀ lb ∈ leaves b, contigLess la lb = true
  | [], b => by simp [anyLess, leavesList]
  | l :: ls, b => by
      simp only [anyLess, leavesList, Bool.or_eq_true, List.mem_append, less_iff l b,
        anyLess_iff ls b]
      constructor
      · rintro (⟨la, h1, h2⟩ | ⟨la, h1, h2⟩)
        · exact ⟨la, Or.inl h1, h2⟩
        · exact ⟨la, Or.inr h1, h2⟩
      · rintro ⟨la, h1 | h1, h2⟩
        · exact Or.inl ⟨la, h1, h2⟩
        · exact Or.inr ⟨la, h1, h2⟩
end

/-! ### the order axioms, for every location -/

theorem less_irrefl (a : Loc) : less a a = false := by
  cases h : less a a with
  | false => rfl
  | true =>
    obtain ⟨la, hla, hall⟩ := (less_iff a a).mp h
    have hl := leaves_isLeaf a la hla
    exact absurd ((contigLess_iff hl hl).mp (hall la hla)) (lexLt_irrefl _)

theorem less_trans {a b c : Loc} (h₁ : less a b = true) (h₂ : less b c = true) : less a c = true := by
  obtain ⟨la, hla, hab⟩ := (less_iff a b).mp h₁
  obtain ⟨lb, hlb, hbc⟩ := (less_iff b c).mp h₂
  refine (less_iff a c).mpr ⟨la, hla, fun lc hlc => ?_⟩
  have ha := leaves_isLeaf a la hla
  have hb := leaves_isLeaf b lb hlb
  have hc := leaves_isLeaf c lc hlc
  exact (contigLess_iff ha hc).mpr
    (lexLt_trans ((contigLess_iff ha hb).mp (hab lb hlb)) ((contigLess_iff hb hc).mp (hbc lc hlc)))

theorem less_asymm {a b : Loc} (h : less a b = true) : less b a = false := by
  cases h' : less b a with
  | false => rfl
  | true => have := less_trans h h'; rw [less_irrefl] at this; cases this

/-- negative transitivity: whatever is below `c` is below `b`, or `b` is below `c` -/
theorem less_negtrans {a c : Loc} (b : Loc) (h : less a c = true) :
    less a b = true ∨ less b c = true := by
  obtain ⟨la, hla, hac⟩ := (less_iff a c).mp h
  have ha := leaves_isLeaf a la hla
  by_cases hab : ∀ lb ∈ leaves b, contigLess la lb = true
  · exact Or.inl ((less_iff a b).mpr ⟨la, hla, hab⟩)
  · right
    have : ∃ lb, lb ∈ leaves b ∧ contigLess la lb ≠ true := by
      apply Classical.byContradiction
      intro hne
      apply hab
      intro lb hlb
      apply Classical.byContradiction
      intro hc
      exact hne ⟨lb, hlb, hc⟩
    obtain ⟨lb, hlb, hnl⟩ := this
    have hb := leaves_isLeaf b lb hlb
    refine (less_iff b c).mpr ⟨lb, hlb, fun lc hlc => ?_⟩
    have hc := leaves_isLeaf c lc hlc
    have hlt := (contigLess_iff ha hc).mp (hac lc hlc)
    rcases lexLt_negtrans (b := nkey lb) hlt with h1 | h1
    · exact absurd ((contigLess_iff ha hb).mpr h1) hnl
    · exact (contigLess_iff hb hc).mpr h1

/-- incomparability (`¬ a<b ∧ ¬ b<a`) is transitive -/
theorem less_incomp_trans {a b c : Loc} (hab : less a b = false) (hba : less b a = false)
    (hbc : less b c = false) (hcb : less c b = false) : less a c = false ∧ less c a = false := by
  constructor
  · cases h : less a c with
    | false => rfl
    | true => rcases less_negtrans b h with h1 | h1 <;> simp_all
  · cases h : less c a with
    | false => rfl
    | true => rcases less_negtrans b h with h1 | h1 <;> simp_all

end Loc

/-! ### `sort.Search` -/

/-- the loop invariant of `sort.Search`: `f (i-1) = false` (or `i = 0`) and `f j = true`
(or `j = n`), for **any** predicate `f`. -/
theorem sortSearchLoop_spec (f : Nat → Bool) (n : Nat) :
    ∀ (fuel i j : Nat), i ≤ j → j ≤ n → j - i < fuel →
      (i = 0 ∨ f (i - 1) = false) → (j = n ∨ f j = true) →
      i ≤ sortSearchLoop f fuel i j ∧ sortSearchLoop f fuel i j ≤ j ∧
      (sortSearchLoop f fuel i j = 0 ∨ f (sortSearchLoop f fuel i j - 1) = false) ∧
      (sortSearchLoop f fuel i j = n ∨ f (sortSearchLoop f fuel i j) = true) := by
  intro fuel
  induction fuel with
  | zero => intro i j _ _ h; omega
  | succ fuel ih =>
    intro i j hij hjn hfuel hi hj
    unfold sortSearchLoop
    by_cases hlt : i < j
    · simp only [hlt, if_true]
      have hh1 : i ≤ (i + j) / 2 := by omega
      have hh2 : (i + j) / 2 < j := by omega
      cases hf : f ((i + j) / 2) with
      | false =>
        simp only [Bool.not_false, if_true]
        have := ih ((i + j) / 2 + 1) j (by omega) hjn (by omega)
          (Or.inr (by simpa using hf)) hj
        refine ⟨by omega, this.2.1, this.2.2.1, this.2.2.2⟩
      | true =>
        simp only [Bool.not_true, Bool.false_eq_true, if_false]
        have := ih i ((i + j) / 2) hh1 (by omega) (by omega) hi (Or.inr hf)
        refine ⟨this.1, by omega, this.2.2.1, this.2.2.2⟩
    · simp only [hlt, if_false]
      have : i = j := by omega
      subst this
      exact ⟨Nat.le_refl _, Nat.le_refl _, hi, hj⟩

/-- `sort.Search(n, f)` for an arbitrary `f`: some `i ≤ n` with `f i` (or `i = n`) and
`¬ f (i-1)` (or `i = 0`). -/
theorem sortSearch_general (n : Nat) (f : Nat → Bool) :
    sortSearch n f ≤ n ∧ (sortSearch n f = n ∨ f (sortSearch n f) = true) ∧
      (sortSearch n f = 0 ∨ f (sortSearch n f - 1) = false) := by
  have := sortSearchLoop_spec f n (n + 1) 0 n (Nat.zero_le _) (Nat.le_refl _) (by omega)
    (Or.inl rfl) (Or.inl rfl)
  exact ⟨this.2.1, this.2.2.2, this.2.2.1⟩

/-- a predicate of the shape `false … false true … true` on `[0, n)` -/
def MonotoneUpTo (n : Nat) (f : Nat → Bool) : Prop :=
  ∀ a b, a ≤ b → b < n → f a = true → f b = true

/-- for a monotone predicate `sort.Search` returns the partition point -/
theorem sortSearch_partition (n : Nat) (f : Nat → Bool) (hm : MonotoneUpTo n f) :
    sortSearch n f ≤ n ∧ (∀ k, k < sortSearch n f → f k = false) ∧
      (∀ k, sortSearch n f ≤ k → k < n → f k = true) := by
  obtain ⟨h1, h2, h3⟩ := sortSearch_general n f
  refine ⟨h1, fun k hk => ?_, fun k hk hkn => ?_⟩
  · cases hf : f k with
    | false => rfl
    | true =>
      rcases h3 with h3 | h3
      · omega
      · have := hm k (sortSearch n f - 1) (by omega) (by omega) hf
        rw [h3] at this; cases this
  · rcases h2 with h2 | h2
    · omega
    · exact hm _ k hk hkn h2

/-! ### `FeatureSlice.Insert` -/

namespace Table

/-- "non-decreasing location order": no later feature is `LocationLess` than an earlier one -/
def NonDecreasing (r : Table) : Prop := r.Pairwise fun a b => Loc.less b.loc a.loc = false

/-- the table invariant of C19: the leading block of `source` features is followed by
non-`source` features only, and those are in non-decreasing location order -/
def Ok (t : Table) : Prop :=
  (∀ g ∈ t.drop (sourceCount t), g.key ≠ "source") ∧ NonDecreasing (t.drop (sourceCount t))

theorem sourceCount_le : ∀ t : Table, sourceCount t ≤ t.length
  | [] => by simp [sourceCount]
  | f :: fs => by
      unfold sourceCount
      split
      · have := sourceCount_le fs; simp; omega
      · simp

theorem take_sourceCount_source : ∀ (t : Table) (s : Feature), s ∈ t.take (sourceCount t) → s.key = "source"
  | [], s, h => by simp [sourceCount] at h
  | f :: fs, s, h => by
      unfold sourceCount at h
      by_cases hk : f.key = "source"
      · simp only [hk, if_true, List.take_succ_cons, List.mem_cons] at h
        rcases h with rfl | h
        · exact hk
        · exact take_sourceCount_source fs s h
      · simp [hk] at h

/-- the source count of `srcs ++ rest` when `srcs` are sources and `rest` does not start with one -/
theorem sourceCount_append : ∀ (srcs rest : Table), (∀ s ∈ srcs, s.key = "source") →
    (∀ g, rest.head? = some g → g.key ≠ "source") → sourceCount (srcs ++ rest) = srcs.length
  | [], [], _, _ => by simp [sourceCount]
  | [], g :: rest, _, h => by
      have := h g rfl
      simp [sourceCount, this]
  | s :: srcs, rest, hs, h => by
      have h1 : s.key = "source" := hs s (List.mem_cons_self ..)
      have := sourceCount_append srcs rest (fun x hx => hs x (List.mem_cons_of_mem _ hx)) h
      simp [sourceCount, h1, this]

/-- the index at which `Insert` places `f` -/
def insertIdx (t : Table) (f : Feature) : Nat :=
  if f.key ≠ "source" then
    sourceCount t + sortSearch (t.length - sourceCount t) (fun j =>
      match t[sourceCount t + j]? with
      | some g => Loc.less f.loc g.loc
      | none => true)
  else sourceCount t

theorem insert_eq (t : Table) (f : Feature) :
    insert t f = t.take (insertIdx t f) ++ f :: t.drop (insertIdx t f) := rfl

/-- `Insert` only adds the new feature: the result is a permutation of `f :: t` (all features,
old and new, are kept as they are). -/
theorem insert_perm' (t : Table) (f : Feature) : (insert t f).Perm (f :: t) := by
  rw [insert_eq]
  have h := @List.perm_middle _ f (t.take (insertIdx t f)) (t.drop (insertIdx t f))
  rw [List.take_append_drop] at h
  exact h

theorem nonDecreasing_insert_at (rest : Table) (f : Feature) (j : Nat)
    (hs : NonDecreasing rest)
    (hlo : ∀ a ∈ rest.take j, Loc.less f.loc a.loc = false)
    (hhi : ∀ b ∈ rest.drop j, Loc.less f.loc b.loc = true) :
    NonDecreasing (rest.take j ++ f :: rest.drop j) := by
  unfold NonDecreasing at *
  rw [← List.take_append_drop j rest, List.pairwise_append] at hs
  obtain ⟨h1, h2, h3⟩ := hs
  rw [List.pairwise_append]
  refine ⟨h1, ?_, ?_⟩
  · rw [List.pairwise_cons]
    exact ⟨fun b hb => Loc.less_asymm (hhi b hb), h2⟩
  · intro a ha b hb
    rcases List.mem_cons.mp hb with rfl | hb
    · exact hlo a ha
    · exact h3 a ha b hb

/-- the search predicate of `Insert` is monotone on a non-decreasing block -/
theorem insert_pred_monotone (rest : Table) (f : Feature) (hs : NonDecreasing rest) :
    MonotoneUpTo rest.length (fun j => match rest[j]? with
      | some g => Loc.less f.loc g.loc
      | none => true) := by
  intro a b hab hb ha
  have ha' : a < rest.length := by omega
  simp only [List.getElem?_eq_getElem ha', List.getElem?_eq_getElem hb] at ha ⊢
  by_cases hEq : a = b
  · subst hEq; exact ha
  · have hlt : a < b := by omega
    have hp := (List.pairwise_iff_getElem.mp hs) a b ha' hb hlt
    rcases Loc.less_negtrans rest[b].loc ha with h | h
    · exact h
    · rw [hp] at h; cases h

/-- sources, then non-sources in non-decreasing order: the invariant holds -/
theorem ok_of_decomp (srcs rest : Table) (hs : ∀ s ∈ srcs, s.key = "source")
    (hr : ∀ g ∈ rest, g.key ≠ "source") (hnd : NonDecreasing rest) : Ok (srcs ++ rest) := by
  have hc : sourceCount (srcs ++ rest) = srcs.length :=
    sourceCount_append srcs rest hs (fun g hg => hr g (List.mem_of_mem_head? hg))
  unfold Ok
  rw [hc, List.drop_left]
  exact ⟨hr, hnd⟩

/-- where `Insert` puts a non-`source` feature, relative to the non-`source` block -/
theorem insertIdx_nonsource (t : Table) (f : Feature) (hkey : f.key ≠ "source") :
    insertIdx t f = sourceCount t +
      sortSearch (t.drop (sourceCount t)).length (fun j =>
        match (t.drop (sourceCount t))[j]? with
        | some g => Loc.less f.loc g.loc
        | none => true) := by
  simp only [insertIdx, hkey, ne_eq, not_false_eq_true, if_true, List.length_drop,
    List.getElem?_drop]

/-- **`Insert` keeps the table invariant**, and places a non-`source` feature after every
feature that is not above it and before every feature strictly above it. -/
theorem insert_ok (t : Table) (f : Feature) (h : Ok t) : Ok (insert t f) := by
  obtain ⟨hsf, hnd⟩ := h
  have hsrc := take_sourceCount_source t
  rw [insert_eq]
  by_cases hkey : f.key = "source"
  · have hi : insertIdx t f = sourceCount t := by simp [insertIdx, hkey]
    rw [hi]
    have : t.take (sourceCount t) ++ f :: t.drop (sourceCount t)
        = (t.take (sourceCount t) ++ [f]) ++ t.drop (sourceCount t) := by simp
    rw [this]
    apply ok_of_decomp _ _ _ hsf hnd
    intro s hs
    rcases List.mem_append.mp hs with hs | hs
    · exact hsrc s hs
    · simp at hs; subst hs; exact hkey
  · rw [insertIdx_nonsource t f hkey]
    generalize hrest : t.drop (sourceCount t) = rest at *
    have hm := insert_pred_monotone rest f hnd
    obtain ⟨hj, hlo, hhi⟩ := sortSearch_partition rest.length _ hm
    generalize sortSearch rest.length _ = j at *
    have e1 : t.take (sourceCount t + j) = t.take (sourceCount t) ++ rest.take j := by
      rw [List.take_add, hrest]
    have e2 : t.drop (sourceCount t + j) = rest.drop j := by
      rw [← hrest, List.drop_drop]
    rw [e1, e2, List.append_assoc]
    apply ok_of_decomp _ _ hsrc
    · intro g hg
      rcases List.mem_append.mp hg with hg | hg
      · exact hsf g (List.mem_of_mem_take hg)
      · rcases List.mem_cons.mp hg with rfl | hg
        · exact hkey
        · exact hsf g (List.mem_of_mem_drop hg)
    · apply nonDecreasing_insert_at rest f j hnd
      · intro a ha
        obtain ⟨i, hi, rfl⟩ := List.mem_take_iff_getElem.mp ha
        have hi' : i < rest.length := by omega
        have := hlo i (by omega)
        simpa [List.getElem?_eq_getElem hi'] using this
      · intro b hb
        obtain ⟨i, hi, rfl⟩ := List.mem_drop_iff_getElem.mp hb
        have hi' : j + i < rest.length := by omega
        have := hhi (j + i) (by omega) hi'
        simpa [List.getElem?_eq_getElem hi'] using this

theorem ok_nil : Ok ([] : Table) := by
  simp [Ok, NonDecreasing, sourceCount]

/-- the invariant over every insertion sequence -/
theorem insertAll_ok (fs : List Feature) : ∀ (t : Table), Ok t → Ok (insertAll t fs) := by
  induction fs with
  | nil => intro t h; exact h
  | cons f fs ih => intro t h; exact ih (insert t f) (insert_ok t f h)

theorem insertAll_perm (fs : List Feature) : ∀ (t : Table), (insertAll t fs).Perm (fs.reverse ++ t) := by
  induction fs with
  | nil => intro t; exact List.Perm.refl _
  | cons f fs ih =>
    intro t
    have h1 := ih (insert t f)
    have h2 : (fs.reverse ++ insert t f).Perm (fs.reverse ++ (f :: t)) :=
      List.Perm.append_left _ (insert_perm' t f)
    simpa [insertAll] using h1.trans h2

end Table

/-! ### `Within` / `Overlap` / strand over the leaves and over the denoted residues -/

namespace Loc

/-- the `[start, end)` span of a contiguous leaf -/
def leafSpan (l : Loc) : Int × Int := (span? l).getD (0, 0)

mutual
/-- `LocationWithin`: **every** leaf lies within the bounds -/
theorem within_iff_leaves : ∀ (l : Loc) (lo hi : Int),
    within l lo hi = true ↔ ∀ x ∈ leaves l, rangeWithin (leafSpan x).1 (leafSpan x).2 lo hi = true
  | between p, lo, hi => by simp [within, leaves, leafSpan, span?]
  | point p, lo, hi => by simp [within, leaves, leafSpan, span?]
  | ranged s e a b, lo, hi => by simp [within, leaves, leafSpan, span?]
  | ambiguous s e, lo, hi => by simp [within, leaves, leafSpan, span?]
  | joined ls, lo, hi => by simp only [within, leaves]; exact withinAll_iff_leaves ls lo hi
  | ordered ls, lo, hi => by simp only [within, leaves]; exact withinAll_iff_leaves ls lo hi
  | compl l, lo, hi => by simp only [within, leaves]; exact within_iff_leaves l lo hi
theorem withinAll_iff_leaves : ∀ (ls : List Loc) (lo hi : Int),
    withinAll ls lo hi = true ↔
      ∀ x ∈ leavesList ls, rangeWithin (leafSpan x).1 (leafSpan x).2 lo hi = true
  | [], lo, hi => by simp [withinAll, leavesList]
  | l :: ls, lo, hi => by
      simp only [withinAll, leavesList, Bool.and_eq_true, List.mem_append,
        within_iff_leaves l lo hi, withinAll_iff_leaves ls lo hi]
      constructor
      · rintro ⟨h1, h2⟩ x (h | h)
        · exact h1 x h
        · exact h2 x h
      · intro h
        exact ⟨fun x hx => h x (Or.inl hx), fun x hx => h x (Or.inr hx)⟩
end

mutual
/-- `LocationOverlap`: **some** leaf overlaps the bounds -/
theorem overlap_iff_leaves : ∀ (l : Loc) (lo hi : Int),
    overlap l lo hi = true ↔ ∃ x ∈ leaves l, rangeOverlap (leafSpan x).1 (leafSpan x).2 lo hi = true
  | between p, lo, hi => by simp [overlap, leaves, leafSpan, span?]
  | point p, lo, hi => by simp [overlap, leaves, leafSpan, span?]
  | ranged s e a b, lo, hi => by simp [overlap, leaves, leafSpan, span?]
  | ambiguous s e, lo, hi => by simp [overlap, leaves, leafSpan, span?]
  | joined ls, lo, hi => by simp only [overlap, leaves]; exact overlapAny_iff_leaves ls lo hi
  | ordered ls, lo, hi => by simp only [overlap, leaves]; exact overlapAny_iff_leaves ls lo hi
  | compl l, lo, hi => by simp only [overlap, leaves]; exact overlap_iff_leaves l lo hi
theorem overlapAny_iff_leaves : ∀ (ls : List Loc) (lo hi : Int),
    overlapAny ls lo hi = true ↔
      ∃ x ∈ leavesList ls, rangeOverlap (leafSpan x).1 (leafSpan x).2 lo hi = true
  | [], lo, hi => by simp [overlapAny, leavesList]
  | l :: ls, lo, hi => by
      simp only [overlapAny, leavesList, Bool.or_eq_true, List.mem_append,
        overlap_iff_leaves l lo hi, overlapAny_iff_leaves ls lo hi]
      constructor
      · rintro (⟨x, h1, h2⟩ | ⟨x, h1, h2⟩)
        · exact ⟨x, Or.inl h1, h2⟩
        · exact ⟨x, Or.inr h1, h2⟩
      · rintro ⟨x, h1 | h1, h2⟩
        · exact Or.inl ⟨x, h1, h2⟩
        · exact Or.inr ⟨x, h1, h2⟩
end

/-- residue `q` lies in the span of leaf `x` -/
def covers (x : Loc) (q : Int) : Prop := (leafSpan x).1 ≤ q ∧ q < (leafSpan x).2

theorem mem_fwd {q : Int} {b : Bool} {xs : List Int} : (q, b) ∈ fwd xs ↔ b = false ∧ q ∈ xs := by
  simp only [fwd, List.mem_map, Prod.mk.injEq]
  constructor
  · rintro ⟨x, hx, rfl, rfl⟩; exact ⟨rfl, hx⟩
  · rintro ⟨rfl, hx⟩; exact ⟨q, hx, rfl, rfl⟩

theorem mem_flipDen {q : Int} {b : Bool} {d : List Pos} : (q, b) ∈ flipDen d ↔ (q, !b) ∈ d := by
  simp only [flipDen, List.mem_map, List.mem_reverse, Prod.mk.injEq]
  constructor
  · rintro ⟨p, hp, rfl, rfl⟩; simpa using hp
  · intro h; exact ⟨(q, !b), h, rfl, by simp⟩

theorem mem_den_range {s e q : Int} :
    (∃ b, (q, b) ∈ fwd (irange s (e - s).toNat)) ↔ s ≤ q ∧ q < e := by
  constructor
  · rintro ⟨b, h⟩
    have := (mem_irange.mp (mem_fwd.mp h).2)
    omega
  · intro h
    exact ⟨false, mem_fwd.mpr ⟨rfl, mem_irange.mpr (by omega)⟩⟩

mutual
/-- the residues a location denotes are exactly the positions its leaves span -/
theorem den_cover : ∀ (l : Loc) (q : Int), (∃ b, (q, b) ∈ den l) ↔ ∃ x ∈ leaves l, covers x q
  | between p, q => by
      simp only [den, leaves, covers, leafSpan, span?, List.not_mem_nil, exists_false,
        List.mem_singleton, exists_eq_left, Option.getD_some, false_iff]
      omega
  | point p, q => by simp [den, leaves, covers, leafSpan, span?]; omega
  | ranged s e a b, q => by
      simp only [den, leaves, covers, leafSpan, span?, List.mem_singleton, exists_eq_left,
        Option.getD_some]
      exact mem_den_range
  | ambiguous s e, q => by
      simp only [den, leaves, covers, leafSpan, span?, List.mem_singleton, exists_eq_left,
        Option.getD_some]
      exact mem_den_range
  | joined ls, q => by simp only [den, leaves]; exact denList_cover ls q
  | ordered ls, q => by simp only [den, leaves]; exact denList_cover ls q
  | compl l, q => by
      simp only [den, leaves, mem_flipDen]
      rw [← den_cover l q]
      constructor
      · rintro ⟨b, h⟩; exact ⟨!b, h⟩
      · rintro ⟨b, h⟩; exact ⟨!b, by simpa using h⟩
theorem denList_cover : ∀ (ls : List Loc) (q : Int),
    (∃ b, (q, b) ∈ denList ls) ↔ ∃ x ∈ leavesList ls, covers x q
  | [], q => by simp [denList, leavesList]
  | l :: ls, q => by
      simp only [denList, leavesList, List.mem_append]
      rw [exists_or, den_cover l q, denList_cover ls q]
      constructor
      · rintro (⟨x, h1, h2⟩ | ⟨x, h1, h2⟩)
        · exact ⟨x, Or.inl h1, h2⟩
        · exact ⟨x, Or.inr h1, h2⟩
      · rintro ⟨x, h1 | h1, h2⟩
        · exact Or.inl ⟨x, h1, h2⟩
        · exact Or.inr ⟨x, h1, h2⟩
end

/-- every leaf denotes at least one residue (no `Between` site, no empty range) -/
def ProperLeaves (l : Loc) : Prop := ∀ x ∈ leaves l, (leafSpan x).1 < (leafSpan x).2

theorem rangeWithin_iff {s e lo hi : Int} (hse : s < e) (hb : lo ≤ hi) :
    rangeWithin s e lo hi = true ↔ ∀ q, s ≤ q → q < e → lo ≤ q ∧ q < hi := by
  have h1 : ¬ e < s := by omega
  have h2 : ¬ hi < lo := by omega
  simp only [rangeWithin, h1, h2, if_false, Bool.and_eq_true, decide_eq_true_eq]
  constructor
  · rintro ⟨_, _⟩ q _ _; omega
  · intro h
    have := h s (Int.le_refl _) hse
    have := h (e - 1) (by omega) (by omega)
    omega

theorem rangeOverlap_iff {s e lo hi : Int} (hse : s < e) (hb : lo < hi) :
    rangeOverlap s e lo hi = true ↔ ∃ q, s ≤ q ∧ q < e ∧ lo ≤ q ∧ q < hi := by
  have h1 : ¬ e < s := by omega
  have h2 : ¬ hi < lo := by omega
  simp only [rangeOverlap, h1, h2, if_false, Bool.and_eq_true, decide_eq_true_eq]
  constructor
  · rintro ⟨_, _⟩
    by_cases h : s ≤ lo
    · exact ⟨lo, by omega, by omega, by omega, by omega⟩
    · exact ⟨s, by omega, by omega, by omega, by omega⟩
  · rintro ⟨q, _, _, _, _⟩; omega

/-- `Within(lo, hi)` over the denoted residues: all of them lie in `[lo, hi)` -/
theorem within_iff_den (l : Loc) (lo hi : Int) (hp : ProperLeaves l) (hb : lo ≤ hi) :
    within l lo hi = true ↔ ∀ q b, (q, b) ∈ den l → lo ≤ q ∧ q < hi := by
  rw [within_iff_leaves]
  constructor
  · intro h q b hq
    obtain ⟨x, hx, hc⟩ := (den_cover l q).mp ⟨b, hq⟩
    exact (rangeWithin_iff (hp x hx) hb).mp (h x hx) q hc.1 hc.2
  · intro h x hx
    refine (rangeWithin_iff (hp x hx) hb).mpr fun q h1 h2 => ?_
    obtain ⟨b, hq⟩ := (den_cover l q).mpr ⟨x, hx, h1, h2⟩
    exact h q b hq

/-- `Overlap(lo, hi)` over the denoted residues: some of them lies in `[lo, hi)` (for a
non-empty window; with `lo = hi` the code asks for a leaf that strictly contains the site) -/
theorem overlap_iff_den (l : Loc) (lo hi : Int) (hp : ProperLeaves l) (hb : lo < hi) :
    overlap l lo hi = true ↔ ∃ q b, (q, b) ∈ den l ∧ lo ≤ q ∧ q < hi := by
  rw [overlap_iff_leaves]
  constructor
  · rintro ⟨x, hx, h⟩
    obtain ⟨q, h1, h2, h3, h4⟩ := (rangeOverlap_iff (hp x hx) hb).mp h
    obtain ⟨b, hq⟩ := (den_cover l q).mpr ⟨x, hx, h1, h2⟩
    exact ⟨q, b, hq, h3, h4⟩
  · rintro ⟨q, b, hq, h3, h4⟩
    obtain ⟨x, hx, hc⟩ := (den_cover l q).mp ⟨b, hq⟩
    exact ⟨x, hx, (rangeOverlap_iff (hp x hx) hb).mpr ⟨q, hc.1, hc.2, h3, h4⟩⟩

/-! strand -/

theorem strandList_forward (ss : List Nat) : strandList ss = 1 ↔ ∀ s ∈ ss, s = 1 := by
  unfold strandList
  constructor
  · intro h
    by_cases hr : (ss.filter (· != 1)).length = 0
    · intro s hs
      have : ss.filter (· != 1) = [] := List.eq_nil_of_length_eq_zero hr
      rw [List.filter_eq_nil_iff] at this
      simpa using this s hs
    · simp only [hr, if_false] at h
      split at h <;> simp at h
  · intro h
    have : ss.filter (· != 1) = [] := by
      rw [List.filter_eq_nil_iff]; intro s hs; simp [h s hs]
    simp [this]

theorem strandList_reverse (ss : List Nat) : strandList ss = 2 ↔ ss ≠ [] ∧ ∀ s ∈ ss, s = 2 := by
  unfold strandList
  constructor
  · intro h
    by_cases hr : (ss.filter (· != 1)).length = 0
    · simp [hr] at h
    · simp only [hr, if_false] at h
      by_cases hf : (ss.filter (· != 2)).length = 0
      · have h2 : ss.filter (· != 2) = [] := List.eq_nil_of_length_eq_zero hf
        rw [List.filter_eq_nil_iff] at h2
        refine ⟨?_, fun s hs => by simpa using h2 s hs⟩
        rintro rfl; simp at hr
      · simp [hf] at h
  · rintro ⟨hne, h⟩
    have h2 : ss.filter (· != 2) = [] := by
      rw [List.filter_eq_nil_iff]; intro s hs; simp [h s hs]
    have h1 : ss.filter (· != 1) = ss := by
      rw [List.filter_eq_self]; intro s hs; simp [h s hs]
    have : ss.length ≠ 0 := fun e => hne (List.eq_nil_of_length_eq_zero e)
    simp [h1, h2, this]

theorem mem_strands {ls : List Loc} {s : Nat} : s ∈ strands ls ↔ ∃ l ∈ ls, strand l = s := by
  induction ls with
  | nil => simp [strands]
  | cons l ls ih => simp [strands, ih, eq_comm]

end Loc
end Gts
