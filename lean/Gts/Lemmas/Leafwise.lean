/-
  Leaf-wise invariants: a predicate on contiguous leaves that survives the one merge
  `LocationList.Push` performs (`Ranged{a,b}` followed by `Ranged{b,c}` becomes `Ranged{a,c}`)
  holds for every leaf of `Push` / `Join` / `Order` results when it holds for every leaf of the
  arguments (every other rule only keeps or drops a leaf).  Used for the oracle's in-bounds
  predicate `coordsWithin` (C03, C04) and for "no outer end falls into the removed span" (C10).
  Core Lean only.
-/
import Gts.Lemmas.Order
import Gts.Spec.Marks
namespace Gts
namespace Loc

mutual
/-- `Q` holds for every contiguous leaf -/
def allLeaves (Q : Loc → Bool) : Loc → Bool
  | joined ls => allLeavesList Q ls
  | ordered ls => allLeavesList Q ls
  | compl l => allLeaves Q l
  | l => Q l
def allLeavesList (Q : Loc → Bool) : List Loc → Bool
  | [] => true
  | l :: ls => allLeaves Q l && allLeavesList Q ls
end

section
variable (Q : Loc → Bool)

@[simp] theorem allLeaves_between (p : Int) : allLeaves Q (between p) = Q (between p) := by simp [allLeaves]
@[simp] theorem allLeaves_point (p : Int) : allLeaves Q (point p) = Q (point p) := by simp [allLeaves]
@[simp] theorem allLeaves_ranged (s e : Int) (a b : Bool) :
    allLeaves Q (ranged s e a b) = Q (ranged s e a b) := by simp [allLeaves]
@[simp] theorem allLeaves_ambiguous (s e : Int) : allLeaves Q (ambiguous s e) = Q (ambiguous s e) := by
  simp [allLeaves]
@[simp] theorem allLeaves_joined (ls : List Loc) : allLeaves Q (joined ls) = allLeavesList Q ls := by
  simp [allLeaves]
@[simp] theorem allLeaves_ordered (ls : List Loc) : allLeaves Q (ordered ls) = allLeavesList Q ls := by
  simp [allLeaves]
@[simp] theorem allLeaves_compl (l : Loc) : allLeaves Q (compl l) = allLeaves Q l := by simp [allLeaves]
@[simp] theorem allLeavesList_nil : allLeavesList Q [] = true := by simp [allLeavesList]
@[simp] theorem allLeavesList_cons (l : Loc) (ls : List Loc) :
    allLeavesList Q (l :: ls) = (allLeaves Q l && allLeavesList Q ls) := by simp [allLeavesList]

theorem allLeavesList_append (a b : List Loc) :
    allLeavesList Q (a ++ b) = (allLeavesList Q a && allLeavesList Q b) := by
  induction a with
  | nil => simp
  | cons x xs ih => simp [ih, Bool.and_assoc]

theorem allLeavesList_reverse (a : List Loc) : allLeavesList Q a.reverse = allLeavesList Q a := by
  induction a with
  | nil => simp
  | cons x xs ih => simp [allLeavesList_append, ih, Bool.and_comm]

theorem allLeaves_ofParts (j : List Loc) (h : allLeavesList Q j = true) :
    allLeaves Q (ofParts j) = true := by
  match j, h with
  | [], _ => simp [ofParts]
  | [a], h => simpa [ofParts] using h
  | a :: b :: r, h => simpa [ofParts] using h

mutual
/-- `allLeaves Q` is `Q` on every element of the oracle's `leaves` -/
theorem allLeaves_eq_all : ∀ (l : Loc), allLeaves Q l = (leaves l).all Q
  | between p => by simp [leaves]
  | point p => by simp [leaves]
  | ranged s e a b => by simp [leaves]
  | ambiguous s e => by simp [leaves]
  | joined ls => by simpa [leaves] using allLeavesList_eq_all ls
  | ordered ls => by simpa [leaves] using allLeavesList_eq_all ls
  | compl l => by simpa [leaves] using allLeaves_eq_all l
theorem allLeavesList_eq_all : ∀ (ls : List Loc), allLeavesList Q ls = (leavesList ls).all Q
  | [] => by simp [leavesList]
  | l :: ls => by
      simp [leavesList, List.all_append, allLeaves_eq_all l, allLeavesList_eq_all ls]
end

end

/-- the oracle's in-bounds predicate, leaf-wise -/
theorem coordsWithin_eq (l : Loc) (L : Int) : coordsWithin l L = allLeaves (leafWithin L) l := by
  rw [allLeaves_eq_all]; rfl

/-- `Q` survives the merge of two abutting ranges -/
def MergeOK (Q : Loc → Bool) : Prop :=
  ∀ vs ve ue v5 v3 u5 u3, Q (ranged vs ve v5 v3) = true → Q (ranged ve ue u5 u3) = true →
    Q (ranged vs ue v5 u3) = true

/-- a push function keeps the leaf invariant -/
def KeepsLeaves (Q : Loc → Bool) (low : List Loc → Loc → Bool → List Loc) : Prop :=
  ∀ racc x f, allLeavesList Q racc = true → allLeaves Q x = true → allLeavesList Q (low racc x f) = true

theorem fold_leaves {Q low} (h : KeepsLeaves Q low) (f : Bool) :
    ∀ (ys racc : List Loc), allLeavesList Q racc = true → allLeavesList Q ys = true →
      allLeavesList Q (ys.foldl (fun acc y => low acc y f) racc) = true := by
  intro ys
  induction ys with
  | nil => intro racc hr _; simpa using hr
  | cons y ys ih =>
    intro racc hr hys
    simp only [allLeavesList_cons, Bool.and_eq_true] at hys
    exact ih _ (h racc y f hr hys.1) hys.2

theorem pushOne_leaves {Q low} (hm : MergeOK Q) (h : KeepsLeaves Q low) (racc : List Loc) (x : Loc)
    (f : Bool) (hr : allLeavesList Q racc = true) (hx : allLeaves Q x = true) :
    allLeavesList Q (pushOne low racc x f) = true := by
  cases racc with
  | nil => simp [pushOne, hx]
  | cons v rest =>
    simp only [allLeavesList_cons, Bool.and_eq_true] at hr
    obtain ⟨hv, hrest⟩ := hr
    by_cases hcc : (∃ vl ul, v = compl vl ∧ x = compl ul)
    · obtain ⟨vl, ul, rfl, rfl⟩ := hcc
      have hvl : allLeaves Q vl = true := by simpa using hv
      have hul : allLeaves Q ul = true := by simpa using hx
      have h1 : allLeavesList Q (low [ul] vl f) = true := h [ul] vl f (by simp [hul]) hvl
      have h2 := fold_leaves h true (low [ul] vl f).reverse [] (by simp)
        (by rw [allLeavesList_reverse]; exact h1)
      simp only [pushOne, allLeavesList_cons, hrest, Bool.and_true]
      show allLeaves Q (compl (ofParts _)) = true
      rw [allLeaves_compl]
      apply allLeaves_ofParts
      rw [allLeavesList_reverse]
      exact h2
    · by_cases hrr : (∃ vs ve v5 v3 us ue u5 u3, v = ranged vs ve v5 v3 ∧ x = ranged us ue u5 u3)
      · obtain ⟨vs, ve, v5, v3, us, ue, u5, u3, rfl, rfl⟩ := hrr
        simp only [pushOne]
        split
        · rename_i hc
          simp only [Bool.and_eq_true, beq_iff_eq] at hc
          obtain ⟨_, rfl⟩ := hc
          simp only [allLeavesList_cons, allLeaves_ranged, hrest, Bool.and_true]
          exact hm _ _ _ _ _ _ _ (by simpa using hv) (by simpa using hx)
        · simp [hv, hx, hrest]
      · cases v <;> cases x <;>
          (first | (exfalso; exact hcc ⟨_, _, rfl, rfl⟩)
                 | (exfalso; exact hrr ⟨_, _, _, _, _, _, _, _, rfl, rfl⟩) | skip) <;>
          simp only [pushOne] <;>
          (try split) <;>
          simp_all

mutual
theorem pushW_leaves {Q low} (hm : MergeOK Q) (h : KeepsLeaves Q low) :
    ∀ (x : Loc) (racc : List Loc) (f : Bool), allLeavesList Q racc = true → allLeaves Q x = true →
      allLeavesList Q (pushW low racc x f) = true
  | joined parts, racc, f, hr, hx => by
      simpa [pushW] using pushListW_leaves hm h parts racc f hr (by simpa using hx)
  | between q, racc, f, hr, hx => by simpa [pushW] using pushOne_leaves hm h racc (between q) f hr hx
  | point q, racc, f, hr, hx => by simpa [pushW] using pushOne_leaves hm h racc (point q) f hr hx
  | ranged s e a b, racc, f, hr, hx => by
      simpa [pushW] using pushOne_leaves hm h racc (ranged s e a b) f hr hx
  | ambiguous s e, racc, f, hr, hx => by
      simpa [pushW] using pushOne_leaves hm h racc (ambiguous s e) f hr hx
  | ordered ls, racc, f, hr, hx => by simpa [pushW] using pushOne_leaves hm h racc (ordered ls) f hr hx
  | compl l, racc, f, hr, hx => by simpa [pushW] using pushOne_leaves hm h racc (compl l) f hr hx
theorem pushListW_leaves {Q low} (hm : MergeOK Q) (h : KeepsLeaves Q low) :
    ∀ (ps : List Loc) (racc : List Loc) (f : Bool), allLeavesList Q racc = true →
      allLeavesList Q ps = true → allLeavesList Q (pushListW low racc ps f) = true
  | [], racc, f, hr, _ => by simpa [pushListW] using hr
  | q :: ps, racc, f, hr, hps => by
      simp only [allLeavesList_cons, Bool.and_eq_true] at hps
      simpa [pushListW] using
        pushListW_leaves hm h ps _ f (pushW_leaves hm h q racc f hr hps.1) hps.2
end

theorem pushD_leaves {Q} (hm : MergeOK Q) : ∀ d, KeepsLeaves Q (pushD d)
  | 0 => fun racc x f hr hx => by simp [pushD, hr, hx]
  | d + 1 => fun racc x f hr hx => pushW_leaves hm (pushD_leaves hm d) x racc f hr hx

/-- `Join` keeps a merge-stable leaf invariant -/
theorem join_leaves {Q} (hm : MergeOK Q) (xs : List Loc) (h : allLeavesList Q xs = true) :
    allLeaves Q (join xs) = true := by
  have := fold_leaves (pushD_leaves hm pushFuel) true xs [] (by simp) h
  apply allLeaves_ofParts
  rw [allLeavesList_reverse]
  exact this

mutual
theorem allLeavesList_flattenOrd (Q : Loc → Bool) : ∀ (l : Loc), allLeaves Q l = true →
    allLeavesList Q (flattenOrd l) = true
  | ordered ls, h => by simpa [flattenOrd] using allLeavesList_flattenOrdList Q ls (by simpa using h)
  | between q, h => by simpa [flattenOrd] using h
  | point q, h => by simpa [flattenOrd] using h
  | ranged s e a b, h => by simpa [flattenOrd] using h
  | ambiguous s e, h => by simpa [flattenOrd] using h
  | joined ls, h => by simpa [flattenOrd] using h
  | compl l, h => by simpa [flattenOrd] using h
theorem allLeavesList_flattenOrdList (Q : Loc → Bool) : ∀ (ls : List Loc), allLeavesList Q ls = true →
    allLeavesList Q (flattenOrdList ls) = true
  | [], _ => by simp [flattenOrdList]
  | l :: ls, h => by
      simp only [allLeavesList_cons, Bool.and_eq_true] at h
      simp [flattenOrdList, allLeavesList_append, allLeavesList_flattenOrd Q l h.1,
        allLeavesList_flattenOrdList Q ls h.2]
end

/-- `Order` keeps every leaf invariant -/
theorem order_leaves (Q : Loc → Bool) (xs : List Loc) (h : allLeavesList Q xs = true) :
    allLeaves Q (order xs) = true := by
  unfold order
  have := allLeavesList_flattenOrdList Q xs h
  revert this
  generalize flattenOrdList xs = j
  intro hj
  match j, hj with
  | [], _ => simp
  | [a], hj => simpa using hj
  | a :: b :: r, hj => simpa using hj

end Loc
end Gts
