/-
  `Repair` with the sorting algorithm as a parameter, part 2: one class.
  * structural equality of locations is equality;
  * correct sorts (`SortedPerm`): the model's insertion sort, the insertion sort of the reversed
    list, a sort given by a table (`assocSort`); the Boolean check `sortedPermB` is sound;
  * a tie-free list has exactly one sorted permutation;
  * an inert list is pushed to itself, in whatever order;
  * two sorts that agree class by class (or leave the class unreduced) give the same `Repair`.
  Core Lean only.
-/
import Gts.Lemmas.RepairSortSpine
import Gts.Lemmas.RepairRestore
namespace Gts
open Loc

/-! ### structural equality of locations is equality -/

namespace Loc

mutual
theorem beq_self : ∀ a : Loc, Loc.beq a a = true
  | between _ => by simp [Loc.beq]
  | point _ => by simp [Loc.beq]
  | ranged _ _ _ _ => by simp [Loc.beq]
  | ambiguous _ _ => by simp [Loc.beq]
  | joined ls => by simp only [Loc.beq]; exact beqList_self ls
  | ordered ls => by simp only [Loc.beq]; exact beqList_self ls
  | compl l => by simp only [Loc.beq]; exact beq_self l
theorem beqList_self : ∀ a : List Loc, Loc.beqList a a = true
  | [] => by simp [Loc.beqList]
  | l :: ls => by simp only [Loc.beqList, Bool.and_eq_true]; exact ⟨beq_self l, beqList_self ls⟩
end

mutual
theorem eq_of_beq : ∀ a b : Loc, Loc.beq a b = true → a = b
  | between _, b, h => by cases b <;> simp [Loc.beq] at h ⊢; exact h
  | point _, b, h => by cases b <;> simp [Loc.beq] at h ⊢; exact h
  | ranged _ _ _ _, b, h => by cases b <;> simp [Loc.beq] at h ⊢; exact ⟨h.1.1.1, h.1.1.2, h.1.2, h.2⟩
  | ambiguous _ _, b, h => by cases b <;> simp [Loc.beq] at h ⊢; exact h
  | joined ls, b, h => by
    cases b with
    | joined ms => simp only [Loc.beq] at h; rw [eqList_of_beq ls ms h]
    | _ => simp [Loc.beq] at h
  | ordered ls, b, h => by
    cases b with
    | ordered ms => simp only [Loc.beq] at h; rw [eqList_of_beq ls ms h]
    | _ => simp [Loc.beq] at h
  | compl l, b, h => by
    cases b with
    | compl m => simp only [Loc.beq] at h; rw [eq_of_beq l m h]
    | _ => simp [Loc.beq] at h
theorem eqList_of_beq : ∀ a b : List Loc, Loc.beqList a b = true → a = b
  | [], [], _ => rfl
  | x :: xs, y :: ys, h => by
    simp only [Loc.beqList, Bool.and_eq_true] at h
    rw [eq_of_beq x y h.1, eqList_of_beq xs ys h.2]
  | [], _ :: _, h => by simp [Loc.beqList] at h
  | _ :: _, [], h => by simp [Loc.beqList] at h
end

theorem beq_iff (a b : Loc) : Loc.beq a b = true ↔ a = b :=
  ⟨eq_of_beq a b, fun h => h ▸ beq_self a⟩

theorem beqList_iff (a b : List Loc) : Loc.beqList a b = true ↔ a = b :=
  ⟨eqList_of_beq a b, fun h => h ▸ beqList_self a⟩

end Loc

/-! ### `sortedB`, `permB`, `sortedPermB` are sound -/

theorem sortedB_iff {α : Type} (less : α → α → Bool) (l : List α) :
    sortedB less l = true ↔ l.Pairwise fun a b => less b a = false := by
  induction l with
  | nil => simp [sortedB]
  | cons a as ih => simp [sortedB, ih, List.pairwise_cons]

theorem any_beq_iff_mem (a : Loc) (ys : List Loc) : ys.any (Loc.beq a) = true ↔ a ∈ ys := by
  simp only [List.any_eq_true, Loc.beq_iff]
  constructor
  · rintro ⟨x, hx, rfl⟩; exact hx
  · intro h; exact ⟨a, h, rfl⟩

theorem eraseP_beq_perm (a : Loc) (ys : List Loc) (h : a ∈ ys) : ys.Perm (a :: ys.eraseP (Loc.beq a)) := by
  induction ys with
  | nil => cases h
  | cons y ys ih =>
    by_cases e : Loc.beq a y = true
    · have := (Loc.beq_iff a y).mp e
      subst this
      simp [e]
    · have hne : a ≠ y := fun h' => e ((Loc.beq_iff a y).mpr h')
      have hm : a ∈ ys := by
        rcases List.mem_cons.mp h with h | h
        · exact absurd h hne
        · exact h
      simp only [List.eraseP_cons, e]
      exact (List.Perm.cons y (ih hm)).trans (List.Perm.swap a y _)

theorem permB_sound (xs ys : List Loc) (h : permB xs ys = true) : ys.Perm xs := by
  induction xs generalizing ys with
  | nil =>
    simp only [permB, List.isEmpty_iff] at h
    subst h
    exact List.Perm.refl _
  | cons a xs ih =>
    simp only [permB, Bool.and_eq_true] at h
    have hm := (any_beq_iff_mem a ys).mp h.1
    exact (eraseP_beq_perm a ys hm).trans (List.Perm.cons a (ih _ h.2))

theorem sortedPermB_sound (xs ys : List Loc) (h : sortedPermB xs ys = true) : SortedPerm Loc.less xs ys := by
  simp only [sortedPermB, Bool.and_eq_true] at h
  exact ⟨permB_sound xs ys h.1, (sortedB_iff _ _).mp h.2⟩

/-! ### correct sorts -/

theorem notLess_trans (a b c : Loc) (hab : less b a = false) (hbc : less c b = false) : less c a = false := by
  cases hca : less c a with
  | false => rfl
  | true =>
    rcases less_negtrans b hca with h | h
    · rw [hbc] at h; cases h
    · rw [hab] at h; cases h

/-- the insertion sort returns a list in which no later element is less than an earlier one -/
theorem sortLocs_pairwise (l : List Loc) : (sortLocs l).Pairwise fun a b => less b a = false :=
  adj_pairwise (fun a b c => notLess_trans a b c) (sortLocs_adj l)

/-- the model's insertion sort is a correct sort -/
theorem sortLocs_correct : CorrectSort sortLocs := fun xs => ⟨sortLocs_perm xs, sortLocs_pairwise xs⟩

/-- the insertion sort of the reversed list (ties come out in the opposite order) is a correct
sort, too -/
theorem sortLocs_reverse_correct : CorrectSort fun xs => sortLocs xs.reverse :=
  fun xs => ⟨(sortLocs_perm _).trans (List.reverse_perm xs), sortLocs_pairwise _⟩

/-- a table-driven sort is a correct sort, whatever the table -/
theorem assocSort_correct (tbl : List (List Loc × List Loc)) : CorrectSort (assocSort tbl) := by
  intro xs
  simp only [assocSort]
  split
  · split
    · rename_i h; exact sortedPermB_sound _ _ h
    · exact sortLocs_correct xs
  · exact sortLocs_correct xs

/-- a list in which no later element is less than an earlier one is left alone by the insertion
sort -/
theorem sortLocs_of_sorted (p : List Loc) (h : p.Pairwise fun a b => less b a = false) : sortLocs p = p := by
  apply sortLocs_id
  induction p with
  | nil => trivial
  | cons a p ih =>
    cases p with
    | nil => trivial
    | cons b p =>
      have h' := List.pairwise_cons.mp h
      exact ⟨h'.1 b (by simp), ih h'.2⟩

/-! ### a tie-free list has exactly one sorted permutation -/

theorem tieFree_iff (l : List Loc) :
    tieFree l = true ↔ ∀ a ∈ l, ∀ b ∈ l, less a b = true ∨ less b a = true ∨ a = b := by
  simp only [tieFree, List.all_eq_true, comparable, Bool.or_eq_true, Loc.beq_iff, or_assoc]

theorem sortedPerm_unique {xs ys zs : List Loc} (h1 : SortedPerm less xs ys) (h2 : SortedPerm less xs zs)
    (ht : tieFree xs = true) : ys = zs := by
  rw [tieFree_iff] at ht
  apply List.Perm.eq_of_pairwise (le := fun a b => less b a = false) _ h1.sorted h2.sorted
    (h1.perm.trans h2.perm.symm)
  intro a b ha hb hab hba
  rcases ht a (h1.perm.mem_iff.mp ha) b (h2.perm.mem_iff.mp hb) with h | h | h
  · rw [hba] at h; cases h
  · rw [hab] at h; cases h
  · exact h

/-- on a tie-free list every correct sort returns what the insertion sort returns -/
theorem sort_eq_sortLocs_of_tieFree (sort : List Loc → List Loc) (hs : CorrectSort sort) (xs : List Loc)
    (ht : tieFree xs = true) : sort xs = sortLocs xs :=
  sortedPerm_unique (hs xs) (sortLocs_correct xs) ht

/-! ### an inert list is pushed to itself -/

theorem pushOne_inert (low : List Loc → Loc → Bool → List Loc) (v : Loc) (rest : List Loc) (x : Loc) (f : Bool)
    (h : inertPair f v x = true) : pushOne low (v :: rest) x f = x :: v :: rest := by
  cases v <;> cases x <;> simp only [inertPair, bne_iff_ne, ne_eq, Bool.not_eq_true', Bool.false_eq_true] at h <;>
    simp only [pushOne] <;> simp [h]

theorem pushD_inert (d : Nat) (v : Loc) (rest : List Loc) (x : Loc) (f : Bool)
    (hj : x.isJoined = false) (h : inertPair f v x = true) :
    pushD (d + 1) (v :: rest) x f = x :: v :: rest := by
  simp only [pushD, pushW_of_not_joined _ _ _ _ hj]
  exact pushOne_inert _ v rest x f h

theorem pushD_nil (d : Nat) (x : Loc) (f : Bool) (hj : x.isJoined = false) : pushD (d + 1) [] x f = [x] := by
  simp only [pushD, pushW_of_not_joined _ _ _ _ hj, pushOne]

/-- the symmetric closure of `inertPair` -/
def inertBoth (f : Bool) (a b : Loc) : Prop := inertPair f a b = true ∧ inertPair f b a = true

theorem pushAllD_inert (d : Nat) (f : Bool) (ys racc : List Loc)
    (hy : ∀ y ∈ ys, y.isJoined = false)
    (h : (racc.reverse ++ ys).Pairwise (inertBoth f)) :
    pushAllD (d + 1) racc ys f = ys.reverse ++ racc := by
  induction ys generalizing racc with
  | nil => simp [pushAllD]
  | cons y ys ih =>
    have hyj := hy y (by simp)
    have hstep : pushD (d + 1) racc y f = y :: racc := by
      cases racc with
      | nil => exact pushD_nil d y f hyj
      | cons v rest =>
        apply pushD_inert d v rest y f hyj
        exact ((List.pairwise_append.mp h).2.2 v (by simp) y (by simp)).1
    simp only [pushAllD, List.foldl_cons, hstep] at ih ⊢
    rw [ih (y :: racc)]
    · simp
    · intro z hz; exact hy z (by simp [hz])
    · simpa using h

theorem inertList_iff (f : Bool) (l : List Loc) :
    inertList f l = true ↔ (∀ a ∈ l, a.isJoined = false) ∧ l.Pairwise (inertBoth f) := by
  induction l with
  | nil => simp [inertList]
  | cons a as ih =>
    simp only [inertList, Bool.and_eq_true, Bool.not_eq_true', List.all_eq_true, ih, List.mem_cons,
      forall_eq_or_imp, List.pairwise_cons, inertBoth]
    constructor
    · rintro ⟨⟨h1, h2⟩, h3, h4⟩; exact ⟨⟨h1, h3⟩, h2, h4⟩
    · rintro ⟨⟨h1, h3⟩, h2, h4⟩; exact ⟨⟨h1, h2⟩, h3, h4⟩

/-- an inert class, sorted by any function that permutes, is pushed to the sorted list itself -/
theorem pushedOfWith_inert (sort : List Loc → List Loc) (hp : ∀ xs, (sort xs).Perm xs) (f : Bool)
    (xs : List Loc) (hi : inertList f xs = true) : pushedOfWith sort f xs = sort xs := by
  obtain ⟨hj, hpw⟩ := (inertList_iff f xs).mp hi
  have hpw' : (sort xs).Pairwise (inertBoth f) :=
    ((hp xs).pairwise_iff (fun {a b} h => ⟨h.2, h.1⟩)).mpr hpw
  have := pushAllD_inert (pushFuel - 1) f (sort xs) []
    (fun y hy => hj y ((hp xs).mem_iff.mp hy)) (by simpa using hpw')
  have e : pushFuel - 1 + 1 = pushFuel := rfl
  rw [e] at this
  simp only [pushedOfWith, pushAll, this]
  simp

/-! ### two sorts, class by class -/

/-- if two sorts give, for every class, the same writes, kept indices and `nil` flag, they give
the same `Repair` -/
theorem repairWith_congr (s1 s2 : List Loc → List Loc) (t : Table)
    (h : ∀ idx ∈ Table.groups t, classWritesW s1 t idx = classWritesW s2 t idx ∧
      classKeptW s1 t idx = classKeptW s2 t idx ∧ classNilW s1 t idx = classNilW s2 t idx) :
    repairWith s1 t = repairWith s2 t := by
  simp only [repairWith]
  rw [repairOrd_eqW s1 t _ (Table.groups_flatten_nodup t), repairOrd_eqW s2 t _ (Table.groups_flatten_nodup t)]
  have e1 : (Table.groups t).flatMap (classWritesW s1 t) = (Table.groups t).flatMap (classWritesW s2 t) :=
    flatMap_congr' _ _ _ fun idx hi => (h idx hi).1
  have e2 : (Table.groups t).flatMap (classKeptW s1 t) = (Table.groups t).flatMap (classKeptW s2 t) :=
    flatMap_congr' _ _ _ fun idx hi => (h idx hi).2.1
  have e3 : (Table.groups t).any (classNilW s1 t) = (Table.groups t).any (classNilW s2 t) := by
    have : ∀ l : List (List Nat), (∀ idx ∈ l, classNilW s1 t idx = classNilW s2 t idx) →
        l.any (classNilW s1 t) = l.any (classNilW s2 t) := by
      intro l
      induction l with
      | nil => intro _; rfl
      | cons a as ih =>
        intro hl
        simp only [List.any_cons]
        rw [hl a (by simp), ih fun idx hi => hl idx (by simp [hi])]
    exact this _ fun idx hi => (h idx hi).2.2
  rw [e1, e2, e3]

/-- a class whose pushed list is as long as the class is kept as it is -/
theorem class_unreduced (sort : List Loc → List Loc) (t : Table) (idx : List Nat) (hne : idx ≠ [])
    (hl : (classPW sort t idx).length = idx.length) :
    classWritesW sort t idx = [] ∧ classKeptW sort t idx = idx ∧ classNilW sort t idx = false := by
  have hpne : classPW sort t idx ≠ [] := by
    intro e
    rw [e] at hl
    exact hne (List.length_eq_zero_iff.mp hl.symm)
  have hN : ¬ classNW sort t idx < idx.length := by
    rw [classN_of_ne_nilW hpne, hl]; omega
  simp [classWritesW, classKeptW, classNilW, hN]

theorem class_congr_of_sort_eq (s1 s2 : List Loc → List Loc) (t : Table) (idx : List Nat)
    (h : s1 (classLocs t idx) = s2 (classLocs t idx)) :
    classWritesW s1 t idx = classWritesW s2 t idx ∧
      classKeptW s1 t idx = classKeptW s2 t idx ∧ classNilW s1 t idx = classNilW s2 t idx := by
  have e : classPW s1 t idx = classPW s2 t idx := by simp only [classPW, pushedOfWith, h]
  simp only [classWritesW, classKeptW, classNilW, classNW, e]
  exact ⟨rfl, rfl, rfl⟩

/-- **`Repair` does not depend on the sorting algorithm** when every class has a unique sorted
permutation or is inert under `Push` -/
theorem repairWith_eq_of_sortIndep (s1 s2 : List Loc → List Loc) (h1 : CorrectSort s1) (h2 : CorrectSort s2)
    (t : Table) (hg : Table.sortIndep t = true) : repairWith s1 t = repairWith s2 t := by
  apply repairWith_congr
  intro idx hi
  simp only [Table.sortIndep, List.all_eq_true, Bool.or_eq_true] at hg
  rcases hg idx hi with ht | hin
  · exact class_congr_of_sort_eq s1 s2 t idx
      ((sort_eq_sortLocs_of_tieFree s1 h1 _ ht).trans (sort_eq_sortLocs_of_tieFree s2 h2 _ ht).symm)
  · have hne := Table.groups_ne_nil t idx hi
    have hlen := classLocs_length t idx (groups_lt t idx hi)
    have l1 : (classPW s1 t idx).length = idx.length := by
      simp only [classPW]
      rw [pushedOfWith_inert s1 (fun xs => (h1 xs).perm) _ _ hin, (h1 _).perm.length_eq, hlen]
    have l2 : (classPW s2 t idx).length = idx.length := by
      simp only [classPW]
      rw [pushedOfWith_inert s2 (fun xs => (h2 xs).perm) _ _ hin, (h2 _).perm.length_eq, hlen]
    obtain ⟨a1, a2, a3⟩ := class_unreduced s1 t idx hne l1
    obtain ⟨b1, b2, b3⟩ := class_unreduced s2 t idx hne l2
    exact ⟨a1.trans b1.symm, a2.trans b2.symm, a3.trans b3.symm⟩

end Gts
