/-
  Helper lemmas for the cache-key encoding (C14), part 3: encoding/json on the payload shapes.
  A JSON string literal of an ASCII string, a base64 string, a decimal integer in front of `]`, an
  array of self-delimiting elements are all SELF-DELIMITING (`enc a ++ x = enc b ++ y → a = b ∧ x = y`),
  and the first two bytes of an encoded value tell its kind; hence `encodePayload` is injective.
  Core Lean only.
-/
import Gts.Lemmas.KeyEncQuote
import Gts.Lemmas.ModText
namespace Gts.KeyEnc
open Gts.Pars

/-! ### JSON strings of ASCII strings -/

theorem jsonStrGo_ascii : ∀ q : Bytes, (∀ c ∈ q, c.toNat < 0x80) →
    jsonStrGo 0 true q = q.flatMap jsonByte
  | [], _ => rfl
  | b :: rest, h => by
    have hb : b.toNat < 0x80 := h b (by simp)
    rw [jsonStrGo, if_pos hb, jsonStrGo_ascii rest (fun c hc => h c (by simp [hc]))]
    rfl

/-- the byte a JSON backslash letter stands for -/
def junesc (c : UInt8) : UInt8 :=
  if c = 0x62 then 0x08 else if c = 0x66 then 0x0C else if c = 0x6E then 0x0A
  else if c = 0x72 then 0x0D else if c = 0x74 then 0x09 else c

/-- the three shapes of what `appendString` writes for an ASCII byte -/
inductive JCls (b : UInt8) : Bytes → Prop
  | safe : b ≠ 0x5C → b ≠ 0x22 → JCls b [b]
  | esc (c : UInt8) : c ≠ 0x75 → b = junesc c → JCls b [0x5C, c]
  | hex : JCls b [0x5C, 0x75, 0x30, 0x30, hexDigit (b.toNat >>> 4), hexDigit (b.toNat &&& 0xF)]

theorem jsonByte_cls (b : UInt8) : JCls b (jsonByte b) := by
  unfold jsonByte
  by_cases h0 : htmlSafe b = true
  · rw [if_pos h0]
    simp only [htmlSafe, Bool.and_eq_true, bne_iff_ne, ne_eq] at h0
    exact .safe h0.2 h0.1.1.1.1.2
  rw [if_neg h0]
  by_cases h1 : b = 0x5C ∨ b = 0x22
  · rw [if_pos h1]
    rcases h1 with h1 | h1 <;> subst h1 <;> exact .esc _ (by decide) (by decide)
  rw [if_neg h1]
  by_cases h2 : b = 0x08
  · rw [if_pos h2]; subst h2; exact .esc _ (by decide) (by decide)
  rw [if_neg h2]
  by_cases h3 : b = 0x0C
  · rw [if_pos h3]; subst h3; exact .esc _ (by decide) (by decide)
  rw [if_neg h3]
  by_cases h4 : b = 0x0A
  · rw [if_pos h4]; subst h4; exact .esc _ (by decide) (by decide)
  rw [if_neg h4]
  by_cases h5 : b = 0x0D
  · rw [if_pos h5]; subst h5; exact .esc _ (by decide) (by decide)
  rw [if_neg h5]
  by_cases h6 : b = 0x09
  · rw [if_pos h6]; subst h6; exact .esc _ (by decide) (by decide)
  rw [if_neg h6]
  exact .hex

/-- the code words of `appendString` form a prefix code -/
theorem jsonByte_prefix (a b : UInt8) (x y : Bytes) (h : jsonByte a ++ x = jsonByte b ++ y) :
    a = b ∧ x = y := by
  have ha := jsonByte_cls a
  have hb := jsonByte_cls b
  generalize jsonByte a = wa at ha h
  generalize jsonByte b = wb at hb h
  cases ha <;> cases hb <;> simp only [List.cons_append, List.nil_append, List.cons.injEq] at h
  case safe.safe => exact h
  case safe.esc h1 _ _ _ _ => exact absurd h.1 h1
  case safe.hex h1 _ => exact absurd h.1 h1
  case esc.safe _ _ _ h1 _ => exact absurd h.1.symm h1
  case esc.esc c hc ha c' hc' hb => exact ⟨by rw [ha, hb, h.2.1], h.2.2⟩
  case esc.hex c hc ha => exact absurd h.2.1 hc
  case hex.safe h1 _ => exact absurd h.1.symm h1
  case hex.esc c hc hb => exact absurd h.2.1.symm hc
  case hex.hex =>
    have := hexPair_inj (b := a.toNat) (c := b.toNat) (by have := a.toNat_lt; omega)
      (by have := b.toNat_lt; omega) h.2.2.2.2.1 h.2.2.2.2.2.1
    exact ⟨byte_eq this, h.2.2.2.2.2.2⟩

theorem jsonByte_head (a : UInt8) : ∃ c t, jsonByte a = c :: t ∧ c ≠ 0x22 := by
  have ha := jsonByte_cls a
  generalize jsonByte a = wa at ha
  cases ha with
  | safe _ h2 => exact ⟨_, _, rfl, h2⟩
  | esc c _ _ => exact ⟨_, _, rfl, by decide⟩
  | hex => exact ⟨_, _, rfl, by decide⟩

/-- **a JSON string literal of an ASCII string is self-delimiting** -/
theorem jsonString_prefix (q₁ q₂ : Bytes) (h₁ : ∀ c ∈ q₁, c.toNat < 0x80) (h₂ : ∀ c ∈ q₂, c.toNat < 0x80)
    (x y : Bytes) (h : jsonString q₁ ++ x = jsonString q₂ ++ y) : q₁ = q₂ ∧ x = y := by
  unfold jsonString at h
  rw [jsonStrGo_ascii q₁ h₁, jsonStrGo_ascii q₂ h₂] at h
  simp only [List.cons_append, List.append_assoc, List.nil_append, List.cons.injEq, true_and] at h
  exact flatMap_code_inj (fun _ => True) jsonByte 0x22
    (fun a b x y _ _ h => jsonByte_prefix a b x y h) (fun a _ => jsonByte_head a)
    q₁ q₂ x y (fun _ _ => trivial) (fun _ _ => trivial) h

/-! ### quoted strings in JSON -/

theorem quoteToASCII_lt (s : Bytes) : ∀ c ∈ quoteToASCII s, c.toNat < 0x80 := by
  intro c hc
  simp only [quoteToASCII, List.mem_cons, List.mem_append, List.not_mem_nil, or_false] at hc
  rcases hc with rfl | hc | rfl
  · decide
  · have := quoteBody_ascii s.length s (Nat.le_refl _) c hc; omega
  · decide

theorem quoteToASCII_inj {s₁ s₂ : Bytes} (h : quoteToASCII s₁ = quoteToASCII s₂) : s₁ = s₂ := by
  simp only [quoteToASCII, List.cons.injEq, true_and] at h
  have hl := List.append_inj_left' h rfl
  exact quoteBody_injective s₁.length s₁ s₂ (Nat.le_refl _) hl

/-- `exact` of a string, marshalled -/
def qstr (s : Bytes) : Bytes := jsonString (quoteToASCII s)

theorem qstr_prefix (s₁ s₂ x y : Bytes) (h : qstr s₁ ++ x = qstr s₂ ++ y) : s₁ = s₂ ∧ x = y := by
  obtain ⟨hq, hx⟩ := jsonString_prefix _ _ (quoteToASCII_lt s₁) (quoteToASCII_lt s₂) x y h
  exact ⟨quoteToASCII_inj hq, hx⟩

/-- a marshalled quoted string begins with `"\"` -/
theorem qstr_head (s : Bytes) : ∃ t, qstr s = 0x22 :: 0x5C :: t := by
  unfold qstr jsonString quoteToASCII
  rw [jsonStrGo, if_pos (by decide)]
  exact ⟨_, rfl⟩

/-! ### arrays -/

theorem jsonArrayTail_prefix {α : Type} (g : α → Bytes)
    (hg : ∀ a b x y, g a ++ x = g b ++ y → a = b ∧ x = y) :
    ∀ (l₁ l₂ : List α) (x y : Bytes),
      jsonArrayTail (l₁.map g) ++ x = jsonArrayTail (l₂.map g) ++ y → l₁ = l₂ ∧ x = y
  | [], [], x, y, h => by simpa [jsonArrayTail] using h
  | [], b :: l₂, x, y, h => by
    simp only [List.map_nil, List.map_cons, jsonArrayTail, List.cons_append, List.cons.injEq] at h
    exact absurd h.1 (by decide)
  | a :: l₁, [], x, y, h => by
    simp only [List.map_nil, List.map_cons, jsonArrayTail, List.cons_append, List.cons.injEq] at h
    exact absurd h.1 (by decide)
  | a :: l₁, b :: l₂, x, y, h => by
    simp only [List.map_cons, jsonArrayTail, List.cons_append, List.cons.injEq, true_and,
      List.append_assoc] at h
    obtain ⟨hab, hr⟩ := hg a b _ _ h
    obtain ⟨hl, hx⟩ := jsonArrayTail_prefix g hg l₁ l₂ x y hr
    exact ⟨by rw [hab, hl], hx⟩

/-- **an array of self-delimiting elements (none beginning with `]`) is self-delimiting** -/
theorem jsonArray_prefix {α : Type} (g : α → Bytes)
    (hg : ∀ a b x y, g a ++ x = g b ++ y → a = b ∧ x = y)
    (hhead : ∀ a, ∃ c t, g a = c :: t ∧ c ≠ 0x5D) (l₁ l₂ : List α) (x y : Bytes)
    (h : jsonArray (l₁.map g) ++ x = jsonArray (l₂.map g) ++ y) : l₁ = l₂ ∧ x = y := by
  match l₁, l₂ with
  | [], [] => simpa [jsonArray] using h
  | [], b :: l₂ =>
    obtain ⟨c, t, hc, hne⟩ := hhead b
    simp only [List.map_nil, List.map_cons, jsonArray, hc, List.cons_append, List.cons.injEq,
      true_and] at h
    exact absurd h.1.symm hne
  | a :: l₁, [] =>
    obtain ⟨c, t, hc, hne⟩ := hhead a
    simp only [List.map_nil, List.map_cons, jsonArray, hc, List.cons_append, List.cons.injEq,
      true_and] at h
    exact absurd h.1 hne
  | a :: l₁, b :: l₂ =>
    simp only [List.map_cons, jsonArray, List.cons_append, List.cons.injEq, true_and,
      List.append_assoc] at h
    obtain ⟨hab, hr⟩ := hg a b _ _ h
    obtain ⟨hl, hx⟩ := jsonArrayTail_prefix g hg l₁ l₂ x y hr
    exact ⟨by rw [hab, hl], hx⟩

/-! ### base64 -/

theorem b64Char_inj64 : ∀ n m : Fin 64, b64Char n.1 = b64Char m.1 → n = m := by decide
theorem b64Char_inj {n m : Nat} (hn : n < 64) (hm : m < 64) (h : b64Char n = b64Char m) : n = m :=
  Fin.mk.inj (b64Char_inj64 ⟨n, hn⟩ ⟨m, hm⟩ h)
theorem b64Char_ne64 : ∀ n : Fin 64, b64Char n.1 ≠ 0x3D ∧ b64Char n.1 ≠ 0x22 ∧ b64Char n.1 ≠ 0x5C := by decide
theorem b64Char_ne {n : Nat} (hn : n < 64) : b64Char n ≠ 0x3D ∧ b64Char n ≠ 0x22 ∧ b64Char n ≠ 0x5C :=
  b64Char_ne64 ⟨n, hn⟩

theorem base64_three (a b c : UInt8) (r : Bytes) :
    base64 (a :: b :: c :: r) =
      b64Char (a.toNat / 4) :: b64Char (a.toNat % 4 * 16 + b.toNat / 16) ::
        b64Char (b.toNat % 16 * 4 + c.toNat / 64) :: b64Char (c.toNat % 64) :: base64 r := by
  have ha := a.toNat_lt; have hb := b.toNat_lt; have hc := c.toNat_lt
  rw [base64]
  simp only [or_bytes3 a.toNat b.toNat c.toNat (by omega) (by omega), and_3F, Nat.shiftRight_eq_div_pow]
  have e1 : (a.toNat * 65536 + b.toNat * 256 + c.toNat) / 2 ^ 18 % 64 = a.toNat / 4 := by omega
  have e2 : (a.toNat * 65536 + b.toNat * 256 + c.toNat) / 2 ^ 12 % 64 = a.toNat % 4 * 16 + b.toNat / 16 := by omega
  have e3 : (a.toNat * 65536 + b.toNat * 256 + c.toNat) / 2 ^ 6 % 64 = b.toNat % 16 * 4 + c.toNat / 64 := by omega
  have e4 : (a.toNat * 65536 + b.toNat * 256 + c.toNat) % 64 = c.toNat % 64 := by omega
  rw [e1, e2, e3, e4]

theorem base64_two (a b : UInt8) :
    base64 [a, b] =
      [b64Char (a.toNat / 4), b64Char (a.toNat % 4 * 16 + b.toNat / 16), b64Char (b.toNat % 16 * 4), 0x3D] := by
  have ha := a.toNat_lt; have hb := b.toNat_lt
  rw [base64]
  simp only [or_bytes2 a.toNat b.toNat (by omega), and_3F, Nat.shiftRight_eq_div_pow]
  have e1 : (a.toNat * 65536 + b.toNat * 256) / 2 ^ 18 % 64 = a.toNat / 4 := by omega
  have e2 : (a.toNat * 65536 + b.toNat * 256) / 2 ^ 12 % 64 = a.toNat % 4 * 16 + b.toNat / 16 := by omega
  have e3 : (a.toNat * 65536 + b.toNat * 256) / 2 ^ 6 % 64 = b.toNat % 16 * 4 := by omega
  rw [e1, e2, e3]

theorem base64_one (a : UInt8) :
    base64 [a] = [b64Char (a.toNat / 4), b64Char (a.toNat % 4 * 16), 0x3D, 0x3D] := by
  have ha := a.toNat_lt
  rw [base64]
  simp only [Nat.shiftLeft_eq, and_3F, Nat.shiftRight_eq_div_pow]
  have e1 : a.toNat * 2 ^ 16 / 2 ^ 18 % 64 = a.toNat / 4 := by omega
  have e2 : a.toNat * 2 ^ 16 / 2 ^ 12 % 64 = a.toNat % 4 * 16 := by omega
  rw [e1, e2]

/-- **a base64 text in front of a `"` is self-delimiting** -/
theorem base64_prefix : ∀ (n : Nat) (b₁ b₂ x y : Bytes), b₁.length ≤ n →
    base64 b₁ ++ 0x22 :: x = base64 b₂ ++ 0x22 :: y → b₁ = b₂ ∧ x = y := by
  intro n
  induction n with
  | zero =>
    intro b₁ b₂ x y hn h
    have : b₁ = [] := List.eq_nil_of_length_eq_zero (by omega)
    subst this
    match b₂ with
    | [] => simpa [base64] using h
    | [a] =>
      have ha := a.toNat_lt
      rw [base64_one] at h
      simp only [base64, List.nil_append, List.cons_append, List.cons.injEq] at h
      exact absurd h.1.symm (b64Char_ne (by omega)).2.1
    | [a, b] =>
      have ha := a.toNat_lt
      rw [base64_two] at h
      simp only [base64, List.nil_append, List.cons_append, List.cons.injEq] at h
      exact absurd h.1.symm (b64Char_ne (by omega)).2.1
    | a :: b :: c :: r =>
      have ha := a.toNat_lt
      rw [base64_three] at h
      simp only [base64, List.nil_append, List.cons_append, List.cons.injEq] at h
      exact absurd h.1.symm (b64Char_ne (by omega)).2.1
  | succ n ih =>
    intro b₁ b₂ x y hn h
    match b₁, b₂ with
    | [], b₂ => exact (ih [] b₂ x y (by simp) h)
    | [a], [] =>
      have ha := a.toNat_lt
      rw [base64_one] at h
      simp only [base64, List.nil_append, List.cons_append, List.cons.injEq] at h
      exact absurd h.1 (b64Char_ne (by omega)).2.1
    | [a], [a'] =>
      have ha := a.toNat_lt; have ha' := a'.toNat_lt
      rw [base64_one, base64_one] at h
      simp only [List.nil_append, List.cons_append, List.cons.injEq, true_and] at h
      have e1 := b64Char_inj (by omega) (by omega) h.1
      have e2 := b64Char_inj (by omega) (by omega) h.2.1
      exact ⟨by rw [byte_eq (a := a) (b := a') (by omega)], h.2.2⟩
    | [a], [a', b'] =>
      have ha' := a'.toNat_lt; have hb' := b'.toNat_lt
      rw [base64_one, base64_two] at h
      simp only [List.nil_append, List.cons_append, List.cons.injEq] at h
      exact absurd h.2.2.1.symm (b64Char_ne (by omega)).1
    | [a], a' :: b' :: c' :: r' =>
      have ha' := a'.toNat_lt; have hb' := b'.toNat_lt; have hc' := c'.toNat_lt
      rw [base64_one, base64_three] at h
      simp only [List.nil_append, List.cons_append, List.cons.injEq] at h
      exact absurd h.2.2.1.symm (b64Char_ne (by omega)).1
    | [a, b], [] =>
      have ha := a.toNat_lt
      rw [base64_two] at h
      simp only [base64, List.nil_append, List.cons_append, List.cons.injEq] at h
      exact absurd h.1 (b64Char_ne (by omega)).2.1
    | [a, b], [a'] =>
      have ha := a.toNat_lt; have hb := b.toNat_lt
      rw [base64_one, base64_two] at h
      simp only [List.nil_append, List.cons_append, List.cons.injEq] at h
      exact absurd h.2.2.1 (b64Char_ne (by omega)).1
    | [a, b], [a', b'] =>
      have ha := a.toNat_lt; have ha' := a'.toNat_lt; have hb := b.toNat_lt; have hb' := b'.toNat_lt
      rw [base64_two, base64_two] at h
      simp only [List.nil_append, List.cons_append, List.cons.injEq, true_and] at h
      have e1 := b64Char_inj (by omega) (by omega) h.1
      have e2 := b64Char_inj (by omega) (by omega) h.2.1
      have e3 := b64Char_inj (by omega) (by omega) h.2.2.1
      exact ⟨by rw [byte_eq (a := a) (b := a') (by omega), byte_eq (a := b) (b := b') (by omega)], h.2.2.2⟩
    | [a, b], a' :: b' :: c' :: r' =>
      have ha' := a'.toNat_lt; have hb' := b'.toNat_lt; have hc' := c'.toNat_lt
      rw [base64_two, base64_three] at h
      simp only [List.nil_append, List.cons_append, List.cons.injEq] at h
      exact absurd h.2.2.2.1.symm (b64Char_ne (by omega)).1
    | a :: b :: c :: r, [] =>
      have ha := a.toNat_lt
      rw [base64_three] at h
      simp only [base64, List.nil_append, List.cons_append, List.cons.injEq] at h
      exact absurd h.1 (b64Char_ne (by omega)).2.1
    | a :: b :: c :: r, [a'] =>
      have ha := a.toNat_lt; have hb := b.toNat_lt; have hc := c.toNat_lt
      rw [base64_one, base64_three] at h
      simp only [List.nil_append, List.cons_append, List.cons.injEq] at h
      exact absurd h.2.2.1 (b64Char_ne (by omega)).1
    | a :: b :: c :: r, [a', b'] =>
      have ha := a.toNat_lt; have hb := b.toNat_lt; have hc := c.toNat_lt
      rw [base64_two, base64_three] at h
      simp only [List.nil_append, List.cons_append, List.cons.injEq] at h
      exact absurd h.2.2.2.1 (b64Char_ne (by omega)).1
    | a :: b :: c :: r, a' :: b' :: c' :: r' =>
      have ha := a.toNat_lt; have ha' := a'.toNat_lt; have hb := b.toNat_lt; have hb' := b'.toNat_lt
      have hc := c.toNat_lt; have hc' := c'.toNat_lt
      rw [base64_three, base64_three] at h
      simp only [List.cons_append, List.cons.injEq] at h
      have e1 := b64Char_inj (by omega) (by omega) h.1
      have e2 := b64Char_inj (by omega) (by omega) h.2.1
      have e3 := b64Char_inj (by omega) (by omega) h.2.2.1
      have e4 := b64Char_inj (by omega) (by omega) h.2.2.2.1
      obtain ⟨hr, hx⟩ := ih r r' x y (by simp only [List.length_cons] at hn; omega) h.2.2.2.2
      exact ⟨by rw [byte_eq (a := a) (b := a') (by omega), byte_eq (a := b) (b := b') (by omega),
        byte_eq (a := c) (b := c') (by omega), hr], hx⟩

/-! ### integers, booleans -/

theorem natDigits_all (k : Nat) : ∀ c ∈ natDigits k, isDigit c = true := by
  have := (natDigits_spec k).2.1
  simpa [List.all_eq_true] using this

theorem natDigits_inj {a b : Nat} (h : natDigits a = natDigits b) : a = b := by
  have ha := (natDigits_spec a).1
  have hb := (natDigits_spec b).1
  rw [h] at ha; omega

theorem natDigits_prefix (a b : Nat) (x y : Bytes)
    (h : natDigits a ++ 0x5D :: x = natDigits b ++ 0x5D :: y) : a = b ∧ x = y := by
  obtain ⟨hl, hx⟩ := span_inj (fun c => isDigit c = true) 0x5D (by decide) _ _ x y
    (natDigits_all a) (natDigits_all b) h
  exact ⟨natDigits_inj hl, hx⟩

theorem natDigits_head (k : Nat) : ∃ d ds, natDigits k = d :: ds ∧ isDigit d = true := by
  obtain ⟨_, _, d, ds, h, _⟩ := natDigits_spec k
  exact ⟨d, ds, h, natDigits_all k d (by rw [h]; simp)⟩

/-- **a decimal integer in front of `]` is self-delimiting** -/
theorem dec_prefix (n m : Int) (x y : Bytes) (h : dec n ++ 0x5D :: x = dec m ++ 0x5D :: y) :
    n = m ∧ x = y := by
  unfold dec at h
  by_cases hn : n < 0 <;> by_cases hm : m < 0
  · rw [if_pos hn, if_pos hm] at h
    simp only [List.cons_append, List.cons.injEq, true_and] at h
    obtain ⟨he, hx⟩ := natDigits_prefix _ _ x y h
    exact ⟨by omega, hx⟩
  · rw [if_pos hn, if_neg hm] at h
    obtain ⟨d, ds, hd, hdig⟩ := natDigits_head m.toNat
    rw [hd] at h
    simp only [List.cons_append, List.cons.injEq] at h
    rw [← h.1] at hdig; exact absurd hdig (by decide)
  · rw [if_neg hn, if_pos hm] at h
    obtain ⟨d, ds, hd, hdig⟩ := natDigits_head n.toNat
    rw [hd] at h
    simp only [List.cons_append, List.cons.injEq] at h
    rw [h.1] at hdig; exact absurd hdig (by decide)
  · rw [if_neg hn, if_neg hm] at h
    obtain ⟨he, hx⟩ := natDigits_prefix _ _ x y h
    exact ⟨by omega, hx⟩

/-- first byte of a decimal integer: `-` or a digit -/
theorem dec_head (n : Int) : ∃ d ds, dec n = d :: ds ∧ (d = 0x2D ∨ isDigit d = true) := by
  unfold dec
  by_cases hn : n < 0
  · rw [if_pos hn]; exact ⟨_, _, rfl, .inl rfl⟩
  · rw [if_neg hn]
    obtain ⟨d, ds, hd, hdig⟩ := natDigits_head n.toNat
    exact ⟨d, ds, hd, .inr hdig⟩

/-! ### values -/

/-- `exact` of a value, marshalled -/
def jv (v : Value) : Bytes := jsonValue (exact v)

theorem jv_str (s : Bytes) : jv (.str s) = qstr s := rfl
theorem jv_strs (l : List Bytes) : jv (.strs l) = jsonArray (l.map qstr) := by
  simp only [jv, exact, jsonValue, List.map_map]; rfl
theorem jv_bytes (b : Bytes) : jv (.bytes b) = 0x22 :: (base64 b ++ [0x22]) := rfl
theorem jv_int (n : Int) : jv (.int n) = dec n := rfl

/-- the kind of a marshalled value, read off its first two bytes -/
def kindOfHead (c₀ c₁ : UInt8) : Kind :=
  if c₀ = 0x22 then (if c₁ = 0x5C then .str else .bytes)
  else if c₀ = 0x5B then .strs
  else if c₀ = 0x74 ∨ c₀ = 0x66 then .bool
  else .int

theorem base64_head (b : Bytes) (z : Bytes) : ∃ c t, base64 b ++ 0x22 :: z = c :: t ∧ c ≠ 0x5C := by
  match b with
  | [] => exact ⟨_, _, rfl, by decide⟩
  | [a] =>
    have ha := a.toNat_lt
    rw [base64_one]; exact ⟨_, _, rfl, (b64Char_ne (by omega)).2.2⟩
  | [a, b] =>
    have ha := a.toNat_lt
    rw [base64_two]; exact ⟨_, _, rfl, (b64Char_ne (by omega)).2.2⟩
  | a :: b :: c :: r =>
    have ha := a.toNat_lt
    rw [base64_three]; exact ⟨_, _, rfl, (b64Char_ne (by omega)).2.2⟩

/-- **the first two bytes of a marshalled value (followed by `]`) tell its kind** -/
theorem jv_kind (v : Value) (x : Bytes) :
    ∃ c₀ c₁ t, jv v ++ 0x5D :: x = c₀ :: c₁ :: t ∧ kindOfHead c₀ c₁ = v.kind := by
  cases v with
  | str s =>
    obtain ⟨t, ht⟩ := qstr_head s
    rw [jv_str, ht]; exact ⟨_, _, _, rfl, rfl⟩
  | strs l =>
    rw [jv_strs]
    match l with
    | [] => exact ⟨_, _, _, rfl, rfl⟩
    | s :: l =>
      obtain ⟨t, ht⟩ := qstr_head s
      simp only [List.map_cons, jsonArray, ht, List.cons_append]
      exact ⟨_, _, _, rfl, rfl⟩
  | bool b => cases b <;> exact ⟨_, _, _, rfl, rfl⟩
  | int n =>
    obtain ⟨d, ds, hd, hdig⟩ := dec_head n
    rw [jv_int, hd]
    have hk : ∀ c₁, kindOfHead d c₁ = .int := by
      intro c₁
      have h1 : d ≠ 0x22 := by rintro rfl; revert hdig; decide
      have h2 : d ≠ 0x5B := by rintro rfl; revert hdig; decide
      have h3 : ¬ (d = 0x74 ∨ d = 0x66) := by
        rintro (rfl | rfl) <;> revert hdig <;> decide
      simp only [kindOfHead, h1, h2, h3, if_false]
    match ds with
    | [] => exact ⟨_, _, _, rfl, hk _⟩
    | c :: cs => exact ⟨_, _, _, rfl, hk _⟩
  | bytes b =>
    obtain ⟨c, t, hc, hne⟩ := base64_head b (0x5D :: x)
    rw [jv_bytes]
    simp only [List.cons_append, List.append_assoc, List.nil_append, hc]
    refine ⟨_, _, _, rfl, ?_⟩
    simp only [kindOfHead, if_true, hne, if_false, Value.kind]

theorem qstr_head' (s : Bytes) : ∃ c t, qstr s = c :: t ∧ c ≠ 0x5D := by
  obtain ⟨t, ht⟩ := qstr_head s
  exact ⟨_, _, ht, by decide⟩

/-- **a marshalled value in front of `]` is self-delimiting** (whatever the kinds) -/
theorem jv_prefix (v₁ v₂ : Value) (x y : Bytes) (h : jv v₁ ++ 0x5D :: x = jv v₂ ++ 0x5D :: y) :
    v₁ = v₂ ∧ x = y := by
  have hk : v₁.kind = v₂.kind := by
    obtain ⟨a₀, a₁, t, ha, hka⟩ := jv_kind v₁ x
    obtain ⟨b₀, b₁, u, hb, hkb⟩ := jv_kind v₂ y
    rw [ha, hb] at h
    simp only [List.cons.injEq] at h
    rw [← hka, ← hkb, h.1, h.2.1]
  cases v₁ <;> cases v₂ <;> simp only [Value.kind, reduceCtorEq] at hk
  case str.str s₁ s₂ =>
    rw [jv_str, jv_str] at h
    obtain ⟨hs, hx⟩ := qstr_prefix _ _ _ _ h
    simp only [List.cons.injEq, true_and] at hx
    exact ⟨by rw [hs], hx⟩
  case strs.strs l₁ l₂ =>
    rw [jv_strs, jv_strs] at h
    obtain ⟨hl, hx⟩ := jsonArray_prefix qstr qstr_prefix qstr_head' l₁ l₂ _ _ h
    simp only [List.cons.injEq, true_and] at hx
    exact ⟨by rw [hl], hx⟩
  case bool.bool b₁ b₂ =>
    cases b₁ <;> cases b₂ <;>
      simp only [jv, exact, jsonValue, List.cons_append, List.nil_append, List.cons.injEq, true_and] at h
    · exact ⟨rfl, h⟩
    · exact absurd h.1 (by decide)
    · exact absurd h.1 (by decide)
    · exact ⟨rfl, h⟩
  case int.int n m =>
    rw [jv_int, jv_int] at h
    obtain ⟨hn, hx⟩ := dec_prefix n m x y h
    exact ⟨by rw [hn], hx⟩
  case bytes.bytes b₁ b₂ =>
    rw [jv_bytes, jv_bytes] at h
    simp only [List.cons_append, List.append_assoc, List.nil_append, List.cons.injEq, true_and] at h
    obtain ⟨hb, hx⟩ := base64_prefix b₁.length b₁ b₂ _ _ (Nat.le_refl _) h
    simp only [List.cons.injEq, true_and] at hx
    exact ⟨by rw [hb], hx⟩

/-! ### tuples, the payload -/

/-- `tuple{exact(t[0]), exact(t[1])}`, marshalled -/
def jt (t : Tuple) : Bytes := jsonTuple (exactTuple t)

theorem jt_eq (t : Tuple) : jt t = 0x5B :: (qstr t.1 ++ 0x2C :: (jv t.2 ++ [0x5D])) := rfl

theorem jt_prefix (t₁ t₂ : Tuple) (x y : Bytes) (h : jt t₁ ++ x = jt t₂ ++ y) : t₁ = t₂ ∧ x = y := by
  rw [jt_eq, jt_eq] at h
  simp only [List.cons_append, List.append_assoc, List.nil_append, List.cons.injEq, true_and] at h
  obtain ⟨hk, hr⟩ := qstr_prefix _ _ _ _ h
  simp only [List.cons.injEq, true_and] at hr
  obtain ⟨hv, hx⟩ := jv_prefix _ _ _ _ hr
  exact ⟨Prod.ext hk hv, hx⟩

theorem jt_head (t : Tuple) : ∃ c u, jt t = c :: u ∧ c ≠ 0x5D := ⟨_, _, jt_eq t, by decide⟩

theorem encodePayload_eq (p : Payload) : encodePayload p = jsonArray (p.map jt) := by
  simp only [encodePayload, jsonOfPayload, List.map_map]; rfl

/-- **the encoded payload is self-delimiting, in particular injective** -/
theorem encodePayload_prefix (p₁ p₂ : Payload) (x y : Bytes)
    (h : encodePayload p₁ ++ x = encodePayload p₂ ++ y) : p₁ = p₂ ∧ x = y := by
  rw [encodePayload_eq, encodePayload_eq] at h
  exact jsonArray_prefix jt jt_prefix jt_head p₁ p₂ x y h

end Gts.KeyEnc
