/-
  The oracle's `outerLeaves` (first / last residue-bearing leaf in reading order,
  `Gts/Spec/Marks.lean`) computed compositionally (`ol`), and its relation to the denotation:
  the first residue a location reads is the first residue of its first outer leaf, the last one
  the last residue of its last outer leaf.  Core Lean only.
-/
import Gts.Lemmas.Marks
namespace Gts
namespace Loc

/-- a leaf with its reading strand -/
abbrev DL := Loc × Bool
/-- `none`: no residue-bearing leaf; `some (first, last)` -/
abbrev OL := Option (DL × DL)

def ocomb : OL → OL → OL
  | none, b => b
  | some a, none => some a
  | some a, some b => some (a.1, b.2)

def dflip (d : DL) : DL := (d.1, !d.2)

def oswap : OL → OL
  | none => none
  | some a => some (dflip a.2, dflip a.1)

@[simp] theorem ocomb_none_left (b : OL) : ocomb none b = b := rfl
@[simp] theorem ocomb_none_right (a : OL) : ocomb a none = a := by cases a <;> rfl
theorem ocomb_assoc (a b c : OL) : ocomb (ocomb a b) c = ocomb a (ocomb b c) := by
  cases a <;> cases b <;> cases c <;> rfl
theorem oswap_ocomb (a b : OL) : oswap (ocomb a b) = ocomb (oswap b) (oswap a) := by
  cases a <;> cases b <;> rfl
@[simp] theorem oswap_none : oswap none = none := rfl

/-- the outer leaves of one leaf -/
def olLeaf (l : Loc) : OL := if bears (l, false) then some ((l, false), (l, false)) else none

mutual
/-- first / last residue-bearing leaf in reading order, by structural recursion -/
def ol : Loc → OL
  | joined ls => olList ls
  | ordered ls => olList ls
  | compl l => oswap (ol l)
  | l => olLeaf l
def olList : List Loc → OL
  | [] => none
  | l :: ls => ocomb (ol l) (olList ls)
end

@[simp] theorem ol_between (p : Int) : ol (between p) = none := by simp [ol, olLeaf, bears, len]
@[simp] theorem ol_point (p : Int) : ol (point p) = some ((point p, false), (point p, false)) := by
  simp [ol, olLeaf, bears, len]
@[simp] theorem ol_ranged (s e : Int) (a b : Bool) :
    ol (ranged s e a b) =
      if s < e then some ((ranged s e a b, false), (ranged s e a b, false)) else none := by
  by_cases h : s < e <;> simp [ol, olLeaf, bears, len, h]
@[simp] theorem ol_ambiguous (s e : Int) :
    ol (ambiguous s e) = some ((ambiguous s e, false), (ambiguous s e, false)) := by
  simp [ol, olLeaf, bears, len]
@[simp] theorem ol_joined (ls : List Loc) : ol (joined ls) = olList ls := by simp [ol]
@[simp] theorem ol_ordered (ls : List Loc) : ol (ordered ls) = olList ls := by simp [ol]
@[simp] theorem ol_compl (l : Loc) : ol (compl l) = oswap (ol l) := by simp [ol]
@[simp] theorem olList_nil : olList [] = none := by simp [olList]
@[simp] theorem olList_cons (l : Loc) (ls : List Loc) : olList (l :: ls) = ocomb (ol l) (olList ls) := by
  simp [olList]

/-! ### `outerLeaves` is `ol` -/

def lol (F : List DL) : OL := F.foldr (fun d acc => ocomb (some (d, d)) acc) none

@[simp] theorem lol_nil : lol [] = none := rfl
@[simp] theorem lol_cons (d : DL) (F : List DL) : lol (d :: F) = ocomb (some (d, d)) (lol F) := rfl

theorem lol_append (A B : List DL) : lol (A ++ B) = ocomb (lol A) (lol B) := by
  induction A with
  | nil => simp
  | cons a A ih => simp [ih, ocomb_assoc]

theorem lol_eq_ends : ∀ (F : List DL),
    lol F = match F.head?, F.getLast? with
      | some a, some b => some (a, b)
      | _, _ => none
  | [] => rfl
  | [a] => rfl
  | a :: b :: t => by
      have ih := lol_eq_ends (b :: t)
      rw [lol_cons, ih]
      simp only [List.head?_cons, List.getLast?_cons_cons]
      cases h : (b :: t).getLast? with
      | none => simp at h
      | some x => rfl

theorem outerLeaves_eq_lol (l : Loc) : outerLeaves l = lol ((denLeaves l).filter bears) := by
  unfold outerLeaves
  rw [lol_eq_ends]
  cases ((denLeaves l).filter bears).head? <;> cases ((denLeaves l).filter bears).getLast? <;> rfl

theorem lol_flipLeaves (F : List DL) : lol (flipLeaves F) = oswap (lol F) := by
  induction F with
  | nil => rfl
  | cons d F ih =>
    rw [flipLeaves_cons, lol_append, ih, lol_cons (d := d), oswap_ocomb]
    rfl

mutual
theorem ol_eq_lol : ∀ (l : Loc), ol l = lol ((denLeaves l).filter bears)
  | between p => by simp [denLeaves, bears, len]
  | point p => by simp [denLeaves, bears, len, ocomb]
  | ranged s e a b => by
      by_cases h : s < e
      · simp [denLeaves, bears, len, ocomb, h]
      · simp [denLeaves, bears, len, h]
  | ambiguous s e => by simp [denLeaves, bears, len, ocomb]
  | joined ls => by simpa [denLeaves] using olList_eq_lol ls
  | ordered ls => by simpa [denLeaves] using olList_eq_lol ls
  | compl l => by
      rw [ol_compl, ol_eq_lol l]
      simp only [denLeaves]
      rw [filter_bears_flipLeaves, lol_flipLeaves]
theorem olList_eq_lol : ∀ (ls : List Loc), olList ls = lol ((denLeavesList ls).filter bears)
  | [] => by simp [denLeavesList]
  | l :: ls => by
      simp only [olList_cons, denLeavesList, List.filter_append, lol_append]
      rw [ol_eq_lol l, olList_eq_lol ls]
end

/-- **the oracle's `outerLeaves` is the compositional `ol`** -/
theorem outerLeaves_eq (l : Loc) : outerLeaves l = ol l := by
  rw [outerLeaves_eq_lol, ol_eq_lol]

/-! ### the outer residues -/

/-- the residues read from a leaf on its reading strand -/
def leafDen (d : DL) : List Pos := if d.2 then flipDen (den d.1) else den d.1

theorem leafDen_dflip (d : DL) : leafDen (dflip d) = flipDen (leafDen d) := by
  obtain ⟨l, b⟩ := d
  cases b <;> simp [leafDen, dflip, flipDen_flipDen]

theorem head?_flipDen (D : List Pos) : (flipDen D).head? = D.getLast?.map fun p => (p.1, !p.2) := by
  simp [flipDen, List.head?_reverse]

theorem getLast?_flipDen (D : List Pos) : (flipDen D).getLast? = D.head?.map fun p => (p.1, !p.2) := by
  simp [flipDen, List.getLast?_reverse]

theorem flipDen_ne_nil {D : List Pos} (h : D ≠ []) : flipDen D ≠ [] := by
  cases D with
  | nil => exact absurd rfl h
  | cons a t => simp [flipDen]

/-- what `ol` says about the denotation -/
def OuterDen (o : OL) (D : List Pos) : Prop :=
  match o with
  | none => D = []
  | some (a, b) => leafDen a ≠ [] ∧ leafDen b ≠ [] ∧ D.head? = (leafDen a).head? ∧
      D.getLast? = (leafDen b).getLast?

theorem OuterDen.append {o1 o2 : OL} {D1 D2 : List Pos} (h1 : OuterDen o1 D1) (h2 : OuterDen o2 D2) :
    OuterDen (ocomb o1 o2) (D1 ++ D2) := by
  cases o1 with
  | none =>
    simp only [OuterDen] at h1
    subst h1
    simpa using h2
  | some x =>
    obtain ⟨a, b⟩ := x
    cases o2 with
    | none =>
      simp only [OuterDen] at h2
      subst h2
      simpa using h1
    | some y =>
      obtain ⟨c, d⟩ := y
      simp only [OuterDen] at h1 h2 ⊢
      simp only [ocomb]
      obtain ⟨ha, hb, h1h, h1l⟩ := h1
      obtain ⟨hc, hd, h2h, h2l⟩ := h2
      refine ⟨ha, hd, ?_, ?_⟩
      · rw [List.head?_append, h1h]
        cases hx : leafDen a with
        | nil => exact absurd hx ha
        | cons _ _ => simp
      · rw [List.getLast?_append, h2l]
        cases hx : (leafDen d).getLast? with
        | none => exact absurd (List.getLast?_eq_none_iff.mp hx) hd
        | some y => rfl

theorem OuterDen.flip {o : OL} {D : List Pos} (h : OuterDen o D) : OuterDen (oswap o) (flipDen D) := by
  cases o with
  | none =>
    simp only [OuterDen] at h
    subst h
    simp [OuterDen]
  | some x =>
    obtain ⟨a, b⟩ := x
    simp only [OuterDen] at h
    obtain ⟨ha, hb, hh, hl⟩ := h
    simp only [oswap, OuterDen, leafDen_dflip]
    refine ⟨flipDen_ne_nil hb, flipDen_ne_nil ha, ?_, ?_⟩
    · rw [head?_flipDen, head?_flipDen, hl]
    · rw [getLast?_flipDen, getLast?_flipDen, hh]

mutual
/-- the first (last) residue read by a well-formed location is the first (last) residue of its
first (last) outer leaf; without outer leaves it denotes nothing -/
theorem outerDen : ∀ (l : Loc), wf l = true → OuterDen (ol l) (den l)
  | between p, _ => by simp [OuterDen]
  | point p, _ => by simp [OuterDen, leafDen]
  | ranged s e a b, h => by
      have h' : s < e := by simpa [wf] using h
      obtain ⟨m, hm⟩ : ∃ m, (e - s).toNat = m + 1 := ⟨(e - s).toNat - 1, by omega⟩
      simp [OuterDen, leafDen, h', hm, fwd]
  | ambiguous s e, h => by
      have h' : s < e := by simpa [wf] using h
      obtain ⟨m, hm⟩ : ∃ m, (e - s).toNat = m + 1 := ⟨(e - s).toNat - 1, by omega⟩
      simp [OuterDen, leafDen, hm, fwd]
  | joined ls, h => by simpa using outerDenList ls (by simpa [wf] using h)
  | ordered ls, h => by simpa using outerDenList ls (by simpa [wf] using h)
  | compl l, h => by
      rw [ol_compl, den_compl]
      exact (outerDen l (by simpa [wf] using h)).flip
theorem outerDenList : ∀ (ls : List Loc), wfList ls = true → OuterDen (olList ls) (denList ls)
  | [], _ => by simp [OuterDen]
  | l :: ls, h => by
      simp only [wfList_cons, Bool.and_eq_true] at h
      rw [olList_cons, denList_cons]
      exact (outerDen l h.1).append (outerDenList ls h.2)
end

end Loc
end Gts
