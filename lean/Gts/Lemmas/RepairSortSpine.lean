/-
  `Repair` with the sorting algorithm as a parameter (`repairWith sort`, Gts/Model/RepairSort.lean),
  part 1: the lemmas of Gts/Lemmas/Repair.lean, RepairSpec.lean (and the table-level parts of
  RepairCover.lean / RepairIdem.lean) for an ARBITRARY function `sort` — none of them uses any
  property of the sort: the loop over the classes computes, for every class, a function of the
  original table; the result does not depend on the order of the classes; explicit form of the
  result; never a panic; the result class by class.  Core Lean only.
-/
import Gts.Lemmas.RepairIdem
import Gts.Spec.RepairSortGuard
namespace Gts
open Loc

/-! ### one class, as a function of the original table -/

/-- the pushed list of the class (from the original table) -/
def classPW (sort : List Loc → List Loc) (t : Table) (idx : List Nat) : List Loc := pushedOfWith sort (classForce t idx) (classLocs t idx)

/-- `len(list.Slice())` of the class -/
def classNW (sort : List Loc → List Loc) (t : Table) (idx : List Nat) : Nat := sliceLen (classPW sort t idx)

/-- what the class appends to `keep` -/
def classKeptW (sort : List Loc → List Loc) (t : Table) (idx : List Nat) : List Nat :=
  if classNW sort t idx < idx.length then idx.take (classNW sort t idx) else idx

/-- the location writes of the class -/
def classWritesW (sort : List Loc → List Loc) (t : Table) (idx : List Nat) : List (Nat × Loc) :=
  if classNW sort t idx < idx.length then idx.zip (classPW sort t idx) else []

/-- the class writes a `nil` location -/
def classNilW (sort : List Loc → List Loc) (t : Table) (idx : List Nat) : Bool :=
  decide (classNW sort t idx < idx.length) && (classPW sort t idx).isEmpty

theorem classStep_eqW (sort : List Loc → List Loc) (t : Table) (st : RepairSt) (idx : List Nat)
    (h : ∀ i ∈ idx, st.gg[i]? = t[i]?) :
    classStepWith sort t st idx =
      ⟨writeLocs st.gg (classWritesW sort t idx), st.keep ++ classKeptW sort t idx, st.nil || classNilW sort t idx⟩ := by
  simp only [classStepWith, classLocs_congr st.gg t idx h, classKeptW, classWritesW, classNilW, classNW, classPW]
  by_cases h3 : sliceLen (pushedOfWith sort (classForce t idx) (classLocs t idx)) < idx.length
  · simp [h3]
  · simp [h3, writeLocs]

theorem classKept_eq_takeW (sort : List Loc → List Loc) (t : Table) (idx : List Nat) : classKeptW sort t idx = idx.take (classNW sort t idx) := by
  simp only [classKeptW]
  split
  · rfl
  · rw [List.take_of_length_le (by omega)]

theorem classKept_sublistW (sort : List Loc → List Loc) (t : Table) (idx : List Nat) : (classKeptW sort t idx).Sublist idx := by
  rw [classKept_eq_takeW sort]; exact List.take_sublist _ _

theorem classN_posW (sort : List Loc → List Loc) (t : Table) (idx : List Nat) : 0 < classNW sort t idx := by
  simp only [classNW, sliceLen]
  cases h : classPW sort t idx with
  | nil => simp
  | cons a as => simp

theorem classWrites_keys_sublistW (sort : List Loc → List Loc) (t : Table) (idx : List Nat) :
    ((classWritesW sort t idx).map Prod.fst).Sublist idx := by
  simp only [classWritesW]
  split
  · exact zip_fst_sublist _ _
  · simp

/-! ### the loop over the classes -/

/-- the loop over pairwise disjoint classes, started on a table that agrees with the original
on those classes: every class contributes its own writes / kept indices -/
theorem foldl_classStepW (sort : List Loc → List Loc) (t : Table) (cs : List (List Nat)) (st : RepairSt)
    (hnd : cs.flatten.Nodup) (hag : ∀ i ∈ cs.flatten, st.gg[i]? = t[i]?) :
    cs.foldl (classStepWith sort t) st =
      ⟨writeLocs st.gg (cs.flatMap (classWritesW sort t)), st.keep ++ cs.flatMap (classKeptW sort t),
       st.nil || cs.any (classNilW sort t)⟩ := by
  induction cs generalizing st with
  | nil => simp [writeLocs]
  | cons c cs ih =>
    simp only [List.flatten_cons, List.nodup_append] at hnd
    obtain ⟨hc, hcs, hdis⟩ := hnd
    have hagc : ∀ i ∈ c, st.gg[i]? = t[i]? := fun i hi => hag i (by simp [hi])
    simp only [List.foldl_cons, classStep_eqW sort t st c hagc, List.any_cons]
    rw [ih]
    · simp only [List.flatMap_cons, writeLocs_append, List.append_assoc, Bool.or_assoc]
    · exact hcs
    · intro i hi
      have hnot : i ∉ (classWritesW sort t c).map Prod.fst := by
        intro hm
        exact hdis i ((classWrites_keys_sublistW sort t c).subset hm) i hi rfl
      rw [getElem?_writeLocs_of_not_mem _ _ _ hnot]
      exact hag i (by simp [hi])

/-- explicit form of `repairOrdWith sort` over disjoint classes -/
theorem repairOrd_eqW (sort : List Loc → List Loc) (t : Table) (cs : List (List Nat)) (hnd : cs.flatten.Nodup) :
    repairOrdWith sort t cs =
      match compact (writeLocs t (cs.flatMap (classWritesW sort t))) (sortNat (cs.flatMap (classKeptW sort t))) with
        | none => .panic
        | some gg => if cs.any (classNilW sort t) then .nilLoc else .ok gg := by
  simp only [repairOrdWith, foldl_classStepW sort t cs ⟨t, [], false⟩ hnd (fun _ _ => rfl)]
  simp only [Bool.false_or, List.nil_append]
  rfl

theorem classWrites_flat_nodupW (sort : List Loc → List Loc) (t : Table) (cs : List (List Nat)) (hnd : cs.flatten.Nodup) :
    ((cs.flatMap (classWritesW sort t)).map Prod.fst).Nodup := by
  rw [List.map_flatMap]
  refine List.Nodup.sublist ?_ hnd
  have e : cs.flatten = cs.flatMap id := List.flatMap_id.symm
  rw [e]
  exact sublist_flatMap cs _ _ fun c _ => classWrites_keys_sublistW sort t c

/-- **the result does not depend on the order in which Go's `range` visits the map** -/
theorem repairOrd_permW (sort : List Loc → List Loc) (t : Table) (cs cs' : List (List Nat)) (hp : cs.Perm cs')
    (hnd : cs.flatten.Nodup) : repairOrdWith sort t cs = repairOrdWith sort t cs' := by
  have hnd' : cs'.flatten.Nodup := (hp.flatten.nodup_iff).mp hnd
  rw [repairOrd_eqW sort t cs hnd, repairOrd_eqW sort t cs' hnd']
  rw [hp.any_eq (f := classNilW sort t)]
  rw [sortNat_eq_of_perm (hp.flatMap_right (classKeptW sort t))]
  rw [writeLocs_congr t _ _ (classWrites_flat_nodupW sort t cs hnd) (classWrites_flat_nodupW sort t cs' hnd')
    (fun w => (hp.flatMap_right (classWritesW sort t)).mem_iff)]


/-! ### explicit form of the result -/

/-- the kept indices, ascending -/
def specKeepW (sort : List Loc → List Loc) (t : Table) : List Nat := sortNat ((Table.groups t).flatMap (classKeptW sort t))

/-- the table after the location writes -/
def specGGW (sort : List Loc → List Loc) (t : Table) : Table := writeLocs t ((Table.groups t).flatMap (classWritesW sort t))

/-- the table `Repair` returns (when it writes no `nil` location) -/
def specRepairW (sort : List Loc → List Loc) (t : Table) : Table := (specKeepW sort t).filterMap fun j => (specGGW sort t)[j]?

theorem noNil_iffW (sort : List Loc → List Loc) (t : Table) :
    Table.noNilWith sort t = true ↔ (Table.groups t).any (classNilW sort t) = false := by
  simp only [Table.noNilWith, classNilW, classNW, classPW, List.all_eq_true, List.any_eq_false,
    Bool.not_eq_true', Bool.not_eq_true]
  exact Iff.rfl

theorem classN_of_ne_nilW {sort : List Loc → List Loc} {t : Table} {idx : List Nat} (h : classPW sort t idx ≠ []) :
    classNW sort t idx = (classPW sort t idx).length := by
  simp only [classNW, sliceLen]
  cases hp : classPW sort t idx with
  | nil => exact absurd hp h
  | cons a as => simp

theorem specKeep_sublistW (sort : List Loc → List Loc) (t : Table) :
    ((Table.groups t).flatMap (classKeptW sort t)).Sublist (Table.groups t).flatten := by
  have e : (Table.groups t).flatten = (Table.groups t).flatMap id := List.flatMap_id.symm
  rw [e]
  exact sublist_flatMap _ _ _ fun idx _ => classKept_sublistW sort t idx

theorem specKeep_sortedW (sort : List Loc → List Loc) (t : Table) : (specKeepW sort t).Pairwise (· < ·) := by
  have hnd : (specKeepW sort t).Nodup :=
    ((sortNat_perm _).nodup_iff).mpr (List.Nodup.sublist (specKeep_sublistW sort t) (Table.groups_flatten_nodup t))
  have h1 := sortNat_sorted ((Table.groups t).flatMap (classKeptW sort t))
  have h2 : (specKeepW sort t).Pairwise (· ≠ ·) := hnd
  exact (h1.and h2).imp fun ⟨a, b⟩ => Nat.lt_of_le_of_ne a b

/-- **`Repair` on every table**: never a panic; the explicit table, or the `nil`-location
outcome when some class of two or more members has an empty pushed list -/
theorem repair_eqW (sort : List Loc → List Loc) (t : Table) :
    repairWith sort t = if (Table.groups t).any (classNilW sort t) then .nilLoc else .ok (specRepairW sort t) := by
  have hb : ∀ j ∈ specKeepW sort t, j < (specGGW sort t).length := by
    intro j hj
    have hj' : j ∈ (Table.groups t).flatten := (specKeep_sublistW sort t).subset ((sortNat_perm _).mem_iff.mp hj)
    simpa [specGGW] using (Table.mem_groups_flatten t j).mp hj'
  rw [repairWith, repairOrd_eqW sort t _ (Table.groups_flatten_nodup t)]
  have := compact_incr (specGGW sort t) (specKeepW sort t) (specKeep_sortedW sort t) hb
  simp only [specGGW, specKeepW] at this
  rw [this]
  rfl

theorem repair_eq_specW (sort : List Loc → List Loc) (t : Table) (h : (Table.groups t).any (classNilW sort t) = false) :
    repairWith sort t = .ok (specRepairW sort t) := by
  rw [repair_eqW sort, h]; rfl

/-- what `repairWith sort t = .ok t'` says -/
theorem repair_okW (sort : List Loc → List Loc) (t t' : Table) (h : repairWith sort t = .ok t') :
    (Table.groups t).any (classNilW sort t) = false ∧ t' = specRepairW sort t := by
  rw [repair_eqW sort] at h
  cases hn : (Table.groups t).any (classNilW sort t) with
  | true => rw [hn] at h; simp at h
  | false => rw [hn] at h; simp at h; exact ⟨rfl, h.symm⟩


/-! ### nothing merged, nothing changed -/

/-- if no class is reduced by the push loop (`len(locs) ≥ len(indices)` everywhere), `Repair`
returns its argument -/
theorem repair_unchangedW' (sort : List Loc → List Loc) (t : Table)
    (h : ∀ idx ∈ Table.groups t, idx.length ≤ classNW sort t idx) : repairWith sort t = .ok t := by
  have hnil : (Table.groups t).any (classNilW sort t) = false := by
    rw [List.any_eq_false]
    intro idx hi
    have := h idx hi
    simp only [classNilW, Bool.and_eq_true, decide_eq_true_eq, not_and]
    intro h'; omega
  rw [repair_eq_specW sort t hnil]
  have hw : (Table.groups t).flatMap (classWritesW sort t) = [] := by
    rw [List.flatMap_eq_nil_iff]
    intro idx hi
    have := h idx hi
    have : ¬ classNW sort t idx < idx.length := by omega
    simp [classWritesW, this]
  have hk : (Table.groups t).flatMap (classKeptW sort t) = (Table.groups t).flatten := by
    rw [← List.flatMap_id]
    apply flatMap_congr'
    intro idx hi
    have := h idx hi
    have : ¬ classNW sort t idx < idx.length := by omega
    simp [classKeptW, this]
  have hkeep : specKeepW sort t = List.range t.length := by
    simp only [specKeepW, hk]
    exact sortNat_eq_self_of_sorted (Table.groups_flatten_perm t) (List.pairwise_lt_range.imp Nat.le_of_lt)
  simp only [specRepairW, specGGW, hw, writeLocs, hkeep]
  rw [range_filterMap_getElem? t t.length (Nat.le_refl _), List.take_length]

/-- if in every class the pushed list is as long as the class, `Repair` returns its argument -/
theorem repair_unchangedW (sort : List Loc → List Loc) (t : Table)
    (h : ∀ idx ∈ Table.groups t, (classPW sort t idx).length = idx.length) : repairWith sort t = .ok t := by
  apply repair_unchangedW' sort
  intro idx hi
  have hne : classPW sort t idx ≠ [] := by
    intro e
    have := h idx hi
    rw [e] at this
    exact Table.groups_ne_nil t idx hi (List.length_eq_zero_iff.mp this.symm)
  rw [classN_of_ne_nilW hne, h idx hi]
  exact Nat.le_refl _

theorem ne_nil_of_noNilW (sort : List Loc → List Loc) (t : Table) (hnil : (Table.groups t).any (classNilW sort t) = false)
    (idx : List Nat) (hi : idx ∈ Table.groups t) (hc : classNW sort t idx < idx.length) : classPW sort t idx ≠ [] := by
  rw [List.any_eq_false] at hnil
  have := hnil idx hi
  simp only [classNilW, Bool.and_eq_true, decide_eq_true_eq, not_and, List.isEmpty_iff] at this
  exact this hc



/-- the locations of a class after `Repair` -/
def classNewW (sort : List Loc → List Loc) (t : Table) (idx : List Nat) : List Loc :=
  if classNW sort t idx < idx.length then classPW sort t idx else classLocs t idx


theorem mem_specKeepW (sort : List Loc → List Loc) (t : Table) (j : Nat) :
    j ∈ specKeepW sort t ↔ ∃ idx ∈ Table.groups t, j ∈ idx.take (classNW sort t idx) := by
  simp only [specKeepW, (sortNat_perm _).mem_iff, List.mem_flatMap, classKept_eq_takeW sort]

/-- the entry of the written table at a member of a class without writes -/
theorem specGG_of_no_writesW (sort : List Loc → List Loc) (t : Table) (idx : List Nat) (hi : idx ∈ Table.groups t)
    (hw : classWritesW sort t idx = []) (j : Nat) (hj : j ∈ idx) : (specGGW sort t)[j]? = t[j]? := by
  apply getElem?_writeLocs_of_not_mem
  intro hm
  rw [List.map_flatMap, List.mem_flatMap] at hm
  obtain ⟨idx', hi', hj'⟩ := hm
  have := group_unique t idx idx' hi hi' j hj ((classWrites_keys_sublistW sort t idx').subset hj')
  subst this
  rw [hw] at hj'
  cases hj'

theorem specGG_of_writeW (sort : List Loc → List Loc) (t : Table) (idx : List Nat) (hi : idx ∈ Table.groups t)
    (j : Nat) (l : Loc) (hw : (j, l) ∈ classWritesW sort t idx) :
    (specGGW sort t)[j]? = t[j]?.map fun f => { f with loc := l } := by
  apply getElem?_writeLocs_of_mem _ _ _ _ (classWrites_flat_nodupW sort t _ (Table.groups_flatten_nodup t))
  exact List.mem_flatMap.mpr ⟨idx, hi, hw⟩

theorem specGG_classKeyW (sort : List Loc → List Loc) (t : Table) (j : Nat) :
    (specGGW sort t)[j]?.map classKey = t[j]?.map classKey := by
  have := writeLocs_key t ((Table.groups t).flatMap (classWritesW sort t)) j
  simp only [specGGW]
  cases h1 : (writeLocs t ((Table.groups t).flatMap (classWritesW sort t)))[j]? with
  | none => rw [h1] at this; cases h2 : t[j]? with
    | none => rfl
    | some f => rw [h2] at this; cases this
  | some g => rw [h1] at this; cases h2 : t[j]? with
    | none => rw [h2] at this; cases this
    | some f =>
      rw [h2] at this
      simp only [Option.map_some, Option.some.injEq, Prod.mk.injEq] at this
      simp [classKey_congr this.1 this.2]

/-- **the result, class by class**: the features with grouping text `k` carry, in table order,
the pushed list of the class if that is shorter than the class, and their old locations
otherwise -/
theorem locsOf_specRepairW (sort : List Loc → List Loc) (t : Table) (hnil : (Table.groups t).any (classNilW sort t) = false) (k : String)
    (hk : k ∈ Table.classKeys t) :
    Table.locsOf (specRepairW sort t) k = classNewW sort t (Table.memberIdx t k) := by
  have hidx : Table.memberIdx t k ∈ Table.groups t := List.mem_map.mpr ⟨k, hk, rfl⟩
  have hlt := groups_lt t _ hidx
  -- step 1: select the class among the kept indices
  have h1 : Table.locsOf (specRepairW sort t) k =
      ((specKeepW sort t).filter fun j => decide (j ∈ Table.memberIdx t k)).filterMap
        (fun j => (specGGW sort t)[j]?.map (·.loc)) := by
    simp only [Table.locsOf, specRepairW]
    rw [← List.filterMap_eq_filter, List.filterMap_filterMap, List.map_filterMap, List.filterMap_filter]
    apply filterMap_congr'
    intro j hj
    obtain ⟨idx', hi', hj'⟩ := (mem_specKeepW sort t j).mp hj
    have hjlt : j < t.length := groups_lt t idx' hi' j (List.mem_of_mem_take hj')
    have hkey := specGG_classKeyW sort t j
    rw [List.getElem?_eq_getElem hjlt] at hkey
    cases hg : (specGGW sort t)[j]? with
    | none => rw [hg] at hkey; cases hkey
    | some g =>
      rw [hg] at hkey
      simp only [Option.map_some, Option.some.injEq] at hkey
      have hmem : j ∈ Table.memberIdx t k ↔ classKey g = k := by
        rw [Table.mem_memberIdx, hkey]
        constructor
        · rintro ⟨f, hf, hfk⟩
          rw [List.getElem?_eq_getElem hjlt] at hf
          cases hf
          exact hfk
        · intro h; exact ⟨t[j], List.getElem?_eq_getElem hjlt, h⟩
      by_cases hc : classKey g = k
      · simp [hc, hmem.mpr hc, Option.guard]
      · have : ¬ j ∈ Table.memberIdx t k := fun h => hc (hmem.mp h)
        simp [hc, this, Option.guard]
  -- step 2: those are the first `classNW sort` members
  have h2 : ((specKeepW sort t).filter fun j => decide (j ∈ Table.memberIdx t k)) =
      (Table.memberIdx t k).take (classNW sort t (Table.memberIdx t k)) := by
    apply sorted_ext_nat ((specKeep_sortedW sort t).filter _)
      ((Table.memberIdx_sorted t k).sublist (List.take_sublist _ _))
    intro j
    simp only [List.mem_filter, decide_eq_true_eq, mem_specKeepW sort t]
    constructor
    · rintro ⟨⟨idx', hi', hj'⟩, hj⟩
      have := group_unique t idx' _ hi' hidx j (List.mem_of_mem_take hj') hj
      subst this
      exact hj'
    · intro hj
      exact ⟨⟨_, hidx, hj⟩, List.mem_of_mem_take hj⟩
  rw [h1, h2]
  -- step 3: their locations
  simp only [classNewW]
  by_cases hc : classNW sort t (Table.memberIdx t k) < (Table.memberIdx t k).length
  · simp only [hc, if_true]
    have hw : classWritesW sort t (Table.memberIdx t k) = (Table.memberIdx t k).zip (classPW sort t (Table.memberIdx t k)) := by
      simp [classWritesW, hc]
    have hne := ne_nil_of_noNilW sort t hnil _ hidx hc
    have hN := classN_of_ne_nilW hne
    rw [hN]
    apply zip_take_filterMap _ _ _ (by rw [hN] at hc; omega)
    intro w hwm
    have hwm' : (w.1, w.2) ∈ classWritesW sort t (Table.memberIdx t k) := by rw [hw]; exact hwm
    rw [specGG_of_writeW sort t _ hidx w.1 w.2 hwm']
    have : w.1 < t.length := hlt w.1 ((zip_fst_sublist _ _).subset (List.mem_map.mpr ⟨w, hwm, rfl⟩))
    simp [List.getElem?_eq_getElem this]
  · simp only [hc, if_false]
    have hw : classWritesW sort t (Table.memberIdx t k) = [] := by simp [classWritesW, hc]
    rw [List.take_of_length_le (by omega)]
    simp only [classLocs]
    apply filterMap_congr'
    intro j hj
    rw [specGG_of_no_writesW sort t _ hidx hw j hj]


theorem mem_specRepairW (sort : List Loc → List Loc) (t : Table) (f : Feature) (h : f ∈ specRepairW sort t) :
    ∃ j, j ∈ specKeepW sort t ∧ (specGGW sort t)[j]? = some f := by
  simpa [specRepairW, List.mem_filterMap] using h

theorem locsOf_specRepair_of_not_memW (sort : List Loc → List Loc) (t : Table) (k : String)
    (hk : k ∉ Table.classKeys t) : Table.locsOf (specRepairW sort t) k = [] := by
  simp only [Table.locsOf, List.map_eq_nil_iff, List.filter_eq_nil_iff, beq_iff_eq]
  intro f hf hfk
  obtain ⟨j, hj, hg⟩ := mem_specRepairW sort t f hf
  obtain ⟨idx, hi, hj'⟩ := (mem_specKeepW sort t j).mp hj
  have hjlt : j < t.length := groups_lt t idx hi j (List.mem_of_mem_take hj')
  have hkey := specGG_classKeyW sort t j
  rw [hg, List.getElem?_eq_getElem hjlt] at hkey
  simp only [Option.map_some, Option.some.injEq] at hkey
  exact hk ((Table.mem_classKeys t k).mpr ⟨t[j], List.getElem_mem hjlt, by rw [← hkey, hfk]⟩)


theorem featsOf_specRepairW (sort : List Loc → List Loc) (t : Table) (k : String)
    (hk : k ∈ Table.classKeys t) :
    Table.featsOf (specRepairW sort t) k =
      ((Table.memberIdx t k).take (classNW sort t (Table.memberIdx t k))).filterMap fun j => (specGGW sort t)[j]? := by
  have hidx : Table.memberIdx t k ∈ Table.groups t := List.mem_map.mpr ⟨k, hk, rfl⟩
  have h1 : Table.featsOf (specRepairW sort t) k =
      ((specKeepW sort t).filter fun j => decide (j ∈ Table.memberIdx t k)).filterMap
        (fun j => (specGGW sort t)[j]?) := by
    simp only [Table.featsOf, specRepairW]
    rw [← List.filterMap_eq_filter, List.filterMap_filterMap, List.filterMap_filter]
    apply filterMap_congr'
    intro j hj
    obtain ⟨idx', hi', hj'⟩ := (mem_specKeepW sort t j).mp hj
    have hjlt : j < t.length := groups_lt t idx' hi' j (List.mem_of_mem_take hj')
    have hkey := specGG_classKeyW sort t j
    rw [List.getElem?_eq_getElem hjlt] at hkey
    cases hg : (specGGW sort t)[j]? with
    | none => rw [hg] at hkey; cases hkey
    | some g =>
      rw [hg] at hkey
      simp only [Option.map_some, Option.some.injEq] at hkey
      have hmem : j ∈ Table.memberIdx t k ↔ classKey g = k := by
        rw [Table.mem_memberIdx, hkey]
        constructor
        · rintro ⟨f, hf, hfk⟩
          rw [List.getElem?_eq_getElem hjlt] at hf
          cases hf
          exact hfk
        · intro h; exact ⟨t[j], List.getElem?_eq_getElem hjlt, h⟩
      by_cases hc : classKey g = k
      · simp [hc, hmem.mpr hc, Option.guard]
      · have : ¬ j ∈ Table.memberIdx t k := fun h => hc (hmem.mp h)
        simp [hc, this, Option.guard]
  have h2 : ((specKeepW sort t).filter fun j => decide (j ∈ Table.memberIdx t k)) =
      (Table.memberIdx t k).take (classNW sort t (Table.memberIdx t k)) := by
    apply sorted_ext_nat ((specKeep_sortedW sort t).filter _)
      ((Table.memberIdx_sorted t k).sublist (List.take_sublist _ _))
    intro j
    simp only [List.mem_filter, decide_eq_true_eq, mem_specKeepW sort t]
    constructor
    · rintro ⟨⟨idx', hi', hj'⟩, hj⟩
      have := group_unique t idx' _ hi' hidx j (List.mem_of_mem_take hj') hj
      subst this
      exact hj'
    · intro hj
      exact ⟨⟨_, hidx, hj⟩, List.mem_of_mem_take hj⟩
  rw [h1, h2]


theorem forceOf_specRepairW (sort : List Loc → List Loc) (t : Table) (k : String)
    (hk : k ∈ Table.classKeys t) : Table.forceOf (specRepairW sort t) k = Table.forceOf t k := by
  have hidx : Table.memberIdx t k ∈ Table.groups t := List.mem_map.mpr ⟨k, hk, rfl⟩
  have hpos : 0 < classNW sort t (Table.memberIdx t k) := classN_posW sort t _
  simp only [Table.forceOf, featsOf_specRepairW sort t k hk, featsOf_eq]
  cases h : Table.memberIdx t k with
  | nil => simp
  | cons i is =>
    have hi : i ∈ Table.memberIdx t k := by rw [h]; simp
    obtain ⟨f, hf, _⟩ := (Table.mem_memberIdx t k i).mp hi
    have hkey := writeLocs_key t ((Table.groups t).flatMap (classWritesW sort t)) i
    rw [h] at hpos
    obtain ⟨n, hn⟩ : ∃ n, classNW sort t (i :: is) = n + 1 := ⟨classNW sort t (i :: is) - 1, by omega⟩
    rw [hn, List.take_succ_cons, List.filterMap_cons, List.filterMap_cons, hf]
    cases hg : (specGGW sort t)[i]? with
    | none => simp only [specGGW] at hg; rw [hg, hf] at hkey; cases hkey
    | some g =>
      simp only [specGGW] at hg
      rw [hg, hf] at hkey
      simp only [Option.map_some, Option.some.injEq, Prod.mk.injEq] at hkey
      simp [hkey.1]

theorem mem_classKeys_of_specRepairW (sort : List Loc → List Loc) (t : Table) (k : String)
    (hk : k ∈ Table.classKeys (specRepairW sort t)) : k ∈ Table.classKeys t := by
  obtain ⟨f, hf, hfk⟩ := (Table.mem_classKeys _ k).mp hk
  obtain ⟨j, hj, hg⟩ := mem_specRepairW sort t f hf
  obtain ⟨idx, hi, hj'⟩ := (mem_specKeepW sort t j).mp hj
  have hjlt : j < t.length := groups_lt t idx hi j (List.mem_of_mem_take hj')
  have hkey := specGG_classKeyW sort t j
  rw [hg, List.getElem?_eq_getElem hjlt] at hkey
  simp only [Option.map_some, Option.some.injEq] at hkey
  exact (Table.mem_classKeys t k).mpr ⟨t[j], List.getElem_mem hjlt, by rw [← hkey, hfk]⟩



end Gts
