/-
  C07, "never hangs", second part: the fuelled loops of the feature-table reader and of REFERENCE.

  * `literalMore` (continuation lines of a literal qualifier value): a round that goes on has read
    the prefix, one more byte and a line — at least one byte, in ANY state;
  * `qualifiers` (`pars.Many(qualifierParser)`): a qualifier that is read has consumed `prefix/`;
  * `tableMore` (the key-line loop of `INSDCTableParser`): a key line that is read has consumed its
    key;
  * `refSubfields` (`pars.Many(genbankReferenceSubfieldParser)`): a sub-field that is read has
    consumed its name.
  The last three need the forward invariant of ParsProgress (the failing location parser leaks
  frames, `pars.Any` pops): from a SORTED state nothing goes back behind the start of the round.
  Core Lean only.
-/
import Gts.Lemmas.GbProgress
namespace Gts.GenBank
open Gts.Pars

/-! ### the forward invariant for the table reader -/

macro_rules | `(tactic| safeW_side) => `(tactic| (with_reducible apply Safe.toW; with_reducible exact quoted_safe))
macro_rules | `(tactic| safeW_side) => `(tactic| (with_reducible apply Safe.toW; with_reducible exact next_safe))
macro_rules | `(tactic| safeW_side) => `(tactic| (with_reducible apply Safe.toW; with_reducible exact spaces_safe))
macro_rules | `(tactic| safeW_side) => `(tactic| (with_reducible apply Safe.toW; with_reducible exact qualifierName_safe _))
macro_rules | `(tactic| safeW_side) => `(tactic| (with_reducible apply Safe.toW; with_reducible exact location_safe))
macro_rules | `(tactic| safeW_side) => `(tactic| (with_reducible apply Safe.toW; with_reducible exact keyline_safe _ _))
macro_rules | `(tactic| safeW_side) => `(tactic| (with_reducible apply Safe.toW; with_reducible exact blanks_safe _))

theorem quotedValue_safeW (pre : Bytes) : SafeW (quotedValue pre) := by
  unfold quotedValue; wpw_run

macro_rules | `(tactic| safeW_side) => `(tactic| with_reducible exact quotedValue_safeW _)

/-- the continuation loop runs with the frame of `literalQualifierParser` on the stack and
gives it up (`Drop`, or `Pop` back to the start of the line that belongs to the next qualifier) -/
theorem literalMore_wpw (pre : Bytes) : ∀ f p L n s, Fw L (n + 1) s →
    WP (literalMore pre f p) (StdW L n) s
  | 0, p, L, n, s, h => by unfold literalMore; repeat wpw_step
  | f + 1, p, L, n, s, h => by
    have ih := literalMore_wpw pre f
    unfold literalMore
    repeat (first
      | exact ih _ _ _ _ ‹_›
      | wpw_step)

theorem literalValue_safeW (pre : Bytes) : SafeW (literalValue pre) := by
  intro L n s h
  unfold literalValue
  repeat (first
    | (with_reducible refine wp_mono (literalMore_wpw pre _ _ L (n + 1) _ ‹_›) ?_; intro _ _ hstd;
       change Fw L (n + 1) _ at hstd)
    | wpw_step)

macro_rules | `(tactic| safeW_side) => `(tactic| with_reducible exact literalValue_safeW _)

theorem qualifier_safeW (pre : Bytes) (reg : Registry) : SafeW (qualifier pre reg) := by
  unfold qualifier; wpw_run

macro_rules | `(tactic| safeW_side) => `(tactic| with_reducible exact qualifier_safeW _ _)

theorem qualifiers_safeW (pre : Bytes) : ∀ f reg acc, SafeW (qualifiers pre f reg acc)
  | 0, reg, acc => by unfold qualifiers; wpw_run
  | f + 1, reg, acc => by
    have ih := qualifiers_safeW pre f
    unfold qualifiers; wpw_run

macro_rules | `(tactic| safeW_side) => `(tactic| with_reducible exact qualifiers_safeW _ _ _ _)

theorem firstKeyline_safeW : SafeW firstKeyline := by
  unfold firstKeyline
  intro L n s h
  repeat (first
    | wpw_step
    | exact stdw (Fw.weaken (Fw.weaken ‹_›)))

macro_rules | `(tactic| safeW_side) => `(tactic| with_reducible exact firstKeyline_safeW)

theorem tableMore_safeW (pre depth : Nat) : ∀ f reg acc, SafeW (tableMore pre depth f reg acc)
  | 0, reg, acc => by unfold tableMore; wpw_run
  | f + 1, reg, acc => by
    have ih := tableMore_safeW pre depth f
    unfold tableMore; wpw_run

macro_rules | `(tactic| safeW_side) => `(tactic| with_reducible exact tableMore_safeW _ _ _ _ _)

theorem table_safeW (reg : Registry) : SafeW (table reg) := by
  unfold table; wpw_run

/-! ### what is read has consumed input -/

theorem strict_qualifierName (pre : Bytes) : Strict (qualifierName pre) := by
  unfold qualifierName
  exact Strict.bind_left (strict_lit _ (by simp)) (Safe.toW (lit_safe _))
    (fun _ => Safe.toW (word_safe _))

theorem strict_qualifier (pre : Bytes) (reg : Registry) : Strict (qualifier pre reg) := by
  unfold qualifier
  refine Strict.bind_left (strict_qualifierName pre) (Safe.toW (qualifierName_safe pre)) (fun nm => ?_)
  wpw_run

theorem strict_keyline (pre depth : Nat) : Strict (keyline pre depth) := by
  unfold keyline
  refine Strict.bind_right (Safe.toW (lit_safe _)) (fun _ => ?_)
  refine Strict.bind_left (strict_word _) (Safe.toW (word_safe _)) (fun key => ?_)
  wpw_run

theorem strict_subfieldName (nm : Bytes) (hnm : nm ≠ []) (d st : Nat) (v : Bool) :
    Strict (subfieldName nm d st v) := by
  unfold subfieldName
  refine Strict.bind_right (by wpw_run) (fun a => ?_)
  cases a <;> dsimp only <;> split <;>
    first
    | (intro s _ x s' h; rw [run_bind, run_fail] at h; cases h)
    | (refine Strict.bind_left (strict_lit nm hnm) (Safe.toW (lit_safe nm)) (fun _ => ?_); wpw_run)

theorem strict_refSub (nm : String) (hnm : bs nm ≠ []) (d st : Nat) : Strict (refSub nm d st) := by
  unfold refSub
  apply strict_mapped
  refine Strict.bind_left (strict_subfieldName _ hnm d st false) (subfieldName_safeW _ _ _ _) (fun _ => ?_)
  wpw_run

/-- the alternatives of `genbankReferenceSubfieldParser` (their `pars.Any` frame is on the stack):
whichever one succeeds has read its sub-field name -/
theorem strict_refAlts (d st : Nat) (r : Reference) :
    ∀ l : List (String × (Reference → Bytes → Reference)), (∀ x ∈ l, bs x.1 ≠ []) →
      Strict (refAlts d st r l)
  | [], _ => by
    intro s hs a s' h
    unfold refAlts at h
    rw [run_bind, run_pop] at h
    split at h <;> run_dead h
  | (nm, set) :: rest, hl => by
    have ih := strict_refAlts d st r rest (fun x hx => hl x (List.mem_cons_of_mem _ hx))
    have hnm : bs nm ≠ [] := hl (nm, set) (List.mem_cons_self ..)
    intro s hs a s' h
    unfold refAlts at h
    rw [run_bind, run_attempt] at h
    have hw := (refSub_safeW nm d st).run hs (r := ((refSub nm d st).run' s).1)
      (s' := ((refSub nm d st).run' s).2) rfl
    have hst := strict_refSub nm hnm d st s hs
    rcases hrun : (refSub nm d st).run' s with ⟨r1, s1⟩
    rw [hrun] at h hw
    dsimp only at hw
    rcases r1 with e | b
    · cases e
      · dsimp only at h
        rw [run_bind] at h
        have hpd : pushed.run' s1 = (.ok (!s1.stk.isEmpty), s1) := rfl
        rw [hpd] at h
        dsimp only at h
        split at h
        · run_dead h
        · have := ih s1 hw.2 a s' h
          omega
      · cases h
    · dsimp only at h
      rw [run_bind, run_drop] at h
      dsimp only at h
      rw [run_pure] at h
      cases h
      exact hst b s1 hrun

theorem refAltList_names : ∀ x ∈ refAltList, bs x.1 ≠ [] := by
  intro x hx
  simp only [refAltList, List.mem_cons, List.not_mem_nil, or_false] at hx
  rcases hx with rfl | rfl | rfl | rfl | rfl | rfl <;> decide

theorem strict_refSubfield (d st : Nat) (r : Reference) : Strict (refSubfield d st r) := by
  intro s hs a s' h
  unfold refSubfield at h
  rw [run_bind, run_push] at h
  dsimp only at h
  exact strict_refAlts d st r _ refAltList_names ⟨s.rest, s.rest :: s.stk⟩ ⟨Nat.le_refl _, hs⟩ a s' h

/-! ### the loops -/

/-- the continuation lines of a literal qualifier value: a round that goes on has read the
prefix, looked at one more byte (not `/`) and consumed that line — in ANY state, sorted or not -/
theorem literalMore_fuel (pre : Bytes) : ∀ f f' p (s : PS), s.rest.length < f → s.rest.length < f' →
    (literalMore pre f p).run' s = (literalMore pre f' p).run' s
  | 0, _, _, _, h, _ => absurd h (Nat.not_lt_zero _)
  | _ + 1, 0, _, _, _, h => absurd h (Nat.not_lt_zero _)
  | f + 1, f' + 1, p, s, hf, hf' => by
    rw [literalMore, literalMore, run_bind, run_bind, run_attempt, run_lit]
    by_cases hc : (s.rest.take pre.length == pre && decide (pre.length ≤ s.rest.length)) = true
    · rw [if_pos hc]
      dsimp only
      rw [run_bind, run_bind, run_attempt, run_next]
      dsimp only
      have hle : (s.rest.drop pre.length).length ≤ s.rest.length := by
        rw [List.length_drop]; omega
      generalize s.rest.drop pre.length = r1 at hle
      cases r1 with
      | nil => rfl
      | cons c r =>
        dsimp only
        split
        · rfl
        · rw [run_bind, run_bind, run_line]
          dsimp only
          rw [run_bind, run_bind, run_drop]
          dsimp only
          rw [run_bind, run_bind, run_push]
          dsimp only
          have hlt := splitLine_lt (c :: r) (by simp)
          apply literalMore_fuel pre f f'
          · show (Origin.splitLine (c :: r)).2.length < f; omega
          · show (Origin.splitLine (c :: r)).2.length < f'; omega
    · rw [if_neg hc]

/-- `pars.Many(qualifierParser)`: from a sorted state every qualifier that is read has consumed
input, so the loop makes at most bytes-left rounds -/
theorem qualifiers_fuel (pre : Bytes) : ∀ f f' reg acc (s : PS), Sorted s.rest.length s.stk →
    s.rest.length < f → s.rest.length < f' →
    (qualifiers pre f reg acc).run' s = (qualifiers pre f' reg acc).run' s
  | 0, _, _, _, _, _, h, _ => absurd h (Nat.not_lt_zero _)
  | _ + 1, 0, _, _, _, _, _, h => absurd h (Nat.not_lt_zero _)
  | f + 1, f' + 1, reg, acc, s, hs, hf, hf' => by
    rw [qualifiers, qualifiers, run_bind, run_bind, run_attempt]
    have hw := (qualifier_safeW pre reg).run hs (r := ((qualifier pre reg).run' s).1)
      (s' := ((qualifier pre reg).run' s).2) rfl
    have hst := strict_qualifier pre reg s hs
    rcases hrun : (qualifier pre reg).run' s with ⟨r, s1⟩
    rw [hrun] at hw
    dsimp only at hw
    rcases r with e | ⟨q, reg'⟩
    · cases e <;> rfl
    · dsimp only
      have := hst _ _ hrun
      exact qualifiers_fuel pre f f' reg' (q :: acc) s1 hw.2 (by omega) (by omega)

/-- the key-line loop of `INSDCTableParser`: from a sorted state every key line that is read has
consumed its key, and the qualifiers behind it do not go back -/
theorem tableMore_fuel (pre depth : Nat) : ∀ f f' reg acc (s : PS), Sorted s.rest.length s.stk →
    s.rest.length < f → s.rest.length < f' →
    (tableMore pre depth f reg acc).run' s = (tableMore pre depth f' reg acc).run' s
  | 0, _, _, _, _, _, h, _ => absurd h (Nat.not_lt_zero _)
  | _ + 1, 0, _, _, _, _, _, h => absurd h (Nat.not_lt_zero _)
  | f + 1, f' + 1, reg, acc, s, hs, hf, hf' => by
    rw [tableMore, tableMore, run_bind, run_bind, run_attempt]
    have hw := (Safe.toW (keyline_safe pre depth)).run hs (r := ((keyline pre depth).run' s).1)
      (s' := ((keyline pre depth).run' s).2) rfl
    have hst := strict_keyline pre depth s hs
    rcases hrun : (keyline pre depth).run' s with ⟨r, s1⟩
    rw [hrun] at hw
    dsimp only at hw
    rcases r with e | ⟨key, l⟩
    · cases e <;> rfl
    · dsimp only
      have hlt := hst _ _ hrun
      rw [run_bind, run_bind, run_getS]
      dsimp only
      rw [run_bind, run_bind]
      have hw2 := (qualifiers_safeW (sp depth) (s1.rest.length + 1) reg []).run hw.2
        (r := ((qualifiers (sp depth) (s1.rest.length + 1) reg []).run' s1).1)
        (s' := ((qualifiers (sp depth) (s1.rest.length + 1) reg []).run' s1).2) rfl
      rcases hq : (qualifiers (sp depth) (s1.rest.length + 1) reg []).run' s1 with ⟨r2, s2⟩
      rw [hq] at hw2
      dsimp only at hw2
      rcases r2 with e | ⟨qs, reg'⟩
      · rfl
      · dsimp only
        exact tableMore_fuel pre depth f f' reg' _ s2 hw2.2 (by omega) (by omega)

/-- `pars.Many(genbankReferenceSubfieldParser)`: from a sorted state every sub-field that is read
has consumed its name -/
theorem refSubfields_fuel (d : Nat) : ∀ k k' st r (s : PS), Sorted s.rest.length s.stk →
    s.rest.length < k → s.rest.length < k' →
    (refSubfields d k st r).run' s = (refSubfields d k' st r).run' s
  | 0, _, _, _, _, _, h, _ => absurd h (Nat.not_lt_zero _)
  | _ + 1, 0, _, _, _, _, _, h => absurd h (Nat.not_lt_zero _)
  | k + 1, k' + 1, st, r, s, hs, hk, hk' => by
    rw [refSubfields, refSubfields, run_bind, run_bind, run_attempt]
    have hw := (refSubfield_safeW d st r).run hs (r := ((refSubfield d st r).run' s).1)
      (s' := ((refSubfield d st r).run' s).2) rfl
    have hst := strict_refSubfield d st r s hs
    rcases hrun : (refSubfield d st r).run' s with ⟨x, s1⟩
    rw [hrun] at hw
    dsimp only at hw
    rcases x with e | ⟨r', st'⟩
    · cases e <;> rfl
    · dsimp only
      have := hst _ _ hrun
      exact refSubfields_fuel d k k' st' r' s1 hw.2 (by omega) (by omega)

end Gts.GenBank
