/-
  C01 helper lemmas: DBLINK and CONTIG.  Core Lean only.
-/
import Gts.Lemmas.GbLocus
namespace Gts.GenBank
open Gts.Pars

/-! ### DBLINK -/

/-- a DBLINK pair: key and value on one line, no colon in the key, a non-empty value (f459ebc: a
pair without value is a parse error) -/
def pairOk (p : Bytes × Bytes) : Bool :=
  noEOL p.1 && noEOL p.2 && !p.1.contains 58 && !p.2.isEmpty

theorem indexOf_append_at (k r : Bytes) (c : UInt8) (h : ∀ x ∈ k, x ≠ c) : indexOf c (k ++ c :: r) = some k.length := by
  induction k with
  | nil => simp [indexOf]
  | cons x k ih =>
    have hx : x ≠ c := h x (by simp)
    simp only [List.cons_append, indexOf, hx, if_false, ih (fun y hy => h y (by simp [hy]))]
    simp

theorem dblinkPair_ok (k v : Bytes) (hk : ∀ x ∈ k, x ≠ 58) (hv : v ≠ []) :
    dblinkPair (k ++ 58 :: 32 :: v) = some (k, v) := by
  have hi := indexOf_append_at k (32 :: v) 58 hk
  have hlen : ¬ ((k ++ 58 :: 32 :: v).length ≤ k.length + 2 ∨ (k ++ 58 :: 32 :: v).getD (k.length + 1) 0 ≠ 32) := by
    intro h
    rcases h with h | h
    · simp only [List.length_append, List.length_cons] at h
      cases v with
      | nil => exact hv rfl
      | cons a b => simp only [List.length_cons] at h; omega
    · apply h
      simp [List.getD, List.getElem?_append_right]
  simp only [dblinkPair, hi]
  rw [if_neg hlen]
  simp [List.take_append_of_le_length, List.drop_append]

/-- the pairs behind the first one, as they stand in the file -/
def dblinkMoreText (ps : List (Bytes × Bytes)) : Bytes :=
  ps.flatMap fun p => indent ++ (p.1 ++ 58 :: 32 :: p.2) ++ [10]

/-- the dictionary after reading the pairs in order (`Dictionary.Set`) -/
def dictSetAll (d : List (Bytes × Bytes)) (ps : List (Bytes × Bytes)) : List (Bytes × Bytes) :=
  ps.foldl (fun d p => dictSet d p.1 p.2) d

theorem pairOk_spec (p : Bytes × Bytes) (h : pairOk p = true) :
    noEOL (p.1 ++ 58 :: 32 :: p.2) = true ∧ (∀ x ∈ p.1, x ≠ 58) ∧ p.2 ≠ [] := by
  simp only [pairOk, Bool.and_eq_true, Bool.not_eq_true', List.isEmpty_eq_false_iff] at h
  obtain ⟨⟨⟨h1, h2⟩, h3⟩, h4⟩ := h
  refine ⟨?_, ?_, h4⟩
  · rw [noEOL_append, h1, noEOL_cons, noEOL_cons, h2]; rfl
  · intro x hx e; subst e
    have : p.1.contains 58 = true := List.contains_iff_mem.mpr hx
    rw [this] at h3; cases h3

theorem dblinkMore_ok (ps : List (Bytes × Bytes)) (rest : Bytes) (stk : List Bytes) (f : Fields) (k : Nat)
    (hps : ∀ p ∈ ps, pairOk p = true) (hrest : (sp 12).isPrefixOf rest = false) (hk : ps.length < k) :
    dblinkMore 12 k f ⟨dblinkMoreText ps ++ rest, stk⟩ =
      (.ok ({ f with dblink := dictSetAll f.dblink ps }, true), ⟨rest, stk⟩) := by
  induction ps generalizing f k with
  | nil =>
    cases k with
    | zero => omega
    | succ k => gsimp [dblinkMore, dblinkMoreText, lit_fail _ _ _ hrest, dictSetAll]
  | cons p ps ih =>
    cases k with
    | zero => omega
    | succ k =>
      obtain ⟨h1, h2, h3⟩ := pairOk_spec p (hps p (by simp))
      have e : dblinkMoreText (p :: ps) ++ rest =
          sp 12 ++ ((p.1 ++ 58 :: 32 :: p.2) ++ 10 :: (dblinkMoreText ps ++ rest)) := by
        simp [dblinkMoreText, List.flatMap_cons, indent, List.append_assoc]
      rw [e]
      simp only [dblinkMore, P.bind_run, attempt_run, lit_ok, line_ok _ _ stk h1, dblinkPair_ok _ _ h2 h3]
      rw [ih _ k (fun q hq => hps q (by simp [hq])) (by simp only [List.length_cons] at hk; omega)]
      simp [dictSetAll]

theorem dblinkMoreText_length_ge (ps : List (Bytes × Bytes)) : ps.length ≤ (dblinkMoreText ps).length := by
  induction ps with
  | nil => simp [dblinkMoreText]
  | cons p ps ih =>
    simp only [dblinkMoreText, List.flatMap_cons, List.length_append, List.length_cons] at ih ⊢
    omega

theorem dblinkText_eq (p : Bytes × Bytes) (ps : List (Bytes × Bytes)) (rest : Bytes) :
    dblinkText (p :: ps) true ++ rest =
      bs "DBLINK" ++ (sp 6 ++ ((p.1 ++ 58 :: 32 :: p.2) ++ 10 :: (dblinkMoreText ps ++ rest))) := by
  have h2 : ∀ qs : List (Bytes × Bytes), dblinkText qs false = dblinkMoreText qs := by
    intro qs
    induction qs with
    | nil => rfl
    | cons q qs ih =>
      obtain ⟨a, b⟩ := q
      simp only [dblinkText, ih, dblinkMoreText, List.flatMap_cons]
      simp [bs, List.append_assoc]
  obtain ⟨a, b⟩ := p
  simp only [dblinkText, h2]
  simp [bs, sp, List.append_assoc]

/-- **DBLINK** round trip: the pairs are `Set` into the dictionary in order (for distinct keys
and an empty dictionary that is the list itself, `dictSetAll_distinct`) -/
theorem dblink_roundtrip (f : Fields) (p : Bytes × Bytes) (ps : List (Bytes × Bytes)) (rest : Bytes)
    (stk : List Bytes) (hps : ∀ q ∈ p :: ps, pairOk q = true) (hrest : (sp 12).isPrefixOf rest = false) :
    dblinkField 12 f ⟨dblinkText (p :: ps) true ++ rest, stk⟩ =
      (.ok ({ f with dblink := dictSetAll f.dblink (p :: ps) }, true), ⟨rest, stk⟩) := by
  obtain ⟨h1, h2, h3⟩ := pairOk_spec p (hps p (by simp))
  rw [dblinkText_eq]
  have hn := fun r s => fieldName_ok (bs "DBLINK") 12 r s (by decide)
  have hs : sp (12 - (bs "DBLINK").length) = sp 6 := by decide
  rw [hs] at hn
  have hlen : ps.length < (dblinkMoreText ps).length + rest.length + 1 := by
    have := dblinkMoreText_length_ge ps
    omega
  have hm := fun g s => dblinkMore_ok ps rest s g ((dblinkMoreText ps).length + rest.length + 1)
    (fun q hq => hps q (by simp [hq])) hrest hlen
  have hline : ∀ s, line ⟨p.1 ++ 58 :: 32 :: (p.2 ++ 10 :: (dblinkMoreText ps ++ rest)), s⟩ =
      (.ok (p.1 ++ 58 :: 32 :: p.2), ⟨dblinkMoreText ps ++ rest, s⟩) := by
    intro s
    have := line_ok (p.1 ++ 58 :: 32 :: p.2) (dblinkMoreText ps ++ rest) s h1
    simpa [List.append_assoc] using this
  gsimp [dblinkField, hn, hline, dblinkPair_ok _ _ h2 h3, hm, dictSetAll]

/-- keys that are pairwise distinct -/
def distinctKeys : List (Bytes × Bytes) → Bool
  | [] => true
  | p :: ps => !(ps.any fun q => q.1 == p.1) && distinctKeys ps

theorem dictSet_append_new (d : List (Bytes × Bytes)) (k v : Bytes) (h : ∀ q ∈ d, q.1 ≠ k) :
    dictSet d k v = d ++ [(k, v)] := by
  induction d with
  | nil => rfl
  | cons q d ih =>
    obtain ⟨a, b⟩ := q
    have : a ≠ k := h (a, b) (by simp)
    simp only [dictSet, this, if_false, List.cons_append]
    rw [ih (fun q hq => h q (by simp [hq]))]

theorem dictSetAll_distinct (d ps : List (Bytes × Bytes)) (hd : distinctKeys ps = true)
    (hdp : ∀ q ∈ d, ∀ p ∈ ps, q.1 ≠ p.1) : dictSetAll d ps = d ++ ps := by
  induction ps generalizing d with
  | nil => simp [dictSetAll]
  | cons p ps ih =>
    simp only [distinctKeys, Bool.and_eq_true, Bool.not_eq_true', List.any_eq_false, beq_iff_eq] at hd
    have h1 : dictSet d p.1 p.2 = d ++ [p] := by
      rw [dictSet_append_new d p.1 p.2 (fun q hq => hdp q hq p (by simp))]
    have := ih (d ++ [p]) hd.2 (by
      intro q hq r hr
      rcases List.mem_append.mp hq with h | h
      · exact hdp q h r (by simp [hr])
      · simp at h; subst h; exact fun e => hd.1 r hr e.symm)
    simp only [dictSetAll, List.foldl_cons, h1] at this ⊢
    rw [this]; simp

/-! ### CONTIG -/

/-- a CONTIG: a non-empty accession without colon on one line, non-negative bounds -/
def contigOk (f : Fields) : Bool :=
  !f.contigAcc.isEmpty && noEOL f.contigAcc && !f.contigAcc.contains 58 &&
  decide (0 ≤ f.contigHead ∧ f.contigHead < 9223372036854775807 ∧ 0 ≤ f.contigTail ∧ f.contigTail ≤ 9223372036854775807)

theorem untilColon_ok (a r : Bytes) (stk : List Bytes) (h : ∀ x ∈ a, x ≠ 58) :
    untilColon ⟨a ++ 58 :: r, stk⟩ = (.ok a, ⟨58 :: r, stk⟩) := by
  gsimp [untilColon, indexOf_append_at a r 58 h]

theorem indexWhere_append_at (f : UInt8 → Bool) (k r : Bytes) (c : UInt8) (h : ∀ x ∈ k, f x = false)
    (hc : f c = true) : indexWhere f (k ++ c :: r) = some k.length := by
  induction k with
  | nil => simp [indexWhere, hc]
  | cons x k ih =>
    have hx : f x = false := h x (by simp)
    simp only [List.cons_append, indexWhere, hx, Bool.false_eq_true, if_false,
      ih (fun y hy => h y (by simp [hy]))]
    simp

/-- `pars.Until(filter)` in front of the first byte the filter accepts -/
theorem untilFilter_ok (f : UInt8 → Bool) (a r : Bytes) (c : UInt8) (stk : List Bytes)
    (h : ∀ x ∈ a, f x = false) (hc : f c = true) :
    untilFilter f ⟨a ++ c :: r, stk⟩ = (.ok a, ⟨c :: r, stk⟩) := by
  gsimp [untilFilter, indexWhere_append_at f a r c h hc]

/-- **CONTIG** round trip; the parser stops behind the closing parenthesis (the line feed is
skipped by the record loop as an empty unknown line) -/
theorem contig_roundtrip (f g : Fields) (rest : Bytes) (stk : List Bytes) (h : contigOk g = true) :
    contigField 12 f ⟨bs "CONTIG      " ++ (contigText g ++ rest), stk⟩ =
      (.ok ({ f with contigAcc := g.contigAcc, contigHead := g.contigHead, contigTail := g.contigTail }, true),
        ⟨rest, stk⟩) := by
  simp only [contigOk, Bool.and_eq_true, Bool.not_eq_true', decide_eq_true_eq] at h
  obtain ⟨⟨⟨h1, h2⟩, h3⟩, h4, h5, h6, h7⟩ := h
  have hcol : ∀ x ∈ g.contigAcc, x ≠ 58 := by
    intro x hx e; subst e
    have : g.contigAcc.contains 58 = true := List.contains_iff_mem.mpr hx
    rw [this] at h3; cases h3
  obtain ⟨a, ha⟩ : ∃ a : Nat, g.contigHead + 1 = (a : Int) := ⟨(g.contigHead + 1).toNat, by omega⟩
  obtain ⟨b, hb⟩ : ∃ b : Nat, g.contigTail = (b : Int) := ⟨g.contigTail.toNat, by omega⟩
  have ea : itoaB (g.contigHead + 1) = natDigits a := by rw [ha]; simp [itoaB]
  have eb : itoaB g.contigTail = natDigits b := by rw [hb]; simp [itoaB]
  have e : bs "CONTIG      " ++ (contigText g ++ rest) =
      bs "CONTIG" ++ (sp 6 ++ (bs "join(" ++ (g.contigAcc ++ 58 :: (natDigits a ++ (bs ".." ++ (natDigits b ++ ([41] ++ rest))))))) := by
    simp only [contigText, h1, Bool.false_eq_true, if_false, ea, eb]
    simp [bs, sp, List.append_assoc]
  rw [e]
  have hn := fun r s => fieldName_ok (bs "CONTIG") 12 r s (by decide)
  have hs : sp (12 - (bs "CONTIG").length) = sp 6 := by decide
  rw [hs] at hn
  have hi1 := fun X s => int_natDigits a (bs ".." ++ X) s (by simp [bs, List.dropWhile, isDigit]) (by omega)
  have hi2 := fun X s => int_natDigits b (41 :: X) s (by simp [List.dropWhile, isDigit]) (by omega)
  have hl41 : ∀ X s, lit [41] ⟨41 :: X, s⟩ = (.ok (), ⟨X, s⟩) := fun X s => lit_ok [41] X s
  have hstop : ∀ x ∈ g.contigAcc, contigStop x = false := by
    intro x hx
    have hx58 := hcol x hx
    have hxe := (List.all_eq_true.mp h2) x hx
    simp only [Bool.and_eq_true, bne_iff_ne, ne_eq] at hxe
    simp [contigStop, hx58, hxe.1, hxe.2]
  have hu := fun r s => untilFilter_ok contigStop g.contigAcc r 58 s hstop (by decide)
  have hl58 : ∀ X s, lit [58] ⟨58 :: X, s⟩ = (.ok (), ⟨X, s⟩) := fun X s => lit_ok [58] X s
  have e1 : ((a : Int) - 1) = g.contigHead := by omega
  gsimp [contigField, hn, lit_ok, hu, hl58, hi1, hi2, hl41, e1, hb]

end Gts.GenBank
