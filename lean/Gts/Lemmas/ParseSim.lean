/-
  Simulation of the flagged parser (C06, audit S7 item 1(b)): for EVERY guard `g`, `LocParseG.loc g`
  (Gts/Spec/ParseGuard.lean) and the model's `LocParse.loc` agree on success / failure / panic, on the
  location, and on the final state (rest and backtracking stack): the flag is ghost information.
  `Sim r p q`: `p` is `q` with its result mapped through `r`.  Core Lean only.
-/
import Gts.Lemmas.ModText
import Gts.Spec.ParseGuard
import Gts.Spec.ParseK3
namespace Gts.Pars
open Gts

/-- map the value of a run -/
def mapRes {α β} (r : β → α) (x : Except Err β × PS) : Except Err α × PS :=
  match x with
  | (.ok b, s) => (.ok (r b), s)
  | (.error e, s) => (.error e, s)

/-- `p` behaves as `q` with the result mapped through `r` (same errors, same final state) -/
def Sim {α β} (r : β → α) (p : P α) (q : P β) : Prop := ∀ st, p st = mapRes r (q st)

theorem Sim.refl {α} (p : P α) : Sim id p p := by
  intro st
  rcases h : p st with ⟨(e | a), s⟩ <;> rfl

theorem Sim.pure {α β} {r : β → α} {a : α} {b : β} (h : r b = a) : Sim r (Pure.pure a : P α) (Pure.pure b) := by
  intro st
  simp only [P.pure_run, mapRes, h]

theorem Sim.fail {α β} {r : β → α} : Sim r (Pars.fail : P α) (Pars.fail : P β) := fun _ => rfl

theorem Sim.bind {α β γ δ} {r1 : β → α} {r : δ → γ} {p : P α} {q : P β} {f : α → P γ} {f' : β → P δ}
    (h : Sim r1 p q) (hf : ∀ b, Sim r (f (r1 b)) (f' b)) : Sim r (p >>= f) (q >>= f') := by
  intro st
  rw [P.bind_run, P.bind_run, h st]
  rcases q st with ⟨(e | b), s⟩
  · rfl
  · exact hf b s

theorem Sim.bind_id {α γ δ} {r : δ → γ} {p q : P α} {f : α → P γ} {f' : α → P δ}
    (h : Sim id p q) (hf : ∀ a, Sim r (f a) (f' a)) : Sim r (p >>= f) (q >>= f') :=
  Sim.bind h hf

theorem Sim.fail_bind {α α' γ δ} {r : δ → γ} {f : α → P γ} {f' : α' → P δ} :
    Sim r ((Pars.fail : P α) >>= f) ((Pars.fail : P α') >>= f') := fun _ => rfl

theorem Sim.ite {α β} {r : β → α} {c : Prop} [Decidable c] {p p' : P α} {q q' : P β}
    (h1 : Sim r p q) (h2 : Sim r p' q') : Sim r (if c then p else p') (if c then q else q') := by
  split
  · exact h1
  · exact h2

/-- `attempt` followed by a case distinction on its answer -/
theorem Sim.attempt_bind {α β γ δ} {r1 : β → α} {r : δ → γ} {p : P α} {q : P β}
    {k : Option α → P γ} {k' : Option β → P δ} (h : Sim r1 p q)
    (hs : ∀ v, Sim r (k (some (r1 v))) (k' (some v))) (hn : Sim r (k none) (k' none)) :
    Sim r (attempt p >>= k) (attempt q >>= k') := by
  intro st
  rw [P.bind_run, P.bind_run, attempt_run, attempt_run, h st]
  rcases q st with ⟨((_ | _) | b), s⟩
  · exact hn s
  · rfl
  · exact hs b s

/-- pairwise simulating alternatives -/
def SimList {α β} (r : β → α) : List (P α) → List (P β) → Prop
  | [], [] => True
  | p :: ps, q :: qs => Sim r p q ∧ SimList r ps qs
  | _, _ => False

theorem Sim.anyOf_go {α β} {r : β → α} : ∀ (ps : List (P α)) (qs : List (P β)), SimList r ps qs →
    Sim r (LocParse.anyOf.go ps) (LocParse.anyOf.go qs)
  | [], [], _ => by
      rw [LocParse.anyOf.go, LocParse.anyOf.go]
      exact Sim.bind_id (Sim.refl _) fun _ => Sim.fail
  | [], _ :: _, h => h.elim
  | _ :: _, [], h => h.elim
  | p :: ps, q :: qs, h => by
      rw [LocParse.anyOf.go, LocParse.anyOf.go]
      refine Sim.attempt_bind h.1 (fun v => ?_) ?_
      · exact Sim.bind_id (Sim.refl _) fun _ => Sim.pure rfl
      · refine Sim.bind_id (Sim.refl _) fun b => ?_
        have ih := Sim.anyOf_go ps qs h.2
        dsimp only
        exact Sim.ite Sim.fail_bind ih

/-- `pars.Any` of pairwise simulating alternatives -/
theorem Sim.anyOf {α β} {r : β → α} (ps : List (P α)) (qs : List (P β)) (h : SimList r ps qs) :
    Sim r (LocParse.anyOf ps) (LocParse.anyOf qs) := by
  rw [LocParse.anyOf, LocParse.anyOf]
  exact Sim.bind_id (Sim.refl _) fun _ => Sim.anyOf_go ps qs h

end Gts.Pars

namespace Gts
open Pars

namespace LocParseG

theorem sim_leaf (p : P Loc) : Sim Prod.fst p (leaf p) := by
  intro st
  unfold leaf
  rw [P.bind_run]
  rcases p st with ⟨(e | a), s⟩ <;> rfl

theorem sim_more (g : List Loc → Bool) (f : Nat) (ih : Sim Prod.fst (LocParse.loc f) (loc g f)) :
    ∀ (k : Nat) (acc : List Loc) (b : Bool),
      Sim Prod.fst (LocParse.multiple.more f k acc) (multiple.more g f k acc b)
  | 0, acc, b => by
      rw [LocParse.multiple.more, multiple.more]
      exact Sim.pure rfl
  | k + 1, acc, b => by
      rw [LocParse.multiple.more, multiple.more]
      refine Sim.bind_id (Sim.refl _) fun d => ?_
      refine Sim.ite ?_ (Sim.pure rfl)
      refine Sim.attempt_bind ih (fun v => ?_) ?_
      · exact sim_more g f ih k (v.1 :: acc) (b || v.2)
      · exact Sim.bind_id (Sim.refl _) fun _ => Sim.fail

theorem sim_multiple (g : List Loc → Bool) (f : Nat) (ih : Sim Prod.fst (LocParse.loc f) (loc g f)) :
    Sim Prod.fst (LocParse.multiple (f + 1)) (multiple g (f + 1)) := by
  rw [LocParse.multiple, multiple]
  refine Sim.bind_id (Sim.refl _) fun _ => ?_
  refine Sim.bind (r1 := Prod.fst) ?_ fun first => ?_
  · refine Sim.attempt_bind ih (fun v => Sim.pure rfl) ?_
    exact Sim.bind_id (Sim.refl _) fun _ => Sim.fail
  · refine Sim.bind (sim_more g f ih f [first.1] first.2) fun ls => ?_
    exact Sim.bind_id (Sim.refl _) fun _ => Sim.pure rfl


/-- one step of a simulation proof through two copies of the same do-block -/
macro "sim_step" : tactic => `(tactic| first
  | exact Sim.fail_bind
  | exact Sim.fail
  | exact Sim.pure rfl
  | with_reducible exact Sim.refl _
  | refine Sim.bind_id ?_ fun _ => ?_
  | refine Sim.ite ?_ ?_
  | (split <;> dsimp only)
  | dsimp only)

theorem sim_complementOf (g : List Loc → Bool) (f : Nat) (ih : Sim Prod.fst (LocParse.loc f) (loc g f)) :
    Sim Prod.fst (LocParse.complementOf (f + 1)) (complementOf g (f + 1)) := by
  rw [LocParse.complementOf, complementOf]
  repeat (any_goals first
    | refine Sim.bind (r1 := Prod.fst) (Sim.attempt_bind ih (fun v => Sim.pure rfl)
        (Sim.bind_id (Sim.refl _) fun _ => Sim.fail)) fun l => ?_
    | sim_step)

theorem sim_joinOf (g : List Loc → Bool) (f : Nat) (ih : Sim Prod.fst (LocParse.multiple f) (multiple g f)) :
    Sim Prod.fst (LocParse.joinOf (f + 1)) (joinOf g (f + 1)) := by
  rw [LocParse.joinOf, joinOf]
  repeat (any_goals first
    | refine Sim.bind ih fun ls => ?_
    | sim_step)

theorem sim_orderOf (g : List Loc → Bool) (f : Nat) (ih : Sim Prod.fst (LocParse.multiple f) (multiple g f)) :
    Sim Prod.fst (LocParse.orderOf (f + 1)) (orderOf g (f + 1)) := by
  rw [LocParse.orderOf, orderOf]
  repeat (any_goals first
    | refine Sim.bind ih fun ls => ?_
    | sim_step)


/-- **the simulation**, all five mutual parsers, every fuel, every guard -/
theorem sim_all (g : List Loc → Bool) : ∀ f : Nat,
    Sim Prod.fst (LocParse.loc f) (loc g f) ∧ Sim Prod.fst (LocParse.multiple f) (multiple g f) ∧
    Sim Prod.fst (LocParse.joinOf f) (joinOf g f) ∧ Sim Prod.fst (LocParse.orderOf f) (orderOf g f) ∧
    Sim Prod.fst (LocParse.complementOf f) (complementOf g f)
  | 0 => by
      refine ⟨?_, ?_, ?_, ?_, ?_⟩
      · rw [LocParse.loc, loc]; exact Sim.fail
      · rw [LocParse.multiple, multiple]; exact Sim.fail
      · rw [LocParse.joinOf, joinOf]; exact Sim.fail
      · rw [LocParse.orderOf, orderOf]; exact Sim.fail
      · rw [LocParse.complementOf, complementOf]; exact Sim.fail
  | f + 1 => by
      obtain ⟨hl, hm, hj, ho, hc⟩ := sim_all g f
      refine ⟨?_, sim_multiple g f hl, sim_joinOf g f hm, sim_orderOf g f hm, sim_complementOf g f hl⟩
      rw [LocParse.loc, loc]
      exact Sim.anyOf _ _ ⟨sim_leaf _, sim_leaf _, sim_leaf _, hc, hj, ho, sim_leaf _, trivial⟩

/-- the flagged parser is the model's parser with one more component: same outcome, same location, same
final state, whatever the guard -/
theorem loc_sim (g : List Loc → Bool) (f : Nat) (st : PS) :
    LocParse.loc f st = mapRes Prod.fst (loc g f st) := (sim_all g f).1 st

end LocParseG

/-- `parseLocation` is `parseLocationG g` without the flag, for every guard `g` -/
theorem parseLocation_eq_G (g : List Loc → Bool) (s : Bytes) :
    parseLocation s = (parseLocationG g s).map (fun x => (x.1, x.2.2)) := by
  unfold parseLocation parseLocationG
  simp only [P.run', ExceptT.run, StateT.run]
  rw [LocParseG.loc_sim g]
  rcases LocParseG.loc g (s.length + 2) ⟨s, []⟩ with ⟨(e | v), st⟩ <;> rfl

/-- an accepted text has a flag: the flagged run accepts it with the same location and rest -/
theorem parseLocationG_of_parseLocation (g : List Loc → Bool) (s : Bytes) (l : Loc) (r : Bytes)
    (h : parseLocation s = .ok (l, r)) : ∃ b, parseLocationG g s = .ok (l, b, r) := by
  rw [parseLocation_eq_G g] at h
  rcases hq : parseLocationG g s with e | ⟨l', b, r'⟩
  · rw [hq] at h; cases h
  · rw [hq] at h
    injection h with h
    injection h with h1 h2
    exact ⟨b, by rw [← h1, ← h2]⟩

end Gts
