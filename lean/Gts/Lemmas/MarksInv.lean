/-
  insert;delete and embed;delete restore the outer partial markers: after `Shift(i, n)` /
  `Expand(i, n)` (`n > 0`) no leaf has an outer end inside the span `[i, i+n)` that the deletion
  removes (`leafAvoid`, a merge-stable leaf invariant), so the deletion leaves every marker as it
  is.  Core Lean only.
-/
import Gts.Lemmas.MarksDel
import Gts.Lemmas.MarksOps
import Gts.Lemmas.Leafwise
namespace Gts
namespace Loc

/-- no outer end of the leaf is cut by deleting `[i, i+n)`: its first residue is not removed and
neither is its last one -/
def leafAvoid (i n : Int) : Loc → Bool
  | point p => !(decide (i ≤ p ∧ p < i + n))
  | ranged s e _ _ => !(decide (i ≤ s ∧ s < i + n)) && !(decide (i < e ∧ e ≤ i + n))
  | ambiguous s e => !(decide (i ≤ s ∧ s < i + n)) && !(decide (i < e ∧ e ≤ i + n))
  | _ => true

theorem mergeOK_leafAvoid (i n : Int) : MergeOK (leafAvoid i n) := by
  intro vs ve ue v5 v3 u5 u3 h1 h2
  simp only [leafAvoid, Bool.and_eq_true, Bool.not_eq_true', decide_eq_false_iff_not] at *
  exact ⟨h1.1, h2.2⟩

mutual
/-- a deletion that cuts no outer end leaves the markers alone -/
theorem delMarks_of_avoid (i n : Int) (hn : 0 < n) : ∀ (l : Loc), wf l = true →
    allLeaves (leafAvoid i n) l = true → delMarks i n l = marks l
  | between p, _, _ => by simp
  | point p, _, h => by
      simp only [allLeaves_point, leafAvoid, Bool.not_eq_true', decide_eq_false_iff_not] at h
      simp [h]
  | ranged s e a b, hw, h => by
      have hse : s < e := by simpa [wf] using hw
      simp only [allLeaves_ranged, leafAvoid, Bool.and_eq_true, Bool.not_eq_true',
        decide_eq_false_iff_not] at h
      have hne : delStart s i n ≠ delEnd e i n := by
        unfold delStart delEnd; split <;> split <;> omega
      simp [hne, h.1, h.2, hse]
  | ambiguous s e, hw, h => by
      have hse : s < e := by simpa [wf] using hw
      simp only [allLeaves_ambiguous, leafAvoid, Bool.and_eq_true, Bool.not_eq_true',
        decide_eq_false_iff_not] at h
      have hne : delStart s i n ≠ delEnd e i n := by
        unfold delStart delEnd; split <;> split <;> omega
      simp [hne]
  | joined ls, hw, h => by
      simpa using delMarksList_of_avoid i n hn ls (by simpa [wf] using hw) (by simpa using h)
  | ordered ls, hw, h => by
      simpa using delMarksList_of_avoid i n hn ls (by simpa [wf] using hw) (by simpa using h)
  | compl l, hw, h => by
      simp only [delMarks_compl, marks_compl]
      rw [delMarks_of_avoid i n hn l (by simpa [wf] using hw) (by simpa using h)]
theorem delMarksList_of_avoid (i n : Int) (hn : 0 < n) : ∀ (ls : List Loc), wfList ls = true →
    allLeavesList (leafAvoid i n) ls = true → delMarksList i n ls = marksList ls
  | [], _, _ => by simp
  | l :: ls, hw, h => by
      simp only [wfList_cons, Bool.and_eq_true] at hw
      simp only [allLeavesList_cons, Bool.and_eq_true] at h
      simp [delMarks_of_avoid i n hn l hw.1 h.1, delMarksList_of_avoid i n hn ls hw.2 h.2]
end

/-! ### after an insertion of `n > 0` residues at `i` nothing ends inside `[i, i+n)` -/

theorem avoid_pointExpand_ins (p i n : Int) (hn : 0 < n) :
    allLeaves (leafAvoid i n) (pointExpand p i n) = true := by
  unfold pointExpand
  rw [if_neg (by omega)]
  simp only [gmax_eq_max, allLeaves_point, leafAvoid, Bool.not_eq_true', decide_eq_false_iff_not]
  split <;> omega

theorem avoid_rangedShift_ins (s e : Int) (a b : Bool) (i n : Int) (h : s < e) (hn : 0 < n) :
    allLeaves (leafAvoid i n) (rangedShift s e a b i n) = true := by
  unfold rangedShift
  rw [if_neg (by omega), if_neg (by omega)]
  by_cases hs : s < i ∧ i < e
  · rw [if_pos hs, join_two_ranged_ne _ _ _ _ _ _ _ _ (by omega)]
    simp only [allLeaves_joined, allLeavesList_cons, allLeavesList_nil, allLeaves_ranged, leafAvoid,
      Bool.and_true, Bool.and_eq_true, Bool.not_eq_true', decide_eq_false_iff_not]
    omega
  · rw [if_neg hs]
    simp only [allLeaves_ranged, leafAvoid, Bool.and_eq_true, Bool.not_eq_true', decide_eq_false_iff_not]
    split <;> split <;> omega

theorem avoid_ambiguousShift_ins (s e i n : Int) (h : s < e) (hn : 0 < n) :
    allLeaves (leafAvoid i n) (ambiguousShift s e i n) = true := by
  unfold ambiguousShift
  rw [if_neg (by omega), if_neg (by omega)]
  by_cases hs : s < i ∧ i < e
  · rw [if_pos hs, order_two_ambiguous]
    simp only [allLeaves_ordered, allLeavesList_cons, allLeavesList_nil, allLeaves_ambiguous, leafAvoid,
      Bool.and_true, Bool.and_eq_true, Bool.not_eq_true', decide_eq_false_iff_not]
    omega
  · rw [if_neg hs]
    simp only [allLeaves_ambiguous, leafAvoid, Bool.and_eq_true, Bool.not_eq_true',
      decide_eq_false_iff_not]
    split <;> split <;> omega

theorem avoid_rangedExpand_ins (s e : Int) (a b : Bool) (i n : Int) (h : s < e) (hn : 0 < n) :
    allLeaves (leafAvoid i n) (rangedExpand s e a b i n) = true := by
  rw [rangedExpand_ins_eq s e a b i n h hn]
  simp only [allLeaves_ranged, leafAvoid, Bool.and_eq_true, Bool.not_eq_true', decide_eq_false_iff_not]
  split <;> split <;> omega

theorem avoid_ambiguousExpand_ins (s e i n : Int) (h : s < e) (hn : 0 < n) :
    allLeaves (leafAvoid i n) (ambiguousExpand s e i n) = true := by
  rw [ambiguousExpand_ins_eq s e i n h hn]
  simp only [allLeaves_ambiguous, leafAvoid, Bool.and_eq_true, Bool.not_eq_true', decide_eq_false_iff_not]
  split <;> split <;> omega

mutual
theorem shift_avoid (i n : Int) (hn : 0 < n) : ∀ (l : Loc), wf l = true →
    allLeaves (leafAvoid i n) (shift l i n) = true
  | between p, _ => by simp [shift, betweenExpand, leafAvoid]
  | point p, _ => by simpa [shift] using avoid_pointExpand_ins p i n hn
  | ranged s e a b, hw => by
      simpa [shift] using avoid_rangedShift_ins s e a b i n (by simpa [wf] using hw) hn
  | ambiguous s e, hw => by
      simpa [shift] using avoid_ambiguousShift_ins s e i n (by simpa [wf] using hw) hn
  | joined ls, hw => by
      simp only [shift]
      exact join_leaves (mergeOK_leafAvoid i n) _ (shiftList_avoid i n hn ls (by simpa [wf] using hw))
  | ordered ls, hw => by
      simp only [shift]
      exact order_leaves _ _ (shiftList_avoid i n hn ls (by simpa [wf] using hw))
  | compl l, hw => by simpa [shift] using shift_avoid i n hn l (by simpa [wf] using hw)
theorem shiftList_avoid (i n : Int) (hn : 0 < n) : ∀ (ls : List Loc), wfList ls = true →
    allLeavesList (leafAvoid i n) (shiftList ls i n) = true
  | [], _ => by simp [shiftList]
  | l :: ls, hw => by
      simp only [wfList_cons, Bool.and_eq_true] at hw
      simp [shiftList, shift_avoid i n hn l hw.1, shiftList_avoid i n hn ls hw.2]
end

mutual
theorem expand_avoid (i n : Int) (hn : 0 < n) : ∀ (l : Loc), wf l = true →
    allLeaves (leafAvoid i n) (expand l i n) = true
  | between p, _ => by simp [expand, betweenExpand, leafAvoid]
  | point p, _ => by simpa [expand] using avoid_pointExpand_ins p i n hn
  | ranged s e a b, hw => by
      simpa [expand] using avoid_rangedExpand_ins s e a b i n (by simpa [wf] using hw) hn
  | ambiguous s e, hw => by
      simpa [expand] using avoid_ambiguousExpand_ins s e i n (by simpa [wf] using hw) hn
  | joined ls, hw => by
      simp only [expand]
      exact join_leaves (mergeOK_leafAvoid i n) _ (expandList_avoid i n hn ls (by simpa [wf] using hw))
  | ordered ls, hw => by
      simp only [expand]
      exact order_leaves _ _ (expandList_avoid i n hn ls (by simpa [wf] using hw))
  | compl l, hw => by simpa [expand] using expand_avoid i n hn l (by simpa [wf] using hw)
theorem expandList_avoid (i n : Int) (hn : 0 < n) : ∀ (ls : List Loc), wfList ls = true →
    allLeavesList (leafAvoid i n) (expandList ls i n) = true
  | [], _ => by simp [expandList]
  | l :: ls, hw => by
      simp only [wfList_cons, Bool.and_eq_true] at hw
      simp [expandList, expand_avoid i n hn l hw.1, expandList_avoid i n hn ls hw.2]
end

/-- insert;delete restores `marks` -/
theorem shift_then_delete_marks_aux (l : Loc) (i n : Int) (hw : wf l = true) (hn : 0 < n)
    (g1 : shiftMarkAbs l i n = false) (g2 : expandMarkAbs (shift l i n) i (-n) = false) :
    marks (expand (shift l i n) i (-n)) = marks l := by
  have wfs : wf (shift l i n) = true := (shift_ins l i n hw (by omega)).2
  rw [expand_del_marks_aux (shift l i n) i n wfs hn g2,
    delMarks_of_avoid i n hn (shift l i n) wfs (shift_avoid i n hn l hw),
    shift_marks_aux l i n hw (by omega) g1]

/-- embed;delete restores `marks` -/
theorem embed_then_delete_marks_aux (l : Loc) (i n : Int) (hw : wf l = true) (hn : 0 < n)
    (g1 : expandMarkAbs l i n = false) (g2 : expandMarkAbs (expand l i n) i (-n) = false) :
    marks (expand (expand l i n) i (-n)) = marks l := by
  have wfe : wf (expand l i n) = true := (expand_ins l i n hw (by omega)).2
  rw [expand_del_marks_aux (expand l i n) i n wfe hn g2,
    delMarks_of_avoid i n hn (expand l i n) wfe (expand_avoid i n hn l hw),
    expand_ins_marks_aux l i n hw (by omega) g1]

end Loc
end Gts
