/-
  Concrete runs of the flagged parser (non-vacuity witnesses of `Gts.C06.parse_result_canon_partial`).
  The fuelled parsers are compiled by well-founded recursion and do not reduce in the kernel, so the runs
  are evaluated by `simp` with the equation lemmas (one short text per lemma).  Core Lean only.
-/
import Gts.Lemmas.LocRoundTrip
import Gts.Spec.ParseGuard
namespace Gts
open Pars LocParse

open Lean.Parser.Tactic in
/-- evaluate a run of the flagged parser on a concrete text -/
macro "geval" "[" ts:simpLemma,* "]" : tactic =>
  `(tactic| simp [LocParseG.loc, LocParseG.multiple, LocParseG.multiple.more, LocParseG.joinOf, LocParseG.orderOf,
      LocParseG.complementOf, LocParseG.leaf, LocParse.range, LocParse.between, LocParse.ambiguous, LocParse.point,
      LocParse.delimiter, int, skipWhile, trail, atoi, isDigit, isSpace, digitsVal, P.bind_run, P.map_run, P.pure_run,
      attempt_run, anyOf, anyOf.go, Pars.push, pop, Pars.drop, Pars.fail, pushed, getS, setS, next, advance1, advanceN,
      request, str_join, str_order, str_complement, $ts,*])

set_option maxRecDepth 10000 in
/-- `join(4,5)`: the run of the flagged parser with the fuel of `AsLocation` (evaluation under binders is
exponential in the fuel: longer texts are out of reach of `simp`) -/
theorem geval_join2 :
    LocParseG.loc Loc.canonGuard 11 ⟨[106, 111, 105, 110, 40, 52, 44, 53, 41], []⟩ =
      (.ok (Loc.join [.point 3, .point 4], Loc.canonGuard [.point 3, .point 4]), ⟨[], []⟩) := by
  geval []

set_option maxRecDepth 10000 in
/-- `4..7`: the run of the flagged parser with the fuel of `AsLocation` -/
theorem geval_range47 :
    LocParseG.loc Loc.canonGuard 6 ⟨[52, 46, 46, 55], []⟩ =
      (.ok (.ranged 3 7 false false, false), ⟨[], []⟩) := by
  geval []

end Gts
