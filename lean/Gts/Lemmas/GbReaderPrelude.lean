/-
  Lemmas about the translator's reading of the library calls in the reader's plain computations
  (Gts/Gen/GbReaderPrelude.lean, fixed text): what the re-implemented `bytes.Index` computes
  (`bytesIndexFrom_spec`: the FIRST occurrence, or -1 when there is none), its relation to the model's
  `findSub`, `strings.IndexByte` and the model's `indexOf`, `TrimSuffix` of a one-byte suffix and the
  model's `trimDot`, and the bytewise lexicographic order of Go strings.
-/
import Gts.Gen.GbReaderPrelude
import Gts.Model.GenBankParse
namespace Gts.Gen
open Gts.Pars (Bytes)
open Gts.GenBank

/-! ### `bytes.Index` -/

/-- the re-implemented scan is the model's `findSub` (`-1` for `none`) -/
theorem bytesIndexFrom_findSub (sep : Bytes) : ∀ (s : Bytes) (i : Nat),
    bytesIndexFrom sep s i = match findSub sep s i with | some k => (k : Int) | none => -1
  | [], i => by
    simp only [bytesIndexFrom, findSub]
    split <;> rfl
  | c :: t, i => by
    simp only [bytesIndexFrom, findSub]
    split
    · rfl
    · exact bytesIndexFrom_findSub sep t (i + 1)

theorem bytesIndex_findSub (s sep : Bytes) :
    bytesIndex s sep = match findSub sep s 0 with | some k => (k : Int) | none => -1 :=
  bytesIndexFrom_findSub sep s 0

/-- a hit of `findSub` lies inside the slice, pattern and all -/
theorem findSub_bound (pat : Bytes) : ∀ (t : Bytes) (i k : Nat), findSub pat t i = some k →
    i ≤ k ∧ (k - i) + pat.length ≤ t.length
  | [], i, k, h => by
    simp only [findSub] at h
    split at h
    · rename_i he
      have : pat = [] := by simpa using he
      cases h; subst this; simp
    · cases h
  | c :: t, i, k, h => by
    simp only [findSub] at h
    split at h
    · rename_i hp
      cases h
      have := (List.isPrefixOf_iff_prefix.mp hp).length_le
      simp only [Nat.sub_self, Nat.zero_add]
      exact ⟨Nat.le_refl _, this⟩
    · have ih := findSub_bound pat t (i + 1) k h
      simp only [List.length_cons]
      omega

/-- `findSub` from offset `i` is `findSub` from 0, shifted -/
theorem findSub_shift (pat : Bytes) : ∀ (t : Bytes) (i : Nat),
    findSub pat t i = (findSub pat t 0).map (· + i)
  | [], i => by
    simp only [findSub]
    split <;> simp
  | c :: t, i => by
    simp only [findSub]
    split
    · simp
    · rw [findSub_shift pat t (i + 1), findSub_shift pat t 1]
      cases findSub pat t 0 with
      | none => rfl
      | some k => simp only [Option.map_some]; congr 1; omega

/-- WHAT `bytes.Index` COMPUTES: `some k` iff `k` is the first position at which `sep` occurs; `none`
iff it occurs nowhere (positions `0 … len(s)`, so that an empty `sep` is found at 0) -/
theorem findSub_spec (pat : Bytes) : ∀ (t : Bytes),
    (∃ k, findSub pat t 0 = some k ∧ k ≤ t.length ∧ pat <+: t.drop k ∧ ∀ j, j < k → ¬ pat <+: t.drop j) ∨
    (findSub pat t 0 = none ∧ ∀ j, j ≤ t.length → ¬ pat <+: t.drop j)
  | [] => by
    simp only [findSub]
    by_cases he : pat.isEmpty = true
    · left
      refine ⟨0, by rw [if_pos he], Nat.le_refl _, ?_, fun j hj => absurd hj (Nat.not_lt_zero j)⟩
      have : pat = [] := by simpa using he
      subst this; exact List.nil_prefix
    · right
      refine ⟨by rw [if_neg he], fun j _ hp => he ?_⟩
      have : pat = [] := by
        have := hp.length_le
        simp only [List.drop_nil, List.length_nil, Nat.le_zero] at this
        exact List.length_eq_zero_iff.mp this
      simp [this]
  | c :: t => by
    simp only [findSub]
    by_cases hp : pat.isPrefixOf (c :: t) = true
    · left
      exact ⟨0, by rw [if_pos hp], Nat.zero_le _, by simpa using List.isPrefixOf_iff_prefix.mp hp,
        fun j hj => absurd hj (Nat.not_lt_zero j)⟩
    · rw [if_neg hp, findSub_shift pat t 1]
      have hnp : ¬ pat <+: c :: t := fun h => hp (List.isPrefixOf_iff_prefix.mpr h)
      rcases findSub_spec pat t with ⟨k, hk, hle, hpre, hmin⟩ | ⟨hn, hall⟩
      · left
        refine ⟨k + 1, by rw [hk]; rfl, by simp only [List.length_cons]; omega, by simpa using hpre, ?_⟩
        intro j hj
        cases j with
        | zero => simpa using hnp
        | succ j => simpa using hmin j (by omega)
      · right
        refine ⟨by rw [hn]; rfl, ?_⟩
        intro j hj
        cases j with
        | zero => simpa using hnp
        | succ j => simpa using hall j (by simp only [List.length_cons] at hj; omega)

/-- the same for the translated call: `bytes.Index(s, sep)` is the first position at which `sep`
occurs in `s`, and -1 exactly when it occurs nowhere -/
theorem bytesIndex_spec (s sep : Bytes) :
    (∃ k : Nat, bytesIndex s sep = (k : Int) ∧ k ≤ s.length ∧ sep <+: s.drop k ∧
      ∀ j, j < k → ¬ sep <+: s.drop j) ∨
    (bytesIndex s sep = -1 ∧ ∀ j, j ≤ s.length → ¬ sep <+: s.drop j) := by
  rw [bytesIndex_findSub]
  rcases findSub_spec sep s with ⟨k, hk, h⟩ | ⟨hn, h⟩
  · left; exact ⟨k, by rw [hk], h⟩
  · right; exact ⟨by rw [hn], h⟩

/-! ### `strings.IndexByte` -/

theorem indexOf_eq_findIdx? (c : UInt8) : ∀ (s : Bytes), indexOf c s = s.findIdx? (· == c)
  | [] => rfl
  | x :: xs => by
    simp only [indexOf, List.findIdx?_cons, indexOf_eq_findIdx? c xs]
    by_cases h : x = c <;> simp [h]

theorem bytesIndexByte_indexOf (c : UInt8) (s : Bytes) :
    bytesIndexByte s c = match indexOf c s with | some i => (i : Int) | none => -1 := by
  rw [indexOf_eq_findIdx?]; rfl

/-- a hit of `indexOf` is a position of the slice holding the byte -/
theorem indexOf_bound (c : UInt8) : ∀ (s : Bytes) (i : Nat), indexOf c s = some i → i < s.length
  | [], i, h => by simp [indexOf] at h
  | x :: xs, i, h => by
    simp only [indexOf] at h
    split at h
    · cases h; simp
    · cases hi : indexOf c xs with
      | none => rw [hi] at h; simp at h
      | some j =>
        rw [hi] at h
        simp only [Option.map_some, Option.some.injEq] at h
        have := indexOf_bound c xs j hi
        simp only [List.length_cons]; omega

/-! ### `TrimSuffix(s, ".")` -/

theorem isSuffixOf_singleton (c : UInt8) (s : Bytes) : [c].isSuffixOf s = (s.getLast? == some c) := by
  simp only [List.isSuffixOf, List.reverse_cons, List.reverse_nil, List.nil_append]
  rw [← List.head?_reverse]
  cases s.reverse with
  | nil => simp [List.isPrefixOf]
  | cons x t =>
    simp only [List.isPrefixOf, List.head?_cons, Bool.and_true]
    by_cases h : c = x
    · simp [h]
    · have h' : ¬ x = c := fun e => h e.symm
      rw [beq_eq_false_iff_ne.mpr h]
      exact (beq_eq_false_iff_ne.mpr (fun e => h' (Option.some.inj e))).symm

theorem bytesTrimSuffix_dot (s : Bytes) : bytesTrimSuffix s [46] = trimDot s := by
  simp only [bytesTrimSuffix, trimDot, isSuffixOf_singleton, List.length_cons, List.length_nil,
    Nat.zero_add, List.dropLast_eq_take]
  by_cases h : s.getLast? = some 46
  · simp [h]
  · have : (s.getLast? == some 46) = false := by simpa using h
    simp [h, this]

/-! ### Go's `<` on strings: bytewise lexicographic -/

/-- `a < b` for Go strings, on their bytes -/
def bytesLt : Bytes → Bytes → Bool
  | [], [] => false
  | [], _ :: _ => true
  | _ :: _, [] => false
  | a :: as, b :: bs => decide (a < b) || (a == b && bytesLt as bs)

theorem bytesLt_irrefl : ∀ a : Bytes, bytesLt a a = false
  | [] => rfl
  | a :: as => by simp [bytesLt, bytesLt_irrefl as]

theorem bytesLt_total : ∀ a b : Bytes, bytesLt a b = false → bytesLt b a = false → a = b
  | [], [], _, _ => rfl
  | [], _ :: _, h, _ => by simp [bytesLt] at h
  | _ :: _, [], _, h => by simp [bytesLt] at h
  | a :: as, b :: bs, h1, h2 => by
    simp only [bytesLt, Bool.or_eq_false_iff, decide_eq_false_iff_not, Bool.and_eq_false_imp,
      beq_iff_eq] at h1 h2
    have hab : a = b := by
      have h1' := h1.1; have h2' := h2.1
      exact UInt8.le_antisymm (UInt8.not_lt.mp h2') (UInt8.not_lt.mp h1')
    subst hab
    rw [bytesLt_total as bs (h1.2 rfl) (h2.2 rfl)]

end Gts.Gen
