/-
  C17, mixed streams under the auto scanner (`Gts.Model.AutoScan`): the parser kept by the first
  `Scan` reads everything that follows.
  * `scanFirst_ne_panic`, `scanFirst_sticks`: no panic; the kind of EVERY returned record is decided by
    whether `GenBankParser` accepts the first record;
  * `scanFirst_first_ok`: GenBank first → the rest is the GenBank loop (which stops, with an error, at a
    FASTA record: `gbLoop_stops`);
  * `parse_write_swallow`: FASTA first → a GenBank text behind a FASTA record becomes residues of that record;
  * `faLoop_fuel`: the fuel of the FASTA loop is adequate.
  Core Lean only.
-/
import Gts.Lemmas.FastaAuto
namespace Gts.Auto
open Gts.Pars
open Gts.GenBank (Record Registry genbankParser)
open Gts.Fasta (fastaParse)

theorem run_push_then {α} (p : P α) (s : PS) :
    (do push; p : P α).run' s = p.run' ⟨s.rest, s.rest :: s.stk⟩ := by
  rw [run_bind, run_push]

theorem sorted_push (s : PS) (hs : Sorted s.rest.length s.stk) :
    Sorted (PS.mk s.rest (s.rest :: s.stk)).rest.length (PS.mk s.rest (s.rest :: s.stk)).stk :=
  ⟨Nat.le_refl _, hs⟩

theorem sorted_drop (s : PS) (hs : Sorted s.rest.length s.stk) :
    Sorted (drop.run' s).2.rest.length (drop.run' s).2.stk := by
  rw [run_drop]
  show Sorted s.rest.length (s.stk.drop 1)
  cases hst : s.stk with
  | nil => trivial
  | cons f st => rw [hst] at hs; exact hs.tail

theorem sorted_pop (s : PS) (hs : Sorted s.rest.length s.stk) :
    Sorted (pop.run' s).2.rest.length (pop.run' s).2.stk := by
  rw [run_pop]
  cases hst : s.stk with
  | nil => dsimp only; rw [hst]; trivial
  | cons f st => rw [hst] at hs; exact hs.2

/-- the first `Scan` when `GenBankParser` accepts the first record: that record, then the GenBank
loop on the state the record left (the scanner's `Drop` included) -/
theorem scanFirst_first_ok (reg reg' : Registry) (s s' : PS) (r : Record)
    (hne : s.rest.isEmpty = false)
    (h : (genbankParser reg).run' ⟨s.rest, s.rest :: s.stk⟩ = (.ok (r, reg'), s')) :
    scanFirst reg s = (gbLoop (s'.rest.length + 1) reg' ⟨s'.rest, s'.stk.drop 1⟩).cons (.gb r) := by
  unfold scanFirst
  rw [if_neg (by rw [hne]; exact Bool.false_ne_true), run_push_then, run_attempt, h]
  rfl

/-- the first `Scan` never reports a panic (from every sorted state, for every registry) -/
theorem scanFirst_ne_panic (reg : Registry) (s : PS) (hs : Sorted s.rest.length s.stk) :
    scanFirst reg s ≠ .panic := by
  unfold scanFirst
  split
  · intro h; cases h
  · rw [run_push_then, run_attempt]
    obtain ⟨hnp, hsort, _⟩ := gb_nopanic reg _ (sorted_push s hs)
    rcases hrun : (genbankParser reg).run' ⟨s.rest, s.rest :: s.stk⟩ with ⟨r, s1⟩
    rw [hrun] at hnp hsort
    rcases r with e | ⟨rec, reg'⟩
    · cases e
      · dsimp only
        rw [run_push_then, run_attempt]
        have hp := Fasta.fastaParse_ne_panic ⟨(pop.run' s1).2.rest, (pop.run' s1).2.rest :: (pop.run' s1).2.stk⟩
        rcases hrun2 : fastaParse.run' ⟨(pop.run' s1).2.rest, (pop.run' s1).2.rest :: (pop.run' s1).2.stk⟩ with ⟨r2, s3⟩
        rw [hrun2] at hp
        rcases r2 with e | a
        · cases e
          · intro h; cases h
          · exact absurd rfl hp
        · dsimp only
          obtain ⟨rs, c, _, h4⟩ := faLoop_eq reg ((drop.run' s3).2.rest.length + 1) (drop.run' s3).2
          rw [h4]; intro h; cases h
      · exact absurd rfl hnp
    · exact cons_ne_panic _ _ (gbLoop_ne_panic _ _ _ (sorted_drop s1 hsort))

/-- **the parser is chosen once**: the first `Scan` and everything after it return records of ONE
kind, decided by whether `GenBankParser` accepts the first record (on the state the scanner's
`Push` made) — GenBank records only (at least that first one) when it does; FASTA records only,
and an untouched registry, when it does not -/
theorem scanFirst_sticks (reg : Registry) (s : PS) (hs : Sorted s.rest.length s.stk) :
    ∃ rs rg c, scanFirst reg s = .done rs rg c ∧
      match ((genbankParser reg).run' ⟨s.rest, s.rest :: s.stk⟩).1 with
      | .ok _ => rs.all Rec.isGb = true ∧ rs ≠ []
      | .error _ => rs.all Rec.isFa = true ∧ rg = reg := by
  by_cases he : s.rest.isEmpty = true
  · have h0 : startsLocus (PS.mk s.rest (s.rest :: s.stk)).rest = false := by
      show startsLocus s.rest = false
      rw [List.isEmpty_iff.mp he]; rfl
    rw [genbankParser_not_locus reg _ h0]
    refine ⟨[], reg, true, ?_, rfl, rfl⟩
    unfold scanFirst
    rw [if_pos he]
  · have hne : s.rest.isEmpty = false := by simpa using he
    obtain ⟨hnp, hsort, _⟩ := gb_nopanic reg _ (sorted_push s hs)
    rcases hrun : (genbankParser reg).run' ⟨s.rest, s.rest :: s.stk⟩ with ⟨r, s1⟩
    rw [hrun] at hnp hsort
    rcases r with e | ⟨rec, reg'⟩
    · cases e
      · dsimp only
        unfold scanFirst
        rw [if_neg he, run_push_then, run_attempt, hrun]
        dsimp only
        rw [run_push_then, run_attempt]
        have hp := Fasta.fastaParse_ne_panic ⟨(pop.run' s1).2.rest, (pop.run' s1).2.rest :: (pop.run' s1).2.stk⟩
        rcases hrun2 : fastaParse.run' ⟨(pop.run' s1).2.rest, (pop.run' s1).2.rest :: (pop.run' s1).2.stk⟩ with ⟨r2, s3⟩
        rw [hrun2] at hp
        rcases r2 with e | a
        · cases e
          · exact ⟨[], reg, false, rfl, rfl, rfl⟩
          · exact absurd rfl hp
        · dsimp only
          obtain ⟨rs, c, h4, h5⟩ := faLoop_all_fa reg ((drop.run' s3).2.rest.length + 1) (drop.run' s3).2
          rw [h4]
          refine ⟨.fa a.1 a.2 :: rs, reg, c, rfl, ?_, rfl⟩
          simpa [Rec.isFa] using h5
      · exact absurd rfl hnp
    · dsimp only
      rw [scanFirst_first_ok reg reg' s s1 rec hne hrun]
      have hl := gbLoop_ne_panic (s1.rest.length + 1) reg' ⟨s1.rest, s1.stk.drop 1⟩
        (sorted_drop s1 hsort)
      cases hg : gbLoop (s1.rest.length + 1) reg' ⟨s1.rest, s1.stk.drop 1⟩ with
      | panic => exact absurd hg hl
      | done rs rg c =>
        refine ⟨.gb rec :: rs, rg, c, rfl, ?_, by simp⟩
        have := gbLoop_all_gb _ _ _ _ _ _ hg
        simpa [Rec.isGb] using this

/-! ### FASTA first: what follows is read by `FastaParser` -/

theorem fastaBody_append_noCR (a b : Bytes) (ha : Fasta.noCR a = true) :
    Fasta.fastaBody (a ++ b) = a.filter Fasta.isNotNL ++ Fasta.fastaBody b := by
  induction a with
  | nil => simp
  | cons c r ih =>
    simp [Fasta.noCR] at ha
    have hr : Fasta.noCR r = true := by simp [Fasta.noCR]; exact ha.2
    by_cases h10 : c = 10
    · subst h10
      simp [Fasta.fastaBody_cons_nl, ih hr, Fasta.isNotNL]
    · have hc : Fasta.isNotNL c = true := by simp [Fasta.isNotNL, h10]
      simp [Fasta.fastaBody_cons c _ h10 ha.1, ih hr, hc]

/-- **a written FASTA record followed by text without `>`** (a GenBank record whose locations have
no `>` marker, for one): `FastaParser` reads the record AND the text — up to the end of input —
as one record; the text, line breaks removed, is appended to the residues -/
theorem parse_write_swallow (d r g : Bytes) (stk : List Bytes) (hd : Fasta.noCR d = true)
    (hr : Fasta.resOk r = true) (hg : g.all Fasta.notGt = true) :
    fastaParse ⟨Fasta.fastaWrite d r ++ g, stk⟩ =
      (.ok (Fasta.nl2sp d, r ++ Fasta.fastaBody g), ⟨[], stk⟩) := by
  obtain ⟨w1, w2, w3⟩ := Fasta.wrapped_facts r hr
  have e : Fasta.fastaWrite d r ++ g =
      62 :: (Fasta.nl2sp d ++ 10 :: (((Fasta.wrapForce r Fasta.width ++ [10]) ++ g) ++ [])) := by
    simp [Fasta.fastaWrite]
  have hspan := Fasta.span_notGt ((Fasta.wrapForce r Fasta.width ++ [10]) ++ g) []
    (by
      intro c hc
      simp only [List.mem_append, List.mem_singleton] at hc
      rcases hc with (h | h) | h
      · exact w1 c h
      · subst h; decide
      · exact (List.all_eq_true.1 hg) c h) rfl
  rw [e, Fasta.fastaParse_run]
  simp only [beq_self_eq_true, if_true, Fasta.lineSplit_lf _ _ (Fasta.descOk_nl2sp d hd), hspan.1, hspan.2]
  rw [fastaBody_append_noCR _ _ w2]
  simp [List.filter_append, w3, Fasta.isNotNL]

/-! ### the fuel of the FASTA loop -/

theorem lineSplit_snd_le (t : Bytes) : (Fasta.lineSplit t).2.length ≤ t.length := by
  unfold Fasta.lineSplit
  dsimp only
  split <;> simp only [List.length_drop] <;> omega

/-- a record that `FastaParser` returns has consumed at least its `>` -/
theorem fastaParse_consumes (s s' : PS) (a : Bytes × Bytes) (h : fastaParse.run' s = (.ok a, s')) :
    s'.rest.length + 1 ≤ s.rest.length := by
  obtain ⟨t, stk⟩ := s
  rw [Fasta.run'_eq, Fasta.fastaParse_run] at h
  cases t with
  | nil => cases h
  | cons c t' =>
    dsimp only at h
    split at h
    · injection h with _ h2
      subst h2
      have h1 := lineSplit_snd_le t'
      have h2 := (List.dropWhile_suffix Fasta.notGt (l := (Fasta.lineSplit t').2)).length_le
      show (List.dropWhile Fasta.notGt (Fasta.lineSplit t').2).length + 1 ≤ (c :: t').length
      simp only [List.length_cons]
      omega
    · cases h

/-- the fuel `len + 1` of the FASTA loop is adequate -/
theorem faLoop_fuel (reg : Registry) : ∀ k k' (s : PS),
    s.rest.length < k → s.rest.length < k' → faLoop k reg s = faLoop k' reg s
  | 0, _, _, h, _ => absurd h (Nat.not_lt_zero _)
  | _ + 1, 0, _, _, h => absurd h (Nat.not_lt_zero _)
  | k + 1, k' + 1, s, hk, hk' => by
    unfold faLoop
    split
    · rfl
    · rcases hrun : fastaParse.run' s with ⟨r, s'⟩
      rcases r with e | a
      · cases e <;> rfl
      · have := fastaParse_consumes s s' a hrun
        dsimp only
        rw [faLoop_fuel reg k k' s' (by omega) (by omega)]

end Gts.Auto
