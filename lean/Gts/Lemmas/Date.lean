/-
  C07: `AsDate` reads back every date stamp the GenBank writer prints, never panics, and
  `isLeapYear` is the Gregorian rule.  Core Lean only.
-/
import Gts.Model.Date
import Gts.Lemmas.ModText
namespace Gts.Date
open Pars

/-! ### `strings.Split(s, "-")` -/

theorem splitDash_ne_nil (a : Bytes) : splitDash a ≠ [] := by
  cases a with
  | nil => simp [splitDash]
  | cons c r =>
    unfold splitDash
    split
    · simp
    · split <;> simp

theorem splitDash_nodash (a : Bytes) (h : (45 : UInt8) ∉ a) : splitDash a = [a] := by
  induction a with
  | nil => rfl
  | cons c r ih =>
    have hc : c ≠ 45 := fun e => h (e ▸ List.mem_cons_self ..)
    have hr : (45 : UInt8) ∉ r := fun m => h (List.mem_cons_of_mem _ m)
    unfold splitDash
    rw [if_neg hc, ih hr]

theorem splitDash_append (a r : Bytes) (h : (45 : UInt8) ∉ a) :
    splitDash (a ++ 45 :: r) = a :: splitDash r := by
  induction a with
  | nil => simp [splitDash]
  | cons c a ih =>
    have hc : c ≠ 45 := fun e => h (e ▸ List.mem_cons_self ..)
    have ha : (45 : UInt8) ∉ a := fun m => h (List.mem_cons_of_mem _ m)
    rw [List.cons_append, splitDash, if_neg hc, ih ha]

/-- the number of parts is the number of `-` plus one -/
theorem splitDash_length (a : Bytes) : (splitDash a).length = a.count 45 + 1 := by
  induction a with
  | nil => rfl
  | cons c r ih =>
    unfold splitDash
    by_cases hc : c = 45
    · subst hc; simp [ih]
    · rw [if_neg hc]
      have : List.count 45 (c :: r) = List.count 45 r := by
        rw [List.count_cons]; simp [hc]
      rw [this, ← ih]
      cases h : splitDash r with
      | nil => exact absurd h (splitDash_ne_nil r)
      | cons p ps => rfl

/-! ### digits -/

theorem digits_nodash (ds : Bytes) (h : ds.all isDigit = true) : (45 : UInt8) ∉ ds := by
  intro hm
  have := List.all_eq_true.mp h 45 hm
  revert this; decide

theorem digitsVal_zero_cons (ds : Bytes) : digitsVal (48 :: ds) = digitsVal ds := by
  simp [digitsVal]

theorem digitsVal_pad (k : Nat) (ds : Bytes) : digitsVal (List.replicate k 48 ++ ds) = digitsVal ds := by
  induction k with
  | zero => rfl
  | succ k ih => rw [List.replicate_succ, List.cons_append, digitsVal_zero_cons, ih]

theorem all_pad (k : Nat) (ds : Bytes) (h : ds.all isDigit = true) :
    (List.replicate k 48 ++ ds).all isDigit = true := by
  rw [List.all_append, h, Bool.and_true, List.all_eq_true]
  intro x hx
  rw [List.eq_of_mem_replicate hx]; decide

/-- `strconv.Atoi` on an unsigned digit string -/
theorem atoi_digits (ds : Bytes) (hne : ds ≠ []) (hd : ds.all isDigit = true)
    (hv : digitsVal ds ≤ 9223372036854775807) : atoi ds = some (digitsVal ds : Int) := by
  cases ds with
  | nil => exact absurd rfl hne
  | cons d r =>
    have hdd : isDigit d = true := by
      simp only [List.all_cons, Bool.and_eq_true] at hd; exact hd.1
    have h45 : d ≠ 45 := by intro e; subst e; revert hdd; decide
    have h43 : d ≠ 43 := by intro e; subst e; revert hdd; decide
    unfold atoi
    split
    rename_i neg ds heq
    split at heq
    · rename_i heq'; injection heq' with h1; exact absurd h1 h45
    · rename_i heq'; injection heq' with h1; exact absurd h1 h43
    · injection heq with hn hds
      subst hn; subst hds
      simp only [List.isEmpty_cons, Bool.false_or, hd, Bool.not_true, Bool.false_eq_true, if_false]
      have : ¬ (((digitsVal (d :: r) : Nat) : Int) < -9223372036854775808 ∨
          9223372036854775807 < ((digitsVal (d :: r) : Nat) : Int)) := by omega
      simp only [this, if_false]

theorem padZero_spec (w n : Nat) (hn : n ≤ 9223372036854775807) :
    atoi (padZero w (natDigits n)) = some (n : Int) ∧ (45 : UInt8) ∉ padZero w (natDigits n) := by
  obtain ⟨h1, h2, d, ds, h3, _⟩ := natDigits_spec n
  have hall := all_pad (w - (natDigits n).length) _ h2
  refine ⟨?_, digits_nodash _ hall⟩
  have hval : digitsVal (padZero w (natDigits n)) = n := by
    unfold padZero; rw [digitsVal_pad, h1]
  have := atoi_digits (padZero w (natDigits n)) (by unfold padZero; rw [h3]; simp) hall
    (by rw [hval]; exact hn)
  rw [this, hval]

/-! ### months -/

theorem month_names : ∀ i : Fin 12,
    monthOf (monthNames.getD i.1 []) = some (i.1 + 1) ∧ (45 : UInt8) ∉ monthNames.getD i.1 [] := by
  decide

theorem mem_of_lookup {α β} [BEq α] [LawfulBEq α] (l : List (α × β)) (k : α) (v : β)
    (h : l.lookup k = some v) : (k, v) ∈ l := by
  induction l with
  | nil => simp at h
  | cons p l ih =>
    obtain ⟨a, b⟩ := p
    rw [List.lookup_cons] at h
    by_cases hk : k == a
    · simp only [hk] at h
      have := eq_of_beq hk
      injection h with h; subst h; subst this
      exact List.mem_cons_self ..
    · simp only [hk] at h
      exact List.mem_cons_of_mem _ (ih h)

/-- every key of `monthMap` is a month 1..12 -/
theorem monthOf_range (s : Bytes) (m : Nat) (h : monthOf s = some m) : 1 ≤ m ∧ m ≤ 12 := by
  have hall : ∀ p ∈ monthTable, 1 ≤ p.2 ∧ p.2 ≤ 12 := by decide
  exact hall _ (mem_of_lookup _ _ _ h)

/-! ### the theorems -/

/-- `AsDate` never panics: the index expressions `parts[0..2]` are guarded by the length test -/
theorem asDate_nopanic (s : Bytes) : asDate s ≠ .error .panic := by
  unfold asDate
  dsimp only
  split
  · intro h; cases h
  · rename_i hlen
    have hlen : (splitDash s).length = 3 := Decidable.of_not_not hlen
    match hs : splitDash s, hlen with
    | [a, b, c], _ =>
      simp only [List.getElem?_cons_zero, List.getElem?_cons_succ]
      repeat' split
      all_goals first | (intro h; cases h; done) | skip
      all_goals simp_all

/-- what `AsDate` accepts is a calendar date -/
theorem asDate_valid (s : Bytes) (d : DateV) (h : asDate s = .ok d) : validDate d := by
  unfold asDate at h
  dsimp only at h
  repeat' split at h
  all_goals first | (cases h; done) | skip
  rename_i hm _ _ _ hc
  injection h with h
  subst h
  exact ⟨(monthOf_range _ _ hm).1, (monthOf_range _ _ hm).2, hc⟩

/-- `checkDate` bounds the day by 31 -/
theorem checkDate_day (y : Int) (m : Nat) (d : Int) (h : checkDate y m d = true) : 1 ≤ d ∧ d ≤ 31 := by
  unfold checkDate at h
  cases hl : dayTable.lookup m with
  | none => rw [hl] at h; cases h
  | some dayMax =>
    rw [hl] at h
    dsimp only at h
    have hall : ∀ p ∈ dayTable, p.2 ≤ 31 ∧ (p.1 = 2 → p.2 = 28) := by decide
    have hmax := hall _ (mem_of_lookup _ _ _ hl)
    dsimp only at hmax
    by_cases h1 : d < 1
    · rw [if_pos h1] at h; cases h
    · rw [if_neg h1] at h
      by_cases hf : (m = 2 && isLeapYear y) = true
      · rw [if_pos hf] at h
        have hm2 : m = 2 := by
          simp only [Bool.and_eq_true, decide_eq_true_eq] at hf; exact hf.1
        have := hmax.2 hm2
        by_cases h2 : d > (dayMax : Int) + 1
        · rw [if_pos h2] at h; cases h
        · omega
      · rw [if_neg hf] at h
        by_cases h2 : d > (dayMax : Int)
        · rw [if_pos h2] at h; cases h
        · omega

/-- the date stamp of a calendar date with a non-negative year that fits a Go `int` reads back
as the same date -/
theorem asDate_fmtDate (d : DateV) (hv : validDate d) (hy0 : 0 ≤ d.year)
    (hy1 : d.year ≤ 9223372036854775807) : asDate (fmtDate d) = .ok d := by
  obtain ⟨hm1, hm12, hc⟩ := hv
  obtain ⟨hd1, hd31⟩ := checkDate_day _ _ _ hc
  obtain ⟨y, m, dd⟩ := d
  dsimp only at *
  -- the three fields
  obtain ⟨hday, hdayND⟩ := padZero_spec 2 dd.natAbs (by omega)
  obtain ⟨hyear, hyearND⟩ := padZero_spec 4 y.natAbs (by omega)
  have hmon := month_names ⟨m - 1, by omega⟩
  dsimp only at hmon
  rw [show m - 1 + 1 = m by omega] at hmon
  have hday' : (dd.natAbs : Int) = dd := by omega
  have hyear' : (y.natAbs : Int) = y := by omega
  have hfy : fmtYear y = padZero 4 (natDigits y.natAbs) := by
    unfold fmtYear; rw [if_neg (by omega)]
  have hsplit : splitDash (fmtDate ⟨y, m, dd⟩) =
      [padZero 2 (natDigits dd.natAbs), monthNames.getD (m - 1) [], padZero 4 (natDigits y.natAbs)] := by
    unfold fmtDate
    dsimp only
    rw [splitDash_append _ _ hdayND, splitDash_append _ _ hmon.2, hfy, splitDash_nodash _ hyearND]
  unfold asDate
  simp only [hsplit, List.length_cons, List.length_nil, ne_eq, not_true_eq_false, if_false,
    List.getElem?_cons_zero, List.getElem?_cons_succ, hday, hmon.1, hyear, hday', hyear', hc, if_true]

/-- `isLeapYear` is the Gregorian rule: divisible by 4, and by 400 if divisible by 100 -/
theorem isLeapYear_gregorian (y : Int) :
    isLeapYear y = true ↔ (4 ∣ y ∧ (¬ 100 ∣ y ∨ 400 ∣ y)) := by
  have d4 : y.tmod 4 = 0 ↔ 4 ∣ y := ⟨Int.dvd_of_tmod_eq_zero, Int.tmod_eq_zero_of_dvd⟩
  have d100 : y.tmod 100 = 0 ↔ 100 ∣ y := ⟨Int.dvd_of_tmod_eq_zero, Int.tmod_eq_zero_of_dvd⟩
  have d400 : y.tmod 400 = 0 ↔ 400 ∣ y := ⟨Int.dvd_of_tmod_eq_zero, Int.tmod_eq_zero_of_dvd⟩
  unfold isLeapYear
  by_cases h400 : y.tmod 400 = 0
  · have : (400 : Int) ∣ y := d400.mp h400
    simp only [h400, if_true, true_iff]
    exact ⟨by omega, Or.inr this⟩
  · by_cases h100 : y.tmod 100 = 0
    · have : (100 : Int) ∣ y := d100.mp h100
      simp only [h400, h100, if_false, if_true, Bool.false_eq_true, false_iff]
      rintro ⟨_, h | h⟩
      · exact h this
      · exact h400 (d400.mpr h)
    · simp only [h400, h100, if_false, decide_eq_true_eq, d4]
      constructor
      · intro h; exact ⟨h, Or.inl fun h' => h100 (d100.mpr h')⟩
      · exact fun h => h.1

end Gts.Date
