/-
  Helper lemmas for C15 (the scan loops of delete / insert / infix / split / rotate / extract,
  `Gts/Model/Cli.lean`): positional filters on residue lists, cutting disjoint segments from the
  right, inserting at descending indices, the two sorts of the loops, the wrap-around branch of
  `gts.Slice`, structural equality of regions.  Core Lean only.
-/
import Gts.Model.Cli
import Gts.Lemmas.Minimize
import Gts.Props.C03
import Gts.Props.C04
namespace Gts.Cli
open Gts Reg

/-! ### positional filter: keep the residues whose position does not satisfy `P` -/

/-- the residues of `bs` (whose first element sits at position `off`) at positions where `P` is
false, in order -/
def keepOff (P : Nat → Bool) : Nat → List UInt8 → List UInt8
  | _, [] => []
  | off, b :: bs => if P off then keepOff P (off + 1) bs else b :: keepOff P (off + 1) bs

/-- the same thing written with `List.range` and `filterMap` (the form used by the specs) -/
def keepRange (P : Nat → Bool) (bs : List UInt8) : List UInt8 :=
  (List.range bs.length).filterMap fun k => if P k then none else bs[k]?

theorem keepRange_cons (P : Nat → Bool) (b : UInt8) (bs : List UInt8) :
    keepRange P (b :: bs) = (if P 0 then [] else [b]) ++ keepRange (fun k => P (k + 1)) bs := by
  unfold keepRange
  rw [List.length_cons, List.range_succ_eq_map, List.filterMap_cons, List.filterMap_map]
  have : ((fun k => if P k = true then none else (b :: bs)[k]?) ∘ Nat.succ) =
      fun k => if P (k + 1) = true then none else bs[k]? := by
    funext k; simp
  rw [this]
  by_cases h : P 0 <;> simp [h]

theorem keepRange_eq_keepOff (P : Nat → Bool) (off : Nat) (bs : List UInt8) :
    keepRange (fun k => P (k + off)) bs = keepOff P off bs := by
  induction bs generalizing off with
  | nil => rfl
  | cons b bs ih =>
    rw [keepRange_cons, keepOff]
    have : (fun k => P (k + 1 + off)) = fun k => P (k + (off + 1)) := by
      funext k; congr 1; omega
    rw [this, ih (off + 1), Nat.zero_add]
    by_cases h : P off <;> simp [h]

theorem keepOff_append (P : Nat → Bool) (off : Nat) (a b : List UInt8) :
    keepOff P off (a ++ b) = keepOff P off a ++ keepOff P (off + a.length) b := by
  induction a generalizing off with
  | nil => simp [keepOff]
  | cons x a ih =>
    simp only [List.cons_append, keepOff, ih (off + 1), List.length_cons]
    have : off + 1 + a.length = off + (a.length + 1) := by omega
    rw [this]
    split <;> simp

theorem keepOff_congr (P Q : Nat → Bool) (off : Nat) (l : List UInt8)
    (h : ∀ k, off ≤ k → k < off + l.length → P k = Q k) : keepOff P off l = keepOff Q off l := by
  induction l generalizing off with
  | nil => rfl
  | cons x l ih =>
    have h0 : P off = Q off := h off (Nat.le_refl _) (by simp)
    have := ih (off + 1) (fun k h1 h2 => h k (by omega) (by simp only [List.length_cons]; omega))
    simp only [keepOff, h0, this]

theorem keepOff_false (P : Nat → Bool) (off : Nat) (l : List UInt8)
    (h : ∀ k, off ≤ k → k < off + l.length → P k = false) : keepOff P off l = l := by
  induction l generalizing off with
  | nil => rfl
  | cons x l ih =>
    have h0 : P off = false := h off (Nat.le_refl _) (by simp)
    have := ih (off + 1) (fun k h1 h2 => h k (by omega) (by simp only [List.length_cons]; omega))
    simp [keepOff, h0, this]

theorem keepOff_true (P : Nat → Bool) (off : Nat) (l : List UInt8)
    (h : ∀ k, off ≤ k → k < off + l.length → P k = true) : keepOff P off l = [] := by
  induction l generalizing off with
  | nil => rfl
  | cons x l ih =>
    have h0 : P off = true := h off (Nat.le_refl _) (by simp)
    have := ih (off + 1) (fun k h1 h2 => h k (by omega) (by simp only [List.length_cons]; omega))
    simp [keepOff, h0, this]

theorem keepOff_split (P : Nat → Bool) (off m : Nat) (l : List UInt8) (hm : m ≤ l.length) :
    keepOff P off l = keepOff P off (l.take m) ++ keepOff P (off + m) (l.drop m) := by
  have := keepOff_append P off (l.take m) (l.drop m)
  rw [List.take_append_drop, List.length_take, Nat.min_eq_left hm] at this
  exact this

/-- the kept residues and the dropped positions add up to the whole list -/
theorem keepOff_length (P : Nat → Bool) (off : Nat) (l : List UInt8) :
    (keepOff P off l).length + ((List.range' off l.length).filter P).length = l.length := by
  induction l generalizing off with
  | nil => rfl
  | cons x l ih =>
    have := ih (off + 1)
    simp only [keepOff, List.length_cons, List.range'_succ, List.filter_cons]
    by_cases h : P off <;> simp [h] <;> omega

/-! ### cutting disjoint forward segments, rightmost first -/

/-- `seq[:i] + seq[i+n:]` for the segment `sg` as the loop computes it -/
def cutB (sg : Seg) (bs : List UInt8) : List UInt8 :=
  bs.take sg.1.toNat ++ bs.drop (sg.1 + Reg.gabs (sg.2 - sg.1)).toNat

theorem deleteSegs_bytes (erase : Bool) (ss : List Seg) (s : Seq) :
    (deleteSegs erase ss s).bytes = ss.foldr cutB s.bytes := by
  unfold deleteSegs
  rw [List.foldl_reverse]
  induction ss with
  | nil => rfl
  | cons a ss ih =>
    simp only [List.foldr_cons]
    rw [← ih]
    cases erase <;> rfl

/-- position `k` is covered by a segment of the list (Boolean form over `Nat` positions) -/
def covB (ss : List Seg) (k : Nat) : Bool := decide (segsCover ss (k : Int))

/-- the general lemma: for forward segments, increasing and disjoint, inside `[0, len]`, cutting
them rightmost first removes exactly the covered positions (cutting the rightmost segment does
not move anything to its left). -/
theorem foldr_cutB (ss : List Seg) (bs : List UInt8) (hf : Fwd ss)
    (hp : ss.Pairwise (fun a b => a.2 ≤ b.1))
    (hw : ∀ o ∈ ss, 0 ≤ o.1 ∧ o.2 ≤ (bs.length : Int)) :
    ss.foldr cutB bs = keepOff (covB ss) 0 bs := by
  induction ss with
  | nil =>
    rw [List.foldr_nil, keepOff_false]
    intro k _ _; simp [covB]
  | cons a rest ih =>
    have hfa : a.1 ≤ a.2 := hf a (List.mem_cons_self ..)
    have hwa := hw a (List.mem_cons_self ..)
    have hrest : ∀ b ∈ rest, a.2 ≤ b.1 := (List.pairwise_cons.mp hp).1
    rw [List.foldr_cons, ih (fun o ho => hf o (List.mem_cons_of_mem _ ho)) (List.pairwise_cons.mp hp).2
      (fun o ho => hw o (List.mem_cons_of_mem _ ho))]
    obtain ⟨i, hi⟩ : ∃ i : Nat, a.1 = i := ⟨a.1.toNat, by omega⟩
    obtain ⟨j, hj⟩ : ∃ j : Nat, a.2 = j := ⟨a.2.toNat, by omega⟩
    have hij : i ≤ j := by omega
    have hjl : j ≤ bs.length := by omega
    -- the right-hand side, split at `i` and `j`
    have hR : keepOff (covB (a :: rest)) 0 bs = bs.take i ++ keepOff (covB rest) j (bs.drop j) := by
      rw [keepOff_split _ 0 i bs (by omega), keepOff_false _ 0 (bs.take i), Nat.zero_add,
        keepOff_split _ i (j - i) (bs.drop i) (by simp only [List.length_drop]; omega),
        keepOff_true _ i ((bs.drop i).take (j - i)), List.nil_append, List.drop_drop]
      · have e1 : i + (j - i) = j := by omega
        rw [e1]
        apply congrArg
        apply keepOff_congr
        intro k hk _
        simp only [covB, segsCover_cons]
        have : ¬ (a.1 ≤ (k : Int) ∧ (k : Int) < a.2) := by omega
        simp [this]
      · intro k hk1 hk2
        simp only [List.length_take, List.length_drop] at hk2
        simp only [covB, segsCover_cons, decide_eq_true_eq]
        left; omega
      · intro k _ hk2
        simp only [List.length_take] at hk2
        simp only [covB, decide_eq_false_iff_not, segsCover_cons]
        rintro (h | ⟨b, hb, hb1, _⟩)
        · omega
        · have := hrest b hb; omega
    -- the left-hand side: nothing of `rest` is covered below `j`
    have hL : keepOff (covB rest) 0 bs = bs.take j ++ keepOff (covB rest) j (bs.drop j) := by
      rw [keepOff_split _ 0 j bs hjl, keepOff_false _ 0 (bs.take j), Nat.zero_add]
      intro k _ hk2
      simp only [List.length_take] at hk2
      simp only [covB, decide_eq_false_iff_not]
      rintro ⟨b, hb, hb1, _⟩
      have := hrest b hb; omega
    rw [hR, hL]
    unfold cutB
    have eg : Reg.gabs (a.2 - a.1) = a.2 - a.1 := by unfold Reg.gabs; split <;> omega
    have e1 : a.1.toNat = i := by omega
    have e2 : (a.1 + (a.2 - a.1)).toNat = j := by omega
    rw [eg, e1, e2]
    have hlen : (bs.take j).length = j := by simp only [List.length_take]; omega
    rw [List.take_append_of_le_length (by omega), List.take_take, Nat.min_eq_left hij,
      List.drop_append_of_le_length (by omega)]
    have : List.drop j (List.take j bs) = [] := by
      apply List.drop_eq_nil_of_le; omega
    rw [this, List.nil_append]

/-! ### the descending sort of insert.go -/

theorem insertDesc_perm (x : Int) (l : List Int) : (insertDesc x l).Perm (x :: l) := by
  induction l with
  | nil => exact List.Perm.refl _
  | cons y ys ih =>
    unfold insertDesc
    split
    · exact (List.Perm.cons y ih).trans (List.Perm.swap x y ys)
    · exact List.Perm.refl _

theorem sortDesc_perm (l : List Int) : (sortDesc l).Perm l := by
  induction l with
  | nil => exact List.Perm.refl _
  | cons x xs ih => exact (insertDesc_perm x _).trans (List.Perm.cons x ih)

theorem insertDesc_sorted (x : Int) (l : List Int) (h : l.Pairwise (fun a b => b ≤ a)) :
    (insertDesc x l).Pairwise (fun a b => b ≤ a) := by
  induction l with
  | nil => simp [insertDesc]
  | cons y ys ih =>
    unfold insertDesc
    have hy := List.pairwise_cons.mp h
    split
    · rename_i hxy
      refine List.pairwise_cons.mpr ⟨?_, ih hy.2⟩
      intro b hb
      rcases List.mem_cons.mp ((insertDesc_perm x ys).subset hb) with rfl | hb
      · omega
      · exact hy.1 b hb
    · rename_i hxy
      refine List.pairwise_cons.mpr ⟨?_, h⟩
      intro b hb
      rcases List.mem_cons.mp hb with rfl | hb
      · omega
      · have := hy.1 b hb; omega

theorem sortDesc_sorted (l : List Int) : (sortDesc l).Pairwise (fun a b => b ≤ a) := by
  induction l with
  | nil => simp [sortDesc]
  | cons x xs ih => exact insertDesc_sorted x _ ih

/-! ### inserting at descending indices -/

/-- `n` copies of `g`, concatenated -/
def copies (n : Nat) (g : List UInt8) : List UInt8 := (List.replicate n g).flatten

/-- before the residue at position `p` (and after the last one) `c p` copies of `g`; the first
residue of `bs` sits at position `off` -/
def insOff (c : Nat → Nat) (g : List UInt8) : Nat → List UInt8 → List UInt8
  | off, [] => copies (c off) g
  | off, b :: bs => copies (c off) g ++ b :: insOff c g (off + 1) bs

/-- the same thing with `List.range` and `flatMap` (the form used by the specs) -/
def insRange (c : Nat → Nat) (g bs : List UInt8) : List UInt8 :=
  (List.range (bs.length + 1)).flatMap fun p => copies (c p) g ++ bs[p]?.toList

theorem insRange_cons (c : Nat → Nat) (g : List UInt8) (b : UInt8) (bs : List UInt8) :
    insRange c g (b :: bs) = copies (c 0) g ++ b :: insRange (fun k => c (k + 1)) g bs := by
  unfold insRange
  rw [List.length_cons, List.range_succ_eq_map, List.flatMap_cons, List.flatMap_map]
  simp

theorem insRange_eq_insOff (c : Nat → Nat) (g : List UInt8) (off : Nat) (bs : List UInt8) :
    insRange (fun k => c (k + off)) g bs = insOff c g off bs := by
  induction bs generalizing off with
  | nil => simp [insRange, insOff]
  | cons b bs ih =>
    rw [insRange_cons, insOff]
    have : (fun k => c (k + 1 + off)) = fun k => c (k + (off + 1)) := by
      funext k; congr 1; omega
    rw [this, ih (off + 1), Nat.zero_add]

theorem insOff_congr (c c' : Nat → Nat) (g : List UInt8) (off : Nat) (bs : List UInt8)
    (h : ∀ k, off ≤ k → k ≤ off + bs.length → c k = c' k) : insOff c g off bs = insOff c' g off bs := by
  induction bs generalizing off with
  | nil => simp only [insOff]; rw [h off (Nat.le_refl _) (by simp)]
  | cons b bs ih =>
    simp only [insOff]
    rw [h off (Nat.le_refl _) (by omega),
      ih (off + 1) (fun k h1 h2 => h k (by omega) (by simp only [List.length_cons]; omega))]

theorem insOff_zero_prefix (c : Nat → Nat) (g : List UInt8) (m : Nat) (off : Nat) (bs : List UInt8)
    (hm : m ≤ bs.length) (h : ∀ k, off ≤ k → k < off + m → c k = 0) :
    insOff c g off bs = bs.take m ++ insOff c g (off + m) (bs.drop m) := by
  induction m generalizing off bs with
  | zero => simp
  | succ m ih =>
    cases bs with
    | nil => simp at hm
    | cons b bs =>
      simp only [List.length_cons] at hm
      rw [insOff, h off (Nat.le_refl _) (by omega),
        ih (off + 1) bs (by omega) (fun k h1 h2 => h k (by omega) (by omega))]
      have : off + 1 + m = off + (m + 1) := by omega
      simp [copies, this]

theorem insOff_succ_at (c c' : Nat → Nat) (g : List UInt8) (off : Nat) (bs : List UInt8)
    (h0 : c' off = c off + 1) (h : ∀ k, off < k → c' k = c k) :
    insOff c' g off bs = g ++ insOff c g off bs := by
  cases bs with
  | nil => simp [insOff, h0, copies, List.replicate_succ]
  | cons b bs =>
    simp only [insOff]
    rw [h0, insOff_congr c' c g (off + 1) bs (fun k h1 _ => h k (by omega))]
    simp [copies, List.replicate_succ]

/-- `insert(p, pos, q)` of the model, as a function of the residues only -/
theorem insertAt_bytes (embed : Bool) (idx : List Int) (host guest : Seq) :
    (insertAt embed idx host guest).bytes =
      idx.foldl (fun out i => Seq.spliceBytes out i.toNat guest.bytes) host.bytes := by
  unfold insertAt
  induction idx generalizing host with
  | nil => rfl
  | cons i idx ih =>
    simp only [List.foldl_cons]
    rw [ih]
    cases embed <;> rfl

/-- the ascending-order lemma (read from the right: the largest index is inserted first): every
copy lands before the residue that had its index in the original list -/
theorem foldr_splice (r : List Int) (g bs : List UInt8) (hs : r.Pairwise (fun a b => a ≤ b))
    (hw : ∀ i ∈ r, 0 ≤ i ∧ i ≤ (bs.length : Int)) :
    r.foldr (fun i out => Seq.spliceBytes out i.toNat g) bs =
      insOff (fun k => r.count (k : Int)) g 0 bs := by
  induction r with
  | nil =>
    rw [List.foldr_nil]
    have := insOff_zero_prefix (fun k => ([] : List Int).count (k : Int)) g bs.length 0 bs
      (Nat.le_refl _) (fun k _ _ => by simp)
    rw [this]; simp [insOff, copies]
  | cons y r ih =>
    have hy := hw y (List.mem_cons_self ..)
    have hge : ∀ b ∈ r, y ≤ b := (List.pairwise_cons.mp hs).1
    rw [List.foldr_cons, ih (List.pairwise_cons.mp hs).2 (fun i hi => hw i (List.mem_cons_of_mem _ hi))]
    obtain ⟨m, hm⟩ : ∃ m : Nat, y = m := ⟨y.toNat, by omega⟩
    have hml : m ≤ bs.length := by omega
    have hz : ∀ k : Nat, k < m → r.count (k : Int) = 0 := by
      intro k hk
      apply List.count_eq_zero_of_not_mem
      intro hmem
      have := hge _ hmem; omega
    rw [insOff_zero_prefix _ g m 0 bs hml (fun k _ hk => hz k (by omega)),
      insOff_zero_prefix (fun k => (y :: r).count (k : Int)) g m 0 bs hml (fun k _ hk => by
        show (y :: r).count (k : Int) = 0
        rw [List.count_cons_of_ne (by omega)]; exact hz k (by omega)),
      Nat.zero_add,
      insOff_succ_at (fun k => r.count (k : Int)) (fun k => (y :: r).count (k : Int)) g m (bs.drop m)
        (by show (y :: r).count (m : Int) = _; rw [hm, List.count_cons_self])
        (fun k hk => by
          show (y :: r).count (k : Int) = _
          rw [List.count_cons_of_ne (by omega)])]
    unfold Seq.spliceBytes
    have e : y.toNat = m := by omega
    have hlen : (bs.take m).length = m := by simp only [List.length_take]; omega
    rw [e, List.take_append_of_le_length (by omega), List.take_take, Nat.min_self,
      List.drop_append_of_le_length (by omega)]
    have : List.drop m (List.take m bs) = [] := by apply List.drop_eq_nil_of_le; omega
    rw [this]; simp

/-- descending form, as the loop runs it -/
theorem foldl_splice (d : List Int) (g bs : List UInt8) (hs : d.Pairwise (fun a b => b ≤ a))
    (hw : ∀ i ∈ d, 0 ≤ i ∧ i ≤ (bs.length : Int)) :
    d.foldl (fun out i => Seq.spliceBytes out i.toNat g) bs =
      insOff (fun k => d.count (k : Int)) g 0 bs := by
  have h := foldr_splice d.reverse g bs (List.pairwise_reverse.mpr hs)
    (fun i hi => hw i (List.mem_reverse.mp hi))
  rw [List.foldr_reverse] at h
  rw [h]
  apply insOff_congr
  intro k _ _
  exact (List.reverse_perm d).count_eq _

/-! ### the ascending, duplicate-free sort of split.go -/

theorem mem_insertAscU (x y : Int) (l : List Int) : y ∈ insertAscU x l ↔ y = x ∨ y ∈ l := by
  induction l with
  | nil => simp [insertAscU]
  | cons z zs ih =>
    unfold insertAscU
    split
    · simp
    · split
      · rename_i h; subst h; simp
      · simp only [List.mem_cons, ih]
        constructor
        · rintro (h | h | h) <;> simp [h]
        · rintro (h | h | h) <;> simp [h]

theorem mem_sortAscU (y : Int) (l : List Int) : y ∈ sortAscU l ↔ y ∈ l := by
  induction l with
  | nil => simp [sortAscU]
  | cons x xs ih => simp only [sortAscU, mem_insertAscU, ih, List.mem_cons]

theorem insertAscU_sorted (x : Int) (l : List Int) (h : l.Pairwise (fun a b => a < b)) :
    (insertAscU x l).Pairwise (fun a b => a < b) := by
  induction l with
  | nil => simp [insertAscU]
  | cons z zs ih =>
    have hz := List.pairwise_cons.mp h
    unfold insertAscU
    split
    · rename_i hxz
      refine List.pairwise_cons.mpr ⟨?_, h⟩
      intro b hb
      rcases List.mem_cons.mp hb with rfl | hb
      · exact hxz
      · have := hz.1 b hb; omega
    · split
      · exact h
      · refine List.pairwise_cons.mpr ⟨?_, ih hz.2⟩
        intro b hb
        rcases (mem_insertAscU x b zs).mp hb with rfl | hb
        · omega
        · exact hz.1 b hb

theorem sortAscU_sorted (l : List Int) : (sortAscU l).Pairwise (fun a b => a < b) := by
  induction l with
  | nil => simp [sortAscU]
  | cons x xs ih => exact insertAscU_sorted x _ ih

/-! ### the pieces of split.go -/

/-- the last element of `a :: l` -/
def lastFrom : Int → List Int → Int
  | a, [] => a
  | _, b :: l => lastFrom b l

theorem getLast?_lastFrom (a : Int) (l : List Int) : (a :: l).getLast? = some (lastFrom a l) := by
  induction l generalizing a with
  | nil => rfl
  | cons b l ih => rw [List.getLast?_cons_cons, ih b]; rfl

theorem lastFrom_append (a z : Int) (l : List Int) : lastFrom a (l ++ [z]) = z := by
  induction l generalizing a with
  | nil => rfl
  | cons b l ih => exact ih b

theorem lastFrom_mem (a : Int) (l : List Int) : lastFrom a l ∈ a :: l := by
  induction l generalizing a with
  | nil => simp [lastFrom]
  | cons b l ih => exact List.mem_cons_of_mem _ (ih b)

theorem le_lastFrom (a : Int) (l : List Int) (hs : (a :: l).Pairwise (fun x y => x ≤ y)) :
    a ≤ lastFrom a l := by
  rcases List.mem_cons.mp (lastFrom_mem a l) with h | h
  · omega
  · exact (List.pairwise_cons.mp hs).1 _ h

/-- consecutive forward slices of a non-decreasing cut list concatenate to the window from the
first cut to the last -/
theorem pieces_bytes (s : Seq) (a : Int) (l : List Int) (hs : (a :: l).Pairwise (fun x y => x ≤ y))
    (h0 : 0 ≤ a) :
    ((pieces s (a :: l)).map (·.bytes)).flatten =
      (s.bytes.drop a.toNat).take (lastFrom a l - a).toNat := by
  induction l generalizing a with
  | nil => simp [pieces, lastFrom]
  | cons b l ih =>
    have hp := List.pairwise_cons.mp hs
    have hab : a ≤ b := hp.1 b (List.mem_cons_self ..)
    have hbz : b ≤ lastFrom b l := le_lastFrom b l hp.2
    simp only [pieces, List.map_cons, List.flatten_cons, lastFrom]
    rw [ih b hp.2 (by omega), C03.slice_bytes_fwd s a b h0 hab]
    have e1 : (lastFrom b l - a).toNat = (b - a).toNat + (lastFrom b l - b).toNat := by omega
    have e2 : b.toNat = a.toNat + (b - a).toNat := by omega
    rw [e1, List.take_add, List.drop_drop, ← e2]

/-! ### `gts.Rotate` by minus a position, and the wrap-around branch of `gts.Slice` -/

/-- rotating by `-h` (`0 ≤ h ≤ L`, `0 < L`) brings position `h` to the front -/
theorem rotate_neg_bytes (s : Seq) (h : Int) (h0 : 0 ≤ h) (h1 : h ≤ s.len) (hL : 0 < s.len) :
    (s.rotate (-h)).bytes = s.bytes.drop h.toNat ++ s.bytes.take h.toNat := by
  rw [C04.rotate_bytes_eq, C04.rotN_eq_emod _ _ hL]
  have hlen : s.len = s.bytes.length := rfl
  by_cases hz : h = 0
  · subst hz
    simp only [Int.neg_zero, Int.zero_emod, Int.sub_zero, Int.toNat_zero, List.drop_zero, List.take_zero,
      List.append_nil]
    rw [hlen, Int.toNat_natCast, List.drop_length, List.take_length, List.nil_append]
  · by_cases hl : h = s.len
    · have : -h % s.len = 0 := by
        rw [hl]; exact Int.emod_eq_zero_of_dvd (Int.dvd_neg.mpr (Int.dvd_refl _))
      rw [this, hl]; simp
    · have : -h % s.len = s.len - h := by
        have e : -h = (s.len - h) + (-1) * s.len := by omega
        rw [e, Int.add_mul_emod_self_right, Int.emod_eq_of_lt (by omega) (by omega)]
      rw [this]
      have : (s.len - (s.len - h)).toNat = h.toNat := by omega
      rw [this]

/-- `gts.Slice(seq, a, b)` with `0 ≤ b < a ≤ L` (the wrap-around branch: rotate, then slice):
the residues from `a` to the end followed by those before `b` -/
theorem slice_bytes_wrap (s : Seq) (a b : Int) (hb : 0 ≤ b) (hab : b < a) (ha : a ≤ s.len) :
    (s.slice a b).bytes = s.bytes.drop a.toNat ++ s.bytes.take b.toNat := by
  have hlen : s.len = s.bytes.length := rfl
  unfold Seq.slice
  simp only [show ¬ a < 0 by omega, show ¬ b < 0 by omega, show b < a by omega, if_true, if_false]
  unfold Seq.sliceFwd
  simp only
  rw [rotate_neg_bytes s a (by omega) ha (by omega)]
  simp only [Int.toNat_zero, List.drop_zero, Int.sub_zero]
  have hl : (s.bytes.drop a.toNat).length = (s.len - a).toNat := by
    simp only [List.length_drop]; omega
  have e : (s.len - a + b).toNat = (s.bytes.drop a.toNat).length + b.toNat := by omega
  rw [e, List.take_append, Nat.add_sub_cancel_left, List.take_take,
    Nat.min_eq_left (by omega : b.toNat ≤ a.toNat)]
  congr 1
  apply List.take_of_length_le
  omega

/-! ### structural equality of regions is equality -/

mutual
theorem beq_refl : ∀ a : Reg, Reg.beq a a = true
  | seg h t => by simp [Reg.beq]
  | many rs => by simp only [Reg.beq]; exact beqList_refl rs
theorem beqList_refl : ∀ a : List Reg, Reg.beqList a a = true
  | [] => by simp [Reg.beqList]
  | r :: rs => by simp only [Reg.beqList, Bool.and_eq_true]; exact ⟨beq_refl r, beqList_refl rs⟩
end

mutual
theorem eq_of_beq : ∀ a b : Reg, Reg.beq a b = true → a = b
  | seg a b, seg c d, h => by
    simp only [Reg.beq, Bool.and_eq_true, beq_iff_eq] at h
    rw [h.1, h.2]
  | many a, many b, h => by
    simp only [Reg.beq] at h
    rw [eqList_of_beq a b h]
  | seg _ _, many _, h => by simp [Reg.beq] at h
  | many _, seg _ _, h => by simp [Reg.beq] at h
theorem eqList_of_beq : ∀ a b : List Reg, Reg.beqList a b = true → a = b
  | [], [], _ => rfl
  | x :: xs, y :: ys, h => by
    simp only [Reg.beqList, Bool.and_eq_true] at h
    rw [eq_of_beq x y h.1, eqList_of_beq xs ys h.2]
  | [], _ :: _, h => by simp [Reg.beqList] at h
  | _ :: _, [], h => by simp [Reg.beqList] at h
end

theorem reg_beq_iff (a b : Reg) : (a == b) = true ↔ a = b :=
  ⟨eq_of_beq a b, fun h => h ▸ beq_refl a⟩

theorem reg_beq_false_iff (a b : Reg) : (a == b) = false ↔ a ≠ b := by
  rw [Ne, ← reg_beq_iff]; cases (a == b) <;> simp

/-! ### `containsRegion` de-duplication -/

theorem any_beq_iff (acc : List Reg) (r : Reg) : acc.any (· == r) = true ↔ r ∈ acc := by
  rw [List.any_eq_true]
  constructor
  · rintro ⟨x, hx, h⟩; rw [(reg_beq_iff x r).mp h] at hx; exact hx
  · intro h; exact ⟨r, h, (reg_beq_iff r r).mpr rfl⟩

theorem mem_dedupRegs (acc l : List Reg) (x : Reg) : x ∈ dedupRegs acc l ↔ x ∈ acc ∨ x ∈ l := by
  induction l generalizing acc with
  | nil => simp [dedupRegs]
  | cons r rs ih =>
    unfold dedupRegs
    split
    · rename_i h
      rw [ih, List.mem_cons]
      have := (any_beq_iff acc r).mp h
      constructor
      · rintro (h | h) <;> simp [h]
      · rintro (h | rfl | h)
        · exact Or.inl h
        · exact Or.inl this
        · exact Or.inr h
    · rw [ih, List.mem_append, List.mem_singleton, List.mem_cons, or_assoc]

theorem dedupRegs_nodup (acc l : List Reg) (h : acc.Nodup) : (dedupRegs acc l).Nodup := by
  induction l generalizing acc with
  | nil => exact h
  | cons r rs ih =>
    unfold dedupRegs
    split
    · exact ih acc h
    · rename_i hn
      apply ih
      rw [List.nodup_append]
      refine ⟨h, by simp, ?_⟩
      intro a ha b hb
      rw [List.mem_singleton] at hb
      subst hb
      intro hab
      subst hab
      exact hn ((any_beq_iff acc a).mpr ha)

/-- the result is `acc` followed by a sublist (in order) of the new elements -/
theorem dedupRegs_sublist (acc l : List Reg) : ∃ l', dedupRegs acc l = acc ++ l' ∧ l'.Sublist l := by
  induction l generalizing acc with
  | nil => exact ⟨[], by simp [dedupRegs], List.Sublist.refl _⟩
  | cons r rs ih =>
    unfold dedupRegs
    split
    · obtain ⟨l', h1, h2⟩ := ih acc
      exact ⟨l', h1, h2.cons r⟩
    · obtain ⟨l', h1, h2⟩ := ih (acc ++ [r])
      exact ⟨r :: l', by rw [h1]; simp, h2.cons_cons r⟩

/-- an input without repetitions (and without elements of `acc`) is kept whole -/
theorem dedupRegs_of_nodup (acc l : List Reg) (h : (acc ++ l).Nodup) : dedupRegs acc l = acc ++ l := by
  induction l generalizing acc with
  | nil => simp [dedupRegs]
  | cons r rs ih =>
    unfold dedupRegs
    have hr : ¬ r ∈ acc := by
      intro hm
      have := (List.nodup_append.mp h).2.2 r hm r (List.mem_cons_self ..)
      exact this rfl
    rw [if_neg (fun hc => hr ((any_beq_iff acc r).mp hc)), ih (acc ++ [r]) (by simpa using h)]
    simp

/-- first occurrences, in order: appending one more region adds it iff it was not there yet -/
theorem dedupRegs_snoc (acc l : List Reg) (r : Reg) :
    dedupRegs acc (l ++ [r]) =
      if (dedupRegs acc l).any (· == r) then dedupRegs acc l else dedupRegs acc l ++ [r] := by
  induction l generalizing acc with
  | nil => simp [dedupRegs]
  | cons x xs ih =>
    simp only [List.cons_append, dedupRegs]
    split
    · exact ih acc
    · exact ih (acc ++ [x])

/-! ### cover / guards of a list of regions -/

theorem leavesList_eq_flatMap (l : List Reg) : leavesList l = l.flatMap leaves := by
  induction l with
  | nil => simp
  | cons r rs ih => simp [ih]

theorem cover_many_iff (l : List Reg) (x : Int) : cover (many l) x ↔ ∃ r ∈ l, cover r x := by
  simp only [cover, leaves_many, leavesList_eq_flatMap, List.mem_flatMap]
  constructor
  · rintro ⟨g, ⟨r, hr, hg⟩, h⟩; exact ⟨r, hr, g, hg, h⟩
  · rintro ⟨r, hr, g, hg, h⟩; exact ⟨g, ⟨r, hr, hg⟩, h⟩

theorem within_many_iff (n : Int) (l : List Reg) : within n (many l) ↔ ∀ r ∈ l, within n r := by
  simp only [within, leaves_many, leavesList_eq_flatMap, List.mem_flatMap]
  constructor
  · intro h r hr g hg; exact h g ⟨r, hr, hg⟩
  · rintro h g ⟨r, hr, hg⟩; exact h r hr g hg

theorem nonEmpty_many_iff (l : List Reg) : nonEmpty (many l) ↔ ∀ r ∈ l, nonEmpty r := by
  simp only [nonEmpty, leaves_many, leavesList_eq_flatMap, List.mem_flatMap]
  constructor
  · intro h r hr g hg; exact h g ⟨r, hr, hg⟩
  · rintro h g ⟨r, hr, hg⟩; exact h r hr g hg

/-! ### `Locate` -/

theorem concat_bytes (l : List Seq) : (Seq.concat l).bytes = (l.map (·.bytes)).flatten := by
  cases l with
  | nil => rfl
  | cons s ss =>
    simp only [Seq.concat, List.map_cons, List.flatten_cons]
    induction ss generalizing s with
    | nil => simp
    | cons t ts ih =>
      rw [List.foldl_cons, ih]
      simp [Seq.concat2]

theorem locateList_eq_map (rs : List Reg) (s : Seq) : locateList rs s = rs.map fun r => locate r s := by
  induction rs with
  | nil => simp [locateList]
  | cons r rs ih => simp [locateList, ih]

theorem foldl_splice_length (idx : List Int) (g bs : List UInt8) :
    (idx.foldl (fun out i => Seq.spliceBytes out i.toNat g) bs).length =
      bs.length + idx.length * g.length := by
  induction idx generalizing bs with
  | nil => simp
  | cons i idx ih =>
    rw [List.foldl_cons, ih]
    have : (Seq.spliceBytes bs i.toNat g).length = bs.length + g.length := by
      simp only [Seq.spliceBytes, List.length_append, List.length_take, List.length_drop]
      omega
    rw [this, List.length_cons, Nat.add_mul, Nat.one_mul]
    omega

end Gts.Cli
