/-
  Outer partial markers (`Loc.outerMarks`, the restatement of the Go oracle in
  `Gts/Spec/Marks.lean`) computed compositionally: `marks l : Option (Bool × Bool)` is `none`
  when no leaf bears residues and `some (m5, m3)` otherwise; lists compose by the
  "first / last" monoid `mcomb`, a complement swaps the ends.  `LocationList.Push` / `Join` /
  `Order` keep `marks` unless one of the two marker-moving rules fires (`Gts/Spec/MarkGuard.lean`).
  Core Lean only.
-/
import Gts.Lemmas.Order
import Gts.Spec.Marks
import Gts.Spec.MarkGuard
namespace Gts
namespace Loc

/-- `none`: no residue-bearing leaf; `some (m5, m3)`: the markers on the two outer ends -/
abbrev Mk := Option (Bool × Bool)

/-- reading `a` and then `b`: the 5' end of the first that bears residues, the 3' end of the last -/
def mcomb : Mk → Mk → Mk
  | none, b => b
  | some a, none => some a
  | some a, some b => some (a.1, b.2)

/-- reading on the other strand: the ends swap -/
def mswap : Mk → Mk
  | none => none
  | some a => some (a.2, a.1)

@[simp] theorem mcomb_none_left (b : Mk) : mcomb none b = b := rfl
@[simp] theorem mcomb_none_right (a : Mk) : mcomb a none = a := by cases a <;> rfl
theorem mcomb_assoc (a b c : Mk) : mcomb (mcomb a b) c = mcomb a (mcomb b c) := by
  cases a <;> cases b <;> cases c <;> rfl
theorem mswap_mcomb (a b : Mk) : mswap (mcomb a b) = mcomb (mswap b) (mswap a) := by
  cases a <;> cases b <;> rfl
@[simp] theorem mswap_mswap (a : Mk) : mswap (mswap a) = a := by cases a <;> rfl
@[simp] theorem mswap_none : mswap none = none := rfl
@[simp] theorem mswap_some (a : Bool × Bool) : mswap (some a) = some (a.2, a.1) := rfl

mutual
/-- the outer markers of a location, by structural recursion -/
def marks : Loc → Mk
  | between _ => none
  | point _ => some (false, false)
  | ranged s e p5 p3 => if s < e then some (p5, p3) else none
  | ambiguous _ _ => some (false, false)
  | joined ls => marksList ls
  | ordered ls => marksList ls
  | compl l => mswap (marks l)
def marksList : List Loc → Mk
  | [] => none
  | l :: ls => mcomb (marks l) (marksList ls)
end

@[simp] theorem marks_between (p : Int) : marks (between p) = none := by simp [marks]
@[simp] theorem marks_point (p : Int) : marks (point p) = some (false, false) := by simp [marks]
@[simp] theorem marks_ranged (s e : Int) (a b : Bool) :
    marks (ranged s e a b) = if s < e then some (a, b) else none := by simp [marks]
@[simp] theorem marks_ambiguous (s e : Int) : marks (ambiguous s e) = some (false, false) := by
  simp [marks]
@[simp] theorem marks_joined (ls : List Loc) : marks (joined ls) = marksList ls := by simp [marks]
@[simp] theorem marks_ordered (ls : List Loc) : marks (ordered ls) = marksList ls := by simp [marks]
@[simp] theorem marks_compl (l : Loc) : marks (compl l) = mswap (marks l) := by simp [marks]
@[simp] theorem marksList_nil : marksList [] = none := by simp [marksList]
@[simp] theorem marksList_cons (l : Loc) (ls : List Loc) :
    marksList (l :: ls) = mcomb (marks l) (marksList ls) := by simp [marksList]

theorem marks_ranged_wf (s e : Int) (a b : Bool) (h : s < e) : marks (ranged s e a b) = some (a, b) := by
  simp [h]

theorem marksList_append (a b : List Loc) : marksList (a ++ b) = mcomb (marksList a) (marksList b) := by
  induction a with
  | nil => simp
  | cons x xs ih => simp [ih, mcomb_assoc]

theorem marksList_reverse (a : List Loc) :
    mswap (marksList a.reverse) = marksList (a.map compl) := by
  induction a with
  | nil => simp
  | cons x xs ih =>
    simp only [List.reverse_cons, marksList_append, mswap_mcomb, ih, List.map_cons, marksList_cons,
      marksList_nil, mcomb_none_right, marks_compl]

/-! ### range well-formedness (all that the marker laws need) -/

mutual
/-- every `Ranged` has `Start < End` (weaker than `wf`: says nothing about `Ambiguous`, whose
`Len()` is 1 whatever its bounds) -/
def rwf : Loc → Bool
  | ranged s e _ _ => decide (s < e)
  | joined ls => rwfList ls
  | ordered ls => rwfList ls
  | compl l => rwf l
  | _ => true
def rwfList : List Loc → Bool
  | [] => true
  | l :: ls => rwf l && rwfList ls
end

@[simp] theorem rwfList_nil : rwfList [] = true := by simp [rwfList]
@[simp] theorem rwfList_cons (l : Loc) (ls : List Loc) : rwfList (l :: ls) = (rwf l && rwfList ls) := by
  simp [rwfList]

theorem rwfList_append (a b : List Loc) : rwfList (a ++ b) = (rwfList a && rwfList b) := by
  induction a with
  | nil => simp
  | cons x xs ih => simp [ih, Bool.and_assoc]

theorem rwfList_reverse (a : List Loc) : rwfList a.reverse = rwfList a := by
  induction a with
  | nil => simp
  | cons x xs ih => simp [rwfList_append, ih, Bool.and_comm]

mutual
theorem rwf_of_wf : ∀ (l : Loc), wf l = true → rwf l = true
  | between _, _ => by simp [rwf]
  | point _, _ => by simp [rwf]
  | ranged s e a b, h => by simpa [rwf, wf] using h
  | ambiguous _ _, _ => by simp [rwf]
  | joined ls, h => by simpa [rwf] using rwfList_of_wfList ls (by simpa [wf] using h)
  | ordered ls, h => by simpa [rwf] using rwfList_of_wfList ls (by simpa [wf] using h)
  | compl l, h => by simpa [rwf] using rwf_of_wf l (by simpa [wf] using h)
theorem rwfList_of_wfList : ∀ (ls : List Loc), wfList ls = true → rwfList ls = true
  | [], _ => by simp
  | l :: ls, h => by
      simp only [wfList_cons, Bool.and_eq_true] at h
      simp [rwf_of_wf l h.1, rwfList_of_wfList ls h.2]
end

theorem inner_rwf (j : List Loc) (h : rwfList j = true) : rwf (ofParts j) = true := by
  match j, h with
  | [], _ => simp [ofParts, rwf]
  | [a], h => simpa [ofParts] using h
  | a :: b :: r, h => simpa [ofParts, rwf] using h

/-! ### `outerMarks` is `marks` -/

/-- the markers of a list of residue-bearing leaves in reading order -/
def lmk (F : List (Loc × Bool)) : Mk :=
  F.foldr (fun d acc => mcomb (some (mark5 d, mark3 d)) acc) none

@[simp] theorem lmk_nil : lmk [] = none := rfl
@[simp] theorem lmk_cons (d : Loc × Bool) (F : List (Loc × Bool)) :
    lmk (d :: F) = mcomb (some (mark5 d, mark3 d)) (lmk F) := rfl

theorem lmk_append (A B : List (Loc × Bool)) : lmk (A ++ B) = mcomb (lmk A) (lmk B) := by
  induction A with
  | nil => simp
  | cons a A ih => simp [ih, mcomb_assoc]

theorem lmk_eq_ends : ∀ (F : List (Loc × Bool)),
    lmk F = match F.head?, F.getLast? with
      | some a, some b => some (mark5 a, mark3 b)
      | _, _ => none
  | [] => rfl
  | [a] => rfl
  | a :: b :: t => by
      have ih := lmk_eq_ends (b :: t)
      rw [lmk_cons, ih]
      simp only [List.head?_cons, List.getLast?_cons_cons]
      cases h : (b :: t).getLast? with
      | none => simp at h
      | some x => rfl

theorem outerMarks_eq_lmk (l : Loc) :
    outerMarks l = (lmk ((denLeaves l).filter bears)).getD (false, false) := by
  unfold outerMarks outerLeaves
  rw [lmk_eq_ends]
  cases ((denLeaves l).filter bears).head? <;> cases ((denLeaves l).filter bears).getLast? <;> rfl

theorem mark5_flip (d : Loc × Bool) : mark5 (d.1, !d.2) = mark3 d := by
  obtain ⟨l, b⟩ := d
  cases l <;> cases b <;> rfl

theorem mark3_flip (d : Loc × Bool) : mark3 (d.1, !d.2) = mark5 d := by
  obtain ⟨l, b⟩ := d
  cases l <;> cases b <;> rfl

theorem flipLeaves_cons (d : Loc × Bool) (F : List (Loc × Bool)) :
    flipLeaves (d :: F) = flipLeaves F ++ [(d.1, !d.2)] := by
  simp [flipLeaves]

theorem lmk_flipLeaves (F : List (Loc × Bool)) : lmk (flipLeaves F) = mswap (lmk F) := by
  induction F with
  | nil => rfl
  | cons d F ih =>
    rw [flipLeaves_cons, lmk_append, ih, lmk_cons (d := d), mswap_mcomb]
    simp [mark5_flip, mark3_flip]

theorem filter_bears_flipLeaves (F : List (Loc × Bool)) :
    (flipLeaves F).filter bears = flipLeaves (F.filter bears) := by
  induction F with
  | nil => rfl
  | cons d F ih =>
    rw [flipLeaves_cons, List.filter_append, ih]
    have hb : bears (d.1, !d.2) = bears d := rfl
    by_cases h : bears d = true
    · rw [List.filter_cons_of_pos h, flipLeaves_cons]
      simp [List.filter, hb, h]
    · rw [List.filter_cons_of_neg h]
      simp [List.filter, hb, h]

mutual
theorem marks_eq_lmk : ∀ (l : Loc), marks l = lmk ((denLeaves l).filter bears)
  | between p => by simp [denLeaves, bears, len]
  | point p => by simp [denLeaves, bears, len, mark5, mark3, mcomb]
  | ranged s e a b => by
      by_cases h : s < e
      · simp [denLeaves, bears, len, mark5, mark3, mcomb, h]
      · simp [denLeaves, bears, len, h]
  | ambiguous s e => by simp [denLeaves, bears, len, mark5, mark3, mcomb]
  | joined ls => by simpa [denLeaves] using marksList_eq_lmk ls
  | ordered ls => by simpa [denLeaves] using marksList_eq_lmk ls
  | compl l => by
      rw [marks_compl, marks_eq_lmk l]
      simp only [denLeaves]
      rw [filter_bears_flipLeaves, lmk_flipLeaves]
theorem marksList_eq_lmk : ∀ (ls : List Loc), marksList ls = lmk ((denLeavesList ls).filter bears)
  | [] => by simp [denLeavesList]
  | l :: ls => by
      simp only [marksList_cons, denLeavesList, List.filter_append, lmk_append]
      rw [marks_eq_lmk l, marksList_eq_lmk ls]
end

/-- **the oracle's `outerMarks` is the compositional `marks`** -/
theorem outerMarks_eq (l : Loc) : outerMarks l = (marks l).getD (false, false) := by
  rw [outerMarks_eq_lmk, marks_eq_lmk]

theorem mcomb_isSome (a b : Mk) : (mcomb a b).isSome = (a.isSome || b.isSome) := by
  cases a <;> cases b <;> rfl

theorem mswap_isSome (a : Mk) : (mswap a).isSome = a.isSome := by cases a <;> rfl

theorem flipDen_isEmpty (d : List Pos) : (flipDen d).isEmpty = d.isEmpty := by
  cases d <;> simp [flipDen]

mutual
theorem marks_isSome : ∀ (l : Loc), wf l = true → (marks l).isSome = !(den l).isEmpty
  | between p, _ => by simp
  | point p, _ => by simp
  | ranged s e a b, h => by
      have h' : s < e := by simpa [wf] using h
      obtain ⟨m, hm⟩ : ∃ m, (e - s).toNat = m + 1 := ⟨(e - s).toNat - 1, by omega⟩
      simp [h', hm, fwd]
  | ambiguous s e, h => by
      have h' : s < e := by simpa [wf] using h
      obtain ⟨m, hm⟩ : ∃ m, (e - s).toNat = m + 1 := ⟨(e - s).toNat - 1, by omega⟩
      simp [hm, fwd]
  | joined ls, h => by simpa using marksList_isSome ls (by simpa [wf] using h)
  | ordered ls, h => by simpa using marksList_isSome ls (by simpa [wf] using h)
  | compl l, h => by
      rw [marks_compl, mswap_isSome, den_compl, flipDen_isEmpty]
      exact marks_isSome l (by simpa [wf] using h)
theorem marksList_isSome : ∀ (ls : List Loc), wfList ls = true →
    (marksList ls).isSome = !(denList ls).isEmpty
  | [], _ => by simp
  | l :: ls, h => by
      simp only [wfList_cons, Bool.and_eq_true] at h
      rw [marksList_cons, mcomb_isSome, marks_isSome l h.1, marksList_isSome ls h.2, denList_cons]
      cases den l <;> simp
end

/-- a well-formed location bears residues iff it denotes some -/
theorem marks_none_iff_den (l : Loc) (hw : wf l = true) : marks l = none ↔ den l = [] := by
  have := marks_isSome l hw
  cases hm : marks l <;> cases hd : den l <;> simp_all

end Loc
end Gts
