/-
  `Repair` (property C12), part 3: the result seen class by class.  Core Lean only.
-/
import Gts.Lemmas.RepairPush
namespace Gts
open Loc

theorem range_filterMap_getElem? {α} (t : List α) (n : Nat) (h : n ≤ t.length) :
    (List.range n).filterMap (fun j => t[j]?) = t.take n := by
  induction n with
  | zero => simp
  | succ n ih =>
    rw [List.range_succ, List.filterMap_append, ih (by omega), List.take_add_one]
    simp [List.getElem?_eq_getElem (show n < t.length by omega)]

theorem flatMap_congr' {α β} (l : List α) (f g : α → List β) (h : ∀ a ∈ l, f a = g a) :
    l.flatMap f = l.flatMap g := by
  induction l with
  | nil => rfl
  | cons a as ih =>
    simp only [List.flatMap_cons]
    rw [h a (by simp), ih fun b hb => h b (by simp [hb])]

theorem zip_take_filterMap {α β} (idx : List α) (p : List β) (g : α → Option β)
    (hlen : p.length ≤ idx.length) (h : ∀ w ∈ idx.zip p, g w.1 = some w.2) :
    (idx.take p.length).filterMap g = p := by
  induction idx generalizing p with
  | nil =>
    cases p with
    | nil => rfl
    | cons y ys => simp at hlen
  | cons i is ih =>
    cases p with
    | nil => rfl
    | cons y ys =>
      simp only [List.length_cons, List.take_succ_cons, List.filterMap_cons]
      rw [h (i, y) (by simp)]
      simp only [List.length_cons, Nat.add_le_add_iff_right] at hlen
      rw [ih ys hlen fun w hw => h w (by simp [hw])]

theorem sorted_ext_nat {a b : List Nat} (ha : a.Pairwise (· < ·)) (hb : b.Pairwise (· < ·))
    (h : ∀ x, x ∈ a ↔ x ∈ b) : a = b := by
  have na : a.Nodup := ha.imp (fun h => Nat.ne_of_lt h)
  have nb : b.Nodup := hb.imp (fun h => Nat.ne_of_lt h)
  have hp : a.Perm b := (List.perm_ext_iff_of_nodup na nb).mpr h
  exact hp.eq_of_pairwise (le := (· < ·)) (fun x y _ _ h1 h2 => by omega) ha hb

/-! ### nothing merged, nothing changed -/

/-- if no class is reduced by the push loop (`len(locs) ≥ len(indices)` everywhere), `Repair`
returns its argument -/
theorem repair_unchanged' (t : Table)
    (h : ∀ idx ∈ Table.groups t, idx.length ≤ classN t idx) : repair t = .ok t := by
  have hnil : (Table.groups t).any (classNil t) = false := by
    rw [List.any_eq_false]
    intro idx hi
    have := h idx hi
    simp only [classNil, Bool.and_eq_true, decide_eq_true_eq, not_and]
    intro h'; omega
  rw [repair_eq_spec t hnil]
  have hw : (Table.groups t).flatMap (classWrites t) = [] := by
    rw [List.flatMap_eq_nil_iff]
    intro idx hi
    have := h idx hi
    have : ¬ classN t idx < idx.length := by omega
    simp [classWrites, this]
  have hk : (Table.groups t).flatMap (classKept t) = (Table.groups t).flatten := by
    rw [← List.flatMap_id]
    apply flatMap_congr'
    intro idx hi
    have := h idx hi
    have : ¬ classN t idx < idx.length := by omega
    simp [classKept, this]
  have hkeep : specKeep t = List.range t.length := by
    simp only [specKeep, hk]
    exact sortNat_eq_self_of_sorted (Table.groups_flatten_perm t) (List.pairwise_lt_range.imp Nat.le_of_lt)
  simp only [specRepair, specGG, hw, writeLocs, hkeep]
  rw [range_filterMap_getElem? t t.length (Nat.le_refl _), List.take_length]

/-- if in every class the pushed list is as long as the class, `Repair` returns its argument -/
theorem repair_unchanged (t : Table)
    (h : ∀ idx ∈ Table.groups t, (classP t idx).length = idx.length) : repair t = .ok t := by
  apply repair_unchanged'
  intro idx hi
  have hne : classP t idx ≠ [] := by
    intro e
    have := h idx hi
    rw [e] at this
    exact Table.groups_ne_nil t idx hi (List.length_eq_zero_iff.mp this.symm)
  rw [classN_of_ne_nil hne, h idx hi]
  exact Nat.le_refl _

theorem ne_nil_of_noNil (t : Table) (hnil : (Table.groups t).any (classNil t) = false)
    (idx : List Nat) (hi : idx ∈ Table.groups t) (hc : classN t idx < idx.length) : classP t idx ≠ [] := by
  rw [List.any_eq_false] at hnil
  have := hnil idx hi
  simp only [classNil, Bool.and_eq_true, decide_eq_true_eq, not_and, List.isEmpty_iff] at this
  exact this hc

/-! ### the classes of the result -/

/-- the locations of the features whose grouping text is `k`, in table order -/
def Table.locsOf (t : Table) (k : String) : List Loc := (t.filter fun f => classKey f == k).map (·.loc)

/-- the locations of a class after `Repair` -/
def classNew (t : Table) (idx : List Nat) : List Loc :=
  if classN t idx < idx.length then classP t idx else classLocs t idx

theorem classLocs_memberIdx (t : Table) (k : String) :
    classLocs t (Table.memberIdx t k) = Table.locsOf t k := by
  have e : t = (List.range t.length).filterMap (fun j => t[j]?) := by
    rw [range_filterMap_getElem? t t.length (Nat.le_refl _), List.take_length]
  simp only [classLocs, Table.memberIdx, Table.locsOf]
  rw [List.filterMap_filter]
  conv => rhs; rw [e]
  rw [← List.filterMap_eq_filter, List.filterMap_filterMap, List.map_filterMap]
  apply filterMap_congr'
  intro i hi
  have hi' : i < t.length := List.mem_range.mp hi
  simp only [List.getElem?_eq_getElem hi', Option.bind_some, Option.map_some]
  by_cases h : classKey t[i] == k <;> simp [h, Option.guard]

theorem group_unique (t : Table) (idx idx' : List Nat) (h : idx ∈ Table.groups t)
    (h' : idx' ∈ Table.groups t) (j : Nat) (hj : j ∈ idx) (hj' : j ∈ idx') : idx = idx' := by
  obtain ⟨k, _, rfl⟩ := List.mem_map.mp h
  obtain ⟨k', _, rfl⟩ := List.mem_map.mp h'
  obtain ⟨f, hf, rfl⟩ := (Table.mem_memberIdx t k j).mp hj
  obtain ⟨f', hf', rfl⟩ := (Table.mem_memberIdx t k' j).mp hj'
  rw [hf] at hf'
  cases hf'
  rfl

theorem mem_specKeep (t : Table) (j : Nat) :
    j ∈ specKeep t ↔ ∃ idx ∈ Table.groups t, j ∈ idx.take (classN t idx) := by
  simp only [specKeep, (sortNat_perm _).mem_iff, List.mem_flatMap, classKept_eq_take]

/-- the entry of the written table at a member of a class without writes -/
theorem specGG_of_no_writes (t : Table) (idx : List Nat) (hi : idx ∈ Table.groups t)
    (hw : classWrites t idx = []) (j : Nat) (hj : j ∈ idx) : (specGG t)[j]? = t[j]? := by
  apply getElem?_writeLocs_of_not_mem
  intro hm
  rw [List.map_flatMap, List.mem_flatMap] at hm
  obtain ⟨idx', hi', hj'⟩ := hm
  have := group_unique t idx idx' hi hi' j hj ((classWrites_keys_sublist t idx').subset hj')
  subst this
  rw [hw] at hj'
  cases hj'

theorem specGG_of_write (t : Table) (idx : List Nat) (hi : idx ∈ Table.groups t)
    (j : Nat) (l : Loc) (hw : (j, l) ∈ classWrites t idx) :
    (specGG t)[j]? = t[j]?.map fun f => { f with loc := l } := by
  apply getElem?_writeLocs_of_mem _ _ _ _ (classWrites_flat_nodup t _ (Table.groups_flatten_nodup t))
  exact List.mem_flatMap.mpr ⟨idx, hi, hw⟩

theorem specGG_classKey (t : Table) (j : Nat) :
    (specGG t)[j]?.map classKey = t[j]?.map classKey := by
  have := writeLocs_key t ((Table.groups t).flatMap (classWrites t)) j
  simp only [specGG]
  cases h1 : (writeLocs t ((Table.groups t).flatMap (classWrites t)))[j]? with
  | none => rw [h1] at this; cases h2 : t[j]? with
    | none => rfl
    | some f => rw [h2] at this; cases this
  | some g => rw [h1] at this; cases h2 : t[j]? with
    | none => rw [h2] at this; cases this
    | some f =>
      rw [h2] at this
      simp only [Option.map_some, Option.some.injEq, Prod.mk.injEq] at this
      simp [classKey_congr this.1 this.2]

/-- **the result, class by class**: the features with grouping text `k` carry, in table order,
the pushed list of the class if that is shorter than the class, and their old locations
otherwise -/
theorem locsOf_specRepair (t : Table) (hnil : (Table.groups t).any (classNil t) = false) (k : String)
    (hk : k ∈ Table.classKeys t) :
    Table.locsOf (specRepair t) k = classNew t (Table.memberIdx t k) := by
  have hidx : Table.memberIdx t k ∈ Table.groups t := List.mem_map.mpr ⟨k, hk, rfl⟩
  have hlt := groups_lt t _ hidx
  -- step 1: select the class among the kept indices
  have h1 : Table.locsOf (specRepair t) k =
      ((specKeep t).filter fun j => decide (j ∈ Table.memberIdx t k)).filterMap
        (fun j => (specGG t)[j]?.map (·.loc)) := by
    simp only [Table.locsOf, specRepair]
    rw [← List.filterMap_eq_filter, List.filterMap_filterMap, List.map_filterMap, List.filterMap_filter]
    apply filterMap_congr'
    intro j hj
    obtain ⟨idx', hi', hj'⟩ := (mem_specKeep t j).mp hj
    have hjlt : j < t.length := groups_lt t idx' hi' j (List.mem_of_mem_take hj')
    have hkey := specGG_classKey t j
    rw [List.getElem?_eq_getElem hjlt] at hkey
    cases hg : (specGG t)[j]? with
    | none => rw [hg] at hkey; cases hkey
    | some g =>
      rw [hg] at hkey
      simp only [Option.map_some, Option.some.injEq] at hkey
      have hmem : j ∈ Table.memberIdx t k ↔ classKey g = k := by
        rw [Table.mem_memberIdx, hkey]
        constructor
        · rintro ⟨f, hf, hfk⟩
          rw [List.getElem?_eq_getElem hjlt] at hf
          cases hf
          exact hfk
        · intro h; exact ⟨t[j], List.getElem?_eq_getElem hjlt, h⟩
      by_cases hc : classKey g = k
      · simp [hc, hmem.mpr hc, Option.guard]
      · have : ¬ j ∈ Table.memberIdx t k := fun h => hc (hmem.mp h)
        simp [hc, this, Option.guard]
  -- step 2: those are the first `classN` members
  have h2 : ((specKeep t).filter fun j => decide (j ∈ Table.memberIdx t k)) =
      (Table.memberIdx t k).take (classN t (Table.memberIdx t k)) := by
    apply sorted_ext_nat ((specKeep_sorted t).filter _)
      ((Table.memberIdx_sorted t k).sublist (List.take_sublist _ _))
    intro j
    simp only [List.mem_filter, decide_eq_true_eq, mem_specKeep t]
    constructor
    · rintro ⟨⟨idx', hi', hj'⟩, hj⟩
      have := group_unique t idx' _ hi' hidx j (List.mem_of_mem_take hj') hj
      subst this
      exact hj'
    · intro hj
      exact ⟨⟨_, hidx, hj⟩, List.mem_of_mem_take hj⟩
  rw [h1, h2]
  -- step 3: their locations
  simp only [classNew]
  by_cases hc : classN t (Table.memberIdx t k) < (Table.memberIdx t k).length
  · simp only [hc, if_true]
    have hw : classWrites t (Table.memberIdx t k) = (Table.memberIdx t k).zip (classP t (Table.memberIdx t k)) := by
      simp [classWrites, hc]
    have hne := ne_nil_of_noNil t hnil _ hidx hc
    have hN := classN_of_ne_nil hne
    rw [hN]
    apply zip_take_filterMap _ _ _ (by rw [hN] at hc; omega)
    intro w hwm
    have hwm' : (w.1, w.2) ∈ classWrites t (Table.memberIdx t k) := by rw [hw]; exact hwm
    rw [specGG_of_write t _ hidx w.1 w.2 hwm']
    have : w.1 < t.length := hlt w.1 ((zip_fst_sublist _ _).subset (List.mem_map.mpr ⟨w, hwm, rfl⟩))
    simp [List.getElem?_eq_getElem this]
  · simp only [hc, if_false]
    have hw : classWrites t (Table.memberIdx t k) = [] := by simp [classWrites, hc]
    rw [List.take_of_length_le (by omega)]
    simp only [classLocs]
    apply filterMap_congr'
    intro j hj
    rw [specGG_of_no_writes t _ hidx hw j hj]

end Gts
