/-
  `Location.Shift(i, n)` with `n ≥ 0` on arbitrary (nested) locations: the denotation is
  re-mapped by `insMap`.  Core Lean only.
-/
import Gts.Lemmas.Contig
import Gts.Lemmas.Order
namespace Gts
namespace Loc

theorem wf_rangedShift_ins (s e : Int) (a b : Bool) (i n : Int) (h : s < e) (hn : 0 ≤ n) :
    wf (rangedShift s e a b i n) = true := by
  unfold rangedShift
  by_cases h0 : n = 0
  · simp [h0, wf, h]
  · rw [if_neg h0, if_neg (by omega)]
    by_cases hs : s < i ∧ i < e
    · rw [if_pos hs]
      apply join_wf
      simp [wf]; omega
    · rw [if_neg hs]
      simp only [wf, decide_eq_true_eq]
      split <;> split <;> omega

theorem wf_ambiguousShift_ins (s e i n : Int) (h : s < e) (hn : 0 ≤ n) :
    wf (ambiguousShift s e i n) = true := by
  unfold ambiguousShift
  by_cases h0 : n = 0
  · simp [h0, wf, h]
  · rw [if_neg h0, if_neg (by omega)]
    by_cases hs : s < i ∧ i < e
    · rw [if_pos hs, order_two_ambiguous]
      simp [wf]; omega
    · rw [if_neg hs]
      simp only [wf, decide_eq_true_eq]
      split <;> split <;> omega

theorem mapPos_refines {a b : List Pos} (f : Int → Int) (h : a ≼ b) : mapPos f a ≼ mapPos f b :=
  h.map _

mutual
/-- Insert: every location keeps its residues (re-mapped), unless K2 fires. -/
theorem shift_ins : ∀ (l : Loc) (i n : Int), wf l = true → 0 ≤ n →
    (shiftAbs l i n = false → den (shift l i n) ≼ mapPos (insMap i n) (den l)) ∧
    wf (shift l i n) = true
  | between p, i, n, _, _ => by simp [shift, den_betweenExpand, wf_betweenExpand, Refines.refl]
  | point p, i, n, _, hn => by
      simp only [shift, wf_pointExpand, and_true]
      intro _; exact Refines.of_eq (den_pointExpand_ins p i n hn)
  | ranged s e a b, i, n, hw, hn => by
      have h : s < e := by simpa [wf] using hw
      simp only [shift, wf_rangedShift_ins s e a b i n h hn, and_true]
      intro _; exact Refines.of_eq (den_rangedShift_ins s e a b i n h hn)
  | ambiguous s e, i, n, hw, hn => by
      have h : s < e := by simpa [wf] using hw
      simp only [shift, wf_ambiguousShift_ins s e i n h hn, and_true]
      intro _; exact Refines.of_eq (den_ambiguousShift_ins s e i n h hn)
  | joined ls, i, n, hw, hn => by
      have ih := shiftList_ins ls i n (by simpa [wf] using hw) hn
      refine ⟨?_, join_wf _ ih.2⟩
      intro hk
      simp only [shiftAbs, Bool.or_eq_false_iff] at hk
      simp only [shift, den_joined]
      exact (join_den _ ih.2 hk.2).trans (ih.1 hk.1)
  | ordered ls, i, n, hw, hn => by
      have ih := shiftList_ins ls i n (by simpa [wf] using hw) hn
      refine ⟨?_, order_wf _ ih.2⟩
      intro hk
      simp only [shiftAbs] at hk
      simp only [shift, den_ordered, order_den]
      exact ih.1 hk
  | compl l, i, n, hw, hn => by
      have ih := shift_ins l i n (by simpa [wf] using hw) hn
      refine ⟨?_, by simpa [shift, wf] using ih.2⟩
      intro hk
      simp only [shiftAbs] at hk
      simp only [shift, den_compl, mapPos_flipDen]
      exact (ih.1 hk).flip
theorem shiftList_ins : ∀ (ls : List Loc) (i n : Int), wfList ls = true → 0 ≤ n →
    (shiftAbsList ls i n = false → denList (shiftList ls i n) ≼ mapPos (insMap i n) (denList ls)) ∧
    wfList (shiftList ls i n) = true
  | [], _, _, _, _ => by simp [shiftList, Refines.refl]
  | l :: ls, i, n, hw, hn => by
      simp only [wfList_cons, Bool.and_eq_true] at hw
      have h1 := shift_ins l i n hw.1 hn
      have h2 := shiftList_ins ls i n hw.2 hn
      refine ⟨?_, by simp [shiftList, h1.2, h2.2]⟩
      intro hk
      simp only [shiftAbsList, Bool.or_eq_false_iff] at hk
      simp only [shiftList, denList_cons, mapPos_append]
      exact (h1.1 hk.1).append (h2.1 hk.2)
end

end Loc
end Gts
