/-
  The marker guards `…MarkAbs` (`Gts/Spec/MarkGuard.lean`) follow from the guards the denotation
  theorems already carry: if K2 does not fire (`…Abs = false`) and the residues involved are
  pairwise distinct (`Nodup`, every real feature), no marker-moving rule of `Push` fires either —
  both marker-moving rules need a point that coincides with the first base of a range (a residue
  denoted twice) or K2 itself.  These are exactly the conditions under which the Go oracles
  evaluate their marker clauses (`nodup(d)`, guard line `k2.*`).  Core Lean only.
-/
import Gts.Lemmas.Push
import Gts.Spec.MarkGuard
namespace Gts
namespace Loc

theorem nodup_flipDen_of {D : List Pos} (h : D.Nodup) : (flipDen D).Nodup := by
  unfold flipDen
  have hinj : ∀ a b : Pos, ((a.1, !a.2) : Pos) = (b.1, !b.2) → a = b := by
    intro a b h
    have h1 := (Prod.mk.inj h).1
    have h2 := (Prod.mk.inj h).2
    apply Prod.ext h1
    cases ha : a.2 <;> cases hb : b.2 <;> simp_all
  have h1 : D.reverse.Nodup := by
    rw [List.Nodup, List.pairwise_reverse]
    exact List.Pairwise.imp (fun hab => Ne.symm hab) h
  exact List.Pairwise.map _ (fun a b hne hab => hne (hinj a b hab)) h1

theorem nodup_flipDen {D : List Pos} : (flipDen D).Nodup ↔ D.Nodup :=
  ⟨fun h => by simpa [flipDen_flipDen] using nodup_flipDen_of h, nodup_flipDen_of⟩

theorem Refines.nodup {a b : List Pos} (h : a ≼ b) (hb : b.Nodup) : a.Nodup := hb.sublist h.1

/-- what a push function must satisfy, one nesting level down -/
structure PushND (low : List Loc → Loc → Bool → List Loc) (lowAbs lowMk : List Loc → Loc → Bool → Bool) :
    Prop where
  ok : PushOK low lowAbs
  nd : ∀ racc x f, wfList racc = true → wf x = true → lowAbs racc x f = false →
      (denR racc ++ den x).Nodup → lowMk racc x f = false

theorem fold_nd {low lowAbs lowMk} (h : PushND low lowAbs lowMk) (f : Bool) :
    ∀ (ys racc : List Loc), wfList racc = true → wfList ys = true →
      foldAbs low lowAbs f racc ys = false → (denR racc ++ denList ys).Nodup →
      foldAbs low lowMk f racc ys = false := by
  intro ys
  induction ys with
  | nil => intro racc _ _ _ _; simp [foldAbs]
  | cons y ys ih =>
    intro racc hr hys ha hnd
    simp only [wfList_cons, Bool.and_eq_true] at hys
    simp only [foldAbs, Bool.or_eq_false_iff] at ha ⊢
    simp only [denList_cons, ← List.append_assoc] at hnd
    have hnd1 : (denR racc ++ den y).Nodup := (List.nodup_append.mp hnd).1
    refine ⟨h.nd racc y f hr hys.1 ha.1 hnd1, ?_⟩
    apply ih (low racc y f) (h.ok.wf racc y f hr hys.1) hys.2 ha.2
    have hsub := (h.ok.den racc y f hr hys.1 ha.1).1
    exact hnd.sublist (hsub.append_right _)

theorem mem_den_ranged_start (us ue : Int) (a b : Bool) (h : us < ue) :
    ((us, false) : Pos) ∈ den (ranged us ue a b) := by
  simp only [den_ranged, fwd, List.mem_map]
  exact ⟨us, mem_irange.mpr ⟨by omega, by omega⟩, rfl⟩

theorem markAbsOne_nd {low lowAbs lowMk} (h : PushND low lowAbs lowMk) (racc : List Loc) (x : Loc)
    (f : Bool) (hr : wfList racc = true) (hx : wf x = true)
    (ha : absOne low lowAbs racc x f = false) (hnd : (denR racc ++ den x).Nodup) :
    markAbsOne low lowMk racc x f = false := by
  cases racc with
  | nil => cases x <;> rfl
  | cons v rest =>
    simp only [wfList_cons, Bool.and_eq_true] at hr
    obtain ⟨hv, hrest⟩ := hr
    by_cases hcc : (∃ vl ul, v = compl vl ∧ x = compl ul)
    · obtain ⟨vl, ul, rfl, rfl⟩ := hcc
      have hvl : wf vl = true := by simpa [wf] using hv
      have hul : wf ul = true := by simpa [wf] using hx
      simp only [absOne, Bool.or_eq_false_iff] at ha
      simp only [markAbsOne, Bool.or_eq_false_iff]
      -- the residues of the two complemented operands are pairwise distinct
      have hnd2 : (den ul ++ den vl).Nodup := by
        simp only [denR_cons, den_compl, List.append_assoc] at hnd
        have h1 := (List.nodup_append.mp hnd).2.1
        rw [← flipDen_append] at h1
        exact nodup_flipDen.mp h1
      have hw1 : wfList (low [ul] vl f) = true := h.ok.wf [ul] vl f (by simp [hul]) hvl
      refine ⟨h.nd [ul] vl f (by simp [hul]) hvl ha.1 (by simpa using hnd2), ?_⟩
      apply fold_nd h true (low [ul] vl f).reverse [] (by simp) (by rw [wfList_reverse]; exact hw1) ha.2
      have hden := h.ok.den [ul] vl f (by simp [hul]) hvl ha.1
      simp only [denR_nil, List.nil_append]
      have : denList (low [ul] vl f).reverse = denR (low [ul] vl f) := rfl
      rw [this]
      exact Refines.nodup hden (by simpa using hnd2)
    · cases v <;> cases x <;>
        (first | (exfalso; exact hcc ⟨_, _, rfl, rfl⟩) | skip) <;>
        (try rfl)
      · -- point v, ranged us ..: the start of the range would be denoted twice
        rename_i v us ue u5 u3
        simp only [markAbsOne, Bool.and_eq_false_iff, beq_eq_false_iff_ne]
        left
        intro heq
        subst heq
        have hue : v < ue := by simpa [wf] using hx
        have h1 : ((v, false) : Pos) ∈ denR (point v :: rest) := by simp [denR_cons]
        have h2 := mem_den_ranged_start v ue u5 u3 hue
        exact (List.nodup_append.mp hnd).2.2 _ h1 _ h2 rfl
      · -- ranged .. ve, point u: that is K2
        rename_i vs ve v5 v3 u
        simp only [absOne] at ha
        simp [markAbsOne, ha]

mutual
theorem markAbsW_nd {low lowAbs lowMk} (h : PushND low lowAbs lowMk) :
    ∀ (x : Loc) (racc : List Loc) (f : Bool), wfList racc = true → wf x = true →
      absW low lowAbs racc x f = false → (denR racc ++ den x).Nodup →
      markAbsW low lowMk racc x f = false
  | joined parts, racc, f, hr, hx, ha, hnd => by
      simpa [markAbsW] using
        markAbsListW_nd h parts racc f hr (by simpa [wf] using hx) (by simpa [absW] using ha)
          (by simpa using hnd)
  | between p, racc, f, hr, hx, ha, hnd => by
      simpa [markAbsW] using markAbsOne_nd h racc (between p) f hr hx (by simpa [absW] using ha) hnd
  | point p, racc, f, hr, hx, ha, hnd => by
      simpa [markAbsW] using markAbsOne_nd h racc (point p) f hr hx (by simpa [absW] using ha) hnd
  | ranged s e a b, racc, f, hr, hx, ha, hnd => by
      simpa [markAbsW] using
        markAbsOne_nd h racc (ranged s e a b) f hr hx (by simpa [absW] using ha) hnd
  | ambiguous s e, racc, f, hr, hx, ha, hnd => by
      simpa [markAbsW] using
        markAbsOne_nd h racc (ambiguous s e) f hr hx (by simpa [absW] using ha) hnd
  | ordered ls, racc, f, hr, hx, ha, hnd => by
      simpa [markAbsW] using markAbsOne_nd h racc (ordered ls) f hr hx (by simpa [absW] using ha) hnd
  | compl l, racc, f, hr, hx, ha, hnd => by
      simpa [markAbsW] using markAbsOne_nd h racc (compl l) f hr hx (by simpa [absW] using ha) hnd
theorem markAbsListW_nd {low lowAbs lowMk} (h : PushND low lowAbs lowMk) :
    ∀ (ps : List Loc) (racc : List Loc) (f : Bool), wfList racc = true → wfList ps = true →
      absListW low lowAbs racc ps f = false → (denR racc ++ denList ps).Nodup →
      markAbsListW low lowMk racc ps f = false
  | [], _, _, _, _, _, _ => by simp [markAbsListW]
  | p :: ps, racc, f, hr, hps, ha, hnd => by
      simp only [wfList_cons, Bool.and_eq_true] at hps
      simp only [absListW, Bool.or_eq_false_iff] at ha
      simp only [markAbsListW, Bool.or_eq_false_iff]
      simp only [denList_cons, ← List.append_assoc] at hnd
      have hnd1 : (denR racc ++ den p).Nodup := (List.nodup_append.mp hnd).1
      have hp := pushW_ok h.ok p racc f hr hps.1
      refine ⟨markAbsW_nd h p racc f hr hps.1 ha.1 hnd1, ?_⟩
      apply markAbsListW_nd h ps (pushW low racc p f) f hp.2 hps.2 ha.2
      exact hnd.sublist (((hp.1 ha.1).1).append_right _)
end

theorem pushD_nd : ∀ d, PushND (pushD d) (absD d) (markAbsD d)
  | 0 => ⟨pushD_ok 0, fun _ _ _ _ _ _ _ => rfl⟩
  | d + 1 => ⟨pushD_ok (d + 1), fun racc x f hr hx ha hnd =>
      markAbsW_nd (pushD_nd d) x racc f hr hx ha hnd⟩

/-- **no marker-moving rule fires in `Join(xs...)`** when K2 does not and the residues of the
arguments are pairwise distinct -/
theorem joinMarkAbs_of_nodup (xs : List Loc) (hw : wfList xs = true) (ha : joinAbs xs = false)
    (hnd : (denList xs).Nodup) : joinMarkAbs xs = false :=
  fold_nd (pushD_nd pushFuel) true xs [] (by simp) hw ha (by simpa using hnd)

end Loc
end Gts
