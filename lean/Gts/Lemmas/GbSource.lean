/-
  C01 helper lemmas: KEYWORDS, SOURCE / ORGANISM / taxonomy — the fields laid out with
  `wrap.Space(…, 67)`.  The domain predicates say directly what has to survive (`rejoin` of the
  wrapped text, `FlatFileSplit` of the joined list); they are decidable and hold for every text
  that fits one line.  Core Lean only.
-/
import Gts.Lemmas.GbFields
namespace Gts.GenBank
open Gts.Pars

/-- what `genbankFieldBodyParser(depth, ' ')` makes of a wrapped text: its lines joined by one
blank -/
def rejoin (w : Bytes) : Bytes := headLine w ++ sepText 32 (tailLines w)

/-- `FlatFileSplit(strings.Join(xs, "; ") + ".")` gives the list back, and the joined text has no
carriage return and survives wrapping and re-joining -/
def listOk (xs : List Bytes) : Bool :=
  let t := joinWith (bs "; ") xs ++ [46]
  noCR t && rejoin (wrapSpace t) == t && flatFileSplit t == xs

theorem noCR_of_rejoin (w t : Bytes) (h : rejoin w = t) (ht : noCR t = true) : noCR w = true := by
  -- the bytes of w are the bytes of its lines plus line feeds
  have hw := lines_join w
  have key : ∀ (ls : List Bytes) (a : Bytes), noCR (a ++ sepText 32 ls) = true → noCR (a ++ sepText 10 ls) = true := by
    intro ls
    induction ls with
    | nil => intro a h; simpa [sepText] using h
    | cons l ls ih =>
      intro a h
      rw [sepText_cons] at h ⊢
      have h' : noCR ((a ++ 32 :: l) ++ sepText 32 ls) = true := by simpa [List.append_assoc] using h
      have h1 : noCR (a ++ 32 :: l) = true := by
        rw [noCR_append] at h'; simp only [Bool.and_eq_true] at h'; exact h'.1
      have h2 : noCR (a ++ 10 :: l) = true := by
        simp only [noCR, List.all_append, List.all_cons, Bool.and_eq_true] at h1 ⊢
        exact ⟨h1.1, by decide, h1.2.2⟩
      have h3 : noCR (sepText 32 ls) = true := by
        rw [noCR_append] at h'; simp only [Bool.and_eq_true] at h'; exact h'.2
      have := ih [] (by simpa using h3)
      simp only [List.nil_append] at this
      have e : a ++ (10 :: l ++ sepText 10 ls) = (a ++ 10 :: l) ++ sepText 10 ls := by simp
      rw [e, noCR_append, h2, this]; rfl
  rw [hw]
  apply key
  rw [← h] at ht; exact ht

/-- `genbankFieldBodyParser(depth, ' ')` on a wrapped text -/
theorem fieldBody_rejoin (d : Nat) (w rest : Bytes) (stk : List Bytes) (hw : noCR w = true)
    (hrest : (sp d).isPrefixOf rest = false) :
    fieldBody d 32 ⟨addPrefix (sp d) w ++ 10 :: rest, stk⟩ = (.ok (rejoin w, (tailLines w).length), ⟨rest, stk⟩) := by
  obtain ⟨h0, hls⟩ := lines_noEOL w hw
  rw [addPrefix_lines, fieldBody_ok d 32 _ _ rest stk h0 hls hrest]
  rfl

/-- **KEYWORDS** round trip -/
theorem keywords_roundtrip (f : Fields) (kws : List Bytes) (rest : Bytes) (stk : List Bytes)
    (h : listOk kws = true) (hrest : (sp 12).isPrefixOf rest = false) :
    keywordsField 12 f
        ⟨bs "KEYWORDS    " ++ (addPrefix indent (wrapSpace (joinWith (bs "; ") kws ++ [46])) ++ 10 :: rest), stk⟩ =
      (.ok ({ f with keywords := kws }, true), ⟨rest, stk⟩) := by
  simp only [listOk, Bool.and_eq_true, beq_iff_eq] at h
  obtain ⟨⟨h1, h2⟩, h3⟩ := h
  have hw : noCR (wrapSpace (joinWith (bs "; ") kws ++ [46])) = true := noCR_of_rejoin _ _ h2 h1
  have e : bs "KEYWORDS    " ++ (addPrefix indent (wrapSpace (joinWith (bs "; ") kws ++ [46])) ++ 10 :: rest) =
      bs "KEYWORDS" ++ (sp (12 - (bs "KEYWORDS").length) ++
        (addPrefix (sp 12) (wrapSpace (joinWith (bs "; ") kws ++ [46])) ++ 10 :: rest)) := by
    show _ = bs "KEYWORDS" ++ (sp 4 ++ _)
    simp [bs, sp, indent]
  rw [e]
  have hn := fun r s => fieldName_ok (bs "KEYWORDS") 12 r s (by decide)
  have hb := fun s => fieldBody_rejoin 12 _ rest s hw hrest
  gsimp [keywordsField, hn, hb, h2, h3]

/-! ### SOURCE, ORGANISM, taxonomy -/

/-- what the taxonomy loop makes of the lines: joined by one blank, no blank in front of the first
non-empty line -/
def taxJoin (acc : Bytes) (ls : List Bytes) : Bytes :=
  ls.foldl (fun a l => if a.isEmpty then l else a ++ 32 :: l) acc

theorem taxonMore_lines (d : Nat) (ls : List Bytes) (rest : Bytes) (stk : List Bytes) (acc : Bytes) (f : Nat)
    (hls : ∀ x ∈ ls, noEOL x = true) (hrest : (sp d).isPrefixOf rest = false) (hf : ls.length < f) :
    taxonMore d f acc ⟨contText (sp d) ls ++ rest, stk⟩ = (.ok (taxJoin acc ls), ⟨rest, stk⟩) := by
  induction ls generalizing acc f with
  | nil =>
    cases f with
    | zero => omega
    | succ f => gsimp [taxonMore, contText, taxJoin, fieldLine_fail d rest stk hrest]
  | cons l ls ih =>
    cases f with
    | zero => omega
    | succ f =>
      have hl : noEOL l = true := hls l (by simp)
      rw [contText_cons]
      simp only [taxonMore, P.bind_run, attempt_run, List.append_assoc, List.cons_append, fieldLine_ok d l _ stk hl]
      rw [ih _ f (fun x hx => hls x (by simp [hx])) (by simp only [List.length_cons] at hf; omega)]
      simp [taxJoin]

/-- the taxonomy list survives: join, wrap, the reader's re-join, `FlatFileSplit` -/
def taxonOk (xs : List Bytes) : Bool :=
  let w := wrapSpace (joinWith (bs "; ") xs ++ [46])
  noCR w && flatFileSplit (taxJoin [] (headLine w :: tailLines w)) == xs

/-- the organism name is one line (a line feed in it would start the taxonomy) and does not start
with a blank (the sub-field indent is counted up to the first non-blank) -/
def organismOk (name : Bytes) : Bool := noEOL name && name.head? != some 32

theorem blankWord_ok (n : Nat) (X : Bytes) (stk : List Bytes) (hn : 0 < n)
    (hX : ∀ c, X.head? = some c → c ≠ 32) :
    word (· == 32) ⟨sp n ++ X, stk⟩ = (.ok (sp n), ⟨X, stk⟩) := by
  apply word_ok
  · simp [sp, List.all_replicate]
  · cases n with
    | zero => omega
    | succ n => rw [sp_succ]; simp
  · intro c hc; simpa using hX c hc

/-- `genbankSubfieldNameParser("ORGANISM", 12)` on `  ORGANISM  ` followed by a non-blank -/
theorem organismName_ok (X : Bytes) (stk : List Bytes) (stale : Nat) (hX : ∀ c, X.head? = some c → c ≠ 32) :
    subfieldName (bs "ORGANISM") 12 stale true ⟨bs "  ORGANISM  " ++ X, stk⟩ = (.ok (), ⟨X, stk⟩) := by
  have e : bs "  ORGANISM  " ++ X = sp 2 ++ (bs "ORGANISM" ++ (sp 2 ++ X)) := by simp [bs, sp]
  rw [e]
  have h1 := fun s => blankWord_ok 2 (bs "ORGANISM" ++ (sp 2 ++ X)) s (by omega) (by
    intro c hc; simp [bs] at hc; subst hc; decide)
  have h2 := fun s => blankWord_ok 2 X s (by omega) hX
  have hlen : (bs "ORGANISM").length = 8 := by decide
  gsimp [subfieldName, h1, lit_ok, h2, sp_length, hlen]

/-- **SOURCE / ORGANISM / taxonomy** round trip: the species text (any text without carriage
return; written as it is since repo 3d74d27), the organism name (one line, written unwrapped since
repo 69bb3bf) and the taxonomy list come back. -/
theorem source_roundtrip (f : Fields) (species name : Bytes) (taxon : List Bytes) (rest : Bytes)
    (stk : List Bytes) (hs : noCR (species) = true) (hn : organismOk name = true)
    (ht : taxonOk taxon = true) (hrest : (sp 12).isPrefixOf rest = false) :
    sourceField 12 f
        ⟨bs "SOURCE      " ++ (addPrefix indent (species) ++ 10 ::
          (bs "  ORGANISM  " ++ (addPrefix indent (name) ++ 10 ::
          (indent ++ (addPrefix indent (wrapSpace (joinWith (bs "; ") taxon ++ [46])) ++ 10 :: rest))))), stk⟩ =
      (.ok ({ f with species := species, organism := name, taxon := taxon }, true), ⟨rest, stk⟩) := by
  simp only [organismOk, Bool.and_eq_true, bne_iff_ne, ne_eq] at hn
  obtain ⟨hn2, hn3⟩ := hn
  simp only [taxonOk, Bool.and_eq_true, beq_iff_eq] at ht
  obtain ⟨ht1, ht2⟩ := ht
  rw [addPrefix_noLF _ name hn2]
  -- taxonomy
  generalize wrapSpace (joinWith (bs "; ") taxon ++ [46]) = W at ht1 ht2 ⊢
  obtain ⟨hl0, hls⟩ := lines_noEOL W ht1
  have etax : indent ++ (addPrefix indent W ++ 10 :: rest) = contText (sp 12) (headLine W :: tailLines W) ++ rest := by
    rw [contText_cons, addPrefix_lines]
    simp [indent, List.append_assoc]
  rw [etax]
  generalize hT : contText (sp 12) (headLine W :: tailLines W) ++ rest = T
  have hlen : (headLine W :: tailLines W).length < T.length + 1 := by
    have := contText_length_ge (sp 12) (headLine W :: tailLines W)
    rw [← hT]; simp only [List.length_append]; omega
  have htax : ∀ s, taxonMore 12 (T.length + 1) [] ⟨T, s⟩ =
      (.ok (taxJoin [] (headLine W :: tailLines W)), ⟨rest, s⟩) := by
    intro s
    have := taxonMore_lines 12 (headLine W :: tailLines W) rest s [] (T.length + 1) (by
      intro x hx
      rcases List.mem_cons.mp hx with rfl | hx
      · exact hl0
      · exact hls x hx) hrest hlen
    rw [hT] at this; exact this
  -- SOURCE
  have e : bs "SOURCE      " ++ (addPrefix indent (species) ++ 10 :: (bs "  ORGANISM  " ++ (name ++ 10 :: T))) =
      bs "SOURCE" ++ (sp (12 - (bs "SOURCE").length) ++ (addPrefix (sp 12) (species) ++ 10 ::
        (bs "  ORGANISM  " ++ (name ++ 10 :: T)))) := by
    show _ = bs "SOURCE" ++ (sp 6 ++ _)
    simp [bs, sp, indent]
  rw [e]
  have horg : (sp 12).isPrefixOf (bs "  ORGANISM  " ++ (name ++ 10 :: T)) = false := by
    simp [bs, sp, List.replicate, List.isPrefixOf]
  have hg := fun s => genericField_ok (bs "SOURCE") 12 (species) _ s (by decide) hs horg
  -- ORGANISM
  have hX : ∀ c, (name ++ 10 :: T).head? = some c → c ≠ 32 := by
    intro c hc
    cases name with
    | nil => simp at hc; subst hc; decide
    | cons x r => simp at hc hn3; subst hc; exact hn3
  have ho := fun st s => organismName_ok _ s st hX
  have hline := fun s => line_ok name T s hn2
  gsimp [sourceField, mapped_ok _ _ _ stk _ (hg _), ho, hline, htax, ht2]

end Gts.GenBank
