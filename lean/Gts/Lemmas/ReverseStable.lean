/-
  C05, `Reverse` twice: the guard `reverseStable` ("no `Join` of the first reversal reduces") follows
  from conditions on the location itself — canonical, well-formed, no residue read twice, no
  between-site, K2 not firing — the conditions under which the harness evaluates its involution
  oracle.  `Join` of parts none of which is a `Joined` leaves them alone iff no ADJACENT pair meets a
  rule of `LocationList.Push` (`fires`); the mirror image of a pair that meets none meets one only
  through a between-site (K1), a point on the last base of the range in front of it (a residue read
  twice) or K2.  Core Lean only.
-/
import Gts.Lemmas.ReverseInvol
import Gts.Lemmas.MarksDelAll
import Gts.Lemmas.MarkGuardNodup
namespace Gts

/-! ### adjacent pairs -/

/-- every adjacent pair of the list satisfies `P` -/
def ChainP {α : Type} (P : α → α → Prop) : List α → Prop
  | a :: b :: r => P a b ∧ ChainP P (b :: r)
  | _ => True

theorem chainP_cons_cons {α : Type} (P : α → α → Prop) (a b : α) (r : List α) :
    ChainP P (a :: b :: r) ↔ P a b ∧ ChainP P (b :: r) := Iff.rfl

theorem chainP_tail {α : Type} {P : α → α → Prop} {a : α} {l : List α} (h : ChainP P (a :: l)) :
    ChainP P l := by
  cases l with
  | nil => trivial
  | cons b r => exact h.2

theorem chainP_imp {α : Type} {P Q : α → α → Prop} : ∀ (l : List α),
    (∀ a b, a ∈ l → b ∈ l → P a b → Q a b) → ChainP P l → ChainP Q l
  | [], _, _ => trivial
  | [_], _, _ => trivial
  | a :: b :: r, h, hc =>
    ⟨h a b (by simp) (by simp) hc.1,
     chainP_imp (b :: r) (fun x y hx hy => h x y (List.mem_cons_of_mem _ hx) (List.mem_cons_of_mem _ hy)) hc.2⟩

theorem chainP_snoc {α : Type} (P : α → α → Prop) : ∀ (l : List α) (x : α),
    ChainP P (l ++ [x]) ↔ ChainP P l ∧ ∀ y, l.getLast? = some y → P y x
  | [], x => by simp [ChainP]
  | [a], x => by simp [ChainP]
  | a :: b :: r, x => by
      have ih := chainP_snoc P (b :: r) x
      simp only [List.cons_append] at ih ⊢
      rw [chainP_cons_cons, ih, chainP_cons_cons, List.getLast?_cons_cons]
      exact and_assoc.symm

theorem chainP_reverse {α : Type} (P : α → α → Prop) : ∀ (l : List α),
    ChainP P l.reverse ↔ ChainP (fun a b => P b a) l
  | [] => by simp [ChainP]
  | [a] => by simp [ChainP]
  | a :: b :: r => by
      have ih := chainP_reverse P (b :: r)
      rw [List.reverse_cons, chainP_snoc, ih, chainP_cons_cons]
      have hl : (b :: r).reverse.getLast? = some b := by simp
      rw [hl]
      constructor
      · rintro ⟨h1, h2⟩; exact ⟨h2 b rfl, h1⟩
      · rintro ⟨h1, h2⟩; exact ⟨h2, fun y hy => by cases hy; exact h1⟩

theorem chainP_map {α β : Type} (P : β → β → Prop) (f : α → β) : ∀ (l : List α),
    ChainP P (l.map f) ↔ ChainP (fun a b => P (f a) (f b)) l
  | [] => by simp [ChainP]
  | [a] => by simp [ChainP]
  | a :: b :: r => by
      have ih := chainP_map P f (b :: r)
      simp only [List.map_cons] at ih ⊢
      rw [chainP_cons_cons, chainP_cons_cons, ih]

namespace Loc

/-! ### when does `Push` (with `force`) do anything but append -/

/-- a rule of `LocationList.Push` applies to the last element `v` and the pushed, non-`Joined`
element `x` (with `force = true`, as `Join` pushes) -/
def fires : Loc → Loc → Bool
  | between v, between u => decide (v = u)
  | between v, point u => decide (v = u)
  | between v, ranged us _ _ _ => decide (v = us)
  | point v, between u => decide (v + 1 = u)
  | point v, point u => decide (v = u)
  | point v, ranged us _ _ _ => decide (v = us)
  | ranged _ ve _ _, between u => decide (ve = u)
  | ranged _ ve _ _, point u => decide (ve = u)
  | ranged _ ve _ _, ranged us _ _ _ => ve == us
  | compl _, compl _ => true
  | _, _ => false

/-- the K2 shape: a range and the point one base behind it -/
def k2Shape : Loc → Loc → Bool
  | ranged _ ve _ _, point u => decide (ve = u)
  | _, _ => false

theorem pushW_notJoined (low : List Loc → Loc → Bool → List Loc) (racc : List Loc) (x : Loc) (f : Bool)
    (hx : isJoinedC x = false) : pushW low racc x f = pushOne low racc x f := by
  cases x <;> simp_all [pushW, isJoinedC]

theorem absW_notJoined (low : List Loc → Loc → Bool → List Loc) (lowAbs : List Loc → Loc → Bool → Bool)
    (racc : List Loc) (x : Loc) (f : Bool) (hx : isJoinedC x = false) :
    absW low lowAbs racc x f = absOne low lowAbs racc x f := by
  cases x <;> simp_all [absW, isJoinedC]

theorem pushOne_of_not_fires (low : List Loc → Loc → Bool → List Loc) (v x : Loc) (rest : List Loc)
    (h : fires v x = false) : pushOne low (v :: rest) x true = x :: v :: rest := by
  cases v <;> cases x <;> simp_all [pushOne, fires]

theorem pushOne_length_le (low : List Loc → Loc → Bool → List Loc) (racc : List Loc) (x : Loc) (f : Bool) :
    (pushOne low racc x f).length ≤ racc.length + 1 := by
  cases racc with
  | nil => simp [pushOne]
  | cons v rest =>
    cases v <;> cases x <;> simp only [pushOne] <;> (try split) <;> simp

theorem pushOne_length_fires (low : List Loc → Loc → Bool → List Loc) (v x : Loc) (rest : List Loc)
    (h : fires v x = true) : (pushOne low (v :: rest) x true).length = rest.length + 1 := by
  cases v <;> cases x <;> simp_all [pushOne, fires]

theorem absOne_of_k2Shape (low : List Loc → Loc → Bool → List Loc) (lowAbs : List Loc → Loc → Bool → Bool)
    (v x : Loc) (rest : List Loc) (f : Bool) (h : k2Shape v x = true) :
    absOne low lowAbs (v :: rest) x f = true := by
  cases v <;> cases x <;> simp_all [absOne, k2Shape]

/-- no element is a `Joined` -/
def noJ (ls : List Loc) : Bool := !ls.any isJoinedC

theorem noJ_cons (x : Loc) (ls : List Loc) : noJ (x :: ls) = (!isJoinedC x && noJ ls) := by
  simp [noJ, Bool.not_or]

theorem pushOne_noJ (low : List Loc → Loc → Bool → List Loc) (racc : List Loc) (x : Loc) (f : Bool)
    (hr : noJ racc = true) (hx : isJoinedC x = false) : noJ (pushOne low racc x f) = true := by
  cases racc with
  | nil => simp [pushOne, noJ, hx]
  | cons v rest =>
    rw [noJ_cons] at hr
    simp only [Bool.and_eq_true, Bool.not_eq_true'] at hr
    cases v <;> cases x <;> simp only [pushOne] <;> (try split) <;>
      simp_all [noJ_cons, isJoinedC]

mutual
theorem beq_refl : ∀ a : Loc, beq a a = true
  | between _ => by simp [beq]
  | point _ => by simp [beq]
  | ranged _ _ _ _ => by simp [beq]
  | ambiguous _ _ => by simp [beq]
  | joined ls => by simp only [beq]; exact beqList_refl ls
  | ordered ls => by simp only [beq]; exact beqList_refl ls
  | compl l => by simp only [beq]; exact beq_refl l
theorem beqList_refl : ∀ a : List Loc, beqList a a = true
  | [] => by simp [beqList]
  | l :: ls => by simp only [beqList, Bool.and_eq_true]; exact ⟨beq_refl l, beqList_refl ls⟩
end

/-! ### `Join` of parts none of which is a `Joined` -/

theorem foldl_push_length_le (low : List Loc → Loc → Bool → List Loc) : ∀ (xs racc : List Loc),
    noJ xs = true → (xs.foldl (fun acc y => pushW low acc y true) racc).length ≤ racc.length + xs.length
  | [], _, _ => by simp
  | x :: xs, racc, h => by
      rw [noJ_cons] at h
      simp only [Bool.and_eq_true, Bool.not_eq_true'] at h
      have h1 := foldl_push_length_le low xs (pushW low racc x true) h.2
      have h2 := pushOne_length_le low racc x true
      rw [← pushW_notJoined low racc x true h.1] at h2
      simp only [List.foldl_cons, List.length_cons]
      omega

theorem foldl_push_noJ (low : List Loc → Loc → Bool → List Loc) : ∀ (xs racc : List Loc),
    noJ racc = true → noJ xs = true → noJ (xs.foldl (fun acc y => pushW low acc y true) racc) = true
  | [], _, hr, _ => by simpa using hr
  | x :: xs, racc, hr, h => by
      rw [noJ_cons] at h
      simp only [Bool.and_eq_true, Bool.not_eq_true'] at h
      simp only [List.foldl_cons]
      apply foldl_push_noJ low xs _ _ h.2
      rw [pushW_notJoined low racc x true h.1]
      exact pushOne_noJ low racc x true hr h.1

/-- if pushing the elements one by one lost none, no adjacent pair met a rule -/
theorem chain_of_length (low : List Loc → Loc → Bool → List Loc) : ∀ (xs racc : List Loc),
    noJ xs = true →
    (xs.foldl (fun acc y => pushW low acc y true) racc).length = racc.length + xs.length →
    ChainP (fun v x => fires v x = false) (racc.head?.toList ++ xs)
  | [], racc, _, _ => by cases racc <;> simp [ChainP]
  | x :: xs, racc, h, hl => by
      have hj := h
      rw [noJ_cons] at hj
      simp only [Bool.and_eq_true, Bool.not_eq_true'] at hj
      have h1 := foldl_push_length_le low xs (pushW low racc x true) hj.2
      have h2 := pushOne_length_le low racc x true
      rw [pushW_notJoined low racc x true hj.1] at h1
      simp only [List.foldl_cons, List.length_cons] at hl
      rw [pushW_notJoined low racc x true hj.1] at hl
      cases racc with
      | nil =>
        have ih := chain_of_length low xs [x] hj.2 (by
          simp only [pushOne] at hl
          simp only [List.length_cons, List.length_nil] at hl ⊢
          omega)
        simpa using ih
      | cons v rest =>
        have hf : fires v x = false := by
          cases hfv : fires v x with
          | false => rfl
          | true =>
            have := pushOne_length_fires low v x rest hfv
            simp only [List.length_cons] at hl h1
            omega
        rw [pushOne_of_not_fires low v x rest hf] at hl
        have ih := chain_of_length low xs (x :: v :: rest) hj.2 (by
          simp only [List.length_cons] at hl ⊢; omega)
        simp only [List.head?_cons, Option.toList_some, List.singleton_append] at ih ⊢
        exact ⟨hf, ih⟩

/-- if the only rule an adjacent pair can meet is K2 and K2 does not fire, `Push` appends -/
theorem foldl_push_of_chain (low : List Loc → Loc → Bool → List Loc)
    (lowAbs : List Loc → Loc → Bool → Bool) : ∀ (xs racc : List Loc), noJ xs = true →
    ChainP (fun v x => fires v x = true → k2Shape v x = true) (racc.head?.toList ++ xs) →
    foldAbs (pushW low) (absW low lowAbs) true racc xs = false →
    xs.foldl (fun acc y => pushW low acc y true) racc = xs.reverse ++ racc
  | [], _, _, _, _ => by simp
  | x :: xs, racc, h, hc, ha => by
      rw [noJ_cons] at h
      simp only [Bool.and_eq_true, Bool.not_eq_true'] at h
      simp only [foldAbs, Bool.or_eq_false_iff] at ha
      rw [absW_notJoined low lowAbs racc x true h.1, pushW_notJoined low racc x true h.1] at ha
      simp only [List.foldl_cons]
      rw [pushW_notJoined low racc x true h.1]
      cases racc with
      | nil =>
        simp only [pushOne] at ha ⊢
        rw [foldl_push_of_chain low lowAbs xs [x] h.2 (by simpa using hc) ha.2]
        simp
      | cons v rest =>
        simp only [List.head?_cons, Option.toList_some, List.singleton_append] at hc
        have hf : fires v x = false := by
          cases hfv : fires v x with
          | false => rfl
          | true =>
            have := absOne_of_k2Shape low lowAbs v x rest true (hc.1 hfv)
            rw [this] at ha
            exact absurd ha.1 (by simp)
        rw [pushOne_of_not_fires low v x rest hf] at ha ⊢
        rw [foldl_push_of_chain low lowAbs xs (x :: v :: rest) h.2 (by simpa using hc.2) ha.2]
        simp

/-! ### the mirror image of a pair that meets no rule -/

/-- a range and the point ON its last base -/
def dupShape : Loc → Loc → Bool
  | ranged _ e _ _, point p => decide (p = e - 1)
  | _, _ => false

theorem fires_ordered_left (ms : List Loc) (b : Loc) : fires (ordered ms) b = false := by
  cases b <;> rfl

theorem fires_ordered_right (a : Loc) (ms : List Loc) : fires a (ordered ms) = false := by
  cases a <;> rfl

theorem eq_ordered_of_isOrderedC {l : Loc} (h : isOrderedC l = true) : ∃ ms, l = ordered ms := by
  cases l <;> simp_all [isOrderedC]

theorem fires_mirror (L : Int) (v x : Loc) (hvj : isJoinedC v = false) (hxj : isJoinedC x = false)
    (hvo : isOrderedC (reverse v L) = isOrderedC v) (hxo : isOrderedC (reverse x L) = isOrderedC x)
    (h : fires (reverse x L) (reverse v L) = true) :
    fires v x = true ∨ isBetween v = true ∨ isBetween x = true ∨ dupShape v x = true ∨
      k2Shape (reverse x L) (reverse v L) = true := by
  by_cases hv : isOrderedC v = true
  · obtain ⟨ms, e⟩ := eq_ordered_of_isOrderedC (hvo.trans hv)
    rw [e, fires_ordered_right] at h
    cases h
  · by_cases hx : isOrderedC x = true
    · obtain ⟨ms, e⟩ := eq_ordered_of_isOrderedC (hxo.trans hx)
      rw [e, fires_ordered_left] at h
      cases h
    · cases v <;> cases x <;>
        simp_all [reverse, rangedReverse, fires, isBetween, dupShape, k2Shape, isOrderedC, isJoinedC] <;>
        omega

theorem not_nodup_of_dupShape (v x : Loc) (hw : wf v = true) (h : dupShape v x = true) :
    ¬ (den v ++ den x).Nodup := by
  cases v <;> cases x <;> simp_all [dupShape]
  rename_i s e a b p
  have hse : s < e := by simpa [wf] using hw
  intro hn
  have hm : ((e - 1, false) : Pos) ∈ fwd (irange s (e - s).toNat) := by
    simp only [fwd, List.mem_map]
    exact ⟨e - 1, mem_irange.mpr ⟨by omega, by omega⟩, rfl⟩
  exact (List.nodup_append.mp hn).2.2 _ hm _ (List.mem_singleton.mpr rfl) rfl

theorem chainP_nodup_den : ∀ (ls : List Loc), (denList ls).Nodup →
    ChainP (fun v x => (den v ++ den x).Nodup) ls
  | [], _ => trivial
  | [_], _ => trivial
  | v :: x :: r, h => by
      simp only [denList_cons] at h
      refine ⟨?_, chainP_nodup_den (x :: r) ?_⟩
      · rw [← List.append_assoc] at h
        exact (List.nodup_append.mp h).1
      · simpa only [denList_cons] using (List.nodup_append.mp h).2.1

theorem chainP_and {α : Type} {P Q : α → α → Prop} : ∀ (l : List α), ChainP P l → ChainP Q l →
    ChainP (fun a b => P a b ∧ Q a b) l
  | [], _, _ => trivial
  | [_], _, _ => trivial
  | _ :: b :: r, hp, hq => ⟨⟨hp.1, hq.1⟩, chainP_and (b :: r) hp.2 hq.2⟩

/-! ### the guard from conditions on the location -/

theorem isJoinedC_reverse (v : Loc) (L : Int) (hj : isJoinedC v = false)
    (ho : isOrderedC (reverse v L) = isOrderedC v) : isJoinedC (reverse v L) = false := by
  cases v with
  | joined ls => simp [isJoinedC] at hj
  | ordered ms =>
    obtain ⟨ms', e⟩ := eq_ordered_of_isOrderedC (ho.trans rfl)
    rw [e]; rfl
  | _ => simp [reverse, rangedReverse, isJoinedC]

theorem isBetween_of_allLeaves (v : Loc) (h : allLeaves (fun u => !isBetween u) v = true) :
    isBetween v = false := by
  cases v <;> simp_all [isBetween]

theorem wf_of_mem_wfList : ∀ (ls : List Loc) (v : Loc), wfList ls = true → v ∈ ls → wf v = true
  | [], _, _, h => by cases h
  | l :: ls, v, hw, h => by
      simp only [wfList_cons, Bool.and_eq_true] at hw
      rcases List.mem_cons.mp h with rfl | h
      · exact hw.1
      · exact wf_of_mem_wfList ls v hw.2 h

theorem canonP_of_mem : ∀ (ls : List Loc) (v : Loc), canonPList ls = true → v ∈ ls → canonP v = true
  | [], _, _, h => by cases h
  | l :: ls, v, hc, h => by
      simp only [canonPList, Bool.and_eq_true] at hc
      rcases List.mem_cons.mp h with rfl | h
      · exact hc.1
      · exact canonP_of_mem ls v hc.2 h

theorem reverseStable_of_mem (L : Int) : ∀ (ls : List Loc) (v : Loc), reverseStableList ls L = true →
    v ∈ ls → reverseStable v L = true
  | [], _, _, h => by cases h
  | l :: ls, v, hc, h => by
      simp only [reverseStableList, Bool.and_eq_true] at hc
      rcases List.mem_cons.mp h with rfl | h
      · exact hc.1
      · exact reverseStable_of_mem L ls v hc.2 h

theorem allLeaves_of_mem (Q : Loc → Bool) : ∀ (ls : List Loc) (v : Loc), allLeavesList Q ls = true →
    v ∈ ls → allLeaves Q v = true
  | [], _, _, h => by cases h
  | l :: ls, v, hc, h => by
      simp only [allLeavesList_cons, Bool.and_eq_true] at hc
      rcases List.mem_cons.mp h with rfl | h
      · exact hc.1
      · exact allLeaves_of_mem Q ls v hc.2 h

/-- the `Join` of the reversed parts of a canonical join is left alone, when the parts are
well-formed, none is a between-site, none reverses into an `Ordered` unless it is one, no residue is
read twice and K2 does not fire -/
theorem join_reverse_stable (ls : List Loc) (L : Int) (h2 : 2 ≤ ls.length)
    (hnj : ls.any isJoinedC = false) (hj : (join ls).beq (joined ls) = true)
    (hel : ∀ v ∈ ls, wf v = true ∧ isBetween v = false ∧ isOrderedC (reverse v L) = isOrderedC v)
    (hn : (denList ls).Nodup) (hk : joinAbs (reverseList ls L).reverse = false) :
    (join (reverseList ls L).reverse).beq (joined (reverseList ls L).reverse) = true := by
  have hnoJ : noJ ls = true := by simp [noJ, hnj]
  have hjv : ∀ v ∈ ls, isJoinedC v = false := by
    intro v hv
    have := List.any_eq_false.mp hnj v hv
    simpa using this
  -- no adjacent pair of `ls` meets a rule
  have hc1 : ChainP (fun v x => fires v x = false) ls := by
    have hjoin : ofParts (ls.foldl (fun acc y => pushW (pushD 47) acc y true) []).reverse = joined ls :=
      beq_eq _ _ hj
    have hacc := foldl_push_noJ (pushD 47) ls [] rfl hnoJ
    generalize hg : ls.foldl (fun acc y => pushW (pushD 47) acc y true) [] = acc at hjoin hacc
    have hlen : acc.length = ls.length := by
      cases hr : acc.reverse with
      | nil =>
        rw [hr] at hjoin
        simp only [ofParts] at hjoin
        have := Loc.joined.inj hjoin
        subst this
        simp at h2
      | cons a t =>
        cases t with
        | nil =>
          rw [hr] at hjoin
          simp only [ofParts] at hjoin
          have ha : a ∈ acc := by
            have : a ∈ acc.reverse := by rw [hr]; simp
            simpa using this
          have : isJoinedC a = false := by
            have := List.any_eq_false.mp (by simpa [noJ] using hacc) a ha
            simpa using this
          rw [hjoin] at this
          simp [isJoinedC] at this
        | cons b r =>
          rw [hr] at hjoin
          simp only [ofParts] at hjoin
          have := Loc.joined.inj hjoin
          have hl : acc.reverse.length = ls.length := by rw [hr, this]
          simpa using hl
    have := chain_of_length (pushD 47) ls [] hnoJ (by rw [hg, hlen]; simp)
    simpa using this
  -- … hence the mirrored pairs meet K2 at most
  have hc2 := chainP_and ls hc1 (chainP_nodup_den ls hn)
  have hc3 : ChainP (fun v x => fires (reverse x L) (reverse v L) = true →
      k2Shape (reverse x L) (reverse v L) = true) ls := by
    refine chainP_imp ls ?_ hc2
    intro v x hv hx ⟨hf, hnd⟩ hfire
    rcases fires_mirror L v x (hjv v hv) (hjv x hx) (hel v hv).2.2 (hel x hx).2.2 hfire with
      h | h | h | h | h
    · rw [hf] at h; cases h
    · rw [(hel v hv).2.1] at h; cases h
    · rw [(hel x hx).2.1] at h; cases h
    · exact absurd hnd (not_nodup_of_dupShape v x (hel v hv).1 h)
    · exact h
  have hR : ChainP (fun a b => fires a b = true → k2Shape a b = true) (reverseList ls L).reverse := by
    rw [reverseList_eq_map, chainP_reverse, chainP_map]
    exact hc3
  have hnoJR : noJ (reverseList ls L).reverse = true := by
    simp only [noJ, Bool.not_eq_true', List.any_eq_false, List.mem_reverse, reverseList_eq_map,
      List.mem_map]
    rintro a ⟨v, hv, rfl⟩
    simpa using isJoinedC_reverse v L (hjv v hv) (hel v hv).2.2
  have hfold := foldl_push_of_chain (pushD 47) (absD 47) (reverseList ls L).reverse [] hnoJR
    (by simpa using hR) hk
  have hjoinR : join (reverseList ls L).reverse =
      ofParts ((reverseList ls L).reverse.foldl (fun acc y => pushW (pushD 47) acc y true) []).reverse := rfl
  rw [hjoinR, hfold]
  simp only [List.append_nil, List.reverse_reverse]
  have hlenR : 2 ≤ (reverseList ls L).reverse.length := by
    rw [List.length_reverse, reverseList_length]; exact h2
  match hm : (reverseList ls L).reverse, hlenR with
  | a :: b :: r, _ => simp only [ofParts]; exact beq_refl _

mutual
/-- **the guard of the involution law holds** for a canonical, well-formed location that reads no
residue twice and has no between-site, when K2 does not fire in its reversal -/
theorem reverseStable_of_guards : ∀ (l : Loc) (L : Int), canonP l = true → wf l = true →
    (den l).Nodup → allLeaves (fun u => !isBetween u) l = true → reverseAbs l L = false →
    reverseStable l L = true
  | between _, _, _, _, _, _, _ => by simp [reverseStable]
  | point _, _, _, _, _, _, _ => by simp [reverseStable]
  | ranged _ _ _ _, _, _, _, _, _, _ => by simp [reverseStable]
  | ambiguous _ _, _, _, _, _, _, _ => by simp [reverseStable]
  | joined ls, L, hc, hw, hn, hb, hk => by
      simp only [canonP, Bool.and_eq_true, decide_eq_true_eq, Bool.not_eq_true'] at hc
      obtain ⟨⟨⟨hcl, h2⟩, hnj⟩, hj⟩ := hc
      have hwl : wfList ls = true := by simpa [wf] using hw
      have hnl : (denList ls).Nodup := by simpa using hn
      have hbl : allLeavesList (fun u => !isBetween u) ls = true := by simpa using hb
      simp only [reverseAbs, Bool.or_eq_false_iff] at hk
      have ih := reverseStableList_of_guards ls L hcl hwl hnl hbl hk.1
      simp only [reverseStable, Bool.and_eq_true]
      refine ⟨ih, join_reverse_stable ls L h2 hnj hj ?_ hnl hk.2⟩
      intro v hv
      exact ⟨wf_of_mem_wfList ls v hwl hv, isBetween_of_allLeaves v (allLeaves_of_mem _ ls v hbl hv),
        (reverse_reverse_aux v L (canonP_of_mem ls v hcl hv) (reverseStable_of_mem L ls v ih hv)).2⟩
  | ordered ls, L, hc, hw, hn, hb, hk => by
      simp only [canonP, Bool.and_eq_true] at hc
      simp only [reverseStable]
      exact reverseStableList_of_guards ls L hc.1.1 (by simpa [wf] using hw) (by simpa using hn)
        (by simpa using hb) (by simpa [reverseAbs] using hk)
  | compl l, L, hc, hw, hn, hb, hk => by
      simp only [canonP, Bool.and_eq_true] at hc
      simp only [reverseStable]
      exact reverseStable_of_guards l L hc.1 (by simpa [wf] using hw)
        (nodup_flipDen.mp (by simpa using hn)) (by simpa using hb) (by simpa [reverseAbs] using hk)
theorem reverseStableList_of_guards : ∀ (ls : List Loc) (L : Int), canonPList ls = true →
    wfList ls = true → (denList ls).Nodup → allLeavesList (fun u => !isBetween u) ls = true →
    reverseAbsList ls L = false → reverseStableList ls L = true
  | [], _, _, _, _, _, _ => by simp [reverseStableList]
  | l :: ls, L, hc, hw, hn, hb, hk => by
      simp only [canonPList, Bool.and_eq_true] at hc
      simp only [wfList_cons, Bool.and_eq_true] at hw
      simp only [denList_cons] at hn
      simp only [allLeavesList_cons, Bool.and_eq_true] at hb
      simp only [reverseAbsList, Bool.or_eq_false_iff] at hk
      have hn' := List.nodup_append.mp hn
      simp only [reverseStableList, Bool.and_eq_true]
      exact ⟨reverseStable_of_guards l L hc.1 hw.1 hn'.1 hb.1 hk.1,
        reverseStableList_of_guards ls L hc.2 hw.2 hn'.2.1 hb.2 hk.2⟩
end

end Loc
end Gts
