/-
  Helper lemmas for the FEATURE clause of circular `gts split` (C15): the windows of the pieces
  on a circle (`last cut, cuts…`: the first window runs across the origin), their position
  re-mapping `cwinMap`, the partition of the positions, and the shape of the written pieces.
  Core Lean only (plus the C03 / C04 property modules `Gts/Lemmas/Cli.lean` already uses).
-/
import Gts.Lemmas.Cli
import Gts.Lemmas.CliFeatures
namespace Gts.Cli
open Gts Loc Reg

/-- position `x` lies in the window from `a` to `b` on a circle: `[a, b)` when `a ≤ b`, else
`[a, …) ∪ […, b)` (across the origin) -/
def cwinHas (a b x : Int) : Prop := if a ≤ b then a ≤ x ∧ x < b else a ≤ x ∨ x < b

instance (a b x : Int) : Decidable (cwinHas a b x) := by unfold cwinHas; infer_instance

/-- position re-mapping of the piece from `a` to `b` of a circular record of length `L`: the
forward window map when `a ≤ b`; across the origin (`b < a`) the positions from `a` on come
first, then those before `b` -/
def cwinMap (L a b x : Int) : Option Int :=
  if a ≤ b then winMap a b x
  else if a ≤ x then some (x - a) else if x < b then some (x + L - a) else none

theorem cwinMap_isSome_iff (L a b x : Int) : (cwinMap L a b x).isSome ↔ cwinHas a b x := by
  unfold cwinMap cwinHas winMap
  by_cases h : a ≤ b
  · simp only [h, if_true]
    split <;> simp_all
  · simp only [h, if_false]
    by_cases h1 : a ≤ x
    · simp [h1]
    · by_cases h2 : x < b <;> simp [h1, h2]

/-- rotating by `-a` and cutting the forward window `[0, L-a+b)` is the circular window map -/
theorem wrap_remap_eq (L a b : Int) (hb : 0 ≤ b) (hba : b < a) (haL : a ≤ L) (d : List Pos)
    (hpos : ∀ p ∈ d, 0 ≤ p.1 ∧ p.1 < L) :
    filterMapPos (winMap 0 (L - a + b)) (mapPos (rotMap (-a) L) d) = filterMapPos (cwinMap L a b) d := by
  induction d with
  | nil => rfl
  | cons p d ih =>
    have ih' := ih (fun q hq => hpos q (List.mem_cons_of_mem _ hq))
    have hp := hpos p (List.mem_cons_self ..)
    simp only [filterMapPos, mapPos, List.map_cons, List.filterMap_cons] at ih' ⊢
    rw [ih']
    have e : winMap 0 (L - a + b) (rotMap (-a) L p.1) = cwinMap L a b p.1 := by
      unfold cwinMap
      rw [if_neg (by omega)]
      unfold rotMap winMap
      by_cases h1 : a ≤ p.1
      · have e1 : (p.1 + -a) % L = p.1 - a := Int.emod_eq_of_lt (by omega) (by omega)
        rw [e1, if_pos (by omega), if_pos h1]
        congr 1; omega
      · have e1 : (p.1 + -a) % L = p.1 - a + L := by
          have : p.1 + -a = (p.1 - a + L) + (-1) * L := by omega
          rw [this, Int.add_mul_emod_self_right, Int.emod_eq_of_lt (by omega) (by omega)]
        rw [e1, if_neg h1]
        by_cases h2 : p.1 < b
        · rw [if_pos (by omega), if_pos h2]; congr 1; omega
        · rw [if_neg (by omega), if_neg h2]
    rw [e]

/-- the cut list of circular split with at least two distinct cuts: `last, cuts…` -/
theorem split_circular_windows (loc : Seq → List Reg) (s : Seq)
    (h2 : 2 ≤ (sortAscU ((loc s).map cutOf)).length) (c : Int)
    (hc : (sortAscU ((loc s).map cutOf)).getLast? = some c) :
    split loc true s =
      (windows (c :: sortAscU ((loc s).map cutOf))).map fun w => s.slice w.1 w.2 := by
  cases hl : loc s with
  | nil => rw [hl] at h2; simp [sortAscU] at h2
  | cons r0 rest =>
    rw [hl] at h2 hc
    have hne : ¬ ((r0 :: rest).length = 1 ∧ True) := by
      rintro ⟨h1, _⟩
      cases rest with
      | nil => simp [sortAscU, insertAscU] at h2
      | cons _ _ => simp at h1
    have hne2 : ¬ (True ∧ (sortAscU ((r0 :: rest).map cutOf)).length = 1) := by
      rintro ⟨_, h1⟩; omega
    simp only [split, hl]
    rw [if_neg hne, if_neg hne2, hc, ← pieces_eq_map]
    rfl

/-- every element of a non-decreasing list is at most its last element -/
theorem le_getLast (l : List Int) (hs : l.Pairwise (fun x y => x ≤ y)) (c : Int)
    (hc : l.getLast? = some c) (y : Int) (hy : y ∈ l) : y ≤ c := by
  obtain ⟨ini, rfl⟩ := List.getLast?_eq_some_iff.mp hc
  rcases List.mem_append.mp hy with h | h
  · exact (List.pairwise_append.mp hs).2.2 _ h c (by simp)
  · rw [List.mem_singleton.mp h]; exact Int.le_refl _

/-- **the circular windows partition the circle**: for strictly increasing cuts `a < … < c`
inside `[0, L]` (at least two), every position `0 ≤ x < L` lies in exactly one window of
`c, a, …, c` — the wrap-around window `(c, a)` or one of the forward windows -/
theorem cwindow_partition (heads : List Int) (hs : heads.Pairwise (fun x y => x < y))
    (h2 : 2 ≤ heads.length) (c : Int) (hc : heads.getLast? = some c) (x : Int) :
    ∃ w ∈ windows (c :: heads), cwinHas w.1 w.2 x ∧
      ∀ w' ∈ windows (c :: heads), cwinHas w'.1 w'.2 x → w' = w := by
  match heads, h2 with
  | a :: b :: t, _ =>
    have hle : (a :: b :: t).Pairwise (fun x y => x ≤ y) := hs.imp (fun h => Int.le_of_lt h)
    have hce : c = lastFrom b t := by
      have hl := getLast?_lastFrom a (b :: t)
      rw [hc] at hl
      exact Option.some.inj hl
    have hcm : c ∈ b :: t := hce ▸ lastFrom_mem b t
    have hac : a < c := (List.pairwise_cons.mp hs).1 c hcm
    -- forward windows lie inside [a, c)
    have hfw : ∀ v ∈ windows (a :: b :: t), a ≤ v.1 ∧ v.1 ≤ v.2 ∧ v.2 ≤ c := by
      intro v hv
      have hm := mem_windows _ v hv
      refine ⟨?_, window_bounds _ hle v hv, ?_⟩
      · rcases List.mem_cons.mp hm.1 with h | h
        · omega
        · exact (List.pairwise_cons.mp hle).1 _ h
      · exact le_getLast _ hle c hc v.2 (List.mem_of_mem_tail hm.2)
    rw [windows_cons_cons]
    by_cases hx : a ≤ x ∧ x < c
    · obtain ⟨w, hwm, hwx⟩ := window_exists a (b :: t) c x hc hx.1 hx.2
      have hb := hfw w hwm
      refine ⟨w, List.mem_cons_of_mem _ hwm, ?_, ?_⟩
      · unfold cwinHas; rw [if_pos hb.2.1]; exact hwx
      · intro w' hw' hh
        rcases List.mem_cons.mp hw' with rfl | hw'
        · exfalso
          unfold cwinHas at hh
          simp only at hh
          rw [if_neg (by omega)] at hh
          omega
        · have hb' := hfw w' hw'
          unfold cwinHas at hh
          rw [if_pos hb'.2.1] at hh
          exact window_unique _ hle w' w hw' hwm x hh hwx
    · refine ⟨(c, a), List.mem_cons_self .., ?_, ?_⟩
      · unfold cwinHas; simp only; rw [if_neg (by omega)]; omega
      · intro w' hw' hh
        rcases List.mem_cons.mp hw' with rfl | hw'
        · rfl
        · exfalso
          have hb' := hfw w' hw'
          unfold cwinHas at hh
          rw [if_pos hb'.2.1] at hh
          omega

/-! ### the location of a feature in a piece, and its K2 guard -/

/-- the location `gts.Rotate(seq, -a)` gives a feature location (`Expand(0, n)` with the reduced
amount, then `Normalize(L)`) -/
def rotLoc (l : Loc) (a L : Int) : Loc := (l.expand 0 (C04.rotN (-a) L)).normalize L

/-- the K2 guard of the piece for the window `w` of a circular record of length `L`: a forward
window is one `gts.Slice` (two `Expand`s); the window across the origin is `gts.Rotate(seq, -w.1)`
(`Expand`, `Normalize`) followed by the forward `gts.Slice` `[0, L - w.1 + w.2)` -/
def cwinAbs (L : Int) (l : Loc) (w : Int × Int) : Bool :=
  if w.1 ≤ w.2 then expandAbs l w.2 (w.2 - L) || expandAbs (l.expand w.2 (w.2 - L)) 0 (-w.1)
  else expandAbs l 0 (C04.rotN (-w.1) L) || normalizeAbs (l.expand 0 (C04.rotN (-w.1) L)) L ||
    expandAbs (rotLoc l w.1 L) (L - w.1 + w.2) (L - w.1 + w.2 - L) ||
    expandAbs ((rotLoc l w.1 L).expand (L - w.1 + w.2) (L - w.1 + w.2 - L)) 0 (-0)

/-- where circular `gts split` opens the circle when it writes ONE piece: the head of the only
located region, else the only distinct cut -/
def splitOrigin (loc : Seq → List Reg) (s : Seq) : Int :=
  if (loc s).length = 1 then Reg.headList (loc s) else (sortAscU ((loc s).map cutOf)).headD 0

/-- circular split with one located region or one distinct cut writes one piece: the record
re-origined at `splitOrigin` -/
theorem split_circular_one (loc : Seq → List Reg) (s : Seq) (hne : loc s ≠ [])
    (h1 : (loc s).length = 1 ∨ (sortAscU ((loc s).map cutOf)).length = 1) :
    split loc true s = [s.rotate (-(splitOrigin loc s))] := by
  cases hl : loc s with
  | nil => exact absurd hl hne
  | cons r0 rest =>
    rw [hl] at h1
    simp only [split, splitOrigin, hl]
    by_cases hc : (r0 :: rest).length = 1
    · rw [if_pos ⟨hc, trivial⟩, if_pos hc]; rfl
    · rw [if_neg (fun h => hc h.1), if_neg hc]
      rcases h1 with h1 | h1
      · exact absurd h1 hc
      · rw [if_pos ⟨trivial, h1⟩]

end Gts.Cli
