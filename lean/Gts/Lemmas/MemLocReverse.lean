/-
  C11 — `Location.Reverse` as a heap program (`reverseMem`, Gts/Model/MemLoc.lean): fresh, refines
  `Loc.reverse`, total.  The element loop runs from both ends (`ll[l], ll[r] = v[r].Reverse(…),
  v[l].Reverse(…)`); everything else is shared with `Expand` (Gts/Lemmas/MemLocFresh|Refine|Total).
-/
import Gts.Lemmas.MemLocTotal
namespace Gts.Mem
open Heap

/-! ### fresh -/

theorem revLoop_fresh {rec : LHeap → MLoc → Option (MLoc × LHeap)} (hrec : MapFresh rec)
    {h0 : LHeap} (src : Slice) {dst : Slice} (hd : h0.length ≤ dst.arr) (cnt : Nat) :
    ∀ (l r : Nat) (h res : LHeap), revLoop rec src dst cnt l r h = some res → h0 <+: h →
      Closed h0.length h → h0 <+: res ∧ Closed h0.length res := by
  induction cnt with
  | zero =>
    intro l r h res he hp hc
    simp only [revLoop, Option.some.injEq] at he
    subst he
    exact ⟨hp, hc⟩
  | succ cnt ih =>
    intro l r h res he hp hc
    unfold revLoop at he
    split at he
    · obtain ⟨a, a1, a2⟩ := Option.bind_eq_some_iff.1 he
      split at a2
      · obtain ⟨b, b1, b2⟩ := Option.bind_eq_some_iff.1 a2
        have pa := hrec _ _ a a1
        have ca := closed_extend hc pa.pre pa.closed hp.length_le
        have hpa := hp.trans pa.pre
        have pb := hrec _ _ b b1
        have cb := closed_extend ca pb.pre pb.closed hpa.length_le
        have hpb := hpa.trans pb.pre
        have ra : RefsAbove h0.length a.1 := RefsAbove.mono hp.length_le pa.refs
        have rb : RefsAbove h0.length b.1 := RefsAbove.mono hpa.length_le pb.refs
        exact ih _ _ _ _ b2 (frame_store (frame_store hpb hd _ _) hd _ _)
          (closed_store (closed_store cb dst l ra) dst r rb)
      · cases a2
    · cases he

/-- **`Reverse` is fresh** -/
theorem reverseMem_fresh (g : Grow) (len : Int) : ∀ k, MapFresh (reverseMem g len k) := by
  intro k
  induction k with
  | zero => intro h m r he; simp [reverseMem] at he
  | succ k ih =>
    intro h m r he
    cases m with
    | leaf l =>
      simp only [reverseMem, Option.some.injEq] at he
      subst he
      exact post_value h _
    | joined s =>
      simp only [reverseMem] at he
      obtain ⟨h', h1, h2⟩ := Option.bind_eq_some_iff.1 he
      have m0 := frame_mk (List.prefix_refl h) s.len s.len
      have p1 := revLoop_fresh ih s m0.2 _ _ _ _ _ h1 m0.1 (closed_mk (closed_self h) _ _)
      have p2 := joinLocs_fresh g (k + 1) (n := h.length) (Nat.le_refl _) h2 p1.1.length_le p1.2
      exact ⟨p1.1.trans p2.pre, p2.closed, p2.refs⟩
    | ordered s =>
      simp only [reverseMem] at he
      obtain ⟨h', h1, h2⟩ := Option.bind_eq_some_iff.1 he
      have m0 := frame_mk (List.prefix_refl h) s.len s.len
      have p1 := revLoop_fresh ih s m0.2 _ _ _ _ _ h1 m0.1 (closed_mk (closed_self h) _ _)
      have p2 := orderLocs_fresh g (k + 1) (n := h.length) (Nat.le_refl _) h2 p1.1.length_le p1.2
      exact ⟨p1.1.trans p2.pre, p2.closed, p2.refs⟩
    | compl m =>
      simp only [reverseMem] at he
      obtain ⟨r1, h1, h2⟩ := Option.map_eq_some_iff.1 he
      subst h2
      have p := ih h m r1 h1
      exact ⟨p.pre, p.closed, p.refs⟩

/-! ### more fuel, same answer -/

theorem revLoop_le {rec rec' : LHeap → MLoc → Option (MLoc × LHeap)}
    (hrec : ∀ h m r, rec h m = some r → rec' h m = some r) (src dst : Slice) (cnt : Nat) :
    ∀ (l r : Nat) (h res : LHeap), revLoop rec src dst cnt l r h = some res →
      revLoop rec' src dst cnt l r h = some res := by
  induction cnt with
  | zero => intro l r h res he; simpa [revLoop] using he
  | succ cnt ih =>
    intro l r h res he
    cases hl : load h src r with
    | none => simp [revLoop, hl] at he
    | some ur =>
      simp only [revLoop, hl] at he ⊢
      obtain ⟨a, a1, a2⟩ := Option.bind_eq_some_iff.1 he
      refine Option.bind_eq_some_iff.2 ⟨a, hrec _ _ _ a1, ?_⟩
      cases hl2 : load a.2 src l with
      | none => simp [hl2] at a2
      | some ul =>
        simp only [hl2] at a2 ⊢
        obtain ⟨b, b1, b2⟩ := Option.bind_eq_some_iff.1 a2
        exact Option.bind_eq_some_iff.2 ⟨b, hrec _ _ _ b1, ih _ _ _ _ b2⟩

theorem reverseMem_le (g : Grow) (len : Int) : ∀ k k', k ≤ k' → ∀ h m r,
    reverseMem g len k h m = some r → reverseMem g len k' h m = some r := by
  intro k
  induction k with
  | zero => intro k' _ h m r he; simp [reverseMem] at he
  | succ k ih =>
    intro k' hk h m r he
    cases k' with
    | zero => omega
    | succ k' =>
      have hk' : k ≤ k' := by omega
      cases m with
      | leaf l => simpa [reverseMem] using he
      | joined s =>
        simp only [reverseMem] at he ⊢
        obtain ⟨r1, h1, h2⟩ := Option.bind_eq_some_iff.1 he
        exact Option.bind_eq_some_iff.2 ⟨r1, revLoop_le (ih k' hk') _ _ _ _ _ _ _ h1,
          joinLocs_le g (by omega) h2⟩
      | ordered s =>
        simp only [reverseMem] at he ⊢
        obtain ⟨r1, h1, h2⟩ := Option.bind_eq_some_iff.1 he
        exact Option.bind_eq_some_iff.2 ⟨r1, revLoop_le (ih k' hk') _ _ _ _ _ _ _ h1,
          orderLocs_le g (by omega) h2⟩
      | compl m =>
        simp only [reverseMem] at he ⊢
        obtain ⟨r1, h1, h2⟩ := Option.map_eq_some_iff.1 he
        exact Option.map_eq_some_iff.2 ⟨r1, ih k' hk' _ _ _ h1, h2⟩

/-! ### refinement -/

theorem exists_concat {α : Type} : ∀ (l : List α), l ≠ [] → ∃ L b, l = L ++ [b] := by
  intro l hl
  cases hr : l.reverse with
  | nil => exact absurd (List.reverse_eq_nil_iff.1 hr) hl
  | cons b L' =>
    refine ⟨L'.reverse, b, ?_⟩
    have := congrArg List.reverse hr
    simpa using this

theorem cons_replicate_append {α : Type} (x : α) (n : Nat) (ys : List α) :
    x :: (List.replicate n x ++ ys) = List.replicate n x ++ x :: ys := by
  induction n with
  | zero => rfl
  | succ n ih => simp [List.replicate_succ, ih]

theorem ReadsList.split {h : LHeap} : ∀ (a b : List MLoc) (ls : List Loc), ReadsList h ls (a ++ b) →
    ∃ la lb, ls = la ++ lb ∧ ReadsList h la a ∧ ReadsList h lb b
  | [], b, ls, hr => ⟨[], ls, rfl, by simp [ReadsList], hr⟩
  | x :: a, b, ls, hr => by
    cases ls with
    | nil => simp [ReadsList] at hr
    | cons l ls =>
      have h1 := readsList_cons.1 hr
      obtain ⟨la, lb, e, h2, h3⟩ := ReadsList.split a b ls h1.2
      exact ⟨l :: la, lb, by simp [e], readsList_cons.2 ⟨h1.1, h2⟩, h3⟩

theorem reverseList_map (len : Int) : ∀ ls : List Loc,
    Loc.reverseList ls len = ls.map (fun l => l.reverse len)
  | [] => by simp [Loc.reverseList]
  | l :: ls => by simp [Loc.reverseList, reverseList_map len ls]

theorem reverse_contig {l : Loc} (hl : isContig l = true) (len : Int) :
    isContig (l.reverse len) = true := by
  cases l <;> simp [isContig] at hl <;> simp [Loc.reverse, Loc.rangedReverse, isContig]

/-- the loop from both ends.  `P`, `M`, `S`: the parts already taken from the left, the parts still
to do, the parts already taken from the right; the destination shows the reversed images of `S`,
then `|M|` empty cells, then the reversed images of `P`. -/
theorem revLoop_refines {rec : LHeap → MLoc → Option (MLoc × LHeap)} {F : Loc → Loc}
    (hfresh : MapFresh rec) (hrec : MapRefines rec F) {h0 : LHeap} {src dst : Slice}
    (hs : WF h0 src) (hd : dst.arr = h0.length) (cnt : Nat) :
    ∀ (P M S : List MLoc) (lP lM lS : List Loc) (h res : LHeap) (yl yr : List MLoc),
      read h0 src = P ++ M ++ S → ReadsList h0 lP P → ReadsList h0 lM M → ReadsList h0 lS S →
      cnt = (M.length + 1) / 2 → yl.length = P.length → yr.length = P.length →
      revLoop rec src dst cnt P.length (P.length + M.length - 1) h = some res →
      Owned h0 h dst (yl ++ List.replicate M.length default ++ yr) →
      ReadsList h (lS.map F).reverse yl → ReadsList h (lP.map F).reverse yr →
      (∀ c ∈ yl ++ yr, RefsAbove (h0.length + 1) c) → Closed (h0.length + 1) h →
      ∃ ys, Owned h0 res dst ys ∧ ReadsList res ((lP ++ lM ++ lS).map F).reverse ys := by
  induction cnt with
  | zero =>
    intro P M S lP lM lS h res yl yr _ _ hM _ hc _ _ he ho hyl hyr _ _
    have hM0 : M = [] := List.eq_nil_of_length_eq_zero (by omega)
    subst hM0
    have hlM : lM = [] := by
      cases lM with
      | nil => rfl
      | cons a b => simp [ReadsList] at hM
    subst hlM
    simp only [revLoop, Option.some.injEq] at he
    subst he
    refine ⟨yl ++ yr, by simpa using ho, ?_⟩
    simp only [List.append_nil, List.map_append, List.reverse_append]
    exact ReadsList.append hyl hyr
  | succ cnt ih =>
    intro P M S lP lM lS h res yl yr hrd hP hM hS hc hyll hyrl he ho hyl hyr hrefs hcl
    have hp := ho.pre
    have hlen := length_read hs
    rw [hrd] at hlen
    have hMpos : 0 < M.length := by omega
    -- the destination exists in `h`
    have hdl := length_read ho.wf
    rw [ho.rd] at hdl
    have harr : dst.arr < h.length := arr_lt_of_wf ho.wf (by
      have := ho.wf.1; simp at hdl; omega)
    have hN : h0.length + 1 ≤ h.length := by omega
    have hag : ∀ (hh : LHeap) (j : Nat) (x : MLoc) (a : Nat), h0.length + 1 ≤ a →
        (store hh dst j x).get a = hh.get a := by
      intro hh j x a ha
      unfold store
      exact get_write_ne _ _ _ (by omega)
    obtain ⟨ul, M1, eM⟩ : ∃ ul M1, M = ul :: M1 := by
      cases M with
      | nil => simp at hMpos
      | cons a b => exact ⟨a, b, rfl⟩
    by_cases hone : M1 = []
    · -- the middle element of an odd length: both calls on it, the second store wins
      subst hone
      subst eM
      obtain ⟨lu, e⟩ : ∃ lu, lM = [lu] := by
        cases lM with
        | nil => simp [ReadsList] at hM
        | cons a b =>
          cases b with
          | nil => exact ⟨a, rfl⟩
          | cons c d => simp [ReadsList] at hM
      subst e
      have hru := readsList_singleton.1 hM
      have hi : P.length < src.len := by rw [← hlen]; simp
      have hld : ∀ hh : LHeap, h0 <+: hh → load hh src P.length = some ul := by
        intro hh hph
        rw [load_eq_read hi, read_mono hph hs, hrd]; simp
      simp only [List.length_cons, List.length_nil, Nat.zero_add, Nat.add_sub_cancel] at he
      simp only [revLoop, hld h hp] at he
      obtain ⟨a, a1, a2⟩ := Option.bind_eq_some_iff.1 he
      have pa := hfresh _ _ a a1
      simp only [hld a.2 (hp.trans pa.pre)] at a2
      obtain ⟨b, b1, b2⟩ := Option.bind_eq_some_iff.1 a2
      have pb := hfresh _ _ b b1
      have rb := hrec _ _ b lu b1 (Reads.mono (hp.trans pa.pre) _ _ hru)
      have hcnt : cnt = 0 := by simp at hc; omega
      subst hcnt
      simp only [revLoop, Option.some.injEq] at b2
      subst b2
      have ca := closed_extend hcl pa.pre pa.closed hN
      have cb := closed_extend ca pb.pre pb.closed (Nat.le_trans hN pa.pre.length_le)
      have rfb : RefsAbove (h0.length + 1) b.1 :=
        RefsAbove.mono (Nat.le_trans hN pa.pre.length_le) pb.refs
      have hdpos : P.length < dst.len := by
        rw [← hdl]; simp; omega
      have o1 := store_owned ((ho.mono pa.pre).mono pb.pre) P.length a.1 hdpos
      have e1 : overwrite (yl ++ List.replicate 1 default ++ yr) P.length [a.1] = yl ++ [a.1] ++ yr := by
        rw [List.append_assoc, overwrite_after' _ _ _ hyll]; simp
      simp only [List.length_cons, List.length_nil, Nat.zero_add] at o1
      rw [e1] at o1
      have o2 := store_owned o1 P.length b.1 hdpos
      have e2 : overwrite (yl ++ [a.1] ++ yr) P.length [b.1] = yl ++ [b.1] ++ yr := by
        rw [List.append_assoc, overwrite_after' _ _ _ hyll]; simp
      rw [e2] at o2
      refine ⟨_, o2, ?_⟩
      have hpre : h <+: b.2 := pa.pre.trans pb.pre
      have c1 := closed_store cb dst P.length (RefsAbove.mono hN pa.refs)
      have hrd1 : ReadsList b.2 ((lS.map F).reverse ++ [F lu] ++ (lP.map F).reverse) (yl ++ [b.1] ++ yr) :=
        ReadsList.append (ReadsList.append (ReadsList.mono hpre _ _ hyl) (readsList_singleton.2 rb))
          (ReadsList.mono hpre _ _ hyr)
      have hrf : ∀ c ∈ yl ++ [b.1] ++ yr, RefsAbove (h0.length + 1) c := by
        intro c hcm
        simp only [List.mem_append, List.mem_singleton] at hcm
        rcases hcm with (h1 | h1) | h1
        · exact hrefs c (List.mem_append.2 (Or.inl h1))
        · rw [h1]; exact rfb
        · exact hrefs c (List.mem_append.2 (Or.inr h1))
      have f1 := ReadsList.frame (hag b.2 P.length a.1) cb _ _ hrf hrd1
      have f2 := ReadsList.frame (hag _ P.length b.1) c1 _ _ hrf f1
      simpa using f2
    · -- two different elements
      obtain ⟨M2, ur, eM1⟩ := exists_concat M1 hone
      subst eM1
      subst eM
      obtain ⟨lul, lM1, e, hrul, hM1⟩ : ∃ lul lM1, lM = lul :: lM1 ∧ Reads h0 lul ul ∧
          ReadsList h0 lM1 (M2 ++ [ur]) := by
        cases lM with
        | nil => simp [ReadsList] at hM
        | cons a b => exact ⟨a, b, rfl, (readsList_cons.1 hM).1, (readsList_cons.1 hM).2⟩
      subst e
      obtain ⟨lM2, lur', e, hM2, hur'⟩ := ReadsList.split M2 [ur] lM1 hM1
      subst e
      obtain ⟨lur, e⟩ : ∃ lur, lur' = [lur] := by
        cases lur' with
        | nil => simp [ReadsList] at hur'
        | cons a b =>
          cases b with
          | nil => exact ⟨a, rfl⟩
          | cons c d => simp [ReadsList] at hur'
      subst e
      have hrur := readsList_singleton.1 hur'
      have hMl : (ul :: (M2 ++ [ur])).length = M2.length + 2 := by simp
      have hil : P.length < src.len := by rw [← hlen]; simp
      have hir : P.length + M2.length + 1 < src.len := by rw [← hlen]; simp; omega
      have hldl : ∀ hh : LHeap, h0 <+: hh → load hh src P.length = some ul := by
        intro hh hph
        rw [load_eq_read hil, read_mono hph hs, hrd]; simp
      have hldr : ∀ hh : LHeap, h0 <+: hh → load hh src (P.length + M2.length + 1) = some ur := by
        intro hh hph
        rw [load_eq_read hir, read_mono hph hs, hrd]
        have : P ++ ul :: (M2 ++ [ur]) ++ S = (P ++ ul :: M2) ++ ur :: S := by simp
        rw [this, List.getElem?_append_right (by simp; omega)]
        simp
        have : P.length + M2.length + 1 - (P.length + (M2.length + 1)) = 0 := by omega
        rw [this]; rfl
      rw [hMl] at he
      have hr' : P.length + (M2.length + 2) - 1 = P.length + M2.length + 1 := by omega
      rw [hr'] at he
      simp only [revLoop, hldr h hp] at he
      obtain ⟨a, a1, a2⟩ := Option.bind_eq_some_iff.1 he
      have pa := hfresh _ _ a a1
      have ra := hrec _ _ a lur a1 (Reads.mono hp _ _ hrur)
      simp only [hldl a.2 (hp.trans pa.pre)] at a2
      obtain ⟨b, b1, b2⟩ := Option.bind_eq_some_iff.1 a2
      have pb := hfresh _ _ b b1
      have rb := hrec _ _ b lul b1 (Reads.mono (hp.trans pa.pre) _ _ hrul)
      have ca := closed_extend hcl pa.pre pa.closed hN
      have cb := closed_extend ca pb.pre pb.closed (Nat.le_trans hN pa.pre.length_le)
      have rfa : RefsAbove (h0.length + 1) a.1 := RefsAbove.mono hN pa.refs
      have rfb : RefsAbove (h0.length + 1) b.1 :=
        RefsAbove.mono (Nat.le_trans hN pa.pre.length_le) pb.refs
      rw [hMl] at ho hdl
      have hdposl : P.length < dst.len := by rw [← hdl]; simp; omega
      have hdposr : P.length + M2.length + 1 < dst.len := by rw [← hdl]; simp; omega
      have o1 := store_owned ((ho.mono pa.pre).mono pb.pre) P.length a.1 hdposl
      have e1 : overwrite (yl ++ List.replicate (M2.length + 2) default ++ yr) P.length [a.1]
          = (yl ++ [a.1] ++ List.replicate M2.length default) ++ (List.replicate 1 default ++ yr) := by
        rw [List.append_assoc, overwrite_after' _ _ _ hyll]
        simp [List.replicate_succ]
        exact cons_replicate_append _ _ _
      rw [e1] at o1
      have o2 := store_owned o1 (P.length + M2.length + 1) b.1 hdposr
      have e2 : overwrite ((yl ++ [a.1] ++ List.replicate M2.length default) ++ (List.replicate 1 default ++ yr))
          (P.length + M2.length + 1) [b.1]
          = (yl ++ [a.1]) ++ List.replicate M2.length default ++ (b.1 :: yr) := by
        rw [overwrite_after' _ _ _ (by simp [hyll]; omega)]; simp
      rw [e2] at o2
      have hpre : h <+: b.2 := pa.pre.trans pb.pre
      have c1 := closed_store cb dst P.length rfa
      have c2 := closed_store c1 dst (P.length + M2.length + 1) rfb
      have hrf : ∀ c ∈ (yl ++ [a.1]) ++ (b.1 :: yr), RefsAbove (h0.length + 1) c := by
        intro c hcm
        simp only [List.mem_append, List.mem_cons, List.not_mem_nil, or_false] at hcm
        rcases hcm with (h1 | h1) | h1 | h1
        · exact hrefs c (List.mem_append.2 (Or.inl h1))
        · rw [h1]; exact rfa
        · rw [h1]; exact rfb
        · exact hrefs c (List.mem_append.2 (Or.inr h1))
      have hl1 : ReadsList b.2 ((lS.map F).reverse ++ [F lur]) (yl ++ [a.1]) :=
        ReadsList.append (ReadsList.mono hpre _ _ hyl)
          (readsList_singleton.2 (Reads.mono pb.pre _ _ ra))
      have hr1 : ReadsList b.2 (F lul :: (lP.map F).reverse) (b.1 :: yr) :=
        readsList_cons.2 ⟨rb, ReadsList.mono hpre _ _ hyr⟩
      have frame2 : ∀ (ls : List Loc) (ms : List MLoc), (∀ c ∈ ms, RefsAbove (h0.length + 1) c) →
          ReadsList b.2 ls ms →
          ReadsList (store (store b.2 dst P.length a.1) dst (P.length + M2.length + 1) b.1) ls ms := by
        intro ls ms hm hr0
        exact ReadsList.frame (hag _ _ b.1) c1 _ _ hm (ReadsList.frame (hag b.2 _ a.1) cb _ _ hm hr0)
      have := ih (P ++ [ul]) M2 (ur :: S) (lP ++ [lul]) lM2 (lur :: lS) _ res (yl ++ [a.1]) (b.1 :: yr)
        (by simpa using hrd) (ReadsList.append hP (readsList_singleton.2 hrul)) hM2
        (readsList_cons.2 ⟨hrur, hS⟩)
        (by simp only [List.length_cons, List.length_append, List.length_nil] at hc; omega)
        (by simp [hyll]) (by simp [hyrl])
        (by
          have e3 : (P ++ [ul]).length + M2.length - 1 = P.length + M2.length + 1 - 1 := by
            simp only [List.length_append, List.length_cons, List.length_nil]; omega
          simp only [List.length_append, List.length_cons, List.length_nil, Nat.zero_add] at e3 ⊢
          rw [e3]
          exact b2)
        (by simpa using o2)
        (by simpa using frame2 _ _ (fun c hcm => hrf c (List.mem_append.2 (Or.inl hcm))) hl1)
        (by simpa using frame2 _ _ (fun c hcm => hrf c (List.mem_append.2 (Or.inr hcm))) hr1)
        hrf c2
      obtain ⟨ys, oy, hy⟩ := this
      exact ⟨ys, oy, by simpa using hy⟩

/-- what the element loop of `Reverse` leaves in the destination, from the start -/
theorem revLoop_start {rec : LHeap → MLoc → Option (MLoc × LHeap)} {F : Loc → Loc}
    (hfresh : MapFresh rec) (hrec : MapRefines rec F) {h : LHeap} {s : Slice} (hw : WF h s)
    {ls : List Loc} (hl : ReadsList h ls (read h s)) {h' : LHeap}
    (he : revLoop rec s (mk h s.len s.len).1 ((s.len + 1) / 2) 0 (s.len - 1) (mk h s.len s.len).2 = some h') :
    h <+: h' ∧ WF h' (mk h s.len s.len).1 ∧
      ReadsList h' (ls.map F).reverse (read h' (mk h s.len s.len).1) := by
  have hlen := length_read hw
  have o0 := mk_owned (α := MLoc) (List.prefix_refl h) (Nat.le_refl s.len)
  have hc : Closed (h.length + 1) (mk h s.len s.len).2 := by
    have := closed_self (mk h s.len s.len).2
    simpa [mk] using this
  obtain ⟨ys, o, hy⟩ := revLoop_refines hfresh hrec hw (dst := (mk h s.len s.len).1) rfl
    ((s.len + 1) / 2) [] (read h s) [] [] ls [] _ h' [] [] (by simp) (by simp [ReadsList]) hl
    (by simp [ReadsList]) (by rw [hlen]) rfl rfl (by simpa [hlen] using he)
    (by simpa [hlen] using o0) (by simp [ReadsList]) (by simp [ReadsList])
    (fun _ hx => by cases hx) hc
  exact ⟨o.pre, o.wf, by rw [o.rd]; simpa using hy⟩

/-- **`Reverse` on memory is `Loc.reverse` on values** -/
theorem reverseMem_refines (g : Grow) (len : Int) :
    ∀ k, MapRefines (reverseMem g len k) (fun l => l.reverse len) := by
  intro k
  induction k with
  | zero => intro h m r l he; simp [reverseMem] at he
  | succ k ih =>
    intro h m r l he hr
    cases m with
    | leaf l' =>
      obtain ⟨e, hc⟩ := reads_leaf.1 hr
      subst e
      simp only [reverseMem, Option.some.injEq] at he
      subst he
      exact (reads_contig (reverse_contig hc len)).2 rfl
    | joined s =>
      obtain ⟨ls, e, hw, hl⟩ := reads_mjoined hr
      subst e
      simp only [reverseMem] at he
      obtain ⟨h', h1, h2⟩ := Option.bind_eq_some_iff.1 he
      have p1 := revLoop_start (reverseMem_fresh g len k) ih hw hl h1
      have p2 := joinLocs_refines g (k + 1) p1.2.1 p1.2.2 h2
      simpa [Loc.reverse, reverseList_map] using p2.2
    | ordered s =>
      obtain ⟨ls, e, hw, hl⟩ := reads_mordered hr
      subst e
      simp only [reverseMem] at he
      obtain ⟨h', h1, h2⟩ := Option.bind_eq_some_iff.1 he
      have p1 := revLoop_start (reverseMem_fresh g len k) ih hw hl h1
      have p2 := orderLocs_refines g (k + 1) p1.2.1 p1.2.2 h2
      simpa [Loc.reverse, reverseList_map] using p2.2
    | compl m =>
      obtain ⟨l', e, hl⟩ := reads_mcompl hr
      subst e
      simp only [reverseMem] at he
      obtain ⟨r1, h1, h2⟩ := Option.map_eq_some_iff.1 he
      subst h2
      exact reads_compl.2 ⟨_, rfl, ih h m r1 l' h1 hl⟩

/-! ### total -/

theorem revLoop_total {R : Nat → LHeap → MLoc → Option (MLoc × LHeap)}
    (hmono : ∀ k k', k ≤ k' → ∀ h m r, R k h m = some r → R k' h m = some r)
    (hfresh : ∀ k, MapFresh (R k)) {h0 : LHeap} {src dst : Slice} (hs : WF h0 src)
    (hd : h0.length ≤ dst.arr) (cnt : Nat) :
    ∀ (P M S : List MLoc) (lM : List Loc) (h : LHeap), read h0 src = P ++ M ++ S →
      ReadsList h0 lM M → cnt = (M.length + 1) / 2 → h0 <+: h →
      (∀ lu ∈ lM, ∀ h' u, Reads h' lu u → ∃ k r, R k h' u = some r) →
      ∃ k res, revLoop (R k) src dst cnt P.length (P.length + M.length - 1) h = some res := by
  induction cnt with
  | zero => intro P M S lM h _ _ _ _ _; exact ⟨0, _, rfl⟩
  | succ cnt ih =>
    intro P M S lM h hrd hM hc hp htot
    have hlen := length_read hs
    rw [hrd] at hlen
    have hMpos : 0 < M.length := by omega
    obtain ⟨ul, M1, eM⟩ : ∃ ul M1, M = ul :: M1 := by
      cases M with
      | nil => simp at hMpos
      | cons a b => exact ⟨a, b, rfl⟩
    by_cases hone : M1 = []
    · subst hone
      subst eM
      obtain ⟨lu, e⟩ : ∃ lu, lM = [lu] := by
        cases lM with
        | nil => simp [ReadsList] at hM
        | cons a b =>
          cases b with
          | nil => exact ⟨a, rfl⟩
          | cons c d => simp [ReadsList] at hM
      subst e
      have hru := readsList_singleton.1 hM
      have hi : P.length < src.len := by rw [← hlen]; simp
      have hld : ∀ hh : LHeap, h0 <+: hh → load hh src P.length = some ul := by
        intro hh hph
        rw [load_eq_read hi, read_mono hph hs, hrd]; simp
      obtain ⟨k1, a, a1⟩ := htot lu (List.mem_singleton.2 rfl) h ul (Reads.mono hp _ _ hru)
      have pa := hfresh k1 _ _ a a1
      obtain ⟨k2, b, b1⟩ := htot lu (List.mem_singleton.2 rfl) a.2 ul
        (Reads.mono (hp.trans pa.pre) _ _ hru)
      have hcnt : cnt = 0 := by simp at hc; omega
      subst hcnt
      refine ⟨max k1 k2, store (store b.2 dst P.length a.1) dst P.length b.1, ?_⟩
      simp only [List.length_cons, List.length_nil, Nat.zero_add, Nat.add_sub_cancel]
      simp only [revLoop, hld h hp]
      refine Option.bind_eq_some_iff.2 ⟨a, hmono k1 _ (Nat.le_max_left ..) _ _ _ a1, ?_⟩
      simp only [hld a.2 (hp.trans pa.pre)]
      exact Option.bind_eq_some_iff.2 ⟨b, hmono k2 _ (Nat.le_max_right ..) _ _ _ b1, rfl⟩
    · obtain ⟨M2, ur, eM1⟩ := exists_concat M1 hone
      subst eM1
      subst eM
      obtain ⟨lul, lM1, e, hrul, hM1⟩ : ∃ lul lM1, lM = lul :: lM1 ∧ Reads h0 lul ul ∧
          ReadsList h0 lM1 (M2 ++ [ur]) := by
        cases lM with
        | nil => simp [ReadsList] at hM
        | cons a b => exact ⟨a, b, rfl, (readsList_cons.1 hM).1, (readsList_cons.1 hM).2⟩
      subst e
      obtain ⟨lM2, lur', e, hM2, hur'⟩ := ReadsList.split M2 [ur] lM1 hM1
      subst e
      obtain ⟨lur, e⟩ : ∃ lur, lur' = [lur] := by
        cases lur' with
        | nil => simp [ReadsList] at hur'
        | cons a b =>
          cases b with
          | nil => exact ⟨a, rfl⟩
          | cons c d => simp [ReadsList] at hur'
      subst e
      have hrur := readsList_singleton.1 hur'
      have hMl : (ul :: (M2 ++ [ur])).length = M2.length + 2 := by simp
      have hil : P.length < src.len := by rw [← hlen]; simp
      have hir : P.length + M2.length + 1 < src.len := by rw [← hlen]; simp; omega
      have hldl : ∀ hh : LHeap, h0 <+: hh → load hh src P.length = some ul := by
        intro hh hph
        rw [load_eq_read hil, read_mono hph hs, hrd]; simp
      have hldr : ∀ hh : LHeap, h0 <+: hh → load hh src (P.length + M2.length + 1) = some ur := by
        intro hh hph
        rw [load_eq_read hir, read_mono hph hs, hrd]
        have : P ++ ul :: (M2 ++ [ur]) ++ S = (P ++ ul :: M2) ++ ur :: S := by simp
        rw [this, List.getElem?_append_right (by simp; omega)]
        simp
        have : P.length + M2.length + 1 - (P.length + (M2.length + 1)) = 0 := by omega
        rw [this]; rfl
      obtain ⟨k1, a, a1⟩ := htot lur (by simp) h ur (Reads.mono hp _ _ hrur)
      have pa := hfresh k1 _ _ a a1
      obtain ⟨k2, b, b1⟩ := htot lul (by simp) a.2 ul (Reads.mono (hp.trans pa.pre) _ _ hrul)
      have pb := hfresh k2 _ _ b b1
      have hpb : h0 <+: b.2 := (hp.trans pa.pre).trans pb.pre
      obtain ⟨k3, res, e3⟩ := ih (P ++ [ul]) M2 (ur :: S) lM2
        (store (store b.2 dst P.length a.1) dst (P.length + M2.length + 1) b.1)
        (by simpa using hrd) hM2
        (by simp only [List.length_cons, List.length_append, List.length_nil] at hc; omega)
        (frame_store (frame_store hpb hd _ _) hd _ _)
        (fun lu hlu => htot lu (by simp [hlu]))
      refine ⟨max k1 (max k2 k3), res, ?_⟩
      rw [hMl]
      have hr' : P.length + (M2.length + 2) - 1 = P.length + M2.length + 1 := by omega
      rw [hr']
      simp only [revLoop, hldr h hp]
      refine Option.bind_eq_some_iff.2 ⟨a, hmono k1 _ (Nat.le_max_left ..) _ _ _ a1, ?_⟩
      simp only [hldl a.2 (hp.trans pa.pre)]
      refine Option.bind_eq_some_iff.2 ⟨b, hmono k2 _
        (Nat.le_trans (Nat.le_max_left ..) (Nat.le_max_right ..)) _ _ _ b1, ?_⟩
      have e4 : (P ++ [ul]).length + M2.length - 1 = P.length + M2.length + 1 - 1 := by
        simp only [List.length_append, List.length_cons, List.length_nil]; omega
      rw [e4] at e3
      simp only [List.length_append, List.length_cons, List.length_nil, Nat.zero_add] at e3
      exact revLoop_le (hmono k3 _ (Nat.le_trans (Nat.le_max_right ..) (Nat.le_max_right ..)))
        _ _ _ _ _ _ _ e3

/-- **`Reverse` has a result on every readable receiver** -/
theorem reverseMem_total (g : Grow) (len : Int) :
    ∀ l h m, Reads h l m → ∃ k r, reverseMem g len k h m = some r := by
  refine loc_induction ?_ ?_ ?_ ?_
  · intro l hl h m hr
    rw [reads_contig hl] at hr
    subst hr
    exact ⟨1, _, rfl⟩
  · intro ls ih h m hr
    obtain ⟨s, rfl, hw, hl⟩ := reads_joined.1 hr
    have hlen := length_read hw
    have m0 := frame_mk (List.prefix_refl h) s.len s.len
    obtain ⟨k1, h', e1⟩ := revLoop_total (reverseMem_le g len) (reverseMem_fresh g len) hw m0.2
      ((s.len + 1) / 2) [] (read h s) [] ls (mk h s.len s.len).2 (by simp) hl (by rw [hlen]) m0.1 ih
    have e1' : revLoop (reverseMem g len k1) s (mk h s.len s.len).1 ((s.len + 1) / 2) 0 (s.len - 1)
        (mk h s.len s.len).2 = some h' := by simpa [hlen] using e1
    have p1 := revLoop_start (reverseMem_fresh g len k1) (reverseMem_refines g len k1) hw hl e1'
    obtain ⟨k2, r2, e2⟩ := joinLocs_total g p1.2.1 p1.2.2
    refine ⟨max k1 k2 + 1, r2, ?_⟩
    simp only [reverseMem]
    exact Option.bind_eq_some_iff.2 ⟨h', revLoop_le (reverseMem_le g len k1 _ (Nat.le_max_left ..))
      _ _ _ _ _ _ _ e1', joinLocs_le g (by omega) e2⟩
  · intro ls ih h m hr
    obtain ⟨s, rfl, hw, hl⟩ := reads_ordered.1 hr
    have hlen := length_read hw
    have m0 := frame_mk (List.prefix_refl h) s.len s.len
    obtain ⟨k1, h', e1⟩ := revLoop_total (reverseMem_le g len) (reverseMem_fresh g len) hw m0.2
      ((s.len + 1) / 2) [] (read h s) [] ls (mk h s.len s.len).2 (by simp) hl (by rw [hlen]) m0.1 ih
    have e1' : revLoop (reverseMem g len k1) s (mk h s.len s.len).1 ((s.len + 1) / 2) 0 (s.len - 1)
        (mk h s.len s.len).2 = some h' := by simpa [hlen] using e1
    have p1 := revLoop_start (reverseMem_fresh g len k1) (reverseMem_refines g len k1) hw hl e1'
    obtain ⟨k2, r2, e2⟩ := orderLocs_total g p1.2.1 p1.2.2
    refine ⟨max k1 k2 + 1, r2, ?_⟩
    simp only [reverseMem]
    exact Option.bind_eq_some_iff.2 ⟨h', revLoop_le (reverseMem_le g len k1 _ (Nat.le_max_left ..))
      _ _ _ _ _ _ _ e1', orderLocs_le g (by omega) e2⟩
  · intro l ih h m hr
    obtain ⟨m', rfl, hl⟩ := reads_compl.1 hr
    obtain ⟨k, r, e⟩ := ih h m' hl
    exact ⟨k + 1, (.compl r.1, r.2), by simp [reverseMem, e]⟩

end Gts.Mem
