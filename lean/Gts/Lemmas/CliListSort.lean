/-
  Facts about the fixed prelude `Gts/Gen/CliList.lean` of the CLI-step translator: the map-as-set
  insertion `clSetAdd` (keys in order of first insertion: no duplicates, the members are the
  inserted keys), `clSortInts` (= `sort.Ints`: THE ascending permutation), and their meeting point with
  the model's `Cli.sortAscU`: sorting the keys of the set, visited in any order, is `sortAscU` of the
  inserted values.  Core Lean only.
-/
import Gts.Gen.CliList
import Gts.Lemmas.Cli
import Gts.Lemmas.Interval
namespace Gts
open Gts.Gen

theorem clSetAdd_eq (u : List Int) (k : Int) : clSetAdd u k = if k ∈ u then u else u ++ [k] := by
  simp [clSetAdd]

theorem mem_clSetAdd (u : List Int) (k x : Int) : x ∈ clSetAdd u k ↔ x ∈ u ∨ x = k := by
  rw [clSetAdd_eq]
  by_cases h : k ∈ u
  · simp only [h, if_true]
    constructor
    · exact Or.inl
    · rintro (h' | rfl)
      · exact h'
      · exact h
  · simp [h]

theorem clSetAdd_nodup (u : List Int) (k : Int) (h : u.Nodup) : (clSetAdd u k).Nodup := by
  rw [clSetAdd_eq]
  by_cases hc : k ∈ u
  · simp only [hc, if_true]; exact h
  · simp only [hc, if_false]
    rw [List.nodup_append]
    refine ⟨h, by simp, ?_⟩
    intro a ha b hb
    simp only [List.mem_singleton] at hb
    subst hb
    intro e; subst e; exact hc ha

theorem mem_foldl_clSetAdd (xs : List Int) : ∀ (u : List Int) (x : Int),
    x ∈ xs.foldl clSetAdd u ↔ x ∈ u ∨ x ∈ xs := by
  induction xs with
  | nil => intro u x; simp
  | cons a rest ih =>
    intro u x
    simp only [List.foldl_cons, ih, mem_clSetAdd, List.mem_cons]
    constructor
    · rintro ((h | h) | h)
      · exact Or.inl h
      · exact Or.inr (Or.inl h)
      · exact Or.inr (Or.inr h)
    · rintro (h | h | h)
      · exact Or.inl (Or.inl h)
      · exact Or.inl (Or.inr h)
      · exact Or.inr h

theorem foldl_clSetAdd_nodup (xs : List Int) : ∀ (u : List Int), u.Nodup → (xs.foldl clSetAdd u).Nodup := by
  induction xs with
  | nil => intro u h; exact h
  | cons a rest ih => intro u h; exact ih _ (clSetAdd_nodup u a h)

/-! ### `sort.Ints` -/

theorem clInsertInts_perm (x : Int) (l : List Int) : (clInsertInts x l).Perm (x :: l) := by
  induction l with
  | nil => exact List.Perm.refl _
  | cons y ys ih =>
    simp only [clInsertInts]
    split
    · exact List.Perm.refl _
    · exact ((List.Perm.cons y ih).trans (List.Perm.swap x y ys))

theorem clSortInts_perm (l : List Int) : (clSortInts l).Perm l := by
  induction l with
  | nil => exact List.Perm.refl _
  | cons x xs ih => exact (clInsertInts_perm x _).trans (List.Perm.cons x ih)

theorem clInsertInts_sorted (x : Int) (l : List Int) (h : l.Pairwise (· ≤ ·)) :
    (clInsertInts x l).Pairwise (· ≤ ·) := by
  induction l with
  | nil => simp [clInsertInts]
  | cons y ys ih =>
    simp only [clInsertInts]
    split
    · rename_i hxy
      simp only [List.pairwise_cons] at h ⊢
      refine ⟨?_, h⟩
      intro a ha
      rcases List.mem_cons.mp ha with rfl | ha
      · exact hxy
      · exact Int.le_trans hxy (h.1 a ha)
    · rename_i hxy
      simp only [List.pairwise_cons] at h ⊢
      refine ⟨?_, ih h.2⟩
      intro a ha
      rcases List.mem_cons.mp ((clInsertInts_perm x ys).subset ha) with rfl | ha
      · omega
      · exact h.1 a ha

/-- `sort.Ints` yields an ascending list … -/
theorem clSortInts_sorted (l : List Int) : (clSortInts l).Pairwise (· ≤ ·) := by
  induction l with
  | nil => simp [clSortInts]
  | cons x xs ih => exact clInsertInts_sorted x _ ih

/-- … and any ascending permutation of the input is that list (the specification of `sort.Ints`
determines its result) -/
theorem clSortInts_unique (l m : List Int) (hp : m.Perm l) (hs : m.Pairwise (· ≤ ·)) : m = clSortInts l :=
  (hp.trans (clSortInts_perm l).symm).eq_of_pairwise (le := (· ≤ ·)) (fun _ _ _ _ h1 h2 => by omega) hs
    (clSortInts_sorted l)

/-- the keys of the set built from `xs`, visited in ANY order `m`, sorted: the model's `sortAscU xs` -/
theorem clSortInts_keys (xs m : List Int) (hm : m.Perm (xs.foldl clSetAdd [])) :
    clSortInts m = Cli.sortAscU xs := by
  have hn : (clSortInts m).Nodup :=
    ((clSortInts_perm m).trans hm).nodup_iff.mpr (foldl_clSetAdd_nodup xs [] List.nodup_nil)
  have hlt : (clSortInts m).Pairwise (· < ·) := by
    have := (clSortInts_sorted m).and hn
    exact this.imp (fun h => by omega)
  apply sorted_ext hlt (Cli.sortAscU_sorted xs)
  intro x
  rw [Cli.mem_sortAscU, ((clSortInts_perm m).trans hm).mem_iff, mem_foldl_clSetAdd]
  simp

end Gts
