/-
  C01, CRLF input: the composition.  `GenBankParser` on the CRLF translation of the text
  `GenBank.String` wrote (`Origin.crlf t`: every line feed of the file replaced by CR LF, inside
  field texts and qualifier values as well — what a CRLF-translating transport does), followed by any
  further text: the record `readBackC`, the registry and the rest as from the LF text.  `readBackC` is
  `readBack` except for the values that were written between quotes: they come back as their CRLF
  translation (`readFeatureC`); without a line feed in such a value the two records are equal
  (`readBackC_eq_readBack`).  Streams.  Mirrors `GbCompose.lean`, `GbReadWrite.lean`, `GbLearn.lean`.
  Core Lean only.
-/
import Gts.Lemmas.GbCrlfRecord
import Gts.Lemmas.GbLearn
namespace Gts.GenBank
open Gts.Pars

/-! ### the sections of a record -/

theorem headerSecs_okC (f : Fields) (L : Int) (h : headerOk f = true) : ∀ x ∈ headerSecs f, SecOKC L x := by
  simp only [headerOk, Bool.and_eq_true, List.all_eq_true] at h
  obtain ⟨⟨⟨⟨⟨⟨⟨⟨⟨⟨⟨hdef, hacc⟩, hver⟩, hdb⟩, _⟩, hkw⟩, hsp⟩, horg⟩, htax⟩, href⟩, hcom⟩, hext⟩ := h
  intro x hx
  simp only [headerSecs, List.mem_append, List.mem_cons, List.mem_map, List.not_mem_nil, or_false] at hx
  rcases hx with (((((hx | hx | hx) | hx) | (hx | hx)) | hx) | hx) | hx
  · subst hx; exact secDefinition_okC L _ hdef
  · subst hx; exact secAccession_okC L _ hacc
  · subst hx; exact secVersion_okC L _ hver
  · cases hd : f.dblink with
    | nil => rw [hd] at hx; simp at hx
    | cons p ps =>
      rw [hd] at hx hdb
      simp at hx; subst hx
      exact secDblink_okC L p ps hdb
  · subst hx; exact secKeywords_okC L _ hkw
  · subst hx; exact secSource_okC L _ _ _ hsp horg htax
  · obtain ⟨y, hy, rfl⟩ := hx
    exact secReference_okC L y (href y hy)
  · obtain ⟨y, hy, rfl⟩ := hx
    exact secComment_okC L y (hcom y hy)
  · obtain ⟨e, he, rfl⟩ := hx
    have := hext e he
    exact secExtra_okC L _ _ this.1 this.2

theorem tailSecs_okC (f : Fields) (p : Bytes)
    (hc : (if f.contigAcc.isEmpty then decide (f.contigHead = 0 ∧ f.contigTail = 0) else contigOk f) = true)
    (hp : p.all Origin.isBase = true) (hlen : p.length < 10 ^ 9) :
    ∀ x ∈ tailSecs f p, SecOKC (locusLength f p) x := by
  intro x hx
  simp only [tailSecs, List.mem_append] at hx
  rcases hx with hx | hx
  · by_cases hca : f.contigAcc.isEmpty = true
    · simp [hca] at hx
    · simp only [hca, Bool.false_eq_true, if_false, List.mem_singleton] at hx hc
      subst hx; exact secContig_okC _ f hc
  · by_cases hpe : p.isEmpty = true
    · simp [hpe] at hx
    · simp only [hpe, Bool.false_eq_true, if_false, List.mem_singleton] at hx
      subst hx
      have : locusLength f p = (p.length : Int) := by simp [locusLength, hpe]
      rw [this]
      exact secOrigin_okC p (by simpa [List.all_eq_true] using hp) hlen (by
        intro e; apply hpe; simp [e])

/-! ### the FEATURES step -/

theorem loop_featuresC (reg0 reg : Registry) (hs : sameText reg0 reg) (length : Int) (k : Nat) (f : Fields)
    (t : List QFeature) (o : OriginV)
    (ft : QFeature) (fs : List QFeature) (rest : Bytes) (hw : tableWritable reg0 (ft :: fs) = true)
    (hloc : ∀ x ∈ ft :: fs, LocRTC x.loc) (hrest : startsField rest = true) :
    ∃ txt, tableText reg0 (ft :: fs) = .ok txt ∧
      recordLoop length 12 (k + 1) (f, t, o, reg)
          ⟨Origin.crlf (bs "FEATURES             Location/Qualifiers\n" ++ (txt ++ [10])) ++ rest, []⟩ =
        recordLoop length 12 k (f, (ft :: fs).map (readFeatureC reg0), o, learnTable reg (ft :: fs)) ⟨rest, []⟩ := by
  obtain ⟨txt, htxt, _⟩ := features_roundtripC reg0 reg hs ft fs rest [] hw hloc
    (startsField_not_sp 5 (by omega) rest hrest)
  refine ⟨txt, htxt, ?_⟩
  have hrun : ∀ st, featuresField reg
        ⟨Origin.crlf (bs "FEATURES             Location/Qualifiers\n" ++ (txt ++ [10])) ++ rest, st⟩ =
      (.ok ((ft :: fs).map (readFeatureC reg0), learnTable reg (ft :: fs)), ⟨rest, []⟩) := by
    intro st
    obtain ⟨txt', htxt', hr⟩ := features_roundtripC reg0 reg hs ft fs rest st hw hloc
      (startsField_not_sp 5 (by omega) rest hrest)
    rw [htxt] at htxt'
    cases htxt'
    exact hr
  have e0 : bs "FEATURES             Location/Qualifiers\n" = 70 :: bs "EATURES             Location/Qualifiers\n" := by
    decide
  have e3 : Origin.crlf (bs "FEATURES             Location/Qualifiers\n" ++ (txt ++ [10])) ++ rest =
      70 :: (Origin.crlf (bs "EATURES             Location/Qualifiers\n" ++ (txt ++ [10])) ++ rest) := by
    rw [e0, List.cons_append, crlf_cons_ne 70 _ (by decide), List.cons_append]
  have ht : tryAll length 12 (f, t, o, reg)
        ⟨Origin.crlf (bs "FEATURES             Location/Qualifiers\n" ++ (txt ++ [10])) ++ rest, []⟩ =
      (.ok (.parsed (f, (ft :: fs).map (readFeatureC reg0), o, learnTable reg (ft :: fs))), ⟨rest, []⟩) := by
    apply tryAll_at 8 (by omega) length _ _ _ rest [] (by rw [e3]; simp [notNames, fieldNames, bs, List.isPrefixOf])
      featuresSub (by simp [fieldParsers])
    · gsimp [featuresSub, hrun]
    · rfl
  rw [e3] at ht ⊢
  exact loop_step length k _ _ 70 _ rest (by decide) ht

/-! ### the loop over the whole record -/

theorem startsField_endC (rest : Bytes) : startsField (bs "//" ++ 13 :: 10 :: rest) = true := by
  simp [startsField, refStop, refAltList, bs, List.isPrefixOf]

/-- the loop over: header sections, an optional middle section (the feature table), tail sections,
the terminator — of the CRLF file -/
theorem parse_chainC (L : Int) (A B : List Section) (hA : ∀ x ∈ A, SecOKC L x) (hB : ∀ x ∈ B, SecOKC L x)
    (mid : Bytes) (midIters : Nat) (s0 sM : Sub) (rest' : Bytes) (fuel : Nat)
    (hmidStart : ∀ rest, startsField rest = true → startsField (mid ++ rest) = true)
    (hmid : ∀ k rest, startsField rest = true →
      recordLoop L 12 (k + midIters) (secsAct A s0) ⟨mid ++ rest, []⟩ = recordLoop L 12 k sM ⟨rest, []⟩)
    (hfuel : secsIters A + midIters + secsIters B + 1 ≤ fuel) :
    recordLoop L 12 fuel s0
        ⟨Origin.crlf (secsText A) ++ (mid ++ (Origin.crlf (secsText B) ++ (bs "//" ++ 13 :: 10 :: rest'))), []⟩ =
      (.ok (secsAct B sM), ⟨rest', []⟩) := by
  obtain ⟨K, hK⟩ : ∃ K, fuel = (((K + 1) + secsIters B) + midIters) + secsIters A :=
    ⟨fuel - (secsIters A + midIters + secsIters B + 1), by omega⟩
  have h3 := startsField_endC rest'
  have h2 := secsText_startsC L B hB _ h3
  have h1 := hmidStart _ h2
  rw [hK, loop_sectionsC L A hA _ s0 _ h1, hmid _ _ h2, loop_sectionsC L B hB _ sM _ h3, loop_endC]

/-- `GenBankParser` on a CRLF file = LOCUS line, CR LF, then the loop, then the length check -/
theorem genbankParser_of_loopC (reg reg' : Registry) (f fF : Fields) (L : Int) (REST rest' : Bytes)
    (tab : List QFeature) (org : OriginV) (hlocus : locusOk f L = true)
    (hrange : Origin.toOriginLength L ≤ 9223372036854775807) (hmol : isMolecule f.molecule = true)
    (hloop : recordLoop L 12 (2 * REST.length + 2) (startFields f, [], .buffer [], reg) ⟨REST, []⟩ =
      (.ok (fF, tab, org, reg'), ⟨rest', []⟩))
    (hfinal : ¬ (org.len ≠ L ∧ (org.len ≠ 0 ∨ fF.contigAcc.isEmpty = true))) :
    genbankParser reg ⟨locusLine f L ++ 13 :: 10 :: REST, []⟩ = (.ok (⟨fF, tab, org⟩, reg'), ⟨rest', []⟩) := by
  obtain ⟨hL0, htop⟩ := locusOk_parts f L hlocus
  have hl := locus_roundtripC f L REST [] hlocus
  have hneg : ¬ (L < 0 ∨ Origin.toOriginLength L > 9223372036854775807) := by omega
  have htopo := asTopology_text f.topology htop
  simp only [startFields] at hloop
  simp only [genbankParser, P.bind_run, hl, Pars.clear, getS, setS, hneg, if_false, hmol,
    Bool.not_true, Bool.false_eq_true, htopo, hloop]
  rw [if_neg hfinal]
  rfl

/-- the record that comes back from the CRLF file: `readBack` with the table read as `readFeatureC` -/
def readBackC (reg : Registry) (r : Record) (p : Bytes) : Record :=
  ⟨{ r.fields with accession := accessionLine r.fields, region := none },
   r.table.map (readFeatureC reg),
   if p.isEmpty then .buffer [] else .buffer (Origin.originStream p)⟩

theorem readBackC_eq (reg : Registry) (r : Record) (p : Bytes) (tab : List QFeature)
    (hc : (if r.fields.contigAcc.isEmpty then decide (r.fields.contigHead = 0 ∧ r.fields.contigTail = 0)
      else contigOk r.fields) = true)
    (htab : tab = r.table.map (readFeatureC reg)) :
    (⟨(if r.fields.contigAcc.isEmpty then headerRead r.fields
        else { headerRead r.fields with contigAcc := r.fields.contigAcc, contigHead := r.fields.contigHead,
                                        contigTail := r.fields.contigTail }),
      tab, (if p.isEmpty then .buffer [] else .buffer (Origin.originStream p))⟩ : Record) = readBackC reg r p := by
  have h := readBack_eq reg r p (r.table.map (readFeature reg)) hc rfl
  subst htab
  have e := congrArg (fun x : Record => (⟨x.fields, r.table.map (readFeatureC reg), x.origin⟩ : Record)) h
  simpa [readBack, readBackC] using e

/-- the CRLF translation of the whole text of a record -/
theorem crlf_record (ll H mid T rest' : Bytes) (hll : noLF ll) :
    Origin.crlf (ll ++ 10 :: (H ++ (mid ++ (T ++ bs "//\n")))) ++ rest' =
      ll ++ 13 :: 10 :: (Origin.crlf H ++ (Origin.crlf mid ++ (Origin.crlf T ++ (bs "//" ++ 13 :: 10 :: rest')))) := by
  have h1 : Origin.crlf (bs "//\n") = bs "//" ++ [13, 10] := by decide
  simp only [crlf_append, crlf_cons_lf, crlf_noLF ll hll, h1, List.append_assoc, List.cons_append,
    List.nil_append]

theorem locusOk_of_writable (reg : Registry) (r : Record) (p : Bytes) (hw : Writable reg r p = true) :
    locusOk r.fields (locusLength r.fields p) = true := (writable_parts reg r p hw).1

/-- **read (crlf (write r))**, under a registry that writes the same text (`read_write_gen` for the
CRLF file).  `GenBankParser` under `reg` on the CRLF translation of the text `GenBank.String` wrote
under `reg0`, followed by any text `rest'`: it returns `readBackC reg0 r p`, leaves exactly `rest'`,
and ends with `learnTable reg r.table`. -/
theorem read_write_crlf_gen (reg0 reg : Registry) (hs : sameText reg0 reg) (r : Record) (p : Bytes)
    (ho : r.origin = .residues p)
    (hw : Writable reg0 r p = true) (hloc : ∀ x ∈ r.table, LocRTC x.loc) (rest' : Bytes) :
    ∃ t, write reg0 r = .ok t ∧ t ≠ [] ∧
      genbankParser reg ⟨Origin.crlf t ++ rest', []⟩ =
        (.ok (readBackC reg0 r p, learnTable reg r.table), ⟨rest', []⟩) := by
  obtain ⟨hlocus, hrange, hmol, hh, htw, hc, hp, hlen⟩ := writable_parts reg0 r p hw
  obtain ⟨hw1, hw2⟩ := write_eq reg0 r p ho hh hlen
  have hll := locusLine_noLF r.fields (locusLength r.fields p) hlocus
  have hA := headerSecs_okC r.fields (locusLength r.fields p) hh
  have hB := tailSecs_okC r.fields p hc hp hlen
  have hitA := secsIters_leC _ _ hA
  have hitB := secsIters_leC _ _ hB
  have hlA := crlf_length_ge (secsText (headerSecs r.fields))
  have hlB := crlf_length_ge (secsText (tailSecs r.fields p))
  have hsA : secsAct (headerSecs r.fields) (startFields r.fields, [], .buffer [], reg) =
      (headerRead r.fields, [], .buffer [], reg) :=
    secsAct_header r.fields (startFields r.fields) [] (.buffer []) reg (headerOk_distinct _ hh)
      (by simp [startFields, Fields.empty])
  have hfin : ∀ (tab : List QFeature) (reg' : Registry) (REST : Bytes),
      recordLoop (locusLength r.fields p) 12 (2 * REST.length + 2) (startFields r.fields, [], .buffer [], reg) ⟨REST, []⟩ =
        (.ok (secsAct (tailSecs r.fields p)
          (headerRead r.fields,
            tab, .buffer [], reg')), ⟨rest', []⟩) →
      tab = r.table.map (readFeatureC reg0) →
      genbankParser reg ⟨locusLine r.fields (locusLength r.fields p) ++ 13 :: 10 :: REST, []⟩ =
        (.ok (readBackC reg0 r p, reg'), ⟨rest', []⟩) := by
    intro tab reg' REST hloop htab
    rw [secsAct_tail] at hloop
    have := genbankParser_of_loopC reg reg' r.fields _ (locusLength r.fields p) REST rest' tab _ hlocus hrange hmol hloop (by
      by_cases hpe : p.isEmpty = true
      · simp only [hpe, if_true, OriginV.len, Origin.originLen, List.length_nil, if_true]
        by_cases hca : r.fields.contigAcc.isEmpty = true
        · simp only [hca, if_true, decide_eq_true_eq] at hc
          have : locusLength r.fields p = 0 := by
            simp [locusLength, hpe, contigLen, hc.1, hc.2]
          simp [this]
        · simp [hca]
      · simp only [hpe, Bool.false_eq_true, if_false, OriginV.len, originLen_stream p hlen]
        have : locusLength r.fields p = (p.length : Int) := by simp [locusLength, hpe]
        simp [this])
    rw [this, readBackC_eq reg0 r p tab hc htab]
  cases htab : r.table with
  | nil =>
    refine ⟨_, hw1 htab, by simp, ?_⟩
    have e : locusLine r.fields (locusLength r.fields p) ++ 10 ::
        (secsText (headerSecs r.fields) ++ (secsText (tailSecs r.fields p) ++ bs "//\n")) =
        locusLine r.fields (locusLength r.fields p) ++ 10 ::
        (secsText (headerSecs r.fields) ++ ([] ++ (secsText (tailSecs r.fields p) ++ bs "//\n"))) := by
      simp
    rw [e, crlf_record _ _ _ _ _ hll]
    have := hfin [] reg _ (by
      rw [← hsA]
      exact parse_chainC _ _ _ hA hB (Origin.crlf []) 0 _ _ rest' _ (fun rest h => by simpa [Origin.crlf] using h)
        (fun k rest _ => by simp [Origin.crlf]) (by
          simp only [List.length_append, Origin.crlf, List.nil_append] at hitA hitB ⊢
          omega)) (by simp [htab])
    simpa [learnTable] using this
  | cons ft fs =>
    rw [htab] at htw hloc
    simp only at htw
    obtain ⟨txt, htxt, _⟩ := loop_featuresC reg0 reg hs (locusLength r.fields p) 0 (startFields r.fields) []
      (.buffer []) ft fs (bs "//" ++ 13 :: 10 :: []) htw hloc (startsField_endC [])
    refine ⟨_, hw2 ft fs txt htab htxt, by simp, ?_⟩
    have e : locusLine r.fields (locusLength r.fields p) ++ 10 ::
        (secsText (headerSecs r.fields) ++ (bs "FEATURES             Location/Qualifiers\n" ++ (txt ++ 10 ::
          (secsText (tailSecs r.fields p) ++ bs "//\n")))) =
        locusLine r.fields (locusLength r.fields p) ++ 10 ::
        (secsText (headerSecs r.fields) ++ ((bs "FEATURES             Location/Qualifiers\n" ++ (txt ++ [10])) ++
          (secsText (tailSecs r.fields p) ++ bs "//\n"))) := by
      simp [List.append_assoc]
    rw [e, crlf_record _ _ _ _ _ hll]
    have hmid : ∀ k rest, startsField rest = true →
        recordLoop (locusLength r.fields p) 12 (k + 1) (secsAct (headerSecs r.fields) (startFields r.fields, [], .buffer [], reg))
          ⟨Origin.crlf (bs "FEATURES             Location/Qualifiers\n" ++ (txt ++ [10])) ++ rest, []⟩ =
        recordLoop (locusLength r.fields p) 12 k
          (headerRead r.fields,
            (ft :: fs).map (readFeatureC reg0), .buffer [], learnTable reg (ft :: fs)) ⟨rest, []⟩ := by
      intro k rest hrest
      rw [hsA]
      obtain ⟨txt', htxt', hl⟩ := loop_featuresC reg0 reg hs (locusLength r.fields p) k _ [] (.buffer []) ft fs rest
        htw hloc hrest
      rw [htxt] at htxt'
      cases htxt'
      exact hl
    have e0 : bs "FEATURES             Location/Qualifiers\n" = 70 :: bs "EATURES             Location/Qualifiers\n" := by
      decide
    have := hfin ((ft :: fs).map (readFeatureC reg0)) (learnTable reg (ft :: fs)) _
      (parse_chainC _ _ _ hA hB _ 1 _ _ rest' _ (fun rest _ => by
          rw [e0, List.cons_append, crlf_cons_ne 70 _ (by decide), List.cons_append]
          simp [startsField, refStop, refAltList, bs, List.isPrefixOf]; decide) hmid (by
          have := mid_length_pos txt
          have hm := crlf_length_ge (bs "FEATURES             Location/Qualifiers\n" ++ (txt ++ [10]))
          simp only [List.length_append] at hitA hitB this hm ⊢
          omega)) (by simp [htab])
    exact this

/-! ### when the two readings agree -/

/-- no value that is written between quotes (name registered as quoted, or unknown) contains a line
feed — the guard under which the CRLF file reads exactly like the LF file (decidable) -/
def quotedOneLine (reg : Registry) (fs : List QFeature) : Bool :=
  fs.all fun f => (propsItems f.props).all fun kv =>
    match reg.typeOf kv.1 with
    | .literal => true
    | .toggle => true
    | _ => kv.2.all fun c => c != 10

theorem crlfValue_eq (reg : Registry) (n v : Bytes)
    (h : (match reg.typeOf n with
      | .literal => true
      | .toggle => true
      | _ => v.all fun c => c != 10) = true) : crlfValue reg n v = v := by
  unfold crlfValue
  cases ht : reg.typeOf n <;> rw [ht] at h <;> simp only at h ⊢
  all_goals exact crlf_noLF v (noLF_of_all v h)

theorem readFeatureC_eq (reg : Registry) (fs : List QFeature) (h : quotedOneLine reg fs = true) :
    fs.map (readFeatureC reg) = fs.map (readFeature reg) := by
  simp only [quotedOneLine, List.all_eq_true] at h
  apply List.map_congr_left
  intro f hf
  have hf' := h f hf
  simp only [readFeatureC, readFeature, readItemsC, readItems]
  congr 2
  apply List.map_congr_left
  intro kv hkv
  rw [crlfValue_eq reg kv.1 kv.2 (hf' kv hkv)]

/-- under the guard the record read from the CRLF file is the record read from the LF file -/
theorem readBackC_eq_readBack (reg : Registry) (r : Record) (p : Bytes) (h : quotedOneLine reg r.table = true) :
    readBackC reg r p = readBack reg r p := by
  simp only [readBackC, readBack, readFeatureC_eq reg r.table h]

/-! ### streams -/

theorem parseAll_records_crlf (reg0 : Registry) (rs : List (Record × Bytes))
    (hall : ∀ x ∈ rs, x.1.origin = .residues x.2 ∧ Writable reg0 x.1 x.2 = true ∧ (∀ f ∈ x.1.table, LocRTC f.loc))
    (reg : Registry) (hs : sameText reg0 reg) (acc : List Record) (fuel : Nat) (hf : rs.length < fuel) :
    ∃ t, writeAll reg0 (rs.map (·.1)) = .ok t ∧ rs.length ≤ (Origin.crlf t).length ∧
      parseAll reg fuel (Origin.crlf t) acc =
        some (acc.reverse ++ rs.map (fun x => readBackC reg0 x.1 x.2), learnStream reg (rs.map (·.1)), true) := by
  induction rs generalizing reg acc fuel with
  | nil =>
    cases fuel with
    | zero => omega
    | succ k => exact ⟨[], rfl, by simp, by simp [parseAll, learnStream, Origin.crlf]⟩
  | cons x rs ih =>
    cases fuel with
    | zero => omega
    | succ k =>
      obtain ⟨ho, hw, hloc⟩ := hall x (by simp)
      obtain ⟨t2, hw2, hl2, hp2⟩ := ih (fun y hy => hall y (by simp [hy])) (learnTable reg x.1.table)
        (sameText_learnTable reg0 reg x.1.table hs) (readBackC reg0 x.1 x.2 :: acc) k
        (by simp only [List.length_cons] at hf; omega)
      obtain ⟨t1, hw1, hne, hp1⟩ := read_write_crlf_gen reg0 reg hs x.1 x.2 ho hw hloc (Origin.crlf t2)
      have hne1 := crlf_ne_nil t1 hne
      refine ⟨t1 ++ t2, ?_, ?_, ?_⟩
      · simp only [List.map_cons, writeAll, hw1, hw2]; rfl
      · rw [crlf_append]
        have : 1 ≤ (Origin.crlf t1).length := by
          cases hc : Origin.crlf t1 with | nil => exact absurd hc hne1 | cons _ _ => simp
        simp only [List.length_cons, List.length_append]; omega
      · rw [crlf_append]
        have hne' : (Origin.crlf t1 ++ Origin.crlf t2).isEmpty = false := by
          cases hc : Origin.crlf t1 with | nil => exact absurd hc hne1 | cons _ _ => rfl
        simp only [parseAll, hne', Bool.false_eq_true, if_false, P.run', ExceptT.run, StateT.run] at hp2 ⊢
        have hp1' : (genbankParser reg) ⟨Origin.crlf t1 ++ Origin.crlf t2, []⟩ =
            (.ok (readBackC reg0 x.1 x.2, learnTable reg x.1.table), ⟨Origin.crlf t2, []⟩) := hp1
        rw [show (genbankParser reg : PS → _) ⟨Origin.crlf t1 ++ Origin.crlf t2, []⟩ = _ from hp1']
        simp only [hp2]
        simp [learnStream]

/-- **Streams, CRLF file.**  The records are written one after the other under `reg0`; the CRLF
translation of the whole stream is read by `GenBankParser` until the input is used up, starting from
any registry `reg` that writes the same text and carrying what each record teaches to the next:
exactly the records, each as `readBackC reg0`, no error, the final registry as from the LF stream. -/
theorem read_stream_crlf_learning (reg0 reg : Registry) (hs : sameText reg0 reg) (rs : List (Record × Bytes))
    (hall : ∀ x ∈ rs, x.1.origin = .residues x.2 ∧ Writable reg0 x.1 x.2 = true ∧ (∀ f ∈ x.1.table, LocRTC f.loc)) :
    ∃ t, writeAll reg0 (rs.map (·.1)) = .ok t ∧
      readAll reg (Origin.crlf t) =
        some (rs.map (fun x => readBackC reg0 x.1 x.2), learnStream reg (rs.map (·.1)), true) := by
  obtain ⟨t, hw, hl, _⟩ := parseAll_records_crlf reg0 rs hall reg hs [] (rs.length + 1) (by omega)
  obtain ⟨t', hw', _, hp⟩ := parseAll_records_crlf reg0 rs hall reg hs [] ((Origin.crlf t).length + 1) (by omega)
  rw [hw] at hw'
  cases hw'
  exact ⟨t, hw, by simpa [readAll] using hp⟩

end Gts.GenBank
