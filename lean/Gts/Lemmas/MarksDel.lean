/-
  Outer partial markers under deletion (`Expand(i, -k)`, `k > 0`): `delMarks i k l` says, leaf by
  leaf, which markers the result carries (a leaf that loses every residue becomes a between-site
  and carries none; a range that loses its first / last residue becomes 5' / 3' partial);
  `marks (expand l i (-k)) = delMarks i k l` for every kind and arity unless a marker-moving rule
  of `Push` fires.  Core Lean only.
-/
import Gts.Lemmas.MarksPush
import Gts.Lemmas.Delete
import Gts.Lemmas.OuterLeaves
namespace Gts
namespace Loc

mutual
/-- the outer markers after deleting `[i, i+k)`, by structural recursion over the original -/
def delMarks (i k : Int) : Loc → Mk
  | between _ => none
  | point p => if i ≤ p ∧ p < i + k then none else some (false, false)
  | ranged s e p5 p3 =>
      if delStart s i k = delEnd e i k then none
      else some (p5 || decide (i ≤ s ∧ s < i + k), p3 || decide (i < e ∧ e ≤ i + k))
  | ambiguous s e => if delStart s i k = delEnd e i k then none else some (false, false)
  | joined ls => delMarksList i k ls
  | ordered ls => delMarksList i k ls
  | compl l => mswap (delMarks i k l)
def delMarksList (i k : Int) : List Loc → Mk
  | [] => none
  | l :: ls => mcomb (delMarks i k l) (delMarksList i k ls)
end

section
variable (i k : Int)
@[simp] theorem delMarks_between (p : Int) : delMarks i k (between p) = none := by simp [delMarks]
@[simp] theorem delMarks_point (p : Int) :
    delMarks i k (point p) = if i ≤ p ∧ p < i + k then none else some (false, false) := by
  simp [delMarks]
@[simp] theorem delMarks_ranged (s e : Int) (p5 p3 : Bool) :
    delMarks i k (ranged s e p5 p3) =
      if delStart s i k = delEnd e i k then none
      else some (p5 || decide (i ≤ s ∧ s < i + k), p3 || decide (i < e ∧ e ≤ i + k)) := by
  simp [delMarks]
@[simp] theorem delMarks_ambiguous (s e : Int) :
    delMarks i k (ambiguous s e) =
      if delStart s i k = delEnd e i k then none else some (false, false) := by
  simp [delMarks]
@[simp] theorem delMarks_joined (ls : List Loc) : delMarks i k (joined ls) = delMarksList i k ls := by
  simp [delMarks]
@[simp] theorem delMarks_ordered (ls : List Loc) : delMarks i k (ordered ls) = delMarksList i k ls := by
  simp [delMarks]
@[simp] theorem delMarks_compl (l : Loc) : delMarks i k (compl l) = mswap (delMarks i k l) := by
  simp [delMarks]
@[simp] theorem delMarksList_nil : delMarksList i k [] = none := by simp [delMarksList]
@[simp] theorem delMarksList_cons (l : Loc) (ls : List Loc) :
    delMarksList i k (l :: ls) = mcomb (delMarks i k l) (delMarksList i k ls) := by
  simp [delMarksList]
end

/-! ### contiguous kinds -/

theorem marks_pointExpand_del (p i k : Int) (hk : 0 < k) :
    marks (pointExpand p i (-k)) = delMarks i k (point p) := by
  unfold pointExpand
  by_cases h : -k < 0 ∧ i ≤ p ∧ p < i - -k
  · rw [if_pos h]
    have : i ≤ p ∧ p < i + k := by omega
    simp [this]
  · rw [if_neg h]
    have : ¬ (i ≤ p ∧ p < i + k) := by omega
    simp [this]

theorem marks_rangedExpand_del (s e : Int) (a b : Bool) (i k : Int) (h : s < e) (hk : 0 < k) :
    marks (rangedExpand s e a b i (-k)) = delMarks i k (ranged s e a b) := by
  rw [rangedExpand_del_eq _ _ _ _ _ _ hk, delMarks_ranged]
  have hle := delStart_le_delEnd s e i k h hk
  by_cases hc : delStart s i k = delEnd e i k
  · simp [hc]
  · have hlt : delStart s i k < delEnd e i k := by omega
    rw [if_neg hc, if_neg hc, marks_ranged, if_pos hlt]
    by_cases c1 : i ≤ s ∧ s < i + k <;> by_cases c2 : i < e ∧ e ≤ i + k <;> simp [c1, c2]

theorem marks_ambiguousExpand_del (s e i k : Int) (hk : 0 < k) :
    marks (ambiguousExpand s e i (-k)) = delMarks i k (ambiguous s e) := by
  rw [ambiguousExpand_del_eq _ _ _ _ hk, delMarks_ambiguous]
  by_cases hc : delStart s i k = delEnd e i k
  · simp [hc]
  · simp [hc]

/-! ### every kind and arity -/

mutual
theorem expand_del_marks_aux : ∀ (l : Loc) (i k : Int), wf l = true → 0 < k →
    expandMarkAbs l i (-k) = false → marks (expand l i (-k)) = delMarks i k l
  | between p, i, k, _, _, _ => by simp [expand, betweenExpand]
  | point p, i, k, _, hk, _ => by simpa [expand] using marks_pointExpand_del p i k hk
  | ranged s e a b, i, k, hw, hk, _ => by
      have h : s < e := by simpa [wf] using hw
      simpa only [expand] using marks_rangedExpand_del s e a b i k h hk
  | ambiguous s e, i, k, _, hk, _ => by
      simpa only [expand] using marks_ambiguousExpand_del s e i k hk
  | joined ls, i, k, hw, hk, hg => by
      have hw' : wfList ls = true := by simpa [wf] using hw
      simp only [expandMarkAbs, Bool.or_eq_false_iff] at hg
      simp only [expand, delMarks_joined]
      rw [join_marks _ (rwfList_of_wfList _ (expandList_del ls i k hw' hk).2) hg.2]
      exact expandList_del_marks_aux ls i k hw' hk hg.1
  | ordered ls, i, k, hw, hk, hg => by
      have hw' : wfList ls = true := by simpa [wf] using hw
      simp only [expandMarkAbs] at hg
      simp only [expand, delMarks_ordered, order_marks]
      exact expandList_del_marks_aux ls i k hw' hk hg
  | compl l, i, k, hw, hk, hg => by
      simp only [expandMarkAbs] at hg
      simp only [expand, marks_compl, delMarks_compl]
      rw [expand_del_marks_aux l i k (by simpa [wf] using hw) hk hg]
theorem expandList_del_marks_aux : ∀ (ls : List Loc) (i k : Int), wfList ls = true → 0 < k →
    expandMarkAbsList ls i (-k) = false → marksList (expandList ls i (-k)) = delMarksList i k ls
  | [], _, _, _, _, _ => by simp [expandList]
  | l :: ls, i, k, hw, hk, hg => by
      simp only [wfList_cons, Bool.and_eq_true] at hw
      simp only [expandMarkAbsList, Bool.or_eq_false_iff] at hg
      simp only [expandList, marksList_cons, delMarksList_cons]
      rw [expand_del_marks_aux l i k hw.1 hk hg.1, expandList_del_marks_aux ls i k hw.2 hk hg.2]
end

/-! ### the outer ends: `delMarks` in terms of the outer leaves -/

/-- markers of one leaf after the deletion, on its reading strand -/
def leafDel (i k : Int) (d : DL) : Mk := if d.2 then mswap (delMarks i k d.1) else delMarks i k d.1

theorem leafDel_dflip (i k : Int) (d : DL) : leafDel i k (dflip d) = mswap (leafDel i k d) := by
  obtain ⟨l, b⟩ := d
  cases b <;> simp [leafDel, dflip]

/-- what the outer leaves say about `delMarks`: an outer leaf that keeps a residue decides the
marker on its end -/
def OuterDel (i k : Int) (o : OL) (m : Mk) : Prop :=
  match o with
  | none => m = none
  | some (a, b) => (∀ x, leafDel i k a = some x → m.map Prod.fst = some x.1) ∧
      (∀ x, leafDel i k b = some x → m.map Prod.snd = some x.2)

theorem OuterDel.append {i k : Int} {o1 o2 : OL} {m1 m2 : Mk} (h1 : OuterDel i k o1 m1)
    (h2 : OuterDel i k o2 m2) : OuterDel i k (ocomb o1 o2) (mcomb m1 m2) := by
  cases o1 with
  | none =>
    simp only [OuterDel] at h1
    subst h1
    simpa using h2
  | some x =>
    obtain ⟨a, b⟩ := x
    cases o2 with
    | none =>
      simp only [OuterDel] at h2
      subst h2
      simpa using h1
    | some y =>
      obtain ⟨c, d⟩ := y
      simp only [OuterDel] at h1 h2 ⊢
      simp only [ocomb]
      refine ⟨fun x hx => ?_, fun x hx => ?_⟩
      · have := h1.1 x hx
        cases m1 with
        | none => simp at this
        | some u => cases m2 <;> simpa [mcomb] using this
      · have := h2.2 x hx
        cases m2 with
        | none => simp at this
        | some u => cases m1 <;> simpa [mcomb] using this

theorem OuterDel.flip {i k : Int} {o : OL} {m : Mk} (h : OuterDel i k o m) :
    OuterDel i k (oswap o) (mswap m) := by
  cases o with
  | none =>
    simp only [OuterDel] at h
    subst h
    simp [OuterDel]
  | some x =>
    obtain ⟨a, b⟩ := x
    simp only [OuterDel] at h
    simp only [oswap, OuterDel, leafDel_dflip]
    refine ⟨fun x hx => ?_, fun x hx => ?_⟩
    · have hb : leafDel i k b = some (x.2, x.1) := by
        cases hl : leafDel i k b with
        | none => rw [hl] at hx; simp at hx
        | some u => rw [hl] at hx; simp at hx; simp [← hx]
      have := h.2 _ hb
      cases m <;> simpa using this
    · have ha : leafDel i k a = some (x.2, x.1) := by
        cases hl : leafDel i k a with
        | none => rw [hl] at hx; simp at hx
        | some u => rw [hl] at hx; simp at hx; simp [← hx]
      have := h.1 _ ha
      cases m <;> simpa using this

theorem OuterDel.leaf (i k : Int) (l : Loc) :
    OuterDel i k (some ((l, false), (l, false))) (delMarks i k l) := by
  simp only [OuterDel, leafDel]
  refine ⟨fun x hx => ?_, fun x hx => ?_⟩ <;> simp at hx <;> simp [hx]

mutual
theorem outerDel (i k : Int) : ∀ (l : Loc), wf l = true → OuterDel i k (ol l) (delMarks i k l)
  | between p, _ => by simp [OuterDel]
  | point p, _ => by rw [ol_point]; exact OuterDel.leaf i k _
  | ranged s e a b, h => by
      have h' : s < e := by simpa [wf] using h
      rw [ol_ranged, if_pos h']; exact OuterDel.leaf i k _
  | ambiguous s e, _ => by rw [ol_ambiguous]; exact OuterDel.leaf i k _
  | joined ls, h => by simpa using outerDelList i k ls (by simpa [wf] using h)
  | ordered ls, h => by simpa using outerDelList i k ls (by simpa [wf] using h)
  | compl l, h => by
      rw [ol_compl, delMarks_compl]
      exact (outerDel i k l (by simpa [wf] using h)).flip
theorem outerDelList (i k : Int) : ∀ (ls : List Loc), wfList ls = true →
    OuterDel i k (olList ls) (delMarksList i k ls)
  | [], _ => by simp [OuterDel]
  | l :: ls, h => by
      simp only [wfList_cons, Bool.and_eq_true] at h
      rw [olList_cons, delMarksList_cons]
      exact (outerDel i k l h.1).append (outerDelList i k ls h.2)
end

/-! ### the statement of the oracle: "an end whose residues were cut off becomes partial" -/

/-- is the residue (if any) inside the removed span `[i, i+k)`? -/
def remAt (i k : Int) (o : Option Pos) : Bool :=
  match o with
  | some y => decide (i ≤ y.1 ∧ y.1 < i + k)
  | none => false

def isRanged : Loc → Bool
  | ranged _ _ _ _ => true
  | _ => false

/-- a leaf that keeps at least one residue when `[i, i+k)` is deleted -/
def leafKept (i k : Int) (d : DL) : Bool := !(filterMapPos (delMap i k) (den d.1)).isEmpty

/-- the oracle's applicability test for the 5' clause: the first residue-bearing leaf in reading
order is a `Ranged` that keeps at least one residue -/
def outer5Kept (l : Loc) (i k : Int) : Bool :=
  match outerLeaves l with
  | some (a, _) => isRanged a.1 && leafKept i k a
  | none => false

/-- … for the 3' clause: the last residue-bearing leaf is a `Ranged` that keeps a residue -/
def outer3Kept (l : Loc) (i k : Int) : Bool :=
  match outerLeaves l with
  | some (_, b) => isRanged b.1 && leafKept i k b
  | none => false

theorem getLast?_irange (s : Int) (m : Nat) : (irange s (m + 1)).getLast? = some (s + m) := by
  rw [← irange_append s m 1]
  simp

/-- a `Ranged` outer leaf that keeps a residue: its markers after the deletion are its own,
or-ed with "my first / last residue (on my reading strand) was removed" -/
theorem ranged_leafDel (s e : Int) (p5 p3 rev : Bool) (i k : Int) (hk : 0 < k)
    (hne : leafDen (ranged s e p5 p3, rev) ≠ [])
    (hkeep : leafKept i k (ranged s e p5 p3, rev) = true) :
    leafDel i k (ranged s e p5 p3, rev) =
      some (mark5 (ranged s e p5 p3, rev) || remAt i k (leafDen (ranged s e p5 p3, rev)).head?,
            mark3 (ranged s e p5 p3, rev) || remAt i k (leafDen (ranged s e p5 p3, rev)).getLast?) := by
  have hse : s < e := by
    by_cases h : s < e
    · exact h
    · exfalso
      apply hne
      have : (e - s).toNat = 0 := by omega
      cases rev <;> simp [leafDen, this, fwd, flipDen]
  obtain ⟨m, hm⟩ : ∃ m, (e - s).toNat = m + 1 := ⟨(e - s).toNat - 1, by omega⟩
  have hne' : delStart s i k ≠ delEnd e i k := by
    intro heq
    simp only [leafKept, den_ranged, filterMapPos_fwd, filterMap_delMap_irange s e i k hse hk, heq] at hkeep
    simp [fwd] at hkeep
  have hhead : (fwd (irange s (m + 1))).head? = some (s, false) := by simp [fwd]
  have hlast : (fwd (irange s (m + 1))).getLast? = some (s + m, false) := by
    simp only [fwd, List.getLast?_map, getLast?_irange, Option.map_some]
  have e1 : decide (i ≤ s + ↑m ∧ s + ↑m < i + k) = decide (i < e ∧ e ≤ i + k) := by
    apply decide_eq_decide.mpr
    constructor <;> intro h <;> omega
  cases rev
  · simp only [leafDel, delMarks_ranged, if_neg hne', leafDen, den_ranged, hm, mark5, mark3,
      Bool.false_eq_true, if_false, hhead, hlast, remAt, e1]
  · simp only [leafDel, delMarks_ranged, if_neg hne', leafDen, den_ranged, hm, mark5, mark3,
      if_true, mswap_some, head?_flipDen, getLast?_flipDen, hhead, hlast, Option.map_some, remAt, e1]

/-- both outer ends at once, in terms of `marks` -/
theorem expand_del_outer (l : Loc) (i k : Int) (hw : wf l = true) (hk : 0 < k)
    (hg : expandMarkAbs l i (-k) = false) :
    (outer5Kept l i k = true →
      (outerMarks (expand l i (-k))).1 = ((outerMarks l).1 || remAt i k (den l).head?)) ∧
    (outer3Kept l i k = true →
      (outerMarks (expand l i (-k))).2 = ((outerMarks l).2 || remAt i k (den l).getLast?)) := by
  have hm := expand_del_marks_aux l i k hw hk hg
  have hod := outerDel i k l hw
  have hden := outerDen l hw
  rw [outerMarks_eq (expand l i (-k)), hm]
  unfold outer5Kept outer3Kept outerMarks
  rw [outerLeaves_eq]
  cases hol : ol l with
  | none => simp
  | some ab =>
    obtain ⟨a, b⟩ := ab
    rw [hol] at hod hden
    simp only [OuterDel] at hod
    simp only [OuterDen] at hden
    obtain ⟨hna, hnb, hh, hl⟩ := hden
    simp only [Bool.and_eq_true]
    constructor
    · rintro ⟨hr, hkeep⟩
      obtain ⟨al, rev⟩ := a
      cases al <;> simp only [isRanged, Bool.false_eq_true] at hr
      rename_i s e p5 p3
      have := hod.1 _ (ranged_leafDel s e p5 p3 rev i k hk hna hkeep)
      rw [hh]
      cases hdm : delMarks i k l with
      | none => rw [hdm] at this; simp at this
      | some u => rw [hdm] at this; simp at this; simp [this]
    · rintro ⟨hr, hkeep⟩
      obtain ⟨bl, rev⟩ := b
      cases bl <;> simp only [isRanged, Bool.false_eq_true] at hr
      rename_i s e p5 p3
      have := hod.2 _ (ranged_leafDel s e p5 p3 rev i k hk hnb hkeep)
      rw [hl]
      cases hdm : delMarks i k l with
      | none => rw [hdm] at this; simp at this
      | some u => rw [hdm] at this; simp at this; simp [this]

end Loc
end Gts
