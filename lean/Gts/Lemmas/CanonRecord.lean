/-
  C01 ↔ C06: the locations of an edited record.  Guards of the record-level closure theorems
  (`Seq.featsWithin`, `Seq.featsWf`, `Seq.deleteK3`, `Seq.reverseK3`, `Seq.reverseIn`,
  `Seq.rotateK3`) and "every location of the edited table is canonical" for Insert / Delete /
  Reverse / Rotate, from the location-level theorems of `Gts/Lemmas/CanonOps.lean` /
  `CanonKeys.lean`.  Core Lean only.
-/
import Gts.Lemmas.CanonKeys
import Gts.Lemmas.GbEdit
namespace Gts

namespace Seq

/-- every feature lies inside the sequence (the oracle's in-bounds predicate `coordsWithin`) -/
def featsWithin (s : Seq) : Bool := s.feats.all fun f => Loc.coordsWithin f.loc s.len

/-- every span of every feature is non-empty (`Loc.wf`: what `PartialRange` and the parser build) -/
def featsWf (s : Seq) : Bool := s.feats.all fun f => Loc.wf f.loc

/-- every location of the table is canonical (C06's round-trip domain) -/
def locsCanon (s : Seq) : Bool := s.feats.all fun f => Loc.canonP f.loc

/-- the K3 shape arises in the `Join`s of `gts.Delete(seq, offset, length)` -/
def deleteK3 (s : Seq) (offset length : Int) : Bool := s.feats.any fun f => Loc.expandK3 f.loc offset (-length)

/-- the K3 shape arises in the `Join`s of `gts.Reverse(seq)` -/
def reverseK3 (s : Seq) : Bool := s.feats.any fun f => Loc.reverseK3 f.loc s.len

/-- the mirror images of all features have non-negative coordinates (`Loc.revIn`: no between-site
at the very end, K1) -/
def reverseIn (s : Seq) : Bool := s.feats.all fun f => Loc.revIn s.len f.loc

/-- the amount `gts.Rotate(seq, n)` rotates by: `n` reduced into `[0, Len)` -/
def rotAmount (s : Seq) (n : Int) : Int :=
  Int.tmod (if n < 0 then n + ((-n + s.len - 1) / s.len) * s.len else n) s.len

/-- the K3 shape arises in the `Join`s of the `Normalize` step of `gts.Rotate(seq, n)` -/
def rotateK3 (s : Seq) (n : Int) : Bool :=
  s.feats.any fun f => Loc.normalizeK3 (f.loc.expand 0 (s.rotAmount n)) s.len

end Seq

namespace Loc

theorem coordsLe_of_canon (l : Loc) (h : canonP l = true) : coordsLe 4611686018427387904 l = true := by
  have hc := ((canonP_iff l).mp h).1
  unfold coordsC at hc
  rw [coordsLe_eq]
  rw [allLeaves_eq_all, List.all_eq_true] at *
  intro u hu
  have := hc u hu
  cases u <;> simp_all [leafCoord, leafLe, coordOk]

theorem coordsLe_mono (M M' : Int) (hM : M ≤ M') (l : Loc) (h : coordsLe M l = true) : coordsLe M' l = true := by
  unfold coordsLe at *
  rw [List.all_eq_true] at *
  intro u hu
  have := h u hu
  cases u <;> simp only [leafLe, Bool.and_eq_true, decide_eq_true_eq] at * <;> omega

end Loc

namespace GenBank
open Gts.Loc

theorem ofSeq_locs (F : Fields) (s : Seq) :
    ((ofSeq F s).table.all fun f => Loc.canonP f.loc) = s.locsCanon := by
  simp only [ofSeq, Seq.locsCanon, List.all_map]
  rfl

/-- the features of `insertAll [] (map …)` are the mapped features -/
theorem mem_insertAll_map (fs : List Feature) (φ : Feature → Feature) (g : Feature)
    (hg : g ∈ Table.insertAll [] (fs.map φ)) : ∃ f ∈ fs, g = φ f := by
  rcases (mem_insertAll [] _ g).mp hg with h | h
  · simp at h
  · obtain ⟨f, hf, rfl⟩ := List.mem_map.mp h
    exact ⟨f, hf, rfl⟩

theorem rotAmount_eq (s : Seq) (n : Int) (hL : 0 < s.len) : s.rotAmount n = n % s.len := by
  unfold Seq.rotAmount
  generalize s.len = L at *
  by_cases hn : n < 0
  · rw [if_pos hn]
    have h1 := Int.emod_add_ediv_mul (-n + L - 1) L
    have h2 := Int.emod_lt_of_pos (-n + L - 1) hL
    generalize hq : (-n + L - 1) / L = q at *
    generalize hqL : q * L = qL at *
    have : 0 ≤ n + qL := by omega
    rw [Int.tmod_eq_emod_of_nonneg this, ← hqL, Int.add_mul_emod_self_right]
  · rw [if_neg hn, Int.tmod_eq_emod_of_nonneg (by omega)]

theorem rotAmount_bounds (s : Seq) (n : Int) (hL : 0 < s.len) : 0 ≤ s.rotAmount n ∧ s.rotAmount n < s.len := by
  rw [rotAmount_eq s n hL]
  exact ⟨Int.emod_nonneg _ (by omega), Int.emod_lt_of_pos _ hL⟩

theorem rotate_feats (s : Seq) (n : Int) :
    (s.rotate n).feats = Table.insertAll []
      (s.feats.map fun f => { f with loc := (f.loc.expand 0 (s.rotAmount n)).normalize s.len }) := rfl

/-! ### the locations of the edited tables -/

/-- **Delete**: every location stays canonical unless the K3 shape arises -/
theorem locsCanon_delete (s : Seq) (offset length : Int) (hc : s.locsCanon = true) (ho : 0 ≤ offset)
    (hl : 0 ≤ length) (hk : s.deleteK3 offset length = false) : (s.delete offset length).locsCanon = true := by
  simp only [Seq.locsCanon, Seq.deleteK3, List.all_eq_true, List.any_eq_false, Seq.delete, List.mem_map] at *
  rintro g ⟨f, hf, rfl⟩
  exact expand_canon f.loc offset (-length) 4611686018427387904 (hc f hf) (Or.inl ho)
    (coordsLe_of_canon _ (hc f hf)) (by omega) (by simpa using hk f hf)

/-- **Reverse** -/
theorem locsCanon_reverse (s : Seq) (hc : s.locsCanon = true) (hL : s.len ≤ 4611686018427387904)
    (hin : s.reverseIn = true) (hk : s.reverseK3 = false) : s.reverse.locsCanon = true := by
  simp only [Seq.locsCanon, Seq.reverseIn, Seq.reverseK3, List.all_eq_true, List.any_eq_false] at *
  intro g hg
  obtain ⟨f, hf, rfl⟩ := mem_insertAll_map s.feats _ g (by simpa [Seq.reverse] using hg)
  exact reverse_canon f.loc s.len (hc f hf) hL (hin f hf) (by simpa using hk f hf)

/-- **Rotate** (a non-empty sequence, well-formed features inside it) -/
theorem locsCanon_rotate (s : Seq) (n : Int) (hc : s.locsCanon = true) (hw : s.featsWf = true)
    (hin : s.featsWithin = true) (hL0 : 0 < s.len) (hL : 2 * s.len ≤ 4611686018427387904)
    (hk : s.rotateK3 n = false) : (s.rotate n).locsCanon = true := by
  have hb := rotAmount_bounds s n hL0
  simp only [Seq.locsCanon, Seq.featsWf, Seq.featsWithin, Seq.rotateK3, List.all_eq_true, List.any_eq_false] at *
  intro g hg
  rw [rotate_feats] at hg
  obtain ⟨f, hf, rfl⟩ := mem_insertAll_map s.feats _ g hg
  have hcf := hc f hf
  refine normalize_canon _ s.len ?_ hL0 (by omega) (by simpa using hk f hf)
  exact expand_canon f.loc 0 (s.rotAmount n) s.len hcf (Or.inr hb.1) (coordsLe_of_within _ _ (hin f hf))
    (by omega) (expandK3_false 0 _ hb.1 f.loc ((canonP_iff _).mp hcf).2 (hw f hf))

/-- **Insert**: the host's locations are shifted (no guard), the guest's are moved behind the
insertion point (well-formed guest features) -/
theorem locsCanon_insert (host guest : Seq) (index : Int) (hc : host.locsCanon = true)
    (hg : guest.locsCanon = true) (hgw : guest.featsWf = true) (hin : host.featsWithin = true)
    (hgin : guest.featsWithin = true) (hi0 : 0 ≤ index) (hi : index ≤ host.len)
    (hsum : host.len + guest.len ≤ 4611686018427387904) : (host.insert index guest).locsCanon = true := by
  simp only [Seq.locsCanon, Seq.featsWf, Seq.featsWithin, List.all_eq_true] at *
  intro g hgm
  have hgl : 0 ≤ guest.len := by simp [Seq.len]
  rcases (mem_insertAll _ _ g).mp (by simpa [Seq.insert] using hgm) with h | h
  · obtain ⟨f, hf, rfl⟩ := mem_insertAll_map host.feats _ g h
    have hcf := hc f hf
    exact shift_canon_guarded f.loc index guest.len host.len hcf hgl (coordsLe_of_within _ _ (hin f hf)) hsum
      (shiftK3_false index _ hgl f.loc ((canonP_iff _).mp hcf).2)
  · obtain ⟨f, hf, rfl⟩ := List.mem_map.mp h
    have hcf := hg f hf
    exact expand_canon f.loc 0 index guest.len hcf (Or.inr hi0) (coordsLe_of_within _ _ (hgin f hf))
      (by omega) (expandK3_false 0 _ hi0 f.loc ((canonP_iff _).mp hcf).2 (hgw f hf))

/-- **Embed**: host and guest locations both go through an insertion `Expand` (well-formed features) -/
theorem locsCanon_embed (host guest : Seq) (index : Int) (hc : host.locsCanon = true)
    (hg : guest.locsCanon = true) (hw : host.featsWf = true) (hgw : guest.featsWf = true)
    (hin : host.featsWithin = true) (hgin : guest.featsWithin = true) (hi0 : 0 ≤ index) (hi : index ≤ host.len)
    (hsum : host.len + guest.len ≤ 4611686018427387904) : (host.embed index guest).locsCanon = true := by
  simp only [Seq.locsCanon, Seq.featsWf, Seq.featsWithin, List.all_eq_true] at *
  intro g hgm
  have hgl : 0 ≤ guest.len := by simp [Seq.len]
  rcases (mem_insertAll _ _ g).mp (by simpa [Seq.embed] using hgm) with h | h
  · obtain ⟨f, hf, rfl⟩ := mem_insertAll_map host.feats _ g h
    have hcf := hc f hf
    exact expand_canon f.loc index guest.len host.len hcf (Or.inr hgl) (coordsLe_of_within _ _ (hin f hf)) hsum
      (expandK3_false index _ hgl f.loc ((canonP_iff _).mp hcf).2 (hw f hf))
  · obtain ⟨f, hf, rfl⟩ := List.mem_map.mp h
    have hcf := hg f hf
    exact expand_canon f.loc 0 index guest.len hcf (Or.inr hi0) (coordsLe_of_within _ _ (hgin f hf))
      (by omega) (expandK3_false 0 _ hi0 f.loc ((canonP_iff _).mp hcf).2 (hgw f hf))

/-- **Concat** of two: the first table as it is, the second moved behind the first sequence -/
theorem locsCanon_concat2 (a b : Seq) (hc : a.locsCanon = true) (hg : b.locsCanon = true)
    (hgw : b.featsWf = true) (hgin : b.featsWithin = true)
    (hsum : a.len + b.len ≤ 4611686018427387904) : (Seq.concat2 a b).locsCanon = true := by
  simp only [Seq.locsCanon, Seq.featsWf, Seq.featsWithin, List.all_eq_true] at *
  intro g hgm
  have hal : 0 ≤ a.len := by simp [Seq.len]
  rcases (mem_insertAll _ _ g).mp (by simpa [Seq.concat2] using hgm) with h | h
  · exact hc g h
  · obtain ⟨f, hf, rfl⟩ := List.mem_map.mp h
    have hcf := hg f hf
    exact expand_canon f.loc 0 a.len b.len hcf (Or.inr hal) (coordsLe_of_within _ _ (hgin f hf))
      (by omega) (expandK3_false 0 _ hal f.loc ((canonP_iff _).mp hcf).2 (hgw f hf))

/-- the features `gts.Erase` keeps -/
def eraseKept (s : Seq) (offset length : Int) : Seq :=
  ⟨s.feats.filter fun f => f.key = "source" || !(f.loc.within offset (offset + length)), s.bytes⟩

theorem erase_eq (s : Seq) (offset length : Int) :
    s.erase offset length = (eraseKept s offset length).delete offset length := rfl

/-- **Erase** = Delete on the features that are kept -/
theorem locsCanon_erase (s : Seq) (offset length : Int) (hc : s.locsCanon = true) (ho : 0 ≤ offset)
    (hl : 0 ≤ length) (hk : (eraseKept s offset length).deleteK3 offset length = false) :
    (s.erase offset length).locsCanon = true := by
  rw [erase_eq]
  refine locsCanon_delete _ offset length ?_ ho hl hk
  simp only [Seq.locsCanon, eraseKept, List.all_eq_true] at *
  exact fun f hf => hc f (List.mem_filter.mp hf).1

end GenBank
end Gts
