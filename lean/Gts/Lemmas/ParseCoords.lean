/-
  The coordinate clause of "parser results are canonical" from the TEXT (C06): a postcondition logic WITH a state
  invariant (`PostI`): the position and every saved position of the parser state are suffixes-closed "good" texts —
  texts at every position of which a successful run of `Pars.int` yields a value in `1 .. 2^62` (`IntsIn`).  Every
  primitive keeps the invariant (also on failure: `attempt` continues from the failed state), so every integer the
  location parser reads is in range, and `Join` / `Order` / `Complement()` only re-use coordinates.  Core Lean only.
-/
import Gts.Lemmas.ParsPost
import Gts.Lemmas.CanonBasic
namespace Gts
open Pars

namespace Pars

/-- the values a coordinate literal may have: `1 .. 2^62` -/
def RInt (v : Int) : Prop := 1 ≤ v ∧ v ≤ 4611686018427387904

/-- **the text-level hypothesis**: at every position `k` of the text `u` (and for every saved-position stack), if
`pars.Int` succeeds there its value lies in `1 .. 2^62` -/
def IntsIn (u : Bytes) : Prop :=
  ∀ (k : Nat) (stk : List Bytes) (v : Int) (st' : PS), int ⟨u.drop k, stk⟩ = (.ok v, st') → RInt v

theorem IntsIn.drop {u : Bytes} (h : IntsIn u) (n : Nat) : IntsIn (u.drop n) := by
  intro k stk v st' hr
  rw [List.drop_drop] at hr
  exact h _ stk v st' hr

theorem dropWhile_eq_drop (f : UInt8 → Bool) : ∀ (u : Bytes), ∃ n, u.dropWhile f = u.drop n
  | [] => ⟨0, rfl⟩
  | c :: r => by
      by_cases hc : f c = true
      · obtain ⟨n, hn⟩ := dropWhile_eq_drop f r
        exact ⟨n + 1, by simp [List.dropWhile, hc, hn]⟩
      · exact ⟨0, by simp [List.dropWhile, hc]⟩

/-- the state invariant: the position and every saved position are good texts -/
def Inv (st : PS) : Prop := IntsIn st.rest ∧ ∀ u ∈ st.stk, IntsIn u

/-- partial correctness with the state invariant, kept on success AND on failure -/
def PostI {α} (p : P α) (Q : α → Prop) : Prop :=
  ∀ st r st', Inv st → p st = (r, st') → Inv st' ∧ ∀ v, r = .ok v → Q v

theorem PostI.of_run {α} {p : P α} {Q : α → Prop}
    (h : ∀ st, Inv st → Inv (p st).2 ∧ ∀ v, (p st).1 = .ok v → Q v) : PostI p Q := by
  intro st r st' hI hr
  have := h st hI
  rw [hr] at this
  exact this

theorem PostI.mono {α} {p : P α} {S Q : α → Prop} (h : PostI p S) (hq : ∀ a, S a → Q a) : PostI p Q :=
  fun st r st' hI hr => ⟨(h st r st' hI hr).1, fun v hv => hq v ((h st r st' hI hr).2 v hv)⟩

theorem PostI.toTriv {α} {p : P α} {S : α → Prop} (h : PostI p S) : PostI p (fun _ => True) :=
  h.mono fun _ _ => trivial

theorem PostI.pure {α} {Q : α → Prop} (a : α) (h : Q a) : PostI (Pure.pure a : P α) Q := by
  intro st r st' hI hr
  rw [P.pure_run] at hr
  cases hr
  exact ⟨hI, fun v hv => by cases hv; exact h⟩

theorem PostI.fail {α} {Q : α → Prop} : PostI (Pars.fail : P α) Q := by
  intro st r st' hI hr
  have h0 : (Pars.fail : P α) st = (.error .fail, st) := rfl
  rw [h0] at hr
  cases hr
  exact ⟨hI, fun v hv => by cases hv⟩

theorem PostI.bind {α β} {p : P α} {f : α → P β} {S : α → Prop} {Q : β → Prop}
    (hp : PostI p S) (hf : ∀ a, S a → PostI (f a) Q) : PostI (p >>= f) Q := by
  intro st r st' hI hr
  rw [P.bind_run] at hr
  split at hr
  · rename_i a s' heq
    obtain ⟨hI', hq⟩ := hp _ _ _ hI heq
    exact hf a (hq a rfl) _ _ _ hI' hr
  · rename_i e s' heq
    obtain ⟨hI', _⟩ := hp _ _ _ hI heq
    cases hr
    exact ⟨hI', fun v hv => by cases hv⟩

theorem PostI.bindT {α β} {p : P α} {f : α → P β} {Q : β → Prop}
    (hp : PostI p (fun _ => True)) (hf : ∀ a, PostI (f a) Q) : PostI (p >>= f) Q :=
  PostI.bind hp (fun a _ => hf a)

theorem PostI.attempt {α} {p : P α} {S : α → Prop} (hp : PostI p S) :
    PostI (Pars.attempt p) (fun o => ∀ v, o = some v → S v) := by
  intro st r st' hI hr
  rw [attempt_run] at hr
  split at hr
  · rename_i a s' heq
    obtain ⟨hI', hq⟩ := hp _ _ _ hI heq
    cases hr
    refine ⟨hI', fun o ho => ?_⟩
    cases ho
    intro v hv
    cases hv
    exact hq _ rfl
  · rename_i s' heq
    obtain ⟨hI', _⟩ := hp _ _ _ hI heq
    cases hr
    refine ⟨hI', fun o ho => ?_⟩
    cases ho
    intro v hv
    cases hv
  · rename_i s' heq
    obtain ⟨hI', _⟩ := hp _ _ _ hI heq
    cases hr
    exact ⟨hI', fun v hv => by cases hv⟩

theorem PostI.ite {α} {c : Prop} [Decidable c] {p q : P α} {Q : α → Prop} (hp : PostI p Q) (hq : PostI q Q) :
    PostI (if c then p else q) Q := by
  split
  · exact hp
  · exact hq

/-! ### the primitives keep the invariant -/

theorem PostI.push : PostI Pars.push (fun _ => True) := PostI.of_run fun st hI => by
  refine ⟨⟨hI.1, ?_⟩, fun _ _ => trivial⟩
  intro u hu
  have : u ∈ st.rest :: st.stk := hu
  rcases List.mem_cons.mp this with h | h
  · exact h ▸ hI.1
  · exact hI.2 u h

theorem PostI.pop : PostI Pars.pop (fun _ => True) := PostI.of_run fun st hI => by
  obtain ⟨rest, stk⟩ := st
  cases stk with
  | nil => exact ⟨hI, fun _ _ => trivial⟩
  | cons a t =>
    refine ⟨⟨hI.2 a (by simp), fun u hu => hI.2 u ?_⟩, fun _ _ => trivial⟩
    exact List.mem_cons_of_mem _ hu

theorem PostI.drop : PostI Pars.drop (fun _ => True) := PostI.of_run fun st hI => by
  refine ⟨⟨hI.1, fun u hu => hI.2 u ?_⟩, fun _ _ => trivial⟩
  exact List.mem_of_mem_drop hu

theorem PostI.advanceN (n : Nat) : PostI (Pars.advanceN n) (fun _ => True) := PostI.of_run fun _ hI =>
  ⟨⟨hI.1.drop n, hI.2⟩, fun _ _ => trivial⟩

theorem PostI.advance1 : PostI Pars.advance1 (fun _ => True) := PostI.of_run fun _ hI =>
  ⟨⟨hI.1.drop 1, hI.2⟩, fun _ _ => trivial⟩

theorem PostI.skipWhile (f : UInt8 → Bool) : PostI (Pars.skipWhile f) (fun _ => True) := PostI.of_run fun st hI => by
  refine ⟨⟨?_, hI.2⟩, fun _ _ => trivial⟩
  obtain ⟨n, hn⟩ := dropWhile_eq_drop f st.rest
  show IntsIn (st.rest.dropWhile f)
  rw [hn]
  exact hI.1.drop n

theorem PostI.next : PostI Pars.next (fun _ => True) := PostI.of_run fun st hI => by
  obtain ⟨rest, stk⟩ := st
  cases rest with
  | nil => exact ⟨hI, fun _ _ => trivial⟩
  | cons a t => exact ⟨hI, fun _ _ => trivial⟩

theorem PostI.pushed : PostI Pars.pushed (fun _ => True) := PostI.of_run fun _ hI =>
  ⟨hI, fun _ _ => trivial⟩

theorem PostI.request (n : Nat) : PostI (Pars.request n) (fun _ => True) := PostI.of_run fun st hI => by
  by_cases h : st.rest.length < n
  · have : Pars.request n st = (.error .fail, st) := by
      simp [Pars.request, getS, P.bind_run, h, Pars.fail]
    rw [this]
    exact ⟨hI, fun _ _ => trivial⟩
  · have : Pars.request n st = (.ok (st.rest.take n), st) := by
      simp [Pars.request, getS, P.bind_run, h, P.pure_run]
    rw [this]
    exact ⟨hI, fun _ _ => trivial⟩

theorem PostI.trail : PostI Pars.trail (fun _ => True) := PostI.of_run fun st hI => by
  obtain ⟨rest, stk⟩ := st
  cases stk with
  | nil => exact ⟨hI, fun _ _ => trivial⟩
  | cons a t =>
    by_cases h : a.length < rest.length
    · have : Pars.trail ⟨rest, a :: t⟩ = (.error .panic, ⟨rest, a :: t⟩) := by
        simp [Pars.trail, getS, P.bind_run, h, Pars.panic]
      rw [this]
      exact ⟨hI, fun _ _ => trivial⟩
    · have : Pars.trail ⟨rest, a :: t⟩ =
          (.ok (a.take (a.length - rest.length)), ⟨a.drop (a.length - rest.length), t⟩) := by
        simp [Pars.trail, getS, P.bind_run, h]
        rfl
      rw [this]
      refine ⟨⟨(hI.2 a (by simp)).drop _, fun u hu => hI.2 u ?_⟩, fun _ _ => trivial⟩
      exact List.mem_cons_of_mem _ hu

/-- one step of an invariant-only proof -/
macro "posti_step" : tactic => `(tactic| first
  | exact PostI.fail
  | exact PostI.pure _ trivial
  | exact PostI.push | exact PostI.pop | exact PostI.drop | exact PostI.advance1 | exact PostI.advanceN _
  | exact PostI.next | exact PostI.request _ | exact PostI.skipWhile _ | exact PostI.trail | exact PostI.pushed
  | exact PostI.toTriv (PostI.attempt PostI.next)
  | exact PostI.toTriv (PostI.attempt (PostI.request _))
  | refine PostI.bindT ?_ (fun _ => ?_)
  | refine PostI.ite ?_ ?_
  | split
  | dsimp only)

theorem PostI.int_inv : PostI Pars.int (fun _ => True) := by
  unfold Pars.int
  repeat (any_goals posti_step)

/-- **`pars.Int` from a good state returns a value in range** -/
theorem PostI.int : PostI Pars.int RInt := by
  intro st r st' hI hr
  refine ⟨(PostI.int_inv st r st' hI hr).1, fun v hv => ?_⟩
  subst hv
  obtain ⟨rest, stk⟩ := st
  exact hI.1 0 stk v st' (by simpa using hr)

theorem PostI.anyOf_go {α} {Q : α → Prop} : ∀ (ps : List (P α)), (∀ p ∈ ps, PostI p Q) →
    PostI (LocParse.anyOf.go ps) Q
  | [], _ => by
      rw [LocParse.anyOf.go]
      exact PostI.bindT PostI.pop fun _ => PostI.fail
  | p :: rest, h => by
      rw [LocParse.anyOf.go]
      refine PostI.bind (PostI.attempt (h p (by simp))) ?_
      intro o ho
      cases o with
      | some v => exact PostI.bindT PostI.drop fun _ => PostI.pure v (ho v rfl)
      | none =>
        refine PostI.bindT PostI.pushed fun b => ?_
        have ih := PostI.anyOf_go rest (fun q hq => h q (by simp [hq]))
        dsimp only
        exact PostI.ite (PostI.bindT PostI.fail fun _ => ih) ih

theorem PostI.anyOf {α} {Q : α → Prop} (ps : List (P α)) (h : ∀ p ∈ ps, PostI p Q) :
    PostI (LocParse.anyOf ps) Q := by
  rw [LocParse.anyOf]
  exact PostI.bindT PostI.push fun _ => PostI.anyOf_go ps h

end Pars

/-! ### the location parsers -/

namespace LocParse
open Loc

theorem coordOk_of_RInt (v : Int) (h : RInt v) : coordOk v = true ∧ coordOk (v - 1) = true := by
  obtain ⟨h1, h2⟩ := h
  simp only [coordOk, Bool.and_eq_true, decide_eq_true_eq]
  omega

/-- `attempt int`, mapped, or else `Pop` and fail: the value is an in-range coordinate -/
macro "posti_int" : tactic => `(tactic| (
  refine PostI.bind (PostI.attempt PostI.int) fun o ho => ?_
  cases o with
  | some v => first
    | exact PostI.pure _ (coordOk_of_RInt v (ho v rfl)).1
    | exact PostI.pure _ (coordOk_of_RInt v (ho v rfl)).2
  | none => exact PostI.bindT PostI.pop fun _ => PostI.fail))

macro "posti_leaf" : tactic => `(tactic| first
  | exact PostI.fail
  | (refine PostI.bind (S := fun x => coordOk x = true) ?_ (fun _ _ => ?_); posti_int)
  | exact PostI.push | exact PostI.pop | exact PostI.drop | exact PostI.advance1 | exact PostI.advanceN _
  | exact PostI.next | exact PostI.toTriv (PostI.attempt PostI.next)
  | exact PostI.toTriv (PostI.attempt (PostI.request _))
  | refine PostI.bindT ?_ (fun _ => ?_)
  | refine PostI.ite ?_ ?_
  | split
  | dsimp only)

abbrev QC (l : Loc) : Prop := coordsC coordOk l = true
abbrev QCs (ls : List Loc) : Prop := coordsCList coordOk ls = true

theorem posti_range : PostI LocParse.range QC := by
  unfold LocParse.range
  repeat (any_goals posti_leaf)
  all_goals exact PostI.pure _ (by simp [QC, coordsC, leafCoord, *])

theorem posti_between : PostI LocParse.between QC := by
  unfold LocParse.between
  repeat (any_goals posti_leaf)
  all_goals exact PostI.pure _ (by simp [QC, coordsC, leafCoord, *])

theorem posti_ambiguous : PostI LocParse.ambiguous QC := by
  unfold LocParse.ambiguous
  repeat (any_goals posti_leaf)
  all_goals exact PostI.pure _ (by simp [QC, coordsC, leafCoord, *])

theorem posti_point : PostI LocParse.point QC := by
  unfold LocParse.point
  refine PostI.bindT PostI.push fun _ => ?_
  refine PostI.bind (PostI.attempt PostI.int) fun o ho => ?_
  cases o with
  | none => exact PostI.bindT PostI.pop fun _ => PostI.fail
  | some v =>
    refine PostI.bindT PostI.drop fun _ => PostI.pure _ ?_
    simpa [QC, coordsC, leafCoord] using (coordOk_of_RInt v (ho v rfl)).2

theorem posti_delimiter : PostI LocParse.delimiter (fun _ => True) := by
  unfold LocParse.delimiter
  repeat (any_goals posti_step)

theorem posti_attempt_bind {α β} {p : P α} {k : Option α → P β} {S : α → Prop} {Q : β → Prop} (h : PostI p S)
    (hs : ∀ v, S v → PostI (k (some v)) Q) (hn : PostI (k none) Q) : PostI (attempt p >>= k) Q := by
  refine PostI.bind (PostI.attempt h) fun o ho => ?_
  cases o with
  | some v => exact hs v (ho v rfl)
  | none => exact hn

theorem complement_coords (l : Loc) (h : QC l) : QC l.complement := by
  cases l <;> simpa [QC, coordsC, Loc.complement] using h

theorem posti_more (f : Nat) (ih : PostI (loc f) QC) :
    ∀ (k : Nat) (acc : List Loc), QCs acc → PostI (multiple.more f k acc) QCs
  | 0, acc, hs => by
      rw [multiple.more]
      exact PostI.pure _ (by simpa [QCs, coordsCList, allLeavesList_reverse] using hs)
  | k + 1, acc, hs => by
      rw [multiple.more]
      refine PostI.bindT posti_delimiter fun d => ?_
      refine PostI.ite ?_ ?_
      · refine posti_attempt_bind ih (fun v hv => ?_) (PostI.bindT PostI.pop fun _ => PostI.fail)
        refine posti_more f ih k (v :: acc) ?_
        simp only [QCs, coordsCList, allLeavesList_cons, Bool.and_eq_true]
        exact ⟨hv, hs⟩
      · exact PostI.pure _ (by simpa [QCs, coordsCList, allLeavesList_reverse] using hs)

theorem posti_multiple (f : Nat) (ih : PostI (loc f) QC) : PostI (multiple (f + 1)) QCs := by
  rw [multiple]
  refine PostI.bindT PostI.push fun _ => ?_
  refine PostI.bind (posti_attempt_bind ih (fun v hv => PostI.pure v hv) (PostI.bindT PostI.pop fun _ => PostI.fail))
    fun first hfirst => ?_
  refine PostI.bind (posti_more f ih f [first] ?_) fun ls hls => ?_
  · simp only [QCs, coordsCList, allLeavesList_cons, allLeavesList_nil, Bool.and_true]
    exact hfirst
  · exact PostI.bindT PostI.drop fun _ => PostI.pure _ hls

set_option hygiene false in
macro "posti_wrap" ih:term : tactic => `(tactic| first
  | exact PostI.fail
  | exact PostI.pure _ trivial
  | exact PostI.push | exact PostI.pop | exact PostI.drop | exact PostI.advance1 | exact PostI.advanceN _
  | exact PostI.next | exact PostI.toTriv (PostI.attempt PostI.next)
  | exact PostI.toTriv (PostI.attempt (PostI.request _))
  | refine PostI.bind (S := QCs) $ih fun ls hls => ?_
  | refine PostI.bind (S := QC)
      (posti_attempt_bind $ih (fun v hv => PostI.pure v hv) (PostI.bindT PostI.pop fun _ => PostI.fail))
      fun l hl => ?_
  | refine PostI.bindT ?_ (fun _ => ?_)
  | refine PostI.ite ?_ ?_
  | split
  | dsimp only)

theorem posti_joinOf (f : Nat) (ih : PostI (multiple f) QCs) : PostI (joinOf (f + 1)) QC := by
  rw [joinOf]
  repeat (any_goals posti_wrap ih)
  all_goals exact PostI.pure _ (Loc.join_leaves (mergeOK_leafCoord coordOk) _ hls)

theorem posti_orderOf (f : Nat) (ih : PostI (multiple f) QCs) : PostI (orderOf (f + 1)) QC := by
  rw [orderOf]
  repeat (any_goals posti_wrap ih)
  all_goals exact PostI.pure _ (Loc.order_leaves _ _ hls)

theorem posti_complementOf (f : Nat) (ih : PostI (loc f) QC) : PostI (complementOf (f + 1)) QC := by
  rw [complementOf]
  repeat (any_goals posti_wrap ih)
  all_goals exact PostI.pure _ (complement_coords _ hl)

/-- **every location the parser returns from a good state has its coordinates in `0 .. 2^62`** — all five mutual
parsers, every fuel -/
theorem posti_all : ∀ f : Nat, PostI (loc f) QC ∧ PostI (multiple f) QCs ∧ PostI (joinOf f) QC ∧
      PostI (orderOf f) QC ∧ PostI (complementOf f) QC
  | 0 => by
      refine ⟨?_, ?_, ?_, ?_, ?_⟩
      · rw [loc]; exact PostI.fail
      · rw [multiple]; exact PostI.fail
      · rw [joinOf]; exact PostI.fail
      · rw [orderOf]; exact PostI.fail
      · rw [complementOf]; exact PostI.fail
  | f + 1 => by
      obtain ⟨hl, hm, hj, ho, hc⟩ := posti_all f
      refine ⟨?_, posti_multiple f hl, posti_joinOf f hm, posti_orderOf f hm, posti_complementOf f hl⟩
      rw [loc]
      refine PostI.anyOf _ ?_
      intro p hp
      simp only [List.mem_cons, List.not_mem_nil, or_false] at hp
      rcases hp with rfl | rfl | rfl | rfl | rfl | rfl | rfl
      · exact posti_range
      · exact posti_between
      · exact posti_ambiguous
      · exact hc
      · exact hj
      · exact ho
      · exact posti_point

end LocParse

/-- the coordinates of what `parseLocation` returns are in `0 .. 2^62` when every integer readable in the text is
in `1 .. 2^62` -/
theorem parseLocation_coords (s : Bytes) (l : Loc) (r : Bytes) (hp : parseLocation s = .ok (l, r))
    (hi : IntsIn s) : Loc.coordsC Loc.coordOk l = true := by
  unfold parseLocation at hp
  split at hp
  · rename_i v st heq
    injection hp with hp
    have h1 : v = l := congrArg Prod.fst hp
    have := (LocParse.posti_all _).1 ⟨s, []⟩ _ _ ⟨hi, fun u hu => by cases hu⟩ heq
    exact h1 ▸ this.2 v rfl
  · cases hp

/-- the text `4..7` meets the text-level hypothesis: `pars.Int` reads 4 at position 0, 7 at position 3, and fails
at the other positions -/
theorem intsIn_range47 : IntsIn [52, 46, 46, 55] := by
  intro k stk v st' h
  match k with
  | 0 =>
    have : int ⟨[52, 46, 46, 55], stk⟩ = (.ok 4, ⟨[46, 46, 55], stk⟩) := by
      simp [int, skipWhile, trail, atoi, isDigit, digitsVal, P.bind_run, P.map_run, P.pure_run, Pars.push, getS, setS,
        next, advance1]
    simp only [List.drop_zero] at h
    rw [this] at h
    cases h
    simp [RInt]
  | 1 => simp [int_dot] at h; cases congrArg Prod.fst h
  | 2 => simp [int_dot] at h; cases congrArg Prod.fst h
  | 3 =>
    have : int ⟨[55], stk⟩ = (.ok 7, ⟨[], stk⟩) := by
      simp [int, skipWhile, trail, atoi, isDigit, digitsVal, P.bind_run, P.map_run, P.pure_run, Pars.push, getS, setS,
        next, advance1]
    simp only [List.drop_succ_cons, List.drop_zero] at h
    rw [this] at h
    cases h
    simp [RInt]
  | k + 4 => simp [int_nil] at h; cases congrArg Prod.fst h

/-- the hypothesis is not trivial: the text `-5` (accepted as the point `-6`) does not meet it, nor does `0` -/
theorem intsIn_zero_false : ¬ IntsIn [48] := by
  intro h
  have h0 : int ⟨[48], []⟩ = (.ok 0, ⟨[], []⟩) := by
    simp [int, isDigit, P.bind_run, P.map_run, P.pure_run, Pars.push, Pars.drop, getS, setS, next, advance1]
  have := h 0 [] 0 _ h0
  simp [RInt] at this

end Gts
