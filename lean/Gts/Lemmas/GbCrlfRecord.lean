/-
  C01, CRLF input: the record loop over the CRLF translation of the written sections.  Every section
  of `GbRecord.lean` (same text, same action on the record) is taken by the same sub-parser from
  `Origin.crlf sec.text`; the terminator is `//` CR LF; the CR LF behind CONTIG is skipped as an empty
  unknown line.  Mirrors `GbDispatch.lean` / `GbRecord.lean`.  Core Lean only.
-/
import Gts.Lemmas.GbCrlfOrigin
namespace Gts.GenBank
open Gts.Pars

/-! ### dispatch on CR LF -/

theorem tryAll_extraC (length : Int) (f : Fields) (t : List QFeature) (o : OriginV) (r : Registry)
    (name value rest : Bytes)
    (hnot : notNames 11 (padRight 12 name ++ (Origin.crlf (addPrefix indent value) ++ 13 :: 10 :: rest)) = true)
    (hw : WritableExtra name value = true) (hrest : (sp 12).isPrefixOf rest = false) :
    tryAll length 12 (f, t, o, r) ⟨padRight 12 name ++ (Origin.crlf (addPrefix indent value) ++ 13 :: 10 :: rest), []⟩ =
      (.ok (.parsed ({ f with extra := f.extra ++ [(name, value)] }, t, o, r)), ⟨rest, []⟩) := by
  simp only [tryAll, P.bind_run]
  rw [tryList_drop 11 (by omega) length _ _ [] hnot]
  have : (fieldParsers length 12).drop 11 = [] := by simp [fieldParsers]
  rw [this, tryList_nil]
  have he := extra_roundtripC f name value rest
    [padRight 12 name ++ (Origin.crlf (addPrefix indent value) ++ 13 :: 10 :: rest)] hw hrest
  gsimp [he]

/-- the CR LF behind CONTIG: no field at all -/
theorem tryAll_blankC (length : Int) (s : Sub) (rest : Bytes) :
    tryAll length 12 s ⟨13 :: rest, []⟩ = (.ok (.skip s), ⟨13 :: rest, []⟩) := by
  obtain ⟨f, t, o, r⟩ := s
  simp only [tryAll, P.bind_run]
  rw [tryList_drop 11 (by omega) length _ _ [] (by simp [notNames, fieldNames, bs, List.isPrefixOf])]
  have : (fieldParsers length 12).drop 11 = [] := by simp [fieldParsers]
  rw [this, tryList_nil]
  have hw := word_fail isUpper (13 :: rest) [13 :: rest] (by intro c hc; simp at hc; subst hc; decide)
  gsimp [extraField, hw]

theorem endMark_cr (r : Bytes) : endMark ⟨13 :: r, []⟩ = (.error .fail, ⟨13 :: r, []⟩) := by
  have : (bs "//").isPrefixOf (13 :: r) = false := by simp [bs, List.isPrefixOf]
  gsimp [endMark, lit_fail _ _ _ this]

/-- the terminator of a CRLF file -/
theorem endMark_okC (rest : Bytes) : endMark ⟨bs "//" ++ 13 :: 10 :: rest, []⟩ = (.ok (), ⟨rest, []⟩) := by
  gsimp [endMark, lit_ok, eol_crlf]

theorem loop_endC (length : Int) (k : Nat) (s : Sub) (rest : Bytes) :
    recordLoop length 12 (k + 1) s ⟨bs "//" ++ 13 :: 10 :: rest, []⟩ = (.ok s, ⟨rest, []⟩) := by
  simp only [recordLoop, P.bind_run, attempt_run, endMark_okC, P.pure_run]

/-- the CR LF behind CONTIG: skipped as an empty unknown line (the input goes on) -/
theorem loop_blankC (length : Int) (k : Nat) (s : Sub) (c : UInt8) (rest : Bytes) :
    recordLoop length 12 (k + 1) s ⟨13 :: 10 :: c :: rest, []⟩ = recordLoop length 12 k s ⟨c :: rest, []⟩ := by
  have hline := line_okC [] (c :: rest) [] rfl
  simp only [List.nil_append] at hline
  simp only [recordLoop, P.bind_run, attempt_run, endMark_cr, tryAll_blankC, hline, getS,
    List.isEmpty_cons, Bool.false_eq_true, if_false]

/-! ### sections of the CRLF file -/

/-- `SecOK` for the CRLF translation of the section's text: the same number of passes, the same
action on the record read so far -/
def SecOKC (length : Int) (sec : Section) : Prop :=
  (∀ rest, startsField (Origin.crlf sec.text ++ rest) = true) ∧ sec.iters ≤ sec.text.length ∧
  ∀ (k : Nat) (s : Sub) (rest : Bytes), startsField rest = true →
    recordLoop length 12 (k + sec.iters) s ⟨Origin.crlf sec.text ++ rest, []⟩ =
      recordLoop length 12 k (sec.act s) ⟨rest, []⟩

theorem crlf_secsText_cons (x : Section) (xs : List Section) :
    Origin.crlf (secsText (x :: xs)) = Origin.crlf x.text ++ Origin.crlf (secsText xs) := by
  simp [secsText, List.flatMap_cons, crlf_append]

theorem secsText_startsC (length : Int) (secs : List Section) (h : ∀ x ∈ secs, SecOKC length x) (rest : Bytes)
    (hrest : startsField rest = true) : startsField (Origin.crlf (secsText secs) ++ rest) = true := by
  cases secs with
  | nil => simpa [secsText, Origin.crlf] using hrest
  | cons x xs =>
    have := (h x (by simp)).1 (Origin.crlf (secsText xs) ++ rest)
    rw [crlf_secsText_cons, List.append_assoc]
    exact this

theorem loop_sectionsC (length : Int) (secs : List Section) (h : ∀ x ∈ secs, SecOKC length x) (k : Nat) (s : Sub)
    (rest : Bytes) (hrest : startsField rest = true) :
    recordLoop length 12 (k + secsIters secs) s ⟨Origin.crlf (secsText secs) ++ rest, []⟩ =
      recordLoop length 12 k (secsAct secs s) ⟨rest, []⟩ := by
  induction secs generalizing k s with
  | nil => simp [secsIters, secsText, secsAct, Origin.crlf]
  | cons x xs ih =>
    have hx := h x (by simp)
    have hxs : ∀ y ∈ xs, SecOKC length y := fun y hy => h y (by simp [hy])
    have e1 : k + secsIters (x :: xs) = (k + secsIters xs) + x.iters := by
      simp [secsIters]; omega
    rw [e1, crlf_secsText_cons, List.append_assoc,
      hx.2.2 _ s _ (secsText_startsC length xs hxs rest hrest), ih hxs]
    rfl

theorem secsIters_leC (length : Int) (secs : List Section) (h : ∀ x ∈ secs, SecOKC length x) :
    secsIters secs ≤ (secsText secs).length := by
  induction secs with
  | nil => simp [secsIters, secsText]
  | cons x xs ih =>
    have := (h x (by simp)).2.1
    have := ih (fun y hy => h y (by simp [hy]))
    simp only [secsIters, secsText, List.map_cons, List.sum_cons, List.flatMap_cons, List.length_append] at *
    omega

/-- a section that one sub-parser takes in one pass; `ctext` is the section's text as it stands in
the CRLF file -/
theorem secOKC_of_tryAll (length : Int) (text ctext : Bytes) (act : Sub → Sub)
    (hc : Origin.crlf text = ctext)
    (hne : ∃ c txt, ctext = c :: txt ∧ isUpper c = true)
    (hstart : ∀ rest, startsField (ctext ++ rest) = true)
    (h : ∀ (s : Sub) (rest : Bytes), startsField rest = true →
      tryAll length 12 s ⟨ctext ++ rest, []⟩ = (.ok (.parsed (act s)), ⟨rest, []⟩)) :
    SecOKC length ⟨text, act, 1⟩ := by
  obtain ⟨c, txt, rfl, hcu⟩ := hne
  refine ⟨by simp only [hc]; exact hstart, ?_, ?_⟩
  · cases text with
    | nil => simp [Origin.crlf] at hc
    | cons _ _ => simp
  · intro k s rest hrest
    simp only [hc]
    exact loop_step length k s (act s) c (txt ++ rest) rest hcu (h s rest hrest)

theorem crlf_lf_end (a : Bytes) : Origin.crlf (a ++ [10]) = Origin.crlf a ++ [13, 10] := by
  rw [crlf_append]; rfl

theorem secDefinition_okC (length : Int) (v : Bytes) (hv : noCR v = true) : SecOKC length (secDefinition v) := by
  unfold secDefinition
  apply secOKC_of_tryAll length _ (bs "DEFINITION  " ++ (Origin.crlf (addPrefix indent v) ++ [46, 13, 10]))
  · rw [crlf_append, crlf_append]
    have h1 : Origin.crlf (bs "DEFINITION  ") = bs "DEFINITION  " := by decide
    have h2 : Origin.crlf (bs ".\n") = [46, 13, 10] := by decide
    rw [h1, h2]
  · exact ⟨68, bs "EFINITION  " ++ (Origin.crlf (addPrefix indent v) ++ [46, 13, 10]), by simp [bs], by decide⟩
  · intro rest; simp [startsField, refStop, refAltList, bs, List.isPrefixOf]; decide
  · intro s rest hrest
    obtain ⟨f, t, o, r⟩ := s
    have e2 : bs "DEFINITION  " ++ (Origin.crlf (addPrefix indent v) ++ [46, 13, 10]) ++ rest =
        bs "DEFINITION  " ++ (Origin.crlf (addPrefix indent v) ++ (46 :: 13 :: 10 :: rest)) := by
      simp [List.append_assoc]
    rw [e2]
    have hr := definition_roundtripC f v rest
      [bs "DEFINITION  " ++ (Origin.crlf (addPrefix indent v) ++ (46 :: 13 :: 10 :: rest))] hv
      (startsField_not_sp 12 (by omega) rest hrest)
    exact tryAll_liftF 0 (by omega) length f _ t o r _ rest (by simp [notNames]) (definitionField 12)
      (by simp [fieldParsers]) hr

theorem secAccession_okC (length : Int) (l : Bytes) (hl : noEOL l = true) : SecOKC length (secAccession l) := by
  unfold secAccession
  apply secOKC_of_tryAll length _ (bs "ACCESSION   " ++ (l ++ [13, 10]))
  · rw [crlf_append, crlf_lf_end, crlf_noLF l (noEOL_noLF l hl)]
    have h1 : Origin.crlf (bs "ACCESSION   ") = bs "ACCESSION   " := by decide
    rw [h1]
  · exact ⟨65, bs "CCESSION   " ++ (l ++ [13, 10]), by simp [bs], by decide⟩
  · intro rest; simp [startsField, refStop, refAltList, bs, List.isPrefixOf]; decide
  · intro s rest hrest
    obtain ⟨f, t, o, r⟩ := s
    have e2 : bs "ACCESSION   " ++ (l ++ [13, 10]) ++ rest = bs "ACCESSION   " ++ (l ++ 13 :: 10 :: rest) := by
      simp [List.append_assoc]
    rw [e2]
    have hr := accession_roundtripC f l rest [bs "ACCESSION   " ++ (l ++ 13 :: 10 :: rest)] hl
      (startsField_not_sp 12 (by omega) rest hrest)
    exact tryAll_liftF 1 (by omega) length f _ t o r _ rest (by simp [notNames, fieldNames, bs, List.isPrefixOf])
      (accessionField 12) (by simp [fieldParsers]) hr

theorem secVersion_okC (length : Int) (l : Bytes) (hl : noEOL l = true) : SecOKC length (secVersion l) := by
  unfold secVersion
  apply secOKC_of_tryAll length _ (bs "VERSION     " ++ (l ++ [13, 10]))
  · rw [crlf_append, crlf_lf_end, crlf_noLF l (noEOL_noLF l hl)]
    have h1 : Origin.crlf (bs "VERSION     ") = bs "VERSION     " := by decide
    rw [h1]
  · exact ⟨86, bs "ERSION     " ++ (l ++ [13, 10]), by simp [bs], by decide⟩
  · intro rest; simp [startsField, refStop, refAltList, bs, List.isPrefixOf]; decide
  · intro s rest hrest
    obtain ⟨f, t, o, r⟩ := s
    have e2 : bs "VERSION     " ++ (l ++ [13, 10]) ++ rest = bs "VERSION     " ++ (l ++ 13 :: 10 :: rest) := by
      simp [List.append_assoc]
    rw [e2]
    have hr := version_roundtripC f l rest [bs "VERSION     " ++ (l ++ 13 :: 10 :: rest)] hl
      (startsField_not_sp 12 (by omega) rest hrest)
    exact tryAll_liftF 2 (by omega) length f _ t o r _ rest (by simp [notNames, fieldNames, bs, List.isPrefixOf])
      (versionField 12) (by simp [fieldParsers]) hr

theorem secDblink_okC (length : Int) (p : Bytes × Bytes) (ps : List (Bytes × Bytes))
    (hps : ∀ q ∈ p :: ps, pairOk q = true) : SecOKC length (secDblink p ps) := by
  unfold secDblink
  obtain ⟨h1, _, _⟩ := pairOk_spec p (hps p (by simp))
  have hc : Origin.crlf (dblinkText (p :: ps) true) =
      bs "DBLINK" ++ (sp 6 ++ ((p.1 ++ 58 :: 32 :: p.2) ++ 13 :: 10 :: dblinkMoreTextC ps)) := by
    have := dblinkText_eq p ps []
    simp only [List.append_nil] at this
    rw [this, crlf_append, crlf_append, crlf_append, crlf_cons_lf, crlf_sp,
      crlf_noLF _ (noEOL_noLF _ h1), crlf_dblinkMoreText ps (fun q hq => hps q (by simp [hq]))]
    have h0 : Origin.crlf (bs "DBLINK") = bs "DBLINK" := by decide
    rw [h0]
  apply secOKC_of_tryAll length _ _ _ hc
  · exact ⟨68, bs "BLINK" ++ (sp 6 ++ ((p.1 ++ 58 :: 32 :: p.2) ++ 13 :: 10 :: dblinkMoreTextC ps)), by simp [bs], by decide⟩
  · intro rest; simp [startsField, refStop, refAltList, bs, List.isPrefixOf]; decide
  · intro s rest hrest
    obtain ⟨f, t, o, r⟩ := s
    have e2 : bs "DBLINK" ++ (sp 6 ++ ((p.1 ++ 58 :: 32 :: p.2) ++ 13 :: 10 :: dblinkMoreTextC ps)) ++ rest =
        bs "DBLINK" ++ (sp 6 ++ ((p.1 ++ 58 :: 32 :: p.2) ++ 13 :: 10 :: (dblinkMoreTextC ps ++ rest))) := by
      simp [List.append_assoc]
    rw [e2]
    have hr := dblink_roundtripC f p ps rest
      [bs "DBLINK" ++ (sp 6 ++ ((p.1 ++ 58 :: 32 :: p.2) ++ 13 :: 10 :: (dblinkMoreTextC ps ++ rest)))] hps
      (startsField_not_sp 12 (by omega) rest hrest)
    refine tryAll_liftF 3 (by omega) length f _ t o r _ rest ?_ (dblinkField 12) (by simp [fieldParsers]) hr
    simp [notNames, fieldNames, bs, List.isPrefixOf]

theorem secKeywords_okC (length : Int) (kws : List Bytes) (h : listOk kws = true) : SecOKC length (secKeywords kws) := by
  unfold secKeywords
  apply secOKC_of_tryAll length _
    (bs "KEYWORDS    " ++ (Origin.crlf (addPrefix indent (wrapSpace (joinWith (bs "; ") kws ++ [46]))) ++ [13, 10]))
  · rw [crlf_append, crlf_lf_end]
    have h1 : Origin.crlf (bs "KEYWORDS    ") = bs "KEYWORDS    " := by decide
    rw [h1]
  · exact ⟨75, bs "EYWORDS    " ++ (Origin.crlf (addPrefix indent (wrapSpace (joinWith (bs "; ") kws ++ [46]))) ++ [13, 10]),
      by simp [bs], by decide⟩
  · intro rest; simp [startsField, refStop, refAltList, bs, List.isPrefixOf]; decide
  · intro s rest hrest
    obtain ⟨f, t, o, r⟩ := s
    have e2 : bs "KEYWORDS    " ++ (Origin.crlf (addPrefix indent (wrapSpace (joinWith (bs "; ") kws ++ [46]))) ++ [13, 10]) ++ rest =
        bs "KEYWORDS    " ++ (Origin.crlf (addPrefix indent (wrapSpace (joinWith (bs "; ") kws ++ [46]))) ++ 13 :: 10 :: rest) := by
      simp [List.append_assoc]
    rw [e2]
    have hr := fun st => keywords_roundtripC f kws rest st h (startsField_not_sp 12 (by omega) rest hrest)
    exact tryAll_liftF 4 (by omega) length f _ t o r _ rest (by simp [notNames, fieldNames, bs, List.isPrefixOf])
      (keywordsField 12) (by simp [fieldParsers]) (hr _)

theorem secSource_okC (length : Int) (species name : Bytes) (taxon : List Bytes)
    (hs : noCR (species) = true) (hn : organismOk name = true) (ht : taxonOk taxon = true) :
    SecOKC length (secSource species name taxon) := by
  unfold secSource
  have hn2 : noEOL name = true := by
    simp only [organismOk, Bool.and_eq_true] at hn; exact hn.1
  apply secOKC_of_tryAll length _
    (bs "SOURCE      " ++ (Origin.crlf (addPrefix indent (species)) ++ 13 :: 10 ::
      (bs "  ORGANISM  " ++ (name ++ 13 :: 10 ::
      (indent ++ (Origin.crlf (addPrefix indent (wrapSpace (joinWith (bs "; ") taxon ++ [46]))) ++ [13, 10]))))))
  · have h1 : Origin.crlf (bs "SOURCE      ") = bs "SOURCE      " := by decide
    have h2 : Origin.crlf (bs "  ORGANISM  ") = bs "  ORGANISM  " := by decide
    rw [addPrefix_noLF _ name hn2]
    simp only [crlf_append, crlf_cons_lf, h1, h2, crlf_noLF name (noEOL_noLF name hn2), indent, crlf_sp,
      crlf_nil]
  · exact ⟨83, _, by simp [bs]; rfl, by decide⟩
  · intro rest; simp [startsField, refStop, refAltList, bs, List.isPrefixOf]; decide
  · intro s rest hrest
    obtain ⟨f, t, o, r⟩ := s
    have e2 : bs "SOURCE      " ++ (Origin.crlf (addPrefix indent (species)) ++ 13 :: 10 ::
        (bs "  ORGANISM  " ++ (name ++ 13 :: 10 ::
        (indent ++ (Origin.crlf (addPrefix indent (wrapSpace (joinWith (bs "; ") taxon ++ [46]))) ++ [13, 10]))))) ++ rest =
        bs "SOURCE      " ++ (Origin.crlf (addPrefix indent (species)) ++ 13 :: 10 ::
        (bs "  ORGANISM  " ++ (name ++ 13 :: 10 ::
        (indent ++ (Origin.crlf (addPrefix indent (wrapSpace (joinWith (bs "; ") taxon ++ [46]))) ++ 13 :: 10 :: rest))))) := by
      simp [List.append_assoc]
    rw [e2]
    have hr := fun st => source_roundtripC f species name taxon rest st hs hn ht (startsField_not_sp 12 (by omega) rest hrest)
    exact tryAll_liftF 5 (by omega) length f _ t o r _ rest (by simp [notNames, fieldNames, bs, List.isPrefixOf])
      (sourceField 12) (by simp [fieldParsers]) (hr _)

theorem secComment_okC (length : Int) (v : Bytes) (hv : noCR v = true) : SecOKC length (secComment v) := by
  unfold secComment
  apply secOKC_of_tryAll length _ (bs "COMMENT     " ++ (Origin.crlf (addPrefix indent v) ++ [13, 10]))
  · rw [crlf_append, crlf_lf_end]
    have h1 : Origin.crlf (bs "COMMENT     ") = bs "COMMENT     " := by decide
    rw [h1]
  · exact ⟨67, bs "OMMENT     " ++ (Origin.crlf (addPrefix indent v) ++ [13, 10]), by simp [bs], by decide⟩
  · intro rest; simp [startsField, refStop, refAltList, bs, List.isPrefixOf]; decide
  · intro s rest hrest
    obtain ⟨f, t, o, r⟩ := s
    have e2 : bs "COMMENT     " ++ (Origin.crlf (addPrefix indent v) ++ [13, 10]) ++ rest =
        bs "COMMENT     " ++ (Origin.crlf (addPrefix indent v) ++ 13 :: 10 :: rest) := by
      simp [List.append_assoc]
    rw [e2]
    have hr := fun st => comment_roundtripC f v rest st hv (startsField_not_sp 12 (by omega) rest hrest)
    exact tryAll_liftF 7 (by omega) length f _ t o r _ rest (by simp [notNames, fieldNames, bs, List.isPrefixOf])
      (commentField 12) (by simp [fieldParsers]) (hr _)

theorem refHead_noLF (x : Reference) (h : referenceOk x = true) : noLF (refHead x) := by
  simp only [referenceOk, Bool.and_eq_true, Bool.or_eq_true, decide_eq_true_eq, List.all_eq_true] at h
  obtain ⟨⟨⟨⟨⟨hn0, hn1⟩, hinfo⟩, _⟩, _⟩, _⟩ := h
  obtain ⟨n, hn⟩ : ∃ n : Nat, x.number = (n : Int) := ⟨x.number.toNat, by omega⟩
  have hnum : itoaB x.number = natDigits n := by rw [hn]; simp [itoaB]
  have hb : noLF (bs "REFERENCE   ") := noLF_of_all _ (by decide)
  unfold refHead
  split
  · rw [hnum]; exact noLF_append hb (natDigits_noLF n)
  · rw [hnum]
    exact noLF_append (noLF_append (noLF_append hb (natDigits_noLF n)) (noLF_sp _)) (noEOL_noLF _ hinfo)

theorem secReference_okC (length : Int) (x : Reference) (h : referenceOk x = true) : SecOKC length (secReference x) := by
  unfold secReference
  obtain ⟨tl, htl⟩ := refHead_eq x
  have hc : Origin.crlf (refHead x ++ 10 :: subLinesText (presentLines x)) =
      refHead x ++ 13 :: 10 :: subLinesTextC (presentLines x) := by
    rw [crlf_append, crlf_cons_lf, crlf_noLF _ (refHead_noLF x h), crlf_subLinesText]
  apply secOKC_of_tryAll length _ _ _ hc
  · exact ⟨82, bs "EFERENCE   " ++ (tl ++ 13 :: 10 :: subLinesTextC (presentLines x)), by rw [htl]; simp [bs], by decide⟩
  · intro rest; rw [htl]; simp [startsField, refStop, refAltList, bs, List.isPrefixOf]; decide
  · intro s rest hrest
    obtain ⟨f, t, o, r⟩ := s
    have e2 : refHead x ++ 13 :: 10 :: subLinesTextC (presentLines x) ++ rest =
        refHead x ++ 13 :: 10 :: (subLinesTextC (presentLines x) ++ rest) := by simp [List.append_assoc]
    rw [e2]
    have hr := fun st => reference_roundtripC f x rest st h (startsField_refStop rest hrest)
    refine tryAll_liftF 6 (by omega) length f _ t o r _ rest ?_ (referenceField 12) (by simp [fieldParsers]) (hr _)
    rw [htl]; simp [notNames, fieldNames, bs, List.isPrefixOf]

theorem secExtra_okC (length : Int) (name value : Bytes) (hw : WritableExtra name value = true)
    (hn : extraNameOk name = true) : SecOKC length (secExtra name value) := by
  unfold secExtra
  have hw' := hw
  simp only [WritableExtra, Bool.and_eq_true, Bool.not_eq_true', List.isEmpty_eq_false_iff] at hw'
  obtain ⟨⟨⟨⟨hne, hup⟩, hlen⟩, _⟩, _⟩ := hw'
  have hpl : 12 ≤ (padRight 12 name).length := by
    simp only [padRight, List.length_append, sp_length]; omega
  have hpn : noLF (padRight 12 name) := by
    refine noLF_append ?_ (noLF_sp _)
    intro c hc e
    subst e
    have := List.all_eq_true.mp hup 10 hc
    revert this; decide
  have hc : Origin.crlf (extraText name value ++ [10]) =
      padRight 12 name ++ (Origin.crlf (addPrefix indent value) ++ [13, 10]) := by
    rw [crlf_lf_end, extraText, crlf_append, crlf_noLF _ hpn, List.append_assoc]
  have hres : ∀ n ∈ reservedNames, ∀ Y, (bs n).isPrefixOf (padRight 12 name ++ Y) = false := by
    intro n hnm Y
    simp only [extraNameOk, List.all_eq_true, Bool.not_eq_true'] at hn
    have := hn n hnm
    rw [isPrefixOf_append_long _ _ _ (by have := reserved_lengths n hnm; omega)]
    exact this
  obtain ⟨c, tl, hcn⟩ : ∃ c tl, name = c :: tl := by
    cases name with
    | nil => exact absurd rfl hne
    | cons c tl => exact ⟨c, tl, rfl⟩
  have hcu : isUpper c = true := by
    rw [hcn] at hup; simp only [List.all_cons, Bool.and_eq_true] at hup; exact hup.1
  have hnot : ∀ Y, notNames 11 (padRight 12 name ++ Y) = true := by
    intro Y
    simp only [notNames, List.all_eq_true, Bool.not_eq_true']
    intro n hnm
    exact hres n (by
      have : fieldNames.take 11 = fieldNames := by decide
      rw [this] at hnm
      simp [reservedNames, hnm]) Y
  apply secOKC_of_tryAll length _ _ _ hc
  · exact ⟨c, tl ++ sp (12 - name.length) ++ (Origin.crlf (addPrefix indent value) ++ [13, 10]),
      by simp [padRight, hcn, List.append_assoc], hcu⟩
  · intro rest
    simp only [startsField, Bool.and_eq_true, refStop, bne_iff_ne, ne_eq, List.all_eq_true, Bool.not_eq_true']
    have e : padRight 12 name ++ (Origin.crlf (addPrefix indent value) ++ [13, 10]) ++ rest =
        c :: (tl ++ sp (12 - name.length) ++ (Origin.crlf (addPrefix indent value) ++ [13, 10]) ++ rest) := by
      simp [padRight, hcn, List.append_assoc]
    refine ⟨by rw [e]; simp [hcu], ?_, ?_⟩
    · rw [e]; simpa using upper_ne_blank c hcu
    · intro x hx
      have hx' : x.1 ∈ reservedNames := by
        have : refAltList.map (·.1) = refNames := by decide
        simp only [reservedNames, List.mem_append]; right
        rw [← this]; exact List.mem_map_of_mem hx
      have := hres x.1 hx' ((Origin.crlf (addPrefix indent value) ++ [13, 10]) ++ rest)
      simpa [List.append_assoc] using this
  · intro s rest hrest
    obtain ⟨f, t, o, r⟩ := s
    have e2 : padRight 12 name ++ (Origin.crlf (addPrefix indent value) ++ [13, 10]) ++ rest =
        padRight 12 name ++ (Origin.crlf (addPrefix indent value) ++ 13 :: 10 :: rest) := by simp [List.append_assoc]
    rw [e2]
    exact tryAll_extraC length f t o r name value rest (hnot _) hw (startsField_not_sp 12 (by omega) rest hrest)

theorem contigText_noLF (g : Fields) (h : contigOk g = true) : noLF (contigText g) := by
  simp only [contigOk, Bool.and_eq_true, Bool.not_eq_true', decide_eq_true_eq] at h
  obtain ⟨⟨⟨h1, h2⟩, _⟩, h4, _, h6, _⟩ := h
  obtain ⟨a, ha⟩ : ∃ a : Nat, g.contigHead + 1 = (a : Int) := ⟨(g.contigHead + 1).toNat, by omega⟩
  obtain ⟨b, hb⟩ : ∃ b : Nat, g.contigTail = (b : Int) := ⟨g.contigTail.toNat, by omega⟩
  have ea : itoaB (g.contigHead + 1) = natDigits a := by rw [ha]; simp [itoaB]
  have eb : itoaB g.contigTail = natDigits b := by rw [hb]; simp [itoaB]
  simp only [contigText, h1, Bool.false_eq_true, if_false, ea, eb]
  exact noLF_append (noLF_append (noLF_append (noLF_append (noLF_append (noLF_append
    (noLF_of_all _ (by decide)) (noEOL_noLF _ h2)) (noLF_cons (by decide) noLF_nil)) (natDigits_noLF a))
    (noLF_of_all _ (by decide))) (natDigits_noLF b)) (noLF_cons (by decide) noLF_nil)

/-- CONTIG in a CRLF file: the field, then its CR LF as an empty unknown line: two passes -/
theorem secContig_okC (length : Int) (g : Fields) (h : contigOk g = true) : SecOKC length (secContig g) := by
  unfold secContig
  have hc : Origin.crlf (bs "CONTIG      " ++ (contigText g ++ [10])) = bs "CONTIG      " ++ (contigText g ++ [13, 10]) := by
    have h1 : Origin.crlf (bs "CONTIG      ") = bs "CONTIG      " := by decide
    rw [crlf_append, crlf_lf_end, crlf_noLF _ (contigText_noLF g h), h1]
  refine ⟨?_, by simp [bs], ?_⟩
  · intro rest; simp only [hc]; simp [startsField, refStop, refAltList, bs, List.isPrefixOf]; decide
  · intro k s rest hrest
    simp only [hc]
    obtain ⟨f, t, o, r⟩ := s
    obtain ⟨c, rr, hcr, _⟩ := startsField_spec rest hrest
    have e2 : bs "CONTIG      " ++ (contigText g ++ [13, 10]) ++ rest = bs "CONTIG      " ++ (contigText g ++ 13 :: 10 :: rest) := by
      simp [List.append_assoc]
    have e3 : bs "CONTIG      " ++ (contigText g ++ 13 :: 10 :: rest) = 67 :: (bs "ONTIG      " ++ (contigText g ++ 13 :: 10 :: rest)) := by
      simp [bs]
    have hr := fun st => contig_roundtrip f g (13 :: 10 :: rest) st h
    have ht := tryAll_liftF 9 (by omega) length f _ t o r (bs "CONTIG      " ++ (contigText g ++ 13 :: 10 :: rest)) (13 :: 10 :: rest)
      (by simp [notNames, fieldNames, bs, List.isPrefixOf]) (contigField 12) (by simp [fieldParsers]) (hr _)
    rw [e2, show k + 2 = (k + 1) + 1 by omega]
    rw [e3] at ht ⊢
    rw [loop_step length (k + 1) _ _ 67 _ (13 :: 10 :: rest) (by decide) ht, hcr, loop_blankC]

theorem secOrigin_okC (p : Bytes) (hp : ∀ c ∈ p, Origin.isBase c = true) (hlen : p.length < 10 ^ 9) (hne : p ≠ []) :
    SecOKC (p.length : Int) (secOrigin p) := by
  unfold secOrigin
  have hc : Origin.crlf (bs "ORIGIN      \n" ++ Origin.originStream p) =
      bs "ORIGIN      " ++ 13 :: 10 :: Origin.crlf (Origin.originStream p) := by
    have h1 : Origin.crlf (bs "ORIGIN      \n") = bs "ORIGIN      " ++ [13, 10] := by decide
    rw [crlf_append, h1]; simp
  apply secOKC_of_tryAll _ _ _ _ hc
  · exact ⟨79, bs "RIGIN      " ++ 13 :: 10 :: Origin.crlf (Origin.originStream p), by simp [bs], by decide⟩
  · intro rest; simp [startsField, refStop, refAltList, bs, List.isPrefixOf]; decide
  · intro s rest hrest
    obtain ⟨f, t, o, r⟩ := s
    have e2 : bs "ORIGIN      " ++ 13 :: 10 :: Origin.crlf (Origin.originStream p) ++ rest =
        bs "ORIGIN      " ++ 13 :: 10 :: (Origin.crlf (Origin.originStream p) ++ rest) := by
      simp [List.append_assoc]
    rw [e2]
    have hr := fun st => origin_roundtripC p rest st hp hlen hne (startsField_head rest hrest)
    apply tryAll_at 10 (by omega) (p.length : Int) _ _ _ rest [] (by simp [notNames, fieldNames, bs, List.isPrefixOf])
      (originSub (p.length : Int) 12) (by simp [fieldParsers])
    · gsimp [originSub, hr]
    · rfl

end Gts.GenBank
