/-
  C07, "never hangs": what can be said about the fuel of the GenBank reader's loops.

  * The line loops (`bodyMore`, `taxonMore`, `dblinkMore`) consume at least the indent per
    iteration (`depth ≥ 1`; `genbankLocusParser` reports `depth ≥ 5`): with more fuel than bytes
    left the outcome does not depend on the fuel.
  * The record loop: running out of fuel can only ever surface as the error value.  An outcome
    other than that error is the same for every larger fuel (`recordLoop_mono`).
  * The stronger statement "fuel `2n+2` is never exhausted" is FALSE (`recordLoop_fuel_refuted`):
    frames leaked by a failing location parser inside the feature table stay on the stack, a
    SOURCE field without ORGANISM pops one of them together with the frame of `tryAllParsers`, and
    the scan jumps BACK to the leaked position and reads the same lines again, once per leaked
    frame.  The number of iterations is then quadratic in the input size.
  Core Lean only.
-/
import Gts.Lemmas.GbSafeRecord
namespace Gts.GenBank
open Gts.Pars

/-! ### the record loop: more fuel never changes an outcome other than the error value -/

theorem recordLoop_mono (length : Int) (depth : Nat) : ∀ k (sub : Sub) (s : PS) r s',
    (recordLoop length depth k sub).run' s = (r, s') → r ≠ .error .fail →
    ∀ m, k ≤ m → (recordLoop length depth m sub).run' s = (r, s')
  | 0, sub, s, r, s', h, hr, _, _ => by
    rw [recordLoop, run_fail] at h
    cases h; exact absurd rfl hr
  | k + 1, sub, s, r, s', h, hr, m, hm => by
    obtain ⟨m, rfl⟩ : ∃ m', m = m' + 1 := ⟨m - 1, by omega⟩
    have ih := recordLoop_mono length depth k
    rw [recordLoop] at h ⊢
    rw [run_bind] at h ⊢
    generalize (attempt endMark).run' s = x1 at h ⊢
    rcases x1 with ⟨r1, s1⟩
    rcases r1 with e | o
    · exact h
    · dsimp only at h ⊢
      rcases o with _ | u
      · dsimp only at h ⊢
        rw [run_bind] at h ⊢
        generalize (tryAll length depth sub).run' s1 = x2 at h ⊢
        rcases x2 with ⟨r2, s2⟩
        rcases r2 with e | st
        · exact h
        · dsimp only at h ⊢
          cases st with
          | parsed sub' =>
            dsimp only at h ⊢
            exact ih sub' s2 r s' h hr m (by omega)
          | skip sub' =>
            dsimp only at h ⊢
            rw [run_bind, run_line] at h ⊢
            dsimp only at h ⊢
            rw [run_bind, run_getS] at h ⊢
            dsimp only at h ⊢
            split
            · rename_i hc; rw [if_pos hc] at h; exact h
            · rename_i hc; rw [if_neg hc] at h
              exact ih sub' _ r s' h hr m (by omega)
      · exact h

/-! ### … and the fuel `2n+2` is NOT always enough -/

/-- twenty empty lines, then a SOURCE field without ORGANISM and the end mark -/
def rescanRest : Bytes := List.replicate 20 10 ++ bs "SOURCE      x\n//\n"

/-- … with three saved copies of the same position below it (what a failing location parser
leaves behind inside a feature table) -/
def rescanState : PS := ⟨rescanRest, [rescanRest, rescanRest, rescanRest]⟩

def sub0 : Sub := (Fields.empty, [], .buffer [], Registry.default)

/-- from a sorted state the fuel `2n+2` of `GenBankParser` can run out: with fuel 76 = 2·37+2 the
loop gives up 21 bytes before the end, with fuel 200 it ends — as Go does — with the hard failure
of the fourth reading of the SOURCE line, 17 bytes before the end -/
theorem recordLoop_fuel_refuted :
    ¬ ∀ (length : Int) (depth : Nat) (sub : Sub) (s : PS), Sorted s.rest.length s.stk →
      ∀ n m, 2 * s.rest.length + 2 ≤ n → n ≤ m →
        (recordLoop length depth n sub).run' s = (recordLoop length depth m sub).run' s := by
  intro h
  have hs : Sorted rescanState.rest.length rescanState.stk :=
    ⟨Nat.le_refl _, Nat.le_refl _, Nat.le_refl _, trivial⟩
  have e := h 0 12 sub0 rescanState hs 76 200 (by decide) (by decide)
  have e' := congrArg (fun x => x.2.rest.length) e
  exact absurd e' (by decide +kernel)


/-! ### the line loops -/

theorem bodyMore_fuel (d : Nat) (sep : UInt8) (hd : 1 ≤ d) : ∀ f f' acc k (s : PS),
    s.rest.length < f → s.rest.length < f' →
    (bodyMore d sep f acc k).run' s = (bodyMore d sep f' acc k).run' s
  | 0, _, _, _, _, h, _ => absurd h (Nat.not_lt_zero _)
  | _ + 1, 0, _, _, _, _, h => absurd h (Nat.not_lt_zero _)
  | f + 1, f' + 1, acc, k, s, hf, hf' => by
    rw [bodyMore, bodyMore, run_bind, run_bind, run_attempt, run_fieldLine]
    by_cases hc : (s.rest.take (sp d).length == sp d && decide ((sp d).length ≤ s.rest.length)) = true
    · rw [if_pos hc]
      dsimp only
      have hl := splitLine_len (s.rest.drop (sp d).length)
      simp only [Bool.and_eq_true, decide_eq_true_eq] at hc
      have hsp : (sp d).length = d := by simp [sp]
      rw [hsp] at hl hc
      simp only [List.length_drop] at hl
      apply bodyMore_fuel d sep hd f f'
      · show (Origin.splitLine (s.rest.drop (sp d).length)).2.length < f
        rw [hsp]; omega
      · show (Origin.splitLine (s.rest.drop (sp d).length)).2.length < f'
        rw [hsp]; omega
    · rw [if_neg hc]

theorem taxonMore_fuel (d : Nat) (hd : 1 ≤ d) : ∀ f f' acc (s : PS),
    s.rest.length < f → s.rest.length < f' →
    (taxonMore d f acc).run' s = (taxonMore d f' acc).run' s
  | 0, _, _, _, h, _ => absurd h (Nat.not_lt_zero _)
  | _ + 1, 0, _, _, _, h => absurd h (Nat.not_lt_zero _)
  | f + 1, f' + 1, acc, s, hf, hf' => by
    rw [taxonMore, taxonMore, run_bind, run_bind, run_attempt, run_fieldLine]
    by_cases hc : (s.rest.take (sp d).length == sp d && decide ((sp d).length ≤ s.rest.length)) = true
    · rw [if_pos hc]
      dsimp only
      have hl := splitLine_len (s.rest.drop (sp d).length)
      simp only [Bool.and_eq_true, decide_eq_true_eq] at hc
      have hsp : (sp d).length = d := by simp [sp]
      rw [hsp] at hl hc
      simp only [List.length_drop] at hl
      apply taxonMore_fuel d hd f f'
      · show (Origin.splitLine (s.rest.drop (sp d).length)).2.length < f
        rw [hsp]; omega
      · show (Origin.splitLine (s.rest.drop (sp d).length)).2.length < f'
        rw [hsp]; omega
    · rw [if_neg hc]

theorem dblinkMore_fuel (d : Nat) (hd : 1 ≤ d) : ∀ k k' fl (s : PS),
    s.rest.length < k → s.rest.length < k' →
    (dblinkMore d k fl).run' s = (dblinkMore d k' fl).run' s
  | 0, _, _, _, h, _ => absurd h (Nat.not_lt_zero _)
  | _ + 1, 0, _, _, _, h => absurd h (Nat.not_lt_zero _)
  | k + 1, k' + 1, fl, s, hk, hk' => by
    rw [dblinkMore, dblinkMore, run_bind, run_bind, run_attempt, run_lit]
    by_cases hc : (s.rest.take (sp d).length == sp d && decide ((sp d).length ≤ s.rest.length)) = true
    · rw [if_pos hc]
      dsimp only
      rw [run_bind, run_bind, run_line]
      dsimp only
      have hl := splitLine_len (s.rest.drop (sp d).length)
      simp only [Bool.and_eq_true, decide_eq_true_eq] at hc
      have hsp : (sp d).length = d := by simp [sp]
      rw [hsp] at hl hc
      simp only [List.length_drop] at hl
      split
      · rfl
      · apply dblinkMore_fuel d hd k k'
        · show (Origin.splitLine (s.rest.drop (sp d).length)).2.length < k
          rw [hsp]; omega
        · show (Origin.splitLine (s.rest.drop (sp d).length)).2.length < k'
          rw [hsp]; omega
    · rw [if_neg hc]

end Gts.GenBank
