/-
  C07, "never hangs": the fuel of the GenBank reader's loops.

  * The line loops (`bodyMore`, `taxonMore`, `dblinkMore`) consume at least the indent per
    iteration (`depth ≥ 1`; `genbankLocusParser` reports `depth ≥ 5`): with more fuel than bytes
    left the outcome does not depend on the fuel.
  * The record loop: running out of fuel can only ever surface as the error value; an outcome
    other than that error is the same for every larger fuel (`recordLoop_mono`).  Since 66de3a0
    (SOURCE without ORGANISM clears the saved positions instead of popping one that is not its
    own) the fuel is also ADEQUATE: every iteration consumes input or ends the loop
    (`recordLoop_fuel`, Gts/Lemmas/GbProgress.lean).  The former counter-example (leaked
    location-parser frames, skipped lines, SOURCE without ORGANISM: quadratic re-reading) is kept
    as a state on which both fuels now agree (`rescanState`).
  * The scan loop: every record read consumes its LOCUS keyword.
  Core Lean only.
-/
import Gts.Lemmas.GbSafeRecord
import Gts.Lemmas.GbProgress
namespace Gts.GenBank
open Gts.Pars

/-! ### the record loop: more fuel never changes an outcome other than the error value -/

theorem recordLoop_mono (length : Int) (depth : Nat) : ∀ k (sub : Sub) (s : PS) r s',
    (recordLoop length depth k sub).run' s = (r, s') → r ≠ .error .fail →
    ∀ m, k ≤ m → (recordLoop length depth m sub).run' s = (r, s')
  | 0, sub, s, r, s', h, hr, _, _ => by
    rw [recordLoop, run_fail] at h
    cases h; exact absurd rfl hr
  | k + 1, sub, s, r, s', h, hr, m, hm => by
    obtain ⟨m, rfl⟩ : ∃ m', m = m' + 1 := ⟨m - 1, by omega⟩
    have ih := recordLoop_mono length depth k
    rw [recordLoop] at h ⊢
    rw [run_bind] at h ⊢
    generalize (attempt endMark).run' s = x1 at h ⊢
    rcases x1 with ⟨r1, s1⟩
    rcases r1 with e | o
    · exact h
    · dsimp only at h ⊢
      rcases o with _ | u
      · dsimp only at h ⊢
        rw [run_bind] at h ⊢
        generalize (tryAll length depth sub).run' s1 = x2 at h ⊢
        rcases x2 with ⟨r2, s2⟩
        rcases r2 with e | st
        · exact h
        · dsimp only at h ⊢
          cases st with
          | parsed sub' =>
            dsimp only at h ⊢
            exact ih sub' s2 r s' h hr m (by omega)
          | skip sub' =>
            dsimp only at h ⊢
            rw [run_bind, run_line] at h ⊢
            dsimp only at h ⊢
            rw [run_bind, run_getS] at h ⊢
            dsimp only at h ⊢
            split
            · rename_i hc; rw [if_pos hc] at h; exact h
            · rename_i hc; rw [if_neg hc] at h
              exact ih sub' _ r s' h hr m (by omega)
      · exact h

/-! ### the former counter-example to "the fuel `2n+2` is enough" -/

/-- twenty empty lines, then a SOURCE field without ORGANISM and the end mark -/
def rescanRest : Bytes := List.replicate 20 10 ++ bs "SOURCE      x\n//\n"

/-- … with three saved copies of the same position below it (what a failing location parser
leaves behind inside a feature table).  Before 66de3a0 the record loop went back to these three
times and needed more than `2·37+2` iterations; now it fails at the first reading of the SOURCE
line, three bytes before the end, whatever the fuel. -/
def rescanState : PS := ⟨rescanRest, [rescanRest, rescanRest, rescanRest]⟩

def sub0 : Sub := (Fields.empty, [], .buffer [], Registry.default)

/-! ### the line loops -/

theorem bodyMore_fuel (d : Nat) (sep : UInt8) (hd : 1 ≤ d) : ∀ f f' acc k (s : PS),
    s.rest.length < f → s.rest.length < f' →
    (bodyMore d sep f acc k).run' s = (bodyMore d sep f' acc k).run' s
  | 0, _, _, _, _, h, _ => absurd h (Nat.not_lt_zero _)
  | _ + 1, 0, _, _, _, _, h => absurd h (Nat.not_lt_zero _)
  | f + 1, f' + 1, acc, k, s, hf, hf' => by
    rw [bodyMore, bodyMore, run_bind, run_bind, run_attempt, run_fieldLine]
    by_cases hc : (s.rest.take (sp d).length == sp d && decide ((sp d).length ≤ s.rest.length)) = true
    · rw [if_pos hc]
      dsimp only
      have hl := splitLine_len (s.rest.drop (sp d).length)
      simp only [Bool.and_eq_true, decide_eq_true_eq] at hc
      have hsp : (sp d).length = d := by simp [sp]
      rw [hsp] at hl hc
      simp only [List.length_drop] at hl
      apply bodyMore_fuel d sep hd f f'
      · show (Origin.splitLine (s.rest.drop (sp d).length)).2.length < f
        rw [hsp]; omega
      · show (Origin.splitLine (s.rest.drop (sp d).length)).2.length < f'
        rw [hsp]; omega
    · rw [if_neg hc]

theorem taxonMore_fuel (d : Nat) (hd : 1 ≤ d) : ∀ f f' acc (s : PS),
    s.rest.length < f → s.rest.length < f' →
    (taxonMore d f acc).run' s = (taxonMore d f' acc).run' s
  | 0, _, _, _, h, _ => absurd h (Nat.not_lt_zero _)
  | _ + 1, 0, _, _, _, h => absurd h (Nat.not_lt_zero _)
  | f + 1, f' + 1, acc, s, hf, hf' => by
    rw [taxonMore, taxonMore, run_bind, run_bind, run_attempt, run_fieldLine]
    by_cases hc : (s.rest.take (sp d).length == sp d && decide ((sp d).length ≤ s.rest.length)) = true
    · rw [if_pos hc]
      dsimp only
      have hl := splitLine_len (s.rest.drop (sp d).length)
      simp only [Bool.and_eq_true, decide_eq_true_eq] at hc
      have hsp : (sp d).length = d := by simp [sp]
      rw [hsp] at hl hc
      simp only [List.length_drop] at hl
      apply taxonMore_fuel d hd f f'
      · show (Origin.splitLine (s.rest.drop (sp d).length)).2.length < f
        rw [hsp]; omega
      · show (Origin.splitLine (s.rest.drop (sp d).length)).2.length < f'
        rw [hsp]; omega
    · rw [if_neg hc]

theorem dblinkMore_fuel (d : Nat) (hd : 1 ≤ d) : ∀ k k' fl (s : PS),
    s.rest.length < k → s.rest.length < k' →
    (dblinkMore d k fl).run' s = (dblinkMore d k' fl).run' s
  | 0, _, _, _, h, _ => absurd h (Nat.not_lt_zero _)
  | _ + 1, 0, _, _, _, h => absurd h (Nat.not_lt_zero _)
  | k + 1, k' + 1, fl, s, hk, hk' => by
    rw [dblinkMore, dblinkMore, run_bind, run_bind, run_attempt, run_lit]
    by_cases hc : (s.rest.take (sp d).length == sp d && decide ((sp d).length ≤ s.rest.length)) = true
    · rw [if_pos hc]
      dsimp only
      rw [run_bind, run_bind, run_line]
      dsimp only
      have hl := splitLine_len (s.rest.drop (sp d).length)
      simp only [Bool.and_eq_true, decide_eq_true_eq] at hc
      have hsp : (sp d).length = d := by simp [sp]
      rw [hsp] at hl hc
      simp only [List.length_drop] at hl
      split
      · rfl
      · apply dblinkMore_fuel d hd k k'
        · show (Origin.splitLine (s.rest.drop (sp d).length)).2.length < k
          rw [hsp]; omega
        · show (Origin.splitLine (s.rest.drop (sp d).length)).2.length < k'
          rw [hsp]; omega
    · rw [if_neg hc]

/-! ### the scan loop: every record read consumes its LOCUS keyword -/

theorem locusBack_fails {α} (s : PS) : ∃ s', (locusBack : P α).run' s = (.error .fail, s') := by
  unfold locusBack
  rw [run_bind, run_pop]
  cases s.stk with
  | nil =>
    dsimp only
    rw [run_bind, run_pop]
    cases s.stk <;> exact ⟨_, rfl⟩
  | cons f st =>
    dsimp only
    rw [run_bind, run_pop]
    cases st <;> exact ⟨_, rfl⟩

/-- one element of the LOCUS `Seq` when only the success path matters -/
theorem locusTry_wp2 {α} {p : P α} {Q} {L base} {s : PS} (hp : Safe p) (h : Fr L base 0 s)
    (kok : ∀ a s', Fr L base 0 s' → Q (.ok a) s')
    (kf : ∀ s', Q (.error .fail) s') : WP (locusTry p) Q s := by
  unfold locusTry
  rw [wp_bind]; apply wp_attempt hp h; intro o s1 h1
  dsimp only
  split
  · exact kok _ _ h1
  · obtain ⟨s', e⟩ := locusBack_fails (α := α) s1
    unfold WP; rw [e]; exact kf s'

theorem wp_push_eq {Q} {s : PS} (k : Q (.ok ()) { s with stk := s.rest :: s.stk }) : WP push Q s := k

theorem wp_lit_eq {Q} (p : Bytes) {s : PS}
    (kok : p.length ≤ s.rest.length → Q (.ok ()) { s with rest := s.rest.drop p.length })
    (kf : Q (.error .fail) s) : WP (lit p) Q s := by
  unfold WP; rw [run_lit]
  split
  · rename_i hc
    simp only [Bool.and_eq_true, decide_eq_true_eq] at hc
    exact kok hc.2
  · exact kf

/-- `locusTry` when the post-condition holds for every failure -/
theorem locusTry_wp3 {α} {p : P α} {Q : Except Err α → PS → Prop} {s : PS}
    (hp : WP p (fun r s' => match r with | .ok a => Q (.ok a) s' | .error _ => True) s)
    (kf : ∀ s', Q (.error .fail) s') (kp : ∀ s', Q (.error .panic) s') : WP (locusTry p) Q s := by
  unfold locusTry
  rw [wp_bind]
  unfold WP at hp ⊢
  rw [run_attempt]
  generalize p.run' s = x at hp ⊢
  rcases x with ⟨r, s1⟩
  rcases r with e | a
  · cases e
    · dsimp only
      obtain ⟨s', e⟩ := locusBack_fails (α := α) s1
      rw [e]; exact kf s'
    · exact kp s1
  · exact hp

theorem wp_drop_eq {Q} {s : PS} (k : Q (.ok ()) { s with stk := s.stk.drop 1 }) : WP drop Q s := k

theorem locusBack_wp_any {α} {Q : Except Err α → PS → Prop} {s : PS}
    (kf : ∀ s', Q (.error .fail) s') : WP (locusBack : P α) Q s := by
  obtain ⟨s', e⟩ := locusBack_fails (α := α) s
  unfold WP; rw [e]; exact kf s'

theorem locusTail_wp {L N : Nat} {base} {s : PS} (h : Fr L base 0 s) (x : Locus) (hL : L + 5 ≤ N) :
    WP (do drop; drop; pure x : P Locus)
      (fun r s' => ∀ l, r = .ok l → s'.rest.length + 5 ≤ N) s := by
  rw [wp_bind]; apply wp_drop_eq; dsimp only
  rw [wp_bind]; apply wp_drop_eq; dsimp only
  rw [wp_pure]; intro _ _
  have := h.le
  show s.rest.length + 5 ≤ N
  omega

/-- a LOCUS line that is read has used up at least the five bytes of `LOCUS` -/
theorem locusParser_consumes (s : PS) (hs : Sorted s.rest.length s.stk) :
    WP locusParser (fun r s' => ∀ l, r = .ok l → s'.rest.length + 5 ≤ s.rest.length) s := by
  unfold locusParser
  rw [wp_bind]; apply wp_push_eq; dsimp only
  rw [wp_bind]; apply wp_push_eq; dsimp only
  rw [wp_bind]
  apply locusTry_wp3
  · apply wp_lit_eq
    · intro hc
      dsimp only
      have h5 : (bs "LOCUS").length = 5 := by decide
      rw [h5] at hc
      dsimp only at hc
      have hfr : Fr (s.rest.length - 5) (s.rest :: s.rest :: s.stk) 0
          ⟨s.rest.drop (bs "LOCUS").length, s.rest :: s.rest :: s.stk⟩ := by
        refine ⟨⟨[], rfl, Nat.le_refl _, fun _ hf => nomatch hf⟩, ?_, ?_⟩
        · show (s.rest.drop _).length ≤ _; rw [h5, List.length_drop]; omega
        · refine ⟨?_, Nat.le_refl _, hs⟩
          show (s.rest.drop _).length ≤ _; rw [List.length_drop]; omega
      repeat (first
        | (with_reducible apply locusTry_wp2 (by safe_side) ‹_› <;> (intros; try contradiction))
        | (with_reducible apply wp_safe (by safe_side) ‹_› <;> (intros; try contradiction))
        | (apply locusBack_wp_any; intro _ l hl; cases hl)
        | (apply locusTail_wp ‹_›; omega)
        | (intro l hl; cases hl)
        | rw [wp_bind]
        | dsimp only
        | split)
    · trivial
  · intro s' l hl; cases hl
  · intro s' l hl; cases hl


theorem wp_clear_eq {Q} {s : PS} (k : Q (.ok ()) { s with stk := [] }) : WP clear Q s := k

/-- a record that is returned has used up at least five bytes -/
theorem genbankParser_consumes (reg : Registry) (s : PS) (hs : Sorted s.rest.length s.stk) :
    WP (genbankParser reg) (fun r s' => ∀ v, r = .ok v → s'.rest.length + 5 ≤ s.rest.length) s := by
  have hsafe := locusParser_safe _ _ _ s (Fr.init hs)
  have hdep := locusParser_depth s
  have hcons := locusParser_consumes s hs
  unfold genbankParser
  rw [wp_bind]
  refine wp_mono (wp_and (wp_and hsafe hdep) hcons) ?_
  intro r s1 ⟨⟨⟨hnp, h1⟩, hd⟩, hc⟩
  rcases r with e | l
  · intro v hv; cases hv
  · dsimp only
    have hd5 := hd l rfl
    have hc5 := hc l rfl
    rw [wp_bind]
    apply wp_clear_eq
    have h2' : Fr (s.rest.length - 5) [] 0 { s1 with stk := [] } :=
      Fr.mk0 (fun _ hf => nomatch hf) (by show s1.rest.length ≤ _; omega) trivial
    dsimp only
    refine wp_mono (Q1 := Std (s.rest.length - 5) [] 0) ?_
      (fun r s' h v _ => by have := h.2.le; omega)
    split
    · repeat wps_step
    · rename_i hcond
      have h0 : 0 ≤ l.length := by omega
      have hrl := recordLoop_safeS (L := s.rest.length - 5) l.length l.depth h0 (by omega)
      repeat wps_step

/-- the fuel `len(input) + 1` of the scan loop is adequate: every record read consumes input, so
any two fuels above the number of bytes give the same result -/
theorem parseAll_fuel : ∀ k k' (reg : Registry) (input : Bytes) (acc : List Record),
    input.length < k → input.length < k' →
    parseAll reg k input acc = parseAll reg k' input acc
  | 0, _, _, _, _, h, _ => absurd h (Nat.not_lt_zero _)
  | _ + 1, 0, _, _, _, _, h => absurd h (Nat.not_lt_zero _)
  | k + 1, k' + 1, reg, input, acc, hk, hk' => by
    unfold parseAll
    split
    · rfl
    · have h := genbankParser_consumes reg ⟨input, []⟩ trivial
      unfold WP at h
      rcases hrun : (genbankParser reg).run' ⟨input, []⟩ with ⟨r, s'⟩
      rw [hrun] at h
      rcases r with e | ⟨rec, reg'⟩
      · cases e <;> rfl
      · dsimp only
        have := h _ rfl
        dsimp only at this
        exact parseAll_fuel k k' reg' s'.rest (rec :: acc) (by omega) (by omega)

end Gts.GenBank
