/-
  C01: the byte FIXED POINT — `GenBank.String` of the record that was read back, under the registry
  the reader ended with, is the text that was read.  Field group by field group:
    header      `headerText` of `readBack`'s fields (REGION suffix now inside the accession)
    table       `tableText reg' (map readFeature)` = `tableText reg` (registries that write the same
                text; a toggle's value is not written; `Props` with distinct names)
    residues    the kept block prints as itself and has the length of the residues
  Core Lean only.
-/
import Gts.Lemmas.GbReadWrite
import Gts.Lemmas.GbFixedProps
namespace Gts.GenBank
open Gts.Pars

/-! ### qualifiers and the table -/

/-- the writer does not look at the value of a toggle: the value that is read back is written as
the value that was written -/
theorem qualifierText_readValue (reg : Registry) (n v : Bytes) :
    qualifierText reg n (readValue reg n v) = qualifierText reg n v := by
  unfold readValue
  split
  · rename_i ht
    simp [qualifierText, ht]
  · rfl

theorem qualifierFmt_readValue (a b : Registry) (h : sameText a b) (pre n v : Bytes) :
    qualifierFmt b pre n (readValue a n v) = qualifierFmt a pre n v := by
  rw [qualifierFmt_same a b h]
  unfold qualifierFmt
  rw [qualifierText_readValue]

/-- one feature: the re-read feature is written, under a registry that writes the same text, as the
feature was — when the written items of one name are consecutive (`propsAdjacent`; `Props.Add`
gathers the rows of one name, so any other order would come back re-ordered) -/
theorem featureText_readFeature (a b : Registry) (h : sameText a b) (depth : Nat) (f : QFeature)
    (hd : propsAdjacent f.props = true) :
    featureText b depth (readFeature a f) = featureText a depth f := by
  simp only [propsAdjacent, Bool.and_eq_true] at hd
  obtain ⟨hok, hg⟩ := hd
  have hok' : propsOk (readFeature a f).props = true := propsNorm_ok _ (propsOfItems_norm _)
  have hkeys : (readItems a f.props).map (·.1) = (propsItems f.props).map (·.1) := by
    simp [readItems, List.map_map, Function.comp_def]
  have hitems : propsItems (readFeature a f).props = readItems a f.props :=
    propsItems_propsOfItems _ (by rw [hkeys]; exact hg)
  simp only [featureText, hok, hok', Bool.not_true, Bool.false_eq_true, if_false, hitems]
  simp only [readFeature]
  unfold readItems
  rw [List.flatMap_map]
  congr 3
  funext kv
  simp only [qualifierFmt_readValue a b h]

theorem tableDepth_readFeature (a : Registry) (fs : List QFeature) :
    tableDepth (fs.map (readFeature a)) = tableDepth fs := by
  unfold tableDepth
  rw [List.foldl_map]
  rfl

theorem tableTextD_readFeature (a b : Registry) (h : sameText a b) (depth : Nat) (fs : List QFeature)
    (hd : ∀ f ∈ fs, propsAdjacent f.props = true) :
    tableTextD b depth (fs.map (readFeature a)) = tableTextD a depth fs := by
  induction fs with
  | nil => rfl
  | cons f fs ih =>
    have h1 := featureText_readFeature a b h depth f (hd f (by simp))
    have h2 := ih (fun x hx => hd x (by simp [hx]))
    cases fs with
    | nil => simpa [tableTextD] using h1
    | cons g gs =>
      simp only [List.map_cons, tableTextD] at h2 ⊢
      rw [h1, h2]

/-- **FEATURES, fixed point**: the table that was read back, written under a registry that writes
the same text (`learnTable reg table` is one), gives the text that was read -/
theorem tableText_readFeature (a b : Registry) (h : sameText a b) (fs : List QFeature)
    (hd : ∀ f ∈ fs, propsAdjacent f.props = true) :
    tableText b (fs.map (readFeature a)) = tableText a fs := by
  unfold tableText
  rw [tableDepth_readFeature, tableTextD_readFeature a b h _ fs hd]

/-! ### header -/

/-- **header fields, fixed point**: the accession that came back carries the REGION suffix and the
region is gone (K1A) — the header text is the same -/
theorem headerText_readBack (f : Fields) (L : Int) :
    headerText { f with accession := accessionLine f, region := none } L = headerText f L := by
  have hl : locusLine { f with accession := accessionLine f, region := none } L = locusLine f L := rfl
  unfold headerText
  rw [hl]
  cases hreg : f.region with
  | none => simp [accessionLine, hreg]
  | some ht =>
    obtain ⟨hh, t⟩ := ht
    by_cases hlt : t ≤ hh
    · simp [accessionLine, hreg, hlt]
    · simp [accessionLine, hreg, hlt, List.append_assoc]

/-! ### the record -/

/-- the distinct-names clause for a table -/
def tableDistinct (fs : List QFeature) : Bool := fs.all fun f => propsDistinct f.props

/-- the adjacent-names clause for a table: in every feature the written qualifiers of one name are
consecutive -/
def tableAdjacent (fs : List QFeature) : Bool := fs.all fun f => propsAdjacent f.props

theorem tableAdjacent_of_distinct (fs : List QFeature) (h : tableDistinct fs = true) : tableAdjacent fs = true := by
  simp only [tableDistinct, tableAdjacent, List.all_eq_true] at h ⊢
  exact fun f hf => propsAdjacent_of_distinct _ (h f hf)

theorem origin_readBack (p : Bytes) (hlen : p.length < 10 ^ 9) :
    (OriginV.len (if p.isEmpty then .buffer [] else .buffer (Origin.originStream p)) = (p.length : Int)) ∧
    (¬ p.isEmpty → OriginV.text (.buffer (Origin.originStream p)) = OriginV.text (.residues p)) := by
  constructor
  · by_cases hp : p.isEmpty = true
    · have : p = [] := by simpa using hp
      subst this
      simp [OriginV.len, Origin.originLen]
    · simp only [hp, Bool.false_eq_true, if_false, OriginV.len, originLen_stream p hlen]
  · intro _
    simp only [OriginV.text, Origin.newOrigin_ok p hlen]

/-- `GenBank.String` looks at the record only through these -/
theorem write_congr (a b : Registry) (r r' : Record)
    (h1 : r'.origin.len = r.origin.len) (h2 : ∀ L, headerText r'.fields L = headerText r.fields L)
    (h3 : contigLen r'.fields = contigLen r.fields) (h4 : contigText r'.fields = contigText r.fields)
    (h5 : r'.table.isEmpty = r.table.isEmpty) (h6 : tableText b r'.table = tableText a r.table)
    (h7 : r.origin.len > 0 → r'.origin.text = r.origin.text) :
    write b r' = write a r := by
  unfold write
  simp only [h1, h2, h3, h4, h5, h6]
  by_cases hpos : r.origin.len > 0
  · simp only [hpos, if_true, h7 hpos]
  · simp only [hpos, if_false]

/-- **write (readBack r) = write r** for every record whose residues are `p` (fewer than 10^9)
and whose written qualifiers of one name are consecutive in every feature, under every registry that writes the same text. -/
theorem write_readBack (a b : Registry) (h : sameText a b) (r : Record) (p : Bytes)
    (ho : r.origin = .residues p) (hlen : p.length < 10 ^ 9) (hd : tableAdjacent r.table = true) :
    write b (readBack a r p) = write a r := by
  have hd' : ∀ x ∈ r.table, propsAdjacent x.props = true := by
    simpa [tableAdjacent, List.all_eq_true] using hd
  obtain ⟨hol, hot⟩ := origin_readBack p hlen
  apply write_congr
  · rw [ho]; exact hol
  · exact fun L => headerText_readBack r.fields L
  · rfl
  · rfl
  · simp only [readBack]; cases r.table <;> rfl
  · exact tableText_readFeature a b h r.table hd'
  · intro hpos
    rw [ho] at hpos ⊢
    have hp : ¬ p.isEmpty = true := by
      intro hp
      have : p = [] := by simpa using hp
      subst this
      simp [OriginV.len] at hpos
    simp only [readBack, hp, Bool.false_eq_true, if_false]
    exact hot hp

/-! ### learning never changes what is written -/

theorem featureText_same (a b : Registry) (h : sameText a b) (depth : Nat) (f : QFeature) :
    featureText b depth f = featureText a depth f := by
  unfold featureText
  simp only [qualifierFmt_same a b h]

theorem tableTextD_same (a b : Registry) (h : sameText a b) (depth : Nat) (fs : List QFeature) :
    tableTextD b depth fs = tableTextD a depth fs := by
  induction fs with
  | nil => rfl
  | cons f fs ih =>
    have h1 := featureText_same a b h depth f
    cases fs with
    | nil => simpa [tableTextD] using h1
    | cons g gs =>
      simp only [tableTextD] at ih ⊢
      rw [h1, ih]

/-- a registry that has only learned unknown names (as quoted) writes every record as before -/
theorem write_same (a b : Registry) (h : sameText a b) (r : Record) : write b r = write a r := by
  apply write_congr a b r r rfl (fun _ => rfl) rfl rfl rfl _ (fun _ => rfl)
  unfold tableText
  exact tableTextD_same a b h _ _

theorem writeAll_same (a b : Registry) (h : sameText a b) (rs : List Record) : writeAll b rs = writeAll a rs := by
  induction rs with
  | nil => rfl
  | cons r rs ih => simp only [writeAll, write_same a b h, ih]

/-! ### `readBack` is idempotent -/

theorem readValue_readValue (a b : Registry) (h : sameText a b) (n v : Bytes) :
    readValue b n (readValue a n v) = readValue a n v := by
  unfold readValue
  rcases h n with h1 | ⟨h1, h2⟩
  · rw [h1]; split <;> simp_all
  · rw [h1, h2]; simp

theorem readFeature_readFeature (a b : Registry) (h : sameText a b) (f : QFeature)
    (hd : propsDistinct f.props = true) : readFeature b (readFeature a f) = readFeature a f := by
  rw [readFeature_props a f hd]
  have hn := readProps_norm a f.props hd
  simp only [readFeature]
  have : readItems b (readProps a f.props) = readItems a f.props := by
    unfold readItems
    rw [propsItems_readProps a f.props hd]
    unfold readItems
    rw [List.map_map]
    apply List.map_congr_left
    intro kv _
    simp only [Function.comp, readValue_readValue a b h]
  rw [this, propsOfItems_readItems a f.props hd]

/-- **the record that was read back reads back as itself**: `readBack` under a registry that writes
the same text is idempotent (accession with its REGION suffix, no region; re-read `Props`; the kept
block) -/
theorem readBack_idem (a b : Registry) (h : sameText a b) (r : Record) (p : Bytes)
    (hd : tableDistinct r.table = true) :
    readBack b (readBack a r p) p = readBack a r p := by
  have hd' : ∀ x ∈ r.table, propsDistinct x.props = true := by
    simpa [tableDistinct, List.all_eq_true] using hd
  have ht : (r.table.map (readFeature a)).map (readFeature b) = r.table.map (readFeature a) := by
    rw [List.map_map]
    apply List.map_congr_left
    intro f hf
    exact readFeature_readFeature a b h f (hd' f hf)
  simp only [readBack, ht, accessionLine, List.append_nil]

/-! ### … without any hypothesis on the table: what was read is what `Props.Add` builds -/

/-- the table that was read back always has distinct row names -/
theorem tableDistinct_readFeature (a : Registry) (fs : List QFeature) :
    tableDistinct (fs.map (readFeature a)) = true := by
  simp only [tableDistinct, List.all_map, List.all_eq_true]
  intro f _
  exact propsNorm_distinct _ (propsOfItems_norm _)

theorem readItems_fixed (b : Registry) (ps : List (List Bytes)) (hn : propsNorm ps = true)
    (hq : RowsQ (fun k w => readValue b k w = w) ps) : readItems b ps = propsItems ps := by
  unfold readItems
  rw [propsItems_rows _ hn]
  have hid : ∀ kv ∈ ps.flatMap rowItems, (kv.1, readValue b kv.1 kv.2) = kv := by
    intro kv hkv
    have h1 : readValue b kv.1 kv.2 = kv.2 := rowsQ_items _ _ hq kv hkv
    rw [h1]
  exact (List.map_congr_left hid).trans (List.map_id _)

theorem readFeature_readFeature' (a b : Registry) (h : sameText a b) (f : QFeature) :
    readFeature b (readFeature a f) = readFeature a f := by
  have hn : propsNorm (propsOfItems (readItems a f.props)) = true := propsOfItems_norm _
  have hq : RowsQ (fun k w => readValue b k w = w) (propsOfItems (readItems a f.props)) := by
    apply propsOfItems_rowsQ
    intro q hq
    simp only [readItems, List.mem_map] at hq
    obtain ⟨kv, _, rfl⟩ := hq
    exact readValue_readValue a b h kv.1 kv.2
  have hi := readItems_fixed b _ hn hq
  simp only [readFeature]
  rw [hi, propsOfItems_propsItems _ hn]

/-- **`readBack` is idempotent on its image**, for every record -/
theorem readBack_idem' (a b : Registry) (h : sameText a b) (r : Record) (p : Bytes) :
    readBack b (readBack a r p) p = readBack a r p := by
  have ht : (r.table.map (readFeature a)).map (readFeature b) = r.table.map (readFeature a) := by
    rw [List.map_map]
    apply List.map_congr_left
    intro f _
    exact readFeature_readFeature' a b h f
  simp only [readBack, ht, accessionLine, List.append_nil]

end Gts.GenBank
