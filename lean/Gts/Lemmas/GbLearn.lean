/-
  C01: reading under a registry that has LEARNED names since the text was written.
  The text of a record written under `reg0` is read under any registry `reg` that writes the same
  text (`sameText reg0 reg`: `reg` is `reg0` with some of `reg0`'s unknown names registered as
  quoted — what reading earlier records of a stream, or the record itself, does): the same record
  comes back, and the registry goes on growing.  Generalisations of `table_ok`,
  `features_roundtrip`, `loop_features`, `read_write`; then streams.  Core Lean only.
-/
import Gts.Lemmas.GbReadWrite
namespace Gts.GenBank
open Gts.Pars

/-! ### the table under a grown registry -/

theorem table_ok_gen (reg0 reg : Registry) (hs : sameText reg0 reg) (ft : QFeature) (fs : List QFeature)
    (rest : Bytes) (stk : List Bytes)
    (hw : ∀ x ∈ ft :: fs, featOk reg0 x = true ∧ LocRT x.loc)
    (hrest : (sp 5).isPrefixOf rest = false) :
    table reg ⟨featsText reg0 (ft :: fs) ++ rest, stk⟩ =
      (.ok ((ft :: fs).map (readFeature reg0), learnTable reg (ft :: fs)), ⟨rest, stk⟩) := by
  obtain ⟨hok, hloc⟩ := hw ft (by simp)
  simp only [featOk, Bool.and_eq_true, List.all_eq_true] at hok
  obtain ⟨hk, hq⟩ := hok
  have hk' := hk
  simp only [keyOk, Bool.and_eq_true, decide_eq_true_eq] at hk'
  have hrest' : (sp 21).isPrefixOf (featsText reg0 fs ++ rest) = false := by
    cases fs with
    | nil => simpa [featsText] using sp_prefix_mono 5 21 rest (by omega) hrest
    | cons ft' fs' =>
      obtain ⟨hok', _⟩ := hw ft' (by simp)
      simp only [featOk, Bool.and_eq_true] at hok'
      simp only [featsText, List.flatMap_cons, List.append_assoc]
      rw [featLines_more]
      exact sp21_keyline _ _ _ hok'.1
  have hlen : (propsItems ft.props).length <
      (qualLines reg0 21 (propsItems ft.props) ++ (featsText reg0 fs ++ rest)).length + 1 := by
    have := qualLines_length_ge reg0 21 (propsItems ft.props)
    simp only [List.length_append]; omega
  have hd : 5 + ft.key.length + (16 - ft.key.length) = 21 := by omega
  have hqs := qualifiers_roundtrip reg0 21 (propsItems ft.props) (featsText reg0 fs ++ rest) stk reg [] _
    hs hq hrest' hlen
  have hlen2 : fs.length <
      (qualLines reg0 21 (propsItems ft.props) ++ (featsText reg0 fs ++ rest)).length + 1 := by
    have := featsText_length_ge reg0 fs
    simp only [List.length_append]; omega
  have hmore := tableMore_ok reg0 fs rest stk (learnAll reg (propsItems ft.props)) [readFeature reg0 ft] _
    (sameText_learnAll reg0 reg _ hs) (fun x hx => hw x (by simp [hx])) hrest hlen2
  have e : featsText reg0 (ft :: fs) ++ rest =
      keylineText ft.key ft.loc (qualLines reg0 21 (propsItems ft.props) ++ (featsText reg0 fs ++ rest)) := by
    simp only [featsText, List.flatMap_cons, List.append_assoc]
    rw [featLines_more]
  rw [e]
  simp only [table, P.bind_run, firstKeyline_ok _ _ _ _ hk hloc, hd, getS, hqs,
    List.reverse_nil, List.nil_append]
  simp only [readFeature, readItems] at hmore
  rw [hmore]
  simp [readFeature, readItems, learnTable]

/-- the FEATURES section written under `reg0`, read under `reg` -/
theorem features_roundtrip_gen (reg0 reg : Registry) (hs : sameText reg0 reg) (ft : QFeature)
    (fs : List QFeature) (rest : Bytes)
    (stk : List Bytes) (hw : tableWritable reg0 (ft :: fs) = true) (hloc : ∀ x ∈ ft :: fs, LocRT x.loc)
    (hrest : (sp 5).isPrefixOf rest = false) :
    ∃ t, tableText reg0 (ft :: fs) = .ok t ∧
      featuresField reg ⟨bs "FEATURES             Location/Qualifiers\n" ++ (t ++ 10 :: rest), stk⟩ =
        (.ok ((ft :: fs).map (readFeature reg0), learnTable reg (ft :: fs)), ⟨rest, []⟩) := by
  simp only [tableWritable, List.all_eq_true, Bool.and_eq_true] at hw
  have hk : ∀ f ∈ ft :: fs, f.key.length ≤ 15 ∧ propsOk f.props = true := by
    intro f hf
    obtain ⟨h1, h2⟩ := hw f hf
    simp only [featOk, keyOk, Bool.and_eq_true, decide_eq_true_eq] at h1
    exact ⟨h1.1.2, h2⟩
  obtain ⟨t, ht, e⟩ := tableText_lines reg0 ft fs hk
  refine ⟨t, ht, ?_⟩
  have e2 : t ++ 10 :: rest = featsText reg0 (ft :: fs) ++ rest := by
    rw [← e]; simp
  rw [e2]
  have hline := fun s => line_ok (bs "             Location/Qualifiers") (featsText reg0 (ft :: fs) ++ rest) s (by decide)
  have hlit := fun r s => lit_ok (bs "FEATURES") r s
  have e3 : bs "FEATURES             Location/Qualifiers\n" ++ (featsText reg0 (ft :: fs) ++ rest) =
      bs "FEATURES" ++ (bs "             Location/Qualifiers" ++ 10 :: (featsText reg0 (ft :: fs) ++ rest)) := by
    simp [bs]
  rw [e3]
  have ht' := fun s => table_ok_gen reg0 reg hs ft fs rest s (fun x hx => ⟨(hw x hx).1, hloc x hx⟩) hrest
  gsimp [featuresField, hlit, hline, ht']

theorem loop_features_gen (reg0 reg : Registry) (hs : sameText reg0 reg) (length : Int) (k : Nat) (f : Fields)
    (t : List QFeature) (o : OriginV)
    (ft : QFeature) (fs : List QFeature) (rest : Bytes) (hw : tableWritable reg0 (ft :: fs) = true)
    (hloc : ∀ x ∈ ft :: fs, LocRT x.loc) (hrest : startsField rest = true) :
    ∃ txt, tableText reg0 (ft :: fs) = .ok txt ∧
      recordLoop length 12 (k + 1) (f, t, o, reg)
          ⟨bs "FEATURES             Location/Qualifiers\n" ++ (txt ++ 10 :: rest), []⟩ =
        recordLoop length 12 k (f, (ft :: fs).map (readFeature reg0), o, learnTable reg (ft :: fs)) ⟨rest, []⟩ := by
  obtain ⟨txt, htxt, _⟩ := features_roundtrip_gen reg0 reg hs ft fs rest [] hw hloc
    (startsField_not_sp 5 (by omega) rest hrest)
  refine ⟨txt, htxt, ?_⟩
  have hrun : ∀ st, featuresField reg ⟨bs "FEATURES             Location/Qualifiers\n" ++ (txt ++ 10 :: rest), st⟩ =
      (.ok ((ft :: fs).map (readFeature reg0), learnTable reg (ft :: fs)), ⟨rest, []⟩) := by
    intro st
    obtain ⟨txt', htxt', hr⟩ := features_roundtrip_gen reg0 reg hs ft fs rest st hw hloc
      (startsField_not_sp 5 (by omega) rest hrest)
    rw [htxt] at htxt'
    cases htxt'
    exact hr
  have e3 : bs "FEATURES             Location/Qualifiers\n" ++ (txt ++ 10 :: rest) =
      70 :: (bs "EATURES             Location/Qualifiers\n" ++ (txt ++ 10 :: rest)) := by simp [bs]
  have ht : tryAll length 12 (f, t, o, reg) ⟨bs "FEATURES             Location/Qualifiers\n" ++ (txt ++ 10 :: rest), []⟩ =
      (.ok (.parsed (f, (ft :: fs).map (readFeature reg0), o, learnTable reg (ft :: fs))), ⟨rest, []⟩) := by
    apply tryAll_at 8 (by omega) length _ _ _ rest [] (by simp [notNames, fieldNames, bs, List.isPrefixOf])
      featuresSub (by simp [fieldParsers])
    · gsimp [featuresSub, hrun]
    · rfl
  rw [e3] at ht ⊢
  exact loop_step length k _ _ 70 _ rest (by decide) ht

/-! ### the record under a grown registry -/

/-- **read (write r) under a grown registry.**  `GenBankParser` under `reg` on the text
`GenBank.String` wrote under `reg0`, when `reg` writes the same text as `reg0`: it returns
`readBack reg0 r p`, leaves exactly `rest'`, and ends with `learnTable reg r.table`. -/
theorem read_write_gen (reg0 reg : Registry) (hs : sameText reg0 reg) (r : Record) (p : Bytes)
    (ho : r.origin = .residues p)
    (hw : Writable reg0 r p = true) (hloc : ∀ x ∈ r.table, LocRT x.loc) (rest' : Bytes) :
    ∃ t, write reg0 r = .ok t ∧ t ≠ [] ∧
      genbankParser reg ⟨t ++ rest', []⟩ = (.ok (readBack reg0 r p, learnTable reg r.table), ⟨rest', []⟩) := by
  obtain ⟨hlocus, hrange, hmol, hh, htw, hc, hp, hlen⟩ := writable_parts reg0 r p hw
  obtain ⟨hw1, hw2⟩ := write_eq reg0 r p ho hh hlen
  have hA := headerSecs_ok r.fields (locusLength r.fields p) hh
  have hB := tailSecs_ok r.fields p hc hp hlen
  have hitA := secsIters_le _ _ hA
  have hitB := secsIters_le _ _ hB
  have hsA : secsAct (headerSecs r.fields) (startFields r.fields, [], .buffer [], reg) =
      (headerRead r.fields, [], .buffer [], reg) :=
    secsAct_header r.fields (startFields r.fields) [] (.buffer []) reg (headerOk_distinct _ hh)
      (by simp [startFields, Fields.empty])
  have hfin : ∀ (tab : List QFeature) (reg' : Registry) (REST : Bytes),
      recordLoop (locusLength r.fields p) 12 (2 * REST.length + 2) (startFields r.fields, [], .buffer [], reg) ⟨REST, []⟩ =
        (.ok (secsAct (tailSecs r.fields p)
          (headerRead r.fields,
            tab, .buffer [], reg')), ⟨rest', []⟩) →
      tab = r.table.map (readFeature reg0) →
      genbankParser reg ⟨locusLine r.fields (locusLength r.fields p) ++ 10 :: REST, []⟩ =
        (.ok (readBack reg0 r p, reg'), ⟨rest', []⟩) := by
    intro tab reg' REST hloop htab
    rw [secsAct_tail] at hloop
    have := genbankParser_of_loop reg reg' r.fields _ (locusLength r.fields p) REST rest' tab _ hlocus hrange hmol hloop (by
      by_cases hpe : p.isEmpty = true
      · simp only [hpe, if_true, OriginV.len, Origin.originLen, List.length_nil, if_true]
        by_cases hca : r.fields.contigAcc.isEmpty = true
        · simp only [hca, if_true, decide_eq_true_eq] at hc
          have : locusLength r.fields p = 0 := by
            simp [locusLength, hpe, contigLen, hc.1, hc.2]
          simp [this]
        · simp [hca]
      · simp only [hpe, Bool.false_eq_true, if_false, OriginV.len, originLen_stream p hlen]
        have : locusLength r.fields p = (p.length : Int) := by simp [locusLength, hpe]
        simp [this])
    rw [this, readBack_eq reg0 r p tab hc htab]
  cases htab : r.table with
  | nil =>
    refine ⟨_, hw1 htab, by simp, ?_⟩
    have e : locusLine r.fields (locusLength r.fields p) ++ 10 ::
        (secsText (headerSecs r.fields) ++ (secsText (tailSecs r.fields p) ++ bs "//\n")) ++ rest' =
        locusLine r.fields (locusLength r.fields p) ++ 10 ::
        (secsText (headerSecs r.fields) ++ ([] ++ (secsText (tailSecs r.fields p) ++ (bs "//\n" ++ rest')))) := by
      simp [List.append_assoc]
    rw [e]
    have := hfin [] reg _ (by
      rw [← hsA]
      exact parse_chain _ _ _ hA hB [] 0 _ _ rest' _ (fun rest h => by simpa using h)
        (fun k rest _ => by simp) (by
          simp only [List.length_append, List.nil_append] at hitA hitB ⊢
          omega)) (by simp [htab])
    simpa [learnTable] using this
  | cons ft fs =>
    rw [htab] at htw hloc
    simp only at htw
    obtain ⟨txt, htxt, _⟩ := loop_features_gen reg0 reg hs (locusLength r.fields p) 0 (startFields r.fields) []
      (.buffer []) ft fs (bs "//\n") htw hloc (startsField_end [])
    refine ⟨_, hw2 ft fs txt htab htxt, by simp, ?_⟩
    have e : locusLine r.fields (locusLength r.fields p) ++ 10 ::
        (secsText (headerSecs r.fields) ++ (bs "FEATURES             Location/Qualifiers\n" ++ (txt ++ 10 ::
          (secsText (tailSecs r.fields p) ++ bs "//\n")))) ++ rest' =
        locusLine r.fields (locusLength r.fields p) ++ 10 ::
        (secsText (headerSecs r.fields) ++ ((bs "FEATURES             Location/Qualifiers\n" ++ (txt ++ [10])) ++
          (secsText (tailSecs r.fields p) ++ (bs "//\n" ++ rest')))) := by
      simp [List.append_assoc]
    rw [e]
    have hmid : ∀ k rest, startsField rest = true →
        recordLoop (locusLength r.fields p) 12 (k + 1) (secsAct (headerSecs r.fields) (startFields r.fields, [], .buffer [], reg))
          ⟨(bs "FEATURES             Location/Qualifiers\n" ++ (txt ++ [10])) ++ rest, []⟩ =
        recordLoop (locusLength r.fields p) 12 k
          (headerRead r.fields,
            (ft :: fs).map (readFeature reg0), .buffer [], learnTable reg (ft :: fs)) ⟨rest, []⟩ := by
      intro k rest hrest
      rw [hsA]
      obtain ⟨txt', htxt', hl⟩ := loop_features_gen reg0 reg hs (locusLength r.fields p) k _ [] (.buffer []) ft fs rest
        htw hloc hrest
      rw [htxt] at htxt'
      cases htxt'
      have e2 : (bs "FEATURES             Location/Qualifiers\n" ++ (txt ++ [10])) ++ rest =
          bs "FEATURES             Location/Qualifiers\n" ++ (txt ++ 10 :: rest) := by simp [List.append_assoc]
      rw [e2]; exact hl
    have := hfin ((ft :: fs).map (readFeature reg0)) (learnTable reg (ft :: fs)) _
      (parse_chain _ _ _ hA hB _ 1 _ _ rest' _ (fun rest _ => by
          simp [startsField, refStop, refAltList, bs, List.isPrefixOf]; decide) hmid (by
          have := mid_length_pos txt
          simp only [List.length_append] at hitA hitB this ⊢
          omega)) (by simp [htab])
    exact this

/-! ### names that are known stay known, and teach nothing -/

theorem learn_known (reg : Registry) (n : Bytes) (h : reg.typeOf n ≠ .unknown) : learn reg n = reg := by
  unfold learn; rw [if_neg h]

theorem known_learn (reg : Registry) (n m : Bytes) (h : reg.typeOf m ≠ .unknown) :
    (learn reg n).typeOf m ≠ .unknown := by
  unfold learn
  split
  · rw [typeOf_addQuoted]
    split
    · exact fun e => by cases e
    · exact h
  · exact h

theorem learn_self_known (reg : Registry) (n : Bytes) : (learn reg n).typeOf n ≠ .unknown := by
  unfold learn
  split
  · rw [typeOf_addQuoted, if_pos rfl]; exact fun e => by cases e
  · assumption

theorem known_learnAll (reg : Registry) (items : List (Bytes × Bytes)) (m : Bytes)
    (h : reg.typeOf m ≠ .unknown) : (learnAll reg items).typeOf m ≠ .unknown := by
  induction items generalizing reg with
  | nil => exact h
  | cons kv items ih => exact ih (learn reg kv.1) (known_learn reg kv.1 m h)

theorem learnAll_names_known (reg : Registry) (items : List (Bytes × Bytes)) :
    ∀ kv ∈ items, (learnAll reg items).typeOf kv.1 ≠ .unknown := by
  induction items generalizing reg with
  | nil => intro kv h; simp at h
  | cons x items ih =>
    intro kv hkv
    rcases List.mem_cons.mp hkv with rfl | hkv
    · exact known_learnAll (learn reg kv.1) items kv.1 (learn_self_known reg kv.1)
    · exact ih (learn reg x.1) kv hkv

theorem learnAll_known (reg : Registry) (items : List (Bytes × Bytes))
    (h : ∀ kv ∈ items, reg.typeOf kv.1 ≠ .unknown) : learnAll reg items = reg := by
  induction items with
  | nil => rfl
  | cons kv items ih =>
    simp only [learnAll, List.foldl_cons]
    rw [learn_known reg kv.1 (h kv (by simp))]
    exact ih (fun x hx => h x (by simp [hx]))

theorem known_learnTable (reg : Registry) (fs : List QFeature) (m : Bytes)
    (h : reg.typeOf m ≠ .unknown) : (learnTable reg fs).typeOf m ≠ .unknown := by
  induction fs generalizing reg with
  | nil => exact h
  | cons f fs ih => exact ih _ (known_learnAll reg _ m h)

theorem learnTable_names_known (reg : Registry) (fs : List QFeature) :
    ∀ f ∈ fs, ∀ kv ∈ propsItems f.props, (learnTable reg fs).typeOf kv.1 ≠ .unknown := by
  induction fs generalizing reg with
  | nil => intro f h; simp at h
  | cons x fs ih =>
    intro f hf kv hkv
    rcases List.mem_cons.mp hf with rfl | hf
    · exact known_learnTable _ fs kv.1 (learnAll_names_known reg _ kv hkv)
    · exact ih _ f hf kv hkv

theorem learnTable_known (reg : Registry) (fs : List QFeature)
    (h : ∀ f ∈ fs, ∀ kv ∈ propsItems f.props, reg.typeOf kv.1 ≠ .unknown) : learnTable reg fs = reg := by
  induction fs with
  | nil => rfl
  | cons f fs ih =>
    simp only [learnTable, List.foldl_cons]
    rw [learnAll_known reg _ (h f (by simp))]
    exact ih (fun x hx => h x (by simp [hx]))

/-- a table teaches its names once: reading it again changes nothing -/
theorem learnTable_idem (reg : Registry) (fs : List QFeature) :
    learnTable (learnTable reg fs) fs = learnTable reg fs :=
  learnTable_known _ fs (learnTable_names_known reg fs)

/-- … and neither does any registry that has grown from there -/
theorem learnTable_known_of_le (reg reg' : Registry) (fs : List QFeature)
    (h : ∀ m, (learnTable reg fs).typeOf m ≠ .unknown → reg'.typeOf m ≠ .unknown) :
    learnTable reg' fs = reg' :=
  learnTable_known _ fs (fun f hf kv hkv => h _ (learnTable_names_known reg fs f hf kv hkv))

/-! ### streams in which records teach the registry new names -/

/-- the registry after reading the records of a stream one after the other -/
def learnStream (reg : Registry) (rs : List Record) : Registry :=
  rs.foldl (fun g r => learnTable g r.table) reg

theorem sameText_learnStream (a b : Registry) (rs : List Record) (h : sameText a b) :
    sameText a (learnStream b rs) := by
  induction rs generalizing b with
  | nil => exact h
  | cons r rs ih => exact ih _ (sameText_learnTable a b r.table h)

theorem learnStream_le (reg : Registry) (rs : List Record) : reg.le (learnStream reg rs) := by
  induction rs generalizing reg with
  | nil => exact le_refl' reg
  | cons r rs ih => exact le_trans' (learnTable_le reg r.table) (ih _)

theorem parseAll_records_gen (reg0 : Registry) (rs : List (Record × Bytes))
    (hall : ∀ x ∈ rs, x.1.origin = .residues x.2 ∧ Writable reg0 x.1 x.2 = true ∧ (∀ f ∈ x.1.table, LocRT f.loc))
    (reg : Registry) (hs : sameText reg0 reg) (acc : List Record) (fuel : Nat) (hf : rs.length < fuel) :
    ∃ t, writeAll reg0 (rs.map (·.1)) = .ok t ∧ rs.length ≤ t.length ∧
      parseAll reg fuel t acc =
        some (acc.reverse ++ rs.map (fun x => readBack reg0 x.1 x.2), learnStream reg (rs.map (·.1)), true) := by
  induction rs generalizing reg acc fuel with
  | nil =>
    cases fuel with
    | zero => omega
    | succ k => exact ⟨[], rfl, by simp, by simp [parseAll, learnStream]⟩
  | cons x rs ih =>
    cases fuel with
    | zero => omega
    | succ k =>
      obtain ⟨ho, hw, hloc⟩ := hall x (by simp)
      obtain ⟨t2, hw2, hl2, hp2⟩ := ih (fun y hy => hall y (by simp [hy])) (learnTable reg x.1.table)
        (sameText_learnTable reg0 reg x.1.table hs) (readBack reg0 x.1 x.2 :: acc) k
        (by simp only [List.length_cons] at hf; omega)
      obtain ⟨t1, hw1, hne, hp1⟩ := read_write_gen reg0 reg hs x.1 x.2 ho hw hloc t2
      refine ⟨t1 ++ t2, ?_, ?_, ?_⟩
      · simp only [List.map_cons, writeAll, hw1, hw2]; rfl
      · have : 1 ≤ t1.length := by cases t1 with | nil => exact absurd rfl hne | cons _ _ => simp
        simp only [List.length_cons, List.length_append]; omega
      · have hne' : (t1 ++ t2).isEmpty = false := by cases t1 with | nil => exact absurd rfl hne | cons _ _ => rfl
        simp only [parseAll, hne', Bool.false_eq_true, if_false, P.run', ExceptT.run, StateT.run] at hp2 ⊢
        have hp1' : (genbankParser reg) ⟨t1 ++ t2, []⟩ =
            (.ok (readBack reg0 x.1 x.2, learnTable reg x.1.table), ⟨t2, []⟩) := hp1
        rw [show (genbankParser reg : PS → _) ⟨t1 ++ t2, []⟩ = _ from hp1']
        simp only [hp2]
        simp [learnStream]

/-- **Streams with learning.**  The records are written one after the other under the registry
`reg0` as it is at write time (writing registers nothing); the reader starts with any registry `reg`
that writes the same text and carries what it learns from one record to the next. -/
theorem read_stream_learning (reg0 reg : Registry) (hs : sameText reg0 reg) (rs : List (Record × Bytes))
    (hall : ∀ x ∈ rs, x.1.origin = .residues x.2 ∧ Writable reg0 x.1 x.2 = true ∧ (∀ f ∈ x.1.table, LocRT f.loc)) :
    ∃ t, writeAll reg0 (rs.map (·.1)) = .ok t ∧
      readAll reg t = some (rs.map (fun x => readBack reg0 x.1 x.2), learnStream reg (rs.map (·.1)), true) := by
  obtain ⟨t, hw, hl, _⟩ := parseAll_records_gen reg0 rs hall reg hs [] (rs.length + 1) (by omega)
  obtain ⟨t', hw', _, hp⟩ := parseAll_records_gen reg0 rs hall reg hs [] (t.length + 1) (by omega)
  rw [hw] at hw'
  cases hw'
  exact ⟨t, hw, by simpa [readAll] using hp⟩

end Gts.GenBank
