/-
  `Location.Normalize(length)` after `Expand(0, n)` (= `gts.Rotate` on a location): positions are
  reduced modulo `L`.  Core Lean only.
-/
import Gts.Lemmas.Guest
namespace Gts

theorem mod_window (L qL x : Int) (q : Int) (hq : q * L = qL) (h0 : qL ≤ x) (h1 : x < qL + L) :
    x % L = x - qL := by
  have : x = (x - qL) + q * L := by omega
  rw [this, Int.add_mul_emod_self_right, Int.emod_eq_of_lt (by omega) (by omega)]
  omega

namespace Loc

/-- image of `[s, e)` (shorter than `L`, `s ≥ 0`) under `· % L` when it does not wrap -/
theorem map_mod_irange_nowrap (s e L qL q : Int) (hq : q * L = qL)
    (h0 : qL ≤ s) (h1 : e ≤ qL + L) :
    (irange s (e - s).toNat).map (· % L) = irange (s - qL) (e - s).toNat := by
  have := irange_map_of_eq s (-qL) (e - s).toNat (· % L) (fun x hx1 hx2 => by
    show x % L = x + -qL
    rw [mod_window L qL x q hq (by omega) (by omega)]; omega)
  rw [this]; congr 1

theorem tmod_nonneg_eq (a L : Int) (h : 0 ≤ a) : Int.tmod a L = a % L := Int.tmod_eq_emod_of_nonneg h

/-- the contiguous law of Normalize for a range with `0 ≤ s < e`, shorter than `L` -/
theorem den_rangedNormalize (s e : Int) (p5 p3 : Bool) (L : Int) (hs : 0 ≤ s) (h : s < e) (hlen : e - s < L) :
    den (rangedNormalize s e p5 p3 L) = mapPos (· % L) (den (ranged s e p5 p3)) ∧
    wf (rangedNormalize s e p5 p3 L) = true := by
  have hL : 0 < L := by omega
  unfold rangedNormalize
  rw [if_neg (by omega)]
  simp only [tmod_nonneg_eq s L hs, tmod_nonneg_eq (e - 1) L (by omega)]
  -- s = r + q * L
  have hdecomp := Int.emod_add_ediv_mul s L
  have hr0 := Int.emod_nonneg s (show L ≠ 0 by omega)
  have hr1 := Int.emod_lt_of_pos s hL
  generalize hq : s / L = q at hdecomp
  generalize hqL : q * L = qL at hdecomp
  generalize hr : s % L = r at hdecomp hr0 hr1
  simp only [den_ranged, mapPos_fwd]
  by_cases hw : r + (e - s) ≤ L
  · -- no wrap
    have he : (e - 1) % L = e - 1 - qL := mod_window L qL (e - 1) q hqL (by omega) (by omega)
    rw [he, if_pos (by omega)]
    refine ⟨?_, by simp only [wf, decide_eq_true_eq]; omega⟩
    simp only [den_ranged]
    congr 1
    rw [map_mod_irange_nowrap s e L qL q hqL (by omega) (by omega)]
    have e1 : s - qL = r := by omega
    have e2 : (e - 1 - qL + 1 - r).toNat = (e - s).toNat := by congr 1; omega
    rw [e1, e2]
  · -- wraps once across the origin
    have hq1 : (q + 1) * L = qL + L := by rw [Int.add_mul, hqL]; omega
    have he : (e - 1) % L = e - 1 - (qL + L) :=
      mod_window L (qL + L) (e - 1) (q + 1) hq1 (by omega) (by omega)
    rw [he, if_neg (by omega), join_two_ranged_ne _ _ _ _ _ _ _ _ (by omega)]
    refine ⟨?_, by simp [wf]; omega⟩
    simp only [den_joined, denList_cons, denList_nil, den_ranged, List.append_nil, ← fwd_append]
    congr 1
    -- split the source interval at the origin
    have hsplit : irange s (e - s).toNat = irange s (L - r).toNat ++ irange (s + ((L - r).toNat : Int)) (e - s - (L - r)).toNat := by
      rw [irange_append]; congr 1; omega
    rw [hsplit, List.map_append]
    have m1 := map_mod_irange_nowrap s (s + (L - r)) L qL q hqL (by omega) (by omega)
    have m2 := map_mod_irange_nowrap (s + (L - r)) e L (qL + L) (q + 1) hq1 (by omega) (by omega)
    have t1 : (s + (L - r) - s).toNat = (L - r).toNat := by congr 1; omega
    have t2 : (e - (s + (L - r))).toNat = (e - s - (L - r)).toNat := by congr 1; omega
    have t3 : s + ((L - r).toNat : Int) = s + (L - r) := by omega
    rw [t1] at m1
    rw [t2] at m2
    rw [t3, m1, m2]
    congr 1
    · congr 1 <;> omega
    · congr 1
      · omega
      · congr 1; omega

end Loc
end Gts

namespace Gts
namespace Loc

theorem den_ambiguousNormalize (s e L : Int) (hs : 0 ≤ s) (h : s < e) (hlen : e - s < L)
    (hnw : s % L + (e - s) ≤ L) :
    den (ambiguous (Int.tmod s L) (Int.tmod (e - 1) L + 1)) = mapPos (· % L) (den (ambiguous s e)) ∧
    wf (ambiguous (Int.tmod s L) (Int.tmod (e - 1) L + 1)) = true := by
  have hL : 0 < L := by omega
  simp only [tmod_nonneg_eq s L hs, tmod_nonneg_eq (e - 1) L (by omega)]
  have hdecomp := Int.emod_add_ediv_mul s L
  have hr0 := Int.emod_nonneg s (show L ≠ 0 by omega)
  generalize hq : s / L = q at hdecomp
  generalize hqL : q * L = qL at hdecomp
  generalize hr : s % L = r at hdecomp hr0 hnw
  have he : (e - 1) % L = e - 1 - qL := mod_window L qL (e - 1) q hqL (by omega) (by omega)
  rw [he]
  refine ⟨?_, by simp only [wf, decide_eq_true_eq]; omega⟩
  simp only [den_ambiguous, mapPos_fwd]
  congr 1
  rw [map_mod_irange_nowrap s e L qL q hqL (by omega) (by omega)]
  have e1 : s - qL = r := by omega
  have e2 : (e - 1 - qL + 1 - r).toNat = (e - s).toNat := by congr 1; omega
  rw [e1, e2]

mutual
/-- the domain of the Normalize law: non-negative coordinates, every range/ambiguous span
shorter than `L` (a full-length part is re-based instead, see `C04.full_length`), ambiguous
spans not crossing the origin (as the property states) -/
def normOk (L : Int) : Loc → Bool
  | between p => decide (0 ≤ p)
  | point p => decide (0 ≤ p)
  | ranged s e _ _ => decide (0 ≤ s) && decide (e - s < L)
  | ambiguous s e => decide (0 ≤ s) && decide (e - s < L) && decide (s % L + (e - s) ≤ L)
  | joined ls => normOkList L ls
  | ordered ls => normOkList L ls
  | compl l => normOk L l
def normOkList (L : Int) : List Loc → Bool
  | [] => true
  | l :: ls => normOk L l && normOkList L ls
end

mutual
theorem normalize_mod : ∀ (l : Loc) (L : Int), 0 < L → wf l = true → normOk L l = true →
    (normalizeAbs l L = false → den (normalize l L) ≼ mapPos (· % L) (den l)) ∧
    wf (normalize l L) = true
  | between p, L, _, _, _ => by simp [normalize, wf, Refines.refl]
  | point p, L, _, _, hn => by
      have h0 : 0 ≤ p := by simpa [normOk] using hn
      simp only [normalize, wf, and_true]
      intro _
      apply Refines.of_eq
      simp [mapPos, tmod_nonneg_eq p L h0]
  | ranged s e a b, L, _, hw, hn => by
      have h : s < e := by simpa [wf] using hw
      simp only [normOk, Bool.and_eq_true, decide_eq_true_eq] at hn
      have := den_rangedNormalize s e a b L hn.1 h hn.2
      simp only [normalize, this.2, and_true]
      intro _; exact Refines.of_eq this.1
  | ambiguous s e, L, _, hw, hn => by
      have h : s < e := by simpa [wf] using hw
      simp only [normOk, Bool.and_eq_true, decide_eq_true_eq] at hn
      have := den_ambiguousNormalize s e L hn.1.1 h hn.1.2 hn.2
      simp only [normalize, this.2, and_true]
      intro _; exact Refines.of_eq this.1
  | joined ls, L, hL, hw, hn => by
      have ih := normalizeList_mod ls L hL (by simpa [wf] using hw) (by simpa [normOk] using hn)
      refine ⟨?_, join_wf _ ih.2⟩
      intro hk
      simp only [normalizeAbs, Bool.or_eq_false_iff] at hk
      simp only [normalize, den_joined]
      exact (join_den _ ih.2 hk.2).trans (ih.1 hk.1)
  | ordered ls, L, hL, hw, hn => by
      have ih := normalizeList_mod ls L hL (by simpa [wf] using hw) (by simpa [normOk] using hn)
      refine ⟨?_, order_wf _ ih.2⟩
      intro hk
      simp only [normalizeAbs] at hk
      simp only [normalize, den_ordered, order_den]
      exact ih.1 hk
  | compl l, L, hL, hw, hn => by
      have ih := normalize_mod l L hL (by simpa [wf] using hw) (by simpa [normOk] using hn)
      refine ⟨?_, by simpa [normalize, wf] using ih.2⟩
      intro hk
      simp only [normalizeAbs] at hk
      simp only [normalize, den_compl, mapPos_flipDen]
      exact (ih.1 hk).flip
theorem normalizeList_mod : ∀ (ls : List Loc) (L : Int), 0 < L → wfList ls = true →
    normOkList L ls = true →
    (normalizeAbsList ls L = false →
      denList (normalizeList ls L) ≼ mapPos (· % L) (denList ls)) ∧
    wfList (normalizeList ls L) = true
  | [], _, _, _, _ => by simp [normalizeList, Refines.refl]
  | l :: ls, L, hL, hw, hn => by
      simp only [wfList_cons, Bool.and_eq_true] at hw
      simp only [normOkList, Bool.and_eq_true] at hn
      have h1 := normalize_mod l L hL hw.1 hn.1
      have h2 := normalizeList_mod ls L hL hw.2 hn.2
      refine ⟨?_, by simp [normalizeList, h1.2, h2.2]⟩
      intro hk
      simp only [normalizeAbsList, Bool.or_eq_false_iff] at hk
      simp only [normalizeList, denList_cons, mapPos_append]
      exact (h1.1 hk.1).append (h2.1 hk.2)
end

end Loc
end Gts
