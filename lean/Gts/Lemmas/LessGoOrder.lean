/-
  `Loc.less` in the order in which the Go function `LocationLess` (location.go:55-123) takes its
  decisions.

  The model (`Gts/Model/Loc.lean`) strips the complements of `a` and expands the parts of `a` FIRST
  (`less` / `anyLess`) and only then looks at `b` (`lessB` / `allLessB`).  The Go code interleaves:
  complement of `a`, complement of `b`, parts of `a` (any), parts of `b` (all), two contiguous
  leaves.  The lemmas below are the five equations of that order, proved of the model — the one with
  content is `less_compl_right` (a complement around `b` can be stripped before `a` is looked at: the
  two recursion orders commute).  `Gts/Bridge/LocLess.lean` uses them to prove the regenerated
  function equal to the model.
-/
import Gts.Model.Loc
namespace Gts.Loc

mutual
/-- number of constructors of a location (the measure of the recursion of `LocationLess`) -/
def size : Loc → Nat
  | between _ => 1
  | point _ => 1
  | ranged _ _ _ _ => 1
  | ambiguous _ _ => 1
  | joined ls => 1 + sizeList ls
  | ordered ls => 1 + sizeList ls
  | compl l => 1 + size l
def sizeList : List Loc → Nat
  | [] => 0
  | l :: ls => size l + sizeList ls
end

theorem size_pos : ∀ l : Loc, 0 < size l
  | between _ | point _ | ranged _ _ _ _ | ambiguous _ _ => by simp [size]
  | joined _ | ordered _ | compl _ => by simp only [size]; omega

theorem size_le_sizeList {l : Loc} : ∀ {ls : List Loc}, l ∈ ls → size l ≤ sizeList ls
  | [], h => by cases h
  | x :: xs, h => by
    simp only [sizeList]
    rcases List.mem_cons.mp h with rfl | h
    · omega
    · have := size_le_sizeList h
      omega

/-- a contiguous leaf: `Between`, `Point`, `Ranged`, `Ambiguous` (the kinds with a `span` method) -/
def isContig : Loc → Bool
  | between _ | point _ | ranged _ _ _ _ | ambiguous _ _ => true
  | _ => false

/-- (1) a complement around `a` is stripped -/
theorem less_compl_left (a b : Loc) : less (compl a) b = less a b := by
  simp only [less]

mutual
/-- (2) a complement around `b` is stripped — whatever `a` is: the model reaches `b` only after it
has taken `a` apart, the Go code strips it before it looks at the parts of `a` -/
theorem less_compl_right : ∀ (a b : Loc), less a (compl b) = less a b
  | between _, _ => by simp only [less, lessB]
  | point _, _ => by simp only [less, lessB]
  | ranged _ _ _ _, _ => by simp only [less, lessB]
  | ambiguous _ _, _ => by simp only [less, lessB]
  | joined ls, b => by simp only [less]; exact anyLess_compl_right ls b
  | ordered ls, b => by simp only [less]; exact anyLess_compl_right ls b
  | compl a, b => by simp only [less]; exact less_compl_right a b
theorem anyLess_compl_right : ∀ (ls : List Loc) (b : Loc), anyLess ls (compl b) = anyLess ls b
  | [], _ => by simp only [anyLess]
  | l :: ls, b => by simp only [anyLess, less_compl_right l b, anyLess_compl_right ls b]
end

/-- (3) a join / order on the left: SOME part is less -/
theorem anyLess_eq_any : ∀ (ls : List Loc) (b : Loc), anyLess ls b = ls.any (fun l => less l b)
  | [], _ => by simp only [anyLess, List.any_nil]
  | l :: ls, b => by simp only [anyLess, List.any_cons, anyLess_eq_any ls b]

theorem less_joined_left (ls : List Loc) (b : Loc) :
    less (joined ls) b = ls.any (fun l => less l b) := by
  simp only [less, anyLess_eq_any]

theorem less_ordered_left (ls : List Loc) (b : Loc) :
    less (ordered ls) b = ls.any (fun l => less l b) := by
  simp only [less, anyLess_eq_any]

/-- on a contiguous leaf the model goes straight to the recursion over `b` -/
theorem less_leaf {a : Loc} (h : isContig a = true) (b : Loc) : less a b = lessB a b := by
  cases a <;> simp [isContig] at h <;> simp only [less]

/-- (4) a contiguous leaf against a join / order: less than EVERY part -/
theorem allLessB_eq_all {a : Loc} (h : isContig a = true) :
    ∀ (ls : List Loc), allLessB a ls = ls.all (fun l => less a l)
  | [] => by simp only [allLessB, List.all_nil]
  | l :: ls => by simp only [allLessB, List.all_cons, allLessB_eq_all h ls, less_leaf h]

theorem less_leaf_joined {a : Loc} (h : isContig a = true) (ls : List Loc) :
    less a (joined ls) = ls.all (fun l => less a l) := by
  rw [less_leaf h, lessB, allLessB_eq_all h]

theorem less_leaf_ordered {a : Loc} (h : isContig a = true) (ls : List Loc) :
    less a (ordered ls) = ls.all (fun l => less a l) := by
  rw [less_leaf h, lessB, allLessB_eq_all h]

/-- (5) two contiguous leaves: spans, then the number of partial ends -/
theorem less_leaf_leaf {a b : Loc} (ha : isContig a = true) (hb : isContig b = true) :
    less a b = contigLess a b := by
  rw [less_leaf ha]
  cases b <;> simp [isContig] at hb <;> simp only [lessB]

end Gts.Loc
