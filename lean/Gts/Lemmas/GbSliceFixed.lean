/-
  C01 / slice: what the reader returns for a sliced record and the byte fixed point, composed from
  `read_write` / `write_readBack` (the record is `Writable` again: GbSliceWritable.lean).
  Core Lean only.
-/
import Gts.Lemmas.GbSliceWritable
import Gts.Lemmas.GbFixed
import Gts.Lemmas.GbLocRT
namespace Gts.GenBank
open Gts.Pars

/-- the ` REGION: a..b` suffix `GenBank.String` puts behind the accession for the window
`w = [w.1, w.2)`; nothing for an empty window (repo 0f056fc) -/
def regionSuffix (w : Int × Int) : Bytes :=
  if w.2 ≤ w.1 then [] else bs " REGION: " ++ itoaB (w.1 + 1) ++ bs ".." ++ itoaB w.2

/-- the header the READER returns for the sliced record: the sliced header with the REGION suffix
moved into the accession and the region gone -/
def slicedHeaderRead (F : Fields) (L a b : Int) : Fields :=
  { sliceHeader F L a b with accession := F.accession ++ regionSuffix (sliceWindow L a b), region := none }

theorem readBack_sliceRecord (reg : Registry) (F : Fields) (s : Seq) (a b : Int) (p : Bytes) :
    readBack reg (sliceRecord F s a b) p =
      ⟨slicedHeaderRead F s.len a b, (sliceRecord F s a b).table.map (readFeature reg),
        if p.isEmpty then .buffer [] else .buffer (Origin.originStream p)⟩ := rfl

/-- `Props` are carried through `Slice` unchanged: the adjacency guard of the fixed point holds for
the sliced table when it holds for the table -/
theorem tableAdjacent_slice (F G : Fields) (s : Seq) (a b : Int) (h : tableAdjacent (ofSeq F s).table = true) :
    tableAdjacent (ofSeq G (s.slice a b)).table = true := by
  simp only [tableAdjacent, ofSeq, List.all_eq_true, List.mem_map, forall_exists_index, and_imp,
    forall_apply_eq_imp_iff₂] at h ⊢
  intro g hg
  obtain ⟨f, hf, _, hp⟩ := slice_fromTable s a b g hg
  have := h f hf
  simp only [qfeature] at this ⊢
  rw [hp]; exact this

end Gts.GenBank
