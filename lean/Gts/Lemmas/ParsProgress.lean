/-
  C07, "never loops": a third program logic for the `pars` state model, about PROGRESS.

  `Fw L n s` ("forward"): the current position and the `n` youngest saved positions (all of them,
  if there are fewer) have at most `L` bytes left, and the saved positions are `Sorted`.
  A parser that keeps `Fw L n` for every `L` and `n` (`SafeW`) never ends BEHIND a position that
  was on the stack below its own frames: whatever it pops is one of the `n` young frames, which
  lie at or after the point that had `L` bytes left.  Unlike `Fr` (ParsSafe) the invariant
  * survives `Clear` (an empty stack satisfies it for every `n`; the frames pushed afterwards are
    young) and `Pop` / `Drop` / `Trail` on an empty stack,
  * says nothing about the CONTENT of the older frames, so the in-place rewrite of the DEFINITION
    retry (`patchFrames`, which keeps every frame's length) keeps it,
  * says nothing about panics (that is `Safe` / `SafeS`).
  It is what `genbankSourceParser` violated before 66de3a0: it popped a frame it had not pushed
  (`Fw L 0` does not allow a `Pop`).

  `Strict p`: from a sorted state, a SUCCESSFUL `p` ends strictly after its entry position.

  Core Lean only.
-/
import Gts.Lemmas.GbSafe
namespace Gts.Pars

/-- the `n` youngest saved positions and the current one have at most `L` bytes left -/
structure Fw (L : Nat) (n : Nat) (s : PS) : Prop where
  le : s.rest.length ≤ L
  srt : Sorted s.rest.length s.stk
  young : ∀ f ∈ s.stk.take n, f.length ≤ L

variable {L : Nat} {n : Nat} {s : PS}

theorem Fw.init (h : Sorted s.rest.length s.stk) : Fw s.rest.length 0 s :=
  ⟨Nat.le_refl _, h, fun _ hf => by simp at hf⟩

theorem Fw.weaken (h : Fw L (n + 1) s) : Fw L n s :=
  ⟨h.le, h.srt, fun f hf => h.young f (by
    have : s.stk.take n = (s.stk.take (n + 1)).take n := by rw [List.take_take]; congr 1; omega
    rw [this] at hf; exact List.mem_of_mem_take hf)⟩

theorem Fw.advance (h : Fw L n s) (r : Bytes) (hr : r.length ≤ s.rest.length) :
    Fw L n { s with rest := r } :=
  ⟨Nat.le_trans hr h.le, h.srt.mono hr, h.young⟩

/-- every frame is young: any count will do -/
theorem Fw.ofAll {m : Nat} (hle : s.rest.length ≤ L) (hs : Sorted s.rest.length s.stk)
    (hall : ∀ f ∈ s.stk, f.length ≤ L) : Fw L m s :=
  ⟨hle, hs, fun f hf => hall f (List.mem_of_mem_take hf)⟩

theorem Fw.ofS {m : Nat} (h : Fr L [] 0 s) : Fw L m s := Fw.ofAll h.le h.srt h.all0

/-- the post-condition: the invariant again, whatever the outcome -/
def StdW {α} (L n : Nat) : Except Err α → PS → Prop := fun _ s' => Fw L n s'

/-- `p` never ends behind a position that is not among its own (young) frames -/
def SafeW {α} (p : P α) : Prop := ∀ L n s, Fw L n s → WP p (StdW L n) s

/-! ### the primitives -/

theorem wpw_push {Q} (h : Fw L n s) (k : ∀ s', Fw L (n + 1) s' → Q (.ok ()) s') : WP push Q s := by
  apply k
  refine ⟨h.le, ⟨Nat.le_refl _, h.srt⟩, ?_⟩
  intro f hf
  have hf' : f ∈ (s.rest :: s.stk).take (n + 1) := hf
  rw [List.take_succ_cons] at hf'
  rcases List.mem_cons.mp hf' with rfl | hf'
  · exact h.le
  · exact h.young f hf'

theorem wpw_pop {Q} (h : Fw L (n + 1) s) (k : ∀ s', Fw L n s' → Q (.ok ()) s') : WP pop Q s := by
  unfold WP; rw [run_pop]
  cases hs : s.stk with
  | nil => exact k _ h.weaken
  | cons f st =>
    apply k
    have hy := h.young
    have hsrt := h.srt
    rw [hs] at hy hsrt
    refine ⟨hy f (by simp), hsrt.2, ?_⟩
    intro g hg
    exact hy g (by simp only [List.take_succ_cons]; exact List.mem_cons_of_mem _ hg)

theorem mem_take_drop1 {g : Bytes} : ∀ {l : List Bytes} {n : Nat}, g ∈ (l.drop 1).take n → g ∈ l.take (n + 1)
  | [], _, h => by simp at h
  | _ :: _, _, h => by
    rw [List.take_succ_cons]
    exact List.mem_cons_of_mem _ (by simpa using h)

theorem sorted_drop1 {k : Nat} : ∀ {l : List Bytes}, Sorted k l → Sorted k (l.drop 1)
  | [], _ => trivial
  | _ :: _, h => h.tail

theorem wpw_drop {Q} (h : Fw L (n + 1) s) (k : ∀ s', Fw L n s' → Q (.ok ()) s') : WP drop Q s := by
  apply k
  exact ⟨h.le, sorted_drop1 h.srt, fun g hg => h.young g (mem_take_drop1 hg)⟩

theorem wpw_clear {Q} {m : Nat} (h : Fw L n s) (k : ∀ s', Fw L m s' → Q (.ok ()) s') : WP clear Q s := by
  apply k
  exact ⟨h.le, trivial, fun f hf => by
    have : f ∈ ([] : List Bytes).take m := hf
    simp at this⟩

/-- … and behind a `Clear` the S-invariant holds -/
theorem wpw_clearS {Q} (h : Fw L n s) (k : ∀ s', Fr L [] 0 s' → Q (.ok ()) s') : WP clear Q s := by
  apply k
  exact Fr.mk0 (fun f hf => by
    have : f ∈ ([] : List Bytes) := hf
    simp at this) h.le trivial

/-- the state-level reading of `wpw_push` / `wpw_pop` -/
theorem Fw.push (h : Fw L n s) : Fw L (n + 1) { s with stk := s.rest :: s.stk } :=
  wpw_push (Q := fun _ s' => Fw L (n + 1) s') h (fun _ h' => h')

theorem Fw.pop (h : Fw L (n + 1) s) : Fw L n (pop.run' s).2 :=
  wpw_pop (Q := fun _ s' => Fw L n s') h (fun _ h' => h')

/-- `Trail` pops the youngest frame and stays where it is (or panics, with the state unchanged) -/
theorem wpw_trail {Q} (h : Fw L (n + 1) s) (k : ∀ r s', Fw L n s' → Q r s') : WP trail Q s := by
  unfold WP; rw [run_trail]
  cases hs : s.stk with
  | nil => exact k _ _ h.weaken
  | cons f st =>
    dsimp only
    have hy := h.young
    have hsrt := h.srt
    rw [hs] at hy hsrt
    split
    · exact k _ _ h.weaken
    · rename_i hlt
      apply k
      have hl : (f.drop (f.length - s.rest.length)).length = s.rest.length := by
        rw [List.length_drop]; omega
      refine ⟨?_, ?_, ?_⟩
      · show (f.drop _).length ≤ L; rw [hl]; exact h.le
      · show Sorted (f.drop _).length _; rw [hl]; exact hsrt.tail
      · intro g hg
        exact hy g (by simp only [List.take_succ_cons]; exact List.mem_cons_of_mem _ hg)

theorem wpw_next {Q} (_h : Fw L n s) (k : ∀ r, Q r s) : WP next Q s := by
  unfold WP; rw [run_next]; cases s.rest <;> exact k _

theorem wpw_advance1 {Q} (h : Fw L n s) (k : ∀ s', Fw L n s' → Q (.ok ()) s') : WP advance1 Q s := by
  apply k; exact h.advance _ (by simp)

theorem wpw_advanceN {Q} (m : Nat) (h : Fw L n s) (k : ∀ s', Fw L n s' → Q (.ok ()) s') :
    WP (advanceN m) Q s := by
  apply k; exact h.advance _ (by simp)

theorem wpw_skipWhile {Q} (f : UInt8 → Bool) (h : Fw L n s)
    (k : ∀ s', Fw L n s' → Q (.ok ()) s') : WP (skipWhile f) Q s := by
  apply k; exact h.advance _ (by
    show (s.rest.dropWhile f).length ≤ _
    exact (List.dropWhile_sublist f).length_le)

theorem wpw_panic {α} {Q} (k : Q (.error .panic) s) : WP (Pars.panic : P α) Q s := k

/-- use a proved `SafeW` parser inside a larger one: every outcome -/
theorem wpw_call {α} {p : P α} {Q} (h : Fw L n s) (hp : SafeW p)
    (k : ∀ r s', Fw L n s' → Q r s') : WP p Q s := k _ _ (hp L n s h)

theorem wpw_attempt {α} {p : P α} {Q} (h : Fw L n s) (hp : SafeW p)
    (k : ∀ r s', Fw L n s' → Q r s') : WP (attempt p) Q s := by
  have := hp L n s h
  unfold WP StdW at *
  rw [run_attempt]
  cases hr : p.run' s with
  | mk r s' =>
    rw [hr] at this
    cases r with
    | ok a => exact k _ _ this
    | error e => cases e <;> exact k _ _ this

theorem stdw {α} {r : Except Err α} {s'} (h : Fw L n s') : StdW L n r s' := h

/-- a balanced parser (`Safe`: keeps `Fr L base n` for every base) keeps the forward invariant -/
theorem Safe.toW {α} {p : P α} (hp : Safe p) : SafeW p := by
  intro L n s h
  by_cases hn : n ≤ s.stk.length
  · have hfr : Fr L (s.stk.drop n) n s :=
      ⟨⟨s.stk.take n, (List.take_append_drop n s.stk).symm, by simp [hn], h.young⟩, h.le, h.srt⟩
    have := hp L (s.stk.drop n) n s hfr
    unfold WP Std at this
    unfold WP StdW
    obtain ⟨e, h1, h2, h3⟩ := this.2.ex
    refine ⟨this.2.le, this.2.srt, ?_⟩
    intro f hf
    rw [h1, List.take_append_of_le_length h2] at hf
    exact h3 f (List.mem_of_mem_take hf)
  · have hall : ∀ f ∈ s.stk, f.length ≤ L := by
      intro f hf
      apply h.young f
      rw [List.take_of_length_le (by omega)]; exact hf
    have hfr : Fr L [] 0 s := Fr.mk0 hall h.le h.srt
    have := hp L [] 0 s hfr
    unfold WP Std at this
    exact Fw.ofS this.2

/-- a parser that is only known to keep the S-invariant, entered with EVERY frame young (e.g.
directly behind a `Clear`) -/
theorem wpw_callS {α} {p : P α} {Q} {m : Nat} (h : Fr L [] 0 s) (hp : SafeS L p)
    (k : ∀ r s', Fw L m s' → Q r s') : WP p Q s := by
  have := hp s h
  unfold WP Std at this
  exact k _ _ (Fw.ofS this.2)

/-- an empty stack: every frame is young -/
theorem Fw.toS (h : Fw L n s) (hs : s.stk = []) : Fr L [] 0 s :=
  Fr.mk0 (fun f hf => by rw [hs] at hf; simp at hf) h.le h.srt

/-! ### symbolic execution -/

/-- side goals `SafeW p`; extended as parsers are proved -/
syntax "safeW_side" : tactic
macro_rules | `(tactic| safeW_side) => `(tactic| first
  | assumption
  | (with_reducible apply Safe.toW; safe_side)
  | (with_reducible apply_assumption -exfalso))

macro "wpw_step" : tactic => `(tactic| first
  | dsimp only
  | rw [wp_bind]
  | rw [wp_pure]
  | rw [wp_fail]
  | rw [wp_map]
  | (with_reducible apply wpw_push ‹_›; intro _ _)
  | (with_reducible apply wpw_pop ‹_›; intro _ _)
  | (with_reducible apply wpw_drop ‹_›; intro _ _)
  | (with_reducible apply wpw_trail ‹_›; intro _ _ _)
  | (with_reducible apply wpw_advance1 ‹_›; intro _ _)
  | (with_reducible apply wpw_advanceN _ ‹_›; intro _ _)
  | (with_reducible apply wpw_skipWhile _ ‹_›; intro _ _)
  | (with_reducible apply wpw_next ‹_›; intro _)
  | (with_reducible apply wp_pushed; intro _)
  | (with_reducible apply wp_getS)
  | (with_reducible apply wpw_panic)
  | (with_reducible apply wpw_attempt ‹_› (by safeW_side); intro _ _ _)
  | (with_reducible apply wpw_call ‹_› (by safeW_side); intro _ _ _)
  | exact stdw ‹_›
  | exact stdw (Fw.weaken ‹_›)
  | split)

/-- prove `SafeW p` for a straight-line parser by running it symbolically -/
macro "wpw_run" : tactic => `(tactic| (intro _ _ _ _; repeat wpw_step))

/-! ### strict progress of a successful parser -/

/-- from a sorted state, a successful `p` has consumed at least one byte -/
def Strict {α} (p : P α) : Prop :=
  ∀ s, Sorted s.rest.length s.stk → ∀ a s', p.run' s = (.ok a, s') → s'.rest.length < s.rest.length

/-- what `SafeW` says about a run from a sorted state -/
theorem SafeW.run {α} {p : P α} (hp : SafeW p) {s : PS} (hs : Sorted s.rest.length s.stk)
    {r s'} (h : p.run' s = (r, s')) : s'.rest.length ≤ s.rest.length ∧ Sorted s'.rest.length s'.stk := by
  have := hp _ 0 s (Fw.init hs)
  unfold WP StdW at this
  rw [h] at this
  exact ⟨this.le, this.srt⟩

theorem Strict.bind_left {α β} {p : P α} {f : α → P β} (hp : Strict p) (hpw : SafeW p)
    (hf : ∀ a, SafeW (f a)) : Strict (p >>= f) := by
  intro s hs b s' h
  rw [run_bind] at h
  rcases hr : p.run' s with ⟨r, s1⟩
  rw [hr] at h
  rcases r with e | a
  · cases h
  · dsimp only at h
    have h1 := hp s hs a s1 hr
    have h2 := (hf a).run (hpw.run hs hr).2 h
    omega

theorem Strict.bind_right {α β} {p : P α} {f : α → P β} (hpw : SafeW p)
    (hf : ∀ a, Strict (f a)) : Strict (p >>= f) := by
  intro s hs b s' h
  rw [run_bind] at h
  rcases hr : p.run' s with ⟨r, s1⟩
  rw [hr] at h
  rcases r with e | a
  · cases h
  · dsimp only at h
    have h1 := hpw.run hs hr
    have h2 := hf a s1 h1.2 b s' h
    omega

theorem strict_lit (p : Bytes) (hp : p ≠ []) : Strict (lit p) := by
  intro s _ a s' h
  rw [run_lit] at h
  split at h
  · rename_i hc
    simp only [Bool.and_eq_true, decide_eq_true_eq] at hc
    cases h
    have : 0 < p.length := List.length_pos_iff.mpr hp
    show (s.rest.drop p.length).length < _
    rw [List.length_drop]; omega
  · cases h

theorem strict_word (f : UInt8 → Bool) : Strict (word f) := by
  intro s _ a s' h
  unfold word at h
  rw [run_bind, run_push] at h
  dsimp only at h
  rw [run_bind, run_skipWhile] at h
  dsimp only at h
  rw [run_bind, run_trail] at h
  dsimp only at h
  have hle : (s.rest.dropWhile f).length ≤ s.rest.length := (List.dropWhile_sublist f).length_le
  rw [if_neg (by omega)] at h
  dsimp only at h
  split at h
  · rw [run_fail] at h; cases h
  · rename_i hne
    rw [run_pure] at h
    cases h
    show (s.rest.drop _).length < _
    have : (s.rest.take (s.rest.length - (s.rest.dropWhile f).length)) ≠ [] := by
      intro he; apply hne; rw [he]; rfl
    have hpos : 0 < (s.rest.take (s.rest.length - (s.rest.dropWhile f).length)).length :=
      List.length_pos_iff.mpr this
    rw [List.length_take] at hpos
    rw [List.length_drop]; omega

/-! ### `pars.Line` on a non-empty rest consumes at least one byte -/

theorem calcLine_fst (st : Bytes) : ∀ i n cr,
    i ≤ (calcLine st i n cr).1 + (if cr then 1 else 0) := by
  induction st with
  | nil => intro i n cr; simp [calcLine]
  | cons c r ih =>
    intro i n cr
    have ih1 := ih (i + 1) (n + 1) true
    have ih2 := ih (i + 1) n false
    simp only [if_true, Bool.false_eq_true, if_false] at ih1 ih2
    cases cr <;> unfold calcLine <;>
      simp only [Bool.and_false, Bool.and_true, Bool.false_eq_true, if_false, if_true] <;>
      (repeat' split) <;> (try dsimp only) <;> omega

theorem calcLine_snd (st : Bytes) : ∀ i n cr,
    n ≤ (calcLine st i n cr).2 ∧ (calcLine st i n cr).2 ≤ n + st.length := by
  induction st with
  | nil => intro i n cr; simp [calcLine]
  | cons c r ih =>
    intro i n cr
    unfold calcLine
    simp only [List.length_cons]
    split
    · dsimp only; omega
    · split
      · dsimp only; omega
      · split
        · have := ih (i + 1) (n + 1) true; omega
        · split
          · dsimp only; omega
          · have := ih (i + 1) n cr; omega

theorem calcLine_top (c : UInt8) (r : Bytes) :
    (calcLine (c :: r) 0 0 false).1 = 0 → 1 ≤ (calcLine (c :: r) 0 0 false).2 := by
  have h1 := (calcLine_snd r 1 1 true).1
  have h2 := calcLine_fst r 1 0 false
  simp only [Bool.false_eq_true, if_false] at h2
  unfold calcLine
  simp only [Bool.and_false, Bool.false_eq_true, if_false, Nat.zero_add]
  (repeat' split) <;> (try dsimp only) <;> omega

theorem splitLine_lt (st : Bytes) (h : st ≠ []) : (Origin.splitLine st).2.length < st.length := by
  have hpos : 0 < st.length := List.length_pos_iff.mpr h
  unfold Origin.splitLine
  have h2 := calcLine_snd st 0 0 false
  have h3 : (calcLine st 0 0 false).1 = 0 → 1 ≤ (calcLine st 0 0 false).2 := by
    match st, h with
    | c :: r, _ => exact calcLine_top c r
  generalize calcLine st 0 0 false = c at h2 h3
  obtain ⟨i, n⟩ := c
  dsimp only at h2 h3 ⊢
  split <;> simp only [List.length_drop] at * <;> omega

end Gts.Pars
