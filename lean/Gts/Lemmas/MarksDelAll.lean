/-
  Deletion, the two remaining clauses of the oracle: a location that loses every residue
  collapses to zero-length sites only (no marker left), and the oracle's own in-bounds predicate
  `coordsWithin` holds for the result — every kind and arity, no guard (`Join` only drops or
  merges leaves, `Gts/Lemmas/Leafwise.lean`).  Core Lean only.
-/
import Gts.Lemmas.MarksDel
import Gts.Lemmas.MarksCoords
import Gts.Lemmas.Bounds
namespace Gts
namespace Loc

def isBetween : Loc → Bool
  | between _ => true
  | _ => false

theorem mergeOK_isBetween : MergeOK isBetween := by
  intro vs ve ue v5 v3 u5 u3 h1 _
  simp [isBetween] at h1

mutual
theorem marks_of_allBetween : ∀ (l : Loc), allLeaves isBetween l = true → marks l = none
  | between p, _ => by simp
  | point p, h => by simp [isBetween] at h
  | ranged s e a b, h => by simp [isBetween] at h
  | ambiguous s e, h => by simp [isBetween] at h
  | joined ls, h => by simpa using marksList_of_allBetween ls (by simpa using h)
  | ordered ls, h => by simpa using marksList_of_allBetween ls (by simpa using h)
  | compl l, h => by
      rw [marks_compl, marks_of_allBetween l (by simpa using h)]
      rfl
theorem marksList_of_allBetween : ∀ (ls : List Loc), allLeavesList isBetween ls = true →
    marksList ls = none
  | [], _ => by simp
  | l :: ls, h => by
      simp only [allLeavesList_cons, Bool.and_eq_true] at h
      simp [marks_of_allBetween l h.1, marksList_of_allBetween ls h.2]
end

theorem flipDen_eq_nil {D : List Pos} (h : flipDen D = []) : D = [] := by
  cases D with
  | nil => rfl
  | cons a t => simp [flipDen] at h

mutual
/-- a location all of whose residues are removed becomes zero-length sites only -/
theorem expand_del_allBetween : ∀ (l : Loc) (i k : Int), wf l = true → 0 < k →
    filterMapPos (delMap i k) (den l) = [] → allLeaves isBetween (expand l i (-k)) = true
  | between p, i, k, _, _, _ => by simp [expand, betweenExpand, isBetween]
  | point p, i, k, _, hk, h => by
      have hd : den (pointExpand p i (-k)) = [] := by rw [den_pointExpand_del p i k hk]; exact h
      simp only [expand]
      unfold pointExpand at hd ⊢
      split
      · simp [isBetween]
      · rename_i hc; rw [if_neg hc] at hd; simp at hd
  | ranged s e a b, i, k, hw, hk, h => by
      have hse : s < e := by simpa [wf] using hw
      have hd : den (rangedExpand s e a b i (-k)) = [] := by
        rw [den_rangedExpand_del s e a b i k hse hk]; exact h
      have hle := delStart_le_delEnd s e i k hse hk
      simp only [expand]
      rw [rangedExpand_del_eq _ _ _ _ _ _ hk] at hd ⊢
      split
      · simp [isBetween]
      · rename_i hc
        rw [if_neg hc] at hd
        obtain ⟨m, hm⟩ : ∃ m, (delEnd e i k - delStart s i k).toNat = m + 1 :=
          ⟨(delEnd e i k - delStart s i k).toNat - 1, by omega⟩
        simp [hm, fwd] at hd
  | ambiguous s e, i, k, hw, hk, h => by
      have hse : s < e := by simpa [wf] using hw
      have hd : den (ambiguousExpand s e i (-k)) = [] := by
        rw [den_ambiguousExpand_del s e i k hse hk]; exact h
      have hle := delStart_le_delEnd s e i k hse hk
      simp only [expand]
      rw [ambiguousExpand_del_eq _ _ _ _ hk] at hd ⊢
      split
      · simp [isBetween]
      · rename_i hc
        rw [if_neg hc] at hd
        obtain ⟨m, hm⟩ : ∃ m, (delEnd e i k - delStart s i k).toNat = m + 1 :=
          ⟨(delEnd e i k - delStart s i k).toNat - 1, by omega⟩
        simp [hm, fwd] at hd
  | joined ls, i, k, hw, hk, h => by
      simp only [expand]
      exact join_leaves mergeOK_isBetween _
        (expandList_del_allBetween ls i k (by simpa [wf] using hw) hk (by simpa using h))
  | ordered ls, i, k, hw, hk, h => by
      simp only [expand]
      exact order_leaves _ _
        (expandList_del_allBetween ls i k (by simpa [wf] using hw) hk (by simpa using h))
  | compl l, i, k, hw, hk, h => by
      simp only [expand, allLeaves_compl]
      apply expand_del_allBetween l i k (by simpa [wf] using hw) hk
      rw [den_compl, filterMapPos_flipDen] at h
      exact flipDen_eq_nil h
theorem expandList_del_allBetween : ∀ (ls : List Loc) (i k : Int), wfList ls = true → 0 < k →
    filterMapPos (delMap i k) (denList ls) = [] →
    allLeavesList isBetween (expandList ls i (-k)) = true
  | [], _, _, _, _, _ => by simp [expandList]
  | l :: ls, i, k, hw, hk, h => by
      simp only [wfList_cons, Bool.and_eq_true] at hw
      simp only [denList_cons, filterMapPos_append, List.append_eq_nil_iff] at h
      simp [expandList, expand_del_allBetween l i k hw.1 hk h.1,
        expandList_del_allBetween ls i k hw.2 hk h.2]
end

/-! ### the oracle's `coordsWithin` after a deletion -/

theorem delStart_le_delEnd' (s e i k : Int) (h : s ≤ e) (_hk : 0 < k) : delStart s i k ≤ delEnd e i k := by
  unfold delStart delEnd; split <;> split <;> omega

mutual
theorem expand_del_within (L i k : Int) (hi : 0 ≤ i) (hk : 0 < k) (hL : i + k ≤ L) :
    ∀ (l : Loc), allLeaves (leafWithin L) l = true →
      allLeaves (leafWithin (L - k)) (expand l i (-k)) = true
  | between p, h => by
      simp only [allLeaves_between, leafWithin_iff, leafSpan] at h
      simp only [expand, betweenExpand, gmax_eq_max, allLeaves_between, leafWithin_iff, leafSpan]
      split <;> omega
  | point p, h => by
      simp only [allLeaves_point, leafWithin_iff, leafSpan] at h
      simp only [expand, pointExpand, gmax_eq_max]
      by_cases c : -k < 0 ∧ i ≤ p ∧ p < i - -k
      · rw [if_pos c]; simp only [allLeaves_between, leafWithin_iff, leafSpan]; omega
      · rw [if_neg c]
        simp only [allLeaves_point, leafWithin_iff, leafSpan]
        split <;> omega
  | ranged s e a b, h => by
      simp only [allLeaves_ranged, leafWithin_iff, leafSpan] at h
      simp only [expand, rangedExpand_del_eq s e a b i k hk]
      have b1 := delStart_bounds L s i k hi hk hL h.1 (by omega)
      have b2 := delEnd_bounds L e i k hi hk hL (by omega) h.2.1
      have b3 := delStart_le_delEnd' s e i k h.2.2 hk
      split
      · simp only [allLeaves_between, leafWithin_iff, leafSpan]; omega
      · simp only [allLeaves_ranged, leafWithin_iff, leafSpan]; omega
  | ambiguous s e, h => by
      simp only [allLeaves_ambiguous, leafWithin_iff, leafSpan] at h
      simp only [expand, ambiguousExpand_del_eq s e i k hk]
      have b1 := delStart_bounds L s i k hi hk hL h.1 (by omega)
      have b2 := delEnd_bounds L e i k hi hk hL (by omega) h.2.1
      have b3 := delStart_le_delEnd' s e i k h.2.2 hk
      split
      · simp only [allLeaves_between, leafWithin_iff, leafSpan]; omega
      · simp only [allLeaves_ambiguous, leafWithin_iff, leafSpan]; omega
  | joined ls, h => by
      simp only [expand]
      exact join_leaves (mergeOK_leafWithin _) _
        (expandList_del_within L i k hi hk hL ls (by simpa using h))
  | ordered ls, h => by
      simp only [expand]
      exact order_leaves _ _ (expandList_del_within L i k hi hk hL ls (by simpa using h))
  | compl l, h => by
      simpa [expand] using expand_del_within L i k hi hk hL l (by simpa using h)
theorem expandList_del_within (L i k : Int) (hi : 0 ≤ i) (hk : 0 < k) (hL : i + k ≤ L) :
    ∀ (ls : List Loc), allLeavesList (leafWithin L) ls = true →
      allLeavesList (leafWithin (L - k)) (expandList ls i (-k)) = true
  | [], _ => by simp [expandList]
  | l :: ls, h => by
      simp only [allLeavesList_cons, Bool.and_eq_true] at h
      simp [expandList, expand_del_within L i k hi hk hL l h.1,
        expandList_del_within L i k hi hk hL ls h.2]
end

end Loc
end Gts
