/-
  `Repair` (property C12), part 4: the sort-and-push loop on a class of forward ranges —
  which members are fused, and into what.  Core Lean only.
-/
import Gts.Lemmas.RepairSpec
namespace Gts
open Loc

namespace Loc

/-- the pair `LocationList.Push` fuses among forward ranges: `v` ends where `u` starts and the
meeting ends are marked partial (or `force`) -/
def mergeable (force : Bool) : Loc → Loc → Bool
  | ranged _ ve _ v3, ranged us _ u5 _ => ((v3 && u5) || force) && ve == us
  | _, _ => false

end Loc

/-- Boolean `Pairwise` -/
def allPairs {α} (r : α → α → Bool) : List α → Bool
  | [] => true
  | a :: as => as.all (r a) && allPairs r as

theorem allPairs_iff {α} (r : α → α → Bool) (l : List α) :
    allPairs r l = true ↔ l.Pairwise fun a b => r a b = true := by
  induction l with
  | nil => simp [allPairs]
  | cons a as ih => simp [allPairs, ih, List.pairwise_cons]

/-- neither order of the pair is fused -/
def unmergeable (force : Bool) (a b : Loc) : Bool := !mergeable force a b && !mergeable force b a

theorem pushD_ranged (d : Nat) (racc : List Loc) (s e : Int) (a b f : Bool) :
    pushD (d + 1) racc (ranged s e a b) f = pushOne (pushD d) racc (ranged s e a b) f := rfl

/-- pushing a range that the last element does not fuse with appends it -/
theorem pushD_unmerged (d : Nat) (v : Loc) (rest : List Loc) (y : Loc) (f : Bool)
    (hv : v.isRanged = true) (hy : y.isRanged = true) (h : mergeable f v y = false) :
    pushD (d + 1) (v :: rest) y f = y :: v :: rest := by
  cases v <;> simp [isRanged] at hv
  cases y <;> simp [isRanged] at hy
  rename_i vs ve v5 v3 us ue u5 u3
  simp only [pushD_ranged, pushOne]
  simp only [mergeable] at h
  simp [h]

/-- a class of forward ranges without a fusable pair is pushed unchanged -/
theorem pushAllD_unmerged (d : Nat) (f : Bool) (ys racc : List Loc)
    (hr : ∀ x ∈ racc, x.isRanged = true) (hy : ∀ y ∈ ys, y.isRanged = true)
    (h : (racc.reverse ++ ys).Pairwise fun a b => unmergeable f a b = true) :
    pushAllD (d + 1) racc ys f = ys.reverse ++ racc := by
  induction ys generalizing racc with
  | nil => simp [pushAllD]
  | cons y ys ih =>
    have hyr := hy y (by simp)
    have hstep : pushD (d + 1) racc y f = y :: racc := by
      cases racc with
      | nil => cases y <;> simp [isRanged] at hyr; rfl
      | cons v rest =>
        apply pushD_unmerged d v rest y f (hr v (by simp)) hyr
        have := (List.pairwise_append.mp h).2.2 v (by simp) y (by simp)
        simp only [unmergeable, Bool.and_eq_true, Bool.not_eq_true'] at this
        exact this.1
    simp only [pushAllD, List.foldl_cons, hstep] at ih ⊢
    rw [ih (y :: racc)]
    · simp
    · intro x hx
      rcases List.mem_cons.mp hx with rfl | hx
      · exact hyr
      · exact hr x hx
    · intro z hz; exact hy z (by simp [hz])
    · simpa using h

/-! ### plain tables: every class is a set of forward ranges or a single non-`Joined` feature -/

/-- no two features of a class form a pair that `Push` fuses (3'-partial end meeting 5'-partial
start at the same coordinate; any abutting ends when the class is a `source` class) -/
def Table.noMergeablePair (t : Table) : Bool :=
  (Table.groups t).all fun idx => allPairs (unmergeable (classForce t idx)) (classLocs t idx)

theorem plain_class (t : Table) (hp : Table.plain t = true) (idx : List Nat) (hi : idx ∈ Table.groups t) :
    idx.length = 1 ∨ (∀ l ∈ classLocs t idx, l.isRanged = true) := by
  obtain ⟨k, hk, rfl⟩ := List.mem_map.mp hi
  simp only [Table.plain, List.all_eq_true, Bool.or_eq_true, beq_iff_eq] at hp
  by_cases h1 : (Table.memberIdx t k).length = 1
  · exact Or.inl h1
  · right
    intro l hl
    obtain ⟨i, hi', f, hf, rfl⟩ := mem_classLocs t _ l hl
    obtain ⟨f', hf', hfk⟩ := (Table.mem_memberIdx t k i).mp hi'
    rw [hf] at hf'
    cases hf'
    rcases hp f (List.mem_of_getElem? hf) with h | h
    · exact h
    · exfalso
      apply h1
      simp only [Table.classSize, hfk] at h
      exact h

/-- a plain table never gets a `nil` location -/
theorem noNil_of_plain (t : Table) (hp : Table.plain t = true) :
    (Table.groups t).any (classNil t) = false := by
  rw [List.any_eq_false]
  intro idx hi
  simp only [classNil, Bool.and_eq_true, decide_eq_true_eq, not_and, List.isEmpty_iff]
  intro hc
  rcases plain_class t hp idx hi with h1 | hr
  · have := classN_pos t idx; omega
  · exact (classP_of_no_join t idx hi fun l hl => by
      have := hr l hl
      cases l <;> simp [isRanged, isJoined] at this ⊢).1

theorem pushAllD_single (d : Nat) (l : Loc) (f : Bool) (h : l.isJoined = false) :
    (pushAllD d [] [l] f).length = 1 := by
  have := pushD_length d [] l f h
  simp only [pushAllD, List.foldl_cons, List.foldl_nil]
  simp only [List.length_nil, Nat.zero_add] at this
  cases hp : pushD d [] l f with
  | nil => exact absurd hp this.2.2
  | cons a as => rw [hp] at this; simp at this ⊢; omega

theorem sortLocs_single (l : Loc) : sortLocs [l] = [l] := rfl

/-- **(c)**: in a plain table without a fusable pair no class is reduced -/
theorem not_reduced_of_noMergeablePair (t : Table) (hp : Table.plain t = true)
    (hm : Table.noMergeablePair t = true) (idx : List Nat) (hi : idx ∈ Table.groups t) :
    idx.length ≤ classN t idx := by
  have hlt := groups_lt t idx hi
  have hlen := classLocs_length t idx hlt
  rcases plain_class t hp idx hi with h1 | hr
  · have := classN_pos t idx; omega
  · -- forward ranges, no fusable pair
    simp only [Table.noMergeablePair, List.all_eq_true] at hm
    have hpw := (allPairs_iff _ _).mp (hm idx hi)
    have hsym : ∀ a b : Loc, unmergeable (classForce t idx) a b = true →
        unmergeable (classForce t idx) b a = true := by
      intro a b h
      simp only [unmergeable, Bool.and_eq_true] at h ⊢
      exact ⟨h.2, h.1⟩
    have hpw' : (sortLocs (classLocs t idx)).Pairwise fun a b => unmergeable (classForce t idx) a b = true :=
      ((sortLocs_perm _).pairwise_iff (fun {a b} h => hsym a b h)).mpr hpw
    have := pushAllD_unmerged (pushFuel - 1) (classForce t idx) (sortLocs (classLocs t idx)) []
      (by simp) (fun y hy => hr y ((sortLocs_perm _).mem_iff.mp hy)) (by simpa using hpw')
    have e : pushFuel - 1 + 1 = pushFuel := rfl
    rw [e] at this
    have hpl : (classP t idx).length = idx.length := by
      simp only [classP, pushedOf, pushAll, List.length_reverse]
      rw [this]
      simp [sortLocs_length, hlen]
    have hne : classP t idx ≠ [] := by
      intro e'
      rw [e'] at hpl
      exact Table.groups_ne_nil t idx hi (List.length_eq_zero_iff.mp hpl.symm)
    rw [classN_of_ne_nil hne, hpl]
    exact Nat.le_refl _

/-! ### what is fused: chains of abutting ranges -/

/-- `Chain f ms l`: `l` is the single location `ms = [l]`, or `ms` is a chain of forward ranges
each of which ends where the next one starts, the meeting ends marked partial (or `f`), and `l`
is its span with the outer partial markers -/
inductive Chain (f : Bool) : List Loc → Loc → Prop
  | single (l : Loc) : Chain f [l] l
  | snoc {ms : List Loc} {s m e : Int} {a b c d : Bool} :
      Chain f ms (ranged s m a b) → ((b && c) || f) = true →
      Chain f (ms ++ [ranged m e c d]) (ranged s e a d)

/-- the locations `ls` are, one by one, the chains `gs` -/
def ChainsOf (f : Bool) : List (List Loc) → List Loc → Prop
  | [], [] => True
  | g :: gs, l :: ls => Chain f g l ∧ ChainsOf f gs ls
  | _, _ => False

theorem chainsOf_append (f : Bool) {a : List (List Loc)} {b : List Loc} {c : List (List Loc)} {d : List Loc}
    (h1 : ChainsOf f a b) (h2 : ChainsOf f c d) : ChainsOf f (a ++ c) (b ++ d) := by
  induction a generalizing b with
  | nil =>
    cases b with
    | nil => simpa using h2
    | cons x xs => simp [ChainsOf] at h1
  | cons g gs ih =>
    cases b with
    | nil => simp [ChainsOf] at h1
    | cons x xs =>
      simp only [ChainsOf] at h1
      exact ⟨h1.1, ih h1.2⟩

theorem chainsOf_reverse (f : Bool) {a : List (List Loc)} {b : List Loc} (h : ChainsOf f a b) :
    ChainsOf f a.reverse b.reverse := by
  induction a generalizing b with
  | nil =>
    cases b with
    | nil => simpa using h
    | cons x xs => simp [ChainsOf] at h
  | cons g gs ih =>
    cases b with
    | nil => simp [ChainsOf] at h
    | cons x xs =>
      simp only [ChainsOf] at h
      simp only [List.reverse_cons]
      exact chainsOf_append f (ih h.2) ⟨h.1, trivial⟩

theorem chainsOf_singletons (f : Bool) (ls : List Loc) : ChainsOf f (ls.map fun l => [l]) ls := by
  induction ls with
  | nil => trivial
  | cons l ls ih => exact ⟨Chain.single l, ih⟩

theorem flatten_singletons {α} (ls : List α) : (ls.map fun l => [l]).flatten = ls := by
  induction ls with
  | nil => rfl
  | cons l ls ih => simp [ih]

/-- one `Push` of a forward range onto a list of chains -/
theorem push_chain_step (d : Nat) (f : Bool) (rgs : List (List Loc)) (racc xs : List Loc) (y : Loc)
    (hc : ChainsOf f rgs racc) (hx : rgs.reverse.flatten = xs)
    (hr : ∀ x ∈ racc, x.isRanged = true) (hy : y.isRanged = true) :
    ∃ rgs', ChainsOf f rgs' (pushD (d + 1) racc y f) ∧ rgs'.reverse.flatten = xs ++ [y] ∧
      ∀ x ∈ pushD (d + 1) racc y f, x.isRanged = true := by
  cases y <;> simp [isRanged] at hy
  rename_i us ue u5 u3
  cases racc with
  | nil =>
    cases rgs with
    | nil =>
      refine ⟨[[ranged us ue u5 u3]], ⟨Chain.single _, trivial⟩, by simpa using hx, ?_⟩
      intro x hx'
      simp only [pushD_ranged, pushOne, List.mem_singleton] at hx'
      subst hx'; rfl
    | cons g gs => simp [ChainsOf] at hc
  | cons v rest =>
    cases rgs with
    | nil => simp [ChainsOf] at hc
    | cons g gs =>
      simp only [ChainsOf] at hc
      have hv := hr v (by simp)
      cases v <;> simp [isRanged] at hv
      rename_i vs ve v5 v3
      simp only [pushD_ranged, pushOne]
      by_cases hm : (((v3 && u5) || f) && ve == us) = true
      · simp only [hm, if_true]
        simp only [Bool.and_eq_true, beq_iff_eq] at hm
        obtain ⟨hm1, rfl⟩ := hm
        refine ⟨(g ++ [ranged ve ue u5 u3]) :: gs, ⟨Chain.snoc hc.1 hm1, hc.2⟩, ?_, ?_⟩
        · simp only [List.reverse_cons, List.flatten_append, List.flatten_cons, List.flatten_nil,
            List.append_nil] at hx ⊢
          rw [← hx]; simp
        · intro x hx'
          rcases List.mem_cons.mp hx' with rfl | hx'
          · rfl
          · exact hr x (by simp [hx'])
      · simp only [hm, if_false, Bool.false_eq_true]
        refine ⟨[ranged us ue u5 u3] :: g :: gs, ⟨Chain.single _, hc.1, hc.2⟩, ?_, ?_⟩
        · simp only [List.reverse_cons, List.flatten_append, List.flatten_cons, List.flatten_nil,
            List.append_nil] at hx ⊢
          rw [← hx]
        · intro x hx'
          rcases List.mem_cons.mp hx' with rfl | hx'
          · rfl
          · exact hr x hx'

theorem pushAll_chains (d : Nat) (f : Bool) (ys : List Loc) (rgs : List (List Loc)) (racc xs : List Loc)
    (hc : ChainsOf f rgs racc) (hx : rgs.reverse.flatten = xs)
    (hr : ∀ x ∈ racc, x.isRanged = true) (hy : ∀ y ∈ ys, y.isRanged = true) :
    ∃ rgs', ChainsOf f rgs' (pushAllD (d + 1) racc ys f) ∧ rgs'.reverse.flatten = xs ++ ys := by
  induction ys generalizing rgs racc xs with
  | nil => exact ⟨rgs, by simpa [pushAllD] using hc, by simpa using hx⟩
  | cons y ys ih =>
    obtain ⟨rgs1, h1, h2, h3⟩ := push_chain_step d f rgs racc xs y hc hx hr (hy y (by simp))
    obtain ⟨rgs2, h4, h5⟩ := ih rgs1 _ _ h1 h2 h3 (fun z hz => hy z (by simp [hz]))
    exact ⟨rgs2, by simpa [pushAllD] using h4, by simpa using h5⟩

/-- **(d)(e), one class**: pushing the sorted forward ranges of a class partitions them into
chains, and the pushed list consists of the spans of these chains -/
theorem pushedOf_chains (f : Bool) (locs : List Loc) (hr : ∀ l ∈ locs, l.isRanged = true) :
    ∃ gs : List (List Loc), gs.flatten.Perm locs ∧ ChainsOf f gs (pushedOf f locs) := by
  obtain ⟨rgs, h1, h2⟩ := pushAll_chains (pushFuel - 1) f (sortLocs locs) [] [] []
    trivial rfl (by simp) (fun y hy => hr y ((sortLocs_perm _).mem_iff.mp hy))
  refine ⟨rgs.reverse, ?_, ?_⟩
  · rw [h2]; simpa using sortLocs_perm locs
  · exact chainsOf_reverse f h1

end Gts
