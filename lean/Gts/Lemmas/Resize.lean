/-
  Helper lemmas for C08: `Modifier.Apply` in closed form, the segment walk of
  `Regions.Resize`, slicing of denotations, strand mirroring.  Core Lean only.
-/
import Gts.Lemmas.Basic
import Gts.Spec.Resize
namespace Gts
open Reg

/-! ### induction over the region tree -/

/-- structural induction for the nested type `Reg` -/
theorem Reg.ind {P : Reg → Prop} (hs : ∀ h t, P (.seg h t))
    (hm : ∀ rs, (∀ r ∈ rs, P r) → P (.many rs)) : ∀ r, P r := by
  intro r
  refine Reg.rec (motive_1 := P) (motive_2 := fun rs => ∀ r ∈ rs, P r) hs hm ?_ ?_ r
  · intro r hr; cases hr
  · intro hd tl h1 h2 r hr
    rcases List.mem_cons.mp hr with rfl | h
    · exact h1
    · exact h2 r h

/-! ### `Modifier.Apply` -/

/-- all five `Apply` in one closed form: with `(lo, hi)` the modifier's bounds measured from
the head over the pair's length, the result is `(h ± lo, h ± max lo hi)` along the pair's
own direction. -/
theorem Mod.apply_eq (m : Mod) (h t : Int) :
    m.apply h t =
      if t < h then (h - (bounds m (gabs (t - h))).1,
                     h - Loc.gmax (bounds m (gabs (t - h))).1 (bounds m (gabs (t - h))).2)
      else (h + (bounds m (gabs (t - h))).1,
            h + Loc.gmax (bounds m (gabs (t - h))).1 (bounds m (gabs (t - h))).2) := by
  cases m <;> simp only [Mod.apply, Mod.applyFwd, bounds, gabs, Loc.gmax] <;>
    by_cases hth : t < h <;> simp only [hth, ↓reduceIte, Prod.mk.injEq] <;>
    (constructor <;> (repeat' split) <;> first | omega | trivial)

/-! ### the segment walk -/

theorem walkLens_eq (ls : List Int) (k : Nat) (w : Walk) (hl : w.left ≤ k) (hr : w.right ≤ k) :
    walkLens ls k w =
      ⟨if w.left = k then k + (findL ls w.lower).1 else w.left,
       if w.left = k then (findL ls w.lower).2 else w.lower,
       if w.right = k then k + (findL ls w.upper).1 else w.right,
       if w.right = k then (findL ls w.upper).2 else w.upper⟩ := by
  induction ls generalizing k w with
  | nil => rcases w with ⟨l, lo, r, up⟩; simp [walkLens, findL]
  | cons n tl ih =>
    cases tl with
    | nil => rcases w with ⟨l, lo, r, up⟩; simp [walkLens, findL]
    | cons m rest =>
      rcases w with ⟨l, lo, r, up⟩
      simp only at hl hr
      rw [walkLens, ih (k + 1)]
      · simp only [walkStep, findL]
        by_cases h1 : l = k <;> by_cases h2 : n < lo <;> by_cases h3 : r = k <;> by_cases h4 : n < up <;>
          simp [h1, h2, h3, h4] <;> omega
      · simp only [walkStep]; repeat' split
        all_goals simp only; omega
      · simp only [walkStep]; repeat' split
        all_goals simp only; omega

/-! ### slicing denotations -/

theorem drop_irange (s : Int) (n a : Nat) : (irange s n).drop a = irange (s + a) (n - a) := by
  induction a generalizing s n with
  | zero => simp
  | succ a ih =>
    cases n with
    | zero => simp
    | succ n =>
      simp only [irange_succ, List.drop_succ_cons, ih]
      congr 1 <;> omega

theorem take_irange (s : Int) (n b : Nat) : (irange s n).take b = irange s (min b n) := by
  induction b generalizing s n with
  | zero => simp
  | succ b ih =>
    cases n with
    | zero => simp
    | succ n =>
      simp only [irange_succ, List.take_succ_cons, ih]
      rw [show min (b + 1) (n + 1) = min b n + 1 by omega]
      rfl

/-- a contiguous slice of an integer range is an integer range -/
theorem slice_irange (s : Int) (n a c : Nat) (h : a + c ≤ n) :
    ((irange s n).drop a).take c = irange (s + a) c := by
  rw [drop_irange, take_irange]
  congr 1; omega

@[simp] theorem length_fwd (xs : List Int) : (fwd xs).length = xs.length := by simp [fwd]
@[simp] theorem length_flipDen (d : List Pos) : (flipDen d).length = d.length := by simp [flipDen]

theorem slice_fwd (xs : List Int) (a c : Nat) : ((fwd xs).drop a).take c = fwd ((xs.drop a).take c) := by
  simp [fwd, List.map_drop, List.map_take]

/-- slicing a reverse-complemented denotation = reverse-complementing the mirrored slice -/
theorem slice_flipDen (d : List Pos) (a c : Nat) (h : a + c ≤ d.length) :
    ((flipDen d).drop a).take c = flipDen ((d.drop (d.length - a - c)).take c) := by
  unfold flipDen
  rw [← List.map_drop, ← List.map_take, List.drop_reverse, List.take_reverse, List.length_take,
    List.drop_take]
  congr 2
  rw [show min (d.length - a) d.length = d.length - a by omega]
  congr 1; omega

/-- denotation of a segment of either orientation sliced: the slice is the denotation of the
segment whose ends are moved inward by `lo` and `len - hi` along the segment's direction -/
theorem den_seg_slice (h t lo hi : Int) (h0 : 0 ≤ lo) (h1 : lo ≤ hi) (h2 : hi ≤ gabs (t - h)) :
    den (if t < h then seg (h - lo) (h - hi) else seg (h + lo) (h + hi)) =
      sliceDen (den (seg h t)) lo hi := by
  unfold gabs at h2
  by_cases hth : t < h
  · rw [if_pos (by omega)] at h2
    simp only [hth, ↓reduceIte, den, sliceDen]
    by_cases he : lo = hi
    · subst he
      simp [fwd]
    · rw [if_pos (by omega), slice_flipDen _ _ _ (by simp; omega), slice_fwd, length_fwd, length_irange,
        slice_irange _ _ _ _ (by omega)]
      congr 3 <;> omega
  · rw [if_neg (by omega)] at h2
    simp only [hth, ↓reduceIte, den, sliceDen]
    rw [if_neg (by omega), slice_fwd, slice_irange _ _ _ _ (by omega)]
    congr 2 <;> omega

theorem len_eq_length_den_seg (h t : Int) : len (seg h t) = ((den (seg h t)).length : Int) := by
  simp only [len, den, gabs]
  split <;> split <;> simp <;> omega

/-! ### `Regions.Resize` and the slicing law -/

/-- the three-way result of `Regions.Resize` in terms of the closed form of the walk -/
def Reg.resizeCore (rs : List Reg) (lo hi : Int) : Reg :=
  let L := findL (lens rs) lo
  let R := findL (lens rs) hi
  if R.1 < L.1 then resizeNth rs L.1 (.head L.2)
  else if L.1 = R.1 then resizeNth rs L.1 (.headHead L.2 R.2)
  else many (resizeSpan rs L.1 R.1 L.2 R.2)

theorem resize_many_eq (rs : List Reg) (m : Mod) :
    resize (many rs) m = resizeCore rs (bounds m (lenList rs)).1 (bounds m (lenList rs)).2 := by
  rw [resize.eq_2, walkLens_eq _ 0 _ (Nat.le_refl _) (Nat.le_refl _)]
  simp [resizeCore]

/-- the slicing law for one region (all modifiers whose bounds stay inside) together with
"length = number of residues" -/
def DenLaw (r : Reg) : Prop :=
  len r = ((den r).length : Int) ∧
  ∀ m, 0 ≤ (bounds m (len r)).1 → (bounds m (len r)).1 ≤ (bounds m (len r)).2 →
    (bounds m (len r)).2 ≤ len r →
    den (resize r m) = sliceDen (den r) (bounds m (len r)).1 (bounds m (len r)).2

theorem denLaw_seg (h t : Int) : DenLaw (seg h t) := by
  refine ⟨len_eq_length_den_seg h t, ?_⟩
  intro m h0 h1 h2
  rw [resize.eq_1, Mod.apply_eq]
  simp only [len] at h0 h1 h2 ⊢
  have hg : Loc.gmax (bounds m (gabs (t - h))).1 (bounds m (gabs (t - h))).2 = (bounds m (gabs (t - h))).2 := by
    unfold Loc.gmax; split <;> omega
  rw [hg, ← den_seg_slice h t _ _ h0 h1 h2]
  split <;> rfl

theorem lenList_eq_length (rs : List Reg) (H : ∀ r ∈ rs, DenLaw r) :
    lenList rs = ((denList rs).length : Int) := by
  induction rs with
  | nil => rfl
  | cons r rs ih =>
    simp only [lenList, denList, List.length_append]
    rw [(H r (List.mem_cons_self ..)).1, ih (fun x hx => H x (List.mem_cons_of_mem _ hx))]
    omega

theorem len_nonneg (r : Reg) : 0 ≤ len r := by
  induction r using Reg.ind with
  | hs h t => simp only [len, gabs]; split <;> omega
  | hm rs ih =>
    simp only [len]
    induction rs with
    | nil => simp [lenList]
    | cons r rs ih2 =>
      simp only [lenList]
      have := ih r (List.mem_cons_self ..)
      have := ih2 (fun x hx => ih x (List.mem_cons_of_mem _ hx))
      omega
theorem sliceDen_append_right (d1 d2 : List Pos) (lo hi : Int) (h : (d1.length : Int) ≤ lo) :
    sliceDen (d1 ++ d2) lo hi = sliceDen d2 (lo - d1.length) (hi - d1.length) := by
  unfold sliceDen
  rw [List.drop_append, List.drop_eq_nil_of_le (by omega), List.nil_append]
  congr 2 <;> omega

theorem sliceDen_append_left (d1 d2 : List Pos) (lo hi : Int) (h : hi ≤ (d1.length : Int)) (h0 : 0 ≤ lo) :
    sliceDen (d1 ++ d2) lo hi = sliceDen d1 lo hi := by
  unfold sliceDen
  by_cases hlo : lo ≤ hi
  · rw [List.drop_append_of_le_length (by omega), List.take_append_of_le_length (by simp; omega)]
  · rw [show (hi - lo).toNat = 0 by omega]; simp

theorem sliceDen_append_mid (d1 d2 : List Pos) (lo hi : Int) (h0 : 0 ≤ lo) (h1 : lo ≤ (d1.length : Int))
    (h2 : (d1.length : Int) ≤ hi) :
    sliceDen (d1 ++ d2) lo hi = sliceDen d1 lo d1.length ++ d2.take (hi - d1.length).toNat := by
  unfold sliceDen
  rw [List.drop_append_of_le_length (by omega), List.take_append, List.length_drop]
  congr 1
  · rw [List.take_of_length_le (by simp; omega), List.take_of_length_le (by simp; omega)]
  · congr 1; omega

theorem sliceDen_zero (d : List Pos) (hi : Int) : sliceDen d 0 hi = d.take hi.toNat := by
  simp [sliceDen]

/-- the elements after `left` (`resizeTail`): everything up to the offset `x` -/
theorem resizeTail_den (rs : List Reg) (H : ∀ r ∈ rs, DenLaw r) (hne : rs ≠ []) (x : Int)
    (h0 : 0 ≤ x) (h1 : x ≤ lenList rs) :
    denList (resizeTail rs ((findL (lens rs) x).1 + 1) (findL (lens rs) x).2) =
      (denList rs).take x.toNat := by
  induction rs generalizing x with
  | nil => exact absurd rfl hne
  | cons r tl ih =>
    have hr := H r (List.mem_cons_self ..)
    have htl : ∀ y ∈ tl, DenLaw y := fun y hy => H y (List.mem_cons_of_mem _ hy)
    cases tl with
    | nil =>
      simp only [lens, findL, resizeTail.eq_2, Nat.le_refl, ↓reduceIte, denList, List.append_nil]
      simp only [lenList] at h1
      have := hr.2 (.headHead 0 x) (by simp [bounds]) (by simpa [bounds] using h0)
        (by simpa [bounds] using (by omega : x ≤ len r))
      simpa [bounds, sliceDen_zero] using this
    | cons r2 rest =>
      simp only [lens, findL]
      by_cases hn : len r < x
      · simp only [hn, ↓reduceIte]
        rw [resizeTail.eq_2, if_neg (by omega), Nat.add_sub_cancel, denList.eq_2, denList.eq_2 r]
        have := ih htl (by simp) (x - len r) (by omega) (by simp only [lenList] at h1 ⊢; omega)
        simp only [lens] at this
        have hl := hr.1
        rw [this, List.take_append (l₁ := r.den), List.take_of_length_le (l := r.den) (by omega)]
        congr 2
        omega
      · simp only [hn, ↓reduceIte, resizeTail.eq_2, Nat.zero_add, Nat.le_refl, denList, List.append_nil]
        have := hr.2 (.headHead 0 x) (by simp [bounds]) (by simpa [bounds] using h0)
          (by simpa [bounds] using (by omega : x ≤ len r))
        rw [List.take_append_of_le_length (by have := hr.1; omega)]
        simpa [bounds, sliceDen_zero] using this
theorem resizeCore_skip (r r2 : Reg) (rest : List Reg) (lo hi : Int) (h1 : len r < lo) (h2 : len r < hi) :
    resizeCore (r :: r2 :: rest) lo hi = resizeCore (r2 :: rest) (lo - len r) (hi - len r) := by
  simp only [resizeCore, lens, findL, h1, h2, ↓reduceIte, Nat.add_lt_add_iff_right, Nat.add_right_cancel_iff,
    resizeNth, resizeSpan, Nat.add_sub_cancel]
  rfl

/-- the slicing law for the elements of a `Regions` value lifts to the value itself -/
theorem resizeCore_den (rs : List Reg) (H : ∀ r ∈ rs, DenLaw r) (hne : rs ≠ []) (lo hi : Int)
    (h0 : 0 ≤ lo) (h1 : lo ≤ hi) (h2 : hi ≤ lenList rs) :
    den (resizeCore rs lo hi) = sliceDen (denList rs) lo hi := by
  induction rs generalizing lo hi with
  | nil => exact absurd rfl hne
  | cons r tl ih =>
    have hr := H r (List.mem_cons_self ..)
    have hl := hr.1
    have htl : ∀ y ∈ tl, DenLaw y := fun y hy => H y (List.mem_cons_of_mem _ hy)
    cases tl with
    | nil =>
      simp only [lenList] at h2
      have := hr.2 (.headHead lo hi) (by simpa [bounds] using h0) (by simpa [bounds] using h1)
        (by simpa [bounds] using (by omega : hi ≤ len r))
      simpa [resizeCore, lens, findL, resizeNth, denList, bounds] using this
    | cons r2 rest =>
      have hll := lenList_eq_length (r2 :: rest) htl
      rw [denList]
      by_cases hn : len r < lo
      · rw [resizeCore_skip _ _ _ _ _ hn (by omega), ih htl (by simp) _ _ (by omega) (by omega)
          (by simp only [lenList] at h2 ⊢; omega), sliceDen_append_right _ _ _ _ (by omega), hl]
      · by_cases hn2 : len r < hi
        · have h3 := resizeTail_den (r2 :: rest) htl (by simp) (hi - len r) (by omega)
            (by simp only [lenList] at h2 ⊢; omega)
          have h4 := hr.2 (.headTail lo 0) (by simpa [bounds] using h0) (by simp [bounds]; omega)
            (by simp [bounds])
          simp only [bounds, Int.zero_add] at h4
          simp only [lens] at h3
          simp only [resizeCore, lens, findL, hn, hn2, ↓reduceIte, Nat.not_lt_zero, resizeSpan]
          rw [if_neg (by omega), den.eq_2, denList.eq_2, h3, h4,
            sliceDen_append_mid _ _ _ _ h0 (by omega) (by omega), ← hl]
        · have := hr.2 (.headHead lo hi) (by simpa [bounds] using h0) (by simpa [bounds] using h1)
            (by simpa [bounds] using (by omega : hi ≤ len r))
          simp only [bounds] at this
          simp only [resizeCore, lens, findL, hn, hn2, ↓reduceIte, Nat.lt_irrefl, resizeNth, this]
          rw [sliceDen_append_left _ _ _ _ (by omega) h0]
theorem nonvoidList_mem {rs : List Reg} (h : nonvoidList rs = true) : ∀ r ∈ rs, nonvoid r = true := by
  induction rs with
  | nil => intro r hr; cases hr
  | cons a tl ih =>
    simp only [nonvoidList, Bool.and_eq_true] at h
    intro r hr
    rcases List.mem_cons.mp hr with rfl | hr
    · exact h.1
    · exact ih h.2 r hr

theorem properList_mem {rs : List Reg} (h : properList rs = true) : ∀ r ∈ rs, proper r = true := by
  induction rs with
  | nil => intro r hr; cases hr
  | cons a tl ih =>
    simp only [properList, Bool.and_eq_true] at h
    intro r hr
    rcases List.mem_cons.mp hr with rfl | hr
    · exact h.1
    · exact ih h.2 r hr

/-- every region without an empty `Regions` value obeys the slicing law -/
theorem denLaw_of_nonvoid (r : Reg) (hv : nonvoid r = true) : DenLaw r := by
  induction r using Reg.ind with
  | hs h t => exact denLaw_seg h t
  | hm rs ih =>
    simp only [nonvoid, Bool.and_eq_true, Bool.not_eq_true', List.isEmpty_eq_false_iff] at hv
    have H : ∀ r ∈ rs, DenLaw r := fun r hr => ih r hr (nonvoidList_mem hv.2 r hr)
    refine ⟨by simpa [len, den] using lenList_eq_length rs H, ?_⟩
    intro m h0 h1 h2
    simp only [len] at h0 h1 h2 ⊢
    rw [resize_many_eq, resizeCore_den rs H hv.1 _ _ h0 h1 h2, den]

/-! ### strand mirroring -/

theorem gabs_mirror (L h t : Int) : gabs (L - t - (L - h)) = gabs (t - h) := by
  unfold gabs; split <;> split <;> omega

theorem len_mirror (L : Int) (r : Reg) : len (mirror L r) = len r := by
  induction r using Reg.ind with
  | hs h t => simp only [mirror, len, gabs_mirror]
  | hm rs ih =>
    simp only [mirror, len]
    induction rs with
    | nil => rfl
    | cons a tl ih2 =>
      simp only [mirrorList, lenList]
      rw [ih a (List.mem_cons_self ..), ih2 (fun x hx => ih x (List.mem_cons_of_mem _ hx))]

theorem lenList_mirrorList (L : Int) (rs : List Reg) : lenList (mirrorList L rs) = lenList rs := by
  induction rs with
  | nil => rfl
  | cons a tl ih => simp only [mirrorList, lenList, len_mirror, ih]

theorem lens_mirrorList (L : Int) (rs : List Reg) : lens (mirrorList L rs) = lens rs := by
  induction rs with
  | nil => rfl
  | cons a tl ih => simp only [mirrorList, lens, len_mirror, ih]

/-- mirroring a non-empty segment commutes with every `Apply` -/
theorem resize_mirror_seg (L h t : Int) (hne : h ≠ t) (m : Mod) :
    resize (mirror L (seg h t)) m = mirror L (resize (seg h t) m) := by
  simp only [mirror, resize.eq_1, Mod.apply_eq, gabs_mirror]
  by_cases hth : t < h
  · rw [if_neg (by omega), if_pos hth]
    simp only [seg.injEq]; constructor <;> omega
  · rw [if_pos (by omega), if_neg hth]
    simp only [seg.injEq]; constructor <;> omega

/-- resizing commutes with `mirror L` on this region, for every modifier -/
def MirrorLaw (L : Int) (r : Reg) : Prop := ∀ m, resize (mirror L r) m = mirror L (resize r m)

theorem resizeNth_mirror (L : Int) (rs : List Reg) (H : ∀ r ∈ rs, MirrorLaw L r) (k : Nat) (m : Mod) :
    resizeNth (mirrorList L rs) k m = mirror L (resizeNth rs k m) := by
  induction rs generalizing k with
  | nil => simp [mirrorList, resizeNth, mirror]
  | cons a tl ih =>
    cases k with
    | zero => simp only [mirrorList, resizeNth]; exact H a (List.mem_cons_self ..) m
    | succ k => simp only [mirrorList, resizeNth]; exact ih (fun x hx => H x (List.mem_cons_of_mem _ hx)) k

theorem resizeTail_mirror (L : Int) (rs : List Reg) (H : ∀ r ∈ rs, MirrorLaw L r) (k : Nat) (u : Int) :
    resizeTail (mirrorList L rs) k u = mirrorList L (resizeTail rs k u) := by
  induction rs generalizing k with
  | nil => simp [mirrorList, resizeTail]
  | cons a tl ih =>
    simp only [mirrorList, resizeTail.eq_2]
    split
    · simp only [mirrorList, H a (List.mem_cons_self ..) _]
    · simp only [mirrorList, ih (fun x hx => H x (List.mem_cons_of_mem _ hx))]

theorem resizeSpan_mirror (L : Int) (rs : List Reg) (H : ∀ r ∈ rs, MirrorLaw L r) (l k : Nat) (a u : Int) :
    resizeSpan (mirrorList L rs) l k a u = mirrorList L (resizeSpan rs l k a u) := by
  induction rs generalizing l k with
  | nil => simp [mirrorList, resizeSpan]
  | cons x tl ih =>
    cases l with
    | zero =>
      simp only [mirrorList, resizeSpan, H x (List.mem_cons_self ..) _,
        resizeTail_mirror L tl (fun y hy => H y (List.mem_cons_of_mem _ hy))]
    | succ l => simp only [mirrorList, resizeSpan]; exact ih (fun y hy => H y (List.mem_cons_of_mem _ hy)) l _

/-- resizing commutes with strand mirroring on every proper region -/
theorem mirrorLaw_of_proper (L : Int) (r : Reg) (hp : proper r = true) : MirrorLaw L r := by
  induction r using Reg.ind with
  | hs h t =>
    intro m
    exact resize_mirror_seg L h t (by simpa [proper] using hp) m
  | hm rs ih =>
    simp only [proper, Bool.and_eq_true] at hp
    have H : ∀ r ∈ rs, MirrorLaw L r := fun r hr => ih r hr (properList_mem hp.2 r hr)
    intro m
    simp only [mirror]
    rw [resize_many_eq, resize_many_eq, lenList_mirrorList]
    simp only [resizeCore, lens_mirrorList]
    split
    · exact resizeNth_mirror L rs H _ _
    · split
      · exact resizeNth_mirror L rs H _ _
      · simp only [mirror, resizeSpan_mirror L rs H]
/-! ### offsets outside a segment -/

/-- the segment `(h, t)` with its head moved outward by `a` and its tail by `b` -/
def Reg.extSeg (h t a b : Int) : Reg := if t < h then seg (h + a) (t - b) else seg (h - a) (t + b)

/-- a resized segment in closed form, for every modifier with `lo ≤ hi` -/
theorem resize_seg_eq (h t : Int) (m : Mod) (h1 : (bounds m (gabs (t - h))).1 ≤ (bounds m (gabs (t - h))).2) :
    resize (seg h t) m =
      if t < h then seg (h - (bounds m (gabs (t - h))).1) (h - (bounds m (gabs (t - h))).2)
      else seg (h + (bounds m (gabs (t - h))).1) (h + (bounds m (gabs (t - h))).2) := by
  have hg : Loc.gmax (bounds m (gabs (t - h))).1 (bounds m (gabs (t - h))).2 = (bounds m (gabs (t - h))).2 := by
    unfold Loc.gmax; split <;> omega
  rw [resize.eq_1, Mod.apply_eq, hg]
  split <;> rfl

/-- offsets outside the segment extend it outward: the resized segment denotes the slice
`[lo + a, hi + a)` of the segment extended by `a = max 0 (-lo)` at its head and by
`b = max 0 (hi - len)` at its tail -/
theorem resize_seg_ext_den (h t : Int) (m : Mod) (lo hi : Int)
    (hb : bounds m (gabs (t - h)) = (lo, hi)) (h1 : lo ≤ hi) :
    den (resize (seg h t) m) =
      sliceDen (den (extSeg h t (Loc.gmax 0 (-lo)) (Loc.gmax 0 (hi - gabs (t - h)))))
        (lo + Loc.gmax 0 (-lo)) (hi + Loc.gmax 0 (-lo)) := by
  rw [resize_seg_eq h t m (by rw [hb]; exact h1), hb]
  simp only [extSeg, Loc.gmax, gabs]
  by_cases hth : t < h
  · simp only [hth, ↓reduceIte]
    rw [← den_seg_slice _ _ _ _ (by split <;> omega) (by omega) (by unfold gabs; repeat' split <;> omega)]
    rw [if_pos (by repeat' split <;> omega)]
    congr 2 <;> omega
  · simp only [hth, ↓reduceIte]
    rw [← den_seg_slice _ _ _ _ (by split <;> omega) (by omega) (by unfold gabs; repeat' split <;> omega)]
    rw [if_neg (by repeat' split <;> omega)]
    congr 2 <;> omega
/-! ### `mirror` is the change of coordinates to the reverse-complemented record -/

theorem fwd_irange_eq (a : Int) (n : Nat) :
    fwd (irange a n) = (List.range n).map fun (i : Nat) => ((a + (i : Int), false) : Pos) := by
  induction n generalizing a with
  | zero => rfl
  | succ n ih =>
    have h := ih (a + 1)
    simp only [fwd] at h ⊢
    rw [irange_succ, List.map_cons, h, List.range_succ_eq_map, List.map_cons, List.map_map]
    congr 1
    · simp
    · apply List.map_congr_left; intro i _
      simp only [Function.comp, Prod.mk.injEq, and_true]; omega

theorem flipDen_fwd_irange (a : Int) (n : Nat) :
    flipDen (fwd (irange a n)) = (List.range n).map fun (i : Nat) => ((a + n - 1 - (i : Int), true) : Pos) := by
  induction n generalizing a with
  | zero => rfl
  | succ n ih =>
    have h := ih (a + 1)
    rw [irange_succ, show fwd (a :: irange (a + 1) n) = [(a, false)] ++ fwd (irange (a + 1) n) from rfl,
      flipDen_append, h, List.range_succ, List.map_append]
    congr 1
    · apply List.map_congr_left; intro i _; simp; omega
    · simp [flipDen]; omega

/-- a non-empty segment and its mirror image read mirrored residues, in the same order -/
theorem den_mirror_seg (L h t : Int) (hne : h ≠ t) :
    den (mirror L (seg h t)) = (den (seg h t)).map (mirrorPos L) := by
  simp only [mirror, den]
  by_cases hth : t < h
  · rw [if_neg (by omega), if_pos hth, flipDen_fwd_irange, fwd_irange_eq, List.map_map]
    rw [show (L - t - (L - h)).toNat = (h - t).toNat by omega]
    apply List.map_congr_left; intro i hi
    simp only [Function.comp, mirrorPos, Bool.not_true, Prod.mk.injEq, and_true]
    have : (i : Int) < (h - t).toNat := by exact_mod_cast List.mem_range.mp hi
    omega
  · rw [if_pos (by omega), if_neg hth, flipDen_fwd_irange, fwd_irange_eq, List.map_map]
    rw [show (L - h - (L - t)).toNat = (t - h).toNat by omega]
    apply List.map_congr_left; intro i hi
    simp only [Function.comp, mirrorPos, Bool.not_false, Prod.mk.injEq, and_true]
    have : (i : Int) < (t - h).toNat := by exact_mod_cast List.mem_range.mp hi
    omega

/-- `mirror L` is the change of coordinates to the reverse-complemented record: a proper
region and its mirror image read mirrored residues on the opposite strand, in the same order -/
theorem den_mirror (L : Int) (r : Reg) (hp : proper r = true) :
    den (mirror L r) = (den r).map (mirrorPos L) := by
  induction r using Reg.ind with
  | hs h t => exact den_mirror_seg L h t (by simpa [proper] using hp)
  | hm rs ih =>
    simp only [proper, Bool.and_eq_true] at hp
    have H := properList_mem hp.2
    simp only [mirror, den]
    clear hp
    induction rs with
    | nil => rfl
    | cons a tl ih2 =>
      simp only [mirrorList, denList, List.map_append]
      rw [ih a (List.mem_cons_self ..) (H a (List.mem_cons_self ..)),
        ih2 (fun x hx => ih x (List.mem_cons_of_mem _ hx)) (fun x hx => H x (List.mem_cons_of_mem _ hx))]
/-! ### offsets outside a flat region -/

/-! #### step 1: the first segment's head -/

theorem len_extHead_seg (h t a : Int) (ha : 0 ≤ a) : len (extHead a (seg h t)) = len (seg h t) + a := by
  simp only [extHead]
  split <;> simp only [len, gabs] <;> (repeat' split) <;> omega

theorem len_extTail_seg (h t b : Int) (hb : 0 ≤ b) : len (extTail b (seg h t)) = len (seg h t) + b := by
  simp only [extTail]
  split <;> simp only [len, gabs] <;> (repeat' split) <;> omega

/-- `HeadHead` on the head-extended segment, offsets shifted by the extension -/
theorem resize_extHead_hh (h t a x y : Int) (ha : 0 ≤ a) :
    resize (extHead a (seg h t)) (.headHead (x + a) (y + a)) = resize (seg h t) (.headHead x y) := by
  simp only [extHead]
  by_cases hth : t < h
  · simp only [hth, ↓reduceIte, resize.eq_1, Mod.apply, Mod.applyFwd, Loc.gmax]
    rw [if_pos (by omega)]
    simp only [seg.injEq]; constructor <;> (repeat' split) <;> omega
  · simp only [hth, ↓reduceIte, resize.eq_1, Mod.apply, Mod.applyFwd, Loc.gmax]
    rw [if_neg (by omega)]
    simp only [seg.injEq]; constructor <;> (repeat' split) <;> omega

/-- `HeadTail{·, 0}` on the head-extended segment -/
theorem resize_extHead_ht (h t a x : Int) (ha : 0 ≤ a) :
    resize (extHead a (seg h t)) (.headTail (x + a) 0) = resize (seg h t) (.headTail x 0) := by
  simp only [extHead]
  by_cases hth : t < h
  · simp only [hth, ↓reduceIte, resize.eq_1, Mod.apply, Mod.applyFwd, Loc.gmax]
    rw [if_pos (by omega)]
    simp only [seg.injEq]; constructor <;> (repeat' split) <;> omega
  · simp only [hth, ↓reduceIte, resize.eq_1, Mod.apply, Mod.applyFwd, Loc.gmax]
    rw [if_neg (by omega)]
    simp only [seg.injEq]; constructor <;> (repeat' split) <;> omega

/-- extending the first segment's head by `a` and shifting both offsets by `a` does not
change the result of `Regions.Resize` -/
theorem resizeCore_extFirst (h t a : Int) (rs : List Reg) (lo hi : Int) (ha : 0 ≤ a) :
    resizeCore (extFirst a (seg h t :: rs)) (lo + a) (hi + a) = resizeCore (seg h t :: rs) lo hi := by
  cases rs with
  | nil => simp [extFirst, resizeCore, lens, findL, resizeNth, resize_extHead_hh h t a lo hi ha]
  | cons r2 rest =>
    simp only [extFirst, resizeCore, lens, findL, len_extHead_seg h t a ha]
    have e1 : lo + a - (len (seg h t) + a) = lo - len (seg h t) := by omega
    have e2 : hi + a - (len (seg h t) + a) = hi - len (seg h t) := by omega
    have c1 : (len (seg h t) + a < lo + a) ↔ (len (seg h t) < lo) := by omega
    have c2 : (len (seg h t) + a < hi + a) ↔ (len (seg h t) < hi) := by omega
    simp only [c1, c2, e1, e2]
    by_cases h1 : len (seg h t) < lo <;> by_cases h2 : len (seg h t) < hi
    · simp [h1, h2, resizeNth, resizeSpan]
    · simp [h1, h2, resizeNth]
    · simp [h1, h2, resizeSpan, resize_extHead_ht h t a lo ha]
    · simp [h1, h2, resizeNth, resize_extHead_hh h t a lo hi ha]

/-! #### step 2: the last segment's tail -/

theorem findL_cons (n : Int) (ls : List Int) (x : Int) (hne : ls ≠ []) :
    findL (n :: ls) x = if n < x then ((findL ls (x - n)).1 + 1, (findL ls (x - n)).2) else (0, x) := by
  cases ls with
  | nil => exact absurd rfl hne
  | cons m rest => rfl

theorem lens_ne_nil {rs : List Reg} (h : rs ≠ []) : lens rs ≠ [] := by
  cases rs with
  | nil => exact absurd rfl h
  | cons a tl => simp [lens]

theorem extLast_ne_nil (b : Int) {rs : List Reg} (h : rs ≠ []) : extLast b rs ≠ [] := by
  cases rs with
  | nil => exact absurd rfl h
  | cons a tl => cases tl <;> simp [extLast]

theorem length_extLast (b : Int) (rs : List Reg) : (extLast b rs).length = rs.length := by
  induction rs with
  | nil => rfl
  | cons a tl ih =>
    cases tl with
    | nil => rfl
    | cons a2 tl2 => simp only [extLast, List.length_cons] at ih ⊢; omega

/-- the walk never looks at the last element's length -/
theorem findL_extLast (b : Int) (rs : List Reg) (x : Int) :
    findL (lens (extLast b rs)) x = findL (lens rs) x := by
  induction rs generalizing x with
  | nil => rfl
  | cons a tl ih =>
    cases tl with
    | nil => simp [extLast, lens, findL]
    | cons a2 tl2 =>
      simp only [extLast, lens.eq_2 a]
      rw [findL_cons _ _ _ (lens_ne_nil (extLast_ne_nil b (by simp))), findL_cons _ _ _ (lens_ne_nil (by simp)),
        ih]

theorem findL_fst_lt (ls : List Int) (x : Int) (hne : ls ≠ []) : (findL ls x).1 < ls.length := by
  induction ls generalizing x with
  | nil => exact absurd rfl hne
  | cons n tl ih =>
    cases tl with
    | nil => simp [findL]
    | cons m rest =>
      simp only [findL]
      split
      · have := ih (x - n) (by simp); simp only [List.length_cons] at this ⊢; omega
      · simp

theorem length_lens (rs : List Reg) : (lens rs).length = rs.length := by
  induction rs with
  | nil => rfl
  | cons a tl ih => simp [lens, ih]

/-- modifiers that do not read the tail of the pair they are applied to -/
def Mod.tailFree : Mod → Bool
  | .head _ => true
  | .headHead _ _ => true
  | _ => false

theorem resize_extTail (b : Int) (hb : 0 ≤ b) (r : Reg) (m : Mod) (hm : m.tailFree = true) :
    resize (extTail b r) m = resize r m := by
  cases r with
  | many rs => rfl
  | seg h t =>
    simp only [extTail]
    cases m <;> simp [Mod.tailFree] at hm
    all_goals
      by_cases hth : t < h
      · simp only [hth, ↓reduceIte, resize.eq_1, Mod.apply, Mod.applyFwd]
        rw [if_pos (by omega)]
      · simp only [hth, ↓reduceIte, resize.eq_1, Mod.apply, Mod.applyFwd]
        rw [if_neg (by omega)]

theorem resizeNth_extLast (b : Int) (hb : 0 ≤ b) (rs : List Reg) (k : Nat) (m : Mod) (hm : m.tailFree = true) :
    resizeNth (extLast b rs) k m = resizeNth rs k m := by
  induction rs generalizing k with
  | nil => rfl
  | cons a tl ih =>
    cases tl with
    | nil =>
      cases k with
      | zero => simp [extLast, resizeNth, resize_extTail b hb a m hm]
      | succ k => simp [extLast, resizeNth]
    | cons a2 tl2 =>
      cases k with
      | zero => simp [extLast, resizeNth]
      | succ k => simp only [extLast, resizeNth]; exact ih k

theorem resizeTail_extLast (b : Int) (hb : 0 ≤ b) (rs : List Reg) (k : Nat) (u : Int) (hk : k ≤ rs.length)
    (hne : rs ≠ []) : resizeTail (extLast b rs) k u = resizeTail rs k u := by
  induction rs generalizing k with
  | nil => exact absurd rfl hne
  | cons a tl ih =>
    cases tl with
    | nil =>
      simp only [List.length_cons, List.length_nil] at hk
      simp only [extLast, resizeTail.eq_2]
      rw [if_pos (by omega), if_pos (by omega), resize_extTail b hb a _ rfl]
    | cons a2 tl2 =>
      simp only [extLast, resizeTail.eq_2 _ _ a]
      split
      · rfl
      · rw [ih (k - 1) (by simp only [List.length_cons] at hk ⊢; omega) (by simp)]

theorem resizeSpan_extLast (b : Int) (hb : 0 ≤ b) (rs : List Reg) (l k : Nat) (x u : Int)
    (hl : l + 1 < rs.length) (hk : k < rs.length) :
    resizeSpan (extLast b rs) l k x u = resizeSpan rs l k x u := by
  induction rs generalizing l k with
  | nil => simp at hl
  | cons a tl ih =>
    cases tl with
    | nil => simp at hl
    | cons a2 tl2 =>
      cases l with
      | zero =>
        simp only [extLast, resizeSpan]
        rw [resizeTail_extLast b hb (a2 :: tl2) k u (by simp only [List.length_cons] at hk ⊢; omega) (by simp)]
      | succ l =>
        simp only [extLast, resizeSpan]
        exact ih l (k - 1) (by simp only [List.length_cons] at hl ⊢; omega)
          (by simp only [List.length_cons] at hk hl ⊢; omega)

/-- extending the last segment's tail does not change the result of `Regions.Resize` -/
theorem resizeCore_extLast (b : Int) (hb : 0 ≤ b) (rs : List Reg) (lo hi : Int) :
    resizeCore (extLast b rs) lo hi = resizeCore rs lo hi := by
  by_cases hne : rs = []
  · subst hne; rfl
  · simp only [resizeCore, findL_extLast]
    have hr := findL_fst_lt (lens rs) hi (lens_ne_nil hne)
    rw [length_lens] at hr
    split
    · exact resizeNth_extLast b hb rs _ _ rfl
    · split
      · exact resizeNth_extLast b hb rs _ _ rfl
      · rw [resizeSpan_extLast b hb rs _ _ _ _ (by omega) hr]
theorem denLaw_of_isSeg (r : Reg) (hs : isSeg r = true) : DenLaw r := by
  cases r with
  | seg h t => exact denLaw_seg h t
  | many rs => simp [isSeg] at hs

theorem isSeg_extHead (a : Int) (r : Reg) : isSeg (extHead a r) = isSeg r := by
  cases r with
  | seg h t => simp only [extHead]; split <;> rfl
  | many rs => rfl

theorem isSeg_extTail (b : Int) (r : Reg) : isSeg (extTail b r) = isSeg r := by
  cases r with
  | seg h t => simp only [extTail]; split <;> rfl
  | many rs => rfl

theorem all_isSeg_extLast (b : Int) (rs : List Reg) (h : rs.all isSeg = true) :
    (extLast b rs).all isSeg = true := by
  induction rs with
  | nil => rfl
  | cons a tl ih =>
    cases tl with
    | nil => simpa [extLast, isSeg_extTail] using h
    | cons a2 tl2 =>
      simp only [List.all_cons, Bool.and_eq_true] at h ih ⊢
      simp only [extLast, List.all_cons, Bool.and_eq_true]
      exact ⟨h.1, ih h.2⟩

theorem lenList_extLast (b : Int) (hb : 0 ≤ b) (rs : List Reg) (h : rs.all isSeg = true) (hne : rs ≠ []) :
    lenList (extLast b rs) = lenList rs + b := by
  induction rs with
  | nil => exact absurd rfl hne
  | cons a tl ih =>
    cases tl with
    | nil =>
      cases a with
      | seg x y => simp only [extLast, lenList, len_extTail_seg x y b hb]; omega
      | many l => simp [isSeg] at h
    | cons a2 tl2 =>
      simp only [List.all_cons, Bool.and_eq_true] at h
      have := ih (by simp only [List.all_cons, Bool.and_eq_true]; exact h.2) (by simp)
      simp only [extLast, lenList] at this ⊢
      omega

/-- offsets outside a flat region extend its first / last segment outward: for every modifier
with `lo ≤ hi` (no other bound), the resized region reads the residues `lo + a .. hi + a - 1` of
the region whose first segment's head is moved outward by `a = max 0 (-lo)` and whose last
segment's tail is moved outward by `b = max 0 (hi - len)` -/
theorem resizeFlat_outside (rs : List Reg) (hflat : rs.all isSeg = true) (hne : rs ≠ []) (m : Mod)
    (lo hi : Int) (hb : bounds m (lenList rs) = (lo, hi)) (h1 : lo ≤ hi) :
    den (resize (many rs) m) =
      sliceDen (denList (extLast (Loc.gmax 0 (hi - lenList rs)) (extFirst (Loc.gmax 0 (-lo)) rs)))
        (lo + Loc.gmax 0 (-lo)) (hi + Loc.gmax 0 (-lo)) := by
  have ha : 0 ≤ Loc.gmax 0 (-lo) ∧ -lo ≤ Loc.gmax 0 (-lo) := by unfold Loc.gmax; split <;> omega
  have hbb : 0 ≤ Loc.gmax 0 (hi - lenList rs) ∧ hi - lenList rs ≤ Loc.gmax 0 (hi - lenList rs) := by
    unfold Loc.gmax; split <;> omega
  generalize Loc.gmax 0 (-lo) = a at ha ⊢
  generalize hbe : Loc.gmax 0 (hi - lenList rs) = b at hbb ⊢
  cases rs with
  | nil => exact absurd rfl hne
  | cons r tl =>
    cases r with
    | many l => simp [isSeg] at hflat
    | seg h t =>
      have hfl1 : (extFirst a (seg h t :: tl)).all isSeg = true := by
        simp only [extFirst, List.all_cons, isSeg_extHead]
        simpa using hflat
      have hfl2 := all_isSeg_extLast b _ hfl1
      have H : ∀ r ∈ extLast b (extFirst a (seg h t :: tl)), DenLaw r := fun r hr =>
        denLaw_of_isSeg r (List.all_eq_true.mp hfl2 r hr)
      have hlen : lenList (extLast b (extFirst a (seg h t :: tl))) = lenList (seg h t :: tl) + a + b := by
        rw [lenList_extLast b hbb.1 _ hfl1 (by simp [extFirst])]
        simp only [extFirst, lenList, len_extHead_seg h t a ha.1]
        omega
      rw [resize_many_eq, hb]
      simp only
      rw [← resizeCore_extFirst h t a tl lo hi ha.1, ← resizeCore_extLast b hbb.1 _ (lo + a) (hi + a)]
      exact resizeCore_den _ H (extLast_ne_nil b (by simp [extFirst])) _ _ (by omega) (by omega) (by omega)
end Gts
