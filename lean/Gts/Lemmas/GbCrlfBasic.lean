/-
  C01, CRLF input: the CRLF translation of a text (`Origin.crlf`, every LF replaced by CR LF — the
  same function as `Fasta.crlf`), the run equations of the line primitives on a CR LF terminator
  (`pars.Line`, `pars.EOL`), and `genbankFieldBodyParser` on the CRLF translation of a text written
  with `AddPrefix`.  Mirrors `ParsRun.lean` / `GbFieldBody.lean`.  Core Lean only.
-/
import Gts.Lemmas.GbReadWrite
import Gts.Model.Fasta
namespace Gts.GenBank
open Gts.Pars

/-! ### the translation -/

theorem crlf_nil : Origin.crlf [] = [] := rfl

theorem crlf_cons_lf (t : Bytes) : Origin.crlf (10 :: t) = 13 :: 10 :: Origin.crlf t := by
  simp [Origin.crlf]

theorem crlf_cons_ne (c : UInt8) (t : Bytes) (h : c ≠ 10) : Origin.crlf (c :: t) = c :: Origin.crlf t := by
  simp [Origin.crlf, h]

theorem crlf_append (a b : Bytes) : Origin.crlf (a ++ b) = Origin.crlf a ++ Origin.crlf b := by
  induction a with
  | nil => rfl
  | cons c a ih =>
    by_cases hc : c = 10
    · subst hc; simp only [List.cons_append, crlf_cons_lf, ih]
    · simp only [List.cons_append, crlf_cons_ne c _ hc, ih]

theorem crlf_noLF (a : Bytes) (h : noLF a) : Origin.crlf a = a := by
  have := Origin.crlf_append_no10 a [] h
  simpa [Origin.crlf] using this

theorem noLF_sp (n : Nat) : noLF (sp n) := by
  intro c hc
  simp only [sp, List.mem_replicate] at hc
  rw [hc.2]; decide

theorem crlf_sp (n : Nat) : Origin.crlf (sp n) = sp n := crlf_noLF _ (noLF_sp n)

theorem noEOL_noLF (l : Bytes) (h : noEOL l = true) : noLF l := by
  intro c hc
  simp only [noEOL, List.all_eq_true, Bool.and_eq_true, bne_iff_ne, ne_eq] at h
  exact (h c hc).1

/-- the model's two CRLF translations are one function -/
theorem crlf_eq_fasta (t : Bytes) : Origin.crlf t = Fasta.crlf t := by
  induction t with
  | nil => rfl
  | cons c t ih =>
    by_cases hc : c = 10
    · subst hc; simp [Origin.crlf, Fasta.crlf, ih]
    · simp [Origin.crlf, Fasta.crlf, hc, ih]

theorem crlf_length_ge (t : Bytes) : t.length ≤ (Origin.crlf t).length := by
  induction t with
  | nil => simp [Origin.crlf]
  | cons c t ih =>
    by_cases hc : c = 10
    · subst hc; rw [crlf_cons_lf]; simp only [List.length_cons]; omega
    · rw [crlf_cons_ne c t hc]; simp only [List.length_cons]; omega

theorem crlf_ne_nil (t : Bytes) (h : t ≠ []) : Origin.crlf t ≠ [] := by
  intro e
  have := crlf_length_ge t
  rw [e] at this
  cases t with
  | nil => exact h rfl
  | cons _ _ => simp at this

/-! ### `pars.Line` and `pars.EOL` on CR LF -/

theorem calcLine_crlfB (ln t : Bytes) (i n : Nat) (h : noEOL ln = true) :
    calcLine (ln ++ 13 :: 10 :: t) i n false = (i + ln.length, n + 2) := by
  induction ln generalizing i with
  | nil => simp [calcLine]
  | cons c ln ih =>
    rw [noEOL_cons] at h
    simp only [Bool.and_eq_true, bne_iff_ne, ne_eq] at h
    have e10 : (c == 10) = false := by simpa using h.1.1
    have e13 : (c == 13) = false := by simpa using h.1.2
    simp only [List.cons_append, calcLine, e10, e13, Bool.false_and, Bool.false_eq_true, if_false]
    rw [ih (i + 1) h.2, List.length_cons]; congr 1; omega

/-- `pars.Line` on a line without CR/LF that ends in CR LF: the same token, both bytes skipped -/
theorem line_okC (l r : Bytes) (stk : List Bytes) (h : noEOL l = true) :
    line ⟨l ++ 13 :: 10 :: r, stk⟩ = (.ok l, ⟨r, stk⟩) := by
  have hlt : ¬ (r.length + 1 + 1 < 2) := by omega
  simp [line, P.bind_run, P.map_run, getS, setS, calcLine_crlfB l r 0 0 h, hlt]

theorem eol_crlf (r : Bytes) (stk : List Bytes) : eol ⟨13 :: 10 :: r, stk⟩ = (.ok [13, 10], ⟨r, stk⟩) := by
  simp [eol, P.bind_run, P.map_run, getS, advanceN, setS]

/-! ### continuation lines -/

/-- the continuation lines as they stand in the CRLF file: indent, line, CR LF -/
def contTextC (pre : Bytes) (ls : List Bytes) : Bytes := ls.flatMap fun l => pre ++ l ++ [13, 10]

theorem contTextC_cons (pre l : Bytes) (ls : List Bytes) :
    contTextC pre (l :: ls) = pre ++ (l ++ 13 :: 10 :: contTextC pre ls) := by
  simp [contTextC, List.flatMap_cons]

theorem contTextC_length_ge (pre : Bytes) (ls : List Bytes) : ls.length ≤ (contTextC pre ls).length := by
  induction ls with
  | nil => simp [contTextC]
  | cons l ls ih => rw [contTextC_cons]; simp only [List.length_append, List.length_cons]; omega

theorem fieldLine_okC (d : Nat) (l r : Bytes) (stk : List Bytes) (h : noEOL l = true) :
    fieldLine d ⟨sp d ++ (l ++ 13 :: 10 :: r), stk⟩ = (.ok l, ⟨r, stk⟩) := by
  simp [fieldLine, P.bind_run, lit_ok, line_okC l r stk h]

theorem bodyMore_linesC (d : Nat) (sep : UInt8) (ls : List Bytes) (rest : Bytes) (stk : List Bytes)
    (acc : Bytes) (k f : Nat) (hls : ∀ x ∈ ls, noEOL x = true)
    (hrest : (sp d).isPrefixOf rest = false) (hf : ls.length < f) :
    bodyMore d sep f acc k ⟨contTextC (sp d) ls ++ rest, stk⟩ =
      (.ok (acc ++ sepText sep ls, k + ls.length), ⟨rest, stk⟩) := by
  induction ls generalizing acc k f with
  | nil =>
    cases f with
    | zero => omega
    | succ f =>
      simp [bodyMore, contTextC, sepText, P.bind_run, attempt_run, fieldLine_fail d rest stk hrest, P.pure_run]
  | cons l ls ih =>
    cases f with
    | zero => omega
    | succ f =>
      have hl : noEOL l = true := hls l (by simp)
      have hls' : ∀ x ∈ ls, noEOL x = true := fun x hx => hls x (by simp [hx])
      rw [contTextC_cons, sepText_cons]
      simp only [bodyMore, P.bind_run, attempt_run, List.append_assoc, List.cons_append,
        fieldLine_okC d l _ stk hl]
      rw [ih (acc ++ sep :: l) (k + 1) f hls' (by simp only [List.length_cons] at hf; omega)]
      have e : k + 1 + ls.length = k + (ls.length + 1) := by omega
      simp only [List.append_assoc, List.cons_append, List.length_cons, e]

/-- the body of a field in a CRLF file: the same joined text and the same number of continuation
lines as in the LF file (`fieldBody_ok`) -/
theorem fieldBody_okC (d : Nat) (sep : UInt8) (l0 : Bytes) (ls : List Bytes) (rest : Bytes)
    (stk : List Bytes) (h0 : noEOL l0 = true) (hls : ∀ x ∈ ls, noEOL x = true)
    (hrest : (sp d).isPrefixOf rest = false) :
    fieldBody d sep ⟨l0 ++ 13 :: 10 :: (contTextC (sp d) ls ++ rest), stk⟩ =
      (.ok (l0 ++ sepText sep ls, ls.length), ⟨rest, stk⟩) := by
  have hlen : ls.length < (contTextC (sp d) ls ++ rest).length + 1 := by
    have := contTextC_length_ge (sp d) ls
    simp only [List.length_append]; omega
  simp only [fieldBody, P.bind_run, line_okC l0 _ stk h0, getS]
  rw [bodyMore_linesC d sep ls rest stk l0 0 _ hls hrest hlen]
  simp

/-- the CRLF translation of `AddPrefix(v, pre)` written over the lines -/
theorem crlf_addPrefix_lines (pre v : Bytes) (rest : Bytes) (hpre : noLF pre) :
    Origin.crlf (addPrefix pre v) ++ 13 :: 10 :: rest =
      headLine v ++ 13 :: 10 :: (contTextC pre (tailLines v) ++ rest) := by
  induction v with
  | nil => simp [addPrefix, headLine, tailLines, splitLF, contTextC, Origin.crlf]
  | cons c v ih =>
    by_cases hc : c = 10
    · subst hc
      have e := splitLF_cons_lf v
      have h1 : headLine (10 :: v) = [] := by simp [headLine, e]
      have h2 : tailLines (10 :: v) = splitLF v := by simp [tailLines, e]
      rw [h1, h2, splitLF_eq v, contTextC_cons]
      simp only [addPrefix, if_true, crlf_cons_lf, crlf_append, crlf_noLF pre hpre, List.cons_append,
        List.nil_append, List.append_assoc]
      rw [ih]
    · have e := splitLF_cons_other c v hc
      have h1 : headLine (c :: v) = c :: headLine v := by simp [headLine, e]
      have h2 : tailLines (c :: v) = tailLines v := by simp [tailLines, e]
      rw [h1, h2]
      simp only [addPrefix, hc, if_false, crlf_cons_ne c _ hc, List.cons_append]
      rw [ih]

/-- **Field body in a CRLF file.**  The CRLF translation of a text without carriage return written
with `AddPrefix(v, indent)`, terminated by CR LF, is read back by `genbankFieldBodyParser` exactly
as from the LF file. -/
theorem fieldBody_addPrefixC (d : Nat) (v rest : Bytes) (stk : List Bytes) (hv : noCR v = true)
    (hrest : (sp d).isPrefixOf rest = false) :
    fieldBody d 10 ⟨Origin.crlf (addPrefix (sp d) v) ++ 13 :: 10 :: rest, stk⟩ =
      (.ok (v, (tailLines v).length), ⟨rest, stk⟩) := by
  obtain ⟨h0, hls⟩ := lines_noEOL v hv
  rw [crlf_addPrefix_lines _ _ _ (noLF_sp d), fieldBody_okC d 10 _ _ rest stk h0 hls hrest, ← lines_join v]

end Gts.GenBank
