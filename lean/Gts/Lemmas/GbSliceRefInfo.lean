/-
  C01 / slice helper lemmas: the REFERENCE info `GenBankFields.Slice` prints —
  `(bases x to y; …)` — is read back by `parseReferenceInfo` as the ranges it was printed from, and
  it is a one-line text that does not start with a digit.  Core Lean only.
-/
import Gts.Lemmas.GbSliceInt
import Gts.Lemmas.GbLocus
import Gts.Lemmas.RefInfo
namespace Gts.GbSliceRef
open Gts Gts.Pars Gts.GenBank

theorem str_to : str " to " = [32, 116, 111, 32] := by decide +kernel
theorem str_sep : str "; " = [59, 32] := by decide +kernel

/-- the text of one range `[s, e)`: `s+1 to e` -/
def rangeText (r : Int × Int) : Bytes := intBytes (r.1 + 1) ++ str " to " ++ intBytes r.2

/-- a range `parseReferenceInfo` can yield: 0-based, non-empty, inside Go's `int` -/
def RangeOk (r : Int × Int) : Prop := 0 ≤ r.1 ∧ r.1 < r.2 ∧ r.2 ≤ 9223372036854775807

theorem rangeText_eq (r : Int × Int) (h : RangeOk r) :
    rangeText r = natDigits (r.1 + 1).toNat ++ ([32, 116, 111, 32] ++ natDigits r.2.toNat) := by
  obtain ⟨h0, h1, h2⟩ := h
  unfold rangeText
  have e1 : r.1 + 1 = ((r.1 + 1).toNat : Int) := by omega
  have e2 : r.2 = (r.2.toNat : Int) := by omega
  rw [str_to]
  conv => lhs; rw [e1, e2, GbSliceInt.intBytes_ofNat, GbSliceInt.intBytes_ofNat]
  simp only [List.append_assoc]

/-- `pars.Seq(pars.Int, " to ", pars.Int).Map(…)` on a printed range followed by a non-digit -/
theorem refRange_ok (r : Int × Int) (rest : Bytes) (stk : List Bytes) (h : RangeOk r)
    (hrest : rest.dropWhile isDigit = rest) :
    refRange ⟨rangeText r ++ rest, stk⟩ = (.ok r, ⟨rest, stk⟩) := by
  have ht := rangeText_eq r h
  obtain ⟨h0, h1, h2⟩ := h
  rw [ht]
  have i1 := int_natDigits (r.1 + 1).toNat ([32, 116, 111, 32] ++ (natDigits r.2.toNat ++ rest)) stk
    (by simp [isDigit]) (by omega)
  have i2 := int_natDigits r.2.toNat rest stk hrest (by omega)
  have l1 := lit_ok [32, 116, 111, 32] (natDigits r.2.toNat ++ rest) stk
  have e1 : (((r.1 + 1).toNat : Nat) : Int) = r.1 + 1 := by omega
  have e2 : ((r.2.toNat : Nat) : Int) = r.2 := by omega
  have hno : ¬ (r.2 ≤ r.1 + 1 - 1) := by omega
  simp only [List.append_assoc] at i1 l1 ⊢
  simp only [refRange, P.bind_run, i1, str_to, l1, i2, e1, e2, if_neg hno, P.pure_run]
  have : r.1 + 1 - 1 = r.1 := by omega
  rw [this]

/-- the tail of the printed list: `"; " range` for every further range -/
def moreText (rs : List (Int × Int)) : Bytes := rs.flatMap fun r => str "; " ++ rangeText r

theorem rangeText_head (r : Int × Int) (h : RangeOk r) : ∃ d ds, rangeText r = d :: ds ∧ isDigit d = true := by
  rw [rangeText_eq r h]
  obtain ⟨_, h2, d, ds, h3, _⟩ := natDigits_spec (r.1 + 1).toNat
  refine ⟨d, ds ++ ([32, 116, 111, 32] ++ natDigits r.2.toNat), by rw [h3]; rfl, ?_⟩
  rw [h3] at h2
  simp only [List.all_cons, Bool.and_eq_true] at h2
  exact h2.1

/-- `pars.Many(pars.Seq("; ", range).Child(1))` on the printed tail followed by `)` -/
theorem refMore_ok (rs : List (Int × Int)) (k : Nat) (acc : List (Int × Int)) (tail : Bytes) (stk : List Bytes)
    (h : ∀ r ∈ rs, RangeOk r) (hk : rs.length < k) :
    refMore k acc ⟨moreText rs ++ 41 :: tail, stk⟩ = (.ok (acc.reverse ++ rs), ⟨41 :: tail, stk⟩) := by
  induction rs generalizing k acc with
  | nil =>
    obtain ⟨k, rfl⟩ : ∃ j, k = j + 1 := ⟨k - 1, by simp at hk; omega⟩
    have hl : lit (str "; ") ⟨41 :: tail, stk⟩ = (.error .fail, ⟨41 :: tail, stk⟩) :=
      lit_fail _ _ _ (by rw [str_sep]; rfl)
    simp only [moreText, List.flatMap_nil, List.nil_append, refMore, P.bind_run, getS, attempt_run, hl, setS,
      P.pure_run, List.append_nil]
  | cons r rs ih =>
    obtain ⟨k, rfl⟩ : ∃ j, k = j + 1 := ⟨k - 1, by simp at hk; omega⟩
    have hr := h r (by simp)
    have hnext : (moreText rs ++ 41 :: tail).dropWhile isDigit = moreText rs ++ 41 :: tail := by
      cases rs with
      | nil => simp [moreText, isDigit]
      | cons r2 rs2 => simp [moreText, str_sep, isDigit]
    have hl := lit_ok (str "; ") (rangeText r ++ (moreText rs ++ 41 :: tail)) stk
    have hrr := refRange_ok r (moreText rs ++ 41 :: tail) stk hr hnext
    have hshape : moreText (r :: rs) ++ 41 :: tail = str "; " ++ (rangeText r ++ (moreText rs ++ 41 :: tail)) := by
      simp only [moreText, List.flatMap_cons, List.append_assoc]
    rw [hshape]
    simp only [refMore, P.bind_run, getS, attempt_run, hl, hrr]
    rw [ih k (r :: acc) (fun x hx => h x (by simp [hx])) (by simp at hk; omega)]
    simp

theorem moreText_length (rs : List (Int × Int)) : rs.length ≤ (moreText rs).length := by
  induction rs with
  | nil => simp [moreText]
  | cons r rs ih =>
    simp only [moreText, List.flatMap_cons, List.length_append, List.length_cons, str_sep] at ih ⊢
    simp only [List.length_nil]
    omega

/-- `strings.Join(ss, "; ")` of the printed ranges -/
theorem parts_text (r : Int × Int) (rs : List (Int × Int)) :
    (((r :: rs).map fun x => intBytes (x.1 + 1) ++ str " to " ++ intBytes x.2).intersperse (str "; ")).flatten =
      rangeText r ++ moreText rs := by
  induction rs generalizing r with
  | nil => simp [rangeText, moreText]
  | cons r2 rs ih =>
    have := ih r2
    simp only [List.map_cons, List.intersperse_cons_cons, List.flatten_cons, moreText, List.flatMap_cons] at this ⊢
    rw [this]
    simp [rangeText, List.append_assoc]

theorem fmtRanges_eq (pref : Bytes) (r : Int × Int) (rs : List (Int × Int)) :
    fmtRanges pref (r :: rs) = ([40] ++ pref ++ [32]) ++ (rangeText r ++ (moreText rs ++ [41])) := by
  have := parts_text r rs
  show [40] ++ pref ++ [32] ++ (((r :: rs).map fun x => intBytes (x.1 + 1) ++ str " to " ++ intBytes x.2).intersperse
    (str "; ")).flatten ++ [41] = _
  rw [this]
  simp only [List.append_assoc]

/-- **reference info round trip**: `parseReferenceInfo(prefix)` reads the text
`fmt.Sprintf("(%s %s)", prefix, strings.Join(ss, "; "))`, `ss[i] = fmt.Sprintf("%d to %d", s+1, e)`,
back as the ranges `[s, e)` it was printed from — for every non-empty list of ranges with
`1 ≤ s+1 ≤ e ≤ 2^63-1` and every counter word -/
theorem parseRefInfo_fmtRanges (pref : Bytes) (rs : List (Int × Int)) (hne : rs ≠ [])
    (h : ∀ r ∈ rs, RangeOk r) : parseRefInfo pref (fmtRanges pref rs) = some rs := by
  cases rs with
  | nil => exact absurd rfl hne
  | cons r rs =>
    have hr := h r (by simp)
    rw [fmtRanges_eq]
    have hl := lit_ok ([40] ++ pref ++ [32]) (rangeText r ++ (moreText rs ++ [41])) []
    have hnext : (moreText rs ++ [41]).dropWhile isDigit = moreText rs ++ [41] := by
      cases rs with
      | nil => simp [moreText, isDigit]
      | cons r2 rs2 => simp [moreText, str_sep, isDigit]
    have hrr := refRange_ok r (moreText rs ++ [41]) [] hr hnext
    have hfuel : rs.length < (([40] ++ pref ++ [32]) ++ (rangeText r ++ (moreText rs ++ [41]))).length := by
      have := moreText_length rs
      simp only [List.length_append, List.length_cons, List.length_nil]
      omega
    have hm := refMore_ok rs _ [] [] [] (fun x hx => h x (by simp [hx])) hfuel
    have hc := lit_ok [41] [] []
    simp only [List.append_nil, List.reverse_nil, List.nil_append] at hm hc
    unfold parseRefInfo
    simp only [P.run', ExceptT.run, StateT.run]
    simp only [P.bind_run, hl, hrr, hm, hc, P.pure_run]

/-! ### the printed info as a line of the REFERENCE head -/

theorem natDigits_noEOL (n : Nat) : noEOL (natDigits n) = true := by
  obtain ⟨_, h2, _⟩ := natDigits_spec n
  simp only [noEOL, List.all_eq_true] at h2 ⊢
  intro c hc
  have := h2 c hc
  simp only [isDigit, Bool.and_eq_true, decide_eq_true_eq] at this
  have h10 : c ≠ 10 := by intro e; subst e; exact absurd this.1 (by decide)
  have h13 : c ≠ 13 := by intro e; subst e; exact absurd this.1 (by decide)
  simp [h10, h13]

theorem noEOL_append (a b : Bytes) : noEOL (a ++ b) = (noEOL a && noEOL b) := by
  simp [noEOL, List.all_append]

theorem itoaB_noEOL (n : Int) : noEOL (itoaB n) = true := by
  unfold itoaB
  split
  · rw [noEOL_cons, natDigits_noEOL]; rfl
  · exact natDigits_noEOL _

theorem intBytes_noEOL (n : Int) : noEOL (intBytes n) = true := by
  rw [GbSliceInt.intBytes_eq]; exact itoaB_noEOL n

theorem rangeText_noEOL (r : Int × Int) : noEOL (rangeText r) = true := by
  simp only [rangeText, noEOL_append, intBytes_noEOL, str_to, Bool.true_and, Bool.and_true]
  rfl

theorem moreText_noEOL (rs : List (Int × Int)) : noEOL (moreText rs) = true := by
  induction rs with
  | nil => rfl
  | cons r rs ih =>
    simp only [moreText, List.flatMap_cons] at ih ⊢
    rw [noEOL_append, noEOL_append, rangeText_noEOL, ih, str_sep]
    rfl

/-- the printed info is one line (no CR, no LF) when the counter word is, and starts with `(` -/
theorem fmtRanges_noEOL (pref : Bytes) (rs : List (Int × Int)) (hp : noEOL pref = true) :
    noEOL (fmtRanges pref rs) = true := by
  cases rs with
  | nil =>
    have : fmtRanges pref [] = [40] ++ (pref ++ [32, 41]) := by simp [fmtRanges]
    rw [this, noEOL_append, noEOL_append, hp]
    rfl
  | cons r rs =>
    rw [fmtRanges_eq]
    simp only [noEOL_append, hp, rangeText_noEOL, moreText_noEOL, Bool.true_and, Bool.and_true]
    rfl

theorem fmtRanges_head (pref : Bytes) (rs : List (Int × Int)) : ∃ t, fmtRanges pref rs = 40 :: t := by
  exact ⟨_, rfl⟩

/-! ### the clipped ranges are ranges again -/

/-- a proper range that overlaps a non-empty window `[a, b)` is clipped to a proper range inside
`[0, b - a]` -/
theorem clipRange_ok (a b : Int) (r : Int × Int) (hab : a < b) (hfit : b - a ≤ 9223372036854775807)
    (hr : r.1 < r.2) (ho : Loc.rangeOverlap r.1 r.2 a b = true) : RangeOk (clipRange a b r) := by
  have h1 : ¬ r.2 < r.1 := by omega
  have h2 : ¬ b < a := by omega
  simp only [Loc.rangeOverlap, if_neg h1, if_neg h2, Bool.and_eq_true, decide_eq_true_eq] at ho
  simp only [RangeOk, clipRange, Loc.gmax, Loc.gmin]
  refine ⟨?_, ?_, ?_⟩ <;> split <;> (try split) <;> omega

/-- **what `Slice` writes into a reference re-parses**: for a non-empty window and an info that
parses with some range overlapping the window, the new info is read back by `parseReferenceInfo`
as exactly the clipped, re-based ranges -/
theorem sliceRefInfo_reparse (pref info : Bytes) (a b : Int) (locs : List (Int × Int)) (hab : a < b)
    (hfit : b - a ≤ 9223372036854775807) (hp : parseRefInfo pref info = some locs)
    (hol : (locs.filter fun r => Loc.rangeOverlap r.1 r.2 a b) ≠ []) :
    ∃ i, sliceRefInfo pref a b info = some i ∧
      i = fmtRanges pref ((locs.filter fun r => Loc.rangeOverlap r.1 r.2 a b).map (clipRange a b)) ∧
      parseRefInfo pref i = some ((locs.filter fun r => Loc.rangeOverlap r.1 r.2 a b).map (clipRange a b)) := by
  have hne : (locs.filter fun r => Loc.rangeOverlap r.1 r.2 a b).isEmpty = false := by
    cases h : locs.filter fun r => Loc.rangeOverlap r.1 r.2 a b with
    | nil => exact absurd h hol
    | cons _ _ => rfl
  refine ⟨_, ?_, rfl, ?_⟩
  · simp only [sliceRefInfo, hp, hne, Bool.false_eq_true, if_false]
  · apply parseRefInfo_fmtRanges
    · intro h
      exact hol (List.map_eq_nil_iff.mp h)
    · intro c hc
      obtain ⟨r, hr, rfl⟩ := List.mem_map.mp hc
      obtain ⟨hm, ho⟩ := List.mem_filter.mp hr
      exact clipRange_ok a b r hab hfit (RefInfo.parseRefInfo_proper pref info locs hp r hm) ho

end Gts.GbSliceRef
