/-
  `Repair` (property C12), part 6: the sort-and-push loop is idempotent on a class of
  well-formed forward ranges.  Core Lean only.
-/
import Gts.Lemmas.RepairCover
namespace Gts
open Loc

/-! ### a relation between neighbours -/

/-- `r` holds between every two neighbours of the list -/
def Adj {α} (r : α → α → Prop) : List α → Prop
  | [] => True
  | [_] => True
  | a :: b :: l => r a b ∧ Adj r (b :: l)

theorem adj_tail {α} {r : α → α → Prop} {a : α} {l : List α} (h : Adj r (a :: l)) : Adj r l := by
  cases l with
  | nil => trivial
  | cons b l => exact h.2

theorem adj_imp {α} {r r' : α → α → Prop} (hi : ∀ a b, r a b → r' a b) :
    ∀ {l : List α}, Adj r l → Adj r' l
  | [], _ => trivial
  | [_], _ => trivial
  | _ :: b :: l, h => ⟨hi _ _ h.1, adj_imp hi (l := b :: l) h.2⟩

theorem adj_snoc {α} {r : α → α → Prop} (l : List α) (x : α) (h : Adj r l)
    (hx : ∀ y, l.getLast? = some y → r y x) : Adj r (l ++ [x]) := by
  induction l with
  | nil => trivial
  | cons a l ih =>
    cases l with
    | nil => exact ⟨hx a rfl, trivial⟩
    | cons b l =>
      refine ⟨h.1, ih h.2 ?_⟩
      intro y hy
      apply hx y
      simpa using hy

theorem adj_reverse {α} {r : α → α → Prop} (l : List α) (h : Adj r l) :
    Adj (fun a b => r b a) l.reverse := by
  induction l with
  | nil => trivial
  | cons a l ih =>
    rw [List.reverse_cons]
    apply adj_snoc _ _ (ih (adj_tail h))
    intro y hy
    rw [List.getLast?_reverse] at hy
    cases l with
    | nil => simp at hy
    | cons b l =>
      simp only [List.head?_cons, Option.some.injEq] at hy
      subst hy
      exact h.1

/-! ### `LocationLess` on well-formed forward ranges -/

/-- a forward range with `Start < End` -/
def Loc.rwf : Loc → Bool
  | ranged s e _ _ => decide (s < e)
  | _ => false

theorem rwf_isRanged {l : Loc} (h : l.rwf = true) : l.isRanged = true := by
  cases l <;> simp [rwf] at h <;> rfl

theorem less_ranged (s1 e1 : Int) (a5 a3 : Bool) (s2 e2 : Int) (b5 b3 : Bool) (h1 : s1 < e1) (h2 : s2 < e2) :
    less (ranged s1 e1 a5 a3) (ranged s2 e2 b5 b3) = true ↔
      s1 < s2 ∨ (s1 = s2 ∧ (e1 < e2 ∨ (e1 = e2 ∧
        partialCount (ranged s1 e1 a5 a3) < partialCount (ranged s2 e2 b5 b3)))) := by
  have e : less (ranged s1 e1 a5 a3) (ranged s2 e2 b5 b3) =
      contigLess (ranged s1 e1 a5 a3) (ranged s2 e2 b5 b3) := by simp [less, lessB]
  rw [e, contigLess_iff (by rfl) (by rfl)]
  simp only [lexLt, nkey, span?, gmin, gmax]
  have : ¬ e1 < s1 := by omega
  have : ¬ e2 < s2 := by omega
  simp [*]

/-! ### `sortLocs`: neighbours are in order; a list in order is left alone -/

theorem insR_adj (x : Loc) (r : List Loc) (h : Adj (fun b a => less b a = false) r) :
    Adj (fun b a => less b a = false) (insR x r) := by
  induction r with
  | nil => trivial
  | cons y r ih =>
    simp only [insR]
    by_cases hxy : less x y = true
    · simp only [hxy, if_true]
      cases r with
      | nil => exact ⟨less_asymm hxy, trivial⟩
      | cons y2 r =>
        have ih' := ih h.2
        simp only [insR] at ih' ⊢
        by_cases hxy2 : less x y2 = true
        · simp only [hxy2, if_true] at ih' ⊢
          exact ⟨h.1, ih'⟩
        · simp only [hxy2, if_false, Bool.false_eq_true] at ih' ⊢
          exact ⟨less_asymm hxy, ih'⟩
    · simp only [hxy, if_false, Bool.false_eq_true]
      exact ⟨by simpa using hxy, h⟩

theorem sortLocs_adj (l : List Loc) : Adj (fun a b => less b a = false) (sortLocs l) := by
  have : ∀ (l r : List Loc), Adj (fun b a => less b a = false) r →
      Adj (fun b a => less b a = false) (l.foldl (fun rpre x => insR x rpre) r) := by
    intro l
    induction l with
    | nil => intro r h; exact h
    | cons x xs ih => intro r h; exact ih _ (insR_adj x r h)
  exact adj_reverse _ (this l [] trivial)

theorem sortFold_id (p rpre : List Loc) (h : Adj (fun a b => less b a = false) p)
    (hh : ∀ y x, rpre.head? = some y → p.head? = some x → less x y = false) :
    p.foldl (fun rpre x => insR x rpre) rpre = p.reverse ++ rpre := by
  induction p generalizing rpre with
  | nil => simp
  | cons x p ih =>
    have hstep : insR x rpre = x :: rpre := by
      cases rpre with
      | nil => rfl
      | cons y r => simp [insR, hh y x rfl rfl]
    simp only [List.foldl_cons, hstep]
    rw [ih (x :: rpre) (adj_tail h)]
    · simp
    · intro y x' hy hx'
      simp only [List.head?_cons, Option.some.injEq] at hy
      subst hy
      cases p with
      | nil => simp at hx'
      | cons z p =>
        simp only [List.head?_cons, Option.some.injEq] at hx'
        subst hx'
        exact h.1

theorem sortLocs_id (p : List Loc) (h : Adj (fun a b => less b a = false) p) : sortLocs p = p := by
  simp only [sortLocs, sortFold_id p [] h (fun _ _ hy => by simp at hy)]
  simp

/-! ### pushing a list whose neighbours are not fused -/

theorem pushAllD_unmerged_adj (d : Nat) (f : Bool) (ys racc : List Loc)
    (hr : ∀ x ∈ racc, x.isRanged = true) (hy : ∀ y ∈ ys, y.isRanged = true)
    (h : Adj (fun a b => mergeable f a b = false) ys)
    (hh : ∀ v y, racc.head? = some v → ys.head? = some y → mergeable f v y = false) :
    pushAllD (d + 1) racc ys f = ys.reverse ++ racc := by
  induction ys generalizing racc with
  | nil => simp [pushAllD]
  | cons y ys ih =>
    have hyr := hy y (by simp)
    have hstep : pushD (d + 1) racc y f = y :: racc := by
      cases racc with
      | nil => cases y <;> simp [isRanged] at hyr; rfl
      | cons v rest => exact pushD_unmerged d v rest y f (hr v (by simp)) hyr (hh v y rfl rfl)
    simp only [pushAllD, List.foldl_cons, hstep] at ih ⊢
    rw [ih (y :: racc)]
    · simp
    · intro x hx
      rcases List.mem_cons.mp hx with rfl | hx
      · exact hyr
      · exact hr x hx
    · intro z hz; exact hy z (by simp [hz])
    · exact adj_tail h
    · intro v z hv hz
      simp only [List.head?_cons, Option.some.injEq] at hv
      subst hv
      cases ys with
      | nil => simp at hz
      | cons w ys =>
        simp only [List.head?_cons, Option.some.injEq] at hz
        subst hz
        exact h.1

/-! ### the pushed list of sorted well-formed ranges is in order and has no fusable neighbours -/

/-- the last list element `v` against the last pushed input `u`: same end and 3' marker, and
either `v = u` or `v` starts further left -/
def headRel (v u : Loc) : Prop :=
  ∃ vs ve v5 v3 us u5, v = ranged vs ve v5 v3 ∧ u = ranged us ve u5 v3 ∧ ((vs = us ∧ v5 = u5) ∨ vs < us)

/-- invariant of the `Push` loop over sorted well-formed ranges (accumulator reversed) -/
def PushInv (f : Bool) (racc : List Loc) (u : Loc) : Prop :=
  (∀ x ∈ racc, x.rwf = true) ∧
  Adj (fun b a => less b a = false ∧ mergeable f a b = false) racc ∧
  ∃ v rest, racc = v :: rest ∧ headRel v u

theorem pushInv_step (d : Nat) (f : Bool) (racc : List Loc) (u x : Loc)
    (hinv : PushInv f racc u) (hx : x.rwf = true) (hu : u.rwf = true) (hxu : less x u = false) :
    PushInv f (pushD (d + 1) racc x f) x := by
  obtain ⟨hwf, hadj, v, rest, rfl, vs, ve, v5, v3, us, u5, rfl, rfl, hrel⟩ := hinv
  cases x <;> simp [rwf] at hx
  rename_i xs xe x5 x3
  have hvwf : vs < ve := by simpa [rwf] using hwf (ranged vs ve v5 v3) (by simp)
  have huwf : us < ve := by simpa [rwf] using hu
  have hxu' := hxu
  rw [Bool.eq_false_iff, ne_eq, less_ranged _ _ _ _ _ _ _ _ hx huwf] at hxu'
  simp only [pushD_ranged, pushOne]
  by_cases hm : (((v3 && x5) || f) && ve == xs) = true
  · -- fused
    simp only [hm, if_true]
    simp only [Bool.and_eq_true, beq_iff_eq] at hm
    obtain ⟨hm1, rfl⟩ := hm
    refine ⟨?_, ?_, _, rest, rfl, vs, xe, v5, x3, ve, x5, rfl, rfl, Or.inr hvwf⟩
    · intro y hy
      rcases List.mem_cons.mp hy with rfl | hy
      · simp [rwf]; omega
      · exact hwf y (by simp [hy])
    · cases rest with
      | nil => trivial
      | cons a rest' =>
        refine ⟨⟨?_, ?_⟩, hadj.2⟩
        · have hawf := hwf a (by simp)
          cases a <;> simp [rwf] at hawf
          rename_i as ae a5 a3
          have h1 := hadj.1.1
          rw [Bool.eq_false_iff, ne_eq, less_ranged _ _ _ _ _ _ _ _ hvwf hawf] at h1
          rw [Bool.eq_false_iff, ne_eq, less_ranged _ _ _ _ _ _ _ _ (by omega) hawf]
          omega
        · have h2 := hadj.1.2
          cases a <;> simp only [mergeable] at h2 ⊢
          exact h2
  · -- appended
    simp only [hm, if_false, Bool.false_eq_true]
    refine ⟨?_, ⟨⟨?_, ?_⟩, hadj⟩, _, _, rfl, xs, xe, x5, x3, xs, x5, rfl, rfl, Or.inl ⟨rfl, rfl⟩⟩
    · intro y hy
      rcases List.mem_cons.mp hy with rfl | hy
      · simpa [rwf] using hx
      · exact hwf y hy
    · rw [Bool.eq_false_iff, ne_eq, less_ranged _ _ _ _ _ _ _ _ hx hvwf]
      rcases hrel with ⟨rfl, rfl⟩ | hlt
      · exact hxu'
      · omega
    · simpa [mergeable] using hm

theorem pushInv_all (d : Nat) (f : Bool) (ys racc : List Loc) (u : Loc)
    (hinv : PushInv f racc u) (hu : u.rwf = true) (hy : ∀ y ∈ ys, y.rwf = true)
    (hs : Adj (fun a b => less b a = false) (u :: ys)) :
    ∃ u', PushInv f (pushAllD (d + 1) racc ys f) u' := by
  induction ys generalizing racc u with
  | nil => exact ⟨u, by simpa [pushAllD] using hinv⟩
  | cons y ys ih =>
    have h1 := pushInv_step d f racc u y hinv (hy y (by simp)) hu hs.1
    obtain ⟨u', h2⟩ := ih _ y h1 (hy y (by simp)) (fun z hz => hy z (by simp [hz])) hs.2
    exact ⟨u', by simpa [pushAllD] using h2⟩

/-- the pushed list of a class of well-formed forward ranges: again such ranges, neighbours in
order, no neighbours that `Push` would fuse -/
theorem pushedOf_props (f : Bool) (locs : List Loc) (hw : ∀ l ∈ locs, l.rwf = true) :
    (∀ l ∈ pushedOf f locs, l.rwf = true) ∧
    Adj (fun a b => less b a = false) (pushedOf f locs) ∧
    Adj (fun a b => mergeable f a b = false) (pushedOf f locs) := by
  have hws : ∀ l ∈ sortLocs locs, l.rwf = true := fun l hl => hw l ((sortLocs_perm _).mem_iff.mp hl)
  have hadj := sortLocs_adj locs
  simp only [pushedOf, pushAll]
  cases hs : sortLocs locs with
  | nil => simp [pushAllD, Adj]
  | cons x xs =>
    rw [hs] at hws hadj
    have hx := hws x (by simp)
    have h0 : PushInv f (pushD (pushFuel - 1 + 1) [] x f) x := by
      cases x <;> simp [rwf] at hx
      rename_i s e a b
      refine ⟨?_, trivial, _, [], rfl, s, e, a, b, s, a, rfl, rfl, Or.inl ⟨rfl, rfl⟩⟩
      intro y hy
      simp only [pushD_ranged, pushOne, List.mem_singleton] at hy
      subst hy
      simpa [rwf] using hx
    obtain ⟨u', h1, h2, _⟩ := pushInv_all (pushFuel - 1) f xs _ x h0 hx (fun y hy => hws y (by simp [hy])) hadj
    have e : pushFuel - 1 + 1 = pushFuel := rfl
    rw [e] at h1 h2
    have e2 : pushAllD pushFuel [] (x :: xs) f = pushAllD pushFuel (pushD pushFuel [] x f) xs f := by
      simp [pushAllD]
    rw [e2]
    refine ⟨fun l hl => h1 l (by simpa using hl), ?_, ?_⟩
    · exact adj_imp (fun a b h => h.1) (adj_reverse _ h2)
    · exact adj_imp (fun a b h => h.2) (adj_reverse _ h2)

/-- **(b), one class**: sorting and pushing the pushed list again changes nothing -/
theorem pushedOf_idem (f : Bool) (locs : List Loc) (hw : ∀ l ∈ locs, l.rwf = true) :
    pushedOf f (pushedOf f locs) = pushedOf f locs := by
  obtain ⟨h1, h2, h3⟩ := pushedOf_props f locs hw
  have hs : sortLocs (pushedOf f locs) = pushedOf f locs := sortLocs_id _ h2
  have := pushAllD_unmerged_adj (pushFuel - 1) f (pushedOf f locs) []
    (by simp) (fun y hy => rwf_isRanged (h1 y hy)) h3 (fun _ _ hv => by simp at hv)
  have e : pushFuel - 1 + 1 = pushFuel := rfl
  rw [e] at this
  have e2 : pushedOf f (pushedOf f locs) = (pushAll [] (sortLocs (pushedOf f locs)) f).reverse := rfl
  rw [e2, hs, pushAll, this]
  simp

/-! ### the whole table -/

/-- the features whose grouping text is `k`, in table order -/
def Table.featsOf (t : Table) (k : String) : Table := t.filter fun f => classKey f == k

theorem featsOf_eq (t : Table) (k : String) :
    Table.featsOf t k = (Table.memberIdx t k).filterMap fun j => t[j]? := by
  have e : t = (List.range t.length).filterMap (fun j => t[j]?) := by
    rw [range_filterMap_getElem? t t.length (Nat.le_refl _), List.take_length]
  simp only [Table.memberIdx, Table.featsOf]
  rw [List.filterMap_filter]
  conv => lhs; rw [e]
  rw [← List.filterMap_eq_filter, List.filterMap_filterMap]
  apply filterMap_congr'
  intro i hi
  have hi' : i < t.length := List.mem_range.mp hi
  simp only [List.getElem?_eq_getElem hi', Option.bind_some]
  by_cases h : classKey t[i] == k <;> simp [h, Option.guard]

theorem featsOf_specRepair (t : Table) (k : String)
    (hk : k ∈ Table.classKeys t) :
    Table.featsOf (specRepair t) k =
      ((Table.memberIdx t k).take (classN t (Table.memberIdx t k))).filterMap fun j => (specGG t)[j]? := by
  have hidx : Table.memberIdx t k ∈ Table.groups t := List.mem_map.mpr ⟨k, hk, rfl⟩
  have h1 : Table.featsOf (specRepair t) k =
      ((specKeep t).filter fun j => decide (j ∈ Table.memberIdx t k)).filterMap
        (fun j => (specGG t)[j]?) := by
    simp only [Table.featsOf, specRepair]
    rw [← List.filterMap_eq_filter, List.filterMap_filterMap, List.filterMap_filter]
    apply filterMap_congr'
    intro j hj
    obtain ⟨idx', hi', hj'⟩ := (mem_specKeep t j).mp hj
    have hjlt : j < t.length := groups_lt t idx' hi' j (List.mem_of_mem_take hj')
    have hkey := specGG_classKey t j
    rw [List.getElem?_eq_getElem hjlt] at hkey
    cases hg : (specGG t)[j]? with
    | none => rw [hg] at hkey; cases hkey
    | some g =>
      rw [hg] at hkey
      simp only [Option.map_some, Option.some.injEq] at hkey
      have hmem : j ∈ Table.memberIdx t k ↔ classKey g = k := by
        rw [Table.mem_memberIdx, hkey]
        constructor
        · rintro ⟨f, hf, hfk⟩
          rw [List.getElem?_eq_getElem hjlt] at hf
          cases hf
          exact hfk
        · intro h; exact ⟨t[j], List.getElem?_eq_getElem hjlt, h⟩
      by_cases hc : classKey g = k
      · simp [hc, hmem.mpr hc, Option.guard]
      · have : ¬ j ∈ Table.memberIdx t k := fun h => hc (hmem.mp h)
        simp [hc, this, Option.guard]
  have h2 : ((specKeep t).filter fun j => decide (j ∈ Table.memberIdx t k)) =
      (Table.memberIdx t k).take (classN t (Table.memberIdx t k)) := by
    apply sorted_ext_nat ((specKeep_sorted t).filter _)
      ((Table.memberIdx_sorted t k).sublist (List.take_sublist _ _))
    intro j
    simp only [List.mem_filter, decide_eq_true_eq, mem_specKeep t]
    constructor
    · rintro ⟨⟨idx', hi', hj'⟩, hj⟩
      have := group_unique t idx' _ hi' hidx j (List.mem_of_mem_take hj') hj
      subst this
      exact hj'
    · intro hj
      exact ⟨⟨_, hidx, hj⟩, List.mem_of_mem_take hj⟩
  rw [h1, h2]

/-- `force` of a class, read off the table: is the first feature of the class a `source`? -/
def Table.forceOf (t : Table) (k : String) : Bool :=
  match (Table.featsOf t k).head? with
  | some f => f.key == "source"
  | none => false

theorem classForce_eq (t : Table) (k : String) :
    classForce t (Table.memberIdx t k) = Table.forceOf t k := by
  simp only [Table.forceOf, featsOf_eq]
  cases h : Table.memberIdx t k with
  | nil => rfl
  | cons i is =>
    have hi : i ∈ Table.memberIdx t k := by rw [h]; simp
    obtain ⟨f, hf, _⟩ := (Table.mem_memberIdx t k i).mp hi
    simp [classForce, hf]

theorem forceOf_specRepair (t : Table) (k : String)
    (hk : k ∈ Table.classKeys t) : Table.forceOf (specRepair t) k = Table.forceOf t k := by
  have hidx : Table.memberIdx t k ∈ Table.groups t := List.mem_map.mpr ⟨k, hk, rfl⟩
  have hpos : 0 < classN t (Table.memberIdx t k) := classN_pos t _
  simp only [Table.forceOf, featsOf_specRepair t k hk, featsOf_eq]
  cases h : Table.memberIdx t k with
  | nil => simp
  | cons i is =>
    have hi : i ∈ Table.memberIdx t k := by rw [h]; simp
    obtain ⟨f, hf, _⟩ := (Table.mem_memberIdx t k i).mp hi
    have hkey := writeLocs_key t ((Table.groups t).flatMap (classWrites t)) i
    rw [h] at hpos
    obtain ⟨n, hn⟩ : ∃ n, classN t (i :: is) = n + 1 := ⟨classN t (i :: is) - 1, by omega⟩
    rw [hn, List.take_succ_cons, List.filterMap_cons, List.filterMap_cons, hf]
    cases hg : (specGG t)[i]? with
    | none => simp only [specGG] at hg; rw [hg, hf] at hkey; cases hkey
    | some g =>
      simp only [specGG] at hg
      rw [hg, hf] at hkey
      simp only [Option.map_some, Option.some.injEq, Prod.mk.injEq] at hkey
      simp [hkey.1]

theorem mem_classKeys_of_specRepair (t : Table) (k : String)
    (hk : k ∈ Table.classKeys (specRepair t)) : k ∈ Table.classKeys t := by
  obtain ⟨f, hf, hfk⟩ := (Table.mem_classKeys _ k).mp hk
  obtain ⟨j, hj, hg⟩ := mem_specRepair t f hf
  obtain ⟨idx, hi, hj'⟩ := (mem_specKeep t j).mp hj
  have hjlt : j < t.length := groups_lt t idx hi j (List.mem_of_mem_take hj')
  have hkey := specGG_classKey t j
  rw [hg, List.getElem?_eq_getElem hjlt] at hkey
  simp only [Option.map_some, Option.some.injEq] at hkey
  exact (Table.mem_classKeys t k).mpr ⟨t[j], List.getElem_mem hjlt, by rw [← hkey, hfk]⟩

theorem le_sliceLen (p : List Loc) : p.length ≤ sliceLen p := by
  cases p <;> simp [sliceLen]

/-- **(b)**: on a plain table of well-formed locations a second `Repair` changes nothing -/
theorem repair_idem (t : Table) (hp : Table.plain t = true) (hw : Table.wfT t = true) :
    repair (specRepair t) = .ok (specRepair t) := by
  have hnil := noNil_of_plain t hp
  apply repair_unchanged'
  intro idx' hi'
  obtain ⟨k, hk', rfl⟩ := List.mem_map.mp hi'
  have hk := mem_classKeys_of_specRepair t k hk'
  have hidx : Table.memberIdx t k ∈ Table.groups t := List.mem_map.mpr ⟨k, hk, rfl⟩
  have hlen' := classLocs_length (specRepair t) _ (groups_lt _ _ hi')
  have hlocs : classLocs (specRepair t) (Table.memberIdx (specRepair t) k) =
      classNew t (Table.memberIdx t k) := by
    rw [classLocs_memberIdx, locsOf_specRepair t hnil k hk]
  have hforce : classForce (specRepair t) (Table.memberIdx (specRepair t) k) =
      classForce t (Table.memberIdx t k) := by
    rw [classForce_eq, classForce_eq, forceOf_specRepair t k hk]
  have hlt := groups_lt t _ hidx
  have hlen := classLocs_length t _ hlt
  have hgoal : (classNew t (Table.memberIdx t k)).length ≤
      sliceLen (pushedOf (classForce t (Table.memberIdx t k)) (classNew t (Table.memberIdx t k))) := by
    rcases plain_class t hp _ hidx with h1 | hr
    · have hnlt : ¬ classN t (Table.memberIdx t k) < (Table.memberIdx t k).length := by
        have := classN_pos t (Table.memberIdx t k); omega
      simp only [classNew, hnlt, if_false]
      rw [hlen, h1]
      generalize pushedOf _ _ = q
      cases q <;> simp [sliceLen]
    · have hrwf : ∀ l ∈ classLocs t (Table.memberIdx t k), l.rwf = true := by
        intro l hl
        have h1 := hr l hl
        obtain ⟨i, _, f, hf, rfl⟩ := mem_classLocs t _ l hl
        simp only [Table.wfT, List.all_eq_true] at hw
        have h2 := hw f (List.mem_of_getElem? hf)
        cases hfl : f.loc <;> simp [hfl, isRanged] at h1
        simpa [hfl, wf, rwf] using h2
      simp only [classNew]
      split
      · have := pushedOf_idem (classForce t (Table.memberIdx t k)) _ hrwf
        simp only [classP]
        rw [this]
        exact le_sliceLen _
      · rename_i hnlt
        have e : sliceLen (pushedOf (classForce t (Table.memberIdx t k)) (classLocs t (Table.memberIdx t k))) =
            classN t (Table.memberIdx t k) := rfl
        rw [e, hlen]
        omega
  have e2 : classN (specRepair t) (Table.memberIdx (specRepair t) k) =
      sliceLen (pushedOf (classForce t (Table.memberIdx t k)) (classNew t (Table.memberIdx t k))) := by
    simp only [classN, classP, hlocs, hforce]
  rw [e2, ← hlen', hlocs]
  exact hgoal

end Gts
