/-
  C11 — the heap programs of the location methods (Gts/Model/MemLoc.lean) are TOTAL on readable
  values: more fuel never changes an answer (`…_le`), and a receiver that reads as a location value
  gets an answer for some fuel (`…_total`).  So `none` only ever means "descend further".
-/
import Gts.Lemmas.MemLocRefine
namespace Gts.Mem
open Heap

/-! ### induction over a location value, the parts of a join / order by membership -/

mutual
theorem loc_induction {P : Loc → Prop} (hleaf : ∀ l, isContig l = true → P l)
    (hj : ∀ ls, (∀ l ∈ ls, P l) → P (.joined ls)) (ho : ∀ ls, (∀ l ∈ ls, P l) → P (.ordered ls))
    (hc : ∀ l, P l → P (.compl l)) : ∀ l, P l
  | .between _ => hleaf _ rfl
  | .point _ => hleaf _ rfl
  | .ranged .. => hleaf _ rfl
  | .ambiguous .. => hleaf _ rfl
  | .joined ls => hj ls (loc_induction_list hleaf hj ho hc ls)
  | .ordered ls => ho ls (loc_induction_list hleaf hj ho hc ls)
  | .compl l => hc l (loc_induction hleaf hj ho hc l)
theorem loc_induction_list {P : Loc → Prop} (hleaf : ∀ l, isContig l = true → P l)
    (hj : ∀ ls, (∀ l ∈ ls, P l) → P (.joined ls)) (ho : ∀ ls, (∀ l ∈ ls, P l) → P (.ordered ls))
    (hc : ∀ l, P l → P (.compl l)) : ∀ ls : List Loc, ∀ l ∈ ls, P l
  | [], _, h => by cases h
  | a :: as, l, h => by
    rcases List.mem_cons.1 h with e | e
    · exact e ▸ loc_induction hleaf hj ho hc a
    · exact loc_induction_list hleaf hj ho hc as l e
end

/-! ### more fuel, same answer -/

/-- whenever `p` answers, `p'` gives the same answer -/
def PushLe (p p' : PushFn) : Prop :=
  ∀ h racc x force r, p h racc x force = some r → p' h racc x force = some r

theorem pushLoop_le {p p' : PushFn} (hp : PushLe p p') (s : Slice) (force : Bool) (cnt : Nat) :
    ∀ (i : Nat) (racc : List MLoc) (h : LHeap) (r : List MLoc × LHeap),
      pushLoop p s force cnt i racc h = some r → pushLoop p' s force cnt i racc h = some r := by
  induction cnt with
  | zero => intro i racc h r he; simpa [pushLoop] using he
  | succ cnt ih =>
    intro i racc h r he
    cases hl : load h s i with
    | none => simp [pushLoop, hl] at he
    | some u =>
      simp only [pushLoop, hl] at he ⊢
      obtain ⟨r1, h1, h2⟩ := Option.bind_eq_some_iff.1 he
      exact Option.bind_eq_some_iff.2 ⟨r1, hp _ _ _ _ _ h1, ih _ _ _ _ h2⟩

theorem joinMem_le {p p' : PushFn} (hp : PushLe p p') (g : Grow) {h : LHeap} {s : Slice}
    {r : MLoc × LHeap} (he : joinMem p g h s = some r) : joinMem p' g h s = some r := by
  unfold joinMem at he ⊢
  obtain ⟨r1, h1, h2⟩ := Option.bind_eq_some_iff.1 he
  exact Option.bind_eq_some_iff.2 ⟨r1, pushLoop_le hp _ _ _ _ _ _ _ h1, h2⟩

theorem pushOneMem_le {low low' : PushFn} (hlow : PushLe low low') (g : Grow) :
    PushLe (pushOneMem low g) (pushOneMem low' g) := by
  intro h racc x force r he
  cases racc with
  | nil => simpa [pushOneMem] using he
  | cons v rest =>
    cases v <;> cases x <;> try (simpa [pushOneMem] using he)
    simp only [pushOneMem] at he ⊢
    obtain ⟨t, t1, t2⟩ := Option.bind_eq_some_iff.1 he
    obtain ⟨j, j1, j2⟩ := Option.bind_eq_some_iff.1 t2
    exact Option.bind_eq_some_iff.2 ⟨t, hlow _ _ _ _ _ t1,
      Option.bind_eq_some_iff.2 ⟨j, joinMem_le hlow g j1, j2⟩⟩

theorem pushWMem_le {low low' : PushFn} (hlow : PushLe low low') (g : Grow) :
    ∀ k k', k ≤ k' → PushLe (pushWMem low g k) (pushWMem low' g k') := by
  intro k
  induction k with
  | zero => intro k' _ h racc x force r he; simp [pushWMem] at he
  | succ k ih =>
    intro k' hk h racc x force r he
    cases k' with
    | zero => omega
    | succ k' =>
      cases x with
      | joined s =>
        simp only [pushWMem] at he ⊢
        exact pushLoop_le (ih k' (by omega)) _ _ _ _ _ _ _ he
      | leaf l => simp only [pushWMem] at he ⊢; exact pushOneMem_le hlow g _ _ _ _ _ he
      | ordered s => simp only [pushWMem] at he ⊢; exact pushOneMem_le hlow g _ _ _ _ _ he
      | compl m => simp only [pushWMem] at he ⊢; exact pushOneMem_le hlow g _ _ _ _ _ he

theorem pushDMem_le (g : Grow) {k k' : Nat} (hk : k ≤ k') :
    ∀ d, PushLe (pushDMem g k d) (pushDMem g k' d)
  | 0 => fun _ _ _ _ _ he => by simpa [pushDMem] using he
  | d + 1 => pushWMem_le (pushDMem_le g hk d) g k k' hk

theorem joinLocs_le (g : Grow) {k k' : Nat} (hk : k ≤ k') {h : LHeap} {s : Slice} {r : MLoc × LHeap}
    (he : joinLocs g k h s = some r) : joinLocs g k' h s = some r :=
  joinMem_le (pushDMem_le g hk _) g he

theorem flattenLoop_le {rec rec' : LHeap → Slice → Option (Slice × LHeap)}
    (hrec : ∀ h s r, rec h s = some r → rec' h s = some r) (g : Grow) (locs : Slice) (cnt : Nat) :
    ∀ (i : Nat) (list : Slice) (h : LHeap) (r : Slice × LHeap),
      flattenLoop rec g locs cnt i list h = some r → flattenLoop rec' g locs cnt i list h = some r := by
  induction cnt with
  | zero => intro i list h r he; simpa [flattenLoop] using he
  | succ cnt ih =>
    intro i list h r he
    cases hl : load h locs i with
    | none => simp [flattenLoop, hl] at he
    | some u =>
      cases u with
      | ordered s =>
        simp only [flattenLoop, hl] at he ⊢
        obtain ⟨r1, h1, h2⟩ := Option.bind_eq_some_iff.1 he
        exact Option.bind_eq_some_iff.2 ⟨r1, hrec _ _ _ h1, ih _ _ _ _ h2⟩
      | leaf l => simp only [flattenLoop, hl] at he ⊢; exact ih _ _ _ _ he
      | joined s => simp only [flattenLoop, hl] at he ⊢; exact ih _ _ _ _ he
      | compl m => simp only [flattenLoop, hl] at he ⊢; exact ih _ _ _ _ he

theorem flattenMem_le (g : Grow) : ∀ k k', k ≤ k' → ∀ h s r,
    flattenMem g k h s = some r → flattenMem g k' h s = some r := by
  intro k
  induction k with
  | zero => intro k' _ h s r he; simp [flattenMem] at he
  | succ k ih =>
    intro k' hk h s r he
    cases k' with
    | zero => omega
    | succ k' =>
      simp only [flattenMem] at he ⊢
      exact flattenLoop_le (ih k' (by omega)) g _ _ _ _ _ _ he

theorem orderLocs_le (g : Grow) {k k' : Nat} (hk : k ≤ k') {h : LHeap} {s : Slice} {r : MLoc × LHeap}
    (he : orderLocs g k h s = some r) : orderLocs g k' h s = some r := by
  unfold orderLocs at he ⊢
  obtain ⟨r1, h1, h2⟩ := Option.bind_eq_some_iff.1 he
  exact Option.bind_eq_some_iff.2 ⟨r1, flattenMem_le g k k' hk _ _ _ h1, h2⟩

theorem mapLoop2_le {rec rec' : LHeap → MLoc → Option (MLoc × LHeap)}
    (hrec : ∀ h m r, rec h m = some r → rec' h m = some r) (src dst : Slice) (cnt : Nat) :
    ∀ (j : Nat) (h r : LHeap), mapLoop2 rec src dst cnt j h = some r →
      mapLoop2 rec' src dst cnt j h = some r := by
  induction cnt with
  | zero => intro j h r he; simpa [mapLoop2] using he
  | succ cnt ih =>
    intro j h r he
    cases hl : load h src j with
    | none => simp [mapLoop2, hl] at he
    | some u =>
      simp only [mapLoop2, hl] at he ⊢
      obtain ⟨r1, h1, h2⟩ := Option.bind_eq_some_iff.1 he
      exact Option.bind_eq_some_iff.2 ⟨r1, hrec _ _ _ h1, ih _ _ _ h2⟩

theorem mapLocs_le {rec rec' : LHeap → MLoc → Option (MLoc × LHeap)}
    (hrec : ∀ h m r, rec h m = some r → rec' h m = some r) {h : LHeap} {src : Slice}
    {r : Slice × LHeap} (he : mapLocs rec h src = some r) : mapLocs rec' h src = some r := by
  unfold mapLocs at he ⊢
  obtain ⟨h', h1, h2⟩ := Option.map_eq_some_iff.1 he
  exact Option.map_eq_some_iff.2 ⟨h', mapLoop2_le hrec _ _ _ _ _ _ h1, h2⟩

/-- more fuel never changes the answer of the common shape of `Expand` / `Shift` / `Normalize` -/
theorem methMem_le (g : Grow) {leafM : Nat → LHeap → Loc → Option (MLoc × LHeap)}
    (hleaf : ∀ k k', k ≤ k' → ∀ h l r, leafM k h l = some r → leafM k' h l = some r) :
    ∀ k k', k ≤ k' → ∀ h m r, methMem leafM g k h m = some r → methMem leafM g k' h m = some r := by
  intro k
  induction k with
  | zero => intro k' _ h m r he; simp [methMem] at he
  | succ k ih =>
    intro k' hk h m r he
    cases k' with
    | zero => omega
    | succ k' =>
      have hk' : k ≤ k' := by omega
      cases m with
      | leaf l => simp only [methMem] at he ⊢; exact hleaf k k' hk' h l r he
      | joined s =>
        simp only [methMem] at he ⊢
        obtain ⟨r1, h1, h2⟩ := Option.bind_eq_some_iff.1 he
        exact Option.bind_eq_some_iff.2 ⟨r1, mapLocs_le (ih k' hk') h1, joinLocs_le g (by omega) h2⟩
      | ordered s =>
        simp only [methMem] at he ⊢
        obtain ⟨r1, h1, h2⟩ := Option.bind_eq_some_iff.1 he
        exact Option.bind_eq_some_iff.2 ⟨r1, mapLocs_le (ih k' hk') h1, orderLocs_le g (by omega) h2⟩
      | compl m =>
        simp only [methMem] at he ⊢
        obtain ⟨r1, h1, h2⟩ := Option.map_eq_some_iff.1 he
        exact Option.map_eq_some_iff.2 ⟨r1, ih k' hk' _ _ _ h1, h2⟩

/-- more fuel never changes the answer of `Expand` -/
theorem expandMem_le (g : Grow) (i n : Int) : ∀ k k', k ≤ k' → ∀ h m r,
    expandMem g i n k h m = some r → expandMem g i n k' h m = some r :=
  methMem_le g fun _ _ _ _ _ _ he => he

theorem shiftLeaf_le (g : Grow) (i n : Int) : ∀ k k', k ≤ k' → ∀ h l r,
    shiftLeaf g i n k h l = some r → shiftLeaf g i n k' h l = some r := by
  intro k k' hk h l r he
  cases l with
  | ranged s e p5 p3 =>
    simp only [shiftLeaf] at he ⊢
    by_cases hc : 0 < n ∧ s < i ∧ i < e
    · rw [if_pos hc] at he ⊢; exact joinLocs_le g hk he
    · rw [if_neg hc] at he ⊢; exact he
  | ambiguous s e =>
    simp only [shiftLeaf] at he ⊢
    by_cases hc : 0 < n ∧ s < i ∧ i < e
    · rw [if_pos hc] at he ⊢; exact orderLocs_le g hk he
    · rw [if_neg hc] at he ⊢; exact he
  | between p => exact he
  | point p => exact he
  | joined ls => exact he
  | ordered ls => exact he
  | compl l => exact he

theorem shiftMem_le (g : Grow) (i n : Int) : ∀ k k', k ≤ k' → ∀ h m r,
    shiftMem g i n k h m = some r → shiftMem g i n k' h m = some r :=
  methMem_le g (shiftLeaf_le g i n)

theorem normalizeLeaf_le (g : Grow) (len : Int) : ∀ k k', k ≤ k' → ∀ h l r,
    normalizeLeaf g len k h l = some r → normalizeLeaf g len k' h l = some r := by
  intro k k' hk h l r he
  cases l with
  | ranged s e p5 p3 =>
    simp only [normalizeLeaf] at he ⊢
    by_cases hc : e - s ≠ len ∧ ¬ (Int.tmod s len < Int.tmod (e - 1) len + 1)
    · rw [if_pos hc] at he ⊢; exact joinLocs_le g hk he
    · rw [if_neg hc] at he ⊢; exact he
  | ambiguous s e => exact he
  | between p => exact he
  | point p => exact he
  | joined ls => exact he
  | ordered ls => exact he
  | compl l => exact he

theorem normalizeMem_le (g : Grow) (len : Int) : ∀ k k', k ≤ k' → ∀ h m r,
    normalizeMem g len k h m = some r → normalizeMem g len k' h m = some r :=
  methMem_le g (normalizeLeaf_le g len)

/-! ### `Push`, `Join` have an answer on readable values -/

/-- `P k` answers for some `k` whenever the list and a location that reads as `lx` are readable -/
def PushTotalAt (P : Nat → PushFn) (lx : Loc) : Prop :=
  ∀ h racc x force lracc, ReadsList h lracc racc → Reads h lx x → ∃ k r, P k h racc x force = some r

theorem pushLoop_total {P : Nat → PushFn} {lpush : List Loc → Loc → Bool → List Loc}
    (hmono : ∀ k k', k ≤ k' → PushLe (P k) (P k')) (href : ∀ k, PushRefines (P k) lpush)
    {h0 : LHeap} {s : Slice} (hs : WF h0 s) (force : Bool) (todo : List MLoc) :
    ∀ (done : List MLoc) (ltodo : List Loc) (racc : List MLoc) (h : LHeap) (lracc : List Loc),
      read h0 s = done ++ todo → ReadsList h0 ltodo todo → h0 <+: h → ReadsList h lracc racc →
      (∀ lu ∈ ltodo, PushTotalAt P lu) →
      ∃ k r, pushLoop (P k) s force todo.length done.length racc h = some r := by
  induction todo with
  | nil => intro done ltodo racc h lracc _ _ _ _ _; exact ⟨0, _, rfl⟩
  | cons u rest ih =>
    intro done ltodo racc h lracc hrd hl hp hr htot
    cases ltodo with
    | nil => simp [ReadsList] at hl
    | cons lu lrest =>
      have hl' := readsList_cons.1 hl
      have hlen := length_read hs
      rw [hrd] at hlen
      have hi : done.length < s.len := by rw [← hlen]; simp
      have hld : load h s done.length = some u := by
        rw [load_eq_read hi, read_mono hp hs, hrd]; simp
      obtain ⟨k1, r1, e1⟩ := htot lu (List.mem_cons_self ..) h racc u force lracc hr
        (Reads.mono hp _ _ hl'.1)
      have p1 := href k1 h racc u force r1 lracc lu e1 hr (Reads.mono hp _ _ hl'.1)
      obtain ⟨k2, r2, e2⟩ := ih (done ++ [u]) lrest r1.1 r1.2 _ (by simpa using hrd) hl'.2
        (hp.trans p1.1) p1.2 (fun l hlm => htot l (List.mem_cons_of_mem _ hlm))
      refine ⟨max k1 k2, r2, ?_⟩
      simp only [List.length_cons, pushLoop, hld]
      refine Option.bind_eq_some_iff.2 ⟨r1, hmono k1 _ (Nat.le_max_left ..) _ _ _ _ _ e1, ?_⟩
      have := pushLoop_le (hmono k2 (max k1 k2) (Nat.le_max_right ..)) _ _ _ _ _ _ _ e2
      simpa using this

theorem joinMem_total (g : Grow) {P : Nat → PushFn} {lpush : List Loc → Loc → Bool → List Loc}
    (hmono : ∀ k k', k ≤ k' → PushLe (P k) (P k')) (href : ∀ k, PushRefines (P k) lpush)
    (htot : ∀ lx, PushTotalAt P lx) {h : LHeap} {s : Slice} (hs : WF h s) {xs : List Loc}
    (hx : ReadsList h xs (read h s)) : ∃ k r, joinMem (P k) g h s = some r := by
  have hlen := length_read hs
  obtain ⟨k, r, e⟩ := pushLoop_total hmono href hs true (read h s) [] xs [] h [] (by simp) hx
    (List.prefix_refl _) (by simp [ReadsList]) (fun l _ => htot l)
  refine ⟨k, joinTail g r.2 r.1.reverse, ?_⟩
  unfold joinMem
  exact Option.bind_eq_some_iff.2 ⟨r, by simpa [hlen] using e, rfl⟩

/-- `Push` one level up, given the level below: monotone, refining, total -/
theorem pushW_total (g : Grow) {low : Nat → PushFn} {llow : List Loc → Loc → Bool → List Loc}
    (hmono : ∀ k k', k ≤ k' → PushLe (low k) (low k')) (href : ∀ k, PushRefines (low k) llow)
    (hfresh : ∀ k, PushFresh 0 (low k)) (htot : ∀ lx, PushTotalAt low lx) :
    ∀ lx, PushTotalAt (fun k => pushWMem (low k) g k) lx := by
  -- a location that is not a `Joined` needs fuel 1 plus what the level below needs
  have one : ∀ (x : MLoc), mkind x ≠ 1 → ∀ h racc force lracc, ReadsList h lracc racc →
      (∀ lx, Reads h lx x → True) → ∀ lx, Reads h lx x →
      ∃ k r, pushWMem (low k) g k h racc x force = some r := by
    intro x hk h racc force lracc hr _ lx hx
    have e : ∀ k, pushWMem (low (k + 1)) g (k + 1) h racc x force
        = pushOneMem (low (k + 1)) g h racc x force := by
      intro k; cases x <;> simp_all [pushWMem, mkind]
    cases racc with
    | nil => exact ⟨1, ([x], h), by rw [e 0]; simp [pushOneMem]⟩
    | cons v rest =>
      by_cases hcc : mkind v = 3 ∧ mkind x = 3
      · -- `Complemented` onto `Complemented`
        obtain ⟨vm, rfl⟩ : ∃ vm, v = .compl vm := by
          cases v <;> simp_all [mkind]
        obtain ⟨um, rfl⟩ : ∃ um, x = .compl um := by
          cases x <;> simp_all [mkind]
        obtain ⟨lv, lrest, e0, h1, _⟩ : ∃ lv lrest, lracc = lv :: lrest ∧ Reads h lv (.compl vm) ∧
            ReadsList h lrest rest := by
          cases lracc with
          | nil => simp [ReadsList] at hr
          | cons lv lrest => exact ⟨lv, lrest, rfl, readsList_cons.1 hr⟩
        obtain ⟨vl, _, hvl⟩ := reads_mcompl h1
        obtain ⟨ul, _, hul⟩ := reads_mcompl hx
        obtain ⟨k1, t, t1⟩ := htot vl h [um] vm force [ul] (readsList_singleton.2 hul) hvl
        have p1 := href k1 h [um] vm force t [ul] vl t1 (readsList_singleton.2 hul) hvl
        have f1 := hfresh k1 h [um] vm force t t1 (Nat.zero_le _) (closed_zero h)
          (fun c _ => refsAbove_zero c) (refsAbove_zero vm)
        have hne : t.1.reverse ≠ [] := by
          intro e
          have e' : t.1 = [] := by simpa using e
          have hl := f1.2.2.2
          rw [e'] at hl
          simp at hl
        have o := (listSlice_owned g (closed_zero t.2) hne (fun c _ => refsAbove_zero c)).1
        obtain ⟨k2, j, j1⟩ := joinMem_total g hmono href htot o.wf
          (xs := (llow [ul] vl force).reverse)
          (by rw [o.rd]; exact ReadsList.mono o.pre _ _ p1.2.reverse)
        refine ⟨max k1 k2 + 1, (.compl j.1 :: rest, j.2), ?_⟩
        rw [e]
        simp only [pushOneMem]
        exact Option.bind_eq_some_iff.2 ⟨t, hmono k1 _ (by omega) _ _ _ _ _ t1,
          Option.bind_eq_some_iff.2 ⟨j, joinMem_le (hmono k2 _ (by omega)) g j1, rfl⟩⟩
      · have hs : (pushOneMem (low 1) g h (v :: rest) x force).isSome = true := by
          cases v <;> cases x <;> simp_all [pushOneMem, mkind]
        obtain ⟨r, hr'⟩ := Option.isSome_iff_exists.1 hs
        exact ⟨1, r, by rw [e 0]; exact hr'⟩
  refine loc_induction ?_ ?_ ?_ ?_
  · intro l hl h racc x force lracc hr hx
    exact one x (by rw [← hx.kind]; simp [lkind_zero.2 hl]) h racc force lracc hr (fun _ _ => trivial) l hx
  · intro ls ih h racc x force lracc hr hx
    obtain ⟨s, rfl, hw, hls⟩ := reads_joined.1 hx
    have hlen := length_read hw
    obtain ⟨k, r, e⟩ := pushLoop_total (P := fun k => pushWMem (low k) g k)
      (fun k k' hk => pushWMem_le (hmono k k' hk) g k k' hk)
      (fun k => pushWMem_refines g (href k) (hfresh k) k) hw force (read h s) [] ls racc h lracc
      (by simp) hls (List.prefix_refl _) hr ih
    refine ⟨k + 1, r, ?_⟩
    simp only [pushWMem]
    have := pushLoop_le (pushWMem_le (hmono k (k + 1) (Nat.le_succ k)) g k k (Nat.le_refl k))
      _ _ _ _ _ _ _ e
    simpa [hlen] using this
  · intro ls _ h racc x force lracc hr hx
    exact one x (by rw [← hx.kind]; simp [lkind]) h racc force lracc hr (fun _ _ => trivial) _ hx
  · intro l _ h racc x force lracc hr hx
    exact one x (by rw [← hx.kind]; simp [lkind]) h racc force lracc hr (fun _ _ => trivial) _ hx

theorem pushD_total (g : Grow) : ∀ d lx, PushTotalAt (fun k => pushDMem g k d) lx
  | 0 => fun _ _ _ _ _ _ _ _ => ⟨0, _, rfl⟩
  | d + 1 =>
    pushW_total g (fun _ _ hk => pushDMem_le g hk d) (fun k => pushDMem_refines g k d)
      (fun k => pushDMem_fresh g k d) (pushD_total g d)

/-- `Join(locs...)` of a readable slice has a result -/
theorem joinLocs_total (g : Grow) {h : LHeap} {s : Slice} (hs : WF h s) {xs : List Loc}
    (hx : ReadsList h xs (read h s)) : ∃ k r, joinLocs g k h s = some r :=
  joinMem_total g (P := fun k => pushDMem g k Loc.pushFuel) (fun _ _ hk => pushDMem_le g hk _)
    (fun k => pushDMem_refines g k _) (pushD_total g _) hs hx

/-! ### `flattenLocations`, `Order` -/

/-- `flattenLocations` answers on the parts of a readable `Ordered` that reads as `l` -/
def FlatTotalAt (g : Grow) (l : Loc) : Prop :=
  ∀ ls, l = .ordered ls → ∀ hb h s, hb <+: h → WF hb s → ReadsList hb ls (read hb s) →
    ∃ k r, flattenMem g k h s = some r

theorem flattenLoop_total (g : Grow) {hb h0 : LHeap} (hb0 : hb <+: h0) {locs : Slice}
    (hs : WF hb locs) (todo : List MLoc) :
    ∀ (done : List MLoc) (ltodo : List Loc) (list : Slice) (h : LHeap) (xs : List MLoc),
      read hb locs = done ++ todo → ReadsList hb ltodo todo → Owned h0 h list xs →
      (∀ lu ∈ ltodo, FlatTotalAt g lu) →
      ∃ k r, flattenLoop (flattenMem g k) g locs todo.length done.length list h = some r := by
  induction todo with
  | nil => intro done ltodo list h xs _ _ _ _; exact ⟨0, _, rfl⟩
  | cons u rest ih =>
    intro done ltodo list h xs hrd hl ho htot
    cases ltodo with
    | nil => simp [ReadsList] at hl
    | cons lu lrest =>
      have hl' := readsList_cons.1 hl
      have hp : hb <+: h := hb0.trans ho.pre
      have hlen := length_read hs
      rw [hrd] at hlen
      have hi : done.length < locs.len := by rw [← hlen]; simp
      have hld : load h locs done.length = some u := by
        rw [load_eq_read hi, read_mono hp hs, hrd]; simp
      have other : mkind u ≠ 2 → (∀ k, flattenLoop (flattenMem g k) g locs (rest.length + 1) done.length list h =
            flattenLoop (flattenMem g k) g locs rest.length (done.length + 1) (append g h list [u]).1
              (append g h list [u]).2) →
          ∃ k r, flattenLoop (flattenMem g k) g locs (rest.length + 1) done.length list h = some r := by
        intro _ e
        obtain ⟨k, r, e2⟩ := ih (done ++ [u]) lrest _ _ _ (by simpa using hrd) hl'.2
          (append_owned g ho [u]) (fun l hlm => htot l (List.mem_cons_of_mem _ hlm))
        exact ⟨k, r, by rw [e]; simpa using e2⟩
      simp only [List.length_cons]
      cases u with
      | ordered s =>
        obtain ⟨ls', e, hw, hls⟩ := reads_mordered hl'.1
        obtain ⟨k1, r1, e1⟩ := htot lu (List.mem_cons_self ..) ls' e hb h s hp hw hls
        obtain ⟨ys1, o1, _⟩ := flattenMem_refines g k1 hb h s r1 ls' e1 hp hw hls
        have o := append_owned g (ho.mono o1.pre) (read r1.2 r1.1)
        obtain ⟨k2, r2, e2⟩ := ih (done ++ [.ordered s]) lrest _ _ _ (by simpa using hrd) hl'.2 o
          (fun l hlm => htot l (List.mem_cons_of_mem _ hlm))
        refine ⟨max k1 k2, r2, ?_⟩
        simp only [flattenLoop, hld]
        refine Option.bind_eq_some_iff.2 ⟨r1, flattenMem_le g k1 _ (Nat.le_max_left ..) _ _ _ e1, ?_⟩
        have := flattenLoop_le (flattenMem_le g k2 (max k1 k2) (Nat.le_max_right ..)) g _ _ _ _ _ _ e2
        simpa using this
      | leaf l => exact other (by simp [mkind]) (fun k => by simp [flattenLoop, hld])
      | joined s => exact other (by simp [mkind]) (fun k => by simp [flattenLoop, hld])
      | compl m => exact other (by simp [mkind]) (fun k => by simp [flattenLoop, hld])

theorem flatten_total (g : Grow) : ∀ l, FlatTotalAt g l := by
  refine loc_induction ?_ ?_ ?_ ?_
  · intro l hl ls e; subst e; simp [isContig] at hl
  · intro ls _ ls' e; cases e
  · intro ls ih ls' e hb h s hp hw hl
    cases e
    have hlen := length_read hw
    obtain ⟨k, r, e⟩ := flattenLoop_total g hp hw (read hb s) [] ls Slice.nil h [] (by simp) hl
      (nil_owned (List.prefix_refl _)) ih
    exact ⟨k + 1, r, by simpa [flattenMem, hlen] using e⟩
  · intro l _ ls e; cases e

/-- `Order(locs...)` of a readable slice has a result -/
theorem orderLocs_total (g : Grow) {h : LHeap} {s : Slice} (hs : WF h s) {xs : List Loc}
    (hx : ReadsList h xs (read h s)) : ∃ k r, orderLocs g k h s = some r := by
  obtain ⟨k, r1, e1⟩ := flatten_total g (.ordered xs) xs rfl h h s (List.prefix_refl _) hs hx
  obtain ⟨ys, o, _⟩ := flattenMem_refines g k h h s r1 xs e1 (List.prefix_refl _) hs hx
  have hlen := length_read o.wf
  rw [o.rd] at hlen
  refine ⟨k, ?_⟩
  unfold orderLocs
  simp only [e1, Option.bind_some]
  split
  · exact ⟨_, rfl⟩
  · rename_i h1
    obtain ⟨b, e⟩ := List.length_eq_one_iff.1 (show ys.length = 1 by omega)
    subst e
    have : load r1.2 r1.1 0 = some b := by rw [load_eq_read (by omega), o.rd]; rfl
    exact ⟨_, by rw [this]; rfl⟩
  · exact ⟨_, rfl⟩

/-! ### the element loop and `Expand` -/

theorem mapLoop2_total {R : Nat → LHeap → MLoc → Option (MLoc × LHeap)}
    (hmono : ∀ k k', k ≤ k' → ∀ h m r, R k h m = some r → R k' h m = some r)
    (hfresh : ∀ k, MapFresh (R k)) {h0 : LHeap} {src dst : Slice} (hs : WF h0 src)
    (hd : h0.length ≤ dst.arr) (todo : List MLoc) :
    ∀ (done : List MLoc) (ltodo : List Loc) (h : LHeap), read h0 src = done ++ todo →
      ReadsList h0 ltodo todo → h0 <+: h →
      (∀ lu ∈ ltodo, ∀ h' u, Reads h' lu u → ∃ k r, R k h' u = some r) →
      ∃ k r, mapLoop2 (R k) src dst todo.length done.length h = some r := by
  induction todo with
  | nil => intro done ltodo h _ _ _ _; exact ⟨0, _, rfl⟩
  | cons u rest ih =>
    intro done ltodo h hrd hl hp htot
    cases ltodo with
    | nil => simp [ReadsList] at hl
    | cons lu lrest =>
      have hl' := readsList_cons.1 hl
      have hlen := length_read hs
      rw [hrd] at hlen
      have hi : done.length < src.len := by rw [← hlen]; simp
      have hld : load h src done.length = some u := by
        rw [load_eq_read hi, read_mono hp hs, hrd]; simp
      obtain ⟨k1, r1, e1⟩ := htot lu (List.mem_cons_self ..) h u (Reads.mono hp _ _ hl'.1)
      have pf := hfresh k1 h u r1 e1
      obtain ⟨k2, r2, e2⟩ := ih (done ++ [u]) lrest (store r1.2 dst done.length r1.1)
        (by simpa using hrd) hl'.2 (frame_store (hp.trans pf.pre) hd _ _)
        (fun l hlm => htot l (List.mem_cons_of_mem _ hlm))
      refine ⟨max k1 k2, r2, ?_⟩
      simp only [List.length_cons, mapLoop2, hld]
      refine Option.bind_eq_some_iff.2 ⟨r1, hmono k1 _ (Nat.le_max_left ..) _ _ _ e1, ?_⟩
      have := mapLoop2_le (hmono k2 (max k1 k2) (Nat.le_max_right ..)) _ _ _ _ _ _ e2
      simpa using this

theorem mapLocs_total {R : Nat → LHeap → MLoc → Option (MLoc × LHeap)}
    (hmono : ∀ k k', k ≤ k' → ∀ h m r, R k h m = some r → R k' h m = some r)
    (hfresh : ∀ k, MapFresh (R k)) {h : LHeap} {src : Slice} (hs : WF h src) {ls : List Loc}
    (hl : ReadsList h ls (read h src))
    (htot : ∀ lu ∈ ls, ∀ h' u, Reads h' lu u → ∃ k r, R k h' u = some r) :
    ∃ k r, mapLocs (R k) h src = some r := by
  have hlen := length_read hs
  have m := frame_mk (List.prefix_refl h) src.len src.len
  obtain ⟨k, r, e⟩ := mapLoop2_total hmono hfresh hs m.2 (read h src) [] ls _ (by simp) hl m.1 htot
  refine ⟨k, ((mk h src.len src.len).1, r), ?_⟩
  unfold mapLocs
  exact Option.map_eq_some_iff.2 ⟨r, by simpa [hlen] using e, rfl⟩

/-- the common shape of `Expand` / `Shift` / `Normalize` has a result on every readable receiver,
given that the method of the contiguous kinds has -/
theorem methMem_total (g : Grow) {leafM : Nat → LHeap → Loc → Option (MLoc × LHeap)} {F : Loc → Loc}
    (hle : ∀ k k', k ≤ k' → ∀ h l r, leafM k h l = some r → leafM k' h l = some r)
    (hfresh : ∀ k, MapFresh (methMem leafM g k)) (href : ∀ k, MapRefines (methMem leafM g k) F)
    (hleaf : ∀ h l, isContig l = true → ∃ k r, leafM k h l = some r) :
    ∀ l h m, Reads h l m → ∃ k r, methMem leafM g k h m = some r := by
  refine loc_induction ?_ ?_ ?_ ?_
  · intro l hl h m hr
    rw [reads_contig hl] at hr
    subst hr
    obtain ⟨k, r, e⟩ := hleaf h l hl
    exact ⟨k + 1, r, by simpa [methMem] using e⟩
  · intro ls ih h m hr
    obtain ⟨s, rfl, hw, hl⟩ := reads_joined.1 hr
    obtain ⟨k1, r1, e1⟩ := mapLocs_total (methMem_le g hle) hfresh hw hl ih
    have p1 := mapLocs_refines (hfresh k1) (href k1) hw hl e1
    obtain ⟨k2, r2, e2⟩ := joinLocs_total g p1.2.1 p1.2.2
    refine ⟨max k1 k2 + 1, r2, ?_⟩
    simp only [methMem]
    exact Option.bind_eq_some_iff.2 ⟨r1, mapLocs_le (methMem_le g hle k1 _ (Nat.le_max_left ..)) e1,
      joinLocs_le g (by omega) e2⟩
  · intro ls ih h m hr
    obtain ⟨s, rfl, hw, hl⟩ := reads_ordered.1 hr
    obtain ⟨k1, r1, e1⟩ := mapLocs_total (methMem_le g hle) hfresh hw hl ih
    have p1 := mapLocs_refines (hfresh k1) (href k1) hw hl e1
    obtain ⟨k2, r2, e2⟩ := orderLocs_total g p1.2.1 p1.2.2
    refine ⟨max k1 k2 + 1, r2, ?_⟩
    simp only [methMem]
    exact Option.bind_eq_some_iff.2 ⟨r1, mapLocs_le (methMem_le g hle k1 _ (Nat.le_max_left ..)) e1,
      orderLocs_le g (by omega) e2⟩
  · intro l ih h m hr
    obtain ⟨m', rfl, hl⟩ := reads_compl.1 hr
    obtain ⟨k, r, e⟩ := ih h m' hl
    exact ⟨k + 1, (.compl r.1, r.2), by simp [methMem, e]⟩

/-- **`Expand` has a result on every readable receiver** -/
theorem expandMem_total (g : Grow) (i n : Int) :
    ∀ l h m, Reads h l m → ∃ k r, expandMem g i n k h m = some r :=
  methMem_total g (fun _ _ _ _ _ _ he => he) (expandMem_fresh g i n) (expandMem_refines g i n)
    (fun _ _ _ => ⟨0, _, rfl⟩)

theorem lit_join_total (g : Grow) (h : LHeap) (ls : List Loc) (hc : ∀ c ∈ ls, isContig c = true) :
    ∃ k r, joinLocs g k (litSlice h (ls.map MLoc.leaf)).2 (litSlice h (ls.map MLoc.leaf)).1 = some r := by
  have o := litSlice_owned (List.prefix_refl h) (ls.map MLoc.leaf)
  exact joinLocs_total g o.wf (by rw [o.rd]; exact readsList_leaves ls hc)

theorem lit_order_total (g : Grow) (h : LHeap) (ls : List Loc) (hc : ∀ c ∈ ls, isContig c = true) :
    ∃ k r, orderLocs g k (litSlice h (ls.map MLoc.leaf)).2 (litSlice h (ls.map MLoc.leaf)).1 = some r := by
  have o := litSlice_owned (List.prefix_refl h) (ls.map MLoc.leaf)
  exact orderLocs_total g o.wf (by rw [o.rd]; exact readsList_leaves ls hc)

/-- **`Shift` has a result on every readable receiver** -/
theorem shiftMem_total (g : Grow) (i n : Int) :
    ∀ l h m, Reads h l m → ∃ k r, shiftMem g i n k h m = some r :=
  methMem_total g (shiftLeaf_le g i n) (shiftMem_fresh g i n) (shiftMem_refines g i n) (by
    intro h l _
    unfold shiftLeaf
    split
    · split
      · exact lit_join_total g h [_, _] (by simp [isContig])
      · exact ⟨0, _, rfl⟩
    · split
      · exact lit_order_total g h [_, _] (by simp [isContig])
      · exact ⟨0, _, rfl⟩
    · exact ⟨0, _, rfl⟩)

/-- **`Normalize` has a result on every readable receiver** -/
theorem normalizeMem_total (g : Grow) (len : Int) :
    ∀ l h m, Reads h l m → ∃ k r, normalizeMem g len k h m = some r :=
  methMem_total g (normalizeLeaf_le g len) (normalizeMem_fresh g len) (normalizeMem_refines g len) (by
    intro h l _
    unfold normalizeLeaf
    split
    · split
      · exact lit_join_total g h [_, _] (by simp [isContig])
      · exact ⟨0, _, rfl⟩
    · exact ⟨0, _, rfl⟩)

end Gts.Mem
