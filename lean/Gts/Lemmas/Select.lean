/-
  Helper lemmas for C19's selection clause: `Props` lookups, the selector parser against the
  declarative grammar, `Selector.compile`, filter combinators, `FeatureSlice.Filter`.
  Core Lean only.
-/
import Gts.Spec.Selector
namespace Gts
open SelSpec

/-! ### `Props` lookups -/

namespace Props

/-- the predicate "row of that name" -/
abbrev named (key : String) : List String → Bool := fun row => row.head? == some key

theorem indexFrom_spec (key : String) : ∀ (ps : Props) (i : Nat),
    (indexFrom key ps i = -1 ∧ ps.find? (named key) = none) ∨
    (∃ j row, indexFrom key ps i = ((i + j : Nat) : Int) ∧ ps[j]? = some row ∧
      ps.find? (named key) = some row)
  | [], i => by simp [indexFrom]
  | row :: rest, i => by
      by_cases h : row.head? = some key
      · right
        exact ⟨0, row, by simp [indexFrom, h], by simp, by simp [named, h]⟩
      · have hb : named key row = false := by simp [named, h]
        rcases indexFrom_spec key rest (i + 1) with ⟨h1, h2⟩ | ⟨j, r, h1, h2, h3⟩
        · left
          exact ⟨by simp [indexFrom, h, h1], by simp [hb, h2]⟩
        · right
          refine ⟨j + 1, r, ?_, by simpa using h2, by simp [hb, h3]⟩
          simp only [indexFrom, h, if_false, h1]
          congr 1; omega

/-- `Has(name)`: some row carries that name -/
theorem has_iff (ps : Props) (name : String) :
    has ps name = true ↔ ∃ row ∈ ps, row.head? = some name := by
  unfold has index
  rcases indexFrom_spec name ps 0 with ⟨h1, h2⟩ | ⟨j, r, h1, _, h3⟩
  · rw [h1]
    simp only [List.find?_eq_none] at h2
    constructor
    · intro h; simp at h
    · rintro ⟨row, hr, hn⟩; exact absurd (by simp [named, hn]) (h2 row hr)
  · rw [h1]
    constructor
    · intro _
      have := List.find?_some h3
      exact ⟨r, List.mem_of_find?_eq_some h3, by simpa [named] using this⟩
    · intro _; exact decide_eq_true (by omega)

/-- `Get(name)`: the values of the **first** row of that name -/
theorem get_eq (ps : Props) (name : String) :
    get ps name = (ps.find? (named name)).map List.tail := by
  unfold get index
  rcases indexFrom_spec name ps 0 with ⟨h1, h2⟩ | ⟨j, r, h1, h2, h3⟩
  · simp [h1, h2]
  · have hne : ((0 + j : Nat) : Int) ≠ -1 := by omega
    simp only [h1, hne, if_false, h3, Option.map_some]
    have : ((0 + j : Nat) : Int).toNat = j := by omega
    rw [this, h2]; rfl

end Props

/-! ### clauses against the declarative reading -/

namespace SelSpec

theorem mem_allNames {ps : Props} {n : String} :
    n ∈ allNames ps ↔ ∃ row ∈ ps, row.head? = some n := by
  simp [allNames, List.mem_filterMap]

theorem valuesOf_of_nodup (name : String) : ∀ (ps : Props), (allNames ps).Nodup →
    valuesOf name ps = ((ps.find? (Props.named name)).map List.tail).getD []
  | [], _ => by simp [valuesOf]
  | row :: rest, h => by
      have hrest : (allNames rest).Nodup := by
        unfold allNames at h ⊢
        rw [List.filterMap_cons] at h
        split at h
        · exact h
        · exact (List.nodup_cons.mp h).2
      by_cases hn : row.head? = some name
      · have hb : Props.named name row = true := by simp [Props.named, hn]
        have hnot : name ∉ allNames rest := by
          unfold allNames at h ⊢
          rw [List.filterMap_cons, hn] at h
          exact (List.nodup_cons.mp h).1
        have hfil : rest.filter (fun row => row.head? == some name) = [] := by
          rw [List.filter_eq_nil_iff]
          intro r hr hp
          exact hnot (mem_allNames.mpr ⟨r, hr, by simpa using hp⟩)
        simp only [valuesOf, List.find?_cons, hb, Option.map_some, Option.getD_some]
        rw [List.filter_cons]
        simp [hn, hfil]
      · have hb : Props.named name row = false := by simp [Props.named, hn]
        have := valuesOf_of_nodup name rest hrest
        simp only [valuesOf, List.find?_cons, hb] at this ⊢
        rw [List.filter_cons]
        simp only [beq_iff_eq, hn, if_false]
        exact this

theorem mem_valuesOf {name v : String} {ps : Props} :
    v ∈ valuesOf name ps ↔ ∃ row ∈ ps, row.head? = some name ∧ v ∈ row.tail := by
  simp only [valuesOf, List.mem_flatMap, List.mem_filter, beq_iff_eq]
  constructor
  · rintro ⟨row, ⟨h1, h2⟩, h3⟩; exact ⟨row, h1, h2, h3⟩
  · rintro ⟨row, h1, h2, h3⟩; exact ⟨row, ⟨h1, h2⟩, h3⟩

theorem mem_allValues {v : String} {ps : Props} :
    v ∈ allValues ps ↔ ∃ row ∈ ps, v ∈ row.tail := by
  simp [allValues, List.mem_flatMap]

end SelSpec

/-- the closure of `Qualifier(name, query)` is the property's reading of a clause, on `Props`
as `Props.Add` builds them (the unnamed case needs no hypothesis on the rows). -/
theorem qualEval_iff (mtch : String → String → Bool) (c : String × String) (f : Feature)
    (hwf : wfProps f.props) : qualEval mtch c.1 c.2 f = true ↔ clauseSat mtch c f := by
  unfold qualEval clauseSat
  by_cases hname : c.1 = ""
  · simp only [hname, if_true, List.any_eq_true]
    constructor
    · rintro ⟨row, hrow, v, hv, hm⟩
      exact ⟨v, mem_allValues.mpr ⟨_, hrow, hv⟩, hm⟩
    · rintro ⟨v, hv, hm⟩
      obtain ⟨row, hrow, hv⟩ := mem_allValues.mp hv
      exact ⟨row, hrow, v, hv, hm⟩
  · simp only [hname, if_false]
    by_cases hq : c.2 = ""
    · simp only [hq, if_true, true_or, and_true, Props.has_iff]
      constructor
      · rintro ⟨row, hrow, hh⟩
        have hlen := hwf.1 row hrow
        cases row with
        | nil => simp at hh
        | cons n vs =>
          cases vs with
          | nil => simp at hlen
          | cons v vs => exact ⟨v, mem_valuesOf.mpr ⟨_, hrow, hh, by simp⟩⟩
      · rintro ⟨v, hv⟩
        obtain ⟨row, hrow, hh, _⟩ := mem_valuesOf.mp hv
        exact ⟨row, hrow, hh⟩
    · simp only [hq, if_false, false_or]
      rw [Props.get_eq, valuesOf_of_nodup c.1 f.props hwf.2]
      cases f.props.find? (Props.named c.1) with
      | none => simp
      | some row => simp [List.any_eq_true]

/-! ### the parser against the grammar (selectors without backslash) -/

theorem shiftLoop_noesc : ∀ (cs pre : List Char), '\\' ∉ cs →
    shiftLoop false pre cs =
      (pre.reverse ++ cs.takeWhile (· != '/'), (cs.dropWhile (· != '/')).drop 1)
  | [], pre, _ => by simp [shiftLoop]
  | c :: cs, pre, h => by
      have hc : c ≠ '\\' := fun e => h (e ▸ List.mem_cons_self ..)
      have hcs : '\\' ∉ cs := fun e => h (List.mem_cons_of_mem _ e)
      unfold shiftLoop
      by_cases hs : c = '/'
      · subst hs
        simp
      · have := shiftLoop_noesc cs (c :: pre) hcs
        simp [hc, hs, this]

theorem shiftChars_noesc (cs : List Char) (h : '\\' ∉ cs) :
    shiftChars cs = (cs.takeWhile (· != '/'), (cs.dropWhile (· != '/')).drop 1) := by
  simpa [shiftChars] using shiftLoop_noesc cs [] h

theorem splitOn_eq (sep : Char) : ∀ cs : List Char,
    splitOn sep cs = cs.takeWhile (· != sep) ::
      (match cs.dropWhile (· != sep) with
        | [] => []
        | _ :: r => splitOn sep r)
  | [] => by simp [splitOn]
  | c :: cs => by
      have ih := splitOn_eq sep cs
      have hcons : splitOn sep (c :: cs) = if c = sep then [] :: splitOn sep cs
          else consHead c (splitOn sep cs) := by conv => lhs; rw [splitOn]
      rw [hcons]
      by_cases hs : c = sep
      · simp [hs]
      · have hb : (c != sep) = true := by simpa using hs
        rw [ih]
        simp [hs, hb, consHead]

theorem splitOn_ne_nil (sep : Char) (cs : List Char) : splitOn sep cs ≠ [] := by
  rw [splitOn_eq]; simp

theorem dropTrailingEmpty_cons (x : List Char) {xs : List (List Char)} (h : xs ≠ []) :
    dropTrailingEmpty (x :: xs) = x :: dropTrailingEmpty xs := by
  cases xs with
  | nil => exact absurd rfl h
  | cons y ys =>
    cases x <;> simp [dropTrailingEmpty]

theorem dropTrailingEmpty_single {x : List Char} (h : x ≠ []) : dropTrailingEmpty [x] = [x] := by
  cases x with
  | nil => exact absurd rfl h
  | cons c cs => simp [dropTrailingEmpty]

theorem clauseLoop_nil (fuel : Nat) : clauseLoop fuel [] = [] := by
  cases fuel <;> simp [clauseLoop]

theorem clauseLoop_spec : ∀ (fuel : Nat) (t : List Char), '\\' ∉ t → t.length ≤ fuel →
    clauseLoop fuel t = dropTrailingEmpty (splitOn '/' t)
  | fuel, [], _, _ => by simp [clauseLoop_nil, splitOn, dropTrailingEmpty]
  | 0, c :: cs, _, h => by simp at h
  | fuel + 1, c :: cs, hb, hl => by
      simp only [clauseLoop]
      rw [shiftChars_noesc _ hb, splitOn_eq]
      cases hd : (c :: cs).dropWhile (· != '/') with
      | nil =>
        have htw : (c :: cs).takeWhile (· != '/') = c :: cs := by
          have := List.takeWhile_append_dropWhile (p := (· != '/')) (l := c :: cs)
          rw [hd, List.append_nil] at this
          exact this
        simp only [List.drop_nil, clauseLoop_nil]
        rw [htw, dropTrailingEmpty_single (by simp)]
      | cons d r =>
        have hsuf : (d :: r) <:+ (c :: cs) := hd ▸ List.dropWhile_suffix _
        have hrb : '\\' ∉ r := fun e => hb (hsuf.subset (List.mem_cons_of_mem _ e))
        have hrl : r.length ≤ fuel := by
          have := hsuf.length_le
          simp at this hl
          omega
        simp only [List.drop_succ_cons, List.drop_zero]
        rw [clauseLoop_spec fuel r hrb hrl, dropTrailingEmpty_cons _ (splitOn_ne_nil _ _)]

theorem splitEq_eq : ∀ s : List Char,
    splitEq s = (s.takeWhile (· != '='), (s.dropWhile (· != '=')).drop 1)
  | [] => by simp [splitEq]
  | c :: cs => by
      have ih := splitEq_eq cs
      unfold splitEq at ih ⊢
      rw [List.findIdx?_cons]
      by_cases hc : c = '='
      · simp [hc]
      · have hb : (c == '=') = false := by simpa using hc
        have hb' : (c != '=') = true := by simpa using hc
        simp only [hb, Bool.false_eq_true, if_false, List.takeWhile_cons, hb', if_true,
          List.dropWhile_cons]
        cases hf : cs.findIdx? (· == '=') with
        | none =>
          rw [hf] at ih
          simp only [Option.map_none]
          rw [← (Prod.mk.inj ih).1, ← (Prod.mk.inj ih).2]
        | some i =>
          rw [hf] at ih
          simp only [Option.map_some, List.take_succ_cons, List.drop_succ_cons]
          rw [← (Prod.mk.inj ih).1, ← (Prod.mk.inj ih).2]

/-- the syntactic half of `Selector` computes the grammar's key and clauses -/
theorem parseSelector_spec (s : String) (h : '\\' ∉ s.toList) :
    parseSelector s = ⟨SelSpec.key s, SelSpec.clauses s⟩ := by
  unfold parseSelector parseSelectorChars SelSpec.key SelSpec.clauses
  rw [shiftChars_noesc _ h, splitOn_eq]
  simp only [List.headD_cons, List.tail_cons, List.map_map]
  have hcl : clauseLoop ((s.toList.dropWhile (· != '/')).drop 1).length
        ((s.toList.dropWhile (· != '/')).drop 1)
      = dropTrailingEmpty (match s.toList.dropWhile (· != '/') with
          | [] => []
          | _ :: r => splitOn '/' r) := by
    cases hd : s.toList.dropWhile (· != '/') with
    | nil => simp [clauseLoop_nil, dropTrailingEmpty]
    | cons d r =>
      have hsuf : (d :: r) <:+ s.toList := hd ▸ List.dropWhile_suffix _
      have hrb : '\\' ∉ r := fun e => h (hsuf.subset (List.mem_cons_of_mem _ e))
      simp only [List.drop_succ_cons, List.drop_zero]
      exact clauseLoop_spec _ r hrb (Nat.le_refl _)
  rw [hcl]
  congr 1
  apply List.map_congr_left
  intro seg _
  simp [Function.comp, splitEq_eq, clauseOf]

/-! ### `Selector.compile` -/

theorem andF_pair (p q : Filter) (f : Feature) : andF [p, q] f = (p f && q f) := by
  simp [andF]

theorem compile_fold (valid : String → Bool) (mtch : String → String → Bool) :
    ∀ (cs : List (String × String)) (acc : Filter),
      ((∃ c ∈ cs, valid c.2 = false) →
        cs.foldlM (fun flt c => (qualifierFilter valid mtch c.1 c.2).map fun q => andF [flt, q]) acc
          = none) ∧
      ((∀ c ∈ cs, valid c.2 = true) → ∃ g,
        cs.foldlM (fun flt c => (qualifierFilter valid mtch c.1 c.2).map fun q => andF [flt, q]) acc
          = some g ∧ ∀ f, g f = (acc f && cs.all fun c => qualEval mtch c.1 c.2 f))
  | [], acc => by simp
  | c :: cs, acc => by
      cases hv : valid c.2 with
      | false =>
        constructor
        · intro _; simp [List.foldlM_cons, qualifierFilter, hv]
        · intro h; have := h c (List.mem_cons_self ..); rw [hv] at this; cases this
      | true =>
        have ih := compile_fold valid mtch cs (andF [acc, qualEval mtch c.1 c.2])
        have hstep : qualifierFilter valid mtch c.1 c.2 = some (qualEval mtch c.1 c.2) := by
          simp [qualifierFilter, hv]
        constructor
        · rintro ⟨d, hd, hdv⟩
          rcases List.mem_cons.mp hd with rfl | hd
          · rw [hv] at hdv; cases hdv
          · simp only [List.foldlM_cons, hstep, Option.map_some, Option.bind_eq_bind,
              Option.bind_some]
            exact ih.1 ⟨d, hd, hdv⟩
        · intro h
          obtain ⟨g, hg, hgf⟩ := ih.2 (fun d hd => h d (List.mem_cons_of_mem _ hd))
          refine ⟨g, ?_, fun f => ?_⟩
          · simp only [List.foldlM_cons, hstep, Option.map_some, Option.bind_eq_bind,
              Option.bind_some]
            exact hg
          · rw [hgf f, andF_pair, List.all_cons, Bool.and_assoc]

theorem keyF_iff (key : String) (f : Feature) : keyF key f = true ↔ (key = "" ∨ f.key = key) := by
  unfold keyF
  by_cases h : key = ""
  · simp [h, trueFilter]
  · simp [h]

/-! ### `FeatureSlice.Filter` -/

namespace Table

theorem filterIndices_spec (p : Filter) : ∀ (t pre : Table),
    (filterIndices p t pre.length).filterMap (fun i => (pre ++ t)[i]?) = t.filter p
  | [], pre => by simp [filterIndices]
  | f :: fs, pre => by
      have ih := filterIndices_spec p fs (pre ++ [f])
      simp only [List.length_append, List.length_singleton, List.append_assoc,
        List.singleton_append] at ih
      have hf : (⟨f.key, f.loc, f.props⟩ : Feature) = f := rfl
      unfold filterIndices
      rw [hf]
      by_cases hp : p f = true
      · simp only [hp, if_true, List.filterMap_cons, List.filter_cons]
        have : (pre ++ f :: fs)[pre.length]? = some f := by simp
        rw [this, ih]
      · simp only [hp, if_false, List.filter_cons, Bool.false_eq_true]
        exact ih

end Table
end Gts
