/-
  C01: the SECOND generation.  The record that was read (`readBack reg r p`) together with the
  registry the reader ended with (`learnTable reg r.table`) is a fixed point of write → read, for
  EVERY `Writable` record (no clause on row names): what was read is what `Props.Add` builds, its
  names are all known, its values are the values that were written.  Core Lean only.
-/
import Gts.Lemmas.GbFixed
import Gts.Lemmas.GbLearn
namespace Gts.GenBank
open Gts.Pars

theorem tableClause_of_all' (reg : Registry) (t' : List QFeature) :
    (∀ x ∈ t', (featOk reg x && propsOk x.props) = true) →
    (match t' with | [] => true | _ :: _ => tableWritable reg t') = true := by
  cases t' with
  | nil => intro _; rfl
  | cons g gs =>
    intro hall
    simp only [tableWritable, List.all_eq_true]
    exact hall

/-- the record that was read, holding its residues as `NewOrigin(p)` instead of the kept block: the
same text is written for both (`write_residues_form`) -/
def residuesForm (r : Record) (p : Bytes) : Record := ⟨r.fields, r.table, .residues p⟩

theorem write_residues_form (reg a : Registry) (r : Record) (p : Bytes) (hlen : p.length < 10 ^ 9) :
    write reg (residuesForm (readBack a r p) p) = write reg (readBack a r p) := by
  obtain ⟨hol, hot⟩ := origin_readBack p hlen
  have h1 : (residuesForm (readBack a r p) p).origin.len = (readBack a r p).origin.len := by
    simp only [residuesForm, readBack, OriginV.len]
    exact hol.symm
  have h7 : (readBack a r p).origin.len > 0 →
      (residuesForm (readBack a r p) p).origin.text = (readBack a r p).origin.text := by
    intro hpos
    have hp : ¬ p.isEmpty = true := by
      intro hp
      have : p = [] := by simpa using hp
      subst this
      simp [readBack, OriginV.len, Origin.originLen] at hpos
    simp only [residuesForm, readBack, hp, Bool.false_eq_true, if_false]
    exact (hot hp).symm
  exact write_congr reg reg (readBack a r p) (residuesForm (readBack a r p) p) h1 (fun _ => rfl) rfl rfl rfl rfl h7

theorem writable_intro (reg : Registry) (r : Record) (p : Bytes)
    (h1 : locusOk r.fields (locusLength r.fields p) = true)
    (h2 : Origin.toOriginLength (locusLength r.fields p) ≤ 9223372036854775807) (h3 : isMolecule r.fields.molecule = true)
    (h4 : headerOk r.fields = true)
    (h5 : (match r.table with | [] => true | _ :: _ => tableWritable reg r.table) = true)
    (h6 : (if r.fields.contigAcc.isEmpty then decide (r.fields.contigHead = 0 ∧ r.fields.contigTail = 0)
      else contigOk r.fields) = true)
    (h7 : p.all Origin.isBase = true) (h8 : p.length < 10 ^ 9) : Writable reg r p = true := by
  simp only [Writable, Bool.and_eq_true, decide_eq_true_eq]
  exact ⟨⟨⟨⟨⟨⟨⟨h1, h2⟩, h3⟩, h4⟩, h5⟩, h6⟩, h7⟩, h8⟩

theorem headerOk_readBack (f : Fields) (h : headerOk f = true) :
    headerOk { f with accession := accessionLine f, region := none } = true := by
  have e : accessionLine { f with accession := accessionLine f, region := none } = accessionLine f := by
    simp [accessionLine]
  unfold headerOk at h ⊢
  rw [e]
  exact h

/-- one re-read feature under the grown registry: key as before, the rows are `Props.Add`'s, every
item is a value that was written under a name that is known by now -/
theorem featOk_readFeature (reg reg1 : Registry) (hs : sameText reg reg1) (f : QFeature)
    (hok : featOk reg f = true)
    (hknown : ∀ kv ∈ propsItems f.props, reg1.typeOf kv.1 ≠ .unknown) :
    featOk reg1 (readFeature reg f) = true ∧ propsOk (readFeature reg f).props = true ∧
    ∀ kv ∈ propsItems (readFeature reg f).props, reg1.typeOf kv.1 ≠ .unknown := by
  simp only [featOk, Bool.and_eq_true, List.all_eq_true] at hok
  have hn : propsNorm (propsOfItems (readItems reg f.props)) = true := propsOfItems_norm _
  have hq : RowsQ (fun k w => WritableQualifier reg1 21 k w = true ∧ reg1.typeOf k ≠ .unknown)
      (propsOfItems (readItems reg f.props)) := by
    apply propsOfItems_rowsQ
    intro q hq
    simp only [readItems, List.mem_map] at hq
    obtain ⟨kv, hkv, rfl⟩ := hq
    have hw := hok.2 kv hkv
    simp only
    rw [readValue_eq reg 21 kv.1 kv.2 hw, writable_same reg reg1 hs]
    exact ⟨hw, hknown kv hkv⟩
  have hitems := rowsQ_items _ _ hq
  rw [← propsItems_rows _ hn] at hitems
  refine ⟨?_, propsNorm_ok _ hn, fun kv hkv => (hitems kv hkv).2⟩
  simp only [featOk, readFeature, Bool.and_eq_true, List.all_eq_true]
  exact ⟨hok.1, fun kv hkv => (hitems kv hkv).1⟩

/-- the re-read record (in residues form) is `Writable` under the grown registry, and teaches it
nothing -/
theorem writable_readBack (reg : Registry) (r : Record) (p : Bytes) (hw : Writable reg r p = true) :
    Writable (learnTable reg r.table) (residuesForm (readBack reg r p) p) p = true ∧
    learnTable (learnTable reg r.table) (readBack reg r p).table = learnTable reg r.table := by
  obtain ⟨hlocus, hrange, hmol, hh, htw, hc, hp, hlen⟩ := writable_parts reg r p hw
  have hs : sameText reg (learnTable reg r.table) := sameText_learnTable reg reg r.table (sameText_refl reg)
  have hfeat : ∀ f ∈ r.table, featOk reg f = true := by
    intro f hf
    revert htw hf
    cases r.table with
    | nil => intro _ hf; simp at hf
    | cons a as =>
      intro htw hf
      simp only [tableWritable, List.all_eq_true, Bool.and_eq_true] at htw
      exact (htw f hf).1
  have hall : ∀ f ∈ r.table, featOk (learnTable reg r.table) (readFeature reg f) = true ∧
      propsOk (readFeature reg f).props = true ∧
      ∀ kv ∈ propsItems (readFeature reg f).props, (learnTable reg r.table).typeOf kv.1 ≠ .unknown :=
    fun f hf => featOk_readFeature reg _ hs f (hfeat f hf) (learnTable_names_known reg r.table f hf)
  constructor
  · have htab := tableClause_of_all' (learnTable reg r.table) (r.table.map (readFeature reg)) (by
      intro x hx
      obtain ⟨f, hf, rfl⟩ := List.mem_map.mp hx
      simp only [Bool.and_eq_true]
      exact ⟨(hall f hf).1, (hall f hf).2.1⟩)
    exact writable_intro _ (residuesForm (readBack reg r p) p) p hlocus hrange hmol (headerOk_readBack r.fields hh)
      htab hc hp hlen
  · apply learnTable_known
    intro f' hf'
    simp only [readBack] at hf'
    obtain ⟨f, hf, rfl⟩ := List.mem_map.mp hf'
    exact (hall f hf).2.2

/-- **second generation**: the record that was read and the registry the reader ended with are a
fixed point of write → read — `GenBank.String` succeeds on the record, and `GenBankParser` reads
the same record back, leaving the registry as it is. -/
theorem reread_fixed (reg : Registry) (r : Record) (p : Bytes) (hw : Writable reg r p = true)
    (hloc : ∀ x ∈ r.table, LocRT x.loc) (rest' : Bytes) :
    ∃ t1, write (learnTable reg r.table) (readBack reg r p) = .ok t1 ∧
      genbankParser (learnTable reg r.table) ⟨t1 ++ rest', []⟩ =
        (.ok (readBack reg r p, learnTable reg r.table), ⟨rest', []⟩) := by
  have hlen : p.length < 10 ^ 9 := (writable_parts reg r p hw).2.2.2.2.2.2.2
  have hs : sameText reg (learnTable reg r.table) := sameText_learnTable reg reg r.table (sameText_refl reg)
  obtain ⟨hw1, hstable⟩ := writable_readBack reg r p hw
  have hloc1 : ∀ x ∈ (residuesForm (readBack reg r p) p).table, LocRT x.loc := by
    intro x hx
    simp only [residuesForm, readBack] at hx
    obtain ⟨f, hf, rfl⟩ := List.mem_map.mp hx
    exact hloc f hf
  obtain ⟨t1, h1, _, h2⟩ := read_write (learnTable reg r.table) (residuesForm (readBack reg r p) p) p rfl hw1 hloc1 rest'
  refine ⟨t1, ?_, ?_⟩
  · rw [← write_residues_form _ reg r p hlen]; exact h1
  · have e1 : readBack (learnTable reg r.table) (residuesForm (readBack reg r p) p) p = readBack reg r p :=
      readBack_idem' reg _ hs r p
    have e2 : (residuesForm (readBack reg r p) p).table = (readBack reg r p).table := rfl
    rw [e1, e2, hstable] at h2
    exact h2

/-- the byte fixed point for a whole stream: the records that were read, written again under any
registry that writes the same text (the one the reader ended with, for instance) -/
theorem writeAll_readBack (a b : Registry) (h : sameText a b) (rs : List (Record × Bytes))
    (hall : ∀ x ∈ rs, x.1.origin = .residues x.2 ∧ x.2.length < 10 ^ 9 ∧ tableAdjacent x.1.table = true) :
    writeAll b (rs.map fun x => readBack a x.1 x.2) = writeAll a (rs.map (·.1)) := by
  induction rs with
  | nil => rfl
  | cons x rs ih =>
    obtain ⟨ho, hl, hd⟩ := hall x (by simp)
    simp only [List.map_cons, writeAll, write_readBack a b h x.1 x.2 ho hl hd,
      ih (fun y hy => hall y (by simp [hy]))]

/-! ### a pipeline that reads and writes in turn -/

/-- `WriteSeq` for every record, each under the registry of ITS moment: in a pipeline that scans a
record, writes it, scans the next …, the process-global registry grows between two writes -/
def writeEach : List (Registry × Record) → Out Bytes
  | [] => .ok []
  | (g, r) :: xs => do
    let a ← write g r
    let b ← writeEach xs
    pure (a ++ b)

/-- as long as every registry of the pipeline writes the same text as `reg` (it is `reg` plus names
learned since), the stream is the one written under `reg` alone -/
theorem writeEach_same (reg : Registry) (xs : List (Registry × Record)) (h : ∀ x ∈ xs, sameText reg x.1) :
    writeEach xs = writeAll reg (xs.map (·.2)) := by
  induction xs with
  | nil => rfl
  | cons x xs ih =>
    obtain ⟨g, r⟩ := x
    simp only [writeEach, List.map_cons, writeAll, write_same reg g (h (g, r) (by simp)) r,
      ih (fun y hy => h y (by simp [hy]))]

end Gts.GenBank
