/-
  Helper lemmas for C11 (heap of arrays, Go slices).  No property statements here.
-/
import Gts.Model.Mem
import Gts.Lemmas.LessOrder
namespace Gts.Mem
open Heap

variable {α : Type}

/-! ### arrays -/

theorem get_append_left {h e : Heap α} {a : Nat} (ha : a < h.length) : (h ++ e).get a = h.get a := by
  simp [Heap.get, List.getD, List.getElem?_append_left ha]

theorem get_append_length (h : Heap α) (x : List α) : (h ++ [x]).get h.length = x := by
  simp [Heap.get, List.getD]

theorem get_of_le {h : Heap α} {a : Nat} (ha : h.length ≤ a) : h.get a = [] := by
  simp [Heap.get, List.getD, List.getElem?_eq_none ha]

theorem get_prefix {h0 h : Heap α} (hp : h0 <+: h) {a : Nat} (ha : a < h0.length) :
    h.get a = h0.get a := by
  obtain ⟨e, rfl⟩ := hp
  exact get_append_left ha

theorem length_write (h : Heap α) (a pos : Nat) (xs : List α) : (write h a pos xs).length = h.length := by
  simp [write]

theorem get_write_ne (h : Heap α) {a b : Nat} (pos : Nat) (xs : List α) (hab : a ≠ b) :
    (write h a pos xs).get b = h.get b := by
  simp [write, Heap.get, List.getD, List.getElem?_set_ne hab]

theorem get_write_eq (h : Heap α) {a : Nat} (pos : Nat) (xs : List α) (ha : a < h.length) :
    (write h a pos xs).get a = overwrite (h.get a) pos xs := by
  simp [write, Heap.get, List.getD, ha]

theorem overwrite_nil (arr : List α) (pos : Nat) : overwrite arr pos [] = arr := by
  simp [overwrite]

theorem write_nil (h : Heap α) (a pos : Nat) : write h a pos [] = h := by
  unfold write
  rw [overwrite_nil]
  by_cases ha : a < h.length
  · apply List.ext_getElem?
    intro i
    by_cases hi : a = i
    · subst hi; simp [Heap.get, List.getD, ha]
    · simp [List.getElem?_set_ne hi]
  · exact List.set_eq_of_length_le (by omega)

theorem length_overwrite (arr : List α) (pos : Nat) (xs : List α) (hle : pos + xs.length ≤ arr.length) :
    (overwrite arr pos xs).length = arr.length := by
  simp [overwrite]; omega

/-- a write into an array that did not exist in `h0` keeps `h0` a prefix -/
theorem prefix_write {h0 h : Heap α} (hp : h0 <+: h) {a : Nat} (ha : h0.length ≤ a) (pos : Nat)
    (xs : List α) : h0 <+: write h a pos xs := by
  obtain ⟨e, rfl⟩ := hp
  unfold write
  rw [List.set_append_right _ _ ha]
  exact List.prefix_append _ _

theorem prefix_snoc {h0 h : Heap α} (hp : h0 <+: h) (x : List α) : h0 <+: h ++ [x] :=
  hp.trans (List.prefix_append _ _)

/-! ### well-formed slices -/

theorem wf_mono {h0 h : Heap α} (hp : h0 <+: h) {s : Slice} (hw : WF h0 s) : WF h s := by
  by_cases ha : s.arr < h0.length
  · unfold WF; rw [get_prefix hp ha]; exact hw
  · have := get_of_le (h := h0) (a := s.arr) (by omega)
    unfold WF at hw ⊢
    rw [this] at hw
    simp at hw
    omega

theorem read_mono {h0 h : Heap α} (hp : h0 <+: h) {s : Slice} (hw : WF h0 s) :
    read h s = read h0 s := by
  by_cases ha : s.arr < h0.length
  · unfold Heap.read; rw [get_prefix hp ha]
  · have := get_of_le (h := h0) (a := s.arr) (by omega)
    unfold WF at hw
    rw [this] at hw
    simp at hw
    have hl : s.len = 0 := by omega
    simp [Heap.read, hl]

theorem length_read {h : Heap α} {s : Slice} (hw : WF h s) : (read h s).length = s.len := by
  unfold WF at hw
  simp [Heap.read]
  omega

theorem wf_slice {h : Heap α} {s : Slice} (hw : WF h s) {lo hi : Nat} (h1 : lo ≤ hi) (h2 : hi ≤ s.cap) :
    WF h (s.slice lo hi) := by
  unfold WF at *
  simp [Slice.slice]
  omega

theorem read_slice {h : Heap α} {s : Slice} (lo hi : Nat) (h2 : hi ≤ s.len) :
    read h (s.slice lo hi) = ((read h s).take hi).drop lo := by
  simp only [Heap.read, Slice.slice]
  rw [List.take_take, Nat.min_eq_left h2, List.drop_take, List.drop_drop]

theorem read_upto {h : Heap α} {s : Slice} (hi : Nat) (h2 : hi ≤ s.len) :
    read h (s.upto hi) = (read h s).take hi := by
  simp [Slice.upto, read_slice 0 hi h2]

theorem read_since {h : Heap α} {s : Slice} (hw : WF h s) (lo : Nat) :
    read h (s.since lo) = (read h s).drop lo := by
  rw [Slice.since, read_slice lo s.len (Nat.le_refl _), List.take_of_length_le]
  rw [length_read hw]; exact Nat.le_refl _

theorem wf_upto {h : Heap α} {s : Slice} (hw : WF h s) {hi : Nat} (h2 : hi ≤ s.len) :
    WF h (s.upto hi) := wf_slice hw (Nat.zero_le _) (by unfold WF at hw; omega)

theorem wf_since {h : Heap α} {s : Slice} (hw : WF h s) {lo : Nat} (h2 : lo ≤ s.len) :
    WF h (s.since lo) := wf_slice hw h2 hw.1


/-! ### overwriting a window -/

theorem getElem?_overwrite (A : List α) (p : Nat) (ys : List α) (hp : p ≤ A.length) (j : Nat) :
    (overwrite A p ys)[j]? =
      if j < p then A[j]? else if j < p + ys.length then ys[j - p]? else A[j]? := by
  unfold overwrite
  have h1 : (A.take p).length = p := by simp; omega
  rw [List.append_assoc, List.getElem?_append, h1]
  split
  · rename_i hj; rw [List.getElem?_take_of_lt hj]
  · rename_i hj
    rw [List.getElem?_append]
    split
    · rename_i hj2; rw [if_pos (by omega)]
    · rename_i hj2
      rw [if_neg (by omega), List.getElem?_drop]
      congr 1; omega

theorem getElem?_read (h : Heap α) (s : Slice) (j : Nat) :
    (read h s)[j]? = if j < s.len then (h.get s.arr)[s.off + j]? else none := by
  simp only [Heap.read, List.getElem?_take, List.getElem?_drop]

/-- writing `ys` at relative position `p` of a window = overwriting the window's contents -/
theorem window_overwrite (A : List α) (off len p : Nat) (ys : List α) (h1 : off + len ≤ A.length)
    (h2 : p + ys.length ≤ len) :
    ((overwrite A (off + p) ys).drop off).take len = overwrite ((A.drop off).take len) p ys := by
  apply List.ext_getElem?
  intro j
  have hl : ((A.drop off).take len).length = len := by simp; omega
  rw [getElem?_overwrite _ _ _ (by omega)]
  simp only [List.getElem?_take, List.getElem?_drop]
  rw [getElem?_overwrite _ _ _ (by omega)]
  by_cases hj : j < len
  · simp only [hj, if_true]
    by_cases h3 : j < p
    · rw [if_pos (by omega), if_pos h3]
    · rw [if_neg (by omega), if_neg h3]
      by_cases h4 : j < p + ys.length
      · rw [if_pos (by omega), if_pos h4]; congr 1; omega
      · rw [if_neg (by omega), if_neg h4]
  · simp only [hj, if_false]
    rw [if_neg (by omega), if_neg (by omega)]

/-- appending in place: the window grows by `ys` -/
theorem window_append (A : List α) (off len : Nat) (ys : List α) (h1 : off + len + ys.length ≤ A.length) :
    ((overwrite A (off + len) ys).drop off).take (len + ys.length) = (A.drop off).take len ++ ys := by
  apply List.ext_getElem?
  intro j
  have hl : ((A.drop off).take len).length = len := by simp; omega
  simp only [List.getElem?_take, List.getElem?_drop]
  rw [getElem?_overwrite _ _ _ (by omega), List.getElem?_append, hl]
  simp only [List.getElem?_take, List.getElem?_drop]
  by_cases hj : j < len
  · rw [if_pos (by omega), if_pos (by omega), if_pos hj, if_pos hj]
  · rw [if_neg hj]
    by_cases h4 : j < len + ys.length
    · rw [if_pos h4, if_neg (by omega), if_pos (by omega)]; congr 1; omega
    · rw [if_neg h4]; exact (List.getElem?_eq_none (by omega)).symm

/-! ### slices owned by the running operation -/

/-- `s` was allocated after `h0` (so writes through it leave `h0` a prefix), it is well formed
in the current heap `h`, and currently reads `xs` -/
structure Owned (h0 h : Heap α) (s : Slice) (xs : List α) : Prop where
  pre : h0 <+: h
  fresh : Fresh h0.length s
  wf : WF h s
  rd : read h s = xs

theorem arr_lt_of_wf {h : Heap α} {s : Slice} (hw : WF h s) (hc : 0 < s.cap) : s.arr < h.length := by
  apply Decidable.byContradiction
  intro hn
  have := get_of_le (h := h) (a := s.arr) (by omega)
  unfold WF at hw
  rw [this] at hw
  simp at hw
  omega

theorem mk_owned [Inhabited α] {h0 h : Heap α} (hp : h0 <+: h) {n c : Nat} (hn : n ≤ c) :
    Owned h0 (mk h n c).2 (mk h n c).1 (List.replicate n default) := by
  refine ⟨prefix_snoc hp _, Or.inl hp.length_le, ?_, ?_⟩
  · simp [WF, mk, get_append_length, hn]
  · simp [Heap.read, mk, get_append_length, List.take_replicate, Nat.min_eq_left hn]

theorem write_owned {h0 h : Heap α} {s : Slice} {xs : List α} (ho : Owned h0 h s xs) (p : Nat)
    (ys : List α) (hle : p + ys.length ≤ s.len) :
    Owned h0 (write h s.arr (s.off + p) ys) s (overwrite xs p ys) := by
  obtain ⟨hp, hf, hw, hr⟩ := ho
  cases ys with
  | nil => rw [write_nil, overwrite_nil]; exact ⟨hp, hf, hw, hr⟩
  | cons y ys =>
    have hlen : 0 < s.len := by simp at hle; omega
    have hcap : 0 < s.cap := by unfold WF at hw; omega
    have ha := arr_lt_of_wf hw hcap
    have hfr : h0.length ≤ s.arr := by cases hf with | inl h => exact h | inr h => omega
    have hw' := hw
    unfold WF at hw
    refine ⟨prefix_write hp hfr _ _, Or.inl hfr, ?_, ?_⟩
    · unfold WF
      rw [get_write_eq _ _ _ ha, length_overwrite _ _ _ (by omega)]
      exact hw
    · rw [← hr]
      unfold Heap.read
      rw [get_write_eq _ _ _ ha]
      exact window_overwrite _ _ _ _ _ (by omega) hle

theorem store_owned {h0 h : Heap α} {s : Slice} {xs : List α} (ho : Owned h0 h s xs) (i : Nat) (x : α)
    (hi : i < s.len) : Owned h0 (store h s i x) s (overwrite xs i [x]) :=
  write_owned ho i [x] (by simp; omega)

theorem copy_owned {h0 h : Heap α} {s : Slice} {xs : List α} (ho : Owned h0 h s xs) (ys : List α) :
    Owned h0 (copy h s ys) s (overwrite xs 0 (ys.take s.len)) := by
  have := write_owned ho 0 (ys.take s.len) (by simp; omega)
  simpa [copy] using this

theorem copy_upto_owned {h0 h : Heap α} {s : Slice} {xs : List α} (ho : Owned h0 h s xs) (hi : Nat)
    (ys : List α) (hh : hi ≤ s.len) :
    Owned h0 (copy h (s.upto hi) ys) s (overwrite xs 0 (ys.take hi)) := by
  have := write_owned ho 0 (ys.take hi) (by simp; omega)
  simpa [copy, Slice.upto, Slice.slice] using this

theorem copy_since_owned {h0 h : Heap α} {s : Slice} {xs : List α} (ho : Owned h0 h s xs) (p : Nat)
    (ys : List α) (hh : p ≤ s.len) :
    Owned h0 (copy h (s.since p) ys) s (overwrite xs p (ys.take (s.len - p))) := by
  have := write_owned ho p (ys.take (s.len - p)) (by simp; omega)
  simpa [copy, Slice.since, Slice.slice] using this

theorem append_owned [Inhabited α] (g : Grow) {h0 h : Heap α} {s : Slice} {xs : List α}
    (ho : Owned h0 h s xs) (ys : List α) :
    Owned h0 (append g h s ys).2 (append g h s ys).1 (xs ++ ys) := by
  obtain ⟨hp, hf, hw, hr⟩ := ho
  have hlr := length_read hw
  unfold Heap.append
  split
  · rename_i hfit
    cases ys with
    | nil =>
      simp only [List.length_nil, Nat.add_zero, List.append_nil]
      rw [write_nil]
      exact ⟨hp, hf, hw, hr⟩
    | cons y ys =>
      have hcap : 0 < s.cap := by simp at hfit; omega
      have ha := arr_lt_of_wf hw hcap
      have hfr : h0.length ≤ s.arr := by cases hf with | inl h => exact h | inr h => omega
      unfold WF at hw
      refine ⟨prefix_write hp hfr _ _, Or.inl hfr, ?_, ?_⟩
      · unfold WF
        dsimp only
        rw [get_write_eq _ _ _ ha, length_overwrite _ _ _ (by omega)]
        exact ⟨hfit, hw.2⟩
      · rw [← hr]
        unfold Heap.read
        dsimp only
        rw [get_write_eq _ _ _ ha]
        exact window_append _ _ _ _ (by omega)
  · refine ⟨prefix_snoc hp _, Or.inl hp.length_le, ?_, ?_⟩
    · simp [WF, get_append_length, hlr]; omega
    · subst hr
      generalize read h s = R at hlr ⊢
      have hl2 : (R ++ ys).length = s.len + ys.length := by simp [hlr]
      simp only [Heap.read, get_append_length, List.drop_zero]
      rw [List.take_append_of_le_length (by omega), List.take_of_length_le (by omega)]

/-- the `nil` slice is owned by anybody -/
theorem nil_owned {h0 h : Heap α} (hp : h0 <+: h) : Owned h0 h Slice.nil [] :=
  ⟨hp, Or.inr rfl, by simp [WF, Slice.nil], by simp [Heap.read, Slice.nil]⟩

theorem wf_nil (h : Heap α) : WF h Slice.nil := by simp [WF, Slice.nil]

theorem read_nil (h : Heap α) : read h Slice.nil = [] := by simp [Heap.read, Slice.nil]


theorem Owned.weaken {h0 h h' : Heap α} {s : Slice} {xs : List α} (hp : h0 <+: h)
    (ho : Owned h h' s xs) : Owned h0 h' s xs :=
  ⟨hp.trans ho.pre, ho.fresh.elim (fun x => Or.inl (Nat.le_trans hp.length_le x)) Or.inr, ho.wf, ho.rd⟩

/-! ### list algebra of `overwrite` -/

theorem overwrite_zero (X A : List α) : overwrite X 0 A = A ++ X.drop A.length := by
  simp [overwrite]

theorem overwrite_full (X A : List α) (h : X.length ≤ A.length) : overwrite X 0 A = A := by
  simp [overwrite, List.drop_of_length_le h]

theorem overwrite_after (A Y B : List α) : overwrite (A ++ Y) A.length B = A ++ B ++ Y.drop B.length := by
  simp [overwrite, List.drop_append]

theorem overwrite_after' (A Y B : List α) {i : Nat} (hi : A.length = i) :
    overwrite (A ++ Y) i B = A ++ B ++ Y.drop B.length := by
  subst hi; exact overwrite_after A Y B

/-! ### the byte-level helpers -/

section bytes
variable [Inhabited α]

omit [Inhabited α] in
theorem Owned.cast {h0 h : Heap α} {s : Slice} {xs ys : List α} (ho : Owned h0 h s xs) (e : xs = ys) :
    Owned h0 h s ys := e ▸ ho

/-- `append(s, t...)` where `t` is a slice that existed before the operation started -/
theorem append_old (g : Grow) {h0 h : Heap α} {s t : Slice} {xs : List α} (ho : Owned h0 h s xs)
    (ht : WF h0 t) :
    Owned h0 (append g h s (read h t)).2 (append g h s (read h t)).1 (xs ++ read h0 t) := by
  have e := read_mono ho.pre ht
  have := append_owned g ho (read h t)
  rw [e] at this ⊢
  exact this

omit [Inhabited α] in
theorem copy_old {h0 h : Heap α} {s t : Slice} {xs : List α} (ho : Owned h0 h s xs) (ht : WF h0 t) :
    Owned h0 (copy h s (read h t)) s (overwrite xs 0 ((read h0 t).take s.len)) := by
  have e := read_mono ho.pre ht
  rw [e]; exact copy_owned ho _

omit [Inhabited α] in
theorem copy_upto_old {h0 h : Heap α} {s t : Slice} {xs : List α} (ho : Owned h0 h s xs) (ht : WF h0 t)
    {hi : Nat} (hh : hi ≤ s.len) :
    Owned h0 (copy h (s.upto hi) (read h t)) s (overwrite xs 0 ((read h0 t).take hi)) := by
  have e := read_mono ho.pre ht
  rw [e]; exact copy_upto_owned ho hi _ hh

omit [Inhabited α] in
theorem copy_since_old {h0 h : Heap α} {s t : Slice} {xs : List α} (ho : Owned h0 h s xs) (ht : WF h0 t)
    {p : Nat} (hh : p ≤ s.len) :
    Owned h0 (copy h (s.since p) (read h t)) s (overwrite xs p ((read h0 t).take (s.len - p))) := by
  have e := read_mono ho.pre ht
  rw [e]; exact copy_since_owned ho p _ hh

theorem spliceMem_owned (g : Grow) {h : Heap α} {p q : Slice} {pos : Nat} (hp : WF h p) (hq : WF h q)
    (hpos : pos ≤ p.len) :
    Owned h (spliceMem g h p pos q).2 (spliceMem g h p pos q).1
      ((read h p).take pos ++ read h q ++ (read h p).drop pos) := by
  have o := append_old g (append_old g (append_old g
    (mk_owned (List.prefix_refl h) (Nat.zero_le (p.len + q.len))) (wf_upto hp hpos)) hq) (wf_since hp hpos)
  exact o.cast (by rw [read_upto pos hpos, read_since hp]; simp)

theorem rotMem_owned (g : Grow) {h : Heap α} {q : Slice} {m : Nat} (hq : WF h q) (hm : m ≤ q.len) :
    Owned h (rotMem g h q m).2 (rotMem g h q m).1 ((read h q).drop m ++ (read h q).take m) := by
  have o := append_old g (append_old g
    (mk_owned (List.prefix_refl h) (Nat.zero_le q.len)) (wf_since hq hm)) (wf_upto hq hm)
  exact o.cast (by rw [read_upto m hm, read_since hq]; simp)

theorem cutMem_owned {h : Heap α} {q : Slice} {offset length : Nat} (hq : WF h q)
    (hle : offset + length ≤ q.len) :
    Owned h (cutMem h q offset length).2 (cutMem h q offset length).1
      ((read h q).take offset ++ (read h q).drop (offset + length)) := by
  have hl := length_read hq
  have o0 := mk_owned (List.prefix_refl h) (Nat.le_refl (q.len - length))
  have o := copy_since_old (copy_upto_old o0 (wf_upto hq (by omega : offset ≤ q.len))
    (by show offset ≤ q.len - length; omega)) (wf_since hq hle) (p := offset)
      (by show offset ≤ q.len - length; omega)
  refine o.cast ?_
  show overwrite (overwrite (List.replicate (q.len - length) default) 0
      (List.take offset (read h (q.upto offset)))) offset
      (List.take (q.len - length - offset) (read h (q.since (offset + length)))) = _
  rw [read_upto offset (by omega), read_since hq]
  generalize read h q = R at hl ⊢
  have l1 : (R.take offset).length = offset := by rw [List.length_take]; omega
  have l2 : (R.drop (offset + length)).length = q.len - length - offset := by
    rw [List.length_drop]; omega
  rw [List.take_take, Nat.min_self]
  generalize R.take offset = A at l1 ⊢
  generalize R.drop (offset + length) = B at l2 ⊢
  rw [overwrite_zero, overwrite_after' _ _ _ l1, List.take_of_length_le (by omega), List.drop_drop,
    List.drop_of_length_le (by simp; omega)]
  simp

theorem subMem_owned {h : Heap α} {q : Slice} {start end_ : Nat} (hq : WF h q) (h1 : start ≤ end_)
    (h2 : end_ ≤ q.len) :
    Owned h (subMem h q start end_).2 (subMem h q start end_).1
      (((read h q).drop start).take (end_ - start)) := by
  have hl := length_read hq
  have o := copy_old (mk_owned (List.prefix_refl h) (Nat.le_refl (end_ - start)))
    (wf_slice hq h1 (by unfold WF at hq; omega))
  refine o.cast ?_
  rw [read_slice start end_ h2]
  have l1 : (((read h q).take end_).drop start).length = end_ - start := by simp; omega
  rw [overwrite_full _ _ (by simp [mk]; omega), List.take_of_length_le (by simp [mk]; omega),
    List.drop_take]

theorem revMem_owned {h : Heap α} {q : Slice} (hq : WF h q) :
    Owned h (revMem h q).2 (revMem h q).1 (read h q).reverse := by
  have hl := length_read hq
  have o1 := copy_old (mk_owned (List.prefix_refl h) (Nat.le_refl q.len)) hq
  have e1 : overwrite (List.replicate q.len (default : α)) 0 ((read h q).take (mk h q.len q.len).1.len)
      = read h q := by
    rw [overwrite_full _ _ (by simp [mk]; omega), List.take_of_length_le (by simp [mk]; omega)]
  have o1' := o1.cast e1
  have o2 := write_owned o1' 0 (read h q).reverse (by simp [mk]; omega)
  rw [Nat.add_zero, overwrite_full _ _ (by simp)] at o2
  have e2 := o1'.rd
  unfold revMem
  simp only []
  rw [e2]
  exact o2

theorem replMem_owned (f : α → α) {h : Heap α} {p : Slice} (hp : WF h p) :
    Owned h (replMem f h p).2 (replMem f h p).1 ((read h p).map f) := by
  have hl := length_read hp
  have o0 := mk_owned (List.prefix_refl h) (Nat.le_refl p.len)
  have e := read_mono o0.pre hp
  have o1 := write_owned o0 0 ((read h p).map f) (by simp [mk]; omega)
  rw [Nat.add_zero, overwrite_full _ _ (by simp; omega)] at o1
  unfold replMem
  simp only []
  rw [e]
  exact o1

/-- the `Concat` loop over the tail, started from an owned `p` -/
theorem catFold_owned (g : Grow) {h0 : Heap α} (tail : List Slice) (ht : ∀ q ∈ tail, WF h0 q)
    (st : Slice × Heap α) (xs : List α) (ho : Owned h0 st.2 st.1 xs) :
    Owned h0 (tail.foldl (fun (st : Slice × Heap α) q => append g st.2 st.1 (read st.2 q)) st).2
      (tail.foldl (fun (st : Slice × Heap α) q => append g st.2 st.1 (read st.2 q)) st).1
      (xs ++ (tail.map (read h0)).flatten) := by
  induction tail generalizing st xs with
  | nil => simpa using ho
  | cons q tail ih =>
    simp only [List.foldl_cons, List.map_cons, List.flatten_cons]
    have := ih (fun q' hq' => ht q' (List.mem_cons_of_mem _ hq')) _ _
      (append_old g ho (ht q (List.mem_cons_self ..)))
    rw [List.append_assoc] at this
    exact this

theorem catMem_owned (g : Grow) {h : Heap α} {head : Slice} (tail : List Slice) (hh : WF h head)
    (ht : ∀ q ∈ tail, WF h q) :
    Owned h (catMem g h head tail).2 (catMem g h head tail).1
      (read h head ++ (tail.map (read h)).flatten) := by
  have o := append_old g (nil_owned (List.prefix_refl h)) hh
  rw [List.nil_append] at o
  exact catFold_owned g tail ht _ _ o

end bytes

/-! ### feature tables -/

section tables
variable {φ : Type} [Inhabited φ]

/-- sorted insertion on values: split at `pos` -/
def insPure (pos : List φ → φ → Nat) (acc : List φ) (f : φ) : List φ :=
  acc.take (pos acc f) ++ f :: acc.drop (pos acc f)

theorem tabInsert_owned (pos : List φ → φ → Nat) (hpos : ∀ l f, pos l f ≤ l.length) {h : Heap φ}
    {ff : Slice} (f : φ) (hff : WF h ff) :
    Owned h (tabInsert pos h ff f).2 (tabInsert pos h ff f).1 (insPure pos (read h ff) f) := by
  have hl := length_read hff
  have hi : pos (read h ff) f ≤ ff.len := hl ▸ hpos _ _
  generalize hie : pos (read h ff) f = i at hi
  have o0 := mk_owned (List.prefix_refl h) (Nat.le_refl (ff.len + 1))
  have o1 := copy_old o0 (wf_upto hff hi)
  have o2 := store_owned o1 i f (by show i < ff.len + 1; omega)
  have o3 := copy_since_old o2 (wf_since hff hi) (p := i + 1) (by show i + 1 ≤ ff.len + 1; omega)
  unfold tabInsert insPure
  simp only []
  rw [hie]
  refine o3.cast ?_
  show overwrite (overwrite (overwrite (List.replicate (ff.len + 1) default) 0
      (List.take (ff.len + 1) (read h (ff.upto i)))) i [f]) (i + 1)
      (List.take (ff.len + 1 - (i + 1)) (read h (ff.since i))) = _
  rw [read_upto i hi, read_since hff]
  generalize read h ff = R at hl ⊢
  have l1 : (R.take i).length = i := by rw [List.length_take]; omega
  have l2 : (R.drop i).length = ff.len - i := by rw [List.length_drop]; omega
  generalize R.take i = A at l1 ⊢
  generalize R.drop i = B at l2 ⊢
  have l3 : (A ++ [f]).length = i + 1 := by simp [l1]
  rw [List.take_of_length_le (by omega), overwrite_zero, overwrite_after' _ _ _ l1,
    overwrite_after' _ _ _ l3, List.take_of_length_le (by omega), List.drop_drop, List.drop_drop,
    List.drop_of_length_le (by simp; omega)]
  simp

theorem tabCopy_owned {h : Heap φ} {src : Slice} (hs : WF h src) :
    Owned h (tabCopy h src).2 (tabCopy h src).1 (read h src) := by
  have hl := length_read hs
  have o := copy_old (mk_owned (List.prefix_refl h) (Nat.le_refl src.len)) hs
  refine o.cast ?_
  rw [overwrite_full _ _ (by simp [mk]; omega), List.take_of_length_le (by simp [mk]; omega)]

theorem tabFilter_owned (p : φ → Bool) {h : Heap φ} {ff : Slice} :
    Owned h (tabFilter p h ff).2 (tabFilter p h ff).1 ((read h ff).filter p) := by
  have o0 := mk_owned (List.prefix_refl h) (Nat.le_refl ((read h ff).filter p).length)
  have o1 := write_owned o0 0 ((read h ff).filter p) (by simp [mk])
  rw [Nat.add_zero, overwrite_full _ _ (by simp)] at o1
  exact o1

theorem tabMapFresh_owned (T : φ → φ) {h : Heap φ} {src : Slice} (hs : WF h src) :
    Owned h (tabMapFresh T h src).2 (tabMapFresh T h src).1 ((read h src).map T) :=
  replMem_owned T hs

omit [Inhabited φ] in
theorem load_eq_read {h : Heap φ} {s : Slice} {i : Nat} (hi : i < s.len) :
    load h s i = (read h s)[i]? := by
  rw [getElem?_read, if_pos hi]; rfl

omit [Inhabited φ] in
/-- `for i, f := range ff { ff[i] = T(f) }` on an owned table -/
theorem mapLoop_owned (T : φ → φ) {h0 : Heap φ} {s : Slice} (todo : List φ) :
    ∀ (done : List φ) (h : Heap φ), Owned h0 h s (done ++ todo) →
      Owned h0 (mapLoop T s todo.length done.length h) s (done ++ todo.map T) := by
  induction todo with
  | nil => intro done h ho; simpa [mapLoop] using ho
  | cons x rest ih =>
    intro done h ho
    have hl := length_read ho.wf
    rw [ho.rd] at hl
    have hi : done.length < s.len := by rw [← hl]; simp
    have hld : load h s done.length = some x := by
      rw [load_eq_read hi, ho.rd]; simp
    simp only [List.length_cons, mapLoop, hld]
    have o1 := store_owned ho done.length (T x) hi
    have e : overwrite (done ++ x :: rest) done.length [T x] = (done ++ [T x]) ++ rest := by
      rw [overwrite_after]; simp
    have := ih (done ++ [T x]) _ (o1.cast e)
    simpa using this

/-- the insertion loop with the current `ff.Insert`: every iteration allocates a fresh table -/
theorem insertLoop_spec (pos : List φ → φ → Nat) (hpos : ∀ l f, pos l f ≤ l.length) (T : φ → φ)
    {h0 : Heap φ} {src : Slice} (hsrc : WF h0 src) (todo : List φ) :
    ∀ (done : List φ) (ff : Slice) (h : Heap φ), h0 <+: h → WF h ff → read h0 src = done ++ todo →
      h0 <+: (insertLoop (tabInsert pos) T src todo.length done.length ff h).2 ∧
      WF (insertLoop (tabInsert pos) T src todo.length done.length ff h).2
        (insertLoop (tabInsert pos) T src todo.length done.length ff h).1 ∧
      read (insertLoop (tabInsert pos) T src todo.length done.length ff h).2
        (insertLoop (tabInsert pos) T src todo.length done.length ff h).1
        = (todo.map T).foldl (insPure pos) (read h ff) := by
  induction todo with
  | nil => intro done ff h hp hff _; exact ⟨hp, hff, rfl⟩
  | cons x rest ih =>
    intro done ff h hp hff hrd
    have hl := length_read hsrc
    rw [hrd] at hl
    have hi : done.length < src.len := by rw [← hl]; simp
    have hld : load h src done.length = some x := by
      rw [load_eq_read hi, read_mono hp hsrc, hrd]; simp
    simp only [List.length_cons, insertLoop, hld, List.map_cons, List.foldl_cons]
    have o := tabInsert_owned pos hpos (T x) hff
    have := ih (done ++ [x]) _ _ (hp.trans o.pre) o.wf (by simpa using hrd)
    rw [o.rd] at this
    simpa using this

end tables

/-! ### FRAME, without any hypothesis on the slices involved

Every write of the current operations goes into an array the operation allocated itself (or, for
`append` on the `nil` slice, nowhere); this needs no well-formedness of the arguments. -/

section frame
variable {β : Type} [Inhabited β]

theorem frame_mk {h0 h : Heap β} (hp : h0 <+: h) (n c : Nat) :
    h0 <+: (mk h n c).2 ∧ h0.length ≤ (mk h n c).1.arr :=
  ⟨prefix_snoc hp _, hp.length_le⟩

theorem frame_append (g : Grow) {h0 h : Heap β} {s : Slice} (hp : h0 <+: h)
    (hf : Fresh h0.length s) (xs : List β) :
    h0 <+: (append g h s xs).2 ∧ Fresh h0.length (append g h s xs).1 := by
  unfold Heap.append
  split
  · rename_i hfit
    cases hf with
    | inl ha => exact ⟨prefix_write hp ha _ _, Or.inl ha⟩
    | inr hc =>
      have : xs = [] := by
        cases xs with
        | nil => rfl
        | cons x xs => simp at hfit; omega
      subst this
      rw [write_nil]
      exact ⟨hp, Or.inr hc⟩
  · exact ⟨prefix_snoc hp _, Or.inl hp.length_le⟩

omit [Inhabited β] in
theorem frame_copy {h0 h : Heap β} (hp : h0 <+: h) {dst : Slice} (ha : h0.length ≤ dst.arr)
    (xs : List β) : h0 <+: copy h dst xs := prefix_write hp ha _ _

omit [Inhabited β] in
theorem frame_store {h0 h : Heap β} (hp : h0 <+: h) {s : Slice} (ha : h0.length ≤ s.arr) (i : Nat)
    (x : β) : h0 <+: store h s i x := prefix_write hp ha _ _

theorem spliceMem_frame (g : Grow) {h0 h : Heap β} (hp : h0 <+: h) (p : Slice) (pos : Nat) (q : Slice) :
    h0 <+: (spliceMem g h p pos q).2 := by
  have m := frame_mk hp 0 (p.len + q.len)
  have a1 := frame_append g m.1 (Or.inl m.2) (read (mk h 0 (p.len + q.len)).2 (p.upto pos))
  have a2 := frame_append g a1.1 a1.2 (read (append g (mk h 0 (p.len + q.len)).2 (mk h 0 (p.len + q.len)).1
    (read (mk h 0 (p.len + q.len)).2 (p.upto pos))).2 q)
  exact (frame_append g a2.1 a2.2 _).1

theorem cutMem_frame {h0 h : Heap β} (hp : h0 <+: h) (q : Slice) (offset length : Nat) :
    h0 <+: (cutMem h q offset length).2 := by
  have m := frame_mk hp (q.len - length) (q.len - length)
  exact frame_copy (frame_copy m.1 (dst := (mk h (q.len - length) (q.len - length)).1.upto offset) m.2 _)
    (dst := (mk h (q.len - length) (q.len - length)).1.since offset) m.2 _

theorem rotMem_frame (g : Grow) {h0 h : Heap β} (hp : h0 <+: h) (q : Slice) (m : Nat) :
    h0 <+: (rotMem g h q m).2 := by
  have m0 := frame_mk hp 0 q.len
  have a1 := frame_append g m0.1 (Or.inl m0.2) (read (mk h 0 q.len).2 (q.since m))
  exact (frame_append g a1.1 a1.2 _).1

theorem subMem_frame {h0 h : Heap β} (hp : h0 <+: h) (q : Slice) (start end_ : Nat) :
    h0 <+: (subMem h q start end_).2 := by
  have m := frame_mk hp (end_ - start) (end_ - start)
  exact frame_copy m.1 m.2 _

theorem revMem_frame {h0 h : Heap β} (hp : h0 <+: h) (q : Slice) : h0 <+: (revMem h q).2 := by
  have m := frame_mk hp q.len q.len
  exact prefix_write (frame_copy m.1 m.2 _) m.2 _ _

theorem replMem_frame (f : β → β) {h0 h : Heap β} (hp : h0 <+: h) (p : Slice) :
    h0 <+: (replMem f h p).2 := by
  have m := frame_mk hp p.len p.len
  exact prefix_write m.1 m.2 _ _

theorem catFold_frame (g : Grow) {h0 : Heap β} (tail : List Slice) (st : Slice × Heap β)
    (hp : h0 <+: st.2) (hf : Fresh h0.length st.1) :
    h0 <+: (tail.foldl (fun (st : Slice × Heap β) q => append g st.2 st.1 (read st.2 q)) st).2 := by
  induction tail generalizing st with
  | nil => exact hp
  | cons q tail ih =>
    have a := frame_append g hp hf (read st.2 q)
    exact ih _ a.1 a.2

theorem catMem_frame (g : Grow) {h0 h : Heap β} (hp : h0 <+: h) (head : Slice) (tail : List Slice) :
    h0 <+: (catMem g h head tail).2 := by
  have a := frame_append g hp (Or.inr rfl : Fresh h0.length Slice.nil) (read h head)
  exact catFold_frame g tail _ a.1 a.2

theorem tabInsert_frame (pos : List β → β → Nat) {h0 h : Heap β} (hp : h0 <+: h) (ff : Slice) (f : β) :
    h0 <+: (tabInsert pos h ff f).2 ∧ h0.length ≤ (tabInsert pos h ff f).1.arr := by
  have m := frame_mk hp (ff.len + 1) (ff.len + 1)
  refine ⟨?_, m.2⟩
  exact frame_copy (frame_store (frame_copy m.1 m.2 _) m.2 _ _)
    (dst := (mk h (ff.len + 1) (ff.len + 1)).1.since (pos (read h ff) f + 1)) m.2 _

theorem tabCopy_frame {h0 h : Heap β} (hp : h0 <+: h) (src : Slice) :
    h0 <+: (tabCopy h src).2 ∧ h0.length ≤ (tabCopy h src).1.arr := by
  have m := frame_mk hp src.len src.len
  exact ⟨frame_copy m.1 m.2 _, m.2⟩

theorem tabFilter_frame (p : β → Bool) {h0 h : Heap β} (hp : h0 <+: h) (ff : Slice) :
    h0 <+: (tabFilter p h ff).2 ∧ h0.length ≤ (tabFilter p h ff).1.arr := by
  have m := frame_mk hp ((read h ff).filter p).length ((read h ff).filter p).length
  exact ⟨prefix_write m.1 m.2 _ _, m.2⟩

theorem tabMapFresh_frame (T : β → β) {h0 h : Heap β} (hp : h0 <+: h) (src : Slice) :
    h0 <+: (tabMapFresh T h src).2 := replMem_frame T hp src

omit [Inhabited β] in
theorem mapLoop_frame (T : β → β) {h0 : Heap β} {s : Slice} (ha : h0.length ≤ s.arr) (n : Nat) :
    ∀ (i : Nat) (h : Heap β), h0 <+: h → h0 <+: mapLoop T s n i h := by
  induction n with
  | zero => intro i h hp; exact hp
  | succ n ih =>
    intro i h hp
    unfold mapLoop
    split
    · exact ih _ _ (frame_store hp ha _ _)
    · exact hp

theorem insertLoop_frame (pos : List β → β → Nat) (T : β → β) {h0 : Heap β} (src : Slice) (n : Nat) :
    ∀ (i : Nat) (ff : Slice) (h : Heap β), h0 <+: h →
      h0 <+: (insertLoop (tabInsert pos) T src n i ff h).2 := by
  induction n with
  | zero => intro i ff h hp; exact hp
  | succ n ih =>
    intro i ff h hp
    unfold insertLoop
    split
    · exact ih _ _ _ (tabInsert_frame pos hp ff _).1
    · exact hp

end frame

/-! ### the concrete position function -/

theorem insertPos_le (ff : Table) (f : Feature) : insertPos ff f ≤ ff.length := by
  unfold insertPos
  simp only []
  have h1 := Table.sourceCount_le ff
  have key : ∀ n fn, sortSearch n fn ≤ n := fun n fn => (sortSearch_general n fn).1
  split
  · exact Nat.le_trans (Nat.add_le_add_left (key _ _) _) (by omega)
  · exact h1

theorem insPure_insertPos : insPure insertPos = Table.insert := by
  funext ff f
  rfl

theorem rotAmount_nonneg (L n : Int) (hL : 0 < L) : 0 ≤ rotAmount L n := by
  unfold rotAmount
  apply Int.tmod_nonneg
  by_cases hn : n < 0
  · rw [if_pos hn]
    have h1 := Int.emod_add_ediv_mul (-n + L - 1) L
    have h2 := Int.emod_lt_of_pos (-n + L - 1) hL
    generalize (-n + L - 1) / L * L = qL at *
    omega
  · rw [if_neg hn]; omega

/-! ### results of helpers, results of operations -/

/-- the result `r` of a helper: the heap extends `h0`, the returned slice is well formed and
reads `v` -/
structure Part {α : Type} (h0 : Heap α) (r : Slice × Heap α) (v : List α) : Prop where
  pre : h0 <+: r.2
  wf : WF r.2 r.1
  rd : read r.2 r.1 = v

theorem Owned.part {α : Type} {h0 : Heap α} {r : Slice × Heap α} {xs : List α}
    (ho : Owned h0 r.2 r.1 xs) : Part h0 r xs := ⟨ho.pre, ho.wf, ho.rd⟩

theorem Part.cast {α : Type} {h0 : Heap α} {r : Slice × Heap α} {v v' : List α} (p : Part h0 r v)
    (e : v = v') : Part h0 r v' := e ▸ p

section tables2
variable {φ : Type} [Inhabited φ]

theorem insertLoop_all (pos : List φ → φ → Nat) (hpos : ∀ l f, pos l f ≤ l.length) (T : φ → φ)
    {h0 h : Heap φ} {src ff : Slice} (hsrc : WF h0 src) (hp : h0 <+: h) (hff : WF h ff) :
    Part h0 (insertLoop (tabInsert pos) T src src.len 0 ff h)
      (((read h0 src).map T).foldl (insPure pos) (read h ff)) := by
  have := insertLoop_spec pos hpos T hsrc (read h0 src) [] ff h hp hff rfl
  rw [length_read hsrc] at this
  exact ⟨this.1, this.2.1, this.2.2⟩

omit [Inhabited φ] in
theorem mapLoop_all (T : φ → φ) {h0 h : Heap φ} {s : Slice} {xs : List φ} (ho : Owned h0 h s xs) :
    Owned h0 (mapLoop T s s.len 0 h) s (xs.map T) := by
  have hl := length_read ho.wf
  rw [ho.rd] at hl
  have := mapLoop_owned T xs [] h (by simpa using ho)
  rw [hl] at this
  simpa using this

end tables2

/-- FRAME + the result is well formed + REFINEMENT: the result reads as the value `v` -/
structure Spec (w : World Feature) (r : MSeq × World Feature) (v : Seq) : Prop where
  frame : Frame w r.2
  wf : WFSeq r.2 r.1
  rd : readSeq r.2 r.1 = v

theorem Spec.cast {w : World Feature} {r : MSeq × World Feature} {v v' : Seq} (s : Spec w r v)
    (e : v = v') : Spec w r v' := e ▸ s

theorem Spec.ofParts {w : World Feature} {t : Slice × Heap Feature} {b : Slice × Heap UInt8}
    {vt : List Feature} {vb : List UInt8} (pt : Part w.T t vt) (pb : Part w.B b vb) :
    Spec w (⟨t.1, b.1⟩, ⟨b.2, t.2⟩) ⟨vt, vb⟩ :=
  ⟨⟨pb.pre, pt.pre⟩, ⟨pt.wf, pb.wf⟩, by simp [readSeq, World.readTab, World.readDat, pt.rd, pb.rd]⟩

theorem Frame.refl {φ : Type} (w : World φ) : Frame w w := ⟨List.prefix_refl _, List.prefix_refl _⟩

theorem Frame.trans {φ : Type} {a b c : World φ} (h1 : Frame a b) (h2 : Frame b c) : Frame a c :=
  ⟨h1.1.trans h2.1, h1.2.trans h2.2⟩

theorem WFSeq.mono {φ : Type} {w w' : World φ} (hf : Frame w w') {s : MSeq} (hs : WFSeq w s) :
    WFSeq w' s := ⟨wf_mono hf.2 hs.1, wf_mono hf.1 hs.2⟩

theorem readSeq_mono {w w' : World Feature} (hf : Frame w w') {s : MSeq} (hs : WFSeq w s) :
    readSeq w' s = readSeq w s := by
  simp [readSeq, World.readTab, World.readDat, read_mono hf.2 hs.1, read_mono hf.1 hs.2]

theorem len_readSeq {w : World Feature} {s : MSeq} (hs : WFSeq w s) : (readSeq w s).len = s.len := by
  simp [Seq.len, readSeq, World.readDat, MSeq.len, length_read hs.2]

/-! ### `asComplete` on a freshly built location -/

theorem mem_overwrite {α : Type} {A : List α} {p : Nat} {ys : List α} {x : α}
    (hx : x ∈ overwrite A p ys) : x ∈ A ∨ x ∈ ys := by
  unfold overwrite at hx
  rcases List.mem_append.1 hx with h | h
  · rcases List.mem_append.1 h with h | h
    · exact Or.inl (List.mem_of_mem_take h)
    · exact Or.inr h
  · exact Or.inl (List.mem_of_mem_drop h)

theorem closed_store {n : Nat} {h : Heap MLoc} (hc : Closed n h) (s : Slice) (i : Nat) {c : MLoc}
    (hcr : RefsAbove n c) : Closed n (store h s i c) := by
  intro a ha x hx
  unfold store at hx
  by_cases hab : s.arr = a
  · subst hab
    by_cases hl : s.arr < h.length
    · rw [get_write_eq _ _ _ hl] at hx
      rcases mem_overwrite hx with h1 | h1
      · exact hc _ ha x h1
      · simp at h1; exact h1 ▸ hcr
    · rw [get_of_le (by rw [length_write]; omega)] at hx
      cases hx
  · rw [get_write_ne _ _ _ hab] at hx
    exact hc a ha x hx

theorem mem_of_load {h : Heap MLoc} {s : Slice} {i : Nat} {u : MLoc} (hl : load h s i = some u) :
    u ∈ h.get s.arr := List.mem_of_getElem? hl

theorem acLoop_closed {h0 : Heap MLoc} (rec : Heap MLoc → MLoc → MLoc × Heap MLoc)
    (hrec : ∀ h m, h0 <+: h → Closed h0.length h → RefsAbove h0.length m →
      h0 <+: (rec h m).2 ∧ Closed h0.length (rec h m).2 ∧ RefsAbove h0.length (rec h m).1)
    (s : Slice) (hs : h0.length ≤ s.arr) (k : Nat) :
    ∀ (i : Nat) (h : Heap MLoc), h0 <+: h → Closed h0.length h →
      h0 <+: acLoop rec s k i h ∧ Closed h0.length (acLoop rec s k i h) := by
  induction k with
  | zero => intro i h hp hc; exact ⟨hp, hc⟩
  | succ k ih =>
    intro i h hp hc
    unfold acLoop
    split
    · rename_i u hu
      have hr := hrec h u hp hc (hc _ hs u (mem_of_load hu))
      exact ih _ _ (prefix_write hr.1 hs _ _) (closed_store hr.2.1 s i hr.2.2)
    · exact ⟨hp, hc⟩

/-- `asComplete` only writes through slices it can reach: in a heap whose arrays `≥ |h0|` refer
only to arrays `≥ |h0|`, called on a location that refers only to such arrays, it leaves `h0`
alone — whatever the nesting and the aliasing inside the new region -/
theorem asCompleteMem_closed {h0 : Heap MLoc} (fuel : Nat) :
    ∀ (h : Heap MLoc) (m : MLoc), h0 <+: h → Closed h0.length h → RefsAbove h0.length m →
      h0 <+: (asCompleteMem fuel h m).2 ∧ Closed h0.length (asCompleteMem fuel h m).2 ∧
      RefsAbove h0.length (asCompleteMem fuel h m).1 := by
  induction fuel with
  | zero => intro h m hp hc hm; exact ⟨hp, hc, hm⟩
  | succ fuel ih =>
    intro h m hp hc hm
    cases m with
    | leaf l => exact ⟨hp, hc, trivial⟩
    | joined s =>
      have := acLoop_closed (asCompleteMem fuel) ih s hm s.len 0 h hp hc
      exact ⟨this.1, this.2, hm⟩
    | ordered s =>
      have := acLoop_closed (asCompleteMem fuel) ih s hm s.len 0 h hp hc
      exact ⟨this.1, this.2, hm⟩
    | compl m =>
      have := ih h m hp hc hm
      exact ⟨this.1, this.2.1, this.2.2⟩

theorem closed_snoc {n : Nat} {h : Heap MLoc} (hc : Closed n h) {cells : List MLoc}
    (hcells : ∀ c ∈ cells, RefsAbove n c) : Closed n (h ++ [cells]) := by
  intro a ha x hx
  by_cases h1 : a < h.length
  · rw [get_append_left h1] at hx; exact hc a ha x hx
  · by_cases h2 : a = h.length
    · subst h2; rw [get_append_length] at hx; exact hcells x hx
    · rw [get_of_le (by simp; omega)] at hx; cases hx

mutual
/-- a freshly built location lies in new arrays and refers only to new arrays -/
theorem allocLoc_closed : ∀ (l : Loc) (h : Heap MLoc) (n : Nat), n ≤ h.length → Closed n h →
    h <+: (allocLoc l h).2 ∧ Closed n (allocLoc l h).2 ∧ RefsAbove n (allocLoc l h).1
  | .between _, h, n, _, hc => ⟨List.prefix_refl _, hc, trivial⟩
  | .point _, h, n, _, hc => ⟨List.prefix_refl _, hc, trivial⟩
  | .ranged .., h, n, _, hc => ⟨List.prefix_refl _, hc, trivial⟩
  | .ambiguous .., h, n, _, hc => ⟨List.prefix_refl _, hc, trivial⟩
  | .joined ls, h, n, hn, hc => by
    have ih := allocList_closed ls h n hn hc
    unfold allocLoc
    exact ⟨prefix_snoc ih.1 _, closed_snoc ih.2.1 ih.2.2, Nat.le_trans hn ih.1.length_le⟩
  | .ordered ls, h, n, hn, hc => by
    have ih := allocList_closed ls h n hn hc
    unfold allocLoc
    exact ⟨prefix_snoc ih.1 _, closed_snoc ih.2.1 ih.2.2, Nat.le_trans hn ih.1.length_le⟩
  | .compl l, h, n, hn, hc => by
    have ih := allocLoc_closed l h n hn hc
    unfold allocLoc
    exact ih
theorem allocList_closed : ∀ (ls : List Loc) (h : Heap MLoc) (n : Nat), n ≤ h.length → Closed n h →
    h <+: (allocList ls h).2 ∧ Closed n (allocList ls h).2 ∧ ∀ c ∈ (allocList ls h).1, RefsAbove n c
  | [], h, n, _, hc => ⟨List.prefix_refl _, hc, fun _ hx => by cases hx⟩
  | l :: ls, h, n, hn, hc => by
    have i1 := allocLoc_closed l h n hn hc
    have i2 := allocList_closed ls (allocLoc l h).2 n (Nat.le_trans hn i1.1.length_le) i1.2.1
    unfold allocList
    refine ⟨i1.1.trans i2.1, i2.2.1, ?_⟩
    intro c hcm
    rcases List.mem_cons.1 hcm with e | e
    · subst e
      -- the head was built in the smaller heap; `RefsAbove` does not depend on the heap
      exact i1.2.2
    · exact i2.2.2 c e
end

theorem closed_self (h : Heap MLoc) : Closed h.length h := by
  intro a ha x hx
  rw [get_of_le ha] at hx
  cases hx

/-! ### `Props`: what the mutators can reach -/

theorem mem_get_store {α : Type} {h : Heap α} {s : Slice} {i a : Nat} {c x : α}
    (hx : x ∈ (store h s i c).get a) : x ∈ h.get a ∨ x = c := by
  unfold store at hx
  by_cases hab : s.arr = a
  · subst hab
    by_cases hl : s.arr < h.length
    · rw [get_write_eq _ _ _ hl] at hx
      rcases mem_overwrite hx with h1 | h1
      · exact Or.inl h1
      · simp at h1; exact Or.inr h1
    · rw [get_of_le (by rw [length_write]; omega)] at hx
      cases hx
  · rw [get_write_ne _ _ _ hab] at hx
    exact Or.inl hx

theorem mem_of_load' {α : Type} {h : Heap α} {s : Slice} {i : Nat} {u : α} (hl : load h s i = some u) :
    u ∈ h.get s.arr := List.mem_of_getElem? hl

/-- the outer array of `p` was allocated after mark `nP`, and every row header in it points at an
array allocated after mark `nR` (or owns no cell) -/
def FreshProps (nR nP : Nat) (w : PWorld) (p : Slice) : Prop :=
  nP ≤ p.arr ∧ ∀ row ∈ w.P.get p.arr, Fresh nR row

theorem propsSet_frame (g : Grow) {R0 : Heap String} {P0 : Heap Slice} {w : PWorld} {p : Slice}
    (hR : R0 <+: w.R) (hP : P0 <+: w.P) (hf : FreshProps R0.length P0.length w p) (key : String)
    (values : List String) :
    R0 <+: (propsSet g w p key values).2.R ∧ P0 <+: (propsSet g w p key values).2.P := by
  have hR1 : R0 <+: write (mk w.R (values.length + 1) (values.length + 1)).2
      (mk w.R (values.length + 1) (values.length + 1)).1.arr
      (mk w.R (values.length + 1) (values.length + 1)).1.off (key :: values) :=
    prefix_write (prefix_snoc hR _) hR.length_le _ _
  unfold propsSet
  split
  · exact ⟨hR1, (frame_append g hP (Or.inl hf.1) _).1⟩
  · exact ⟨hR1, prefix_write hP hf.1 _ _⟩

theorem propsAdd_frame (g : Grow) {R0 : Heap String} {P0 : Heap Slice} {w : PWorld} {p : Slice}
    (hR : R0 <+: w.R) (hP : P0 <+: w.P) (hf : FreshProps R0.length P0.length w p) (key : String)
    (values : List String) :
    R0 <+: (propsAdd g w p key values).2.R ∧ P0 <+: (propsAdd g w p key values).2.P := by
  unfold propsAdd
  split
  · exact propsSet_frame g hR hP hf key values
  · split
    · rename_i row hrow
      exact ⟨(frame_append g hR (hf.2 row (mem_of_load' hrow)) _).1, prefix_write hP hf.1 _ _⟩
    · exact ⟨hR, hP⟩

theorem propsDel_frame (g : Grow) {R0 : Heap String} {P0 : Heap Slice} {w : PWorld} {p : Slice}
    (hR : R0 <+: w.R) (hP : P0 <+: w.P) (hf : FreshProps R0.length P0.length w p) (key : String) :
    R0 <+: (propsDel g w p key).2.R ∧ P0 <+: (propsDel g w p key).2.P := by
  unfold propsDel
  split
  · exact ⟨hR, hP⟩
  · rename_i i _
    exact ⟨hR, (frame_append g hP (Or.inl hf.1 : Fresh P0.length (p.upto i)) _).1⟩

theorem cloneRows_fresh {R0 : Heap String} {P0 : Heap Slice} (ret : Slice) (hret : P0.length ≤ ret.arr)
    (rows : List Slice) :
    ∀ (i : Nat) (w : PWorld), R0 <+: w.R → P0 <+: w.P → (∀ row ∈ w.P.get ret.arr, Fresh R0.length row) →
      R0 <+: (cloneRows w ret rows i).R ∧ P0 <+: (cloneRows w ret rows i).P ∧
      ∀ row ∈ (cloneRows w ret rows i).P.get ret.arr, Fresh R0.length row := by
  induction rows with
  | nil => intro i w hR hP hc; exact ⟨hR, hP, hc⟩
  | cons row rows ih =>
    intro i w hR hP hc
    unfold cloneRows
    refine ih _ _ (frame_copy (prefix_snoc hR _) (dst := (mk w.R row.len row.len).1) hR.length_le _)
      (prefix_write hP hret _ _) ?_
    intro x hx
    rcases mem_get_store hx with h1 | h1
    · exact hc x h1
    · subst h1; exact Or.inl hR.length_le

theorem propsClone_fresh (w : PWorld) (p : Slice) :
    w.R <+: (propsClone w p).2.R ∧ w.P <+: (propsClone w p).2.P ∧
    FreshProps w.R.length w.P.length (propsClone w p).2 (propsClone w p).1 := by
  have := cloneRows_fresh (R0 := w.R) (P0 := w.P) (mk w.P p.len p.len).1 (Nat.le_refl _) (read w.P p) 0
    ⟨w.R, (mk w.P p.len p.len).2⟩ (List.prefix_refl _) (prefix_snoc (List.prefix_refl _) _)
    (by
      intro row hrow
      have : (mk w.P p.len p.len).2.get (mk w.P p.len p.len).1.arr = List.replicate p.len default :=
        get_append_length _ _
      rw [this] at hrow
      rw [List.eq_of_mem_replicate hrow]
      exact Or.inr rfl)
  exact ⟨this.1, this.2.1, Nat.le_refl _, this.2.2⟩

end Gts.Mem
