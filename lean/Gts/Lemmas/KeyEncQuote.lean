/-
  Helper lemmas for the cache-key encoding (C14), part 2: `strconv.QuoteToASCII` as a sequence of
  TOKENS (one per loop iteration of `appendQuotedWith`), the tokens form a prefix code, a token
  determines the source bytes it was made from; hence `quoteBody` is injective and pure ASCII.
  Core Lean only.
-/
import Gts.Lemmas.KeyEncBits
namespace Gts.KeyEnc

/-! ### generic: codes -/

/-- lists over a class `p` of elements, each followed by a terminator outside the class -/
theorem span_inj {α : Type} (p : α → Prop) (T : α) (hT : ¬ p T) :
    ∀ (l₁ l₂ : List α) (x y : List α), (∀ a ∈ l₁, p a) → (∀ a ∈ l₂, p a) →
      l₁ ++ T :: x = l₂ ++ T :: y → l₁ = l₂ ∧ x = y
  | [], [], x, y, _, _, h => by simpa using h
  | [], b :: l₂, x, y, _, h₂, h => by
    simp only [List.nil_append, List.cons_append, List.cons.injEq] at h
    exact absurd (h.1 ▸ h₂ b (by simp)) hT
  | a :: l₁, [], x, y, h₁, _, h => by
    simp only [List.nil_append, List.cons_append, List.cons.injEq] at h
    exact absurd (h.1 ▸ h₁ a (by simp)) hT
  | a :: l₁, b :: l₂, x, y, h₁, h₂, h => by
    simp only [List.cons_append, List.cons.injEq] at h
    obtain ⟨hl, hx⟩ := span_inj p T hT l₁ l₂ x y (fun c hc => h₁ c (by simp [hc]))
      (fun c hc => h₂ c (by simp [hc])) h.2
    exact ⟨by rw [h.1, hl], hx⟩

/-- a prefix code `f` on a class `P`, no code word beginning with the terminator `T`: the
concatenation of code words followed by `T` determines the words and what follows -/
theorem flatMap_code_inj {α β : Type} (P : α → Prop) (f : α → List β) (T : β)
    (hcode : ∀ a b x y, P a → P b → f a ++ x = f b ++ y → a = b ∧ x = y)
    (hhead : ∀ a, P a → ∃ c t, f a = c :: t ∧ c ≠ T) :
    ∀ (l₁ l₂ : List α) (x y : List β), (∀ a ∈ l₁, P a) → (∀ a ∈ l₂, P a) →
      l₁.flatMap f ++ T :: x = l₂.flatMap f ++ T :: y → l₁ = l₂ ∧ x = y
  | [], [], x, y, _, _, h => by simpa using h
  | [], b :: l₂, x, y, _, h₂, h => by
    obtain ⟨c, t, hc, hne⟩ := hhead b (h₂ b (by simp))
    simp only [List.flatMap_nil, List.nil_append, List.flatMap_cons, hc, List.cons_append,
      List.cons.injEq] at h
    exact absurd h.1.symm hne
  | a :: l₁, [], x, y, h₁, _, h => by
    obtain ⟨c, t, hc, hne⟩ := hhead a (h₁ a (by simp))
    simp only [List.flatMap_nil, List.nil_append, List.flatMap_cons, hc, List.cons_append,
      List.cons.injEq] at h
    exact absurd h.1 hne
  | a :: l₁, b :: l₂, x, y, h₁, h₂, h => by
    simp only [List.flatMap_cons, List.append_assoc] at h
    obtain ⟨hab, hr⟩ := hcode a b _ _ (h₁ a (by simp)) (h₂ b (by simp)) h
    obtain ⟨hl, hx⟩ := flatMap_code_inj P f T hcode hhead l₁ l₂ x y (fun c hc => h₁ c (by simp [hc]))
      (fun c hc => h₂ c (by simp [hc])) hr
    exact ⟨by rw [hab, hl], hx⟩

/-! ### hex digits -/

theorem hexDigit_inj16 : ∀ n m : Fin 16, hexDigit n.1 = hexDigit m.1 → n = m := by decide

theorem hexDigit_inj {n m : Nat} (hn : n < 16) (hm : m < 16) (h : hexDigit n = hexDigit m) : n = m :=
  Fin.mk.inj (hexDigit_inj16 ⟨n, hn⟩ ⟨m, hm⟩ h)

theorem hexDigit_range16 : ∀ n : Fin 16, 0x30 ≤ (hexDigit n.1).toNat ∧ (hexDigit n.1).toNat ≤ 0x66 := by
  decide

theorem hexDigit_range {n : Nat} (hn : n < 16) : 0x30 ≤ (hexDigit n).toNat ∧ (hexDigit n).toNat ≤ 0x66 :=
  hexDigit_range16 ⟨n, hn⟩

/-! ### tokens -/

/-- what one iteration of the quoting loop appends -/
inductive Tok where
  /-- a printable ASCII byte, itself -/
  | plain (c : UInt8)
  /-- backslash and a letter: `\" \\ \a \b \f \n \r \t \v` -/
  | esc (c : UInt8)
  /-- `\xNN` -/
  | hex2 (b : Nat)
  /-- `\uNNNN` -/
  | u4 (r : Nat)
  /-- `\UNNNNNNNN` -/
  | u8 (r : Nat)

def Tok.render : Tok → Bytes
  | .plain c => [c]
  | .esc c => [0x5C, c]
  | .hex2 b => hexEscape b
  | .u4 r => [0x5C, 0x75] ++ hex4 r
  | .u8 r => [0x5C, 0x55] ++ hex8 r

/-- the letters behind a backslash -/
def escLetters : List UInt8 := [0x22, 0x5C, 0x61, 0x62, 0x66, 0x6E, 0x72, 0x74, 0x76]

/-- the byte a backslash letter stands for -/
def unesc (c : UInt8) : UInt8 :=
  if c = 0x61 then 0x07 else if c = 0x62 then 0x08 else if c = 0x66 then 0x0C else if c = 0x6E then 0x0A
  else if c = 0x72 then 0x0D else if c = 0x74 then 0x09 else if c = 0x76 then 0x0B else c

def Tok.wf : Tok → Prop
  | .plain c => 0x20 ≤ c.toNat ∧ c.toNat ≤ 0x7E ∧ c ≠ 0x5C
  | .esc c => c ∈ escLetters
  | .hex2 b => b < 256
  | .u4 r => r < 0x10000
  | .u8 r => r < 0x100000000

theorem hex4_inj {r s : Nat} (hr : r < 0x10000) (hs : s < 0x10000) (h : hex4 r = hex4 s) : r = s := by
  simp only [hex4, Nat.shiftRight_eq_div_pow, and_0F, List.cons.injEq, and_true] at h
  have h3 := hexDigit_inj (Nat.mod_lt _ (by decide)) (Nat.mod_lt _ (by decide)) h.1
  have h2 := hexDigit_inj (Nat.mod_lt _ (by decide)) (Nat.mod_lt _ (by decide)) h.2.1
  have h1 := hexDigit_inj (Nat.mod_lt _ (by decide)) (Nat.mod_lt _ (by decide)) h.2.2.1
  have h0 := hexDigit_inj (Nat.mod_lt _ (by decide)) (Nat.mod_lt _ (by decide)) h.2.2.2
  omega

theorem hex8_inj {r s : Nat} (hr : r < 0x100000000) (hs : s < 0x100000000) (h : hex8 r = hex8 s) :
    r = s := by
  simp only [hex8, hex4, Nat.shiftRight_eq_div_pow, and_0F, List.cons_append, List.nil_append,
    List.cons.injEq, and_true] at h
  have h7 := hexDigit_inj (Nat.mod_lt _ (by decide)) (Nat.mod_lt _ (by decide)) h.1
  have h6 := hexDigit_inj (Nat.mod_lt _ (by decide)) (Nat.mod_lt _ (by decide)) h.2.1
  have h5 := hexDigit_inj (Nat.mod_lt _ (by decide)) (Nat.mod_lt _ (by decide)) h.2.2.1
  have h4 := hexDigit_inj (Nat.mod_lt _ (by decide)) (Nat.mod_lt _ (by decide)) h.2.2.2.1
  have h3 := hexDigit_inj (Nat.mod_lt _ (by decide)) (Nat.mod_lt _ (by decide)) h.2.2.2.2.1
  have h2 := hexDigit_inj (Nat.mod_lt _ (by decide)) (Nat.mod_lt _ (by decide)) h.2.2.2.2.2.1
  have h1 := hexDigit_inj (Nat.mod_lt _ (by decide)) (Nat.mod_lt _ (by decide)) h.2.2.2.2.2.2.1
  have h0 := hexDigit_inj (Nat.mod_lt _ (by decide)) (Nat.mod_lt _ (by decide)) h.2.2.2.2.2.2.2
  omega

theorem hexPair_inj {b c : Nat} (hb : b < 256) (hc : c < 256)
    (h1 : hexDigit (b >>> 4) = hexDigit (c >>> 4)) (h2 : hexDigit (b &&& 0xF) = hexDigit (c &&& 0xF)) :
    b = c := by
  simp only [Nat.shiftRight_eq_div_pow, and_0F] at h1 h2
  have := hexDigit_inj (by omega) (by omega) h1
  have := hexDigit_inj (Nat.mod_lt _ (by decide)) (Nat.mod_lt _ (by decide)) h2
  omega

/-- **the tokens are a prefix code**: a rendered token followed by anything determines the token
and what follows -/
theorem Tok.render_prefix {t₁ t₂ : Tok} (h₁ : t₁.wf) (h₂ : t₂.wf) {x y : Bytes}
    (h : t₁.render ++ x = t₂.render ++ y) : t₁ = t₂ ∧ x = y := by
  cases t₁ <;> cases t₂ <;>
    simp only [Tok.render, hexEscape, List.cons_append, List.nil_append, List.cons.injEq] at h
  case plain.plain => exact ⟨by rw [h.1], h.2⟩
  case plain.esc => exact absurd h.1 h₁.2.2
  case plain.hex2 => exact absurd h.1 h₁.2.2
  case plain.u4 => exact absurd h.1 h₁.2.2
  case plain.u8 => exact absurd h.1 h₁.2.2
  case esc.plain => exact absurd h.1.symm h₂.2.2
  case esc.esc => exact ⟨by rw [h.2.1], h.2.2⟩
  case esc.hex2 c b =>
    have : c ∈ escLetters := h₁
    rw [h.2.1] at this; exact absurd this (by decide)
  case esc.u4 c r =>
    have : c ∈ escLetters := h₁
    rw [h.2.1] at this; exact absurd this (by decide)
  case esc.u8 c r =>
    have : c ∈ escLetters := h₁
    rw [h.2.1] at this; exact absurd this (by decide)
  case hex2.plain => exact absurd h.1.symm h₂.2.2
  case hex2.esc b c =>
    have : c ∈ escLetters := h₂
    rw [← h.2.1] at this; exact absurd this (by decide)
  case hex2.hex2 b c => exact ⟨by rw [hexPair_inj h₁ h₂ h.2.2.1 h.2.2.2.1], h.2.2.2.2⟩
  case hex2.u4 => exact absurd h.2.1 (by decide)
  case hex2.u8 => exact absurd h.2.1 (by decide)
  case u4.plain => exact absurd h.1.symm h₂.2.2
  case u4.esc r c =>
    have : c ∈ escLetters := h₂
    rw [← h.2.1] at this; exact absurd this (by decide)
  case u4.hex2 => exact absurd h.2.1 (by decide)
  case u4.u4 r s =>
    have hl : (hex4 r).length = (hex4 s).length := rfl
    have := List.append_inj h.2.2 hl
    exact ⟨by rw [hex4_inj h₁ h₂ this.1], this.2⟩
  case u4.u8 => exact absurd h.2.1 (by decide)
  case u8.plain => exact absurd h.1.symm h₂.2.2
  case u8.esc r c =>
    have : c ∈ escLetters := h₂
    rw [← h.2.1] at this; exact absurd this (by decide)
  case u8.hex2 => exact absurd h.2.1 (by decide)
  case u8.u4 => exact absurd h.2.1 (by decide)
  case u8.u8 r s =>
    have hl : (hex8 r).length = (hex8 s).length := rfl
    have := List.append_inj h.2.2 hl
    exact ⟨by rw [hex8_inj h₁ h₂ this.1], this.2⟩

/-! ### a token determines its source bytes -/

/-- `Src t s`: the token `t` is what the loop appends when the next rune of the input is `s` -/
inductive Src : Tok → Bytes → Prop
  | plain (c : UInt8) : Src (.plain c) [c]
  | esc (c : UInt8) : Src (.esc c) [unesc c]
  | hex2 (b : UInt8) : Src (.hex2 b.toNat) [b]
  | two (b0 b1 : UInt8) : 0xC2 ≤ b0.toNat → b0.toNat ≤ 0xDF → 0x80 ≤ b1.toNat → b1.toNat ≤ 0xBF →
      Src (.u4 (b0.toNat % 32 * 64 + b1.toNat % 64)) [b0, b1]
  | three (b0 b1 b2 : UInt8) : 0xE0 ≤ b0.toNat → b0.toNat ≤ 0xEF →
      (b0.toNat = 0xE0 → 0xA0 ≤ b1.toNat) →
      0x80 ≤ b1.toNat → b1.toNat ≤ 0xBF → 0x80 ≤ b2.toNat → b2.toNat ≤ 0xBF →
      Src (.u4 (b0.toNat % 16 * 4096 + b1.toNat % 64 * 64 + b2.toNat % 64)) [b0, b1, b2]
  | four (b0 b1 b2 b3 : UInt8) : 0xF0 ≤ b0.toNat → b0.toNat ≤ 0xF4 →
      0x80 ≤ b1.toNat → b1.toNat ≤ 0xBF → 0x80 ≤ b2.toNat → b2.toNat ≤ 0xBF →
      0x80 ≤ b3.toNat → b3.toNat ≤ 0xBF →
      Src (.u8 (b0.toNat % 8 * 262144 + b1.toNat % 64 * 4096 + b2.toNat % 64 * 64 + b3.toNat % 64))
        [b0, b1, b2, b3]

theorem byte_eq {a b : UInt8} (h : a.toNat = b.toNat) : a = b := UInt8.toNat_inj.mp h

/-- two runes with the same token are the same bytes (no overlong forms: a value below 0x800 has
two bytes, one from 0x800 three) -/
theorem Src.unique {t : Tok} {s s' : Bytes} (h : Src t s) (h' : Src t s') : s = s' := by
  cases h with
  | plain c => cases h'; rfl
  | esc c => cases h'; rfl
  | hex2 b =>
    generalize hb : b.toNat = n at h'
    cases h' with
    | hex2 b' => rw [byte_eq (b := b') hb]
  | two b0 b1 h1 h2 h3 h4 =>
    generalize hr : b0.toNat % 32 * 64 + b1.toNat % 64 = r at h'
    cases h' with
    | two c0 c1 k1 k2 k3 k4 =>
      rw [byte_eq (a := b0) (b := c0) (by omega), byte_eq (a := b1) (b := c1) (by omega)]
    | three c0 c1 c2 k1 k2 k3 k4 k5 k6 k7 =>
      exfalso
      by_cases hc : c0.toNat = 0xE0
      · have := k3 hc; omega
      · omega
  | three b0 b1 b2 h1 h2 h3 h4 h5 h6 h7 =>
    generalize hr : b0.toNat % 16 * 4096 + b1.toNat % 64 * 64 + b2.toNat % 64 = r at h'
    cases h' with
    | two c0 c1 k1 k2 k3 k4 =>
      exfalso
      by_cases hc : b0.toNat = 0xE0
      · have := h3 hc; omega
      · omega
    | three c0 c1 c2 k1 k2 k3 k4 k5 k6 k7 =>
      rw [byte_eq (a := b0) (b := c0) (by omega), byte_eq (a := b1) (b := c1) (by omega),
        byte_eq (a := b2) (b := c2) (by omega)]
  | four b0 b1 b2 b3 h1 h2 h3 h4 h5 h6 h7 h8 =>
    generalize hr : b0.toNat % 8 * 262144 + b1.toNat % 64 * 4096 + b2.toNat % 64 * 64 + b3.toNat % 64
      = r at h'
    cases h' with
    | four c0 c1 c2 c3 k1 k2 k3 k4 k5 k6 k7 k8 =>
      rw [byte_eq (a := b0) (b := c0) (by omega), byte_eq (a := b1) (b := c1) (by omega),
        byte_eq (a := b2) (b := c2) (by omega), byte_eq (a := b3) (b := c3) (by omega)]

theorem Src.length_pos {t : Tok} {s : Bytes} (h : Src t s) : 0 < s.length := by
  cases h <;> simp

/-! ### the loop, one iteration at a time -/

theorem quoteGo_skip : ∀ (k : Nat) (s : Bytes), quoteGo k s = quoteGo 0 (s.drop k)
  | 0, s => by simp
  | k + 1, [] => by simp [quoteGo]
  | k + 1, _ :: rest => by
    rw [quoteGo, quoteGo_skip k rest]; rfl

theorem escapedRune_u4 (r : Nat) (h : 0x80 ≤ r) (hv : r < 0xD800 ∨ 0xDFFF < r) (h2 : r < 0x10000) :
    escapedRune r = [0x5C, 0x75] ++ hex4 r := by
  have hv' : validRune r = true := by
    simp only [validRune, Bool.or_eq_true, Bool.and_eq_true, decide_eq_true_eq]; omega
  unfold escapedRune
  simp only [isPrintASCII, Bool.and_eq_true, decide_eq_true_eq, hv']
  repeat rw [if_neg (by omega)]
  rw [if_neg (by simp), if_pos h2]

theorem escapedRune_u8 (r : Nat) (h : 0x10000 ≤ r) (h2 : r ≤ 0x10FFFF) :
    escapedRune r = [0x5C, 0x55] ++ hex8 r := by
  have hv' : validRune r = true := by
    simp only [validRune, Bool.or_eq_true, Bool.and_eq_true, decide_eq_true_eq]; omega
  unfold escapedRune
  simp only [isPrintASCII, Bool.and_eq_true, decide_eq_true_eq, hv']
  repeat rw [if_neg (by omega)]
  rw [if_neg (by simp), if_neg (by omega)]

theorem escapedRune_ascii_aux (b : UInt8) (h : b.toNat < 0x80) (o : Bytes)
    (ho : escapedRune b.toNat = o) : ∃ t, t.wf ∧ Src t [b] ∧ o = t.render := by
  have hb : UInt8.ofNat b.toNat = b := UInt8.ofNat_toNat
  unfold escapedRune at ho
  simp only [isPrintASCII, Bool.and_eq_true, decide_eq_true_eq] at ho
  rw [hb] at ho
  by_cases h1 : b.toNat = 34 ∨ b.toNat = 92
  · rw [if_pos h1] at ho
    refine ⟨.esc b, ?_, ?_, ho.symm⟩
    · rcases h1 with h1 | h1
      · rw [byte_eq (a := b) (b := 0x22) h1]; show (0x22 : UInt8) ∈ escLetters; decide
      · rw [byte_eq (a := b) (b := 0x5C) h1]; show (0x5C : UInt8) ∈ escLetters; decide
    · have : unesc b = b := by
        rcases h1 with h1 | h1
        · rw [byte_eq (a := b) (b := 0x22) h1]; decide
        · rw [byte_eq (a := b) (b := 0x5C) h1]; decide
      have h2 := Src.esc b
      rwa [this] at h2
  rw [if_neg h1] at ho
  by_cases h2 : b.toNat < 128 ∧ 32 ≤ b.toNat ∧ b.toNat ≤ 126
  · rw [if_pos h2] at ho
    refine ⟨.plain b, ⟨h2.2.1, h2.2.2, ?_⟩, .plain b, ho.symm⟩
    intro hc; rw [hc] at h1; exact h1 (by decide)
  rw [if_neg h2] at ho
  by_cases h3 : b.toNat = 7
  · rw [if_pos h3] at ho
    rw [byte_eq (a := b) (b := 0x07) h3]; exact ⟨.esc 0x61, (by show (0x61 : UInt8) ∈ escLetters; decide), .esc 0x61, ho.symm⟩
  rw [if_neg h3] at ho
  by_cases h4 : b.toNat = 8
  · rw [if_pos h4] at ho
    rw [byte_eq (a := b) (b := 0x08) h4]; exact ⟨.esc 0x62, (by show (0x62 : UInt8) ∈ escLetters; decide), .esc 0x62, ho.symm⟩
  rw [if_neg h4] at ho
  by_cases h5 : b.toNat = 12
  · rw [if_pos h5] at ho
    rw [byte_eq (a := b) (b := 0x0C) h5]; exact ⟨.esc 0x66, (by show (0x66 : UInt8) ∈ escLetters; decide), .esc 0x66, ho.symm⟩
  rw [if_neg h5] at ho
  by_cases h6 : b.toNat = 10
  · rw [if_pos h6] at ho
    rw [byte_eq (a := b) (b := 0x0A) h6]; exact ⟨.esc 0x6E, (by show (0x6E : UInt8) ∈ escLetters; decide), .esc 0x6E, ho.symm⟩
  rw [if_neg h6] at ho
  by_cases h7 : b.toNat = 13
  · rw [if_pos h7] at ho
    rw [byte_eq (a := b) (b := 0x0D) h7]; exact ⟨.esc 0x72, (by show (0x72 : UInt8) ∈ escLetters; decide), .esc 0x72, ho.symm⟩
  rw [if_neg h7] at ho
  by_cases h8 : b.toNat = 9
  · rw [if_pos h8] at ho
    rw [byte_eq (a := b) (b := 0x09) h8]; exact ⟨.esc 0x74, (by show (0x74 : UInt8) ∈ escLetters; decide), .esc 0x74, ho.symm⟩
  rw [if_neg h8] at ho
  by_cases h9 : b.toNat = 11
  · rw [if_pos h9] at ho
    rw [byte_eq (a := b) (b := 0x0B) h9]; exact ⟨.esc 0x76, (by show (0x76 : UInt8) ∈ escLetters; decide), .esc 0x76, ho.symm⟩
  rw [if_neg h9] at ho
  have h10 : b.toNat < 32 ∨ b.toNat = 127 := by omega
  rw [if_pos h10] at ho
  have hm : b.toNat % 256 = b.toNat := by omega
  rw [hm] at ho
  exact ⟨.hex2 b.toNat, by show b.toNat < 256; omega, .hex2 b, ho.symm⟩

/-- an ASCII byte: one token, made from that byte -/
theorem escapedRune_ascii (b : UInt8) (h : b.toNat < 0x80) :
    ∃ t, t.wf ∧ Src t [b] ∧ escapedRune b.toNat = t.render :=
  escapedRune_ascii_aux b h _ rfl

/-- **one iteration**: the loop on a non-empty input appends one well-formed token made from the
first `w ≥ 1` bytes and goes on behind them -/
theorem quote_step (b0 : UInt8) (rest : Bytes) :
    ∃ t w, t.wf ∧ Src t ((b0 :: rest).take w) ∧
      quoteBody (b0 :: rest) = t.render ++ quoteBody ((b0 :: rest).drop w) := by
  unfold quoteBody
  rw [quoteGo]
  by_cases hb : 0x80 ≤ b0.toNat
  · simp only [hb, if_true]
    have hd := decodeRune_dec b0 rest
    rcases hp : decodeRune b0 rest with ⟨r, w⟩
    rw [hp] at hd
    simp only at hd ⊢
    cases hd with
    | ascii h => omega
    | bad h =>
      simp only [and_self, if_true]
      exact ⟨.hex2 b0.toNat, 1, by show b0.toNat < 256; have := b0.toNat_lt; omega, .hex2 b0, rfl⟩
    | two b1 tl h1 h2 h3 h4 =>
      rw [if_neg (by omega), escapedRune_u4 _ (by omega) (by omega) (by omega)]
      exact ⟨.u4 _, 2, by show _ < 0x10000; omega, .two b0 b1 h1 h2 h3 h4, by rw [quoteGo_skip]; rfl⟩
    | three b1 b2 tl h1 h2 h3 h4 h5 h6 h7 h8 =>
      have hlo : b0.toNat = 0xE0 ∨ b0.toNat ≠ 0xE0 := by omega
      have hhi : b0.toNat = 0xED ∨ b0.toNat ≠ 0xED := by omega
      have hr1 : 0x800 ≤ b0.toNat % 16 * 4096 + b1.toNat % 64 * 64 + b2.toNat % 64 := by
        rcases hlo with h | h
        · have := h3 h; omega
        · omega
      have hr2 : b0.toNat % 16 * 4096 + b1.toNat % 64 * 64 + b2.toNat % 64 < 0xD800 ∨
          0xDFFF < b0.toNat % 16 * 4096 + b1.toNat % 64 * 64 + b2.toNat % 64 := by
        rcases hhi with h | h
        · have := h4 h; omega
        · omega
      rw [if_neg (by omega), escapedRune_u4 _ (by omega) hr2 (by omega)]
      exact ⟨.u4 _, 3, by show _ < 0x10000; omega, .three b0 b1 b2 h1 h2 h3 h5 h6 h7 h8,
        by rw [quoteGo_skip]; rfl⟩
    | four b1 b2 b3 tl h1 h2 h3 h4 h5 h6 h7 h8 h9 h10 =>
      have hlo : b0.toNat = 0xF0 ∨ b0.toNat ≠ 0xF0 := by omega
      have hhi : b0.toNat = 0xF4 ∨ b0.toNat ≠ 0xF4 := by omega
      have hr1 : 0x10000 ≤
          b0.toNat % 8 * 262144 + b1.toNat % 64 * 4096 + b2.toNat % 64 * 64 + b3.toNat % 64 := by
        rcases hlo with h | h
        · have := h3 h; omega
        · omega
      have hr2 : b0.toNat % 8 * 262144 + b1.toNat % 64 * 4096 + b2.toNat % 64 * 64 + b3.toNat % 64
          ≤ 0x10FFFF := by
        rcases hhi with h | h
        · have := h4 h; omega
        · omega
      rw [if_neg (by omega), escapedRune_u8 _ hr1 hr2]
      exact ⟨.u8 _, 4, by show _ < 0x100000000; omega, .four b0 b1 b2 b3 h1 h2 h5 h6 h7 h8 h9 h10,
        by rw [quoteGo_skip]; rfl⟩
  · simp only [hb, if_false]
    rw [if_neg (by omega)]
    obtain ⟨t, hw, hs, he⟩ := escapedRune_ascii b0 (by omega)
    exact ⟨t, 1, hw, hs, by rw [he]; rfl⟩

/-! ### injectivity, ASCII -/

theorem quoteBody_nil : quoteBody [] = [] := rfl

theorem Tok.render_ne_nil (t : Tok) : t.render ≠ [] := by
  cases t <;> simp [Tok.render, hexEscape]

/-- **`quoteBody` is injective** -/
theorem quoteBody_injective : ∀ (n : Nat) (s₁ s₂ : Bytes), s₁.length ≤ n →
    quoteBody s₁ = quoteBody s₂ → s₁ = s₂
  | _, [], [], _, _ => rfl
  | _, [], b :: r, _, h => by
    obtain ⟨t, w, _, _, he⟩ := quote_step b r
    rw [he, quoteBody_nil] at h
    exact absurd (List.append_eq_nil_iff.mp h.symm).1 t.render_ne_nil
  | _, b :: r, [], _, h => by
    obtain ⟨t, w, _, _, he⟩ := quote_step b r
    rw [he, quoteBody_nil] at h
    exact absurd (List.append_eq_nil_iff.mp h).1 t.render_ne_nil
  | 0, b :: r, _ :: _, hn, _ => by simp at hn
  | n + 1, b :: r, c :: q, hn, h => by
    obtain ⟨t, w, hw, hs, he⟩ := quote_step b r
    obtain ⟨t', w', hw', hs', he'⟩ := quote_step c q
    rw [he, he'] at h
    obtain ⟨ht, hr⟩ := Tok.render_prefix hw hw' h
    subst ht
    have htake := Src.unique hs hs'
    have hpos : 0 < w := by
      have := hs.length_pos
      rw [List.length_take] at this; omega
    have hlen : ((b :: r).drop w).length ≤ n := by
      rw [List.length_drop]; simp only [List.length_cons] at hn ⊢; omega
    have hdrop := quoteBody_injective n _ _ hlen hr
    rw [← List.take_append_drop w (b :: r), ← List.take_append_drop w' (c :: q), htake, hdrop]

theorem Tok.render_ascii {t : Tok} (h : t.wf) : ∀ c ∈ t.render, 0x20 ≤ c.toNat ∧ c.toNat ≤ 0x7E := by
  have hd : ∀ n, ∀ c, c = hexDigit (n % 16) → 0x20 ≤ c.toNat ∧ c.toNat ≤ 0x7E := by
    intro n c hc
    have := hexDigit_range (Nat.mod_lt n (by decide : 0 < 16))
    rw [hc]; omega
  cases t with
  | plain c =>
    intro x hx
    simp only [Tok.render, List.mem_singleton] at hx
    rw [hx]; exact ⟨h.1, h.2.1⟩
  | esc c =>
    intro x hx
    simp only [Tok.render, List.mem_cons, List.not_mem_nil, or_false] at hx
    rcases hx with rfl | rfl
    · decide
    · have : x ∈ escLetters := h
      simp only [escLetters, List.mem_cons, List.not_mem_nil, or_false] at this
      rcases this with rfl | rfl | rfl | rfl | rfl | rfl | rfl | rfl | rfl <;> decide
  | hex2 b =>
    intro x hx
    have hb : b < 256 := h
    simp only [Tok.render, hexEscape, Nat.shiftRight_eq_div_pow, and_0F, List.mem_cons,
      List.not_mem_nil, or_false] at hx
    rcases hx with rfl | rfl | hx | hx
    · decide
    · decide
    · have : b / 2 ^ 4 = (b / 2 ^ 4) % 16 := by omega
      rw [this] at hx; exact hd _ _ hx
    · exact hd _ _ hx
  | u4 r =>
    intro x hx
    simp only [Tok.render, hex4, Nat.shiftRight_eq_div_pow, and_0F, List.cons_append, List.nil_append,
      List.mem_cons, List.not_mem_nil, or_false] at hx
    rcases hx with rfl | rfl | hx | hx | hx | hx
    · decide
    · decide
    all_goals exact hd _ _ hx
  | u8 r =>
    intro x hx
    simp only [Tok.render, hex8, hex4, Nat.shiftRight_eq_div_pow, and_0F, List.cons_append,
      List.nil_append, List.mem_cons, List.not_mem_nil, or_false] at hx
    rcases hx with rfl | rfl | hx | hx | hx | hx | hx | hx | hx | hx
    · decide
    · decide
    all_goals exact hd _ _ hx

/-- every byte of the quoted form is printable ASCII -/
theorem quoteBody_ascii : ∀ (n : Nat) (s : Bytes), s.length ≤ n →
    ∀ c ∈ quoteBody s, 0x20 ≤ c.toNat ∧ c.toNat ≤ 0x7E
  | _, [], _ => by simp [quoteBody_nil]
  | 0, _ :: _, hn => by simp at hn
  | n + 1, b :: r, hn => by
    obtain ⟨t, w, hw, hs, he⟩ := quote_step b r
    have hpos : 0 < w := by
      have := hs.length_pos
      rw [List.length_take] at this; omega
    have hlen : ((b :: r).drop w).length ≤ n := by
      rw [List.length_drop]; simp only [List.length_cons] at hn ⊢; omega
    intro c hc
    rw [he, List.mem_append] at hc
    rcases hc with hc | hc
    · exact Tok.render_ascii hw c hc
    · exact quoteBody_ascii n _ hlen c hc

end Gts.KeyEnc
