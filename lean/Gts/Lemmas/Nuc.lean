/-
  Helper lemmas for C18 (alphabet operations, Search, Match).  No property statements here.
-/
import Gts.Model.Nuc
import Gts.Spec.Iupac
namespace Gts.Nuc
open Gts Gts.Reg Gts.Iupac

/-! ### quantifying over all 256 byte values -/

/-- a statement about every byte follows from its 256 instances (decided in the kernel) -/
theorem forall_uint8 {P : UInt8 → Prop} (h : ∀ n, n < 256 → P (UInt8.ofNat n)) : ∀ c : UInt8, P c := by
  intro c
  have := h c.toNat c.toNat_lt
  simpa using this

/-! ### replaceBytes -/

theorem replaceBytes_eq_map (p old new : List UInt8)
    (h : ∀ c, (replaceByte old new c).isSome = true) :
    replaceBytes p old new = some (p.map fun c => (replaceByte old new c).getD c) := by
  induction p with
  | nil => rfl
  | cons c cs ih =>
    have hc := h c
    cases hr : replaceByte old new c with
    | none => rw [hr] at hc; cases hc
    | some x => simp [replaceBytes, hr, ih]

theorem replaceBytes_length (p old new q : List UInt8) (h : replaceBytes p old new = some q) :
    q.length = p.length := by
  induction p generalizing q with
  | nil => simp [replaceBytes] at h; subst h; rfl
  | cons c cs ih =>
    simp only [replaceBytes] at h
    cases hr : replaceByte old new c with
    | none => rw [hr] at h; cases h
    | some x =>
      cases hs : replaceBytes cs old new with
      | none => rw [hr, hs] at h; cases h
      | some xs =>
        rw [hr, hs] at h
        cases h
        simp [ih xs hs]

/-! ### windows, pointwise relations -/

/-- the `w` bytes of `s` starting at offset `i` -/
def window (s : List UInt8) (i w : Nat) : List UInt8 := (s.drop i).take w

/-- two byte strings of equal length related position by position -/
def pointwise (rel : UInt8 → UInt8 → Bool) : List UInt8 → List UInt8 → Bool
  | [], [] => true
  | q :: qs, c :: cs => rel q c && pointwise rel qs cs
  | _, _ => false

theorem pointwise_congr (r1 r2 : UInt8 → UInt8 → Bool) (qs ss : List UInt8)
    (h : ∀ q ∈ qs, ∀ s ∈ ss, r1 q s = r2 q s) : pointwise r1 qs ss = pointwise r2 qs ss := by
  induction qs generalizing ss with
  | nil => cases ss <;> rfl
  | cons q qs ih =>
    cases ss with
    | nil => rfl
    | cons s ss =>
      simp only [pointwise]
      rw [h q (by simp) s (by simp), ih ss (fun a ha b hb => h a (by simp [ha]) b (by simp [hb]))]

theorem toLower_length (p : List UInt8) : (toLower p).length = p.length := by simp [toLower]

theorem pattern_length (q : List UInt8) : (pattern q).length = q.length := by
  simp [pattern, toLower]

theorem toLower_window (s : List UInt8) (i w : Nat) : toLower (window s i w) = window (toLower s) i w := by
  simp [toLower, window, List.map_take, List.map_drop]

theorem mem_window {s : List UInt8} {i w : Nat} {c : UInt8} (h : c ∈ window s i w) : c ∈ s :=
  List.mem_of_mem_drop (List.mem_of_mem_take h)

/-- per-position acceptance of `Match`: pattern position of the (lower-cased) query byte against
the (lower-cased) sequence byte -/
def posMatch (q s : UInt8) : Bool := (patOf (lowerByte q)).accepts (lowerByte s)

/-- an anchored match is: enough input, and every position accepts its byte -/
theorem matchAt_pattern (q t : List UInt8) :
    matchAt (pattern q) (toLower t) = true ↔
      q.length ≤ t.length ∧ pointwise posMatch q (t.take q.length) = true := by
  induction q generalizing t with
  | nil => simp [pattern, toLower, matchAt, pointwise]
  | cons a q ih =>
    cases t with
    | nil => simp [pattern, toLower, matchAt]
    | cons c t =>
      have := ih t
      simp only [pattern, toLower, List.map_cons, matchAt, List.length_cons, List.take_succ_cons,
        pointwise, Bool.and_eq_true] at this ⊢
      rw [this]
      simp only [posMatch]
      constructor
      · rintro ⟨h1, h2, h3⟩; exact ⟨by omega, h1, h3⟩
      · rintro ⟨h1, h2, h3⟩; exact ⟨h2, by omega, h3⟩

/-! ### the regexp scan -/

/-- every reported start is an offset (beyond the skipped prefix) at which the pattern matches -/
theorem scan_sound (pat : List Pat) (s : List UInt8) (pos skip : Nat) :
    ∀ a ∈ scan pat s pos skip, ∃ j, a = pos + j ∧ skip ≤ j ∧ j < s.length ∧ matchAt pat (s.drop j) = true := by
  induction s generalizing pos skip with
  | nil => simp [scan]
  | cons c cs ih =>
    intro a ha
    cases skip with
    | succ k =>
      simp only [scan] at ha
      obtain ⟨j, rfl, h1, h2, h3⟩ := ih (pos + 1) k a ha
      exact ⟨j + 1, by omega, by omega, by simp; omega, by simpa using h3⟩
    | zero =>
      simp only [scan] at ha
      split at ha
      next hm =>
        rcases List.mem_cons.1 ha with rfl | ha
        · exact ⟨0, by omega, by omega, by simp, by simpa using hm⟩
        · obtain ⟨j, rfl, _, h2, h3⟩ := ih (pos + 1) _ a ha
          exact ⟨j + 1, by omega, by omega, by simp; omega, by simpa using h3⟩
      next hm =>
        obtain ⟨j, rfl, _, h2, h3⟩ := ih (pos + 1) 0 a ha
        exact ⟨j + 1, by omega, by omega, by simp; omega, by simpa using h3⟩

/-- every offset (beyond the skipped prefix) at which the pattern matches lies inside a
reported window -/
theorem scan_complete (pat : List Pat) (hp : 0 < pat.length) (s : List UInt8) (pos skip : Nat) :
    ∀ j, skip ≤ j → j < s.length → matchAt pat (s.drop j) = true →
      ∃ a ∈ scan pat s pos skip, a ≤ pos + j ∧ pos + j < a + pat.length := by
  induction s generalizing pos skip with
  | nil => intro j _ h; simp at h
  | cons c cs ih =>
    intro j hj hlt hm
    cases skip with
    | succ k =>
      cases j with
      | zero => omega
      | succ j' =>
        obtain ⟨a, ha, h1, h2⟩ := ih (pos + 1) k j' (by omega) (by simpa using hlt) (by simpa using hm)
        exact ⟨a, by simpa [scan] using ha, by omega, by omega⟩
    | zero =>
      simp only [scan]
      split
      next hhead =>
        by_cases hw : j < pat.length
        · exact ⟨pos, by simp, by omega, by omega⟩
        · cases j with
          | zero => omega
          | succ j' =>
            obtain ⟨a, ha, h1, h2⟩ := ih (pos + 1) (pat.length - 1) j' (by omega)
              (by simpa using hlt) (by simpa using hm)
            exact ⟨a, by simp [ha], by omega, by omega⟩
      next hhead =>
        cases j with
        | zero => simp at hm; exact absurd hm hhead
        | succ j' =>
          obtain ⟨a, ha, h1, h2⟩ := ih (pos + 1) 0 j' (by omega) (by simpa using hlt) (by simpa using hm)
          exact ⟨a, ha, by omega, by omega⟩

/-- reported windows are disjoint and ascending: each starts at or after the end of the previous -/
theorem scan_pairwise (pat : List Pat) (hp : 0 < pat.length) (s : List UInt8) (pos skip : Nat) :
    (scan pat s pos skip).Pairwise (fun a b => a + pat.length ≤ b) := by
  induction s generalizing pos skip with
  | nil => simp [scan]
  | cons c cs ih =>
    cases skip with
    | succ k => simpa [scan] using ih (pos + 1) k
    | zero =>
      simp only [scan]
      split
      next hm =>
        refine List.pairwise_cons.2 ⟨?_, ih _ _⟩
        intro b hb
        obtain ⟨j, rfl, h1, _, _⟩ := scan_sound pat cs (pos + 1) (pat.length - 1) b hb
        omega
      next hm => exact ih _ _

/-! ### occurrences -/

theorem mem_occ (sep s : List UInt8) (pos i : Nat) :
    i ∈ occ sep s pos ↔ ∃ j, i = pos + j ∧ j < s.length ∧ sep.isPrefixOf (s.drop j) = true := by
  induction s generalizing pos with
  | nil => simp [occ]
  | cons c cs ih =>
    have key : i ∈ occ sep (c :: cs) pos ↔
        (sep.isPrefixOf (c :: cs) = true ∧ i = pos) ∨ i ∈ occ sep cs (pos + 1) := by
      simp only [occ]
      split <;> simp [*]
    rw [key, ih]
    constructor
    · rintro (⟨h, rfl⟩ | ⟨j, rfl, h1, h2⟩)
      · exact ⟨0, by omega, by simp, by simpa using h⟩
      · exact ⟨j + 1, by omega, by simp; omega, by simpa using h2⟩
    · rintro ⟨j, rfl, h1, h2⟩
      cases j with
      | zero => exact Or.inl ⟨by simpa using h2, by omega⟩
      | succ j' => exact Or.inr ⟨j', by omega, by simpa using h1, by simpa using h2⟩

theorem occ_pairwise (sep s : List UInt8) (pos : Nat) : (occ sep s pos).Pairwise (· < ·) := by
  induction s generalizing pos with
  | nil => simp [occ]
  | cons c cs ih =>
    simp only [occ]
    split
    · refine List.pairwise_cons.2 ⟨?_, ih _⟩
      intro b hb
      obtain ⟨j, rfl, _⟩ := (mem_occ sep cs (pos + 1) b).1 hb
      omega
    · exact ih _

theorem isPrefixOf_drop_iff (sep s : List UInt8) (j : Nat) :
    sep.isPrefixOf (s.drop j) = true ↔ (j + sep.length ≤ s.length ∨ sep = []) ∧ window s j sep.length = sep := by
  rw [List.isPrefixOf_iff_prefix, List.prefix_iff_eq_take]
  unfold window
  constructor
  · intro h
    refine ⟨?_, h.symm⟩
    have := congrArg List.length h
    simp at this
    cases sep with
    | nil => exact Or.inr rfl
    | cons a t => left; simp at this ⊢; omega
  · rintro ⟨_, h⟩; exact h.symm

/-! ### sort.Sort(BySegment(…)) on ascending windows of one width is the identity -/

theorem segLess_toSeg (w a b : Nat) : segLess (toSeg w a) (toSeg w b) = decide (a < b) := by
  unfold segLess toSeg
  simp only
  have h1 : ¬ (((a + w : Nat) : Int) < (a : Int)) := by omega
  have h2 : ¬ (((b + w : Nat) : Int) < (b : Int)) := by omega
  simp only [h1, h2, if_false]
  by_cases hab : a < b
  · have : (a : Int) < (b : Int) := by omega
    simp [this, hab]
  · by_cases hba : b < a
    · have h3 : ¬ ((a : Int) < (b : Int)) := by omega
      have h4 : (b : Int) < (a : Int) := by omega
      simp [h3, h4, hab]
    · have : a = b := by omega
      subst this
      simp

theorem sortSegs_toSeg (w : Nat) (l : List Nat) (h : l.Pairwise (· < ·)) :
    sortSegs (l.map (toSeg w)) = l.map (toSeg w) := by
  induction l with
  | nil => rfl
  | cons x xs ih =>
    have hx := List.pairwise_cons.1 h
    simp only [List.map_cons, sortSegs]
    rw [ih hx.2]
    cases xs with
    | nil => rfl
    | cons y ys =>
      have : ¬ (y < x) := by have := hx.1 y (by simp); omega
      simp [insertSeg, segLess_toSeg, this]

theorem pairwise_lt_of_windows {w : Nat} (hw : 0 < w) {l : List Nat}
    (h : l.Pairwise (fun a b => a + w ≤ b)) : l.Pairwise (· < ·) :=
  h.imp (fun {a b} hab => by omega)

/-! ### closed forms of the two model functions (the final sort is the identity) -/

theorem matchSegs_eq (seq query : List UInt8) (hs : seq ≠ []) (hq : query ≠ []) :
    matchSegs seq query = (matchStarts seq query).map (toSeg query.length) := by
  have h1 : ¬ (seq.length = 0 ∨ query.length = 0) := by
    simp [List.length_eq_zero_iff, hs, hq]
  have hp : 0 < (pattern query).length := by
    rw [pattern_length]; exact List.length_pos_iff.2 hq
  unfold matchSegs matchStarts
  rw [if_neg h1, sortSegs_toSeg _ _ (pairwise_lt_of_windows hp (scan_pairwise _ hp _ _ _)), pattern_length]

theorem search_eq (seq query : List UInt8) (hs : seq ≠ []) (hq : query ≠ []) :
    search seq query = (occ (toLower query) (toLower seq) 0).map (toSeg query.length) := by
  have h1 : ¬ (seq.length = 0 ∨ query.length = 0) := by
    simp [List.length_eq_zero_iff, hs, hq]
  have h2 : toLower query ≠ [] := by simpa [toLower] using hq
  unfold search
  rw [if_neg h1]
  simp only [indexAll, if_neg h2]
  rw [sortSegs_toSeg _ _ (occ_pairwise _ _ _), toLower_length]

theorem toSeg_inj {w a b : Nat} (h : toSeg w a = toSeg w b) : a = b := by
  unfold toSeg at h
  have := congrArg Prod.fst h
  simp at this
  omega

end Gts.Nuc
