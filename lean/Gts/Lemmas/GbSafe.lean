/-
  C07, record scanners: the GenBank field parsers of `Gts.Model.GenBankParse` never panic and keep
  the S-invariant of `Gts.Lemmas.ParsSorted` (every saved position sorted and bounded), although
  they `Clear` the stack, `Pop` on a possibly empty one (until 66de3a0 the SOURCE parser also popped
  a frame that was not its own; that none does any more is `Gts.Lemmas.GbProgress`) and — the
  DEFINITION retry — rewrite
  the saved frames in place (`patchFrames`, which keeps every frame's length because a joined
  field body is never longer than the bytes it was read from).  The LOCUS line parser is balanced
  and keeps the frame invariant `Fr` itself.  Core Lean only.
-/
import Gts.Lemmas.GbSafeTable
import Gts.Model.GenBankParse
namespace Gts.GenBank
open Gts.Pars

variable {L : Nat}

/-! ### LOCUS -/

theorem locusBack_wp {α} {Q} {base n} {s : PS} (h : Fr L base (n+2) s)
    (kf : ∀ s', Fr L base n s' → Q (.error .fail) s') : WP (locusBack : P α) Q s := by
  unfold locusBack
  rw [wp_bind]; apply wp_pop h; intro s1 h1
  rw [wp_bind]; apply wp_pop h1; intro s2 h2
  exact kf s2 h2

theorem locusTry_wp {α} {p : P α} {Q} {base n} {s : PS} (hp : Safe p) (h : Fr L base (n+2) s)
    (kok : ∀ a s', Fr L base (n+2) s' → Q (.ok a) s')
    (kf : ∀ s', Fr L base n s' → Q (.error .fail) s') : WP (locusTry p) Q s := by
  unfold locusTry
  rw [wp_bind]; apply wp_attempt hp h; intro o s1 h1
  dsimp only
  split
  · exact kok _ _ h1
  · exact locusBack_wp h1 kf

theorem bpOrAa_safe : Safe bpOrAa := by unfold bpOrAa; wp_run

theorem divisionParser_safe : Safe divisionParser := by
  intro L base n s h
  unfold divisionParser
  rw [wp_bind]; apply wp_getS; dsimp only
  split <;> repeat wp_step

macro_rules | `(tactic| safe_side) => `(tactic| with_reducible exact bpOrAa_safe)
macro_rules | `(tactic| safe_side) => `(tactic| with_reducible exact divisionParser_safe)

/-- `genbankLocusParser` is balanced: it never pops a frame of its caller -/
theorem locusParser_safe : Safe locusParser := by
  unfold locusParser
  intro L base n s h
  repeat (first
    | (with_reducible apply locusTry_wp (by safe_side) ‹_› <;> intros)
    | (with_reducible apply locusBack_wp ‹_›; intro _ _)
    | wp_step)

macro_rules | `(tactic| safe_side) => `(tactic| with_reducible exact locusParser_safe)

/-! ### field names and bodies -/

theorem fieldPadding_safeS (a b : Nat) : SafeS L (fieldPadding a b) := by
  unfold fieldPadding; wps_run

macro_rules | `(tactic| safeS_side) => `(tactic| with_reducible exact fieldPadding_safeS _ _)

theorem fieldName_safeS (nm : Bytes) (d : Nat) : SafeS L (fieldName nm d) := by
  unfold fieldName; wps_run

macro_rules | `(tactic| safeS_side) => `(tactic| with_reducible exact fieldName_safeS _ _)

theorem fieldLine_safe (d : Nat) : Safe (fieldLine d) := by
  unfold fieldLine; wp_run

macro_rules | `(tactic| safe_side) => `(tactic| with_reducible exact fieldLine_safe _)

theorem bodyMore_safe (d : Nat) (sep : UInt8) : ∀ f acc k, Safe (bodyMore d sep f acc k)
  | 0, acc, k => by unfold bodyMore; wp_run
  | f + 1, acc, k => by
    have ih := bodyMore_safe d sep f
    unfold bodyMore
    intro L base n s h
    rw [wp_bind]; apply wp_attempt (fieldLine_safe d) h; intro o s1 h1
    dsimp only
    split
    · exact ih _ _ L base n s1 h1
    · exact std_ok h1

macro_rules | `(tactic| safe_side) => `(tactic| with_reducible exact bodyMore_safe _ _ _ _ _)

theorem fieldBody_safe (d : Nat) (sep : UInt8) : Safe (fieldBody d sep) := by
  unfold fieldBody; wp_run

macro_rules | `(tactic| safe_side) => `(tactic| with_reducible exact fieldBody_safe _ _)

theorem genericField_safeS (nm : Bytes) (d : Nat) : SafeS L (genericField nm d) := by
  unfold genericField; wps_run

macro_rules | `(tactic| safeS_side) => `(tactic| with_reducible exact genericField_safeS _ _)

/-- `p.Map(f)`: the frame `Map` pushes may be gone when `p` fails after a `Clear` -/
theorem mapped_safeS {α} (p : P α) (hp : SafeS L p) : SafeS L (mapped p) := by
  unfold mapped; wps_run

macro_rules | `(tactic| safeS_side) => `(tactic| (with_reducible apply mapped_safeS; safeS_side))

theorem subfieldName_safeS (nm : Bytes) (d st : Nat) (v : Bool) : SafeS L (subfieldName nm d st v) := by
  unfold subfieldName; wps_run

macro_rules | `(tactic| safeS_side) => `(tactic| with_reducible exact subfieldName_safeS _ _ _ _)

/-! ### a joined field body is never longer than the bytes it was read from -/

end Gts.GenBank
namespace Gts.Pars


theorem wp_of_run {α} {p : P α} {Q} {s : PS} (h : ∀ r s', p.run' s = (r, s') → Q r s') : WP p Q s :=
  h _ _ rfl

theorem wp_and {α} {p : P α} {Q1 Q2} {s : PS} (h1 : WP p Q1 s) (h2 : WP p Q2 s) :
    WP p (fun r s' => Q1 r s' ∧ Q2 r s') s := ⟨h1, h2⟩

theorem wp_mono {α} {p : P α} {Q1 Q2 : Except Err α → PS → Prop} {s : PS} (h1 : WP p Q1 s)
    (h : ∀ r s', Q1 r s' → Q2 r s') : WP p Q2 s := h _ _ h1

theorem run_lit (p : Bytes) (s : PS) : (lit p).run' s =
    if (s.rest.take p.length == p && decide (p.length ≤ s.rest.length)) = true then
      (.ok (), { s with rest := s.rest.drop p.length })
    else (.error .fail, s) := by
  unfold lit
  rw [run_bind, run_getS]
  dsimp only
  split <;> rfl

theorem run_line (s : PS) :
    line.run' s = (.ok (Origin.splitLine s.rest).1, { s with rest := (Origin.splitLine s.rest).2 }) := rfl

theorem splitLine_len (st : Bytes) :
    (Origin.splitLine st).1.length + (Origin.splitLine st).2.length ≤ st.length := by
  unfold Origin.splitLine
  generalize calcLine st 0 0 false = c
  obtain ⟨i, n⟩ := c
  dsimp only
  split <;> simp only [List.length_take, List.length_drop] <;> omega

end Gts.Pars
namespace Gts.GenBank
open Gts.Pars
variable {L : Nat}



theorem run_fieldLine (d : Nat) (s : PS) : (fieldLine d).run' s =
    if (s.rest.take (sp d).length == sp d && decide ((sp d).length ≤ s.rest.length)) = true then
      (.ok (Origin.splitLine (s.rest.drop (sp d).length)).1,
        { rest := (Origin.splitLine (s.rest.drop (sp d).length)).2, stk := s.stk })
    else (.error .fail, s) := by
  unfold fieldLine
  rw [run_bind, run_lit]
  by_cases hc : (s.rest.take (sp d).length == sp d && decide ((sp d).length ≤ s.rest.length)) = true
  · rw [if_pos hc, if_pos hc]; rfl
  · rw [if_neg hc, if_neg hc]

theorem bodyMore_len (d : Nat) (sep : UInt8) (hd : 1 ≤ d) : ∀ f acc k (s : PS) b k' s',
    (bodyMore d sep f acc k).run' s = (.ok (b, k'), s') →
      b.length + s'.rest.length ≤ acc.length + s.rest.length
  | 0, acc, k, s, b, k', s', h => by
    rw [bodyMore, run_pure] at h
    cases h; exact Nat.le_refl _
  | f + 1, acc, k, s, b, k', s', h => by
    rw [bodyMore, run_bind, run_attempt, run_fieldLine] at h
    by_cases hc : (s.rest.take (sp d).length == sp d && decide ((sp d).length ≤ s.rest.length)) = true
    · rw [if_pos hc] at h
      dsimp only at h
      have ih := bodyMore_len d sep hd f _ _ _ _ _ _ h
      have hl := splitLine_len (s.rest.drop (sp d).length)
      simp only [Bool.and_eq_true, decide_eq_true_eq] at hc
      have hsp : (sp d).length = d := by simp [sp]
      rw [hsp] at hl hc ih
      simp only [List.length_append, List.length_cons, List.length_drop] at ih hl ⊢
      omega
    · rw [if_neg hc] at h
      dsimp only at h
      rw [run_pure] at h
      cases h; exact Nat.le_refl _

theorem fieldBody_len (d : Nat) (sep : UInt8) (hd : 1 ≤ d) (s : PS) b k s'
    (h : (fieldBody d sep).run' s = (.ok (b, k), s')) : b.length + s'.rest.length ≤ s.rest.length := by
  unfold fieldBody at h
  rw [run_bind, run_line] at h
  dsimp only at h
  rw [run_bind, run_getS] at h
  dsimp only at h
  have := bodyMore_len d sep hd _ _ _ _ _ _ _ h
  have hl := splitLine_len s.rest
  dsimp only at this
  omega



/-- the in-place rewrite of one saved frame -/
def fixFrame (rb joined fr : Bytes) : Bytes :=
  if fr.length ≥ rb.length then fr.take (fr.length - rb.length) ++ joined ++ rb.drop joined.length
  else fr

theorem run_patchFrames (rb joined : Bytes) (s : PS) :
    (patchFrames rb joined).run' s = (.ok (), { s with stk := s.stk.map (fixFrame rb joined) }) := rfl

theorem fixFrame_length (rb joined fr : Bytes) (hj : joined.length ≤ rb.length) :
    (fixFrame rb joined fr).length = fr.length := by
  unfold fixFrame
  split
  · simp only [List.length_append, List.length_take, List.length_drop]; omega
  · rfl

theorem sorted_map_len (g : Bytes → Bytes) (hg : ∀ f, (g f).length = f.length) :
    ∀ n st, Sorted n st → Sorted n (st.map g)
  | _, [], _ => trivial
  | n, f :: st, h => ⟨by rw [hg]; exact h.1, by rw [hg]; exact sorted_map_len g hg _ st h.2⟩

/-- `patchFrames` keeps every frame's length, hence the invariant, when the joined body is not
longer than the bytes it was read from -/
theorem patchFrames_wp {Q} {s : PS} (rb joined : Bytes) (hj : joined.length ≤ rb.length)
    (h : Fr L [] 0 s) (k : ∀ s', Fr L [] 0 s' → Q (.ok ()) s') : WP (patchFrames rb joined) Q s := by
  unfold WP; rw [run_patchFrames]
  apply k
  refine Fr.mk0 ?_ h.le ?_
  · intro f hf
    simp only [List.mem_map] at hf
    obtain ⟨g, hg, rfl⟩ := hf
    rw [fixFrame_length rb joined g hj]; exact h.all0 g hg
  · exact sorted_map_len _ (fun f => fixFrame_length rb joined f hj) _ _ h.srt

theorem definitionField_safeS (d : Nat) (hd : 1 ≤ d) (f : Fields) : SafeS L (definitionField d f) := by
  intro s h
  unfold definitionField
  rw [wp_bind]; apply wps_push h; intro s1 h1
  dsimp only
  rw [wp_bind]
  -- the body, with the length of the joined text against the bytes behind the field name
  have hbody : WP (attempt (do
      let _ ← fieldName (bs "DEFINITION") d
      let rb := (← getS).rest
      let (b, k) ← fieldBody d 10
      pure (b, k, rb) : P (Bytes × Nat × Bytes)))
      (fun r s' => r ≠ .error .panic ∧ Fr L [] 0 s' ∧
        ∀ p k rb, r = .ok (some (p, k, rb)) → p.length ≤ rb.length) s1 := by
    apply wp_of_run
    intro r s' hr
    rw [run_attempt, run_bind] at hr
    have hn := fieldName_safeS (L := L) (bs "DEFINITION") d s1 h1
    unfold WP Std at hn
    rcases hrun : (fieldName (bs "DEFINITION") d).run' s1 with ⟨r1, s2⟩
    rw [hrun] at hn hr
    rcases r1 with e | v
    · cases e
      · cases hr; exact ⟨by simp, hn.2, by simp⟩
      · exact absurd rfl hn.1
    · dsimp only at hr
      rw [run_bind, run_getS] at hr
      dsimp only at hr
      rw [run_bind] at hr
      have hb := fieldBody_safe d 10 L [] 0 s2 hn.2
      have hl := fieldBody_len d 10 hd s2
      unfold WP Std at hb
      rcases hrun2 : (fieldBody d 10).run' s2 with ⟨r2, s3⟩
      rw [hrun2] at hb hr hl
      rcases r2 with e | ⟨b, k⟩
      · cases e
        · cases hr; exact ⟨by simp, hb.2, by simp⟩
        · exact absurd rfl hb.1
      · dsimp only at hr
        rw [run_pure] at hr
        cases hr
        refine ⟨by simp, hb.2, ?_⟩
        intro p k' rb he
        cases he
        have := hl _ _ _ rfl
        omega
  refine wp_mono hbody ?_
  intro r s2 ⟨hnp, h2, hlen⟩
  rcases r with e | o
  · cases e
    · exact std_fail h2
    · exact absurd rfl hnp
  · dsimp only
    rcases o with _ | ⟨p, k, rb⟩
    · dsimp only; repeat wps_step
    · dsimp only
      have hj := hlen p k rb rfl
      rw [wp_bind]; apply wps_drop h2; intro s3 h3
      dsimp only
      split
      · split
        · rw [wp_bind]; apply patchFrames_wp rb p hj h3; intro s4 h4
          repeat wps_step
        · repeat wps_step
      · repeat wps_step


/-! ### the field parsers -/

macro_rules | `(tactic| safe_side) => `(tactic| with_reducible exact int_safe)

theorem accessionField_safeS (d : Nat) (f : Fields) : SafeS L (accessionField d f) := by
  unfold accessionField; wps_run
theorem versionField_safeS (d : Nat) (f : Fields) : SafeS L (versionField d f) := by
  unfold versionField; wps_run
theorem commentField_safeS (d : Nat) (f : Fields) : SafeS L (commentField d f) := by
  unfold commentField; wps_run

theorem dblinkMore_safeS (d : Nat) : ∀ k f, SafeS L (dblinkMore d k f)
  | 0, f => by unfold dblinkMore; wps_run
  | k + 1, f => by
    have ih := dblinkMore_safeS d k
    unfold dblinkMore; wps_run

macro_rules | `(tactic| safeS_side) => `(tactic| with_reducible exact dblinkMore_safeS _ _ _)

theorem dblinkField_safeS (d : Nat) (f : Fields) : SafeS L (dblinkField d f) := by
  unfold dblinkField; wps_run

theorem keywordsField_safeS (d : Nat) (f : Fields) : SafeS L (keywordsField d f) := by
  unfold keywordsField; wps_run

theorem taxonMore_safeS (d : Nat) : ∀ k acc, SafeS L (taxonMore d k acc)
  | 0, acc => by unfold taxonMore; wps_run
  | k + 1, acc => by
    have ih := taxonMore_safeS d k
    unfold taxonMore; wps_run

macro_rules | `(tactic| safeS_side) => `(tactic| with_reducible exact taxonMore_safeS _ _ _)

theorem sourceField_safeS (d : Nat) (f : Fields) : SafeS L (sourceField d f) := by
  unfold sourceField; wps_run

theorem refSub_safeS (nm : String) (d st : Nat) : SafeS L (refSub nm d st) := by
  unfold refSub
  apply mapped_safeS
  wps_run

macro_rules | `(tactic| safeS_side) => `(tactic| with_reducible exact refSub_safeS _ _ _)

theorem refAlts_safeS (d st : Nat) (r : Reference) : ∀ l, SafeS L (refAlts d st r l)
  | [] => by unfold refAlts; wps_run
  | (n, set) :: rest => by
    have ih := refAlts_safeS d st r rest
    unfold refAlts; wps_run

macro_rules | `(tactic| safeS_side) => `(tactic| with_reducible exact refAlts_safeS _ _ _ _)

theorem refSubfield_safeS (d st : Nat) (r : Reference) : SafeS L (refSubfield d st r) := by
  unfold refSubfield; wps_run

macro_rules | `(tactic| safeS_side) => `(tactic| with_reducible exact refSubfield_safeS _ _ _)

theorem refSubfields_safeS (d : Nat) : ∀ k st r, SafeS L (refSubfields d k st r)
  | 0, st, r => by unfold refSubfields; wps_run
  | k + 1, st, r => by
    have ih := refSubfields_safeS d k
    unfold refSubfields; wps_run

macro_rules | `(tactic| safeS_side) => `(tactic| with_reducible exact refSubfields_safeS _ _ _ _)

theorem referenceField_safeS (d : Nat) (f : Fields) : SafeS L (referenceField d f) := by
  unfold referenceField; wps_run

theorem featuresField_safeS (reg : Registry) : SafeS L (featuresField reg) := by
  unfold featuresField; wps_run

theorem untilColon_safe : Safe untilColon := by
  intro L base n s h
  unfold untilColon
  rw [wp_bind]; apply wp_getS; dsimp only
  split <;> repeat wp_step

macro_rules | `(tactic| safe_side) => `(tactic| with_reducible exact untilColon_safe)

theorem untilFilter_safe (f : UInt8 → Bool) : Safe (untilFilter f) := by
  intro L base n s h
  unfold untilFilter
  rw [wp_bind]; apply wp_getS; dsimp only
  split <;> repeat wp_step

macro_rules | `(tactic| safe_side) => `(tactic| with_reducible exact untilFilter_safe _)

theorem contigField_safeS (d : Nat) (f : Fields) : SafeS L (contigField d f) := by
  unfold contigField; wps_run

theorem extraField_safeS (d : Nat) (f : Fields) : SafeS L (extraField d f) := by
  unfold extraField; wps_run

theorem endMark_safe : Safe endMark := by
  unfold endMark; wp_run

end Gts.GenBank
