/-
  Run equations of the `Gts.Pars` primitives on inputs of a known shape (C01): literals, words,
  blanks, lines, line ends.  `p ⟨input, stk⟩ = (result, ⟨rest, stk'⟩)`.  Core Lean only.
-/
import Gts.Lemmas.ModText
import Gts.Model.GenBankParse
namespace Gts.GenBank
open Gts.Pars

open Lean.Parser.Tactic in
/-- `simp` with the run equations of the monad and of the stack primitives -/
macro "gsimp" "[" ts:simpLemma,* "]" : tactic =>
  `(tactic| simp [P.bind_run, P.map_run, P.pure_run, attempt_run, push, pop, Pars.drop, Pars.fail, pushed,
      Pars.clear, getS, setS, advance1, advanceN, $ts,*])

/-- no line-end byte (decidable) -/
def noEOL (l : Bytes) : Bool := l.all fun c => c != 10 && c != 13

theorem noEOL_cons (c : UInt8) (l : Bytes) : noEOL (c :: l) = (c != 10 && c != 13 && noEOL l) := by
  simp [noEOL, List.all_cons]

theorem noEOL_append (a b : Bytes) : noEOL (a ++ b) = (noEOL a && noEOL b) := by
  simp [noEOL, List.all_append]

theorem noEOL_sp (n : Nat) : noEOL (sp n) = true := by
  simp [noEOL, sp, List.all_replicate]

/-! ### literals -/

theorem take_beq_self (p r : Bytes) : ((p ++ r).take p.length == p) = true := by
  simp

theorem lit_ok (p r : Bytes) (stk : List Bytes) : lit p ⟨p ++ r, stk⟩ = (.ok (), ⟨r, stk⟩) := by
  simp [lit, P.bind_run, getS, advanceN, setS]

theorem isPrefixOf_eq_take (p inp : Bytes) :
    p.isPrefixOf inp = (inp.take p.length == p && decide (p.length ≤ inp.length)) := by
  induction p generalizing inp with
  | nil => simp
  | cons x p ih =>
    cases inp with
    | nil => simp
    | cons y inp =>
      simp only [List.isPrefixOf, List.length_cons, List.take_succ_cons, ih inp]
      by_cases hxy : x = y
      · subst hxy
        simp only [beq_self_eq_true, Bool.true_and, Nat.add_le_add_iff_right]
        congr 1
        simp [List.cons_beq_cons]
      · have h1 : (x == y) = false := by simpa using hxy
        have h2 : ((y :: inp.take p.length) == (x :: p)) = false := by
          simp only [List.cons_beq_cons, Bool.and_eq_false_imp]
          intro h; exact absurd (beq_iff_eq.mp h).symm hxy
        simp [h1, h2]

theorem lit_fail (p inp : Bytes) (stk : List Bytes) (h : p.isPrefixOf inp = false) :
    lit p ⟨inp, stk⟩ = (.error .fail, ⟨inp, stk⟩) := by
  rw [isPrefixOf_eq_take] at h
  simp only [lit, P.bind_run, getS]
  rw [if_neg (by rw [h]; simp)]; rfl

theorem isPrefixOf_self_append (p r : Bytes) : p.isPrefixOf (p ++ r) = true := by
  induction p with
  | nil => simp
  | cons x p ih => simp [ih]

/-! ### words and blanks -/

theorem dropWhile_stop (f : UInt8 → Bool) (r : Bytes) (h : ∀ c, r.head? = some c → f c = false) :
    r.dropWhile f = r := by
  cases r with
  | nil => rfl
  | cons c r => simp [List.dropWhile, h c rfl]

/-- `pars.Word(f)` on a non-empty word followed by a byte outside `f` (or the end) -/
theorem word_ok (f : UInt8 → Bool) (w r : Bytes) (stk : List Bytes) (hw : w.all f = true) (hne : w ≠ [])
    (hr : ∀ c, r.head? = some c → f c = false) :
    word f ⟨w ++ r, stk⟩ = (.ok w, ⟨r, stk⟩) := by
  have hdw : (w ++ r).dropWhile f = r := by
    rw [dropWhile_append_all f w r hw, dropWhile_stop f r hr]
  have he : w.isEmpty = false := by cases w <;> simp_all
  simp only [word, P.bind_run, push, getS, setS, skipWhile, hdw, trail_spec]
  rw [if_neg (by simp [he])]; rfl

/-- `pars.Word(f)` fails, restoring the position, when the next byte is outside `f` -/
theorem word_fail (f : UInt8 → Bool) (r : Bytes) (stk : List Bytes)
    (hr : ∀ c, r.head? = some c → f c = false) :
    word f ⟨r, stk⟩ = (.error .fail, ⟨r, stk⟩) := by
  have hdw : r.dropWhile f = r := dropWhile_stop f r hr
  have := trail_spec [] r stk
  simp only [List.nil_append] at this
  simp [word, P.bind_run, push, getS, setS, skipWhile, hdw, this, Pars.fail]

/-- `pars.Spaces` -/
theorem spaces_ok (w r : Bytes) (stk : List Bytes) (hw : w.all isSpace = true)
    (hr : ∀ c, r.head? = some c → isSpace c = false) :
    spaces ⟨w ++ r, stk⟩ = (.ok w, ⟨r, stk⟩) := by
  have hdw : (w ++ r).dropWhile isSpace = r := by
    rw [dropWhile_append_all isSpace w r hw, dropWhile_stop isSpace r hr]
  simp [spaces, P.bind_run, push, getS, setS, skipWhile, hdw, trail_spec]

/-! ### lines -/

theorem calcLine_lf (ln t : Bytes) (i n : Nat) (h : noEOL ln = true) :
    calcLine (ln ++ 10 :: t) i n false = (i + ln.length, n + 1) := by
  induction ln generalizing i with
  | nil => simp [calcLine]
  | cons c ln ih =>
    rw [noEOL_cons] at h
    simp only [Bool.and_eq_true, bne_iff_ne, ne_eq] at h
    have e10 : (c == 10) = false := by simpa using h.1.1
    have e13 : (c == 13) = false := by simpa using h.1.2
    simp only [List.cons_append, calcLine, e10, e13, Bool.false_and, Bool.false_eq_true, if_false]
    rw [ih (i + 1) h.2, List.length_cons]; congr 1; omega

/-- `pars.Line` on a line without CR/LF that ends in LF -/
theorem line_ok (l r : Bytes) (stk : List Bytes) (h : noEOL l = true) :
    line ⟨l ++ 10 :: r, stk⟩ = (.ok l, ⟨r, stk⟩) := by
  simp [line, P.bind_run, P.map_run, getS, setS, calcLine_lf l r 0 0 h]

theorem eol_lf (r : Bytes) (stk : List Bytes) : eol ⟨10 :: r, stk⟩ = (.ok [10], ⟨r, stk⟩) := by
  simp [eol, P.bind_run, P.map_run, getS, advance1, setS]

theorem next_cons (c : UInt8) (r : Bytes) (stk : List Bytes) : next ⟨c :: r, stk⟩ = (.ok c, ⟨c :: r, stk⟩) := by
  simp [next, P.bind_run, getS, P.pure_run]

theorem next_nil (stk : List Bytes) : next ⟨[], stk⟩ = (.error .fail, ⟨[], stk⟩) := by
  simp [next, P.bind_run, getS, Pars.fail]

/-! ### `sp` -/

theorem sp_length (n : Nat) : (sp n).length = n := by simp [sp]

theorem sp_succ (n : Nat) : sp (n + 1) = 32 :: sp n := by simp [sp, List.replicate_succ]

theorem sp_all_space (n : Nat) : (sp n).all isSpace = true := by
  simp [sp, List.all_replicate]; right; decide

theorem sp_prefix_cons (n : Nat) (c : UInt8) (r : Bytes) (hc : c ≠ 32) (hn : 0 < n) :
    (sp n).isPrefixOf (c :: r) = false := by
  cases n with
  | zero => omega
  | succ n =>
    rw [sp_succ]
    have : ((32 : UInt8) == c) = false := by simpa using fun h => hc h.symm
    simp [List.isPrefixOf, this]

theorem sp_prefix_nil (n : Nat) (hn : 0 < n) : (sp n).isPrefixOf ([] : Bytes) = false := by
  cases n with
  | zero => omega
  | succ n => rw [sp_succ]; rfl

end Gts.GenBank
