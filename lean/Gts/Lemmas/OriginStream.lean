/-
  The stream `NewOrigin` writes is never shorter than the buffer `toOriginLength` sizes for it
  (the `%9d` index has at least nine columns) — no guard on the length.  Used by the bridge of the
  regenerated `NewOrigin` (Gts/Bridge/OriginBuf.lean).
-/
import Gts.Lemmas.Origin
namespace Gts.Origin
open Gts.Pars (Bytes)

theorem index9_length_ge (n : Nat) : 9 ≤ (index9 n).length := by
  simp only [index9, List.length_append, List.length_replicate]; omega

theorem fmtLinesS_length_ge (f i : Nat) (q : Bytes) (hf : q.length ≤ 60 * f) :
    tl q.length ≤ (fmtLinesS f i q).length := by
  induction f generalizing i q with
  | zero =>
    have : q = [] := List.eq_nil_of_length_eq_zero (by omega)
    subst this; simp [fmtLinesS, tl]
  | succ f ih =>
    unfold fmtLinesS
    by_cases hq : q = []
    · subst hq; simp [tl]
    · have hpos : 0 < q.length := List.length_pos_iff.mpr hq
      rw [if_pos hq]
      have h1 := index9_length_ge (i + 1)
      have h2 := ih (i + 60) (q.drop 60) (by simp only [List.length_drop]; omega)
      simp only [List.length_append, List.length_cons, fmtGroupsS_length 6 0 q (by omega), List.length_drop,
        Nat.reduceMul] at h2 ⊢
      have := tl_step q.length hpos
      omega

theorem originStream_length_ge (p : Bytes) : tl p.length ≤ (originStream p).length := by
  rw [originStream_eq_S]
  exact fmtLinesS_length_ge p.length 0 p (by omega)

end Gts.Origin
