/-
  What `ParseLocation` makes of a printed `join(…)` whose parts are canonical but which is not
  itself a fixed point of `Join`: it reads the parts back and applies `Join` to them.  Core Lean only.
-/
import Gts.Lemmas.LocRoundTrip
namespace Gts
open Pars ModParse LocParse

namespace Loc

/-- the printed join of canonical parts is read back as `Join` of the parts -/
theorem loc_printB_join_parts (l : Loc) (ls : List Loc) (hc : canonPList (l :: ls) = true) (f : Nat)
    (rest : Bytes) (stk : List Bytes) (hf : need (joined (l :: ls)) ≤ f) :
    loc f ⟨printB (joined (l :: ls)) ++ rest, stk⟩ = (.ok (join (l :: ls)), ⟨rest, stk⟩) := by
  simp only [canonPList, Bool.and_eq_true] at hc
  obtain ⟨hl, hls⟩ := hc
  obtain ⟨f, rfl⟩ : ∃ f', f = f' + 1 + 2 := ⟨f - 3, by simp only [need] at hf; omega⟩
  have hf1 : need l ≤ f := by simp only [need, needList] at hf; omega
  have hf2 : needList ls ≤ f := by simp only [need, needList] at hf; omega
  rw [printB, printListB, str_join]
  simp only [List.append_assoc, List.cons_append, List.nil_append]
  have hm : ∀ stk', multiple (f + 1) ⟨printB l ++ (printTailB ls ++ 41 :: rest), stk'⟩ =
      (.ok (l :: ls), ⟨41 :: rest, stk'⟩) := fun stk' =>
    multiple_run f l (l :: ls) _ (printTailB ls ++ 41 :: rest) (41 :: rest) stk'
      (fun stk'' => loc_printB l hl f _ stk'' hf1 (delim_tail ls rest))
      (fun stk'' => more_printB ls hls f f [l] rest stk'' hf2
        (Nat.le_trans (length_le_needList ls) hf2))
  exact loc_join (f + 1) _ rest (l :: ls) stk hm

end Loc

theorem parseLocation_join_parts (l : Loc) (ls : List Loc) (hc : Loc.canonPList (l :: ls) = true) :
    parseLocation (Loc.printB (Loc.joined (l :: ls))) = .ok (Loc.join (l :: ls), []) := by
  have hf : Loc.need (Loc.joined (l :: ls)) ≤ (Loc.printB (Loc.joined (l :: ls))).length + 2 := by
    have := Loc.need_le_length (Loc.joined (l :: ls))
    omega
  have := Loc.loc_printB_join_parts l ls hc _ [] [] hf
  rw [List.append_nil] at this
  exact parseLocation_of_run _ _ _ this

end Gts
