/-
  C01 helper lemmas: the LOCUS line written by `GenBank.String` and read by
  `genbankLocusParser`.  Core Lean only.
-/
import Gts.Lemmas.GbDate
import Gts.Lemmas.GbTable
namespace Gts.GenBank
open Gts.Pars

/-- `pars.Int` on the decimal digits of a natural number, followed by a non-digit -/
theorem int_natDigits (n : Nat) (r : Bytes) (stk : List Bytes) (hr : r.dropWhile isDigit = r)
    (hn : n ≤ 9223372036854775807) :
    int ⟨natDigits n ++ r, stk⟩ = (.ok (n : Int), ⟨r, stk⟩) := by
  obtain ⟨h1, h2, d, ds, h3, h4⟩ := natDigits_spec n
  have hd : isDigit d = true ∧ ds.all isDigit = true := by rw [h3] at h2; simpa using h2
  obtain ⟨h45, h43⟩ := digit_not_sign d hd.1
  have hs : (d == 45 || d == 43) = false := by simp [h45, h43]
  by_cases h0 : n = 0
  · subst h0
    have e : natDigits 0 = [48] := by decide
    rw [e]
    simp only [List.cons_append, List.nil_append, int, P.bind_run, push, getS, setS, next, P.pure_run,
      show ((48 : UInt8) == 45 || (48 : UInt8) == 43) = false by decide, Bool.false_eq_true, if_false,
      show isDigit 48 = true by decide, Bool.not_true, show ((48 : UInt8) == 48) = true by decide, if_true,
      advance1, Pars.drop, List.drop_succ_cons, List.drop_zero]
    rfl
  · have hd0 : (d == 48) = false := by simpa using h4 (by omega)
    have hdw : (d :: (ds ++ r)).dropWhile isDigit = r := by
      rw [List.dropWhile_cons, if_pos hd.1, dropWhile_append_all _ _ _ hd.2, hr]
    have htr := trail_spec (d :: ds) r stk
    simp only [List.cons_append] at htr
    have hat : atoi (d :: ds) = some (n : Int) := by
      have := atoi_zpad 0 n hn
      simpa [zpad, h3] using this
    rw [h3]
    simp only [List.cons_append, int, P.bind_run, push, getS, setS, next, P.pure_run, hs, Bool.false_eq_true,
      if_false, hd.1, Bool.not_true, hd0, skipWhile, hdw, htr, hat]

/-- a word of non-space bytes -/
def wordOk (w : Bytes) : Bool := !w.isEmpty && w.all notSpace

/-- the LOCUS line's domain: name and molecule are non-empty words without white space, the
topology is linear or circular, the division is empty or three upper-case letters, the date is a
valid calendar date, the length a non-negative Go int -/
def locusOk (f : Fields) (length : Int) : Bool :=
  wordOk f.locusName && wordOk f.molecule && (f.topology == 0 || f.topology == 1) &&
  (f.division.isEmpty || (f.division.length == 3 && f.division.all isUpper)) && f.date.valid &&
  decide (0 ≤ length ∧ length ≤ 9223372036854775807)

theorem head_padRight_blank (w : Nat) (r : Bytes) : ∀ c, (sp w ++ 32 :: r).head? = some c → c = 32 := by
  intro c hc
  cases w with
  | zero => simpa [sp] using hc.symm
  | succ w => rw [sp_succ] at hc; simpa using hc.symm

theorem blank_is_space : isSpace 32 = true := by decide
theorem blank_not_notSpace : notSpace 32 = false := by decide

theorem upper_not_space (c : UInt8) : isUpper c = true → isSpace c = false := by
  revert c; apply byte_cases; decide +kernel

theorem digit_not_space (c : UInt8) : isDigit c = true → isSpace c = false := by
  revert c; apply byte_cases; decide +kernel

theorem digit_not_upper (c : UInt8) : isDigit c = true → isUpper c = false := by
  revert c; apply byte_cases; decide +kernel

theorem notSpace_iff (c : UInt8) : notSpace c = true ↔ isSpace c = false := by
  simp [notSpace]

theorem digit_noEOL_byte (c : UInt8) : isDigit c = true → (c != 10 && c != 13) = true := by
  revert c; apply byte_cases; decide +kernel

/-- the printed date starts with a digit and has no line end -/
theorem dateText_shape (d : Date) (h : d.valid = true) :
    (∃ c r, d.text = c :: r ∧ isDigit c = true) ∧ noEOL d.text = true := by
  have hv := h
  simp only [Date.valid, decide_eq_true_eq] at hv
  obtain ⟨mi, hmi⟩ : ∃ mi : Fin 12, d.month.toNat - 1 = mi.1 := ⟨⟨d.month.toNat - 1, by omega⟩, rfl⟩
  unfold Date.text
  rw [if_pos h, hmi]
  have hz2 := zpad_all_digit 2 d.day.toNat
  have hz4 := zpad_all_digit 4 d.year.toNat
  have hmon : ∀ m : Fin 12, noEOL (monthAbbr.getD m.1 []) = true := by decide
  have dig_noEOL : ∀ l : Bytes, l.all isDigit = true → noEOL l = true := by
    intro l hl
    simp only [noEOL, List.all_eq_true] at hl ⊢
    intro c hc
    exact digit_noEOL_byte c (hl c hc)
  constructor
  · cases hz : zpad 2 d.day.toNat with
    | nil => exact absurd hz (zpad_ne_nil _ _)
    | cons c r =>
      rw [hz] at hz2
      simp only [List.all_cons, Bool.and_eq_true] at hz2
      exact ⟨c, r ++ (45 :: (monthAbbr.getD mi.1 [] ++ 45 :: zpad 4 d.year.toNat)), by simp, hz2.1⟩
  · simp only [noEOL_append, dig_noEOL _ hz2, dig_noEOL _ hz4, hmon mi, Bool.and_true]
    decide

end Gts.GenBank
