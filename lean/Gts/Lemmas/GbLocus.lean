/-
  C01 helper lemmas: the LOCUS line written by `GenBank.String` and read by
  `genbankLocusParser`.  Core Lean only.
-/
import Gts.Lemmas.GbDate
import Gts.Lemmas.GbTable
namespace Gts.GenBank
open Gts.Pars

/-- `pars.Int` on the decimal digits of a natural number, followed by a non-digit -/
theorem int_natDigits (n : Nat) (r : Bytes) (stk : List Bytes) (hr : r.dropWhile isDigit = r)
    (hn : n ≤ 9223372036854775807) :
    int ⟨natDigits n ++ r, stk⟩ = (.ok (n : Int), ⟨r, stk⟩) := by
  obtain ⟨h1, h2, d, ds, h3, h4⟩ := natDigits_spec n
  have hd : isDigit d = true ∧ ds.all isDigit = true := by rw [h3] at h2; simpa using h2
  obtain ⟨h45, h43⟩ := digit_not_sign d hd.1
  have hs : (d == 45 || d == 43) = false := by simp [h45, h43]
  by_cases h0 : n = 0
  · subst h0
    have e : natDigits 0 = [48] := by decide
    rw [e]
    simp only [List.cons_append, List.nil_append, int, P.bind_run, push, getS, setS, next, P.pure_run,
      show ((48 : UInt8) == 45 || (48 : UInt8) == 43) = false by decide, Bool.false_eq_true, if_false,
      show isDigit 48 = true by decide, Bool.not_true, show ((48 : UInt8) == 48) = true by decide, if_true,
      advance1, Pars.drop, List.drop_succ_cons, List.drop_zero]
    rfl
  · have hd0 : (d == 48) = false := by simpa using h4 (by omega)
    have hdw : (d :: (ds ++ r)).dropWhile isDigit = r := by
      rw [List.dropWhile_cons, if_pos hd.1, dropWhile_append_all _ _ _ hd.2, hr]
    have htr := trail_spec (d :: ds) r stk
    simp only [List.cons_append] at htr
    have hat : atoi (d :: ds) = some (n : Int) := by
      have := atoi_zpad 0 n hn
      simpa [zpad, h3] using this
    rw [h3]
    simp only [List.cons_append, int, P.bind_run, push, getS, setS, next, P.pure_run, hs, Bool.false_eq_true,
      if_false, hd.1, Bool.not_true, hd0, skipWhile, hdw, htr, hat]

/-- a word of non-space bytes -/
def wordOk (w : Bytes) : Bool := !w.isEmpty && w.all notSpace

/-- the LOCUS line's domain: name and molecule are non-empty words without white space, the
topology is linear or circular, the division is empty or three upper-case letters, the date is a
valid calendar date, the length a non-negative Go int -/
def locusOk (f : Fields) (length : Int) : Bool :=
  wordOk f.locusName && wordOk f.molecule && (f.topology == 0 || f.topology == 1) &&
  (f.division.isEmpty || (f.division.length == 3 && f.division.all isUpper)) && f.date.valid &&
  decide (0 ≤ length ∧ length ≤ 9223372036854775807)

theorem head_padRight_blank (w : Nat) (r : Bytes) : ∀ c, (sp w ++ 32 :: r).head? = some c → c = 32 := by
  intro c hc
  cases w with
  | zero => simpa [sp] using hc.symm
  | succ w => rw [sp_succ] at hc; simpa using hc.symm

theorem blank_is_space : isSpace 32 = true := by decide
theorem blank_not_notSpace : notSpace 32 = false := by decide

theorem upper_not_space (c : UInt8) : isUpper c = true → isSpace c = false := by
  revert c; apply byte_cases; decide +kernel

theorem digit_not_space (c : UInt8) : isDigit c = true → isSpace c = false := by
  revert c; apply byte_cases; decide +kernel

theorem digit_not_upper (c : UInt8) : isDigit c = true → isUpper c = false := by
  revert c; apply byte_cases; decide +kernel

theorem notSpace_iff (c : UInt8) : notSpace c = true ↔ isSpace c = false := by
  simp [notSpace]

theorem digit_noEOL_byte (c : UInt8) : isDigit c = true → (c != 10 && c != 13) = true := by
  revert c; apply byte_cases; decide +kernel

/-- the printed date starts with a digit and has no line end -/
theorem dateText_shape (d : Date) (h : d.valid = true) :
    (∃ c c2 c3 r, d.text = c :: c2 :: c3 :: r ∧ isDigit c = true) ∧ noEOL d.text = true := by
  have hv := h
  simp only [Date.valid, decide_eq_true_eq] at hv
  obtain ⟨mi, hmi⟩ : ∃ mi : Fin 12, d.month.toNat - 1 = mi.1 := ⟨⟨d.month.toNat - 1, by omega⟩, rfl⟩
  unfold Date.text
  rw [if_pos h, hmi]
  have hz2 := zpad_all_digit 2 d.day.toNat
  have hz4 := zpad_all_digit 4 d.year.toNat
  have hmon : ∀ m : Fin 12, noEOL (monthAbbr.getD m.1 []) = true := by decide
  have dig_noEOL : ∀ l : Bytes, l.all isDigit = true → noEOL l = true := by
    intro l hl
    simp only [noEOL, List.all_eq_true] at hl ⊢
    intro c hc
    exact digit_noEOL_byte c (hl c hc)
  constructor
  · have hlen : 2 ≤ (zpad 2 d.day.toNat).length := by
      unfold zpad; simp only [List.length_append, List.length_replicate]; omega
    match hz : zpad 2 d.day.toNat, hlen with
    | c :: c2 :: r, _ =>
      rw [hz] at hz2
      simp only [List.all_cons, Bool.and_eq_true] at hz2
      cases r with
      | nil => exact ⟨c, c2, 45, monthAbbr.getD mi.1 [] ++ 45 :: zpad 4 d.year.toNat, by simp, hz2.1⟩
      | cons c3 r' => exact ⟨c, c2, c3, r' ++ (45 :: (monthAbbr.getD mi.1 [] ++ 45 :: zpad 4 d.year.toNat)), by simp, hz2.1⟩
  · simp only [noEOL_append, dig_noEOL _ hz2, dig_noEOL _ hz4, hmon mi, Bool.and_true]
    decide

end Gts.GenBank

namespace Gts.GenBank
open Gts.Pars

theorem locusTry_ok {α} (p : P α) (s s' : PS) (a : α) (h : p s = (.ok a, s')) : locusTry p s = (.ok a, s') := by
  gsimp [locusTry, h]

theorem sp_add (a b : Nat) : sp a ++ sp b = sp (a + b) := by
  simp [sp, List.replicate_append_replicate]

theorem sp_one : sp 1 = [32] := rfl

/-- the canonical shape of a LOCUS line: words separated by runs of blanks -/
def locusCanon (name digits mol top : Bytes) (k2 k3 k5 : Nat) (tail : Bytes) : Bytes :=
  bs "LOCUS" ++ (sp 7 ++ (name ++ (sp (k2 + 1) ++ (digits ++ (bs " bp" ++ (sp (k3 + 1) ++ (mol ++
    (sp 5 ++ (top ++ (sp (k5 + 1) ++ tail))))))))))

theorem wordOk_spec (w : Bytes) (h : wordOk w = true) :
    w.all notSpace = true ∧ w ≠ [] ∧ ∃ c r, w = c :: r ∧ isSpace c = false := by
  simp only [wordOk, Bool.and_eq_true, Bool.not_eq_true', List.isEmpty_eq_false_iff] at h
  refine ⟨h.2, h.1, ?_⟩
  cases w with
  | nil => exact absurd rfl h.1
  | cons c r =>
    have := h.2; simp only [List.all_cons, Bool.and_eq_true] at this
    exact ⟨c, r, rfl, (notSpace_iff c).1 this.1⟩

theorem sp_head_blank (n : Nat) (r : Bytes) : ∀ c, (sp (n + 1) ++ r).head? = some c → c = 32 := by
  intro c hc; rw [sp_succ] at hc; simpa using hc.symm

/-- the two shapes of the tail: a division of three upper-case letters, or none -/
theorem division_run (dv dt rest : Bytes) (stk : List Bytes) (k5 : Nat)
    (hdv : dv = [] ∨ (dv.length = 3 ∧ dv.all isUpper = true))
    (hdt : ∃ c c2 c3 r, dt = c :: c2 :: c3 :: r ∧ isDigit c = true) :
    ∃ mid, spaces ⟨sp (k5 + 1) ++ (dv ++ 32 :: (dt ++ 10 :: rest)), stk⟩ = (.ok (sp (k5 + 1) ++ (if dv = [] then [32] else [])), ⟨mid, stk⟩) ∧
      divisionParser ⟨mid, stk⟩ = (.ok dv, ⟨(if dv = [] then [] else [32]) ++ (dt ++ 10 :: rest), stk⟩) ∧
      spaces ⟨(if dv = [] then [] else [32]) ++ (dt ++ 10 :: rest), stk⟩ =
        (.ok (if dv = [] then [] else [32]), ⟨dt ++ 10 :: rest, stk⟩) := by
  obtain ⟨c, c2, c3, r, hdt1, hdt2⟩ := hdt
  have hcs : isSpace c = false := digit_not_space c hdt2
  have hcu : isUpper c = false := digit_not_upper c hdt2
  rcases hdv with rfl | ⟨hl, hu⟩
  · refine ⟨dt ++ 10 :: rest, ?_, ?_, ?_⟩
    · have e : sp (k5 + 1) ++ ([] ++ 32 :: (dt ++ 10 :: rest)) = (sp (k5 + 1) ++ [32]) ++ (dt ++ 10 :: rest) := by simp
      rw [e]
      have := spaces_ok (sp (k5 + 1) ++ [32]) (dt ++ 10 :: rest) stk (by
        rw [List.all_append, sp_all_space]; rfl) (by
        intro x hx; rw [hdt1] at hx; simp at hx; subst hx; exact hcs)
      simpa using this
    · rw [hdt1]
      simp only [if_true, List.nil_append, List.cons_append]
      gsimp [divisionParser, hcu]
    · simp only [if_true, List.nil_append]
      have := spaces_ok [] (dt ++ 10 :: rest) stk rfl (by
        intro x hx; rw [hdt1] at hx; simp at hx; subst hx; exact hcs)
      simpa using this
  · obtain ⟨a, b, c3, rfl⟩ : ∃ a b c3, dv = [a, b, c3] := by
      match dv, hl with
      | [a, b, c3], _ => exact ⟨a, b, c3, rfl⟩
    simp only [List.all_cons, List.all_nil, Bool.and_true, Bool.and_eq_true] at hu
    have hne : ¬ ([a, b, c3] : Bytes) = [] := by simp
    refine ⟨[a, b, c3] ++ 32 :: (dt ++ 10 :: rest), ?_, ?_, ?_⟩
    · have := spaces_ok (sp (k5 + 1)) ([a, b, c3] ++ 32 :: (dt ++ 10 :: rest)) stk (sp_all_space _) (by
        intro x hx; simp at hx; subst hx; exact upper_not_space _ hu.1)
      simpa [hne] using this
    · gsimp [divisionParser, hu.1, hu.2.1, hu.2.2, hne]
    · simp only [hne, if_false]
      have := spaces_ok [32] (dt ++ 10 :: rest) stk rfl (by
        intro x hx; rw [hdt1] at hx; simp at hx; subst hx; exact hcs)
      simpa using this

/-- `genbankLocusParser` on a line of the canonical shape -/
theorem locus_canon (name mol top dv : Bytes) (n : Nat) (d : Date) (k2 k3 k5 : Nat) (rest : Bytes)
    (stk : List Bytes) (hname : wordOk name = true) (hmol : wordOk mol = true) (htop : wordOk top = true)
    (hdv : dv = [] ∨ (dv.length = 3 ∧ dv.all isUpper = true)) (hd : d.valid = true)
    (hn : n ≤ 9223372036854775807) :
    locusParser ⟨locusCanon name (natDigits n) mol top k2 k3 k5 (dv ++ 32 :: (d.text ++ 10 :: rest)), stk⟩ =
      (.ok ⟨12, name, (n : Int), mol, top, dv, d⟩, ⟨rest, stk⟩) := by
  obtain ⟨hn1, hn2, cn, rn, hn3, hn4⟩ := wordOk_spec name hname
  obtain ⟨hm1, hm2, cm, rm, hm3, hm4⟩ := wordOk_spec mol hmol
  obtain ⟨ht1, ht2, ct, rt, ht3, ht4⟩ := wordOk_spec top htop
  obtain ⟨hdt, hdl⟩ := dateText_shape d hd
  obtain ⟨_, hdg, dg, dgs, hdg3, _⟩ := natDigits_spec n
  have hdg0 : isDigit dg = true := by rw [hdg3] at hdg; simp only [List.all_cons, Bool.and_eq_true] at hdg; exact hdg.1
  -- the run equations of the elements, for every stack
  have r1 := fun X s => lit_ok (bs "LOCUS") X s
  have r2 := fun X s => spaces_ok (sp 7) (name ++ X) s (sp_all_space 7) (by
    intro c hc; rw [hn3] at hc; simp at hc; subst hc; exact hn4)
  have r3 := fun X s => word_ok notSpace name (sp (k2 + 1) ++ X) s hn1 hn2 (by
    intro c hc; rw [sp_head_blank k2 X c hc]; exact blank_not_notSpace)
  have r4 := fun X s => spaces_ok (sp (k2 + 1)) (natDigits n ++ X) s (sp_all_space _) (by
    intro c hc; rw [hdg3] at hc; simp at hc; subst hc; exact digit_not_space _ hdg0)
  have r5 := fun X s => int_natDigits n (bs " bp" ++ X) s (by simp [bs, List.dropWhile, isDigit]) hn
  have r6 : ∀ X s, bpOrAa ⟨bs " bp" ++ X, s⟩ = (.ok (), ⟨X, s⟩) := by
    intro X s; gsimp [bpOrAa, lit_ok]
  have r7 := fun X s => spaces_ok (sp (k3 + 1)) (mol ++ X) s (sp_all_space _) (by
    intro c hc; rw [hm3] at hc; simp at hc; subst hc; exact hm4)
  have r8 := fun X s => word_ok notSpace mol (sp 5 ++ X) s hm1 hm2 (by
    intro c hc; rw [sp_head_blank 4 X c hc]; exact blank_not_notSpace)
  have r9 := fun X s => spaces_ok (sp 5) (top ++ X) s (sp_all_space _) (by
    intro c hc; rw [ht3] at hc; simp at hc; subst hc; exact ht4)
  have r10 := fun X s => word_ok notSpace top (sp (k5 + 1) ++ X) s ht1 ht2 (by
    intro c hc; rw [sp_head_blank k5 X c hc]; exact blank_not_notSpace)
  have r14 := fun s => line_ok d.text rest s hdl
  have hasd := date_roundtrip d hd
  -- the tail
  have htail := fun s => division_run dv d.text rest s k5 hdv hdt
  obtain ⟨mid, t1, t2, t3⟩ := htail (_ :: _ :: stk)
  simp only [locusParser, locusCanon, P.bind_run, push, getS, setS, P.pure_run,
    locusTry_ok _ _ _ _ (r1 _ _), r2, locusTry_ok _ _ _ _ (r3 _ _), r4, locusTry_ok _ _ _ _ (r5 _ _),
    locusTry_ok _ _ _ _ (r6 _ _), r7, locusTry_ok _ _ _ _ (r8 _ _), r9, locusTry_ok _ _ _ _ (r10 _ _)]
  rw [t1]; simp only []
  rw [t2]; simp only []
  rw [t3]; simp only [r14, hasd, Pars.drop, getS, setS, P.bind_run, P.pure_run, List.drop_succ_cons, List.drop_zero,
    sp_length]

end Gts.GenBank

namespace Gts.GenBank
open Gts.Pars

theorem sp_cons_blank (a b : Nat) (X : Bytes) : sp a ++ (32 :: (sp b ++ X)) = sp (a + b + 1) ++ X := by
  have : (32 : UInt8) :: (sp b ++ X) = sp 1 ++ (sp b ++ X) := rfl
  rw [this, ← List.append_assoc, ← List.append_assoc, sp_add, sp_add]
  congr 2; omega

theorem topologyText_ok (t : Int) (h : t = 0 ∨ t = 1) :
    wordOk (topologyText t) = true ∧ ∃ k5, 9 - (topologyText t).length = k5 + 1 := by
  rcases h with rfl | rfl
  · exact ⟨by decide, 2, by decide⟩
  · exact ⟨by decide, 0, by decide⟩

/-- **LOCUS line round trip.**  The line `GenBank.String` writes for fields in the domain `locusOk`
and a non-negative length, followed by a line feed, is read by `genbankLocusParser` as: field
depth 12, the same name, length, molecule, topology word, division and date. -/
theorem locus_roundtrip (f : Fields) (length : Int) (rest : Bytes) (stk : List Bytes)
    (h : locusOk f length = true) :
    locusParser ⟨locusLine f length ++ 10 :: rest, stk⟩ =
      (.ok ⟨12, f.locusName, length, f.molecule, topologyText f.topology, f.division, f.date⟩, ⟨rest, stk⟩) := by
  simp only [locusOk, Bool.and_eq_true, Bool.or_eq_true, beq_iff_eq, decide_eq_true_eq,
    List.isEmpty_iff] at h
  obtain ⟨⟨⟨⟨⟨hname, hmol⟩, htop⟩, hdv⟩, hd⟩, hl0, hl1⟩ := h
  obtain ⟨htw, k5, hk5⟩ := topologyText_ok f.topology htop
  obtain ⟨n, rfl⟩ : ∃ n : Nat, length = (n : Int) := ⟨length.toNat, by omega⟩
  have hdig : itoaB (n : Int) = natDigits n := by
    simp [itoaB]
  have hdv' : f.division = [] ∨ (f.division.length = 3 ∧ f.division.all isUpper = true) := hdv
  have e : locusLine f (n : Int) ++ 10 :: rest =
      locusCanon f.locusName (natDigits n) f.molecule (topologyText f.topology)
        ((17 - f.locusName.length) + (10 - (natDigits n).length)) (6 - f.molecule.length) k5
        (f.division ++ 32 :: (f.date.text ++ 10 :: rest)) := by
    have e1 : padRight 12 (bs "LOCUS") = bs "LOCUS" ++ sp 7 := by decide
    have e2 : bs " bp " = bs " bp" ++ [32] := by decide
    simp only [locusLine, locusCanon, hdig, e1, e2, padRight, padLeft, List.append_assoc, List.cons_append,
      List.nil_append, hk5]
    have h7 : sp (12 - (bs "LOCUS").length) = sp 7 := by decide
    have hb : ∀ (c : Nat) (X : Bytes), (32 : UInt8) :: (sp c ++ X) = sp (c + 1) ++ X := by
      intro c X; rw [sp_succ]; rfl
    rw [h7, sp_cons_blank, hb]
  rw [e]
  exact locus_canon _ _ _ _ n _ _ _ _ rest stk hname hmol htw hdv' hd (by omega)

end Gts.GenBank
