/-
  The loop of `quotedQualifierParser` that takes the continuation indent out of a quoted value:
  the ONE-PASS loop of today (`stripCont`, since 2612fae) against the loop it replaced
  (`stripContOld`: search from the start of the token, delete, search again — K7E, quadratic time).

  * `stripCont_onepass_eq`: for every token and every NON-EMPTY prefix the two give the same value
    (at every fuel of the old loop of at least `len(token)`).  The invariant: what the new loop has
    moved so far, `token[:w]`, holds no occurrence of `"\n" ++ prefix`; so the moment `token[:w]` ends
    with one, that occurrence is the FIRST one of the old loop's token `token[:w] ++ token[r:]`, and
    cutting the prefix off leaves a proper prefix of the earlier `token[:w]` — again without an
    occurrence (this is why no second test is needed after a cut, and why the old loop's habit of
    stripping a line that is indented twice, twice, is kept: the line feed that stays in `token[:w]`
    completes the next occurrence).
  * `stripCont_nil`: with the EMPTY prefix the new loop returns the token unchanged (the old loop did
    not end in Go when the token held a line feed).
  * `findSub` (`bytes.Index`) and "does not occur" (`findSub_skip`, `findSub_here`, `findSub_none`,
    `findSub_none_of_not_infix`, `not_infix_of_findSub_none`).
  Core Lean only.
-/
import Gts.Lemmas.ParsRun
namespace Gts.GenBank
open Gts.Pars

/-! ### `bytes.Index` -/

theorem findSub_skip (pat a Y : Bytes) (n : Nat)
    (h : ∀ i, i < a.length → pat.isPrefixOf (a.drop i ++ Y) = false) :
    findSub pat (a ++ Y) n = findSub pat Y (n + a.length) := by
  induction a generalizing n with
  | nil => simp
  | cons c a ih =>
    have h0 := h 0 (by simp)
    simp only [List.drop_zero] at h0
    have h' : ∀ i, i < a.length → pat.isPrefixOf (a.drop i ++ Y) = false := by
      intro i hi
      have := h (i + 1) (by simp only [List.length_cons]; omega)
      simpa using this
    simp only [List.cons_append] at h0 ⊢
    rw [findSub, h0]
    simp only [Bool.false_eq_true, if_false]
    rw [ih (n + 1) h', List.length_cons]; congr 1; omega

theorem findSub_here (pat X : Bytes) (n : Nat) (hne : pat ≠ []) : findSub pat (pat ++ X) n = some n := by
  cases pat with
  | nil => exact absurd rfl hne
  | cons p ps =>
    simp only [List.cons_append, findSub]
    have := isPrefixOf_self_append (p :: ps) X
    simp only [List.cons_append] at this
    simp [this]

theorem findSub_none (pat a : Bytes) (n : Nat) (hne : pat ≠ [])
    (h : ∀ i, i < a.length → pat.isPrefixOf (a.drop i) = false) : findSub pat a n = none := by
  have := findSub_skip pat a [] n (by simpa using h)
  simp only [List.append_nil] at this
  rw [this]
  cases pat with
  | nil => exact absurd rfl hne
  | cons p ps => simp [findSub]

/-- a pattern that does not occur is not found -/
theorem findSub_none_of_not_infix (pat : Bytes) : ∀ (t : Bytes) (n : Nat), ¬ pat <:+: t →
    findSub pat t n = none
  | [], n, h => by
    have : pat.isEmpty = false := by
      cases pat with
      | nil => exact absurd (List.infix_refl []) h
      | cons _ _ => rfl
    simp [findSub, this]
  | c :: t, n, h => by
    rw [findSub]
    have h1 : pat.isPrefixOf (c :: t) = false := by
      cases hp : pat.isPrefixOf (c :: t) with
      | false => rfl
      | true => exact absurd (List.isPrefixOf_iff_prefix.mp hp).isInfix h
    rw [h1]
    simp only [Bool.false_eq_true, if_false]
    exact findSub_none_of_not_infix pat t (n + 1) (fun hi => h (List.infix_cons hi))

/-- … and a pattern that is not found does not occur -/
theorem not_infix_of_findSub_none (pat : Bytes) : ∀ (t : Bytes) (n : Nat), findSub pat t n = none →
    ¬ pat <:+: t
  | [], n, h, hi => by
    have : pat = [] := List.eq_nil_of_infix_nil hi
    subst this
    simp [findSub] at h
  | c :: t, n, h, hi => by
    rw [findSub] at h
    split at h
    · cases h
    · rename_i hp
      rcases List.infix_cons_iff.mp hi with hpre | hin
      · exact hp (List.isPrefixOf_iff_prefix.mpr hpre)
      · exact not_infix_of_findSub_none pat t (n + 1) h hin

/-! ### the empty prefix -/

theorem stripLoop_zero (rp : Bytes) : ∀ (t acc : Bytes), stripLoop rp 0 acc t = acc.reverse ++ t
  | [], acc => by simp [stripLoop]
  | c :: t, acc => by
    rw [stripLoop]
    simp only [List.drop_zero, ite_self]
    rw [stripLoop_zero rp t (c :: acc)]
    simp

/-- WITH THE EMPTY PREFIX the loop of today ends (it is a counted loop) and returns the token as it
is: `token[:w]` ends with `"\n"` now and then, and `w -= 0` cuts nothing off.  (The loop it replaced
did not end on such a token: `stripContOld_empty_prefix_steps`.) -/
theorem stripCont_nil (t : Bytes) : stripCont [] t = t := by
  simp [stripCont, stripLoop_zero]

/-! ### one pass = search, delete, search again -/

/-- what the old loop makes of a token in which the pattern does not occur: nothing -/
theorem stripContOld_done (pre : Bytes) (f : Nat) (t : Bytes) (h : ¬ (10 :: pre) <:+: t) :
    stripContOld pre f t = t := by
  cases f with
  | zero => rfl
  | succ f => rw [stripContOld, findSub_none_of_not_infix _ t 0 h]

/-- THE INVARIANT.  `acc` (= `token[:w]` reversed) holds no occurrence of the pattern; then the rest
of the one-pass loop computes what the old loop computes from `token[:w] ++ token[r:]`, at every
fuel of at least that length. -/
theorem stripLoop_old (pre : Bytes) (hpre : pre ≠ []) : ∀ (t acc : Bytes) (f : Nat),
    ¬ (10 :: pre).reverse <:+: acc → acc.length + t.length ≤ f →
    stripLoop (10 :: pre).reverse pre.length acc t = stripContOld pre f (acc.reverse ++ t)
  | [], acc, f, hacc, _ => by
    rw [stripLoop, List.append_nil, stripContOld_done]
    intro hi
    exact hacc (by simpa using List.reverse_infix.mpr hi)
  | c :: t, acc, f, hacc, hf => by
    rw [stripLoop]
    by_cases hp : (10 :: pre).reverse.isPrefixOf (c :: acc) = true
    · -- `token[:w]` ends with the pattern: the first occurrence of the old loop's token
      rw [if_pos hp]
      obtain ⟨y, hy⟩ := List.isPrefixOf_iff_prefix.mp hp
      -- the prefix ends with `c`
      obtain ⟨s, hs⟩ : ∃ s, pre.reverse = c :: s := by
        cases hr : pre.reverse with
        | nil => exact absurd (List.reverse_eq_nil_iff.mp hr) hpre
        | cons c' s =>
          rw [List.reverse_cons, hr] at hy
          simp only [List.cons_append, List.cons.injEq] at hy
          exact ⟨s, by rw [hy.1]⟩
      have hpre' : pre = s.reverse ++ [c] := by
        have := congrArg List.reverse hs
        simpa using this
      have hacc' : acc = s ++ 10 :: y := by
        rw [List.reverse_cons, hs] at hy
        simp only [List.cons_append, List.cons.injEq, true_and] at hy
        rw [← hy]; simp
      have hk : pre.length = s.length + 1 := by rw [hpre']; simp
      have hdrop : (c :: acc).drop pre.length = 10 :: y := by
        rw [hacc', hk]
        simp
      rw [hdrop]
      -- the old loop's token
      have htok : acc.reverse ++ c :: t = y.reverse ++ ((10 :: pre) ++ t) := by
        rw [hacc', hpre']; simp
      -- no occurrence begins inside `y.reverse`
      have hno : ∀ i, i < y.reverse.length →
          (10 :: pre).isPrefixOf (y.reverse.drop i ++ ((10 :: pre) ++ t)) = false := by
        intro i hi
        cases hq : (10 :: pre).isPrefixOf (y.reverse.drop i ++ ((10 :: pre) ++ t)) with
        | false => rfl
        | true =>
          exfalso
          have h1 : (10 :: pre) <+: y.reverse.drop i ++ ((10 :: pre) ++ t) :=
            List.isPrefixOf_iff_prefix.mp hq
          have h2 : y.reverse.drop i ++ 10 :: s.reverse <+: y.reverse.drop i ++ ((10 :: pre) ++ t) := by
            refine ⟨c :: t, ?_⟩
            rw [hpre']; simp
          have h3 : (10 :: pre) <+: y.reverse.drop i ++ 10 :: s.reverse := by
            refine List.prefix_of_prefix_length_le h1 h2 ?_
            simp only [List.length_append, List.length_cons, List.length_drop, List.length_reverse,
              hk] at hi ⊢
            omega
          have h4 : (10 :: pre) <:+: acc.reverse := by
            have e : acc.reverse = y.reverse.take i ++ (y.reverse.drop i ++ 10 :: s.reverse) := by
              rw [← List.append_assoc, List.take_append_drop, hacc']; simp
            rw [e]
            exact h3.isInfix.trans (List.suffix_append _ _).isInfix
          exact hacc (by simpa using List.reverse_infix.mpr h4)
      obtain ⟨f', rfl⟩ : ∃ f', f = f' + 1 := ⟨f - 1, by simp only [List.length_cons] at hf; omega⟩
      rw [htok, stripContOld, findSub_skip _ _ _ _ hno, findSub_here _ _ _ (by simp)]
      simp only [Nat.zero_add]
      have hcut : (y.reverse ++ ((10 :: pre) ++ t)).take (y.reverse.length + 1) ++
          (y.reverse ++ ((10 :: pre) ++ t)).drop (y.reverse.length + 1 + pre.length) =
          (10 :: y).reverse ++ t := by
        have t1 : (y.reverse ++ ((10 :: pre) ++ t)).take (y.reverse.length + 1) = y.reverse ++ [10] := by
          rw [List.take_append, List.take_of_length_le (by omega),
            show y.reverse.length + 1 - y.reverse.length = 1 by omega]
          rfl
        have t2 : (y.reverse ++ ((10 :: pre) ++ t)).drop (y.reverse.length + 1 + pre.length) = t := by
          rw [List.drop_append, List.drop_eq_nil_of_le (by omega),
            show y.reverse.length + 1 + pre.length - y.reverse.length = (10 :: pre).length by
              simp only [List.length_cons]; omega,
            List.drop_left, List.nil_append]
        rw [t1, t2]; simp
      rw [hcut]
      refine stripLoop_old pre hpre t (10 :: y) f' ?_ ?_
      · -- `token[:w]` after the cut is a proper prefix of `token[:w]` before the byte was moved
        intro hi
        apply hacc
        rw [hacc']
        exact hi.trans (List.suffix_append s (10 :: y)).isInfix
      · rw [hacc'] at hf
        simp only [List.length_cons, List.length_append] at hf ⊢
        omega
    · -- `token[:w]` does not end with the pattern: still no occurrence in it
      rw [if_neg hp]
      have e : acc.reverse ++ c :: t = (c :: acc).reverse ++ t := by simp
      rw [e]
      refine stripLoop_old pre hpre t (c :: acc) f ?_ ?_
      · intro hi
        rcases List.infix_cons_iff.mp hi with h1 | h1
        · exact hp (List.isPrefixOf_iff_prefix.mpr h1)
        · exact hacc h1
      · simp only [List.length_cons] at hf ⊢
        omega

/-- **ONE PASS GIVES THE SAME VALUE.**  For every token and every NON-EMPTY continuation prefix the
one-pass loop of `quotedQualifierParser` (2612fae) returns what the loop it replaced returned — the
old loop run with any fuel of at least `len(token)`, that is: to its end (`stripContOld_exits`). -/
theorem stripCont_onepass_eq (pre : Bytes) (hpre : pre ≠ []) (t : Bytes) (f : Nat)
    (hf : t.length ≤ f) : stripCont pre t = stripContOld pre f t := by
  have := stripLoop_old pre hpre t [] f (by
    intro hi
    have := List.eq_nil_of_infix_nil hi
    simp at this) (by simpa using hf)
  simpa [stripCont] using this

end Gts.GenBank
